(* Structural facts about the count-state Markov chains of model/StateSpace.v.

   A  (unbounded, over the reals)  every rate matrix is a proper generator: rows sum to zero,
      off-diagonal entries are non-negative, and every rate produced by [transit] is non-negative
      for valid parameters (all three coalescent models, both state spaces, one and two loci).
   B  (bounded, exact rationals)   equivariance under renaming / reordering of demes.
   C  (bounded)                    each locus of the two-locus chain is marginally the one-locus
                                   chain, for every recombination rate; with r = 0 the fully
                                   linked states are closed.
   D  (bounded)                    consistency across sample sizes: removing one uniformly chosen
                                   sample intertwines the generators of n and n-1.
   E  (bounded)                    time rescaling.

   The bounded statements are proved by reflection: the boolean checkers of model/SpaceChecks.v
   are evaluated by vm_compute on the stated finite domains and lifted to propositions by the
   soundness lemmas below. *)
From Coq Require Import ZArith QArith Reals List Arith Bool Lia Lra.
From PG Require Import base.Ops base.OpsR model.CoalModels model.StateSpace model.Rewards model.Matrix
     model.Check model.LambdaSpec proofs.RatesProofs model.SpaceChecks.
Import ListNotations.

(* ====================================================================================== *)
(* boolean equality of states is equality                                                 *)
(* ====================================================================================== *)
Lemma list_eqb_eq {A} (eqb : A -> A -> bool) :
  (forall x y, eqb x y = true <-> x = y) ->
  forall l1 l2, list_eqb eqb l1 l2 = true <-> l1 = l2.
Proof.
  intros H. induction l1 as [|x l1 IH]; intros [|y l2]; simpl; split; intros E;
    try reflexivity; try discriminate.
  - apply andb_true_iff in E. destruct E as [E1 E2].
    apply H in E1. apply IH in E2. subst. reflexivity.
  - inversion E; subst. apply andb_true_iff. split; [apply H; reflexivity | apply IH; reflexivity].
Qed.

Lemma arr3_eqb_eq a b : arr3_eqb a b = true <-> a = b.
Proof.
  unfold arr3_eqb. apply list_eqb_eq. apply list_eqb_eq. apply list_eqb_eq.
  intros x y. apply Nat.eqb_eq.
Qed.

Lemma state_eqb_eq s t : state_eqb s t = true <-> s = t.
Proof.
  unfold state_eqb. rewrite andb_true_iff, !arr3_eqb_eq.
  destruct s as [a b], t as [c d]; simpl. split.
  - intros [-> ->]. reflexivity.
  - intros E. inversion E. split; reflexivity.
Qed.

Lemma state_eqb_refl s : state_eqb s s = true.
Proof. apply state_eqb_eq. reflexivity. Qed.

Lemma state_eqb_neq s t : state_eqb s t = false <-> s <> t.
Proof.
  split.
  - intros E H. apply state_eqb_eq in H. congruence.
  - intros H. destruct (state_eqb s t) eqn:E; [|reflexivity]. apply state_eqb_eq in E. contradiction.
Qed.

Lemma mem_state_In s l : mem_state s l = true <-> In s l.
Proof.
  unfold mem_state. rewrite existsb_exists. split.
  - intros [x [Hx E]]. apply state_eqb_eq in E. subst. exact Hx.
  - intros H. exists s. split; [exact H | apply state_eqb_refl].
Qed.

Lemma nodup_states_NoDup l : nodup_states l = true <-> NoDup l.
Proof.
  induction l as [|s l IH]; simpl.
  - split; [constructor | reflexivity].
  - rewrite andb_true_iff, negb_true_iff, IH. split.
    + intros [H1 H2]. constructor; [|exact H2]. intros Hin. apply mem_state_In in Hin. congruence.
    + intros H. inversion H; subst. split; [|assumption].
      destruct (mem_state s l) eqn:E; [|reflexivity]. apply mem_state_In in E. contradiction.
Qed.

(* ====================================================================================== *)
(* A. every rate matrix is a generator (over the reals, unbounded)                        *)
(* ====================================================================================== *)
Open Scope R_scope.

Definition Rsum (l : list R) : R := fold_right Rplus 0 l.

Lemma osum_R l : osum OpsR l = Rsum l.
Proof. reflexivity. Qed.

Lemma combine_map_self {A B} (f : A -> B) l : combine l (map f l) = map (fun x => (x, f x)) l.
Proof. induction l as [|x l IH]; simpl; [reflexivity | rewrite IH; reflexivity]. Qed.

(* the row of state s *)
Definition offdiag (trans : list (state * targets (T:=R))) (s t : state) : R :=
  if state_eqb s t then 0 else lookup_rate OpsR trans s t.
Definition gen_row (states : list state) (trans : list (state * targets (T:=R))) (s : state) : list R :=
  map (fun t => if state_eqb s t then - Rsum (map (offdiag trans s) states) else offdiag trans s t) states.

Lemma rate_matrix_rows states trans :
  rate_matrix OpsR states trans = map (gen_row states trans) states.
Proof.
  unfold rate_matrix. apply map_ext. intros s.
  cbv zeta. rewrite combine_map_self, map_map. unfold gen_row. apply map_ext. intros t. simpl.
  reflexivity.
Qed.

Lemma sum_diag (L : list state) s c (g : state -> R) :
  NoDup L -> In s L ->
  Rsum (map (fun t => if state_eqb s t then c else g t) L)
  = c + Rsum (map (fun t => if state_eqb s t then 0 else g t) L).
Proof.
  induction L as [|a L IH]; intros ND Hin; [destruct Hin|].
  inversion ND as [|? ? Hna ND']; subst. simpl.
  destruct Hin as [->|Hin].
  - rewrite state_eqb_refl.
    assert (E : forall t, In t L -> state_eqb s t = false).
    { intros t Ht. apply state_eqb_neq. intros ->. contradiction. }
    rewrite (map_ext_in (fun t => if state_eqb s t then c else g t) g).
    2:{ intros t Ht. rewrite (E t Ht). reflexivity. }
    rewrite (map_ext_in (fun t => if state_eqb s t then 0 else g t) g).
    2:{ intros t Ht. rewrite (E t Ht). reflexivity. }
    unfold Rsum. lra.
  - assert (E : state_eqb s a = false) by (apply state_eqb_neq; intros ->; contradiction).
    rewrite E. specialize (IH ND' Hin). unfold Rsum in *. rewrite IH. lra.
Qed.

Theorem rate_matrix_row_sums :
  forall states trans row, NoDup states -> In row (rate_matrix OpsR states trans) ->
    fold_right Rplus 0 row = 0.
Proof.
  intros states trans row ND Hin. rewrite rate_matrix_rows in Hin.
  apply in_map_iff in Hin. destruct Hin as [s [<- Hs]]. unfold gen_row.
  change (fold_right Rplus 0) with Rsum.
  rewrite (sum_diag states s (- Rsum (map (offdiag trans s) states)) (offdiag trans s) ND Hs).
  rewrite (map_ext (fun t => if state_eqb s t then 0 else offdiag trans s t) (offdiag trans s)).
  2:{ intros t. unfold offdiag. destruct (state_eqb s t); reflexivity. }
  lra.
Qed.

(* the same with the boolean form of the hypothesis (no two state_eqb-equal entries) *)
Corollary rate_matrix_row_sums_b :
  forall states trans row, nodup_states states = true -> In row (rate_matrix OpsR states trans) ->
    fold_right Rplus 0 row = 0.
Proof. intros states trans row H. apply rate_matrix_row_sums. apply nodup_states_NoDup. exact H. Qed.

(* entry (i, j) of the rate matrix *)
Lemma rate_matrix_entry states trans i j s t row x :
  nth_error states i = Some s -> nth_error states j = Some t ->
  nth_error (rate_matrix OpsR states trans) i = Some row -> nth_error row j = Some x ->
  x = if state_eqb s t then - Rsum (map (offdiag trans s) states) else lookup_rate OpsR trans s t.
Proof.
  intros Hs Ht Hrow Hx. rewrite rate_matrix_rows in Hrow.
  rewrite (map_nth_error _ _ _ Hs) in Hrow. inversion Hrow; subst row. unfold gen_row in Hx.
  rewrite (map_nth_error _ _ _ Ht) in Hx. inversion Hx. unfold offdiag.
  destruct (state_eqb s t); reflexivity.
Qed.

Definition rates_nonneg_in (trans : list (state * targets (T:=R))) : Prop :=
  forall s tg t r, In (s, tg) trans -> In (t, r) tg -> 0 <= r.

Lemma lookup_rate_nonneg trans s t : rates_nonneg_in trans -> 0 <= lookup_rate OpsR trans s t.
Proof.
  intros H. unfold lookup_rate.
  destruct (find (fun e => state_eqb (fst e) s) trans) as [[s' tg]|] eqn:E1; [|simpl; lra].
  destruct (find (fun e => state_eqb (fst e) t) tg) as [[t' r]|] eqn:E2; [|simpl; lra].
  apply find_some in E1. apply find_some in E2. destruct E1 as [E1 _], E2 as [E2 _].
  exact (H s' tg t' r E1 E2).
Qed.

Theorem rate_matrix_offdiag_nonneg :
  forall states trans, rates_nonneg_in trans ->
    forall i j s t row x,
      nth_error states i = Some s -> nth_error states j = Some t -> s <> t ->
      nth_error (rate_matrix OpsR states trans) i = Some row -> nth_error row j = Some x ->
      0 <= x.
Proof.
  intros states trans H i j s t row x Hs Ht Hne Hrow Hx.
  rewrite (rate_matrix_entry states trans i j s t row x Hs Ht Hrow Hx).
  apply state_eqb_neq in Hne. rewrite Hne. apply lookup_rate_nonneg. exact H.
Qed.

Definition nn (tg : targets (T:=R)) : Prop := Forall (fun e => 0 <= snd e) tg.

Lemma add_target_nn tg t r : nn tg -> 0 <= r -> nn (add_target OpsR tg t r).
Proof.
  unfold nn. induction tg as [|[t' r'] tg IH]; intros H Hr; simpl.
  - constructor; [exact Hr | constructor].
  - inversion H as [|? ? H1 H2]; subst. simpl in H1.
    destruct (state_eqb t' t).
    + constructor; [simpl; lra | exact H2].
    + constructor; [exact H1 | apply IH; assumption].
Qed.

Lemma dict_set_nn tg t r : nn tg -> 0 <= r -> nn (dict_set tg t r).
Proof.
  unfold nn. induction tg as [|[t' r'] tg IH]; intros H Hr; simpl.
  - constructor; [exact Hr | constructor].
  - inversion H as [|? ? H1 H2]; subst. simpl in H1.
    destruct (state_eqb t' t).
    + constructor; [exact Hr | exact H2].
    + constructor; [exact H1 | apply IH; assumption].
Qed.

Lemma fold_left_inv {A B} (Inv : A -> Prop) (f : A -> B -> A) l :
  (forall acc x, In x l -> Inv acc -> Inv (f acc x)) -> forall a, Inv a -> Inv (fold_left f l a).
Proof.
  induction l as [|x l IH]; intros H a Ha; simpl; [exact Ha|].
  apply IH.
  - intros acc y Hy. apply H. right. exact Hy.
  - apply H; [left; reflexivity | exact Ha].
Qed.

Lemma dict_union_nn a b : nn a -> nn b -> nn (dict_union a b).
Proof.
  intros Ha Hb. unfold dict_union. apply fold_left_inv; [|exact Ha].
  intros acc [t r] Hin Hacc. simpl. apply dict_set_nn; [exact Hacc|].
  unfold nn in Hb. rewrite Forall_forall in Hb. exact (Hb _ Hin).
Qed.

Lemma nn_nil : nn [].
Proof. constructor. Qed.

Lemma nth_nonneg l i : Forall (fun x => 0 <= x) l -> 0 <= nth i l 0.
Proof.
  intros H. destruct (nth_in_or_default i l 0) as [Hin| ->]; [|lra].
  rewrite Forall_forall in H. exact (H _ Hin).
Qed.

Record valid_params (P : params (T:=R)) : Prop := {
  vp_tscale : Forall (fun x => 0 < x) (p_tscale P);
  vp_mig : Forall (Forall (fun x => 0 <= x)) (p_mig P);
  vp_rec : 0 <= p_rec P;
  vp_model : valid_model (p_model P)
}.

Lemma mig_rate_nonneg P d1 d2 : valid_params P -> 0 <= mig_rate OpsR P d1 d2.
Proof.
  intros V. unfold mig_rate. change (o0 OpsR) with 0. apply nth_nonneg.
  destruct (nth_in_or_default d1 (p_mig P) []) as [Hin| ->]; [|constructor].
  pose proof (vp_mig P V) as H. rewrite Forall_forall in H. exact (H _ Hin).
Qed.

Lemma tscale_pos P d : valid_params P -> 0 < tscale_of OpsR P d.
Proof.
  intros V. unfold tscale_of. change (o1 OpsR) with 1.
  destruct (nth_in_or_default d (p_tscale P) 1) as [Hin| ->]; [|lra].
  pose proof (vp_tscale P V) as H. rewrite Forall_forall in H. exact (H _ Hin).
Qed.

Lemma ofN_nonneg k : 0 <= oofN OpsR k.
Proof. rewrite oofN_R. apply pos_INR. Qed.

Ltac opsR :=
  repeat match goal with
         | |- context [omul OpsR ?a ?b] => change (omul OpsR a b) with (a * b)
         | |- context [oadd OpsR ?a ?b] => change (oadd OpsR a b) with (a + b)
         end.

Lemma odiv_nonneg x y : 0 <= x -> 0 < y -> 0 <= odiv OpsR x y.
Proof. intros Hx Hy. rewrite odiv_R. apply Rle_mult_inv_pos; assumption. Qed.

(* ---------- the rate functions are non-negative for every argument ---------- *)
Lemma kingman_rate_nonneg b k : 0 <= kingman_rate OpsR b k.
Proof.
  unfold kingman_rate. destruct (Nat.eqb k 2); [|simpl; lra].
  apply odiv_nonneg; [apply ofN_nonneg|]. rewrite oofN_R. simpl. lra.
Qed.

Lemma kingman_rate_bc_nonneg b k : 0 <= kingman_rate_bc OpsR b k.
Proof.
  unfold kingman_rate_bc.
  repeat match goal with
         | |- context [match ?x with _ => _ end] => destruct x
         end;
    try (simpl; lra); try apply kingman_rate_nonneg; try apply ofN_nonneg.
Qed.

Lemma beta_base_pos a b k : 1 < a < 2 -> 0 < beta_base OpsR a b k.
Proof.
  intros Ha. rewrite beta_base_R. apply Rdiv_lt_0_compat; [|apply IZR_fact_pos].
  apply Rmult_lt_0_compat.
  - apply prod_range_pos. intros j Hj. apply le_INR in Hj.
    change (INR 2) with (1 + 1) in Hj. lra.
  - apply prod_range_pos. intros j _. pose proof (pos_INR j) as Hj. lra.
Qed.

Lemma binom_pmf_nonneg p n k : 0 < p < 1 -> 0 <= binom_pmf OpsR p n k.
Proof.
  intros Hp. unfold binom_pmf. destruct (Nat.ltb n k); [simpl; lra|].
  opsR. rewrite !opow_R, osub_R. change (o1 OpsR) with 1. change (oofZ OpsR) with IZR.
  apply Rmult_le_pos; [apply Rmult_le_pos|].
  - apply IZR_le. apply binom_nonneg.
  - apply pow_le. lra.
  - apply pow_le. lra.
Qed.

Lemma get_rate_bk_nonneg m b k : valid_model m -> 0 <= get_rate_bk OpsR m b k.
Proof.
  intros V. destruct m as [|a st|psi c st]; simpl in *.
  - apply kingman_rate_nonneg.
  - destruct (orb (Nat.ltb k 1) (Nat.ltb b k)); [simpl; lra|].
    opsR. apply Rmult_le_pos.
    + apply IZR_le. apply binom_nonneg.
    + apply Rlt_le. apply beta_base_pos. exact V.
  - destruct V as [Hpsi Hc]. opsR.
    pose proof (kingman_rate_nonneg b k). pose proof (binom_pmf_nonneg psi b k Hpsi).
    assert (0 <= binom_pmf OpsR psi b k * c) by (apply Rmult_le_pos; assumption). lra.
Qed.

Lemma Zprod_nonneg l : Forall (fun z => (0 <= z)%Z) l -> (0 <= fold_right Z.mul 1%Z l)%Z.
Proof.
  induction 1; simpl; [lia|]. apply Z.mul_nonneg_nonneg; assumption.
Qed.

Lemma oprod_nonneg l : Forall (fun x => 0 <= x) l -> 0 <= oprod OpsR l.
Proof.
  induction 1; simpl; [lra|]. apply Rmult_le_pos; assumption.
Qed.

Lemma get_rate_bc_nonneg m n b k : valid_model m -> 0 <= get_rate_bc OpsR m n b k.
Proof.
  intros V. destruct m as [|a st|psi c st]; simpl in *.
  - apply kingman_rate_bc_nonneg.
  - opsR. apply Rmult_le_pos.
    + apply IZR_le. apply Zprod_nonneg. apply Forall_forall. intros z Hz.
      apply in_map_iff in Hz. destruct Hz as [x [<- _]]. apply binom_nonneg.
    + apply Rlt_le. apply beta_base_pos. exact V.
  - destruct V as [Hpsi Hc].
    assert (Hp : 0 <= oprod OpsR (map (fun bk => binom_pmf OpsR psi (fst bk) (snd bk)) (combine b k))).
    { apply oprod_nonneg. apply Forall_forall. intros z Hz.
      apply in_map_iff in Hz. destruct Hz as [x [<- _]]. apply binom_pmf_nonneg. exact Hpsi. }
    pose proof (kingman_rate_bc_nonneg b k) as Hk.
    opsR.
    destruct (Nat.ltb (sum_nat b) n).
    + opsR. pose proof (binom_pmf_nonneg psi (n - sum_nat b) 0 Hpsi) as Hq.
      assert (0 <= oprod OpsR (map (fun bk => binom_pmf OpsR psi (fst bk) (snd bk)) (combine b k))
                   * binom_pmf OpsR psi (n - sum_nat b) 0) by (apply Rmult_le_pos; assumption).
      assert (0 <= oprod OpsR (map (fun bk => binom_pmf OpsR psi (fst bk) (snd bk)) (combine b k))
                   * binom_pmf OpsR psi (n - sum_nat b) 0 * c) by (apply Rmult_le_pos; assumption).
      lra.
    + assert (0 <= oprod OpsR (map (fun bk => binom_pmf OpsR psi (fst bk) (snd bk)) (combine b k)) * c)
        by (apply Rmult_le_pos; assumption).
      lra.
Qed.

(* ---------- outcomes of coalesce ---------- *)
Definition nno (l : list (list nat * R)) : Prop := Forall (fun o => 0 <= snd o) l.

Lemma nno_flat_map {A} (f : A -> list (list nat * R)) l :
  (forall x, In x l -> nno (f x)) -> nno (flat_map f l).
Proof.
  intros H. unfold nno. apply Forall_forall. intros o Ho.
  apply in_flat_map in Ho. destruct Ho as [x [Hx Ho]].
  specialize (H x Hx). unfold nno in H. rewrite Forall_forall in H. exact (H o Ho).
Qed.

Lemma nno_single x r : 0 <= r -> nno [(x, r)].
Proof. intros H. constructor; [exact H | constructor]. Qed.

Lemma kingman_coalesce_bc_nn blocks : nno (kingman_coalesce_bc OpsR blocks).
Proof.
  unfold kingman_coalesce_bc. apply nno_flat_map. intros i _. apply nno_flat_map. intros j _.
  destruct (Nat.eqb i j).
  - destruct (Nat.ltb 1 (nth i blocks 0%nat)); [|constructor].
    apply nno_single. apply kingman_rate_bc_nonneg.
  - destruct (Nat.ltb j i); [|constructor].
    destruct (andb _ _); [|constructor].
    apply nno_single. apply kingman_rate_bc_nonneg.
Qed.

Lemma mm_coalesce_bc_nn m blocks : valid_model m -> nno (mm_coalesce_bc OpsR m blocks).
Proof.
  intros V. unfold mm_coalesce_bc. apply nno_flat_map. intros comb _.
  destruct (Nat.ltb 1 (sum_nat comb)); [|constructor].
  apply nno_single. apply get_rate_bc_nonneg. exact V.
Qed.

Lemma nno_map_seq (f : nat -> list nat * R) l : (forall k, 0 <= snd (f k)) -> nno (map f l).
Proof.
  intros H. unfold nno. apply Forall_forall. intros o Ho. apply in_map_iff in Ho.
  destruct Ho as [k [<- _]]. apply H.
Qed.

Lemma coalesce_nn m blocks : valid_model m -> nno (coalesce OpsR m blocks).
Proof.
  intros V. unfold coalesce.
  destruct blocks as [|b0 [|b1 rest]].
  - destruct m; [apply kingman_coalesce_bc_nn | apply mm_coalesce_bc_nn; exact V ..].
  - destruct m.
    + destruct (Nat.ltb 1 b0); [|constructor]. apply nno_single. apply get_rate_bk_nonneg. exact V.
    + apply nno_map_seq. intros k. simpl. apply (get_rate_bk_nonneg (Beta alpha scale_time)). exact V.
    + apply nno_map_seq. intros k. simpl. apply (get_rate_bk_nonneg (Dirac psi c scale_time)). exact V.
  - destruct m; [apply kingman_coalesce_bc_nn | apply mm_coalesce_bc_nn; exact V ..].
Qed.

(* ---------- the transitions ---------- *)
Section Transit.
  Variable P : params (T:=R).
  Hypothesis V : valid_params P.

  Lemma migrate_unlinked_nn s : nn (migrate_unlinked OpsR P s).
  Proof.
    unfold migrate_unlinked.
    apply fold_left_inv; [|apply nn_nil]. intros acc l _ Hacc.
    apply fold_left_inv; [|exact Hacc]. intros acc2 [d1 d2] _ Hacc2.
    apply fold_left_inv; [|exact Hacc2]. intros acc3 b _ Hacc3.
    destruct (andb _ _); [|exact Hacc3].
    apply add_target_nn; [exact Hacc3|]. opsR.
    apply Rmult_le_pos; [apply mig_rate_nonneg; exact V | apply ofN_nonneg].
  Qed.

  Lemma migrate_linked_nn s : nn (migrate_linked OpsR P s).
  Proof.
    unfold migrate_linked. destruct (Nat.eqb (n_loci s) 1); [apply nn_nil|].
    apply fold_left_inv; [|apply nn_nil]. intros acc2 [d1 d2] _ Hacc2.
    apply fold_left_inv; [|exact Hacc2]. intros acc3 b _ Hacc3.
    destruct (andb _ _); [|exact Hacc3].
    apply add_target_nn; [exact Hacc3|]. opsR.
    apply Rmult_le_pos; [apply mig_rate_nonneg; exact V | apply ofN_nonneg].
  Qed.

  Lemma coalesce1_nn s : nn (coalesce1 OpsR P s).
  Proof.
    unfold coalesce1.
    apply fold_left_inv; [|apply nn_nil]. intros acc d _ Hacc.
    apply fold_left_inv; [|exact Hacc]. intros acc2 br Hbr Hacc2.
    apply add_target_nn; [exact Hacc2|].
    apply odiv_nonneg; [|apply tscale_pos; exact V].
    pose proof (coalesce_nn (p_model P) (nth d (nth 0 (lin s) []) []) (vp_model P V)) as H.
    unfold nno in H. rewrite Forall_forall in H. exact (H _ Hbr).
  Qed.

  Lemma coalesce2_nn s : nn (coalesce2 OpsR P s).
  Proof.
    unfold coalesce2.
    apply fold_left_inv; [|apply nn_nil]. intros acc d _ Hacc.
    apply fold_left_inv; [|exact Hacc]. intros acc2 [c1 c2] _ Hacc2.
    assert (Hr1 : forall n1, 0 <= odiv OpsR (get_rate_bk OpsR (p_model P) n1 2) (tscale_of OpsR P d)).
    { intros n1. apply odiv_nonneg; [apply get_rate_bk_nonneg; exact (vp_model P V) | apply tscale_pos; exact V]. }
    assert (Hr2 : forall k, 0 <= odiv OpsR (oofN OpsR k) (tscale_of OpsR P d)).
    { intros k. apply odiv_nonneg; [apply ofN_nonneg | apply tscale_pos; exact V]. }
    cbv zeta.
    repeat match goal with
           | |- nn (if ?c then _ else _) => destruct c
           | |- nn (match ?c with _ => _ end) => destruct c
           | |- nn (add_target _ _ _ _) => apply add_target_nn
           end; try exact Hacc2; try apply Hr1; try apply Hr2.
  Qed.

  Lemma recombine_nn s : nn (recombine OpsR P s).
  Proof.
    unfold recombine. destruct (Nat.eqb (n_loci s) 1); [apply nn_nil|].
    apply fold_left_inv; [|apply nn_nil]. intros acc d _ Hacc.
    destruct (all_loci _ _); [|exact Hacc].
    apply add_target_nn; [exact Hacc|]. opsR.
    apply Rmult_le_pos; [exact (vp_rec P V) | apply ofN_nonneg].
  Qed.

  Lemma transit_nn s : nn (transit OpsR P s).
  Proof.
    unfold transit.
    assert (H0 : nn (dict_union (migrate_linked OpsR P s) (migrate_unlinked OpsR P s)))
      by (apply dict_union_nn; [apply migrate_linked_nn | apply migrate_unlinked_nn]).
    cbv zeta. destruct (is_absorbing s); [exact H0|].
    apply dict_union_nn; [|apply recombine_nn].
    apply dict_union_nn; [exact H0|].
    unfold coalesce_tr. destruct (Nat.eqb (n_loci s) 1); [apply coalesce1_nn | apply coalesce2_nn].
  Qed.
End Transit.

Theorem transit_nonneg :
  forall (P : params (T:=R)) (s : state), valid_params P ->
    forall t r, In (t, r) (transit OpsR P s) -> 0 <= r.
Proof.
  intros P s V t r Hin. pose proof (transit_nn P V s) as H. unfold nn in H.
  rewrite Forall_forall in H. exact (H _ Hin).
Qed.

(* ====================================================================================== *)
(* reflection helpers                                                                     *)
(* ====================================================================================== *)
Close Scope R_scope.
Open Scope Q_scope.

Lemma Qeqb_eq x y : Qeq_bool x y = true -> x == y.
Proof. apply Qeq_bool_iff. Qed.

Lemma Qleb_le x y : Qle_bool x y = true -> x <= y.
Proof. apply Qle_bool_iff. Qed.

Lemma subset_st_In a b : subset_st a b = true -> forall s, In s a -> In s b.
Proof.
  unfold subset_st. intros H s Hs. rewrite forallb_forall in H. apply mem_state_In. exact (H s Hs).
Qed.

Lemma list_eqb_Forall2 {A} (eqb : A -> A -> bool) (R : A -> A -> Prop) :
  (forall x y, eqb x y = true -> R x y) ->
  forall l1 l2, list_eqb eqb l1 l2 = true -> Forall2 R l1 l2.
Proof.
  intros H. induction l1 as [|x l1 IH]; intros [|y l2] E; simpl in E; try discriminate; constructor.
  - apply H. apply andb_true_iff in E. tauto.
  - apply IH. apply andb_true_iff in E. tauto.
Qed.

Lemma lookup_rate_row trans s t : lookup_rate OpsQ trans s t = rate_of (row_of trans s) t.
Proof.
  unfold lookup_rate, row_of, rate_of.
  destruct (find (fun e => state_eqb (fst e) s) trans) as [[s' tg]|]; reflexivity.
Qed.

Ltac split_andb :=
  repeat match goal with
         | H : andb _ _ = true |- _ => apply andb_true_iff in H; destruct H
         end.

(* ====================================================================================== *)
(* B. renaming / reordering demes                                                         *)
(* ====================================================================================== *)

(* [sigma] lists, for every position of the new deme axis, the old deme placed there.
   (i) the state sets correspond, (ii) so do all rates, (iii) the initial vectors,
   (iv) the rewards; RDeme follows the deme to its new position. *)
Definition perm_spec (P : params (T:=Q)) (nl nd n : nat) (sigma : list nat) : Prop :=
  exists states trans states' trans',
    get_transitions OpsQ P sc_fuel nl nd n = Some (states, trans) /\
    get_transitions OpsQ (perm_params sigma P) sc_fuel nl nd n = Some (states', trans') /\
    (forall s, In s states -> In (perm_state sigma s) states') /\
    (forall s', In s' states' -> exists s, In s states /\ s' = perm_state sigma s) /\
    (forall s t, In s states -> In t states ->
       lookup_rate OpsQ trans' (perm_state sigma s) (perm_state sigma t) == lookup_rate OpsQ trans s t) /\
    (forall config n_unlinked s, In config (compositions_of n nd) -> (n_unlinked <= n)%nat -> In s states ->
       alpha_at (perm_config sigma config) n_unlinked states' (perm_state sigma s)
       == alpha_at config n_unlinked states s) /\
    (forall s r, In s states -> In r [RTreeHeight; RTotalBranchLength; RUnit] ->
       reward_get OpsQ n r (perm_state sigma s) == reward_get OpsQ n r s) /\
    (forall s d, In s states -> (d < nd)%nat ->
       reward_get OpsQ n (RDeme (pos_of d sigma)) (perm_state sigma s) == reward_get OpsQ n (RDeme d) s).

Lemma perm_check_sound P nl nd n sigma : perm_check P nl nd n sigma = true -> perm_spec P nl nd n sigma.
Proof.
  unfold perm_check, perm_spec. intros H.
  destruct (get_transitions OpsQ P sc_fuel nl nd n) as [[states trans]|]; [|discriminate].
  destruct (get_transitions OpsQ (perm_params sigma P) sc_fuel nl nd n) as [[states' trans']|]; [|discriminate].
  exists states, trans, states', trans'. split_andb.
  repeat match goal with H : forallb _ _ = true |- _ => rewrite forallb_forall in H end.
  split; [reflexivity|]. split; [reflexivity|].
  split; [|split; [|split; [|split; [|split]]]].
  - intros s Hs. eapply subset_st_In; [eassumption|]. apply in_map. exact Hs.
  - intros s' Hs'.
    match goal with H : subset_st states' _ = true |- _ => pose proof (subset_st_In _ _ H s' Hs') as Hin end.
    apply in_map_iff in Hin. destruct Hin as [s [E Hs]]. exists s. split; [exact Hs | symmetry; exact E].
  - intros s t Hs Ht. rewrite !lookup_rate_row.
    match goal with H : forall x, In x states -> forallb _ states = true |- _ =>
      pose proof (H s Hs) as Hst end.
    cbv zeta in Hst. rewrite forallb_forall in Hst. apply Qeqb_eq. exact (Hst t Ht).
  - intros config nu s Hc Hnu Hs.
    match goal with H : forall x, In x (compositions_of n nd) -> _ |- _ => pose proof (H config Hc) as Hcfg end.
    rewrite forallb_forall in Hcfg.
    assert (Hin : In nu (seq 0 (S n))) by (apply in_seq; lia).
    specialize (Hcfg nu Hin). cbv zeta in Hcfg. rewrite forallb_forall in Hcfg.
    apply Qeqb_eq. exact (Hcfg s Hs).
  - intros s r Hs Hr.
    match goal with H : forall x, In x states -> forallb _ perm_rewards = true |- _ =>
      pose proof (H s Hs) as Hrw end.
    rewrite forallb_forall in Hrw. apply Qeqb_eq. exact (Hrw r Hr).
  - intros s d Hs Hd.
    match goal with H : forall x, In x states -> forallb _ (seq 0 nd) = true |- _ =>
      pose proof (H s Hs) as Hrw end.
    rewrite forallb_forall in Hrw. apply Qeqb_eq. apply Hrw. apply in_seq. lia.
Qed.

Lemma perm_check_all1_lift nd ns :
  perm_check_all1 nd ns = true ->
  forall n V m lc sigma, In n ns -> In V (sc_vals nd) -> In m sc_models -> In lc [true; false] ->
    In sigma (deme_perms nd) -> perm_spec (sc_mkP V m lc) 1 nd n sigma.
Proof.
  unfold perm_check_all1. intros H n V m lc sigma Hn HV Hm Hlc Hs. apply perm_check_sound.
  rewrite forallb_forall in H. specialize (H n Hn).
  rewrite forallb_forall in H. specialize (H V HV).
  rewrite forallb_forall in H. specialize (H m Hm).
  rewrite forallb_forall in H. specialize (H lc Hlc).
  rewrite forallb_forall in H. exact (H sigma Hs).
Qed.

Lemma perm_check_all2_lift nd ns :
  perm_check_all2 nd ns = true ->
  forall n V sigma, In n ns -> In V (sc_vals nd) -> In sigma (deme_perms nd) ->
    perm_spec (sc_mkP V Kingman true) 2 nd n sigma.
Proof.
  unfold perm_check_all2. intros H n V sigma Hn HV Hs. apply perm_check_sound.
  rewrite forallb_forall in H. specialize (H n Hn).
  rewrite forallb_forall in H. specialize (H V HV).
  rewrite forallb_forall in H. exact (H sigma Hs).
Qed.

Lemma perm_run_1_2 : perm_check_all1 2 [2; 3; 4]%nat = true.
Proof. vm_compute. reflexivity. Qed.
Lemma perm_run_1_3 : perm_check_all1 3 [2; 3; 4]%nat = true.
Proof. vm_compute. reflexivity. Qed.
Lemma perm_run_2_2 : perm_check_all2 2 [2; 3]%nat = true.
Proof. vm_compute. reflexivity. Qed.

(* Bounds: one locus, 2 and 3 demes, 2 <= n <= 4 (every sample configuration = composition of n
   over the demes, through alpha), every permutation of the demes, Kingman / Beta(3/2) /
   Dirac(1/3, 5/2), lineage- and block-counting, two valuations of (time scales, migration
   matrix) per number of demes ([sc_vals]); two loci (Kingman, lineage counting), 2 demes,
   2 <= n <= 3, every number of unlinked lineages. *)
Theorem deme_permutation_equivariant_bounded :
  (forall nd n V m lc sigma,
     In nd [2; 3]%nat -> In n [2; 3; 4]%nat -> In V (sc_vals nd) ->
     In m [Kingman; Beta (3#2) false; Dirac (1#3) (5#2) false] -> In lc [true; false] ->
     In sigma (deme_perms nd) ->
     perm_spec (sc_mkP V m lc) 1 nd n sigma) /\
  (forall n V sigma,
     In n [2; 3]%nat -> In V (sc_vals 2) -> In sigma (deme_perms 2) ->
     perm_spec (sc_mkP V Kingman true) 2 2 n sigma).
Proof.
  split.
  - intros nd n V m lc sigma Hnd. destruct Hnd as [<-|[<-|[]]].
    + apply (perm_check_all1_lift 2 _ perm_run_1_2).
    + apply (perm_check_all1_lift 3 _ perm_run_1_3).
  - apply (perm_check_all2_lift 2 _ perm_run_2_2).
Qed.

(* ====================================================================================== *)
(* C. single-locus marginals of the two-locus chain                                       *)
(* ====================================================================================== *)

(* for every two-locus state s and every one-locus state c other than the image of s, the total
   two-locus rate from s into the states projecting onto c is the one-locus rate from the image
   of s to c; transitions that do not change the image are invisible *)
Definition marginal_spec (V : sc_val) (r : Q) (nd n l : nat) : Prop :=
  exists st2 tr2 st1 tr1,
    get_transitions OpsQ (params2 V r) sc_fuel 2 nd n = Some (st2, tr2) /\
    get_transitions OpsQ (params2 V r) sc_fuel 1 nd n = Some (st1, tr1) /\
    forall s, In s st2 ->
      In (proj_locus nd l s) st1 /\
      (forall t q, In (t, q) (transit OpsQ (params2 V r) s) -> In (proj_locus nd l t) st1) /\
      (forall c, In c st1 -> c <> proj_locus nd l s ->
         rate_into (proj_locus nd l) (transit OpsQ (params2 V r) s) c
         == rate_of (transit OpsQ (params2 V r) (proj_locus nd l s)) c).

Lemma marginal_check_sound V r nd n l : marginal_check V r nd n l = true -> marginal_spec V r nd n l.
Proof.
  unfold marginal_check, marginal_spec. cbv zeta. intros H.
  destruct (get_transitions OpsQ (params2 V r) sc_fuel 2 nd n) as [[st2 tr2]|]; [|discriminate].
  destruct (get_transitions OpsQ (params2 V r) sc_fuel 1 nd n) as [[st1 tr1]|]; [|discriminate].
  exists st2, tr2, st1, tr1. split; [reflexivity|]. split; [reflexivity|].
  intros s Hs. rewrite forallb_forall in H. specialize (H s Hs). split_andb.
  split; [|split].
  - apply mem_state_In. assumption.
  - intros t q Htq.
    match goal with H : forallb _ (transit _ _ _) = true |- _ => rewrite forallb_forall in H;
      specialize (H (t, q) Htq) end.
    apply mem_state_In. assumption.
  - intros c Hc Hne.
    match goal with H : forallb _ st1 = true |- _ => rewrite forallb_forall in H;
      specialize (H c Hc) end.
    match goal with H : orb _ _ = true |- _ => apply orb_true_iff in H; destruct H as [E|E] end.
    + apply state_eqb_eq in E. contradiction.
    + apply Qeqb_eq. exact E.
Qed.

Lemma marginal_check_all_lift nd ns :
  marginal_check_all nd ns = true ->
  forall n V r l, In n ns -> In V (sc_vals nd) -> In r sc_recs -> In l [0; 1]%nat ->
    marginal_spec V r nd n l.
Proof.
  unfold marginal_check_all. intros H n V r l Hn HV Hr Hl. apply marginal_check_sound.
  rewrite forallb_forall in H. specialize (H n Hn).
  rewrite forallb_forall in H. specialize (H V HV).
  rewrite forallb_forall in H. specialize (H r Hr).
  rewrite forallb_forall in H. exact (H l Hl).
Qed.

Lemma marginal_run_1 : marginal_check_all 1 [2; 3; 4; 5; 6]%nat = true.
Proof. vm_compute. reflexivity. Qed.
Lemma marginal_run_2 : marginal_check_all 2 [2; 3; 4]%nat = true.
Proof. vm_compute. reflexivity. Qed.

(* Bounds: Kingman, lineage counting; one deme 2 <= n <= 6, two demes 2 <= n <= 4;
   recombination rate in {0, 1/3, 7/2, 1000}; two valuations of (time scales, migration). *)
Theorem two_locus_marginal_is_single_locus_bounded :
  (forall n V r l, In n [2; 3; 4; 5; 6]%nat -> In V (sc_vals 1) -> In r [0; 1#3; 7#2; 1000] -> In l [0; 1]%nat ->
     marginal_spec V r 1 n l) /\
  (forall n V r l, In n [2; 3; 4]%nat -> In V (sc_vals 2) -> In r [0; 1#3; 7#2; 1000] -> In l [0; 1]%nat ->
     marginal_spec V r 2 n l).
Proof.
  split.
  - apply (marginal_check_all_lift 1 _ marginal_run_1).
  - apply (marginal_check_all_lift 2 _ marginal_run_2).
Qed.

(* ---------- r = 0: completely linked samples stay completely linked ---------- *)

(* reachability through transitions of non-zero rate *)
Inductive nz_reach (P : params (T:=Q)) : state -> state -> Prop :=
| nz_refl : forall s, nz_reach P s s
| nz_step : forall s t u q, nz_reach P s t -> In (u, q) (transit OpsQ P t) -> ~ q == 0 -> nz_reach P s u.

Definition r0_spec (V : sc_val) (nd n : nat) : Prop :=
  exists st tr,
    get_transitions OpsQ (params2 V 0) sc_fuel 2 nd n = Some (st, tr) /\
    forall config, In config (compositions_of n nd) ->
      (exists s, In s st /\ linked_start config s = true) /\
      (forall s t, In s st -> linked_start config s = true -> nz_reach (params2 V 0) s t ->
         In t st /\ fully_linked t = true).

Lemma r0_check_sound V nd n : r0_check V nd n = true -> r0_spec V nd n.
Proof.
  unfold r0_check, r0_spec. cbv zeta. intros H.
  destruct (get_transitions OpsQ (params2 V 0) sc_fuel 2 nd n) as [[st tr]|]; [|discriminate].
  exists st, tr. split; [reflexivity|]. split_andb.
  repeat match goal with H : forallb _ _ = true |- _ => rewrite forallb_forall in H end.
  match goal with H : forall x, In x st -> _ |- _ => rename H into Hstep end.
  match goal with H : forall x, In x (compositions_of n nd) -> _ |- _ => rename H into Hstart end.
  intros config Hc. specialize (Hstart config Hc). split_andb.
  match goal with H : existsb _ st = true |- _ => apply existsb_exists in H; rename H into Hex end.
  match goal with H : forallb _ st = true |- _ => rewrite forallb_forall in H; rename H into Hfl end.
  split; [exact Hex|].
  intros s t Hs Hls Hreach.
  assert (Hs0 : In s st /\ fully_linked s = true).
  { split; [exact Hs|]. specialize (Hfl s Hs). rewrite Hls in Hfl. exact Hfl. }
  clear Hls Hs. induction Hreach as [s|s t u q Hreach IH Hin Hq]; [exact Hs0|].
  destruct (IH Hs0) as [Ht Hft].
  specialize (Hstep t Ht). rewrite Hft in Hstep. simpl in Hstep.
  rewrite forallb_forall in Hstep. specialize (Hstep (u, q) Hin). simpl in Hstep.
  apply andb_true_iff in Hstep. destruct Hstep as [Hm Hz]. split; [apply mem_state_In; exact Hm|].
  apply orb_true_iff in Hz. destruct Hz as [Hz|Hz]; [|exact Hz].
  apply Qeqb_eq in Hz. contradiction.
Qed.

Lemma r0_check_all_lift nd ns :
  r0_check_all nd ns = true -> forall n V, In n ns -> In V (sc_vals nd) -> r0_spec V nd n.
Proof.
  unfold r0_check_all. intros H n V Hn HV. apply r0_check_sound.
  rewrite forallb_forall in H. specialize (H n Hn).
  rewrite forallb_forall in H. exact (H V HV).
Qed.

Lemma r0_run_1 : r0_check_all 1 [2; 3; 4; 5; 6]%nat = true.
Proof. vm_compute. reflexivity. Qed.
Lemma r0_run_2 : r0_check_all 2 [2; 3; 4]%nat = true.
Proof. vm_compute. reflexivity. Qed.

(* Bounds: one deme 2 <= n <= 6, two demes 2 <= n <= 4, every sample configuration;
   [linked_start config] is the support of alpha for that configuration with n_unlinked = 0. *)
Theorem r0_linked_closed_bounded :
  (forall n V, In n [2; 3; 4; 5; 6]%nat -> In V (sc_vals 1) -> r0_spec V 1 n) /\
  (forall n V, In n [2; 3; 4]%nat -> In V (sc_vals 2) -> r0_spec V 2 n).
Proof.
  split.
  - apply (r0_check_all_lift 1 _ r0_run_1).
  - apply (r0_check_all_lift 2 _ r0_run_2).
Qed.

(* ====================================================================================== *)
(* D. consistency across sample sizes                                                     *)
(* ====================================================================================== *)

Definition proj_spec (m : cmodel (T:=Q)) (n : nat) : Prop :=
  exists sn tn sm tm,
    get_transitions OpsQ (ss_params m) sc_fuel 1 1 n = Some (sn, tn) /\
    get_transitions OpsQ (ss_params m) sc_fuel 1 1 (n - 1) = Some (sm, tm) /\
    (* removing one sample is a probability kernel from the states of n to the states of n-1 *)
    (forall s, In s sn ->
       (forall t p, In (t, p) (remove_one n s) -> In t sm /\ 0 <= p) /\
       qsum (map snd (remove_one n s)) == 1) /\
    (* K_n Phi = Phi K_{n-1} *)
    Forall2 (Forall2 Qeq)
            (mmul OpsQ (rate_matrix OpsQ sn tn) (phi_mat n sn sm))
            (mmul OpsQ (phi_mat n sn sm) (rate_matrix OpsQ sm tm)) /\
    (* the initial state goes to the initial state *)
    phi n (initial_state 1 1 n n) (initial_state 1 1 (n - 1) (n - 1)) == 1 /\
    (* site-frequency rewards: hypergeometric down-projection *)
    (forall j s, (1 <= j <= n - 2)%nat -> In s sn ->
       phi_apply n sm (sfs_reward (n - 1) j) s
       == (Z.of_nat (n - j) # Pos.of_nat n) * sfs_reward n j s
          + (Z.of_nat (j + 1) # Pos.of_nat n) * sfs_reward n (j + 1) s) /\
    (* tree height and total branch length of the subsample are dominated *)
    (forall r s, In r [RTreeHeight; RTotalBranchLength] -> In s sn ->
       phi_apply n sm (reward_get OpsQ (n - 1) r) s <= reward_get OpsQ n r s).

Lemma proj_check_sound m n : proj_check m n = true -> proj_spec m n.
Proof.
  unfold proj_check, proj_spec. cbv zeta. intros H.
  destruct (get_transitions OpsQ (ss_params m) sc_fuel 1 1 n) as [[sn tn]|]; [|discriminate].
  destruct (get_transitions OpsQ (ss_params m) sc_fuel 1 1 (n - 1)) as [[sm tm]|]; [|discriminate].
  exists sn, tn, sm, tm. split; [reflexivity|]. split; [reflexivity|]. split_andb.
  match goal with H : mat_eqb _ _ = true |- _ => rename H into Hmat end.
  match goal with H : Qeq_bool _ 1 = true |- _ => rename H into Hinit end.
  repeat match goal with H : forallb _ _ = true |- _ => rewrite forallb_forall in H end.
  split; [|split; [|split; [|split]]].
  - intros s Hs.
    match goal with H : forall x, In x sn -> andb (forallb _ (remove_one n x)) _ = true |- _ =>
      pose proof (H s Hs) as Hk end.
    apply andb_true_iff in Hk. destruct Hk as [Hk1 Hk2]. split.
    + intros t p Htp. rewrite forallb_forall in Hk1. specialize (Hk1 (t, p) Htp). simpl in Hk1.
      apply andb_true_iff in Hk1. destruct Hk1 as [Ha Hb].
      split; [apply mem_state_In; exact Ha | apply Qleb_le; exact Hb].
    + apply Qeqb_eq. exact Hk2.
  - unfold mat_eqb in Hmat. revert Hmat. apply list_eqb_Forall2.
    intros x y. apply list_eqb_Forall2. intros a b. apply Qeqb_eq.
  - apply Qeqb_eq. exact Hinit.
  - intros j s Hj Hs.
    match goal with H : forall x, In x (seq 1 (n - 2)) -> _ |- _ => pose proof (H j) as Hsfs end.
    assert (Hin : In j (seq 1 (n - 2))) by (apply in_seq; lia).
    specialize (Hsfs Hin). rewrite forallb_forall in Hsfs. apply Qeqb_eq. exact (Hsfs s Hs).
  - intros r s Hr Hs.
    match goal with H : forall x, In x [RTreeHeight; RTotalBranchLength] -> _ |- _ =>
      pose proof (H r Hr) as Hdom end.
    rewrite forallb_forall in Hdom. apply Qleb_le. exact (Hdom s Hs).
Qed.

Lemma proj_check_all_lift ns :
  proj_check_all ns = true -> forall n m, In n ns -> In m ss_models -> proj_spec m n.
Proof.
  unfold proj_check_all. intros H n m Hn Hm. apply proj_check_sound.
  rewrite forallb_forall in H. specialize (H n Hn).
  rewrite forallb_forall in H. exact (H m Hm).
Qed.

Lemma proj_run : proj_check_all [3; 4; 5; 6; 7; 8; 9; 10]%nat = true.
Proof. vm_compute. reflexivity. Qed.

(* Bounds: one deme, block counting, time scale 7/3, 3 <= n <= 10, five models. *)
Theorem sample_size_projection_bounded :
  forall n m, In n [3; 4; 5; 6; 7; 8; 9; 10]%nat ->
    In m [Kingman; Beta (3#2) false; Beta (5#4) false; Dirac (1#3) (5#2) false; Dirac (3#4) (1#2) false] ->
    proj_spec m n.
Proof. apply (proj_check_all_lift _ proj_run). Qed.

(* ====================================================================================== *)
(* E. time rescaling                                                                      *)
(* ====================================================================================== *)

(* multiplying every time scale by c and dividing every migration rate and the recombination
   rate by c leaves the states (and the order of every transition dictionary) unchanged and
   divides every rate by c *)
Definition rescale_spec (P : params (T:=Q)) (c : Q) (nl nd n : nat) : Prop :=
  exists states trans trans',
    get_transitions OpsQ P sc_fuel nl nd n = Some (states, trans) /\
    get_transitions OpsQ (scale_params c P) sc_fuel nl nd n = Some (states, trans') /\
    forall s, In s states ->
      Forall2 (fun e e' => fst e = fst e' /\ snd e' == snd e / c)
              (transit OpsQ P s) (transit OpsQ (scale_params c P) s).

Lemma rescale_check_sound P c nl nd n : rescale_check P c nl nd n = true -> rescale_spec P c nl nd n.
Proof.
  unfold rescale_check, rescale_spec. intros H.
  destruct (get_transitions OpsQ P sc_fuel nl nd n) as [[states trans]|]; [|discriminate].
  destruct (get_transitions OpsQ (scale_params c P) sc_fuel nl nd n) as [[states' trans']|]; [|discriminate].
  split_andb.
  match goal with H : list_eqb state_eqb _ _ = true |- _ =>
    apply (list_eqb_eq state_eqb state_eqb_eq) in H; subst states' end.
  exists states, trans, trans'. split; [reflexivity|]. split; [reflexivity|].
  intros s Hs.
  match goal with H : forallb _ states = true |- _ => rewrite forallb_forall in H; specialize (H s Hs);
    rename H into Hts end.
  unfold targets_scaled in Hts. revert Hts. apply list_eqb_Forall2.
  intros e e' E. apply andb_true_iff in E. destruct E as [E1 E2].
  split; [apply state_eqb_eq; exact E1 | apply Qeqb_eq; exact E2].
Qed.

Lemma rescale_check_all1_lift nd ns :
  rescale_check_all1 nd ns = true ->
  forall n V m lc c, In n ns -> In V (sc_vals nd) -> In m sc_models -> In lc [true; false] ->
    In c sc_scales -> rescale_spec (sc_mkP V m lc) c 1 nd n.
Proof.
  unfold rescale_check_all1. intros H n V m lc c Hn HV Hm Hlc Hc. apply rescale_check_sound.
  rewrite forallb_forall in H. specialize (H n Hn).
  rewrite forallb_forall in H. specialize (H V HV).
  rewrite forallb_forall in H. specialize (H m Hm).
  rewrite forallb_forall in H. specialize (H lc Hlc).
  rewrite forallb_forall in H. exact (H c Hc).
Qed.

Lemma rescale_check_all2_lift nd ns :
  rescale_check_all2 nd ns = true ->
  forall n V c, In n ns -> In V (sc_vals nd) -> In c sc_scales ->
    rescale_spec (sc_mkP V Kingman true) c 2 nd n.
Proof.
  unfold rescale_check_all2. intros H n V c Hn HV Hc. apply rescale_check_sound.
  rewrite forallb_forall in H. specialize (H n Hn).
  rewrite forallb_forall in H. specialize (H V HV).
  rewrite forallb_forall in H. exact (H c Hc).
Qed.

Lemma rescale_run_1_1 : rescale_check_all1 1 [2; 3; 4]%nat = true.
Proof. vm_compute. reflexivity. Qed.
Lemma rescale_run_1_2 : rescale_check_all1 2 [2; 3; 4]%nat = true.
Proof. vm_compute. reflexivity. Qed.
Lemma rescale_run_1_3 : rescale_check_all1 3 [2; 3; 4]%nat = true.
Proof. vm_compute. reflexivity. Qed.
Lemma rescale_run_2_1 : rescale_check_all2 1 [2; 3; 4]%nat = true.
Proof. vm_compute. reflexivity. Qed.
Lemma rescale_run_2_2 : rescale_check_all2 2 [2; 3; 4]%nat = true.
Proof. vm_compute. reflexivity. Qed.

(* Bounds: c in {2, 3/5}; one locus, 1 to 3 demes, 2 <= n <= 4, three models, both spaces;
   two loci (Kingman, lineage counting): one and two demes, 2 <= n <= 4;
   two valuations each. *)
Theorem rate_matrix_time_rescaling_bounded :
  (forall nd n V m lc c,
     In nd [1; 2; 3]%nat -> In n [2; 3; 4]%nat -> In V (sc_vals nd) ->
     In m [Kingman; Beta (3#2) false; Dirac (1#3) (5#2) false] -> In lc [true; false] ->
     In c [2; 3#5] ->
     rescale_spec (sc_mkP V m lc) c 1 nd n) /\
  (forall n V c, In n [2; 3; 4]%nat -> In V (sc_vals 1) -> In c [2; 3#5] ->
     rescale_spec (sc_mkP V Kingman true) c 2 1 n) /\
  (forall n V c, In n [2; 3; 4]%nat -> In V (sc_vals 2) -> In c [2; 3#5] ->
     rescale_spec (sc_mkP V Kingman true) c 2 2 n).
Proof.
  split; [|split].
  - intros nd n V m lc c Hnd. destruct Hnd as [<-|[<-|[<-|[]]]].
    + apply (rescale_check_all1_lift 1 _ rescale_run_1_1).
    + apply (rescale_check_all1_lift 2 _ rescale_run_1_2).
    + apply (rescale_check_all1_lift 3 _ rescale_run_1_3).
  - apply (rescale_check_all2_lift 1 _ rescale_run_2_1).
  - apply (rescale_check_all2_lift 2 _ rescale_run_2_2).
Qed.

(* ====================================================================================== *)
Print Assumptions rate_matrix_row_sums.
Print Assumptions rate_matrix_row_sums_b.
Print Assumptions rate_matrix_offdiag_nonneg.
Print Assumptions transit_nonneg.
Print Assumptions deme_permutation_equivariant_bounded.
Print Assumptions two_locus_marginal_is_single_locus_bounded.
Print Assumptions r0_linked_closed_bounded.
Print Assumptions sample_size_projection_bounded.
Print Assumptions rate_matrix_time_rescaling_bounded.
