From Coq Require Import List.
From PG Require Import model.Serial.
Import ListNotations.

Section SerialLaws.
  Variables Config Caches Json : Type.
  Variable empty_caches : Caches.
  Variable drop : Caches -> Caches.
  Variable enc : Config * Caches -> Json.
  Variable dec : Json -> option (Config * Caches).
  Hypothesis codec_roundtrip : forall v, dec (enc v) = Some v.
  Variables Stat Value : Type.
  Variable stat : Config -> Stat -> Value.

  Notation obj := (obj Config Caches).

  Theorem roundtrip_preserves_config : forall o : obj,
    exists o', from_json Config Caches Json dec (snd (to_json Config Caches Json drop enc o)) = Some o'
               /\ o_config Config Caches o' = o_config Config Caches o
               /\ o_caches Config Caches o' = drop (o_caches Config Caches o).
  Proof.
    intros o. unfold from_json, to_json; simpl. rewrite codec_roundtrip.
    eexists; split; [reflexivity|split; reflexivity].
  Qed.

  Theorem save_does_not_alter_original : forall o : obj,
    fst (to_json Config Caches Json drop enc o) = o.
  Proof. reflexivity. Qed.

  (* to_json is total on every object: it never fails, whatever caches exist *)
  Theorem to_json_total : forall o : obj, exists j, snd (to_json Config Caches Json drop enc o) = j.
  Proof. intros; eexists; reflexivity. Qed.

  Theorem results_after_load : forall (o : obj) s,
    exists o', from_json Config Caches Json dec (snd (to_json Config Caches Json drop enc o)) = Some o'
               /\ query Config Caches Stat Value stat o' s = query Config Caches Stat Value stat o s.
  Proof.
    intros o s. destruct (roundtrip_preserves_config o) as [o' [H1 [H2 _]]].
    exists o'. split; [exact H1|]. unfold query. rewrite H2. reflexivity.
  Qed.

  Theorem repeated_cycles : forall n (o : obj),
    exists o', cycles Config Caches Json drop enc dec n o = Some o'
               /\ o_config Config Caches o' = o_config Config Caches o
               /\ forall s, query Config Caches Stat Value stat o' s = query Config Caches Stat Value stat o s.
  Proof.
    induction n as [|n IH]; intros o; simpl.
    - exists o. repeat split.
    - destruct (roundtrip_preserves_config o) as [o1 [H1 [H2 _]]].
      unfold to_json in H1; simpl in H1. unfold to_json; simpl. rewrite H1.
      destruct (IH o1) as [o' [Hc [Hcfg Hq]]]. exists o'. split; [exact Hc|].
      split; [congruence|]. intros s. rewrite Hq. unfold query. rewrite H2. reflexivity.
  Qed.
End SerialLaws.
Print Assumptions roundtrip_preserves_config.
Print Assumptions save_does_not_alter_original.
Print Assumptions results_after_load.
Print Assumptions repeated_cycles.
