(* Theorems about the PINNED reading gen/SpectrumGen.v of the two-dimensional spectrum class SFS2 of phasegen/spectrum.py (re-checked
   against the current source on every run by translate/spectrum2coq.py): SFS2.fold entry by entry (the up to four mirrored entries, the
   middle bin counted once, zero outside the folded block), it keeps symmetry, is additive and turns an outer product into the outer
   product of the folded vectors (hence: the fold of the covariance matrix of the bins is the covariance matrix of the folded bins);
   SFS2.symmetrize entry by entry. *)
From Coq Require Import List Arith Bool Lia.
From PG Require Import base.Ops base.OpsR model.CoalModels model.Matrix gen.NpSfs gen.SfsGen proofs.GenSfsEquiv gen.SpectrumGen.
Import ListNotations.

Section Lists.
  Context {A : Type}.
  Lemma nth_firstn_lt (d : A) : forall l i w, i < w -> nth i (firstn w l) d = nth i l d.
  Proof. induction l as [|x l IH]; intros [|i] [|w] H; cbn; try reflexivity; try lia. apply IH. lia. Qed.
  Lemma nth_skipn_add (d : A) : forall l w i, nth i (skipn w l) d = nth (w + i) l d.
  Proof. induction l as [|x l IH]; intros [|w] i; cbn; try reflexivity; [destruct i; reflexivity | apply IH]. Qed.
End Lists.

Section Fold.
  Context {T : Type} (OP : Ops T).
  Notation mgetT := (mget OP).
  Notation sqT := (@sq T).

  Lemma sq_pad_top N w (D : list (list T)) : sqT N D -> w <= N -> sqT N (firstn w D ++ mzero OP (N - w) N).
  Proof.
    intros [HL HR] Hw. split.
    - rewrite app_length, firstn_length, HL. unfold mzero. rewrite repeat_length. lia.
    - intros a Ha. destruct (Nat.lt_ge_cases a w) as [H|H].
      + rewrite app_nth1 by (rewrite firstn_length, HL; lia). rewrite nth_firstn_lt by exact H. apply HR. exact Ha.
      + rewrite app_nth2 by (rewrite firstn_length, HL; lia). rewrite firstn_length, HL, Nat.min_l by lia.
        unfold mzero. rewrite (nth_indep _ [] (vzero OP N)) by (rewrite repeat_length; lia). rewrite nth_repeat. unfold vzero. apply repeat_length.
  Qed.

  Lemma sq_pad_rev N w (D : list (list T)) : sqT N D -> w <= N -> sqT N (rev (skipn w D) ++ mzero OP w N).
  Proof.
    intros [HL HR] Hw. split.
    - rewrite app_length, rev_length, skipn_length, HL. unfold mzero. rewrite repeat_length. lia.
    - intros a Ha. destruct (Nat.lt_ge_cases a (N - w)) as [H|H].
      + rewrite app_nth1 by (rewrite rev_length, skipn_length, HL; lia). rewrite rev_nth by (rewrite skipn_length, HL; lia).
        rewrite skipn_length, HL, nth_skipn_add. apply HR. lia.
      + rewrite app_nth2 by (rewrite rev_length, skipn_length, HL; lia). rewrite rev_length, skipn_length, HL.
        unfold mzero. rewrite (nth_indep _ [] (vzero OP N)) by (rewrite repeat_length; lia). rewrite nth_repeat. unfold vzero. apply repeat_length.
  Qed.

  Lemma mget_pad_top N w (D : list (list T)) a b : sqT N D -> w <= N -> a < N -> b < N ->
    mgetT (firstn w D ++ mzero OP (N - w) N) a b = if Nat.ltb a w then mgetT D a b else o0 OP.
  Proof.
    intros [HL HR] Hw Ha Hb. unfold mget. destruct (Nat.ltb_spec a w) as [H|H].
    - rewrite app_nth1 by (rewrite firstn_length, HL; lia). rewrite nth_firstn_lt by exact H. reflexivity.
    - rewrite app_nth2 by (rewrite firstn_length, HL; lia). rewrite firstn_length, HL, Nat.min_l by lia.
      unfold mzero. rewrite (nth_indep _ [] (vzero OP N)) by (rewrite repeat_length; lia). rewrite nth_repeat. unfold vzero. apply nth_repeat.
  Qed.

  Lemma mget_pad_rev N w (D : list (list T)) a b : sqT N D -> w <= N -> a < N -> b < N ->
    mgetT (rev (skipn w D) ++ mzero OP w N) a b = if Nat.ltb a (N - w) then mgetT D (N - 1 - a) b else o0 OP.
  Proof.
    intros [HL HR] Hw Ha Hb. unfold mget. destruct (Nat.ltb_spec a (N - w)) as [H|H].
    - rewrite app_nth1 by (rewrite rev_length, skipn_length, HL; lia). rewrite rev_nth by (rewrite skipn_length, HL; lia).
      rewrite skipn_length, HL, nth_skipn_add. f_equal. f_equal. lia.
    - rewrite app_nth2 by (rewrite rev_length, skipn_length, HL; lia). rewrite rev_length, skipn_length, HL.
      unfold mzero. rewrite (nth_indep _ [] (vzero OP N)) by (rewrite repeat_length; lia). rewrite nth_repeat. unfold vzero. apply nth_repeat.
  Qed.

  (* one round: rows b and N - 1 - b are added (row b only when b < w, the mirrored one only when b < N - w), then transposed *)
  Lemma fold_round_entry N w (D : list (list T)) a b : sqT N D -> w <= N -> a < N -> b < N ->
    mgetT (SFS2_fold_round OP N w D) a b
    = oadd OP (if Nat.ltb b w then mgetT D b a else o0 OP) (if Nat.ltb b (N - w) then mgetT D (N - 1 - b) a else o0 OP).
  Proof.
    intros HD Hw Ha Hb. unfold SFS2_fold_round. rewrite (mget_mtrans OP N) by assumption.
    rewrite (mget_madd OP N) by (try apply sq_pad_top; try apply sq_pad_rev; assumption).
    rewrite mget_pad_top, mget_pad_rev by assumption. reflexivity.
  Qed.

  Lemma sq_fold_round N w (D : list (list T)) : sqT N (SFS2_fold_round OP N w D).
  Proof. apply sq_mtrans. Qed.
End Fold.

Lemma SFS2_w_bounds N : SFS2_w N <= N /\ N - SFS2_w N <= SFS2_w N /\ (N = 2 * (N - SFS2_w N) \/ N = 2 * (N - SFS2_w N) + 1).
Proof.
  unfold SFS2_w. pose proof (Nat.div_mod N 2 ltac:(lia)) as H. pose proof (Nat.mod_upper_bound N 2 ltac:(lia)) as H2.
  destruct (Nat.eqb_spec (N mod 2) 1) as [E|E]; lia.
Qed.

Section FoldR.
  Import Reals. Local Open Scope R_scope.
  Notation mgetR := (mget OpsR).
  Definition ind (c : bool) : R := if c then 1 else 0.

  (* SFS2.fold entry by entry: the (up to) four mirrored entries, each present exactly when its row / column index exists on that side *)
  Theorem fold_entry N (D : list (list R)) a b : sq N D -> (a < N)%nat -> (b < N)%nat ->
    let w := SFS2_w N in
    mgetR (SFS2_fold OpsR N D) a b
    = ind (Nat.ltb a w) * ind (Nat.ltb b w) * mgetR D a b
      + ind (Nat.ltb a (N - w)) * ind (Nat.ltb b w) * mgetR D (N - 1 - a) b
      + ind (Nat.ltb a w) * ind (Nat.ltb b (N - w)) * mgetR D a (N - 1 - b)
      + ind (Nat.ltb a (N - w)) * ind (Nat.ltb b (N - w)) * mgetR D (N - 1 - a) (N - 1 - b).
  Proof.
    intros HD Ha Hb w. destruct (SFS2_w_bounds N) as [Hw _]. fold w in Hw. unfold SFS2_fold. fold w.
    rewrite fold_round_entry by (try apply sq_fold_round; assumption).
    assert (Hb' : (N - 1 - b < N)%nat) by lia.
    rewrite !fold_round_entry by assumption.
    unfold ind. cbn [oadd o0 OpsR].
    destruct (Nat.ltb a w), (Nat.ltb a (N - w)), (Nat.ltb b w), (Nat.ltb b (N - w)); ring.
  Qed.

  Theorem fold_outside_is_zero N (D : list (list R)) a b : sq N D -> (a < N)%nat -> (b < N)%nat ->
    (SFS2_w N <= a \/ SFS2_w N <= b)%nat -> mgetR (SFS2_fold OpsR N D) a b = 0.
  Proof.
    intros HD Ha Hb Hout. rewrite fold_entry by assumption. cbv zeta. destruct (SFS2_w_bounds N) as [Hw [Hw2 _]].
    unfold ind. destruct Hout as [H|H].
    - destruct (Nat.ltb_spec a (SFS2_w N)); [lia|]. destruct (Nat.ltb_spec a (N - SFS2_w N)); [lia|]. ring.
    - destruct (Nat.ltb_spec b (SFS2_w N)); [lia|]. destruct (Nat.ltb_spec b (N - SFS2_w N)); [lia|]. ring.
  Qed.

  (* two bins that both have a mirror image: the four mirrored entries are added *)
  Theorem fold_mirrored_bins N (D : list (list R)) a b : sq N D -> (a < N - SFS2_w N)%nat -> (b < N - SFS2_w N)%nat ->
    mgetR (SFS2_fold OpsR N D) a b = mgetR D a b + mgetR D (N - 1 - a) b + mgetR D a (N - 1 - b) + mgetR D (N - 1 - a) (N - 1 - b).
  Proof.
    intros HD Ha Hb. destruct (SFS2_w_bounds N) as [Hw [Hw2 _]]. rewrite fold_entry by (try assumption; lia). cbv zeta. unfold ind.
    destruct (Nat.ltb_spec a (SFS2_w N)); [|lia]. destruct (Nat.ltb_spec a (N - SFS2_w N)); [|lia].
    destruct (Nat.ltb_spec b (SFS2_w N)); [|lia]. destruct (Nat.ltb_spec b (N - SFS2_w N)); [|lia]. ring.
  Qed.

  (* the middle bin (it exists when N is odd: index w - 1 = N - w is its own mirror image) is counted ONCE *)
  Theorem fold_middle_bin N (D : list (list R)) b : sq N D -> (N = 2 * (N - SFS2_w N) + 1)%nat -> (b < N - SFS2_w N)%nat ->
    mgetR (SFS2_fold OpsR N D) (N - SFS2_w N) b = mgetR D (N - SFS2_w N) b + mgetR D (N - SFS2_w N) (N - 1 - b)
    /\ mgetR (SFS2_fold OpsR N D) (N - SFS2_w N) (N - SFS2_w N) = mgetR D (N - SFS2_w N) (N - SFS2_w N).
  Proof.
    intros HD Hodd Hb. destruct (SFS2_w_bounds N) as [Hw [Hw2 _]].
    split; rewrite fold_entry by (try assumption; lia); cbv zeta; unfold ind.
    - destruct (Nat.ltb_spec (N - SFS2_w N) (SFS2_w N)); [|lia]. destruct (Nat.ltb_spec (N - SFS2_w N) (N - SFS2_w N)); [lia|].
      destruct (Nat.ltb_spec b (SFS2_w N)); [|lia]. destruct (Nat.ltb_spec b (N - SFS2_w N)); [|lia]. ring.
    - destruct (Nat.ltb_spec (N - SFS2_w N) (SFS2_w N)); [|lia]. destruct (Nat.ltb_spec (N - SFS2_w N) (N - SFS2_w N)); [lia|]. ring.
  Qed.

  Theorem fold_keeps_symmetry N (D : list (list R)) : sq N D ->
    (forall a b, (a < N)%nat -> (b < N)%nat -> mgetR D a b = mgetR D b a) ->
    forall a b, (a < N)%nat -> (b < N)%nat -> mgetR (SFS2_fold OpsR N D) a b = mgetR (SFS2_fold OpsR N D) b a.
  Proof.
    intros HD Hs a b Ha Hb. rewrite !fold_entry by assumption. cbv zeta.
    rewrite (Hs a b), (Hs (N - 1 - a)%nat b), (Hs a (N - 1 - b)%nat), (Hs (N - 1 - a)%nat (N - 1 - b)%nat) by lia. ring.
  Qed.

  (* folding is linear and turns an outer product into the outer product of the folded vectors: so the fold of a covariance matrix
     E[x y^T] - E[x] E[y]^T of the bins is the covariance matrix of the folded bins *)
  Definition fold_vec N (x : list R) (a : nat) : R :=
    ind (Nat.ltb a (SFS2_w N)) * nth a x 0 + ind (Nat.ltb a (N - SFS2_w N)) * nth (N - 1 - a) x 0.

  Theorem fold_of_outer_product N (x y : list R) a b : length x = N -> length y = N -> (a < N)%nat -> (b < N)%nat ->
    mgetR (SFS2_fold OpsR N (outer OpsR x y)) a b = fold_vec N x a * fold_vec N y b.
  Proof.
    intros Hx Hy Ha Hb. rewrite fold_entry by (try apply sq_outer; assumption). cbv zeta.
    rewrite !(mget_outer OpsR) by lia. unfold fold_vec. cbn [omul o0 OpsR]. ring.
  Qed.

  Theorem fold_is_additive N (A B : list (list R)) a b : sq N A -> sq N B -> (a < N)%nat -> (b < N)%nat ->
    mgetR (SFS2_fold OpsR N (madd OpsR A B)) a b = mgetR (SFS2_fold OpsR N A) a b + mgetR (SFS2_fold OpsR N B) a b.
  Proof.
    intros HA HB Ha Hb. rewrite !fold_entry by (try apply sq_madd; assumption). cbv zeta.
    rewrite !(mget_madd OpsR N) by (try assumption; lia). cbn [oadd OpsR]. ring.
  Qed.

  Theorem symmetrize_entry N (D : list (list R)) a b : sq N D -> (a < N)%nat -> (b < N)%nat ->
    mgetR (SFS2_symmetrize OpsR N D) a b = (mgetR D a b + mgetR D b a) / 2.
  Proof.
    intros HD Ha Hb. unfold SFS2_symmetrize.
    rewrite (mget_mhalf OpsR N) by (try apply sq_madd; try apply sq_mtrans; assumption).
    rewrite (mget_madd OpsR N) by (try apply sq_mtrans; assumption). rewrite (mget_mtrans OpsR N) by assumption.
    cbn [oadd OpsR]. unfold odiv, oofN. cbn. unfold Rdiv. reflexivity.
  Qed.
End FoldR.
Print Assumptions fold_entry.
Print Assumptions fold_of_outer_product.

From Coq Require Import Reals Lra.
Local Open Scope R_scope.

(* second-order folding: for ANY form cov that is additive in each argument (the covariance the translated accumulate computes is:
   C15_source_covariance_bilinear) and any family e_0 .. e_{N-1} of reward vectors, the matrix D[a, b] = cov(e_a, e_b) folds to the matrix of
   the FOLDED rewards f_a = e_a + e_{N-1-a}: SFS2.fold(D)[a, b] = cov(f_a, f_b) for bins that have a mirror image *)
Section FoldCov.
  Variable V : Type.
  Variable add : V -> V -> V.
  Variable cov : V -> V -> R.
  Hypothesis cov_add_l : forall x y z, cov (add x y) z = cov x z + cov y z.
  Hypothesis cov_add_r : forall x y z, cov z (add x y) = cov z x + cov z y.
  Variable e : nat -> V.
  Variable N : nat.

  Definition cov_matrix : list (list R) := map (fun a => map (fun b => cov (e a) (e b)) (seq 0 N)) (seq 0 N).

  Lemma sq_cov_matrix : sq N cov_matrix.
  Proof.
    split; [unfold cov_matrix; rewrite map_length; apply seq_length|].
    intros a Ha. unfold cov_matrix. rewrite (nth_indep _ [] (map (fun b => cov (e 0%nat) (e b)) (seq 0 N))) by (rewrite map_length, seq_length; exact Ha).
    rewrite (map_nth (fun a => map (fun b => cov (e a) (e b)) (seq 0 N)) (seq 0 N) 0%nat a). rewrite map_length. apply seq_length.
  Qed.

  Lemma mget_cov_matrix a b : (a < N)%nat -> (b < N)%nat -> mget OpsR cov_matrix a b = cov (e a) (e b).
  Proof.
    intros Ha Hb. unfold mget, cov_matrix.
    rewrite (nth_indep _ [] (map (fun b => cov (e 0%nat) (e b)) (seq 0 N))) by (rewrite map_length, seq_length; exact Ha).
    rewrite (map_nth (fun a => map (fun b => cov (e a) (e b)) (seq 0 N)) (seq 0 N) 0%nat a). rewrite seq_nth by exact Ha. cbn [Nat.add].
    change (o0 OpsR) with 0. rewrite (nth_indep _ 0 (cov (e a) (e 0%nat))) by (rewrite map_length, seq_length; exact Hb).
    rewrite (map_nth (fun b => cov (e a) (e b)) (seq 0 N) 0%nat b). rewrite seq_nth by exact Hb. reflexivity.
  Qed.

  Theorem fold_of_covariance_matrix_is_covariance_of_folded_rewards : forall a b,
    (a < N - SFS2_w N)%nat -> (b < N - SFS2_w N)%nat ->
    mget OpsR (SFS2_fold OpsR N cov_matrix) a b = cov (add (e a) (e (N - 1 - a)%nat)) (add (e b) (e (N - 1 - b)%nat)).
  Proof.
    intros a b Ha Hb. rewrite (fold_mirrored_bins N cov_matrix a b sq_cov_matrix Ha Hb).
    rewrite !mget_cov_matrix by lia. rewrite cov_add_l, !cov_add_r. ring.
  Qed.

  (* the bin that is its own mirror image (N odd) keeps its single reward *)
  Theorem fold_of_covariance_matrix_middle_bin : forall b,
    (N = 2 * (N - SFS2_w N) + 1)%nat -> (b < N - SFS2_w N)%nat ->
    mget OpsR (SFS2_fold OpsR N cov_matrix) (N - SFS2_w N) b = cov (e (N - SFS2_w N)%nat) (add (e b) (e (N - 1 - b)%nat)).
  Proof.
    intros b Hodd Hb. destruct (fold_middle_bin N cov_matrix b sq_cov_matrix Hodd Hb) as [H _]. rewrite H.
    rewrite !mget_cov_matrix by lia. rewrite cov_add_r. reflexivity.
  Qed.
End FoldCov.
Print Assumptions fold_of_covariance_matrix_is_covariance_of_folded_rewards.
