(* Homogeneity of the model time scales (C09): Kingman T(cN) = c T(N); Dirac T(cN) = c^2 T(N);
   Beta T(cN) = c^(alpha-1) T(N) for the documented scaling
       T(N) = m^alpha N^(alpha-1) / alpha / B(2-alpha, alpha),  m = 1 + 1/(2^(alpha-1) (alpha-1)),
   where B(2-alpha, alpha) enters only as a positive constant K(alpha). *)
From Coq Require Import Reals Lra.
From PG Require Import base.Ops base.OpsR model.CoalModels.
Open Scope R_scope.

(* the documented Beta time scale with the Beta function value as a parameter Bv = B(2-alpha, alpha) *)
Definition beta_timescale (Bv : R -> R) (N alpha : R) : R :=
  Rpower (1 + 1 / (Rpower 2 (alpha - 1) * (alpha - 1))) alpha * Rpower N (alpha - 1) / alpha / Bv alpha.

Lemma timescale_kingman : forall bs c N, timescale OpsR bs Kingman (c * N) = c * timescale OpsR bs Kingman N.
Proof. intros; reflexivity. Qed.

Lemma timescale_dirac : forall bs psi cc c N,
  timescale OpsR bs (Dirac psi cc true) (c * N) = c * c * timescale OpsR bs (Dirac psi cc true) N.
Proof. intros; simpl; ring. Qed.

Lemma timescale_unscaled : forall bs psi cc a c N,
  timescale OpsR bs (Dirac psi cc false) (c * N) = c * timescale OpsR bs (Dirac psi cc false) N /\
  timescale OpsR bs (Beta a false) (c * N) = c * timescale OpsR bs (Beta a false) N.
Proof. intros; split; reflexivity. Qed.

Lemma timescale_beta : forall Bv alpha c N, 0 < c -> 0 < N ->
  timescale OpsR (beta_timescale Bv) (Beta alpha true) (c * N)
  = Rpower c (alpha - 1) * timescale OpsR (beta_timescale Bv) (Beta alpha true) N.
Proof.
  intros Bv alpha c N Hc HN. simpl. unfold beta_timescale.
  rewrite <- (Rpower_mult_distr c N (alpha - 1)) by assumption. unfold Rdiv. ring.
Qed.

(* rates are divided by the time scale: scaling the time scale by c divides every coalescence rate by c *)
Lemma rate_over_timescale : forall r ts c, c <> 0 -> ts <> 0 -> r / (c * ts) = (r / ts) / c.
Proof. intros; field; split; assumption. Qed.
