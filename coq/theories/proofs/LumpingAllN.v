(* The lineage-counting chain (one locus) of model/StateSpace.v is the lumping of the labelled
   structured Lambda-coalescent of model/Labelled.v, for EVERY number of samples, EVERY number of
   demes, every model (Kingman, Beta, Dirac) and every real valuation of the rates.  No reflection.

   Contents
     lc_state c                     the lineage-counting state with count vector c (blocks per deme)
     move c p q, merge c d k        c - e_p + e_q  and  c - (k-1) e_d
     migrate_unlinked_lc   (M)      migrate_unlinked at lc_state c, as an explicit list
     coalesce1_lc          (C)      coalesce1 at lc_state c, as an explicit list
     migrate_unlinked_lc_spec, coalesce1_lc_spec, *_nodup     the same in membership form
     transit_lc_nonabsorbing,
     transit_lc_absorbing  (T),(A)  transit at lc_state c, as an explicit list without repeated key
     lumped_rate                    SPEC of the lumped rate c -> c', with its case lemmas
                                    lumped_rate_move, lumped_rate_merge, lumped_rate_other
     transit_lc_rate       (T)      rate_of (transit ...) (lc_state c') = lumped_rate P c c', EVERY c, c'
     splits_count, subsets_of_size_count      a set of b blocks has binom b k subsets of size k
     labelled_rate_lumps            the events of Labelled.levents1 at x into the fibre of c' have
                                    total rate lumped_rate P (counts x) c'
     lumping_all_n, lumping_all_n_states      the two together, at every labelled state
     lumping_single_locus_LC_unbounded        ... at every labelled state reachable from linit config

   Axioms: only those of the standard library's real numbers.                                  *)
From Coq Require Import ZArith Reals List Arith Bool Lia Lra.
From PG Require Import base.Ops base.OpsR model.CoalModels model.StateSpace model.Labelled.
From PG Require Import proofs.RatesProofs proofs.LumpingProofs.
From PG Require model.PhaseType.
Import ListNotations.
Open Scope nat_scope.

(* ====================================================================================== *)
(* 1. generic list facts                                                                   *)
(* ====================================================================================== *)
Lemma upd_length {A} (f : A -> A) : forall l i, length (upd l i f) = length l.
Proof. induction l as [|a l IH]; destruct i; simpl; auto. Qed.

Lemma nth_upd_same {A} (f : A -> A) def : forall l i,
  i < length l -> nth i (upd l i f) def = f (nth i l def).
Proof.
  induction l as [|a l IH]; destruct i; simpl; intros H; try lia; auto.
  apply IH; lia.
Qed.

Lemma nth_upd_other {A} (f : A -> A) def : forall l i j,
  i <> j -> nth j (upd l i f) def = nth j l def.
Proof.
  induction l as [|a l IH]; destruct i, j; simpl; intros H; try lia; auto.
Qed.

Lemma nth_upd {A} (f : A -> A) def l i j :
  i < length l -> nth j (upd l i f) def = if Nat.eqb j i then f (nth i l def) else nth j l def.
Proof.
  intros H. destruct (Nat.eqb_spec j i) as [->|N].
  - apply nth_upd_same; assumption.
  - apply nth_upd_other; auto.
Qed.

Lemma upd_map {A B} (g : A -> B) (f : A -> A) (h : B -> B) :
  (forall a, h (g a) = g (f a)) -> forall l i, upd (map g l) i h = map g (upd l i f).
Proof.
  intros H; induction l as [|a l IH]; destruct i; simpl; auto.
  - rewrite H; reflexivity.
  - rewrite IH; reflexivity.
Qed.

Lemma upd_ext_nth {A} def (f f' : A -> A) : forall l i,
  f (nth i l def) = f' (nth i l def) -> upd l i f = upd l i f'.
Proof.
  induction l as [|a l IH]; destruct i; simpl; intros H; auto.
  - rewrite H; reflexivity.
  - rewrite (IH i H); reflexivity.
Qed.

Lemma fold_left_ext_in {A B} (f f' : A -> B -> A) : forall l a,
  (forall a x, In x l -> f a x = f' a x) -> fold_left f l a = fold_left f' l a.
Proof.
  induction l as [|x l IH]; simpl; intros a H; auto.
  rewrite H by auto. apply IH. intros; apply H; auto.
Qed.

Lemma fold_left_map {A B C} (f : A -> C -> A) (h : B -> C) : forall l a,
  fold_left f (map h l) a = fold_left (fun a x => f a (h x)) l a.
Proof. induction l as [|x l IH]; simpl; intros; auto. Qed.

Lemma fold_left_flat_map {A D Y} (f : A -> D -> Y -> A) (L : D -> list Y) : forall ds a,
  fold_left (fun a d => fold_left (fun a y => f a d y) (L d) a) ds a =
  fold_left (fun a dy => f a (fst dy) (snd dy)) (flat_map (fun d => map (pair d) (L d)) ds) a.
Proof.
  induction ds as [|d ds IH]; simpl; intros a; auto.
  rewrite fold_left_app, fold_left_map. simpl. apply IH.
Qed.

Lemma NoDup_app_intro {A} : forall (a b : list A),
  NoDup a -> NoDup b -> (forall x, In x a -> In x b -> False) -> NoDup (a ++ b).
Proof.
  induction a as [|x a IH]; simpl; intros b Ha Hb H; auto.
  inversion Ha; subst. constructor.
  - rewrite in_app_iff. intros [H1|H1]; [auto|eapply H; eauto].
  - apply IH; auto. intros y Hy; apply H; auto.
Qed.

Lemma NoDup_app_inv {A} : forall (a b : list A),
  NoDup (a ++ b) -> NoDup a /\ NoDup b /\ (forall x, In x a -> In x b -> False).
Proof.
  induction a as [|x a IH]; simpl; intros b H.
  - repeat split; auto. constructor.
  - inversion H; subst. destruct (IH _ H3) as [Ha [Hb Hd]].
    repeat split; auto.
    + constructor; auto. intros Hin; apply H2; apply in_app_iff; auto.
    + intros y [<-|Hy] Hy'; [apply H2; apply in_app_iff; auto|eapply Hd; eauto].
Qed.

Lemma NoDup_flat_map {A B} (F : A -> list B) : forall ds,
  NoDup ds -> (forall d, In d ds -> NoDup (F d)) ->
  (forall d d' x, In d ds -> In d' ds -> In x (F d) -> In x (F d') -> d = d') ->
  NoDup (flat_map F ds).
Proof.
  induction ds as [|d ds IH]; simpl; intros Hds HF Hdis; [constructor|].
  inversion Hds; subst. apply NoDup_app_intro.
  - apply HF; auto.
  - apply IH; auto. intros; eapply Hdis; eauto.
  - intros x Hx Hx'. apply in_flat_map in Hx' as [d' [Hd' Hx']].
    assert (d = d') by (eapply Hdis; eauto). subst; auto.
Qed.

Lemma NoDup_map_inj_on {A B} (f : A -> B) : forall l,
  NoDup l -> (forall x y, In x l -> In y l -> f x = f y -> x = y) -> NoDup (map f l).
Proof.
  induction l as [|a l IH]; simpl; intros Hl Hf; constructor; inversion Hl; subst.
  - intros Hin. apply in_map_iff in Hin as [y [E Hy]].
    assert (y = a) by (apply Hf; auto). subst; auto.
  - apply IH; auto.
Qed.

Lemma filter_true {A} : forall l : list A, filter (fun _ => true) l = l.
Proof. induction l; simpl; congruence. Qed.

(* ---------- deme_pairs ---------- *)
Lemma in_deme_pairs nd p q : In (p, q) (deme_pairs nd) <-> p < nd /\ q < nd /\ p <> q.
Proof.
  unfold deme_pairs. rewrite in_flat_map. split.
  - intros [d1 [H1 H]]. apply in_flat_map in H as [d2 [H2 H]].
    apply in_seq in H1, H2. destruct (Nat.eqb_spec d1 d2); simpl in H; [tauto|].
    destruct H as [H|[]]; inversion H; subst. lia.
  - intros [Hp [Hq N]]. exists p. split; [apply in_seq; lia|].
    apply in_flat_map. exists q. split; [apply in_seq; lia|].
    destruct (Nat.eqb_spec p q); [lia|simpl; auto].
Qed.

Lemma NoDup_deme_pairs nd : NoDup (deme_pairs nd).
Proof.
  unfold deme_pairs. apply NoDup_flat_map.
  - apply seq_NoDup.
  - intros d1 _. apply NoDup_flat_map.
    + apply seq_NoDup.
    + intros d2 _. destruct (Nat.eqb d1 d2); repeat constructor; simpl; tauto.
    + intros d2 d2' x _ _ H H'.
      destruct (Nat.eqb d1 d2); simpl in H; [tauto|].
      destruct (Nat.eqb d1 d2'); simpl in H'; [tauto|].
      destruct H as [<-|[]]. destruct H' as [H'|[]]. congruence.
  - intros d1 d1' x _ _ H H'.
    apply in_flat_map in H as [d2 [_ H]]. apply in_flat_map in H' as [d2' [_ H']].
    destruct (Nat.eqb d1 d2); simpl in H; [tauto|].
    destruct (Nat.eqb d1' d2'); simpl in H'; [tauto|].
    destruct H as [<-|[]]. destruct H' as [H'|[]]. congruence.
Qed.

(* ====================================================================================== *)
(* 2. dictionaries: add_target and dict_union with fresh keys only append                  *)
(* ====================================================================================== *)
Section Dict.
  Context {T : Type} (OP : Ops T).

  Lemma state_neq_eqb s t : s <> t -> state_eqb s t = false.
  Proof.
    intros N. destruct (state_eqb s t) eqn:E; auto. apply state_eqb_true in E. contradiction.
  Qed.

  Lemma add_target_fresh : forall (tg : targets (T:=T)) t r,
    ~ In t (map fst tg) -> add_target OP tg t r = tg ++ [(t, r)].
  Proof.
    induction tg as [|[t' r'] tg IH]; simpl; intros t r H; auto.
    rewrite state_neq_eqb by (intros E; apply H; auto).
    rewrite IH by (intros E; apply H; auto). reflexivity.
  Qed.

  Lemma dict_set_fresh : forall (tg : targets (T:=T)) t r,
    ~ In t (map fst tg) -> dict_set tg t r = tg ++ [(t, r)].
  Proof.
    induction tg as [|[t' r'] tg IH]; simpl; intros t r H; auto.
    rewrite state_neq_eqb by (intros E; apply H; auto).
    rewrite IH by (intros E; apply H; auto). reflexivity.
  Qed.

  (* inserting entries whose keys are new and pairwise different: the entries in order *)
  Lemma fold_add_fresh {X} (g : X -> bool) (key : X -> state) (val : X -> T) : forall l acc,
    NoDup (map fst acc ++ map key (filter g l)) ->
    fold_left (fun a x => if g x then add_target OP a (key x) (val x) else a) l acc =
    acc ++ map (fun x => (key x, val x)) (filter g l).
  Proof.
    induction l as [|x l IH]; simpl; intros acc H.
    - rewrite app_nil_r; reflexivity.
    - destruct (g x); simpl in *; [|apply IH; assumption].
      rewrite add_target_fresh.
      + rewrite IH.
        * rewrite <- app_assoc; reflexivity.
        * rewrite map_app, <- app_assoc; simpl; assumption.
      + apply NoDup_remove_2 in H. intros Hin; apply H; apply in_app_iff; auto.
  Qed.

  Lemma fold_add_fresh_all {X} (key : X -> state) (val : X -> T) l :
    NoDup (map key l) ->
    fold_left (fun a x => add_target OP a (key x) (val x)) l [] = map (fun x => (key x, val x)) l.
  Proof.
    intros Hn. pose proof (fold_add_fresh (fun _ => true) key val l []) as H.
    rewrite filter_true in H. exact (H Hn).
  Qed.

  Lemma dict_union_fresh : forall (b a : targets (T:=T)),
    NoDup (map fst a ++ map fst b) -> dict_union a b = a ++ b.
  Proof.
    unfold dict_union. induction b as [|[t r] b IH]; simpl; intros a H.
    - rewrite app_nil_r; reflexivity.
    - rewrite dict_set_fresh.
      + rewrite IH.
        * rewrite <- app_assoc; reflexivity.
        * rewrite map_app, <- app_assoc; simpl; assumption.
      + apply NoDup_remove_2 in H. intros Hin; apply H; apply in_app_iff; auto.
  Qed.
End Dict.

(* ====================================================================================== *)
(* 3. the lineage-counting states                                                          *)
(* ====================================================================================== *)
Definition sing (x : nat) : list nat := [x].

(* count vector c (blocks per deme)  |->  lin = [[ [c_0]; [c_1]; ... ]], lnk = zeros *)
Definition lc_state (c : list nat) : state :=
  mkState [map sing c] (zeros3 1 (length c) 1).

(* one block of deme p moves to deme q *)
Definition move (c : list nat) (p q : nat) : list nat := upd (upd c p pred) q S.
(* k blocks of deme d merge into one *)
Definition merge (c : list nat) (d k : nat) : list nat := upd c d (fun b => b - (k - 1)).

Lemma map_sing_inj : forall c c', map sing c = map sing c' -> c = c'.
Proof.
  induction c as [|a c IH]; destruct c' as [|a' c']; simpl; intros H; try discriminate; auto.
  inversion H; subst. f_equal; auto.
Qed.

Lemma lc_state_inj c c' : lc_state c = lc_state c' -> c = c'.
Proof. unfold lc_state; intros H. inversion H. apply map_sing_inj; assumption. Qed.

Lemma lc_n_loci c : n_loci (lc_state c) = 1.
Proof. reflexivity. Qed.

Lemma lc_n_demes c : n_demes (lc_state c) = length c.
Proof. unfold n_demes; simpl. apply map_length. Qed.

Lemma lc_n_blocks a c : n_blocks (lc_state (a :: c)) = 1.
Proof. reflexivity. Qed.

Lemma nth_map_sing : forall c d, nth 0 (nth d (map sing c) []) 0 = nth d c 0.
Proof. induction c as [|a c IH]; destruct d; simpl; auto. Qed.

Lemma nth_map_sing_lt : forall c d, d < length c -> nth d (map sing c) [] = [nth d c 0].
Proof. induction c as [|a c IH]; destruct d; simpl; intros H; try lia; auto. apply IH; lia. Qed.

Lemma lc_get_lin c d : get3 (lin (lc_state c)) 0 d 0 = nth d c 0.
Proof. unfold get3; simpl. apply nth_map_sing. Qed.

Lemma lc_get_lnk c d : get3 (lnk (lc_state c)) 0 d 0 = 0.
Proof.
  unfold get3, lc_state, zeros3; simpl. generalize (length c) as n.
  intros n; revert d; induction n as [|n IH]; destruct d; simpl; auto.
Qed.

Lemma lc_unl c d : unl (lc_state c) 0 d 0 = nth d c 0.
Proof. unfold unl. rewrite lc_get_lin, lc_get_lnk. lia. Qed.

Lemma lc_upd3 c d f : upd3 (lin (lc_state c)) 0 d 0 f = [map sing (upd c d f)].
Proof.
  unfold upd3; simpl. f_equal. apply upd_map. reflexivity.
Qed.

Lemma upd3_sing c d f : upd3 [map sing c] 0 d 0 f = [map sing (upd c d f)].
Proof. exact (lc_upd3 c d f). Qed.

Lemma lc_state_same_length c c' : length c' = length c ->
  mkState [map sing c'] (lnk (lc_state c)) = lc_state c'.
Proof. intros H; unfold lc_state; simpl. rewrite H; reflexivity. Qed.

Lemma move_length c p q : length (move c p q) = length c.
Proof. unfold move. rewrite !upd_length; reflexivity. Qed.

Lemma merge_length c d k : length (merge c d k) = length c.
Proof. unfold merge. apply upd_length. Qed.

Lemma sum_nat_map_sing : forall c, sum_nat (map sum_nat (map sing c)) = sum_nat c.
Proof. induction c as [|a c IH]; simpl; [reflexivity|]. rewrite IH. lia. Qed.

(* State.is_absorbing on a lineage-counting state: one lineage in total *)
Lemma lc_is_absorbing c : is_absorbing (lc_state c) = Nat.eqb (sum_nat c) 1.
Proof.
  unfold is_absorbing. rewrite lc_n_loci. simpl. unfold sum3_locus; simpl.
  rewrite sum_nat_map_sing. apply andb_true_r.
Qed.

(* the count vector after a move / a merger, entry by entry *)
Lemma nth_move c p q i : p < length c -> q < length c -> p <> q ->
  nth i (move c p q) 0 =
  if Nat.eqb i q then S (nth q c 0) else if Nat.eqb i p then pred (nth p c 0) else nth i c 0.
Proof.
  intros Hp Hq N. unfold move. rewrite nth_upd by (rewrite upd_length; assumption).
  rewrite (nth_upd_other pred 0 c p q N). rewrite (nth_upd pred 0 c p i Hp). reflexivity.
Qed.

Lemma nth_merge c d k i : d < length c ->
  nth i (merge c d k) 0 = if Nat.eqb i d then nth d c 0 - (k - 1) else nth i c 0.
Proof. intros Hd. unfold merge. rewrite nth_upd by assumption. reflexivity. Qed.

(* different events change the count vector differently *)
Lemma move_inj c p q p' q' :
  p < length c -> q < length c -> p <> q -> 0 < nth p c 0 ->
  p' < length c -> q' < length c -> p' <> q' -> 0 < nth p' c 0 ->
  move c p q = move c p' q' -> (p, q) = (p', q').
Proof.
  intros Hp Hq N Hc Hp' Hq' N' Hc' E.
  assert (Eq : q = q').
  { pose proof (f_equal (fun l => nth q l 0) E) as H. simpl in H.
    rewrite !nth_move in H by assumption. rewrite Nat.eqb_refl in H.
    destruct (Nat.eqb_spec q q'); auto. destruct (Nat.eqb_spec q p'); [subst|]; lia. }
  subst q'. f_equal; auto.
  pose proof (f_equal (fun l => nth p l 0) E) as H. simpl in H.
  rewrite !nth_move in H by assumption. rewrite Nat.eqb_refl in H.
  destruct (Nat.eqb_spec p q); [lia|]. destruct (Nat.eqb_spec p p'); auto. lia.
Qed.

Lemma merge_inj c d k d' k' :
  d < length c -> 2 <= k <= nth d c 0 -> d' < length c -> 2 <= k' <= nth d' c 0 ->
  merge c d k = merge c d' k' -> (d, k) = (d', k').
Proof.
  intros Hd Hk Hd' Hk' E.
  pose proof (f_equal (fun l => nth d l 0) E) as H. simpl in H.
  rewrite !nth_merge in H by assumption. rewrite Nat.eqb_refl in H.
  destruct (Nat.eqb_spec d d') as [<-|N]; [f_equal; lia|lia].
Qed.

Lemma move_neq_merge c p q d k :
  p < length c -> q < length c -> p <> q -> d < length c -> move c p q <> merge c d k.
Proof.
  intros Hp Hq N Hd E.
  pose proof (f_equal (fun l => nth q l 0) E) as H. simpl in H.
  rewrite nth_move, nth_merge in H by assumption. rewrite Nat.eqb_refl in H.
  destruct (Nat.eqb_spec q d); [subst|]; lia.
Qed.

Lemma move_neq_self c p q : p < length c -> q < length c -> p <> q -> move c p q <> c.
Proof.
  intros Hp Hq N E. pose proof (f_equal (fun l => nth q l 0) E) as H. simpl in H.
  rewrite nth_move in H by assumption. rewrite Nat.eqb_refl in H. lia.
Qed.

Lemma merge_neq_self c d k : d < length c -> 2 <= k <= nth d c 0 -> merge c d k <> c.
Proof.
  intros Hd Hk E. pose proof (f_equal (fun l => nth d l 0) E) as H. simpl in H.
  rewrite nth_merge in H by assumption. rewrite Nat.eqb_refl in H. lia.
Qed.

(* ====================================================================================== *)
(* 4. (M) migration and (C) mergers at a lineage-counting state, as explicit lists         *)
(* ====================================================================================== *)
(* the migration events possible at c: ordered pairs (p, q), p <> q, with a block in p *)
Definition mig_events (c : list nat) : list (nat * nat) :=
  filter (fun pq => Nat.ltb 0 (nth (fst pq) c 0)) (deme_pairs (length c)).

(* the merger sizes listed by CoalescentModel.coalesce for b lineages *)
Definition merge_sizes (m : cmodel (T:=R)) (b : nat) : list nat :=
  match m with
  | Kingman => if Nat.ltb 1 b then [2] else []
  | _ => seq 2 (b - 1)
  end.

(* the merger events listed at c: (deme d, size k) *)
Definition merge_events (m : cmodel (T:=R)) (c : list nat) : list (nat * nat) :=
  flat_map (fun d => map (pair d) (merge_sizes m (nth d c 0))) (seq 0 (length c)).

Lemma in_mig_events c p q :
  In (p, q) (mig_events c) <-> p < length c /\ q < length c /\ p <> q /\ 0 < nth p c 0.
Proof.
  unfold mig_events. rewrite filter_In, in_deme_pairs. simpl. rewrite Nat.ltb_lt. tauto.
Qed.

Lemma in_merge_sizes m b k : In k (merge_sizes m b) -> 2 <= k <= b.
Proof.
  destruct m; simpl.
  - destruct (Nat.ltb_spec 1 b); simpl; [|tauto]. intros [<-|[]]; lia.
  - intros H; apply in_seq in H; lia.
  - intros H; apply in_seq in H; lia.
Qed.

Lemma in_merge_events m c d k :
  In (d, k) (merge_events m c) -> d < length c /\ 2 <= k <= nth d c 0.
Proof.
  unfold merge_events. rewrite in_flat_map. intros [d' [Hd H]].
  apply in_map_iff in H as [k' [E H]]. inversion E; subst.
  apply in_seq in Hd. apply in_merge_sizes in H. lia.
Qed.

Lemma NoDup_mig_events c : NoDup (mig_events c).
Proof. apply NoDup_filter. apply NoDup_deme_pairs. Qed.

Lemma NoDup_merge_sizes m b : NoDup (merge_sizes m b).
Proof.
  destruct m; simpl; try apply seq_NoDup.
  destruct (Nat.ltb 1 b); repeat constructor; simpl; tauto.
Qed.

Lemma NoDup_pairs_flat_map {D Y} (L : D -> list Y) ds :
  NoDup ds -> (forall d, NoDup (L d)) -> NoDup (flat_map (fun d => map (pair d) (L d)) ds).
Proof.
  intros Hds HL. apply NoDup_flat_map; auto.
  - intros d _. apply NoDup_map_inj_on; auto. intros; congruence.
  - intros d d' x _ _ H H'. apply in_map_iff in H as [y [<- _]]. apply in_map_iff in H' as [y' [E _]].
    congruence.
Qed.

Lemma NoDup_merge_events m c : NoDup (merge_events m c).
Proof.
  apply NoDup_pairs_flat_map; [apply seq_NoDup|intros; apply NoDup_merge_sizes].
Qed.

Section LC.
  Variable P : params (T:=R).
  Notation m := (p_model P).

  Definition mig_entry (c : list nat) (pq : nat * nat) : state * R :=
    (lc_state (move c (fst pq) (snd pq)),
     (mig_rate OpsR P (fst pq) (snd pq) * INR (nth (fst pq) c O))%R).

  Definition merge_entry (c : list nat) (dk : nat * nat) : state * R :=
    (lc_state (merge c (fst dk) (snd dk)),
     (get_rate_bk OpsR m (nth (fst dk) c O) (snd dk) / tscale_of OpsR P (fst dk))%R).

  (* ---- (M) ---- *)
  Lemma NoDup_mig_keys c : NoDup (map (fun pq => fst (mig_entry c pq)) (mig_events c)).
  Proof.
    apply NoDup_map_inj_on; [apply NoDup_mig_events|].
    intros [p q] [p' q'] H H' E. apply in_mig_events in H, H'. simpl in E.
    apply lc_state_inj in E. apply move_inj in E; tauto.
  Qed.

  Theorem migrate_unlinked_lc : forall c,
    migrate_unlinked OpsR P (lc_state c) = map (mig_entry c) (mig_events c).
  Proof.
    intros c. destruct c as [|a c]; [reflexivity|].
    unfold migrate_unlinked. rewrite lc_n_loci, lc_n_demes, lc_n_blocks.
    set (c0 := a :: c).
    cbn [seq fold_left].
    rewrite (fold_left_ext_in _
      (fun acc pq => if Nat.ltb 0 (nth (fst pq) c0 0)
                     then add_target OpsR acc (fst (mig_entry c0 pq)) (snd (mig_entry c0 pq)) else acc)).
    - rewrite fold_add_fresh; [reflexivity|]. simpl. apply NoDup_mig_keys.
    - intros acc [p q] _. cbn [fst snd mig_entry].
      rewrite lc_get_lin, lc_unl, andb_diag.
      destruct (Nat.ltb 0 (nth p c0 0)); [|reflexivity].
      f_equal.
      + rewrite lc_upd3, upd3_sing. apply lc_state_same_length. apply move_length.
      + rewrite oofN_R. reflexivity.
  Qed.

  (* ---- (C) ---- *)
  Lemma coalesce_single b :
    coalesce OpsR m [b] = map (fun k => ([b - (k - 1)], get_rate_bk OpsR m b k)) (merge_sizes m b).
  Proof.
    assert (G : forall m' : cmodel (T:=R),
      map (fun k => ([b - k], get_rate_bk OpsR m' b (k + 1))) (seq 1 (b - 1)) =
      map (fun k => ([b - (k - 1)], get_rate_bk OpsR m' b k)) (seq 2 (b - 1))).
    { intros m'. rewrite <- (seq_shift (b - 1) 1), map_map. apply map_ext. intros k.
      rewrite Nat.add_1_r. simpl. rewrite Nat.sub_0_r. reflexivity. }
    unfold coalesce, merge_sizes. destruct m.
    - destruct (Nat.ltb 1 b); reflexivity.
    - apply G.
    - apply G.
  Qed.

  Lemma NoDup_merge_keys c : NoDup (map (fun dk => fst (merge_entry c dk)) (merge_events m c)).
  Proof.
    apply NoDup_map_inj_on; [apply NoDup_merge_events|].
    intros [d k] [d' k'] H H' E. apply in_merge_events in H, H'. simpl in E.
    apply lc_state_inj in E. apply merge_inj in E; tauto.
  Qed.

  Theorem coalesce1_lc : forall c,
    coalesce1 OpsR P (lc_state c) = map (merge_entry c) (merge_events m c).
  Proof.
    intros c. unfold coalesce1. rewrite lc_n_demes.
    rewrite (fold_left_ext_in _
      (fun acc d => fold_left (fun acc k => add_target OpsR acc (fst (merge_entry c (d, k)))
                                                        (snd (merge_entry c (d, k))))
                              (merge_sizes m (nth d c 0)) acc)).
    - rewrite (fold_left_flat_map
                 (fun acc d k => add_target OpsR acc (fst (merge_entry c (d, k))) (snd (merge_entry c (d, k))))).
      fold (merge_events m c).
      rewrite (fold_left_ext_in _ (fun a x => add_target OpsR a (fst (merge_entry c x)) (snd (merge_entry c x)))).
      + etransitivity;
          [apply (fold_add_fresh_all OpsR (fun dk => fst (merge_entry c dk)) (fun dk => snd (merge_entry c dk)));
           apply NoDup_merge_keys|].
        apply map_ext. intros [d k]; reflexivity.
      + intros a [d k] _. reflexivity.
    - intros acc d Hd. apply in_seq in Hd.
      change (nth 0 (lin (lc_state c)) []) with (map sing c).
      rewrite nth_map_sing_lt by lia. rewrite coalesce_single, fold_left_map.
      apply fold_left_ext_in. intros acc' k _. cbn [fst snd merge_entry].
      f_equal.
      change (upd (lin (lc_state c)) 0 (fun row => upd row d (fun _ => [nth d c 0 - (k - 1)])))
        with [upd (map sing c) d (fun _ => [nth d c 0 - (k - 1)])].
      rewrite (upd_map sing (fun _ => nth d c 0 - (k - 1)) (fun _ => [nth d c 0 - (k - 1)]))
        by reflexivity.
      rewrite (upd_ext_nth 0 (fun _ => nth d c 0 - (k - 1)) (fun b => b - (k - 1))) by reflexivity.
      apply lc_state_same_length. apply merge_length.
  Qed.
End LC.

(* ====================================================================================== *)
(* 5. (T), (A): the whole dictionary [transit] at a lineage-counting state                 *)
(* ====================================================================================== *)
Section Transit.
  Variable P : params (T:=R).
  Notation m := (p_model P).

  Lemma transit_lc_unfold c :
    transit OpsR P (lc_state c) =
    let tg := dict_union [] (migrate_unlinked OpsR P (lc_state c)) in
    if is_absorbing (lc_state c) then tg
    else dict_union (dict_union tg (coalesce1 OpsR P (lc_state c))) [].
  Proof. reflexivity. Qed.

  Lemma NoDup_transit_keys c :
    NoDup (map fst (map (mig_entry P c) (mig_events c) ++ map (merge_entry P c) (merge_events m c))).
  Proof.
    rewrite map_app, !map_map. apply NoDup_app_intro.
    - apply NoDup_mig_keys.
    - apply NoDup_merge_keys.
    - intros t H H'. apply in_map_iff in H as [[p q] [E H]]. apply in_map_iff in H' as [[d k] [E' H']].
      apply in_mig_events in H. apply in_merge_events in H'. simpl in E, E'. subst t.
      apply lc_state_inj in E'. symmetry in E'. apply move_neq_merge in E'; tauto.
  Qed.

  (* (A) an absorbing state (one lineage in total) only migrates *)
  Theorem transit_lc_absorbing : forall c, is_absorbing (lc_state c) = true ->
    transit OpsR P (lc_state c) = map (mig_entry P c) (mig_events c).
  Proof.
    intros c Ha. rewrite transit_lc_unfold. cbv zeta. rewrite Ha, migrate_unlinked_lc.
    rewrite dict_union_fresh; [reflexivity|]. simpl. rewrite map_map. apply NoDup_mig_keys.
  Qed.

  (* (T) a non-absorbing state: the migration entries followed by the merger entries, no key twice *)
  Theorem transit_lc_nonabsorbing : forall c, is_absorbing (lc_state c) = false ->
    transit OpsR P (lc_state c) =
    map (mig_entry P c) (mig_events c) ++ map (merge_entry P c) (merge_events m c).
  Proof.
    intros c Ha. rewrite transit_lc_unfold. cbv zeta. rewrite Ha, migrate_unlinked_lc, coalesce1_lc.
    pose proof (NoDup_transit_keys c) as Hn.
    rewrite (dict_union_fresh (map (mig_entry P c) (mig_events c)) []).
    2:{ simpl. rewrite map_app in Hn. apply NoDup_app_inv in Hn. tauto. }
    simpl app.
    rewrite (dict_union_fresh (map (merge_entry P c) (merge_events m c)) (map (mig_entry P c) (mig_events c)))
      by (rewrite <- map_app; exact Hn).
    reflexivity.
  Qed.

  (* every key of the dictionary is a lineage-counting state over the same demes *)
  Theorem transit_lc_keys : forall c t r, In (t, r) (transit OpsR P (lc_state c)) ->
    exists c', t = lc_state c' /\ length c' = length c /\ c' <> c.
  Proof.
    intros c t r H.
    assert (H' : In (t, r) (map (mig_entry P c) (mig_events c) ++ map (merge_entry P c) (merge_events m c))).
    { destruct (is_absorbing (lc_state c)) eqn:Ha.
      - rewrite transit_lc_absorbing in H by assumption. apply in_app_iff; auto.
      - rewrite transit_lc_nonabsorbing in H by assumption. assumption. }
    apply in_app_iff in H' as [H'|H']; apply in_map_iff in H' as [[a b] [E H']]; inversion E; subst.
    - apply in_mig_events in H'. exists (move c a b). repeat split; [apply move_length|].
      apply move_neq_self; tauto.
    - apply in_merge_events in H'. exists (merge c a b). repeat split; [apply merge_length|].
      apply merge_neq_self; tauto.
  Qed.
End Transit.

(* ====================================================================================== *)
(* 6. finite sums of reals over lists                                                      *)
(* ====================================================================================== *)
Definition rsum_list (l : list R) : R := fold_right Rplus 0%R l.
Definition rsum_over {X} (f : X -> R) (l : list X) : R := rsum_list (map f l).

Lemma rsum_over_cons {X} (f : X -> R) a l : rsum_over f (a :: l) = (f a + rsum_over f l)%R.
Proof. reflexivity. Qed.

Lemma rsum_over_app {X} (f : X -> R) : forall a b,
  rsum_over f (a ++ b) = (rsum_over f a + rsum_over f b)%R.
Proof.
  induction a as [|x a IH]; intros b.
  - unfold rsum_over at 2; simpl. ring.
  - simpl app. rewrite !rsum_over_cons, IH. ring.
Qed.

Lemma rsum_over_map {X Y} (h : X -> Y) (f : Y -> R) l :
  rsum_over f (map h l) = rsum_over (fun x => f (h x)) l.
Proof. unfold rsum_over. rewrite map_map. reflexivity. Qed.

Lemma rsum_over_flat_map {X Y} (F : X -> list Y) (f : Y -> R) : forall l,
  rsum_over f (flat_map F l) = rsum_over (fun x => rsum_over f (F x)) l.
Proof.
  induction l as [|x l IH]; [reflexivity|].
  simpl flat_map. rewrite rsum_over_app, rsum_over_cons, IH. reflexivity.
Qed.

Lemma rsum_over_ext_in {X} (f g : X -> R) : forall l,
  (forall x, In x l -> f x = g x) -> rsum_over f l = rsum_over g l.
Proof.
  induction l as [|x l IH]; intros H; [reflexivity|].
  rewrite !rsum_over_cons. rewrite H by (simpl; auto).
  rewrite IH; [reflexivity|]. intros; apply H; simpl; auto.
Qed.

Lemma rsum_over_zero {X} (f : X -> R) : forall l,
  (forall x, In x l -> f x = 0%R) -> rsum_over f l = 0%R.
Proof.
  induction l as [|x l IH]; intros H; [reflexivity|].
  rewrite rsum_over_cons. rewrite H by (simpl; auto).
  rewrite IH; [ring|]. intros; apply H; simpl; auto.
Qed.

Lemma rsum_over_single {X} (f : X -> R) x0 : forall l,
  NoDup l -> In x0 l -> (forall x, In x l -> x <> x0 -> f x = 0%R) -> rsum_over f l = f x0.
Proof.
  induction l as [|a l IH]; intros Hn Hin Hz; [destruct Hin|].
  inversion Hn; subst. rewrite rsum_over_cons. destruct Hin as [->|Hin].
  - rewrite rsum_over_zero; [ring|]. intros x Hx. apply Hz; simpl; auto. intros ->; contradiction.
  - rewrite IH; auto.
    + rewrite Hz; [ring|simpl; auto|intros ->; contradiction].
    + intros; apply Hz; simpl; auto.
Qed.

Lemma rsum_over_scal {X} (f : X -> R) a : forall l,
  rsum_over (fun x => a * f x)%R l = (a * rsum_over f l)%R.
Proof.
  induction l as [|x l IH]; [unfold rsum_over; simpl; ring|].
  rewrite !rsum_over_cons, IH. ring.
Qed.

Lemma rsum_over_const {X} (a : R) : forall l : list X,
  rsum_over (fun _ => a) l = (INR (length l) * a)%R.
Proof.
  induction l as [|x l IH]; [unfold rsum_over; simpl; ring|].
  rewrite rsum_over_cons, IH. change (length (x :: l)) with (S (length l)). rewrite S_INR. ring.
Qed.

(* ====================================================================================== *)
(* 7. SPEC of the lumped rates and the rate theorem                                        *)
(* ====================================================================================== *)
(* the rate a dictionary assigns to a state (0 if absent): the inner lookup of lookup_rate *)
Definition rate_of (tg : targets (T:=R)) (t : state) : R :=
  match find (fun e => state_eqb (fst e) t) tg with Some (_, r) => r | None => 0%R end.

Lemma lookup_rate_rate_of trans s tg t :
  find (fun e => state_eqb (fst e) s) trans = Some (s, tg) ->
  lookup_rate OpsR trans s t = rate_of tg t.
Proof. intros H. unfold lookup_rate, rate_of. rewrite H. reflexivity. Qed.

Lemma rate_of_sum : forall (tg : targets (T:=R)) t, NoDup (map fst tg) ->
  rate_of tg t = rsum_over (fun e => if state_eqb (fst e) t then snd e else 0%R) tg.
Proof.
  induction tg as [|[t' r] tg IH]; intros t Hn; [reflexivity|].
  inversion Hn; subst. rewrite rsum_over_cons. unfold rate_of. simpl.
  destruct (state_eqb t' t) eqn:E.
  - apply state_eqb_true in E. subst t'.
    rewrite rsum_over_zero; [ring|]. intros [t'' r''] Hin. simpl.
    rewrite state_neq_eqb; auto. intros ->. apply H1. apply in_map_iff. exists (t, r''); auto.
  - fold (rate_of tg t). rewrite IH by assumption. ring.
Qed.

Definition cvec_eqb : list nat -> list nat -> bool := list_eqb Nat.eqb.

Lemma cvec_eqb_spec a b : reflect (a = b) (cvec_eqb a b).
Proof.
  destruct (cvec_eqb a b) eqn:E; constructor.
  - apply (list_eqb_true _ nat_eqb_true) in E; assumption.
  - intros ->. unfold cvec_eqb in E. rewrite (list_eqb_refl _ Nat.eqb_refl) in E. discriminate.
Qed.

Lemma state_eqb_lc a b : state_eqb (lc_state a) (lc_state b) = cvec_eqb a b.
Proof.
  destruct (cvec_eqb_spec a b) as [->|N]; [apply state_eqb_refl|].
  apply state_neq_eqb. intros H; apply lc_state_inj in H; contradiction.
Qed.

(* all the merger events of the labelled process at c: (deme d, size k), 2 <= k <= c_d *)
Definition all_merge_events (c : list nat) : list (nat * nat) :=
  flat_map (fun d => map (pair d) (seq 2 (nth d c 0 - 1))) (seq 0 (length c)).

Lemma in_all_merge_events c d k :
  In (d, k) (all_merge_events c) <-> d < length c /\ 2 <= k <= nth d c 0.
Proof.
  unfold all_merge_events. rewrite in_flat_map. split.
  - intros [d' [Hd H]]. apply in_map_iff in H as [k' [E H]]. inversion E; subst.
    apply in_seq in Hd, H. lia.
  - intros [Hd Hk]. exists d. split; [apply in_seq; lia|]. apply in_map. apply in_seq. lia.
Qed.

Lemma NoDup_all_merge_events c : NoDup (all_merge_events c).
Proof. apply NoDup_pairs_flat_map; [apply seq_NoDup|intros; apply seq_NoDup]. Qed.

(* the two definitions of the per-set rate lambda_{b,k} agree over the reals *)
Lemma lam_R (m : cmodel (T:=R)) b k : lam OpsR m b k = LambdaSpec.lam m b k.
Proof.
  destruct m as [|a st|psi c st]; unfold lam, LambdaSpec.lam, LambdaSpec.ind.
  - destruct (Nat.eqb k 2); reflexivity.
  - reflexivity.
  - rewrite osub_R. cbn [oadd omul o0 o1 OpsR]. rewrite !opow_R.
    destruct (Nat.eqb k 2); reflexivity.
Qed.

Section Lumped.
  Variable P : params (T:=R).
  Notation m := (p_model P).

  (* SPEC.  Total rate at which the labelled process, in a state with c_d blocks in deme d, jumps
     into the set of states with count vector c':
       migration p -> q : each of the c_p blocks of p moves at rate mig p q       -> move c p q
       merger (d, k)    : each of the C(c_d, k) k-subsets of the blocks of d merges
                          at rate lam m c_d k / tscale d                          -> merge c d k
     (that these ARE the sums over the labelled events is [labelled_rate_lumps] below) *)
  Definition lumped_mig (c c' : list nat) : R :=
    rsum_over (fun pq => if cvec_eqb (move c (fst pq) (snd pq)) c'
                         then (INR (nth (fst pq) c O) * mig_rate OpsR P (fst pq) (snd pq))%R else 0%R)
              (mig_events c).
  Definition lumped_merge (c c' : list nat) : R :=
    rsum_over (fun dk => if cvec_eqb (merge c (fst dk) (snd dk)) c'
                         then (IZR (binom (nth (fst dk) c O) (snd dk))
                               * lam OpsR m (nth (fst dk) c O) (snd dk) / tscale_of OpsR P (fst dk))%R
                         else 0%R)
              (all_merge_events c).
  Definition lumped_rate (c c' : list nat) : R := (lumped_mig c c' + lumped_merge c c')%R.

  (* ---- lumped_rate by cases ---- *)
  Theorem lumped_rate_move : forall c p q,
    p < length c -> q < length c -> p <> q -> 0 < nth p c O ->
    lumped_rate c (move c p q) = (INR (nth p c O) * mig_rate OpsR P p q)%R.
  Proof.
    intros c p q Hp Hq N Hc. unfold lumped_rate, lumped_mig, lumped_merge.
    rewrite (rsum_over_single _ (p, q)).
    - rewrite rsum_over_zero.
      + cbn [fst snd]. destruct (cvec_eqb_spec (move c p q) (move c p q)); [ring|contradiction].
      + intros [d k] H. apply in_all_merge_events in H. cbn [fst snd].
        destruct (cvec_eqb_spec (merge c d k) (move c p q)) as [E|_]; [|reflexivity].
        symmetry in E. apply move_neq_merge in E; tauto.
    - apply NoDup_mig_events.
    - apply in_mig_events; tauto.
    - intros [p' q'] H Hne. apply in_mig_events in H. cbn [fst snd].
      destruct (cvec_eqb_spec (move c p' q') (move c p q)) as [E|_]; [|reflexivity].
      apply move_inj in E; tauto.
  Qed.

  Theorem lumped_rate_merge : forall c d k,
    d < length c -> 2 <= k <= nth d c O ->
    lumped_rate c (merge c d k) =
    (IZR (binom (nth d c O) k) * lam OpsR m (nth d c O) k / tscale_of OpsR P d)%R.
  Proof.
    intros c d k Hd Hk. unfold lumped_rate, lumped_mig, lumped_merge.
    rewrite (rsum_over_single _ (d, k) (all_merge_events c)).
    - rewrite rsum_over_zero.
      + cbn [fst snd]. destruct (cvec_eqb_spec (merge c d k) (merge c d k)); [ring|contradiction].
      + intros [p q] H. apply in_mig_events in H. cbn [fst snd].
        destruct (cvec_eqb_spec (move c p q) (merge c d k)) as [E|_]; [|reflexivity].
        apply move_neq_merge in E; tauto.
    - apply NoDup_all_merge_events.
    - apply in_all_merge_events; tauto.
    - intros [d' k'] H Hne. apply in_all_merge_events in H. cbn [fst snd].
      destruct (cvec_eqb_spec (merge c d' k') (merge c d k)) as [E|_]; [|reflexivity].
      apply merge_inj in E; tauto.
  Qed.

  Theorem lumped_rate_other : forall c c',
    (forall p q, p < length c -> q < length c -> p <> q -> 0 < nth p c O -> c' <> move c p q) ->
    (forall d k, d < length c -> 2 <= k <= nth d c O -> c' <> merge c d k) ->
    lumped_rate c c' = 0%R.
  Proof.
    intros c c' Hmv Hmg. unfold lumped_rate, lumped_mig, lumped_merge.
    rewrite !rsum_over_zero; [ring| |].
    - intros [d k] H. apply in_all_merge_events in H. cbn [fst snd].
      destruct (cvec_eqb_spec (merge c d k) c') as [E|_]; [|reflexivity].
      symmetry in E. apply Hmg in E; tauto.
    - intros [p q] H. apply in_mig_events in H. cbn [fst snd].
      destruct (cvec_eqb_spec (move c p q) c') as [E|_]; [|reflexivity].
      symmetry in E. apply Hmv in E; tauto.
  Qed.

  Corollary lumped_rate_self : forall c, lumped_rate c c = 0%R.
  Proof.
    intros c. apply lumped_rate_other.
    - intros p q Hp Hq N _ E. symmetry in E. revert E. apply move_neq_self; assumption.
    - intros d k Hd Hk E. symmetry in E. revert E. apply merge_neq_self; assumption.
  Qed.

  (* ---- the dictionary's rates are the lumped rates ---- *)
  Lemma mig_part_rate c c' :
    rsum_over (fun e => if state_eqb (fst e) (lc_state c') then snd e else 0%R)
              (map (mig_entry P c) (mig_events c)) = lumped_mig c c'.
  Proof.
    rewrite rsum_over_map. apply rsum_over_ext_in. intros [p q] _. cbn [fst snd mig_entry].
    rewrite state_eqb_lc. destruct (cvec_eqb (move c p q) c'); [ring|reflexivity].
  Qed.

  (* (C) the rate of a merger entry is the summed rate of the C(b,k) labelled mergers *)
  Lemma merge_rate_ways b k d : 2 <= k <= b ->
    (get_rate_bk OpsR m b k / tscale_of OpsR P d)%R =
    (IZR (binom b k) * lam OpsR m b k / tscale_of OpsR P d)%R.
  Proof. intros Hk. unfold Rdiv. f_equal. rewrite lam_R. apply rate_counts_ways; assumption. Qed.

  Lemma merge_sizes_sum (g g' : nat -> R) b :
    (forall k, 2 <= k <= b -> g' k = g k) ->
    (m = Kingman -> forall k, 2 < k -> g k = 0%R) ->
    rsum_over g' (merge_sizes m b) = rsum_over g (seq 2 (b - 1)).
  Proof.
    intros Hg HK. destruct m eqn:Em; simpl merge_sizes.
    - destruct (Nat.ltb_spec 1 b) as [Hb|Hb].
      + replace (b - 1) with (S (b - 2)) by lia. simpl seq. rewrite !rsum_over_cons.
        rewrite (rsum_over_zero g (seq 3 (b - 2))).
        * rewrite Hg by lia. unfold rsum_over; simpl. ring.
        * intros k Hk. apply in_seq in Hk. apply HK; [reflexivity|lia].
      + replace (b - 1) with 0 by lia. reflexivity.
    - apply rsum_over_ext_in. intros k Hk. apply in_seq in Hk. apply Hg. lia.
    - apply rsum_over_ext_in. intros k Hk. apply in_seq in Hk. apply Hg. lia.
  Qed.

  Lemma merge_part_rate c c' :
    rsum_over (fun e => if state_eqb (fst e) (lc_state c') then snd e else 0%R)
              (map (merge_entry P c) (merge_events m c)) = lumped_merge c c'.
  Proof.
    rewrite rsum_over_map. unfold lumped_merge, merge_events, all_merge_events.
    rewrite !rsum_over_flat_map. apply rsum_over_ext_in. intros d _.
    rewrite !rsum_over_map. cbn [fst snd merge_entry].
    apply (merge_sizes_sum
      (fun k => if cvec_eqb (merge c d k) c'
                then (IZR (binom (nth d c O) k) * lam OpsR m (nth d c O) k / tscale_of OpsR P d)%R else 0%R)
      (fun k => if state_eqb (lc_state (merge c d k)) (lc_state c')
                then (get_rate_bk OpsR m (nth d c O) k / tscale_of OpsR P d)%R else 0%R)).
    - intros k Hk. rewrite state_eqb_lc, merge_rate_ways by assumption. reflexivity.
    - intros Em k Hk. rewrite Em. unfold lam.
      replace (Nat.eqb k 2) with false by (symmetry; apply Nat.eqb_neq; lia).
      cbn [o0 OpsR]. destruct (cvec_eqb (merge c d k) c'); [|reflexivity].
      unfold Rdiv. ring.
  Qed.

  Lemma nth_le_sum_nat : forall c d, nth d c O <= sum_nat c.
  Proof.
    induction c as [|a c IH]; intros d.
    - destruct d; simpl; lia.
    - change (sum_nat (a :: c)) with (a + sum_nat c).
      destruct d; simpl nth; [lia|]. specialize (IH d). lia.
  Qed.

  (* with one lineage in total there is no merger event: (A) agrees with the labelled process *)
  Lemma absorbing_no_merger c : is_absorbing (lc_state c) = true -> all_merge_events c = [].
  Proof.
    rewrite lc_is_absorbing. intros H. apply Nat.eqb_eq in H.
    destruct (all_merge_events c) as [|[d k] l] eqn:E; [reflexivity|].
    assert (Hin : In (d, k) (all_merge_events c)) by (rewrite E; simpl; auto).
    apply in_all_merge_events in Hin. pose proof (nth_le_sum_nat c d). lia.
  Qed.

  (* (T)+(A): for EVERY count vector c (any number of lineages and demes) and every c', the rate the
     lineage-counting chain assigns to c -> c' is the lumped labelled rate *)
  Theorem transit_lc_rate : forall c c',
    rate_of (transit OpsR P (lc_state c)) (lc_state c') = lumped_rate c c'.
  Proof.
    intros c c'. unfold lumped_rate. destruct (is_absorbing (lc_state c)) eqn:Ha.
    - rewrite transit_lc_absorbing by assumption.
      rewrite rate_of_sum by (rewrite map_map; apply NoDup_mig_keys).
      rewrite mig_part_rate. unfold lumped_merge. rewrite absorbing_no_merger by assumption.
      unfold rsum_over; simpl. ring.
    - rewrite transit_lc_nonabsorbing by assumption.
      rewrite rate_of_sum by apply NoDup_transit_keys.
      rewrite rsum_over_app, mig_part_rate, merge_part_rate. reflexivity.
  Qed.
End Lumped.

(* ====================================================================================== *)
(* 8. the labelled process of Labelled.v: counting its events                              *)
(* ====================================================================================== *)
Definition in_deme (d : nat) (bd : lblock) : bool := Nat.eqb (snd bd) d.

(* blocks per deme of a labelled state *)
Definition lc_counts (nd : nat) (x : lstate) : list nat :=
  map (fun d => count_if (in_deme d) x) (seq 0 nd).

Lemma pi_LC_lc nd x : pi_LC nd x = lc_state (lc_counts nd x).
Proof.
  unfold pi_LC, lc_state, lc_counts. rewrite map_map, map_length, seq_length. reflexivity.
Qed.

Lemma lc_counts_length nd x : length (lc_counts nd x) = nd.
Proof. unfold lc_counts. rewrite map_length, seq_length. reflexivity. Qed.

Lemma nth_map_seq {B} (f : nat -> B) def : forall n a i,
  i < n -> nth i (map f (seq a n)) def = f (a + i).
Proof.
  induction n as [|n IH]; intros a i H; [lia|]. destruct i; simpl.
  - rewrite Nat.add_0_r; reflexivity.
  - rewrite IH by lia. f_equal; lia.
Qed.

Lemma nth_lc_counts nd x i : i < nd -> nth i (lc_counts nd x) 0 = count_if (in_deme i) x.
Proof. intros H. unfold lc_counts. rewrite nth_map_seq by assumption. reflexivity. Qed.

(* ---------- count_if ---------- *)
Lemma count_if_cons {A} (f : A -> bool) a l :
  count_if f (a :: l) = (if f a then 1 else 0) + count_if f l.
Proof. unfold count_if; simpl. destruct (f a); reflexivity. Qed.

Lemma count_if_app {A} (f : A -> bool) a b : count_if f (a ++ b) = count_if f a + count_if f b.
Proof. unfold count_if. rewrite filter_app, app_length. reflexivity. Qed.

Lemma count_if_all {A} (f : A -> bool) : forall l,
  (forall y, In y l -> f y = true) -> count_if f l = length l.
Proof.
  induction l as [|a l IH]; intros H; [reflexivity|].
  rewrite count_if_cons, H by (simpl; auto). rewrite IH; [reflexivity|]. intros; apply H; simpl; auto.
Qed.

Lemma count_if_none {A} (f : A -> bool) : forall l,
  (forall y, In y l -> f y = false) -> count_if f l = 0.
Proof.
  induction l as [|a l IH]; intros H; [reflexivity|].
  rewrite count_if_cons, H by (simpl; auto). rewrite IH; [reflexivity|]. intros; apply H; simpl; auto.
Qed.

Lemma count_if_filter_neg {A} (g f : A -> bool) : forall l,
  (forall y, g y = true -> f y = false) ->
  count_if g (filter (fun y => negb (f y)) l) = count_if g l.
Proof.
  intros l H. induction l as [|a l IH]; [reflexivity|]. simpl filter.
  destruct (f a) eqn:Ef; simpl negb; cbv iota; rewrite !count_if_cons, ?IH; [|reflexivity].
  destruct (g a) eqn:Eg; [|reflexivity]. apply H in Eg. congruence.
Qed.

Lemma count_if_insert_by {A} (leb : A -> A -> bool) f a : forall l,
  count_if f (insert_by leb a l) = count_if f (a :: l).
Proof.
  induction l as [|b l IH]; [reflexivity|]. simpl insert_by. destruct (leb a b); [reflexivity|].
  rewrite count_if_cons, IH, !count_if_cons. lia.
Qed.

Lemma count_if_isort {A} (leb : A -> A -> bool) f : forall l, count_if f (isort leb l) = count_if f l.
Proof.
  induction l as [|a l IH]; [reflexivity|].
  change (isort leb (a :: l)) with (insert_by leb a (isort leb l)).
  rewrite count_if_insert_by, !count_if_cons, IH. reflexivity.
Qed.

Lemma lc_counts_canon1 nd l : lc_counts nd (canon1 l) = lc_counts nd l.
Proof. unfold lc_counts, canon1. apply map_ext. intros d. apply count_if_isort. Qed.

Lemma count_if_flat_map_two {A B} (f : B -> bool) (g1 g2 : A -> B) : forall L,
  count_if f (flat_map (fun y => [g1 y; g2 y]) L) =
  count_if (fun y => f (g1 y)) L + count_if (fun y => f (g2 y)) L.
Proof.
  induction L as [|a L IH]; [reflexivity|].
  change (flat_map (fun y => [g1 y; g2 y]) (a :: L))
    with (g1 a :: g2 a :: flat_map (fun y => [g1 y; g2 y]) L).
  rewrite !count_if_cons, IH. lia.
Qed.

(* ---------- picks and splits ---------- *)
Lemma map_fst_picks {A} : forall l : list A, map fst (picks l) = l.
Proof.
  induction l as [|a l IH]; [reflexivity|]. simpl. f_equal. rewrite map_map. simpl. exact IH.
Qed.

Lemma picks_count {A} (f : A -> bool) : forall (l : list A) a rest,
  In (a, rest) (picks l) -> count_if f l = (if f a then 1 else 0) + count_if f rest.
Proof.
  induction l as [|x l IH]; simpl; intros a rest H; [tauto|]. destruct H as [E|H].
  - inversion E; subst. apply count_if_cons.
  - apply in_map_iff in H as [[y r] [E H]]. inversion E; subst. simpl.
    rewrite !count_if_cons, (IH _ _ H). lia.
Qed.

Lemma splits_length {A} : forall (l K R : list A),
  In (K, R) (splits l) -> length K + length R = length l.
Proof.
  induction l as [|x l IH]; simpl; intros K R H.
  - destruct H as [E|[]]. inversion E; reflexivity.
  - apply in_flat_map in H as [[K' R'] [H' H]]. apply IH in H'. simpl in H.
    destruct H as [E|[E|[]]]; inversion E; subst; simpl; lia.
Qed.

Lemma splits_incl {A} : forall (l K R : list A),
  In (K, R) (splits l) -> (forall y, In y K -> In y l) /\ (forall y, In y R -> In y l).
Proof.
  induction l as [|x l IH]; simpl; intros K R H.
  - destruct H as [E|[]]. inversion E; subst. split; intros y [].
  - apply in_flat_map in H as [[K' R'] [H' H]]. apply IH in H' as [HK HR]. simpl in H.
    destruct H as [E|[E|[]]]; inversion E; subst; split; intros y Hy; simpl in *;
      try (destruct Hy as [->|Hy]); auto.
Qed.

(* COUNTING LEMMA: a set of b blocks has C(b, k) subsets of size k
   ([splits l] lists every (subset, complement) of l exactly once) *)
Theorem splits_count {A} : forall (l : list A) k,
  Z.of_nat (count_if (fun kr => Nat.eqb (length (fst kr)) k) (splits l)) = binom (length l) k.
Proof.
  induction l as [|x l IH]; intros k.
  - destruct k; reflexivity.
  - change (splits (x :: l))
      with (flat_map (fun kr => [(x :: fst kr, snd kr); (fst kr, x :: snd kr)]) (splits l)).
    rewrite (count_if_flat_map_two (fun kr : list A * list A => Nat.eqb (length (fst kr)) k)
               (fun kr => (x :: fst kr, snd kr)) (fun kr => (fst kr, x :: snd kr))).
    rewrite Nat2Z.inj_add. cbn [fst snd length]. destruct k as [|k].
    + rewrite count_if_none by reflexivity. rewrite IH, !binom_0_r. reflexivity.
    + change (fun y : list A * list A => Nat.eqb (S (length (fst y))) (S k))
        with (fun y : list A * list A => Nat.eqb (length (fst y)) k).
      rewrite !IH. reflexivity.
Qed.

(* ---------- more on sums ---------- *)
Lemma rsum_over_plus {X} (f g : X -> R) : forall l,
  rsum_over (fun x => f x + g x)%R l = (rsum_over f l + rsum_over g l)%R.
Proof.
  induction l as [|x l IH]; [unfold rsum_over; simpl; ring|].
  rewrite !rsum_over_cons, IH. ring.
Qed.

Lemma rsum_over_filter {X} (g : X -> bool) (f : X -> R) : forall l,
  rsum_over f (filter g l) = rsum_over (fun x => if g x then f x else 0%R) l.
Proof.
  induction l as [|x l IH]; [reflexivity|]. simpl filter. rewrite rsum_over_cons.
  destruct (g x); [rewrite rsum_over_cons|]; rewrite IH; ring.
Qed.

(* group a sum by a key *)
Lemma rsum_group_by {X} (key : X -> nat) (H : nat -> R) ks : NoDup ks -> forall L,
  (forall x, In x L -> In (key x) ks) ->
  rsum_over (fun x => H (key x)) L =
  rsum_over (fun k => INR (count_if (fun x => Nat.eqb (key x) k) L) * H k)%R ks.
Proof.
  intros Hn. induction L as [|a L IH]; intros Hin.
  - symmetry. apply rsum_over_zero. intros k _. simpl. ring.
  - rewrite rsum_over_cons. rewrite IH by (intros; apply Hin; simpl; auto).
    assert (E1 : rsum_over (fun k => if Nat.eqb (key a) k then H k else 0%R) ks = H (key a)).
    { rewrite (rsum_over_single _ (key a)); auto.
      - rewrite Nat.eqb_refl; reflexivity.
      - apply Hin; simpl; auto.
      - intros k _ N. destruct (Nat.eqb_spec (key a) k); [congruence|reflexivity]. }
    rewrite <- E1, <- rsum_over_plus. apply rsum_over_ext_in. intros k _.
    rewrite count_if_cons, plus_INR. destruct (Nat.eqb (key a) k); simpl; ring.
Qed.

(* ---------- the count vector after a labelled event ---------- *)
Lemma counts_after_move nd (x : lstate) b p q rest :
  In ((b, p), rest) (picks x) -> p < nd -> q < nd -> p <> q ->
  lc_counts nd ((b, q) :: rest) = move (lc_counts nd x) p q.
Proof.
  intros Hin Hp Hq N. apply (nth_ext _ _ 0 0).
  - rewrite move_length, !lc_counts_length. reflexivity.
  - rewrite lc_counts_length. intros i Hi.
    rewrite nth_move by (rewrite ?lc_counts_length; assumption).
    rewrite !nth_lc_counts by assumption. rewrite count_if_cons.
    pose proof (picks_count (in_deme i) _ _ _ Hin) as Ei.
    pose proof (picks_count (in_deme q) _ _ _ Hin) as Eq.
    pose proof (picks_count (in_deme p) _ _ _ Hin) as Ep.
    unfold in_deme in *. cbn [fst snd] in *.
    rewrite Nat.eqb_refl in Ep.
    destruct (Nat.eqb_spec i q) as [->|Niq].
    + rewrite Nat.eqb_refl. destruct (Nat.eqb_spec p q); lia.
    + destruct (Nat.eqb_spec q i); [lia|]. destruct (Nat.eqb_spec i p) as [->|Nip].
      * lia.
      * destruct (Nat.eqb_spec p i); lia.
Qed.

Lemma counts_after_merge nd (x : lstate) d K R u :
  d < nd -> In (K, R) (splits (filter (in_deme d) x)) -> 1 <= length K ->
  lc_counts nd ((u, d) :: R ++ filter (fun bd => negb (in_deme d bd)) x) =
  merge (lc_counts nd x) d (length K).
Proof.
  intros Hd Hin HK. pose proof (splits_length _ _ _ Hin) as HL.
  destruct (splits_incl _ _ _ Hin) as [_ HR].
  assert (HRd : forall y, In y R -> in_deme d y = true).
  { intros y Hy. apply HR in Hy. apply filter_In in Hy. tauto. }
  apply (nth_ext _ _ 0 0).
  - rewrite merge_length, !lc_counts_length. reflexivity.
  - rewrite lc_counts_length. intros i Hi.
    rewrite nth_merge by (rewrite lc_counts_length; assumption).
    rewrite !nth_lc_counts by assumption. rewrite count_if_cons, count_if_app.
    destruct (Nat.eqb_spec i d) as [->|Nid].
    + rewrite (count_if_all _ R HRd). rewrite count_if_none.
      * unfold in_deme at 1. cbn [snd]. rewrite Nat.eqb_refl.
        change (count_if (in_deme d) x) with (length (filter (in_deme d) x)). lia.
      * intros y Hy. apply filter_In in Hy. destruct Hy as [_ Hy]. apply negb_true_iff in Hy. exact Hy.
    + rewrite (count_if_none _ R).
      * rewrite count_if_filter_neg.
        -- unfold in_deme at 1. cbn [snd]. destruct (Nat.eqb_spec d i); [lia|]. reflexivity.
        -- intros y Hy. unfold in_deme in *. apply Nat.eqb_eq in Hy. apply Nat.eqb_neq. lia.
      * intros y Hy. apply HRd in Hy. unfold in_deme in *. apply Nat.eqb_eq in Hy.
        apply Nat.eqb_neq. lia.
Qed.

Lemma partition_filter {A} (f : A -> bool) : forall l,
  partition f l = (filter f l, filter (fun y => negb (f y)) l).
Proof.
  induction l as [|a l IH]; [reflexivity|]. simpl. rewrite IH. destruct (f a); reflexivity.
Qed.

(* ====================================================================================== *)
(* 9. the labelled rates lump to [lumped_rate]; the unbounded lumping theorem              *)
(* ====================================================================================== *)
Section Labelled.
  Variable P : params (T:=R).
  Notation m := (p_model P).

  (* total rate of the labelled events of [levents1] at x that lead into the fibre of c' *)
  Definition labelled_rate_into (nd : nat) (x : lstate) (c' : list nat) : R :=
    rsum_over (fun ey => if state_eqb (pi_LC nd (snd ey)) (lc_state c')
                         then erate OpsR P (fst ey) else 0%R)
              (levents1 nd x).

  Definition wf_lstate (nd : nat) (x : lstate) : Prop := Forall (fun bd => snd bd < nd) x.

  Let F nd c' := fun ey : event * lstate =>
    if state_eqb (pi_LC nd (snd ey)) (lc_state c') then erate OpsR P (fst ey) else 0%R.

  Lemma F_eq nd c' e y : F nd c' (e, y) = if cvec_eqb (lc_counts nd y) c' then erate OpsR P e else 0%R.
  Proof. unfold F. cbn [fst snd]. rewrite pi_LC_lc, state_eqb_lc. reflexivity. Qed.

  Lemma labelled_migration nd x c' : wf_lstate nd x ->
    rsum_over (F nd c')
      (flat_map (fun br : lblock * list lblock =>
         let '((b, p), rest) := br in
         flat_map (fun q => if Nat.eqb p q then [] else [(EMig p q, canon1 ((b, q) :: rest))]) (seq 0 nd))
         (picks x))
    = lumped_mig P (lc_counts nd x) c'.
  Proof.
    intros Hwf. set (c := lc_counts nd x).
    set (Phi := fun p => rsum_over (fun q => if Nat.eqb p q then 0%R else
                   if cvec_eqb (move c p q) c' then mig_rate OpsR P p q else 0%R) (seq 0 nd)).
    rewrite rsum_over_flat_map.
    rewrite (rsum_over_ext_in _ (fun br : lblock * list lblock => Phi (snd (fst br)))).
    2:{ intros [[b p] rest] Hin. cbn [fst snd]. unfold Phi. rewrite rsum_over_flat_map.
        assert (Hp : p < nd).
        { unfold wf_lstate in Hwf. rewrite Forall_forall in Hwf.
          apply (Hwf (b, p)). rewrite <- (map_fst_picks x). apply in_map_iff. exists (b, p, rest); auto. }
        apply rsum_over_ext_in. intros q Hq. apply in_seq in Hq.
        destruct (Nat.eqb_spec p q) as [E|N]; [reflexivity|].
        unfold rsum_over; cbn [map rsum_list fold_right]. rewrite F_eq.
        rewrite lc_counts_canon1, (counts_after_move nd x b p q rest) by (auto; lia).
        fold c. cbn [erate]. destruct (cvec_eqb (move c p q) c'); ring. }
    rewrite <- (rsum_over_map fst (fun bd : lblock => Phi (snd bd))), map_fst_picks.
    rewrite (rsum_group_by (fun bd : lblock => snd bd) Phi (seq 0 nd) (seq_NoDup nd 0)).
    2:{ intros bd Hin. unfold wf_lstate in Hwf. rewrite Forall_forall in Hwf.
        apply in_seq. specialize (Hwf _ Hin). lia. }
    unfold lumped_mig, mig_events. rewrite rsum_over_filter. unfold deme_pairs.
    assert (Lc : length c = nd) by apply lc_counts_length. rewrite Lc.
    rewrite rsum_over_flat_map. apply rsum_over_ext_in. intros p Hp. apply in_seq in Hp.
    rewrite rsum_over_flat_map. unfold Phi. rewrite <- rsum_over_scal.
    apply rsum_over_ext_in. intros q _.
    destruct (Nat.eqb_spec p q) as [E|N].
    - unfold rsum_over; simpl. ring.
    - unfold rsum_over; cbn [map rsum_list fold_right fst snd].
      assert (Ec : nth p c 0 = count_if (in_deme p) x) by (unfold c; apply nth_lc_counts; lia).
      rewrite !Ec.
      change (count_if (fun x0 : lblock => Nat.eqb (snd x0) p) x) with (count_if (in_deme p) x).
      destruct (Nat.ltb_spec 0 (count_if (in_deme p) x)) as [Hc|Hc].
      + destruct (cvec_eqb (move c p q) c'); ring.
      + replace (count_if (in_deme p) x) with 0 by lia. simpl. ring.
  Qed.

  Lemma labelled_mergers nd x c' :
    rsum_over (F nd c')
      (flat_map (fun d =>
         let '(ins, outs) := partition (fun bd : lblock => Nat.eqb (snd bd) d) x in
         flat_map (fun kr : list lblock * list lblock =>
           let '(K, R) := kr in
           if Nat.leb 2 (length K)
           then [(EMerge d (length ins) (length K), canon1 ((union_ids (map fst K), d) :: R ++ outs))]
           else []) (splits ins)) (seq 0 nd))
    = lumped_merge P (lc_counts nd x) c'.
  Proof.
    set (c := lc_counts nd x).
    assert (Lc : length c = nd) by apply lc_counts_length.
    unfold lumped_merge, all_merge_events. rewrite Lc.
    rewrite !rsum_over_flat_map. apply rsum_over_ext_in. intros d Hd. apply in_seq in Hd.
    change (fun bd : lblock => Nat.eqb (snd bd) d) with (in_deme d).
    rewrite partition_filter.
    set (ins := filter (in_deme d) x). set (outs := filter (fun y => negb (in_deme d y)) x).
    assert (Eb : nth d c 0 = length ins).
    { unfold c. rewrite nth_lc_counts by lia. reflexivity. }
    set (H := fun k => if Nat.leb 2 k
                       then (if cvec_eqb (merge c d k) c'
                             then lam OpsR m (length ins) k / tscale_of OpsR P d else 0)%R
                       else 0%R).
    rewrite rsum_over_flat_map.
    rewrite (rsum_over_ext_in _ (fun kr : list lblock * list lblock => H (length (fst kr)))).
    2:{ intros [K R] Hin. cbn [fst]. unfold H. destruct (Nat.leb_spec 2 (length K)) as [HK|HK].
        - unfold rsum_over; cbn [map rsum_list fold_right]. rewrite F_eq.
          rewrite lc_counts_canon1. unfold ins in Hin.
          rewrite (counts_after_merge nd x d K R _) by (auto; lia).
          fold c. cbn [erate]. destruct (cvec_eqb (merge c d (length K)) c'); [|ring].
          fold ins. change (odiv OpsR ?a ?b) with (a / b)%R. ring.
        - reflexivity. }
    rewrite (rsum_group_by (fun kr : list lblock * list lblock => length (fst kr)) H
               (seq 0 (S (length ins))) (seq_NoDup _ 0)).
    2:{ intros [K R] Hin. apply splits_length in Hin. apply in_seq. cbn [fst]. lia. }
    rewrite (rsum_over_ext_in _ (fun k => IZR (binom (length ins) k) * H k)%R).
    2:{ intros k _. rewrite INR_IZR_INZ, splits_count. reflexivity. }
    rewrite rsum_over_map. cbn [fst snd]. rewrite Eb.
    destruct (length ins) as [|b].
    - unfold rsum_over, H; simpl. ring.
    - replace (S b - 1) with b by lia.
      change (seq 0 (S (S b))) with (0 :: 1 :: seq 2 b). rewrite !rsum_over_cons.
      unfold H at 1 2. cbn [Nat.leb].
      rewrite (rsum_over_ext_in _
        (fun k => if cvec_eqb (merge c d k) c'
                  then (IZR (binom (S b) k) * lam OpsR m (S b) k / tscale_of OpsR P d)%R else 0%R)
        (seq 2 b)).
      + ring.
      + intros k Hk. apply in_seq in Hk. unfold H.
        destruct (Nat.leb_spec 2 k); [|lia].
        destruct (cvec_eqb (merge c d k) c'); unfold Rdiv; ring.
  Qed.

  (* the lumped rates ARE the sums over the labelled events *)
  Theorem labelled_rate_lumps : forall nd x c', wf_lstate nd x ->
    labelled_rate_into nd x c' = lumped_rate P (lc_counts nd x) c'.
  Proof.
    intros nd x c' Hwf. unfold labelled_rate_into, levents1, lumped_rate.
    rewrite rsum_over_app. f_equal.
    - apply (labelled_migration nd x c' Hwf).
    - apply (labelled_mergers nd x c').
  Qed.

  (* THE UNBOUNDED LUMPING THEOREM (one locus, lineage counting).
     For every labelled state x of the structured Lambda-coalescent over nd demes (any number of
     blocks), every model and every real valuation P of the rates, and every count vector c':
     the rate the lineage-counting chain assigns to pi_LC x -> lc_state c' is the total rate of the
     labelled events at x that lead to a state with count vector c'. *)
  Theorem lumping_all_n : forall nd x c', wf_lstate nd x ->
    rate_of (transit OpsR P (pi_LC nd x)) (lc_state c') = labelled_rate_into nd x c'.
  Proof.
    intros nd x c' Hwf. rewrite pi_LC_lc, transit_lc_rate. symmetry.
    apply labelled_rate_lumps; assumption.
  Qed.
End Labelled.

(* ====================================================================================== *)
(* 10. the same for an arbitrary target state, and along the reachable labelled states     *)
(* ====================================================================================== *)
Definition decode_lc (t : state) : list nat := map (fun row => nth 0 row 0) (nth 0 (lin t) []).

Lemma decode_lc_state c : decode_lc (lc_state c) = c.
Proof.
  unfold decode_lc, lc_state; simpl. rewrite map_map. simpl. apply map_id.
Qed.

Lemma rate_of_absent : forall (tg : targets (T:=R)) t,
  (forall e, In e tg -> fst e <> t) -> rate_of tg t = 0%R.
Proof.
  induction tg as [|[t' r] tg IH]; intros t H; [reflexivity|].
  unfold rate_of; simpl. rewrite state_neq_eqb by (apply (H (t', r)); simpl; auto).
  apply IH. intros e He. apply H; simpl; auto.
Qed.

Section LabelledStates.
  Variable P : params (T:=R).

  (* for EVERY state t whatsoever: the rate pi_LC x -> t of the lineage-counting chain is the total
     rate of the labelled events at x whose target projects onto t *)
  Theorem lumping_all_n_states : forall nd x (t : state), wf_lstate nd x ->
    rate_of (transit OpsR P (pi_LC nd x)) t =
    rsum_over (fun ey => if state_eqb (pi_LC nd (snd ey)) t then erate OpsR P (fst ey) else 0%R)
              (levents1 nd x).
  Proof.
    intros nd x t Hwf. destruct (state_eqb t (lc_state (decode_lc t))) eqn:E.
    - apply state_eqb_true in E. rewrite E. apply (lumping_all_n P nd x _ Hwf).
    - assert (N : forall c, t <> lc_state c).
      { intros c ->. rewrite decode_lc_state, state_eqb_refl in E. discriminate. }
      rewrite rate_of_absent, rsum_over_zero; [reflexivity| |].
      + intros [e y] _. cbn [fst snd]. rewrite pi_LC_lc, state_neq_eqb; [reflexivity|].
        intros H; symmetry in H; revert H; apply N.
      + intros [t' r] Hin. rewrite pi_LC_lc in Hin. apply transit_lc_keys in Hin as [c' [-> _]].
        cbn [fst]. intros H; symmetry in H; revert H; apply N.
  Qed.

  (* in particular the chain has no self-loop and the labelled events never stay in the fibre *)
  Corollary lumping_all_n_diag : forall nd x, wf_lstate nd x ->
    rate_of (transit OpsR P (pi_LC nd x)) (pi_LC nd x) = 0%R.
  Proof.
    intros nd x Hwf. rewrite pi_LC_lc at 2. rewrite pi_LC_lc, transit_lc_rate. apply lumped_rate_self.
  Qed.
End LabelledStates.

(* ---------- well-formedness holds initially and is preserved by every labelled event ---------- *)
Lemma in_insert_by {A} (leb : A -> A -> bool) a : forall l y, In y (insert_by leb a l) -> In y (a :: l).
Proof.
  induction l as [|b l IH]; simpl; intros y H; auto.
  destruct (leb a b); simpl in H; auto. destruct H as [H|H]; auto. apply IH in H. simpl in H. tauto.
Qed.

Lemma in_isort {A} (leb : A -> A -> bool) : forall l y, In y (isort leb l) -> In y l.
Proof.
  induction l as [|a l IH]; simpl; intros y H; auto.
  apply in_insert_by in H. simpl in H. destruct H; auto.
Qed.

Lemma picks_incl {A} : forall (l : list A) a rest,
  In (a, rest) (picks l) -> In a l /\ forall y, In y rest -> In y l.
Proof.
  induction l as [|x l IH]; simpl; intros a rest H; [tauto|]. destruct H as [E|H].
  - inversion E; subst. auto.
  - apply in_map_iff in H as [[y r] [E H]]. inversion E; subst. simpl.
    apply IH in H as [H1 H2]. split; auto. intros z [->|Hz]; auto.
Qed.

Lemma levents1_wf nd x e y : wf_lstate nd x -> In (e, y) (levents1 nd x) -> wf_lstate nd y.
Proof.
  unfold wf_lstate. rewrite !Forall_forall. intros Hwf Hin. unfold levents1 in Hin.
  apply in_app_iff in Hin as [Hin|Hin]; apply in_flat_map in Hin.
  - destruct Hin as [[[b p] rest] [Hp Hin]]. apply in_flat_map in Hin as [q [Hq Hin]].
    apply in_seq in Hq. destruct (Nat.eqb p q); [destruct Hin|].
    destruct Hin as [E|[]]. inversion E; subst. intros bd Hbd.
    apply (in_isort _ ((b, q) :: rest)) in Hbd.
    apply picks_incl in Hp as [_ Hrest]. destruct Hbd as [<-|Hbd]; [simpl; lia|auto].
  - destruct Hin as [d [Hd Hin]]. apply in_seq in Hd. rewrite partition_filter in Hin.
    apply in_flat_map in Hin as [[K R] [Hs Hin]].
    destruct (Nat.leb 2 (length K)); [|destruct Hin].
    destruct Hin as [E|[]]. inversion E; subst. intros bd Hbd.
    apply (in_isort _ ((union_ids (map fst K), d) :: R ++ filter (fun y => negb (Nat.eqb (snd y) d)) x)) in Hbd.
    apply splits_incl in Hs as [_ HR].
    destruct Hbd as [<-|Hbd]; [simpl; lia|]. apply in_app_iff in Hbd as [Hbd|Hbd].
    + apply HR in Hbd. apply filter_In in Hbd. apply Hwf; tauto.
    + apply filter_In in Hbd. apply Hwf; tauto.
Qed.

Lemma sample_demes_lt config : forall d, In d (sample_demes config) -> d < length config.
Proof.
  intros d H. unfold sample_demes in H. apply in_concat in H as [l [Hl Hd]].
  apply in_map_iff in Hl as [[i k] [<- Hik]]. simpl in Hd. apply repeat_spec in Hd. subst d.
  apply in_combine_l in Hik. apply in_seq in Hik. lia.
Qed.

Lemma linit_wf config : wf_lstate (length config) (linit config).
Proof.
  unfold wf_lstate, linit. apply Forall_forall. intros bd H.
  apply in_map_iff in H as [[i d] [<- H]]. simpl. apply in_combine_r in H.
  apply sample_demes_lt; assumption.
Qed.

Lemma reach_wf config x :
  reach (targets_of (levents1 (length config))) (linit config) x -> wf_lstate (length config) x.
Proof.
  intros H. induction H as [|x y _ IH Hy]; [apply linit_wf|].
  unfold targets_of in Hy. apply in_map_iff in Hy as [[e y'] [<- Hy]].
  eapply levents1_wf; eauto.
Qed.

(* THE UNBOUNDED LUMPING THEOREM along the labelled process started from any sample configuration:
   every number of demes [length config], every number of samples [sum_nat config], every model
   and every real valuation of the rates; lineage-counting projection [pi1 true]. *)
Theorem lumping_single_locus_LC_unbounded :
  forall (P : params (T:=R)) (config : list nat) (x : lstate),
    reach (targets_of (levents1 (length config))) (linit config) x ->
  forall t : state,
    rate_of (transit OpsR P (pi1 true (length config) (sum_nat config) x)) t =
    rsum_over (fun ey => if state_eqb (pi1 true (length config) (sum_nat config) (snd ey)) t
                         then erate OpsR P (fst ey) else 0%R)
              (levents1 (length config) x).
Proof.
  intros P config x Hr t. unfold pi1. apply lumping_all_n_states. apply reach_wf; assumption.
Qed.

(* ---------- (M), (C) in membership form ---------- *)
Lemma in_merge_events_iff m c d k :
  In (d, k) (merge_events m c) <->
  d < length c /\ 2 <= k <= nth d c 0 /\ (m = Kingman -> k = 2).
Proof.
  split.
  - intros H. pose proof (in_merge_events _ _ _ _ H) as [H1 H2]. repeat split; try tauto.
    intros ->. unfold merge_events in H. apply in_flat_map in H as [d' [_ H]].
    apply in_map_iff in H as [k' [E H]]. inversion E; subst. simpl in H.
    destruct (Nat.ltb 1 (nth d c 0)); simpl in H; [|tauto]. destruct H as [<-|[]]; reflexivity.
  - intros [Hd [Hk HK]]. unfold merge_events. apply in_flat_map. exists d.
    split; [apply in_seq; lia|]. apply in_map. destruct m; simpl.
    + rewrite (HK eq_refl). destruct (Nat.ltb_spec 1 (nth d c 0)); [simpl; auto|lia].
    + apply in_seq; lia.
    + apply in_seq; lia.
Qed.

Theorem migrate_unlinked_lc_spec : forall (P : params (T:=R)) c t r,
  In (t, r) (migrate_unlinked OpsR P (lc_state c)) <->
  exists p q, p < length c /\ q < length c /\ p <> q /\ 0 < nth p c 0 /\
              t = lc_state (move c p q) /\ r = (mig_rate OpsR P p q * INR (nth p c O))%R.
Proof.
  intros P c t r. rewrite migrate_unlinked_lc, in_map_iff. split.
  - intros [[p q] [E H]]. apply in_mig_events in H. inversion E; subst. exists p, q. tauto.
  - intros [p [q [H1 [H2 [H3 [H4 [-> ->]]]]]]]. exists (p, q). split; [reflexivity|].
    apply in_mig_events; tauto.
Qed.

Theorem coalesce1_lc_spec : forall (P : params (T:=R)) c t r,
  In (t, r) (coalesce1 OpsR P (lc_state c)) <->
  exists d k, d < length c /\ 2 <= k <= nth d c 0 /\ (p_model P = Kingman -> k = 2) /\
              t = lc_state (merge c d k) /\
              r = (IZR (binom (nth d c O) k) * lam OpsR (p_model P) (nth d c O) k / tscale_of OpsR P d)%R.
Proof.
  intros P c t r. rewrite coalesce1_lc, in_map_iff. split.
  - intros [[d k] [E H]]. apply in_merge_events_iff in H. inversion E; subst. exists d, k.
    cbn [fst snd]. rewrite merge_rate_ways by tauto. tauto.
  - intros [d [k [H1 [H2 [H3 [-> ->]]]]]]. exists (d, k). split.
    + unfold merge_entry. cbn [fst snd]. rewrite merge_rate_ways by tauto. reflexivity.
    + apply in_merge_events_iff; tauto.
Qed.

Theorem migrate_unlinked_lc_nodup : forall (P : params (T:=R)) c,
  NoDup (map fst (migrate_unlinked OpsR P (lc_state c))).
Proof. intros. rewrite migrate_unlinked_lc, map_map. apply NoDup_mig_keys. Qed.

Theorem coalesce1_lc_nodup : forall (P : params (T:=R)) c,
  NoDup (map fst (coalesce1 OpsR P (lc_state c))).
Proof. intros. rewrite coalesce1_lc, map_map. apply NoDup_merge_keys. Qed.

Theorem transit_lc_nodup : forall (P : params (T:=R)) c,
  NoDup (map fst (transit OpsR P (lc_state c))).
Proof.
  intros P c. destruct (is_absorbing (lc_state c)) eqn:Ha.
  - rewrite transit_lc_absorbing by assumption. rewrite map_map. apply NoDup_mig_keys.
  - rewrite transit_lc_nonabsorbing by assumption. apply NoDup_transit_keys.
Qed.

(* the same count for itertools.combinations as modelled in model/PhaseType.v *)
Theorem subsets_of_size_count {A} : forall (l : list A) k,
  Z.of_nat (length (PG.model.PhaseType.subsets_of_size l k)) = binom (length l) k.
Proof.
  induction l as [|x l IH]; intros [|k]; try reflexivity.
  simpl PG.model.PhaseType.subsets_of_size.
  rewrite app_length, map_length, Nat2Z.inj_add, !IH. reflexivity.
Qed.

Print Assumptions migrate_unlinked_lc.
Print Assumptions coalesce1_lc.
Print Assumptions transit_lc_nonabsorbing.
Print Assumptions transit_lc_absorbing.
Print Assumptions transit_lc_rate.
Print Assumptions lumped_rate_move.
Print Assumptions lumped_rate_merge.
Print Assumptions lumped_rate_other.
Print Assumptions splits_count.
Print Assumptions subsets_of_size_count.
Print Assumptions labelled_rate_lumps.
Print Assumptions lumping_all_n.
Print Assumptions lumping_all_n_states.
Print Assumptions lumping_single_locus_LC_unbounded.
