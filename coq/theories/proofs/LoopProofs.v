From Coq Require Import QArith List Lia Sorted Psatz.
From PG Require Import base.Perm proofs.PermProofs model.Loop.
Import ListNotations.
From Coq Require Import Permutation Lqa.

(* Proofs about the epoch-aware propagation loop modelled in model/Loop.v.
   Everything is proved from the semigroup laws of [step] (the matrix exponential)
   and the monoid laws of [mul]. *)

Open Scope Q_scope.

Section LoopLaws.
  Variables M V : Type.
  Variable mul : M -> M -> M.
  Variable one : M.
  Variable step : V -> Q -> M.
  Hypothesis mulA : forall a b c, mul a (mul b c) = mul (mul a b) c.
  Hypothesis mul1l : forall a, mul one a = a.
  Hypothesis mul1r : forall a, mul a one = a.
  Hypothesis step_proper : forall v a b, a == b -> step v a = step v b.
  Hypothesis step0 : forall v, step v 0 = one.
  Hypothesis step_add : forall v a b, 0 <= a -> 0 <= b -> mul (step v a) (step v b) = step v (a + b).

  Local Notation adv := (advance_rest M V mul step).
  Local Notation advle := (advance_rest_le M V mul step).

  (* weakened well-formedness: the first end may coincide with the lower bound *)
  Definition wf_le (lo : Q) (rest : list (Q * V)) : Prop :=
    match rest with
    | [] => True
    | (en, _) :: r => lo <= en /\ epochs_wf V en r
    end.

  Lemma wf_wf_le : forall lo rest, epochs_wf V lo rest -> wf_le lo rest.
  Proof.
    intros lo [|[en v] r]; simpl; auto.
    intros [H1 H2]. split; [apply Qlt_le_weak; exact H1 | exact H2].
  Qed.

  Lemma step_zero : forall v a, a == 0 -> step v a = one.
  Proof. intros v a Ha. rewrite (step_proper v a 0 Ha). apply step0. Qed.

  Lemma step_split :
    forall v Qm a b c, a <= b -> b <= c ->
      mul (mul Qm (step v (b - a))) (step v (c - b)) = mul Qm (step v (c - a)).
  Proof.
    intros v Qm a b c Hab Hbc. rewrite <- mulA.
    rewrite step_add by lra. f_equal. apply step_proper. ring.
  Qed.

  (* ---------------------------------------------------------------- *)
  (* continuing from the state reached at u1 = starting again          *)
  (* ---------------------------------------------------------------- *)

  Lemma adv_adv :
    forall vlast rest Qm up u1 u2,
      up <= u1 -> u1 <= u2 -> wf_le up rest ->
      adv vlast (lQ (adv vlast Qm up rest u1)) (lprev (adv vlast Qm up rest u1))
          (lrest (adv vlast Qm up rest u1)) u2
      = adv vlast Qm up rest u2.
  Proof.
    intros vlast rest. induction rest as [|[en v] rest IH]; intros Qm up u1 u2 H1 H2 Hwf.
    - cbn [advance_rest lQ lprev lrest]. f_equal. apply step_split; assumption.
    - destruct Hwf as [Hle Hwf]. cbn [advance_rest].
      destruct (Qlt_le_dec en u1) as [Ha|Ha].
      + destruct (Qlt_le_dec en u2) as [Hb|Hb]; [|lra].
        apply IH; try lra. apply wf_wf_le; exact Hwf.
      + cbn [advance_rest lQ lprev lrest].
        destruct (Qlt_le_dec en u2) as [Hb|Hb].
        * rewrite step_split by assumption. reflexivity.
        * f_equal. apply step_split; assumption.
  Qed.

  Lemma advance_advance_state :
    forall vlast s u1 u2,
      lprev s <= u1 -> u1 <= u2 -> wf_le (lprev s) (lrest s) ->
      advance M V mul step vlast (advance M V mul step vlast s u1) u2
      = advance M V mul step vlast s u2.
  Proof.
    intros vlast s u1 u2 H1 H2 Hwf. unfold advance. apply adv_adv; assumption.
  Qed.

  Lemma advance_init_state :
    forall vlast epochs u1 u2,
      epochs_wf V 0 epochs -> 0 <= u1 -> u1 <= u2 ->
      advance M V mul step vlast (advance M V mul step vlast (init M V one epochs) u1) u2
      = advance M V mul step vlast (init M V one epochs) u2.
  Proof.
    intros vlast epochs u1 u2 Hwf H1 H2. apply advance_advance_state.
    - exact H1.
    - exact H2.
    - simpl. apply wf_wf_le. exact Hwf.
  Qed.

  (* key lemma: continuing from the state reached at u1 gives the same matrix as starting from scratch *)
  Theorem advance_advance :
    forall (vlast : V) (epochs : list (Q * V)) (u1 u2 : Q),
      epochs_wf V 0 epochs -> 0 <= u1 -> u1 <= u2 ->
      lQ (advance M V mul step vlast (advance M V mul step vlast (init M V one epochs) u1) u2)
      = eval_at M V mul one step epochs vlast u2.
  Proof.
    intros vlast epochs u1 u2 Hwf H1 H2. unfold eval_at.
    rewrite advance_init_state by assumption. reflexivity.
  Qed.

  (* ---------------------------------------------------------------- *)
  (* the sorted loop                                                   *)
  (* ---------------------------------------------------------------- *)

  Lemma advance_init_zero :
    forall vlast epochs, epochs_wf V 0 epochs ->
      advance M V mul step vlast (init M V one epochs) 0 = init M V one epochs.
  Proof.
    intros vlast epochs Hwf. unfold advance, init. cbn [lQ lprev lrest].
    destruct epochs as [|[en v] rest]; cbn [advance_rest].
    - rewrite step_zero by ring. rewrite mul1l. reflexivity.
    - destruct Hwf as [Hlt _]. destruct (Qlt_le_dec en 0) as [Ha|Ha]; [lra|].
      rewrite step_zero by ring. rewrite mul1l. reflexivity.
  Qed.

  Lemma run_loop_from :
    forall vlast epochs ts u0,
      epochs_wf V 0 epochs -> 0 <= u0 ->
      Forall (fun t => u0 <= t) ts ->
      StronglySorted (fun a b => Qleb a b = true) ts ->
      run_loop M V mul step vlast (advance M V mul step vlast (init M V one epochs) u0) ts
      = map (eval_at M V mul one step epochs vlast) ts.
  Proof.
    intros vlast epochs ts. induction ts as [|u ts IH]; intros u0 Hwf H0 Hge Hs.
    - reflexivity.
    - inversion Hge as [|? ? Hu Hge']; subst.
      inversion Hs as [|? ? Hs' Hall]; subst.
      cbn [run_loop map]. cbv zeta.
      rewrite advance_init_state by assumption.
      f_equal. apply IH.
      + exact Hwf.
      + lra.
      + rewrite Forall_forall in Hall. apply Forall_forall. intros x Hx.
        specialize (Hall x Hx). unfold Qleb in Hall. apply Qle_bool_iff in Hall. exact Hall.
      + exact Hs'.
  Qed.

  (* the sorted loop is pointwise *)
  Theorem run_loop_pointwise :
    forall (vlast : V) (epochs : list (Q * V)) (ts : list Q),
      epochs_wf V 0 epochs ->
      Forall (fun t => 0 <= t) ts ->
      StronglySorted (fun a b => Qleb a b = true) ts ->
      run_loop M V mul step vlast (init M V one epochs) ts = map (eval_at M V mul one step epochs vlast) ts.
  Proof.
    intros vlast epochs ts Hwf Hpos Hs.
    rewrite <- (advance_init_zero vlast epochs Hwf).
    apply run_loop_from; try assumption. lra.
  Qed.

  (* ---------------------------------------------------------------- *)
  (* the vectorised entry point                                        *)
  (* ---------------------------------------------------------------- *)

  Lemma Qleb_total : forall a b, Qleb a b = true \/ Qleb b a = true.
  Proof.
    intros a b. unfold Qleb. destruct (Qlt_le_dec a b) as [H|H].
    - left. apply Qle_bool_iff. apply Qlt_le_weak. exact H.
    - right. apply Qle_bool_iff. exact H.
  Qed.

  Lemma Qleb_trans : forall a b c, Qleb a b = true -> Qleb b c = true -> Qleb a c = true.
  Proof.
    intros a b c H1 H2. unfold Qleb in *. apply Qle_bool_iff.
    apply Qle_bool_iff in H1. apply Qle_bool_iff in H2.
    apply Qle_trans with b; assumption.
  Qed.

  (* the vectorised entry point is pointwise for ANY order of the times, with repeats *)
  Theorem loop_vectorised_pointwise :
    forall (vlast : V) (epochs : list (Q * V)) (ts : list Q),
      epochs_wf V 0 epochs -> Forall (fun t => 0 <= t) ts ->
      loop_vectorised M V mul one step epochs vlast ts = map (eval_at M V mul one step epochs vlast) ts.
  Proof.
    intros vlast epochs ts Hwf Hpos. unfold loop_vectorised.
    rewrite <- (scatter_inverse Q M Qleb (eval_at M V mul one step epochs vlast) one ts).
    unfold vectorised. rewrite run_loop_pointwise.
    - reflexivity.
    - exact Hwf.
    - rewrite Forall_forall in Hpos. apply Forall_forall. intros x Hx.
      apply Hpos. apply (Permutation_in _ (sortK_perm Q Qleb ts)). exact Hx.
    - apply sortK_sorted.
      + exact Qleb_total.
      + exact Qleb_trans.
  Qed.

  (* i-th value = value of evaluating the i-th time alone *)
  Theorem loop_vectorised_singleton :
    forall (vlast : V) (epochs : list (Q * V)) (ts : list Q) (i : nat),
      epochs_wf V 0 epochs -> Forall (fun t => 0 <= t) ts -> (i < length ts)%nat ->
      nth i (loop_vectorised M V mul one step epochs vlast ts) one
      = nth 0 (loop_vectorised M V mul one step epochs vlast [nth i ts 0]) one.
  Proof.
    intros vlast epochs ts i Hwf Hpos Hi.
    rewrite loop_vectorised_pointwise by assumption.
    rewrite loop_vectorised_pointwise.
    - cbn [map nth].
      rewrite nth_indep with (d' := eval_at M V mul one step epochs vlast 0).
      + apply map_nth.
      + rewrite map_length. exact Hi.
    - exact Hwf.
    - constructor; [|constructor].
      rewrite Forall_forall in Hpos. apply Hpos. apply nth_In. exact Hi.
  Qed.

  (* ---------------------------------------------------------------- *)
  (* boundary convention                                               *)
  (* ---------------------------------------------------------------- *)

  (* evaluating exactly at the previous time adds nothing *)
  Lemma advle_at_prev :
    forall vlast rest Qm up u,
      u == up -> epochs_wf V up rest -> lQ (advle vlast Qm up rest u) = Qm.
  Proof.
    intros vlast rest Qm up u Hu Hwf. destruct rest as [|[en v] rest]; cbn [advance_rest_le].
    - cbn [lQ]. rewrite step_zero by lra. apply mul1r.
    - destruct Hwf as [Hlt _]. destruct (Qlt_le_dec u en) as [Ha|Ha]; [|lra].
      cbn [lQ]. rewrite step_zero by lra. apply mul1r.
  Qed.

  Lemma advle_adv :
    forall vlast rest Qm up u,
      up <= u -> wf_le up rest ->
      lQ (advle vlast Qm up rest u) = lQ (adv vlast Qm up rest u).
  Proof.
    intros vlast rest. induction rest as [|[en v] rest IH]; intros Qm up u Hu Hwf.
    - reflexivity.
    - destruct Hwf as [Hle Hwf]. cbn [advance_rest advance_rest_le].
      destruct (Qlt_le_dec u en) as [Ha|Ha]; destruct (Qlt_le_dec en u) as [Hb|Hb].
      + lra.
      + reflexivity.
      + apply IH; [lra | apply wf_wf_le; exact Hwf].
      + rewrite advle_at_prev; [| lra | exact Hwf].
        cbn [lQ]. f_equal. apply step_proper. lra.
  Qed.

  (* leaving an epoch at u > end or at u >= end gives the same matrix (evaluation exactly on a boundary) *)
  Theorem boundary_convention_irrelevant :
    forall (vlast : V) (epochs : list (Q * V)) (u : Q),
      epochs_wf V 0 epochs -> 0 <= u ->
      eval_at_le M V mul one step epochs vlast u = eval_at M V mul one step epochs vlast u.
  Proof.
    intros vlast epochs u Hwf Hu. unfold eval_at_le, eval_at, advance, init.
    cbn [lQ lprev lrest]. apply advle_adv; [exact Hu | apply wf_wf_le; exact Hwf].
  Qed.

  (* ---------------------------------------------------------------- *)
  (* redundant change point                                            *)
  (* ---------------------------------------------------------------- *)

  Lemma adv_split :
    forall vlast c rest Qm up u,
      up <= u -> up <= c -> wf_le up rest ->
      lQ (adv vlast Qm up (split_epoch V c vlast rest) u) = lQ (adv vlast Qm up rest u).
  Proof.
    intros vlast c rest. induction rest as [|[en v] rest IH]; intros Qm up u Hu Hc Hwf.
    - cbn [split_epoch advance_rest].
      destruct (Qlt_le_dec c u) as [Ha|Ha].
      + cbn [lQ]. apply step_split; lra.
      + reflexivity.
    - destruct Hwf as [Hle Hwf]. cbn [split_epoch].
      destruct (Qlt_le_dec c en) as [Hcen|Hcen].
      + cbn [advance_rest].
        destruct (Qlt_le_dec c u) as [Ha|Ha]; destruct (Qlt_le_dec en u) as [Hb|Hb].
        * rewrite step_split by lra. reflexivity.
        * cbn [lQ]. apply step_split; lra.
        * lra.
        * reflexivity.
      + cbn [advance_rest].
        destruct (Qlt_le_dec en u) as [Hb|Hb].
        * apply IH; [lra | exact Hcen | apply wf_wf_le; exact Hwf].
        * reflexivity.
  Qed.

  (* inserting a redundant change point (same generator on both sides) changes nothing *)
  Theorem redundant_change_point :
    forall (vlast : V) (epochs : list (Q * V)) (c u : Q),
      epochs_wf V 0 epochs -> 0 < c -> 0 <= u ->
      eval_at M V mul one step (split_epoch V c vlast epochs) vlast u
      = eval_at M V mul one step epochs vlast u.
  Proof.
    intros vlast epochs c u Hwf Hc Hu. unfold eval_at, advance, init.
    cbn [lQ lprev lrest]. apply adv_split; [exact Hu | lra | apply wf_wf_le; exact Hwf].
  Qed.

  Theorem eval_at_zero :
    forall (vlast : V) (epochs : list (Q * V)), epochs_wf V 0 epochs ->
      eval_at M V mul one step epochs vlast 0 = one.
  Proof.
    intros vlast epochs Hwf. unfold eval_at.
    rewrite advance_init_zero by exact Hwf. reflexivity.
  Qed.

End LoopLaws.

Print Assumptions advance_advance.
Print Assumptions run_loop_pointwise.
Print Assumptions loop_vectorised_pointwise.
Print Assumptions loop_vectorised_singleton.
Print Assumptions boundary_convention_irrelevant.
Print Assumptions redundant_change_point.
Print Assumptions eval_at_zero.
