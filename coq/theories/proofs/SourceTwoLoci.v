From Coq Require Import ZArith QArith Reals List Arith Lia.
From PG Require Import base.Ops base.OpsR model.CoalModels model.StateSpace proofs.SpaceFactsAllRates
                       gen.NpTrans gen.TransitionGen proofs.GenTransitionEquiv.
Import ListNotations.

(* property C06 for the translated Transition.transit (gen/TransitionGen.v, regenerated from phasegen/state_space.py on every run): with
   recombination rate 0 and every lineage linked, no transition of non-zero rate leads to a state with an unlinked lineage - the two
   trees stay identical *)
Theorem source_r0_no_unlinking : forall (n nl : nat) (P : params (T:=R)) (s t : state) (r : R),
  nl = n_loci s -> n_loci s = 2%nat -> p_lc P = true -> same_loci s -> rows1 (lin s) -> rows1 (lnk s) -> n_blocks s = 1%nat ->
  p_rec P = 0%R -> lnk s = lin s ->
  In (t, r) (Transition_transit OpsR n nl P s) ->
  (exists l d b : nat, unl t l d b <> 0%nat) -> r = 0%R.
Proof.
  intros n nl P s t r Hnl H2 Hlc Hsl Hr1 Hr2 Hb Hrec Hlnk Hin Hex.
  rewrite (gen_transit_two_loci OpsR n nl P s Hnl H2 Hlc Hsl Hr1 Hr2 Hb) in Hin.
  apply (r0_no_unlinking_unbounded P s t r Hrec); [rewrite H2; discriminate | exact Hlnk | exact Hin | exact Hex].
Qed.
Print Assumptions source_r0_no_unlinking.
