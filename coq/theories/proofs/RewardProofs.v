From Coq Require Import ZArith Reals List Arith Lia Lra Bool.
From PG Require Import base.Ops base.OpsR model.CoalModels model.StateSpace model.Rewards.
Import ListNotations.
Open Scope R_scope.

(* Conservation identities between the reward functions (phasegen/rewards.py), over the reals.
   Every statement is about a single state and holds for every state of the stated shape. *)

(* one locus; every deme row has length n; sum over demes d and block sizes i of i * a_{d,i} = n
   (the blocks partition the n samples) *)
Definition weighted (row : list nat) : nat :=
  sum_nat (map (fun ai => fst ai * S (snd ai))%nat (combine row (seq 0 (length row)))).
Definition bc_inv (n : nat) (s : state) : Prop :=
  n_loci s = 1%nat /\ Forall (fun row => length row = n) (nth 0 (lin s) []) /\
  sum_nat (map weighted (nth 0 (lin s) [])) = n.

(* ------------------------------------------------------------------------------------------ *)
(* sums of naturals                                                                            *)
(* ------------------------------------------------------------------------------------------ *)

Lemma sum_nat_cons x l : sum_nat (x :: l) = (x + sum_nat l)%nat.
Proof. reflexivity. Qed.

Lemma sum_nat_app l1 l2 : sum_nat (l1 ++ l2) = (sum_nat l1 + sum_nat l2)%nat.
Proof. induction l1 as [|x l1 IH]; [reflexivity|]. rewrite <- app_comm_cons, !sum_nat_cons, IH. lia. Qed.

Lemma sum_nat_map_add {A} (f g : A -> nat) l :
  sum_nat (map (fun x => f x + g x)%nat l) = (sum_nat (map f l) + sum_nat (map g l))%nat.
Proof. induction l as [|x l IH]; [reflexivity|]. cbn [map]. rewrite !sum_nat_cons, IH. lia. Qed.

Lemma sum_nat_map_mul {A} c (f : A -> nat) l :
  sum_nat (map (fun x => c * f x)%nat l) = (c * sum_nat (map f l))%nat.
Proof. induction l as [|x l IH]; [cbn; lia|]. cbn [map]. rewrite !sum_nat_cons, IH. lia. Qed.

Lemma sum_nat_map_zero {A} (l : list A) : sum_nat (map (fun _ => 0%nat) l) = 0%nat.
Proof. induction l as [|x l IH]; [reflexivity|]. cbn [map]. rewrite sum_nat_cons, IH. reflexivity. Qed.

Lemma sum_nat_map_le {A} (f g : A -> nat) l :
  (forall x, In x l -> (f x <= g x)%nat) -> (sum_nat (map f l) <= sum_nat (map g l))%nat.
Proof.
  induction l as [|x l IH]; intros H; [cbn; lia|]. cbn [map]. rewrite !sum_nat_cons.
  pose proof (H x (or_introl eq_refl)). assert (sum_nat (map f l) <= sum_nat (map g l))%nat.
  { apply IH. intros y Hy. apply H. right; exact Hy. } lia.
Qed.

Lemma sum_nat_exchange {A B} (f : A -> B -> nat) la lb :
  sum_nat (map (fun a => sum_nat (map (fun b => f a b) lb)) la)
  = sum_nat (map (fun b => sum_nat (map (fun a => f a b) la)) lb).
Proof.
  induction la as [|a la IH].
  - cbn [map]. rewrite sum_nat_map_zero. reflexivity.
  - cbn [map]. rewrite sum_nat_cons, IH.
    rewrite <- sum_nat_map_add. apply f_equal. apply map_ext. intros b. rewrite sum_nat_cons. reflexivity.
Qed.

Lemma map_nth_seq {A} (L : list A) d : map (fun i => nth i L d) (seq 0 (length L)) = L.
Proof.
  induction L as [|a L IH]; [reflexivity|].
  cbn [length seq map nth]. rewrite <- seq_shift, map_map. cbn [nth]. rewrite IH. reflexivity.
Qed.

Lemma sum_nat_over_nth {A} (F : A -> nat) (L : list A) d :
  sum_nat (map (fun i => F (nth i L d)) (seq 0 (length L))) = sum_nat (map F L).
Proof. rewrite <- (map_map (fun i => nth i L d) F), map_nth_seq. reflexivity. Qed.

(* ------------------------------------------------------------------------------------------ *)
(* real sums                                                                                   *)
(* ------------------------------------------------------------------------------------------ *)

Lemma oofN_INR k : oofN OpsR k = INR k.
Proof. unfold oofN; simpl. symmetry; apply INR_IZR_INZ. Qed.

Lemma Rsum_INR {A} (f : A -> nat) l :
  fold_right Rplus 0 (map (fun x => INR (f x)) l) = INR (sum_nat (map f l)).
Proof.
  induction l as [|x l IH]; [reflexivity|]. cbn [map fold_right]. rewrite sum_nat_cons, plus_INR, IH.
  reflexivity.
Qed.

Lemma Rsum_scal_r {A} (f : A -> R) c l :
  fold_right Rplus 0 (map (fun x => f x * c) l) = fold_right Rplus 0 (map f l) * c.
Proof. induction l as [|x l IH]; cbn [map fold_right]; [lra|]. rewrite IH. lra. Qed.

Lemma Rsum_scal_l {A} (f : A -> R) c l :
  fold_right Rplus 0 (map (fun x => c * f x) l) = c * fold_right Rplus 0 (map f l).
Proof. induction l as [|x l IH]; cbn [map fold_right]; [lra|]. rewrite IH. lra. Qed.

Lemma Rsum_ext_in {A} (f g : A -> R) l :
  (forall x, In x l -> f x = g x) -> fold_right Rplus 0 (map f l) = fold_right Rplus 0 (map g l).
Proof. intros H. rewrite (map_ext_in _ _ _ H). reflexivity. Qed.

Lemma Rsum_ofb {A} (p : A -> bool) l :
  fold_right Rplus 0 (map (fun x => ofb OpsR (p x)) l) = INR (length (filter p l)).
Proof.
  induction l as [|x l IH]; [reflexivity|]. cbn [map fold_right filter]. rewrite IH.
  destruct (p x); cbn [ofb length]; [rewrite S_INR; simpl; lra | simpl; lra].
Qed.

(* ------------------------------------------------------------------------------------------ *)
(* the reward values over the reals, in INR form                                               *)
(* ------------------------------------------------------------------------------------------ *)

Lemma rw_usfs n i s : reward_get OpsR n (RUnfoldedSFS i) s = INR (block_lineages s (i - 1)).
Proof. exact (oofN_INR _). Qed.

Lemma rw_tbl n s :
  reward_get OpsR n RTotalBranchLength s
  = INR (sum_nat (map (fun l => let t := sum3_locus (lin s) l in if Nat.ltb 1 t then t else 0%nat)
                      (seq 0 (n_loci s)))).
Proof. exact (oofN_INR _). Qed.

Lemma rw_tth n s :
  reward_get OpsR n RTotalTreeHeight s
  = INR (length (filter (fun l => Nat.ltb 1 (sum3_locus (lin s) l)) (seq 0 (n_loci s)))).
Proof. exact (oofN_INR _). Qed.

Lemma rw_tbll n l s :
  reward_get OpsR n (RTBLLocus l) s
  = INR (let t := sum3_locus (lin s) l in if Nat.ltb t 2 then 0%nat else t).
Proof. exact (oofN_INR _). Qed.

Lemma rw_deme n d s :
  reward_get OpsR n (RDeme d) s = INR (deme_lineages s d) * / INR (total_lineages s).
Proof.
  change (reward_get OpsR n (RDeme d) s)
    with (oofN OpsR (deme_lineages s d) * / oofN OpsR (total_lineages s)).
  rewrite !oofN_INR. reflexivity.
Qed.

Definition fold_bin (n : nat) (g : nat -> nat) (i : nat) : nat :=
  if Nat.eqb i (n - i) then g i else (g i + g (n - i))%nat.

Lemma rw_fsfs n i s :
  reward_get OpsR n (RFoldedSFS i) s = INR (fold_bin n (fun j => block_lineages s (j - 1)) i).
Proof.
  unfold fold_bin.
  change (reward_get OpsR n (RFoldedSFS i) s)
    with (if Nat.eqb i (n - i) then oofN OpsR (block_lineages s (i - 1))
          else oofN OpsR (block_lineages s (i - 1) + block_lineages s (n - i - 1))).
  destruct (Nat.eqb i (n - i)); apply oofN_INR.
Qed.

(* ------------------------------------------------------------------------------------------ *)
(* composites                                                                                  *)
(* ------------------------------------------------------------------------------------------ *)

(* rewards are linear / multiplicative in composites *)
Theorem sum_reward_linear :
  forall n rs s, reward_get OpsR n (RSum rs) s = fold_right Rplus 0 (map (fun r => reward_get OpsR n r s) rs).
Proof. reflexivity. Qed.

Theorem product_reward_pointwise :
  forall n rs s, reward_get OpsR n (RProduct rs) s = fold_right Rmult 1 (map (fun r => reward_get OpsR n r s) rs).
Proof. reflexivity. Qed.

(* ------------------------------------------------------------------------------------------ *)
(* rows of a block-counting state                                                              *)
(* ------------------------------------------------------------------------------------------ *)

Lemma sum_nat_nth row : sum_nat row = sum_nat (map (fun b => nth b row 0%nat) (seq 0 (length row))).
Proof. rewrite map_nth_seq. reflexivity. Qed.

Lemma weighted_gen row : forall k,
  sum_nat (map (fun ai => fst ai * S (snd ai))%nat (combine row (seq k (length row))))
  = sum_nat (map (fun b => nth b row 0 * S (k + b))%nat (seq 0 (length row))).
Proof.
  induction row as [|a row IH]; intros k; [reflexivity|].
  cbn [length seq combine map fst snd nth]. rewrite !sum_nat_cons, IH.
  rewrite <- (seq_shift (length row) 0), map_map. cbn [nth].
  rewrite Nat.add_0_r. apply f_equal. apply f_equal. apply map_ext. intros b.
  replace (k + S b)%nat with (S k + b)%nat by lia. reflexivity.
Qed.

Lemma weighted_nth row :
  weighted row = sum_nat (map (fun b => S b * nth b row 0)%nat (seq 0 (length row))).
Proof.
  unfold weighted. rewrite weighted_gen. apply f_equal. apply map_ext. intros b. cbn [Nat.add]. lia.
Qed.

(* a row of length n = S m: the entries below the top one, and the top one *)
Lemma row_split_sum n row : (1 <= n)%nat -> length row = n ->
  (sum_nat (map (fun b => nth b row 0%nat) (seq 0 (n - 1))) + nth (n - 1) row 0 = sum_nat row)%nat.
Proof.
  intros Hn Hl. rewrite (sum_nat_nth row), Hl.
  replace n with (S (n - 1)) at 3 by lia. rewrite seq_S, map_app, sum_nat_app. cbn. lia.
Qed.

Lemma row_split_weighted n row : (1 <= n)%nat -> length row = n ->
  (sum_nat (map (fun b => S b * nth b row 0)%nat (seq 0 (n - 1))) + n * nth (n - 1) row 0 = weighted row)%nat.
Proof.
  intros Hn Hl. rewrite (weighted_nth row), Hl.
  replace n with (S (n - 1)) at 4 by lia. rewrite seq_S, map_app, sum_nat_app. cbn [map Nat.add sum_nat fold_right].
  replace (S (n - 1)) with n by lia. lia.
Qed.

(* the counting core: block b of deme rows [loc], summed over demes *)
Definition col (loc : list (list nat)) (b : nat) : nat := sum_nat (map (fun row => nth b row 0%nat) loc).

Section Core.
  Variables (n : nat) (loc : list (list nat)).
  Hypothesis Hn : (2 <= n)%nat.
  Hypothesis Hrows : Forall (fun row => length row = n) loc.
  Hypothesis Hw : sum_nat (map weighted loc) = n.

  Let t := sum_nat (map sum_nat loc).
  Let A := col loc (n - 1).
  Let B := sum_nat (map (fun b => col loc b) (seq 0 (n - 1))).
  Let C := sum_nat (map (fun b => S b * col loc b)%nat (seq 0 (n - 1))).

  Lemma core_BA : (B + A = t)%nat.
  Proof.
    unfold B, A, t, col. rewrite sum_nat_exchange, <- sum_nat_map_add.
    apply f_equal. apply map_ext_in. intros row Hr.
    apply row_split_sum; [lia|]. rewrite Forall_forall in Hrows. apply Hrows, Hr.
  Qed.

  Lemma core_CA : (C + n * A = n)%nat.
  Proof.
    etransitivity; [|exact Hw]. unfold C, A, col.
    rewrite <- sum_nat_map_mul.
    rewrite (map_ext (fun b => S b * sum_nat (map (fun row => nth b row 0) loc))%nat
                     (fun b => sum_nat (map (fun row => S b * nth b row 0) loc))%nat)
      by (intros b; rewrite sum_nat_map_mul; reflexivity).
    rewrite sum_nat_exchange, <- sum_nat_map_add.
    apply f_equal. apply map_ext_in. intros row Hr.
    apply row_split_weighted; [lia|]. rewrite Forall_forall in Hrows. apply Hrows, Hr.
  Qed.

  Lemma core_BC : (B <= C)%nat.
  Proof. unfold B, C. apply sum_nat_map_le. intros b _. lia. Qed.

  Lemma core_CB : (C <= (n - 1) * B)%nat.
  Proof.
    unfold B, C. rewrite <- sum_nat_map_mul. apply sum_nat_map_le. intros b Hb.
    apply in_seq in Hb. apply Nat.mul_le_mono_r. lia.
  Qed.

  Lemma core_sfs : B = if Nat.ltb 1 t then t else 0%nat.
  Proof.
    pose proof core_BA. pose proof core_CA. pose proof core_BC. pose proof core_CB.
    destruct (Nat.ltb_spec 1 t).
    - destruct A as [|a]; [lia|]. nia.
    - destruct A as [|[|a]]; nia.
  Qed.

  Lemma core_wsfs : C = if Nat.ltb 1 t then n else 0%nat.
  Proof.
    pose proof core_BA. pose proof core_CA. pose proof core_BC. pose proof core_CB.
    destruct (Nat.ltb_spec 1 t).
    - destruct A as [|a]; [lia|]. nia.
    - destruct A as [|[|a]]; nia.
  Qed.
End Core.

(* single-locus states *)
Lemma single_locus s : n_loci s = 1%nat -> lin s = [nth 0 (lin s) []].
Proof.
  unfold n_loci. destruct (lin s) as [|loc [|? ?]]; cbn; intros H; try discriminate. reflexivity.
Qed.

Lemma bl_single s b : n_loci s = 1%nat -> block_lineages s b = col (nth 0 (lin s) []) b.
Proof.
  intros H. unfold block_lineages, col. rewrite H. cbn [seq map]. rewrite sum_nat_cons. cbn. lia.
Qed.

Lemma shift_sum (f : nat -> nat) a m :
  sum_nat (map f (seq (S a) m)) = sum_nat (map (fun b => f (S b)) (seq a m)).
Proof. rewrite <- seq_shift, map_map. reflexivity. Qed.

Lemma sfs_core n s : (2 <= n)%nat -> bc_inv n s ->
  sum_nat (map (fun i => block_lineages s (i - 1)) (seq 1 (n - 1)))
  = let t := sum3_locus (lin s) 0 in if Nat.ltb 1 t then t else 0%nat.
Proof.
  intros Hn (H1 & Hrows & Hw). rewrite shift_sum.
  rewrite (map_ext _ (fun b => col (nth 0 (lin s) []) b)).
  2:{ intros b. cbn [Nat.sub]. rewrite Nat.sub_0_r. apply bl_single, H1. }
  apply (core_sfs n _ Hn Hrows Hw).
Qed.

Lemma wsfs_core n s : (2 <= n)%nat -> bc_inv n s ->
  sum_nat (map (fun i => i * block_lineages s (i - 1))%nat (seq 1 (n - 1)))
  = if Nat.ltb 1 (sum3_locus (lin s) 0) then n else 0%nat.
Proof.
  intros Hn (H1 & Hrows & Hw). rewrite (shift_sum (fun i => i * block_lineages s (i - 1))%nat 0).
  rewrite (map_ext _ (fun b => S b * col (nth 0 (lin s) []) b)%nat).
  2:{ intros b. cbn [Nat.sub]. rewrite Nat.sub_0_r. rewrite (bl_single _ _ H1). reflexivity. }
  apply (core_wsfs n _ Hn Hrows Hw).
Qed.

(* the unfolded SFS rewards sum to the total branch length reward *)
Theorem sfs_sums_to_branch_length :
  forall n s, (2 <= n)%nat -> bc_inv n s ->
    fold_right Rplus 0 (map (fun i => reward_get OpsR n (RUnfoldedSFS i) s) (seq 1 (n - 1)))
    = reward_get OpsR n RTotalBranchLength s.
Proof.
  intros n s Hn Hinv.
  rewrite (map_ext _ _ (fun i => rw_usfs n i s)), Rsum_INR, rw_tbl.
  rewrite (sfs_core n s Hn Hinv). destruct Hinv as (H1 & _). rewrite H1.
  cbn [seq map]. rewrite sum_nat_cons. cbn [sum_nat fold_right]. rewrite Nat.add_0_r. reflexivity.
Qed.

(* the size-weighted SFS rewards sum to n times the tree-height reward *)
Theorem weighted_sfs_is_n_height :
  forall n s, (2 <= n)%nat -> bc_inv n s ->
    fold_right Rplus 0 (map (fun i => INR i * reward_get OpsR n (RUnfoldedSFS i) s) (seq 1 (n - 1)))
    = INR n * reward_get OpsR n RTreeHeight s.
Proof.
  intros n s Hn Hinv.
  rewrite (map_ext _ (fun i => INR (i * block_lineages s (i - 1)))).
  2:{ intros i. rewrite rw_usfs, mult_INR. reflexivity. }
  rewrite Rsum_INR, (wsfs_core n s Hn Hinv). destruct Hinv as (H1 & _).
  change (reward_get OpsR n RTreeHeight s)
    with (ofb OpsR (existsb (fun l => Nat.ltb 1 (sum3_locus (lin s) l)) (seq 0 (n_loci s)))).
  rewrite H1. cbn [seq existsb]. rewrite orb_false_r.
  destruct (Nat.ltb 1 (sum3_locus (lin s) 0)); cbn [ofb]; simpl; lra.
Qed.

(* the folded reward is the fold of the unfolded one *)
Theorem folded_is_fold :
  forall n i s, (1 <= i)%nat -> (i <= n - i)%nat ->
    reward_get OpsR n (RFoldedSFS i) s
    = if Nat.eqb i (n - i) then reward_get OpsR n (RUnfoldedSFS i) s
      else reward_get OpsR n (RUnfoldedSFS i) s + reward_get OpsR n (RUnfoldedSFS (n - i)) s.
Proof.
  intros n i s _ _. rewrite rw_fsfs, !rw_usfs. unfold fold_bin.
  destruct (Nat.eqb i (n - i)); [reflexivity|]. apply plus_INR.
Qed.

(* folding bins 1 .. n/2 of any function on 1 .. n-1 preserves the sum *)
Lemma fold_bin_sum : forall h n (g : nat -> nat), (n = 2 * h \/ n = 2 * h + 1)%nat -> (1 <= n)%nat ->
  sum_nat (map (fold_bin n g) (seq 1 h)) = sum_nat (map g (seq 1 (n - 1))).
Proof.
  induction h as [|h IH]; intros n g Hh Hn.
  - assert (n = 1)%nat by lia. subst n. reflexivity.
  - destruct n as [|[|m]]; try lia.
    cbn [seq map]. rewrite sum_nat_cons.
    destruct m as [|m'].
    + assert (h = 0)%nat by lia. subst h. reflexivity.
    + set (m := S m') in *.
      rewrite (shift_sum (fold_bin (S (S m)) g) 1 h).
      rewrite (map_ext_in _ (fold_bin m (fun j => g (S j)))).
      2:{ intros j Hj. apply in_seq in Hj. unfold fold_bin.
          replace (S (S m) - S j)%nat with (S (m - j)) by lia.
          change (Nat.eqb (S j) (S (m - j))) with (Nat.eqb j (m - j)). reflexivity. }
      rewrite (IH m (fun j => g (S j))) by lia.
      replace (S (S m) - 1)%nat with (S (S (m - 1))) by lia.
      rewrite seq_S, map_app, sum_nat_app. cbn [seq map]. rewrite !sum_nat_cons.
      rewrite (shift_sum g 1 (m - 1)).
      unfold fold_bin at 1. replace (S (S m) - 1)%nat with (S m) by lia.
      replace (1 + S (m - 1))%nat with (S m) by lia.
      cbn [Nat.eqb]. unfold m at 1. cbn [sum_nat fold_right]. lia.
Qed.

(* the folded SFS rewards also sum to the branch length (bins 1..n/2) *)
Theorem folded_sfs_sums_to_branch_length :
  forall n s, (2 <= n)%nat -> bc_inv n s ->
    fold_right Rplus 0 (map (fun i => reward_get OpsR n (RFoldedSFS i) s) (seq 1 (n / 2)))
    = reward_get OpsR n RTotalBranchLength s.
Proof.
  intros n s Hn Hinv. rewrite <- (sfs_sums_to_branch_length n s Hn Hinv).
  rewrite (map_ext _ _ (fun i => rw_fsfs n i s)), (map_ext _ _ (fun i => rw_usfs n i s)), !Rsum_INR.
  apply f_equal. apply fold_bin_sum; [|lia].
  pose proof (Nat.div_mod n 2 ltac:(lia)). pose proof (Nat.mod_upper_bound n 2 ltac:(lia)). lia.
Qed.

(* ------------------------------------------------------------------------------------------ *)
(* demes                                                                                       *)
(* ------------------------------------------------------------------------------------------ *)

Lemma total_lineages_alt s :
  total_lineages s = sum_nat (map (fun loc => sum_nat (map sum_nat loc)) (lin s)).
Proof.
  unfold total_lineages, sum3_locus, n_loci.
  apply (sum_nat_over_nth (fun loc => sum_nat (map sum_nat loc)) (lin s) []).
Qed.

Lemma deme_lineages_alt s d :
  deme_lineages s d = sum_nat (map (fun loc => sum_nat (nth d loc [])) (lin s)).
Proof.
  unfold deme_lineages, n_loci.
  apply (sum_nat_over_nth (fun loc => sum_nat (nth d loc [])) (lin s) []).
Qed.

Lemma deme_lineages_total s :
  Forall (fun loc => length loc = n_demes s) (lin s) ->
  sum_nat (map (deme_lineages s) (seq 0 (n_demes s))) = total_lineages s.
Proof.
  intros HF. rewrite total_lineages_alt.
  rewrite (map_ext _ _ (deme_lineages_alt s)), sum_nat_exchange.
  apply f_equal. apply map_ext_in. intros loc Hloc. rewrite Forall_forall in HF.
  rewrite <- (HF loc Hloc). apply (sum_nat_over_nth sum_nat loc []).
Qed.

(* per-deme fractions sum to one on every state with at least one lineage *)
Theorem deme_fractions_sum_to_one :
  forall n s, (1 <= total_lineages s)%nat -> Forall (fun loc => length loc = n_demes s) (lin s) ->
    fold_right Rplus 0 (map (fun d => reward_get OpsR n (RDeme d) s) (seq 0 (n_demes s))) = 1.
Proof.
  intros n s Ht HF.
  rewrite (map_ext _ _ (fun d => rw_deme n d s)), Rsum_scal_r, Rsum_INR, (deme_lineages_total s HF).
  apply Rinv_r. apply not_0_INR. lia.
Qed.

(* hence any reward r decomposes over demes: sum_d r * Deme_d = r *)
Theorem deme_marginals_decompose :
  forall n r s, (1 <= total_lineages s)%nat -> Forall (fun loc => length loc = n_demes s) (lin s) ->
    fold_right Rplus 0 (map (fun d => reward_get OpsR n (RProduct [r; RDeme d]) s) (seq 0 (n_demes s)))
    = reward_get OpsR n r s.
Proof.
  intros n r s Ht HF.
  rewrite (map_ext _ (fun d => reward_get OpsR n r s * reward_get OpsR n (RDeme d) s)).
  2:{ intros d. rewrite product_reward_pointwise. cbn [map fold_right]. lra. }
  rewrite Rsum_scal_l, (deme_fractions_sum_to_one n s Ht HF). lra.
Qed.

(* ------------------------------------------------------------------------------------------ *)
(* loci                                                                                        *)
(* ------------------------------------------------------------------------------------------ *)

(* per-locus branch lengths sum to the total; per-locus heights sum to the total tree height *)
Theorem locus_branch_lengths_sum :
  forall n s,
    fold_right Rplus 0 (map (fun l => reward_get OpsR n (RTBLLocus l) s) (seq 0 (n_loci s)))
    = reward_get OpsR n RTotalBranchLength s.
Proof.
  intros n s. rewrite (map_ext _ _ (fun l => rw_tbll n l s)), Rsum_INR, rw_tbl.
  apply f_equal. apply f_equal. apply map_ext. intros l. cbv zeta.
  destruct (Nat.ltb_spec (sum3_locus (lin s) l) 2), (Nat.ltb_spec 1 (sum3_locus (lin s) l)); lia.
Qed.

Theorem locus_heights_sum :
  forall n s,
    fold_right Rplus 0 (map (fun l => reward_get OpsR n (RLocus l) s) (seq 0 (n_loci s)))
    = reward_get OpsR n RTotalTreeHeight s.
Proof.
  intros n s. rewrite rw_tth.
  apply (Rsum_ofb (fun l => Nat.ltb 1 (sum3_locus (lin s) l)) (seq 0 (n_loci s))).
Qed.

(* ------------------------------------------------------------------------------------------ *)
(* CombinedReward                                                                              *)
(* ------------------------------------------------------------------------------------------ *)

(* CombinedReward rewriting is sound: (TotalBranchLength, Locus l) -> per-locus branch count *)
Theorem combined_tbl_locus :
  forall n l s, reward_get OpsR n (combined_reward [RTotalBranchLength; RLocus l]) s
              = reward_get OpsR n (RTBLLocus l) s.
Proof.
  intros n l s.
  change (combined_reward [RTotalBranchLength; RLocus l]) with (RProduct [RTBLLocus l]).
  rewrite product_reward_pointwise. cbn [map fold_right]. lra.
Qed.

Lemma find_none_of_forallb {A} (p : A -> bool) l :
  forallb (fun x => negb (p x)) l = true -> find p l = None.
Proof.
  induction l as [|x l IH]; [reflexivity|]. cbn [forallb find]. intros H.
  apply andb_true_iff in H. destruct H as [Hx Hl]. destruct (p x); [discriminate|]. apply IH, Hl.
Qed.

Theorem combined_no_rewrite :
  forall n rs s, (forallb (fun r => negb (is_tbl r)) rs = true \/ forallb (fun r => negb (is_locus r)) rs = true) ->
    reward_get OpsR n (combined_reward rs) s = reward_get OpsR n (RProduct rs) s.
Proof.
  intros n rs s H. unfold combined_reward.
  assert (E : combine_loop (length rs) rs = rs); [|rewrite E; reflexivity].
  destruct (length rs) as [|fuel]; [reflexivity|]. cbn [combine_loop].
  destruct H as [H|H]; rewrite (find_none_of_forallb _ _ H); [reflexivity|].
  destruct (find is_tbl rs); reflexivity.
Qed.

(* ------------------------------------------------------------------------------------------ *)
(* lineage-counting projection                                                                 *)
(* ------------------------------------------------------------------------------------------ *)

(* tree height and branch length rewards agree between a block-counting state and its
   lineage-counting projection *)
Definition project_lc (s : state) : state :=
  mkState (map (fun loc => map (fun row => [sum_nat row]) loc) (lin s))
          (map (fun loc => map (fun row => [sum_nat row]) loc) (lnk s)).

Lemma n_loci_project s : n_loci (project_lc s) = n_loci s.
Proof. unfold n_loci, project_lc. cbn [lin]. apply map_length. Qed.

Lemma nth_map_nil {A B} (f : list A -> list B) L l : f [] = [] -> nth l (map f L) [] = f (nth l L []).
Proof. intros H. transitivity (nth l (map f L) (f [])); [rewrite H; reflexivity | apply map_nth]. Qed.

Lemma sum3_project s l : sum3_locus (lin (project_lc s)) l = sum3_locus (lin s) l.
Proof.
  unfold sum3_locus, project_lc. cbn [lin].
  rewrite (nth_map_nil (fun loc : list (list nat) => map (fun row => [sum_nat row]) loc) (lin s) l eq_refl).
  rewrite map_map. apply f_equal. apply map_ext. intros row. cbn. lia.
Qed.

Lemma existsb_ext' {A} (f g : A -> bool) l : (forall x, f x = g x) -> existsb f l = existsb g l.
Proof. intros H. induction l as [|x l IH]; [reflexivity|]. cbn. rewrite H, IH. reflexivity. Qed.

Lemma forallb_ext' {A} (f g : A -> bool) l : (forall x, f x = g x) -> forallb f l = forallb g l.
Proof. intros H. induction l as [|x l IH]; [reflexivity|]. cbn. rewrite H, IH. reflexivity. Qed.

Theorem height_length_lc_bc :
  forall n s, reward_get OpsR n RTreeHeight (project_lc s) = reward_get OpsR n RTreeHeight s
           /\ reward_get OpsR n RTotalBranchLength (project_lc s) = reward_get OpsR n RTotalBranchLength s
           /\ is_absorbing (project_lc s) = is_absorbing s.
Proof.
  intros n s. split; [|split].
  - change (ofb OpsR (existsb (fun l => Nat.ltb 1 (sum3_locus (lin (project_lc s)) l)) (seq 0 (n_loci (project_lc s))))
            = ofb OpsR (existsb (fun l => Nat.ltb 1 (sum3_locus (lin s) l)) (seq 0 (n_loci s)))).
    rewrite n_loci_project. apply f_equal. apply existsb_ext'. intros l. rewrite sum3_project. reflexivity.
  - rewrite !rw_tbl, n_loci_project. apply f_equal. apply f_equal. apply map_ext. intros l.
    rewrite sum3_project. reflexivity.
  - unfold is_absorbing. rewrite n_loci_project. apply forallb_ext'. intros l.
    rewrite sum3_project. reflexivity.
Qed.

(* ------------------------------------------------------------------------------------------ *)
(* state-space choice                                                                          *)
(* ------------------------------------------------------------------------------------------ *)

(* state-space choice: lineage counting is chosen iff every reward supports it; a tuple containing
   the block-counting unit reward or an SFS reward never is *)
Theorem support_choice :
  forall rs, choose_lc rs = true <-> Forall (fun r => supports_lc r = true) rs.
Proof. intros rs. unfold choose_lc. rewrite forallb_forall, Forall_forall. reflexivity. Qed.

Lemma not_supported_forces_bc r rs : supports_lc r = false -> In r rs -> choose_lc rs = false.
Proof.
  intros Hr Hin. destruct (choose_lc rs) eqn:E; [|reflexivity].
  apply support_choice in E. rewrite Forall_forall in E. rewrite (E r Hin) in Hr. discriminate.
Qed.

Theorem bc_unit_forces_bc : forall rs, In RBlockCountingUnit rs -> choose_lc rs = false.
Proof. intros rs. apply not_supported_forces_bc. reflexivity. Qed.

Theorem unfolded_sfs_forces_bc : forall i rs, In (RUnfoldedSFS i) rs -> choose_lc rs = false.
Proof. intros i rs. apply not_supported_forces_bc. reflexivity. Qed.

Theorem folded_sfs_forces_bc : forall i rs, In (RFoldedSFS i) rs -> choose_lc rs = false.
Proof. intros i rs. apply not_supported_forces_bc. reflexivity. Qed.

(* any reward r0 times the (un)folded SFS rewards decomposes r0 times the total branch length (r0 = the unit reward: the spectrum
   of SFSDistribution; r0 = a deme reward: its per-population marginals) *)
Theorem sfs_family_decompose :
  forall n r0 s, (2 <= n)%nat -> bc_inv n s ->
    fold_right Rplus 0 (map (fun i => reward_get OpsR n (RProduct [r0; RUnfoldedSFS i]) s) (seq 1 (n - 1)))
    = reward_get OpsR n (RProduct [r0; RTotalBranchLength]) s.
Proof.
  intros n r0 s Hn Hinv.
  rewrite (map_ext _ (fun i => reward_get OpsR n r0 s * reward_get OpsR n (RUnfoldedSFS i) s)).
  2:{ intros i. rewrite product_reward_pointwise. cbn [map fold_right]. lra. }
  rewrite Rsum_scal_l, (sfs_sums_to_branch_length n s Hn Hinv), product_reward_pointwise. cbn [map fold_right]. lra.
Qed.

Theorem folded_sfs_family_decompose :
  forall n r0 s, (2 <= n)%nat -> bc_inv n s ->
    fold_right Rplus 0 (map (fun i => reward_get OpsR n (RProduct [r0; RFoldedSFS i]) s) (seq 1 (n / 2)))
    = reward_get OpsR n (RProduct [r0; RTotalBranchLength]) s.
Proof.
  intros n r0 s Hn Hinv.
  rewrite (map_ext _ (fun i => reward_get OpsR n r0 s * reward_get OpsR n (RFoldedSFS i) s)).
  2:{ intros i. rewrite product_reward_pointwise. cbn [map fold_right]. lra. }
  rewrite Rsum_scal_l, (folded_sfs_sums_to_branch_length n s Hn Hinv), product_reward_pointwise. cbn [map fold_right]. lra.
Qed.

Print Assumptions sfs_sums_to_branch_length.
Print Assumptions sfs_family_decompose.
Print Assumptions folded_sfs_family_decompose.
Print Assumptions weighted_sfs_is_n_height.
Print Assumptions folded_is_fold.
Print Assumptions folded_sfs_sums_to_branch_length.
Print Assumptions deme_fractions_sum_to_one.
Print Assumptions deme_marginals_decompose.
Print Assumptions locus_branch_lengths_sum.
Print Assumptions locus_heights_sum.
Print Assumptions combined_tbl_locus.
Print Assumptions combined_no_rewrite.
Print Assumptions sum_reward_linear.
Print Assumptions product_reward_pointwise.
Print Assumptions height_length_lc_bc.
Print Assumptions support_choice.
Print Assumptions bc_unit_forces_bc.
Print Assumptions unfolded_sfs_forces_bc.
Print Assumptions folded_sfs_forces_bc.
