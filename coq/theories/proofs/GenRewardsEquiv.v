(* Equivalence of the GENERATED translation of phasegen/rewards.py (gen/RewardsGen.v, regenerated from
   the Python source by /verif/translate/rewards2coq.py on every run of the checks that use reward
   vectors) with the hand-written model model/Rewards.v - for EVERY state (any nesting of lists, no shape
   hypothesis), every reward of the inductive type, every sample size.

   A change of a reward formula, of an isinstance guard, of a constructor guard or of the class hierarchy
   in the Python file changes the generated definitions and makes the corresponding theorem below fail.

   Hypotheses that are really needed (each theorem names its own):
     - OfZLaws OP: the injection of integers maps 0, 1 and + to the record's 0, 1 and + (the generated code
       injects integer arrays with oofN where the hand model writes o0 / o1 or counts first);
       proved below for the exact-rational and the real instance (laws_Q, laws_R);
     - locus_config_n = n_loci s (`state_space.locus_config.n` is the number of rows of the state);
     - 1 <= index for the SFS rewards (index 0 is `lineages[..., -1]` in NumPy, the LAST block, but block 0 in the
       model) and index < n for the folded one (index n makes NumPy read block -1);
   these are exactly the inputs on which source and model could differ, and are outside the documented
   domain (bins 1 .. n-1). *)
From Coq Require Import ZArith QArith Qreduction Reals List Arith Bool Lia.
From PG Require Import base.Ops base.OpsR model.CoalModels model.StateSpace model.Rewards
                       gen.NpState gen.RewardsGen.
Import ListNotations.
Local Open Scope nat_scope.

Record OfZLaws {T : Type} (OP : Ops T) : Prop := mkOfZLaws {
  ofz0 : oofZ OP 0%Z = o0 OP;
  ofz1 : oofZ OP 1%Z = o1 OP;
  ofz_add : forall a b : nat, oadd OP (oofN OP a) (oofN OP b) = oofN OP (a + b)
}.

Lemma laws_R : OfZLaws OpsR.
Proof.
  split; [reflexivity | reflexivity |].
  intros a b. unfold oofN. cbn [oadd oofZ OpsR]. rewrite Nat2Z.inj_add, plus_IZR. reflexivity.
Qed.

Lemma Qred_int (z : Z) : Qred (z # 1) = (z # 1)%Q.
Proof.
  unfold Qred. generalize (Z.ggcd_gcd z 1) (Z.ggcd_correct_divisors z 1).
  destruct (Z.ggcd z 1) as [g [aa bb]]. cbn [fst snd]. rewrite Z.gcd_1_r. intros -> [Ha Hb].
  rewrite Z.mul_1_l in Ha, Hb. subst. reflexivity.
Qed.

Lemma laws_Q : OfZLaws OpsQ.
Proof.
  split; [reflexivity | reflexivity |].
  intros a b. unfold oofN. cbn [oadd oofZ OpsQ]. rewrite Nat2Z.inj_add.
  unfold inject_Z, Qplus. cbn [Qnum Qden]. rewrite !Z.mul_1_r. change (1 * 1)%positive with 1%positive.
  apply Qred_int.
Qed.

(* ---------------- list lemmas ---------------- *)
Lemma map_nth_seq' {A B} (f : A -> B) (d : A) : forall l : list A,
  map f l = map (fun i => f (nth i l d)) (seq 0 (length l)).
Proof.
  induction l as [|x l IH]; [reflexivity|].
  cbn [length seq map nth]. f_equal. rewrite <- seq_shift, map_map. exact IH.
Qed.

Lemma forallb_ext_in {A} (f g : A -> bool) : forall l, (forall x, In x l -> f x = g x) -> forallb f l = forallb g l.
Proof.
  induction l as [|x l IH]; intros H; [reflexivity|]. cbn [forallb].
  rewrite (H x (or_introl eq_refl)), IH; [reflexivity|]. intros y Hy. apply H. right. exact Hy.
Qed.

Lemma existsb_map {A B} (f : A -> B) (p : B -> bool) : forall l, existsb p (map f l) = existsb (fun x => p (f x)) l.
Proof. induction l as [|x l IH]; [reflexivity|]. cbn. rewrite IH. reflexivity. Qed.

Lemma sum_nat_add_map {A} (f g : A -> nat) : forall l,
  sum_nat (map (fun x => f x + g x) l) = sum_nat (map f l) + sum_nat (map g l).
Proof. induction l as [|x l IH]; [reflexivity|]. cbn [map sum_nat fold_right] in *. unfold sum_nat in *. cbn. rewrite IH. lia. Qed.

Lemma sum_nat_cons x l : sum_nat (x :: l) = x + sum_nat l.
Proof. reflexivity. Qed.

Lemma getZ_nat {A} (l : list A) (i : nat) d : getZ l (Z.of_nat i) d = nth i l d.
Proof.
  unfold getZ. destruct (Z.of_nat i <? 0)%Z eqn:E; [apply Z.ltb_lt in E; lia|]. rewrite Nat2Z.id. reflexivity.
Qed.

Lemma getZ_pred {A} (l : list A) (i : nat) d : 1 <= i -> getZ l (Z.of_nat i - Z.of_nat 1)%Z d = nth (i - 1) l d.
Proof.
  intros H. replace (Z.of_nat i - Z.of_nat 1)%Z with (Z.of_nat (i - 1)) by lia. apply getZ_nat.
Qed.

Lemma nth_vadd : forall u v d, nth d (vadd u v) 0 = nth d u 0 + nth d v 0.
Proof.
  induction u as [|x u IH]; intros [|y v] d; cbn [vadd].
  - destruct d; reflexivity.
  - destruct d; reflexivity.
  - destruct d; cbn; lia.
  - destruct d; cbn [nth]; [reflexivity | apply IH].
Qed.

Lemma nth_fold_vadd : forall (rows : list (list nat)) d,
  nth d (fold_right vadd [] rows) 0 = sum_nat (map (fun r => nth d r 0) rows).
Proof.
  induction rows as [|r rows IH]; intros d; cbn [fold_right map].
  - destruct d; reflexivity.
  - rewrite nth_vadd, IH. reflexivity.
Qed.

Lemma nth_map_sum (m : list (list nat)) d : nth d (map sum_nat m) 0 = sum_nat (nth d m []).
Proof. change 0 with (sum_nat []). apply map_nth. Qed.

(* per-locus totals: lineages.sum(axis=(2,3)) *)
Lemma locus_totals (a : arr3) :
  np_sum2_1 (np_sum3_2 a) = map (fun l => sum3_locus a l) (seq 0 (length a)).
Proof.
  unfold np_sum2_1, np_sum3_2, sum3_locus. rewrite map_map.
  apply (map_nth_seq' (fun m => sum_nat (map sum_nat m)) []).
Qed.

Lemma nth_locus_totals (a : arr3) l : nth l (np_sum2_1 (np_sum3_2 a)) 0 = sum3_locus a l.
Proof.
  unfold np_sum2_1, np_sum3_2, sum3_locus. rewrite map_map.
  change 0 with ((fun m => sum_nat (map sum_nat m)) []). apply map_nth.
Qed.

Lemma total_is_sum_totals (s : state) :
  np_sum1_0 (np_sum2_1 (np_sum3_2 (lin s))) = total_lineages s.
Proof. unfold np_sum1_0, total_lineages, n_loci. rewrite locus_totals. reflexivity. Qed.

Section Equiv.
  Context {T : Type} (OP : Ops T) (L : OfZLaws OP).

  Lemma ofb_oofN (b : bool) : oofN OP (b2n b) = ofb OP b.
  Proof. destruct b; unfold oofN, ofb, b2n; cbn; [apply (ofz1 OP L) | apply (ofz0 OP L)]. Qed.

  Lemma osum_indicators {A} (p : A -> bool) : forall l,
    osum OP (map (fun x => oofN OP (b2n (p x))) l) = oofN OP (length (filter p l)).
  Proof.
    induction l as [|x l IH]; cbn [map filter osum fold_right length].
    - symmetry. apply (ofz0 OP L).
    - fold (osum OP (map (fun x0 => oofN OP (b2n (p x0))) l)). rewrite IH, (ofz_add OP L).
      destruct (p x); reflexivity.
  Qed.

  Variables (n nl : nat) (s : state).

  Theorem gen_tree_height_eq : TreeHeightReward_get_value OP n nl s = reward_get OP n RTreeHeight s.
  Proof.
    unfold TreeHeightReward_get_value. cbn [reward_get]. rewrite ofb_oofN. f_equal.
    unfold np_any1, np_gt1, np_gt0. rewrite locus_totals, map_map, existsb_map. reflexivity.
  Qed.

  Theorem gen_locus_eq l : LocusReward_get_value OP n nl l s = reward_get OP n (RLocus l) s.
  Proof.
    unfold LocusReward_get_value. cbn [reward_get]. rewrite ofb_oofN. f_equal.
    unfold np_gt0, np_get1_0. rewrite getZ_nat, nth_locus_totals. reflexivity.
  Qed.

  Theorem gen_total_tree_height_eq : nl = n_loci s ->
    TotalTreeHeightReward_get_value OP n nl s = reward_get OP n RTotalTreeHeight s.
  Proof.
    intros ->. unfold TotalTreeHeightReward_get_value, LocusReward_get_value. cbn [reward_get].
    rewrite <- (osum_indicators (fun l => Nat.ltb 1 (sum3_locus (lin s) l))). f_equal.
    apply map_ext. intros l. unfold np_gt0, np_get1_0. rewrite getZ_nat, nth_locus_totals. reflexivity.
  Qed.

  Theorem gen_total_branch_length_eq : nl = n_loci s ->
    TotalBranchLengthReward_get_value OP n nl s = reward_get OP n RTotalBranchLength s.
  Proof.
    intros ->. unfold TotalBranchLengthReward_get_value. cbn [reward_get]. cbv zeta. f_equal. f_equal.
    apply map_ext. intros l. unfold np_gt0, np_get1_0. rewrite getZ_nat, nth_locus_totals.
    destruct (Nat.ltb 1 (sum3_locus (lin s) l)); cbn [b2n]; lia.
  Qed.

  Lemma block_sum (b : nat) :
    np_sum1_0 (np_sum2_1 (map (map (fun r => nth b r 0)) (lin s))) = block_lineages s b.
  Proof.
    unfold np_sum1_0, np_sum2_1, block_lineages, n_loci. rewrite map_map. f_equal.
    apply (map_nth_seq' (fun m => sum_nat (map (fun r => nth b r 0) m)) []).
  Qed.

  Theorem gen_unfolded_sfs_eq i : 1 <= i ->
    UnfoldedSFSReward_get_value OP n nl i s = reward_get OP n (RUnfoldedSFS i) s.
  Proof.
    intros Hi. unfold UnfoldedSFSReward_get_value. cbn [reward_get]. f_equal.
    rewrite <- block_sum. unfold np_get3_2. f_equal. f_equal.
    apply map_ext. intros m. apply map_ext. intros r. apply getZ_pred. exact Hi.
  Qed.

  Lemma take_two_sum (z1 z2 : nat) :
    np_sum1_0 (np_sum2_1 (np_sum3_2 (map (map (fun r => [nth z1 r 0; nth z2 r 0])) (lin s))))
    = block_lineages s z1 + block_lineages s z2.
  Proof.
    rewrite <- !block_sum. unfold np_sum1_0, np_sum2_1, np_sum3_2. rewrite !map_map.
    rewrite <- sum_nat_add_map. f_equal. apply map_ext. intros m. rewrite !map_map.
    rewrite <- sum_nat_add_map. f_equal. apply map_ext. intros r.
    rewrite !sum_nat_cons. unfold sum_nat. cbn. lia.
  Qed.

  Lemma take_one_sum (z1 : nat) :
    np_sum1_0 (np_sum2_1 (np_sum3_2 (map (map (fun r => [nth z1 r 0])) (lin s)))) = block_lineages s z1.
  Proof.
    rewrite <- block_sum. unfold np_sum1_0, np_sum2_1, np_sum3_2. rewrite !map_map.
    f_equal. apply map_ext. intros m. rewrite !map_map. f_equal. apply map_ext. intros r.
    unfold sum_nat. cbn. lia.
  Qed.

  Theorem gen_folded_sfs_eq i : 1 <= i -> i < n ->
    FoldedSFSReward_get_value OP n nl i s = reward_get OP n (RFoldedSFS i) s.
  Proof.
    intros Hi Hn. unfold FoldedSFSReward_get_value, FoldedSFSReward_get_indices. cbn [reward_get]. cbv zeta.
    destruct (Nat.eqb i (n - i)) eqn:E.
    - apply Nat.eqb_eq in E.
      replace (Z.of_nat i =? Z.of_nat n - Z.of_nat i)%Z with true by (symmetry; apply Z.eqb_eq; lia).
      f_equal. rewrite <- take_one_sum. unfold np_take3_2. do 3 f_equal.
      apply map_ext. intros m. apply map_ext. intros r. cbn [map]. rewrite getZ_pred by exact Hi. reflexivity.
    - apply Nat.eqb_neq in E.
      replace (Z.of_nat i =? Z.of_nat n - Z.of_nat i)%Z with false by (symmetry; apply Z.eqb_neq; lia).
      f_equal. rewrite <- take_two_sum. unfold np_take3_2. do 3 f_equal.
      apply map_ext. intros m. apply map_ext. intros r. cbn [map]. rewrite getZ_pred by exact Hi.
      replace (Z.of_nat n - Z.of_nat i - Z.of_nat 1)%Z with (Z.of_nat (n - i - 1)) by lia.
      rewrite getZ_nat. reflexivity.
  Qed.

  Theorem gen_lineage_eq m : LineageReward_get_value OP n nl m s = reward_get OP n (RLineage m) s.
  Proof.
    unfold LineageReward_get_value. cbn [reward_get]. rewrite ofb_oofN, total_is_sum_totals. reflexivity.
  Qed.

  Theorem gen_deme_eq d : DemeReward_get_value OP n nl d s = reward_get OP n (RDeme d) s.
  Proof.
    unfold DemeReward_get_value. cbn [reward_get]. cbv zeta. rewrite total_is_sum_totals. f_equal. f_equal.
    unfold np_get1_0, np_sum2_0, np_sum3_2, deme_lineages, n_loci. rewrite getZ_nat, nth_fold_vadd, map_map.
    f_equal. rewrite (map_nth_seq' (fun m => nth d (map sum_nat m) 0) []).
    apply map_ext. intros l. apply nth_map_sum.
  Qed.

  Theorem gen_tbl_locus_eq l : TotalBranchLengthLocusReward_get_value OP n nl l s = reward_get OP n (RTBLLocus l) s.
  Proof.
    unfold TotalBranchLengthLocusReward_get_value. cbn [reward_get]. cbv zeta. f_equal.
    unfold np_mask_lt0, np_lt0, np_get1_0. rewrite getZ_nat, nth_locus_totals. reflexivity.
  Qed.

  Theorem gen_unit_eq : UnitReward_get_value OP n nl s = reward_get OP n RUnit s.
  Proof. reflexivity. Qed.
  Theorem gen_bc_unit_eq : BlockCountingUnitReward_get_value OP n nl s = reward_get OP n RBlockCountingUnit s.
  Proof. reflexivity. Qed.
End Equiv.

(* ---------------- the whole inductive type ---------------- *)
(* rewards whose SFS indices are in the documented domain *)
Fixpoint reward_ok (n : nat) (r : reward) : bool :=
  match r with
  | RUnfoldedSFS i => Nat.leb 1 i
  | RFoldedSFS i => andb (Nat.leb 1 i) (Nat.ltb i n)
  | RProduct rs | RSum rs => forallb (reward_ok n) rs
  | _ => true
  end.

Section RewardInd.
  Variable P : reward -> Prop.
  Hypothesis Hleaf : forall r, (match r with RProduct _ | RSum _ => False | _ => True end) -> P r.
  Hypothesis Hprod : forall rs, Forall P rs -> P (RProduct rs).
  Hypothesis Hsum : forall rs, Forall P rs -> P (RSum rs).
  Fixpoint reward_ind_nested (r : reward) : P r :=
    match r with
    | RProduct rs => Hprod rs ((fix go (l : list reward) : Forall P l :=
                                  match l with [] => Forall_nil P | x :: l' => Forall_cons x (reward_ind_nested x) (go l') end) rs)
    | RSum rs => Hsum rs ((fix go (l : list reward) : Forall P l :=
                             match l with [] => Forall_nil P | x :: l' => Forall_cons x (reward_ind_nested x) (go l') end) rs)
    | r' => Hleaf r' ltac:(exact I)
    end.
End RewardInd.

Theorem gen_reward_get_eq {T : Type} (OP : Ops T) (L : OfZLaws OP) (n : nat) (s : state) : forall r,
  reward_ok n r = true ->
  gen_reward_get OP n (n_loci s) r s = reward_get OP n r s.
Proof.
  induction r as [r Hr | rs IH | rs IH] using reward_ind_nested; intros Hok.
  - destruct r; try contradiction; cbn [gen_reward_get reward_ok] in *.
    + apply gen_tree_height_eq; exact L.
    + apply gen_total_tree_height_eq; [exact L | reflexivity].
    + apply gen_total_branch_length_eq; reflexivity.
    + apply gen_unfolded_sfs_eq. apply Nat.leb_le. exact Hok.
    + apply andb_true_iff in Hok. destruct Hok as [H1 H2].
      apply gen_folded_sfs_eq; [apply Nat.leb_le; exact H1 | apply Nat.ltb_lt; exact H2].
    + apply gen_lineage_eq; exact L.
    + apply gen_deme_eq.
    + apply gen_locus_eq; exact L.
    + reflexivity.
    + reflexivity.
    + apply gen_tbl_locus_eq.
  - cbn [gen_reward_get reward_get reward_ok] in *. unfold ProductReward_get_value. f_equal.
    rewrite forallb_forall in Hok. rewrite Forall_forall in IH.
    apply map_ext_in. intros r' Hin. apply IH; [exact Hin | apply Hok; exact Hin].
  - cbn [gen_reward_get reward_get reward_ok] in *. unfold SumReward_get_value. f_equal.
    rewrite forallb_forall in Hok. rewrite Forall_forall in IH.
    apply map_ext_in. intros r' Hin. apply IH; [exact Hin | apply Hok; exact Hin].
Qed.

(* the reward VECTOR over any list of states whose number of loci is the configured one *)
Theorem gen_reward_vector_eq {T : Type} (OP : Ops T) (L : OfZLaws OP) (n nl : nat) (r : reward) (states : list state) :
  reward_ok n r = true -> Forall (fun s => n_loci s = nl) states ->
  map (gen_reward_get OP n nl r) states = reward_vector OP n r states.
Proof.
  intros Hok Hs. unfold reward_vector. apply map_ext_in. intros s Hin.
  rewrite Forall_forall in Hs. rewrite <- (Hs s Hin). apply gen_reward_get_eq; assumption.
Qed.

(* ---------------- Reward.supports: the class hierarchy ---------------- *)
Theorem gen_supports_lc_eq : forall r, gen_supports_lc r = supports_lc r.
Proof.
  induction r as [r Hr | rs IH | rs IH] using reward_ind_nested.
  - destruct r; try contradiction; reflexivity.
  - cbn. rewrite Forall_forall in IH. apply forallb_ext_in. exact IH.
  - cbn. rewrite Forall_forall in IH. apply forallb_ext_in. exact IH.
Qed.

Theorem gen_supports_bc_eq : forall r, gen_supports_bc r = supports_bc r.
Proof.
  induction r as [r Hr | rs IH | rs IH] using reward_ind_nested.
  - destruct r; try contradiction; reflexivity.
  - cbn. rewrite Forall_forall in IH. apply forallb_ext_in. exact IH.
  - cbn. rewrite Forall_forall in IH. apply forallb_ext_in. exact IH.
Qed.

(* `_get` returns (does not raise NotImplementedError) on the state space that Coalescent._get_dist selects through
   Reward.support: a reward that supports lineage counting is computable on the lineage-counting space, and one that
   does not but supports block counting is computable on the block-counting space - EXCEPT TotalTreeHeightReward,
   which claims block-counting support in the class hierarchy but delegates to LocusReward (lineage counting only);
   stated as it is. *)
Fixpoint no_total_tree_height (r : reward) : bool :=
  match r with
  | RTotalTreeHeight => false
  | RProduct rs | RSum rs => forallb no_total_tree_height rs
  | _ => true
  end.

Theorem gen_supported_on_lc : forall r, gen_supports_lc r = true -> gen_get_supported SS_LC r = true.
Proof.
  induction r as [r Hr | rs IH | rs IH] using reward_ind_nested; intros H.
  - destruct r; try contradiction; cbn in *; try reflexivity; discriminate.
  - cbn in *. rewrite forallb_forall in *. rewrite Forall_forall in IH. intros x Hx. apply IH; [exact Hx | apply H; exact Hx].
  - cbn in *. rewrite forallb_forall in *. rewrite Forall_forall in IH. intros x Hx. apply IH; [exact Hx | apply H; exact Hx].
Qed.

Theorem gen_supported_on_bc : forall r, gen_supports_bc r = true -> no_total_tree_height r = true ->
  gen_get_supported SS_BC r = true.
Proof.
  induction r as [r Hr | rs IH | rs IH] using reward_ind_nested; intros H H2.
  - destruct r; try contradiction; cbn in *; try reflexivity; discriminate.
  - cbn in *. rewrite forallb_forall in *. rewrite Forall_forall in IH. intros x Hx. apply IH; [exact Hx | apply H; exact Hx | apply H2; exact Hx].
  - cbn in *. rewrite forallb_forall in *. rewrite Forall_forall in IH. intros x Hx. apply IH; [exact Hx | apply H; exact Hx | apply H2; exact Hx].
Qed.

Example total_tree_height_raises_on_block_counting :
  gen_supports_bc RTotalTreeHeight = true /\ gen_get_supported SS_BC RTotalTreeHeight = false.
Proof. split; reflexivity. Qed.

(* constructor guard of LineageReward *)
Theorem gen_lineage_init_guard : forall m : Z, LineageReward_init_raises m = (m <? 2)%Z.
Proof. reflexivity. Qed.

(* ---------------- instances, and identities stated DIRECTLY about the translated source ---------------- *)
From PG Require Import proofs.RewardProofs.
Local Open Scope nat_scope.

Theorem gen_reward_vector_eq_R (n nl : nat) (r : reward) (states : list state) :
  reward_ok n r = true -> Forall (fun s => n_loci s = nl) states ->
  map (gen_reward_get OpsR n nl r) states = reward_vector OpsR n r states.
Proof. apply gen_reward_vector_eq. exact laws_R. Qed.

Theorem gen_reward_vector_eq_Q (n nl : nat) (r : reward) (states : list state) :
  reward_ok n r = true -> Forall (fun s => n_loci s = nl) states ->
  map (gen_reward_get OpsQ n nl r) states = reward_vector OpsQ n r states.
Proof. apply gen_reward_vector_eq. exact laws_Q. Qed.

Lemma seq_in_1 n i : In i (seq 1 (n - 1)) -> 1 <= i /\ i < n.
Proof. intros H. apply in_seq in H. lia. Qed.

(* rewards.py itself: the SFS bins sum to the total branch length, state by state (block-counting states) *)
Theorem source_sfs_sums_to_branch_length :
  forall n s, 2 <= n -> bc_inv n s ->
    fold_right Rplus 0%R (map (fun i => gen_reward_get OpsR n 1 (RUnfoldedSFS i) s) (seq 1 (n - 1)))
    = gen_reward_get OpsR n 1 RTotalBranchLength s.
Proof.
  intros n s Hn Hinv. assert (Hl : n_loci s = 1) by (destruct Hinv as [H _]; exact H).
  assert (E : forall r, reward_ok n r = true -> gen_reward_get OpsR n 1 r s = reward_get OpsR n r s).
  { intros r Hr. rewrite <- Hl. apply gen_reward_get_eq; [exact laws_R | exact Hr]. }
  rewrite (E RTotalBranchLength eq_refl), <- (sfs_sums_to_branch_length n s Hn Hinv). f_equal.
  apply map_ext_in. intros i Hi. apply seq_in_1 in Hi. destruct Hi as [H1 H2].
  apply E. cbn [reward_ok]. apply Nat.leb_le. exact H1.
Qed.

(* rewards.py itself: the per-population fractions sum to one on every state that holds a lineage *)
Theorem source_deme_fractions_sum_to_one :
  forall n s, (0 < total_lineages s)%nat ->
    Forall (fun m => length m = n_demes s) (lin s) ->
    fold_right Rplus 0%R (map (fun d => gen_reward_get OpsR n (n_loci s) (RDeme d) s) (seq 0 (n_demes s))) = 1%R.
Proof.
  intros n s Hpos Hshape. rewrite <- (deme_fractions_sum_to_one n s Hpos Hshape). f_equal.
  apply map_ext. intros d. apply (gen_reward_get_eq OpsR laws_R n s (RDeme d)). reflexivity.
Qed.
