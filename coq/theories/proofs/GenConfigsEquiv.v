(* Equivalence of the GENERATED translation of the configuration classes (gen/ConfigsGen.v, regenerated from
   phasegen/locus.py, phasegen/lineage.py and StateSpace.alpha of phasegen/state_space.py by /verif/translate/configs2coq.py
   on every run of the checks that depend on them) with the hand-written model:

     gen_locus_config_guards           LocusConfig.__init__'s guards      = outcome (RLocusConfig ..) of model/Validate.v
     gen_locus_initial_states_eq       LocusConfig._get_initial_states    = matches_linkage of model/StateSpace.v
     gen_lineage_initial_states_eq     LineageConfig._get_initial_states  = matches_config
     gen_alpha_eq_R                    StateSpace.alpha                   = alpha_vec (over the reals)
     gen_lineage_init_*                the three container forms of LineageConfig(n): counts in the given order, total, names
     gen_locus_eq_spec                 LocusConfig.__eq__ decides equality of the stored attributes
     gen_completion_*                  AbstractCoalescent.__init__: the given populations keep their order and counts, the added ones get 0
                                       lineages (total unchanged); the demography is completed with size 1 for exactly the unknown sampled populations

   and what follows for the SOURCE: invalid locus configurations are rejected and valid ones accepted
   (source_locus_config_rejects / _accepts), alpha is a probability vector concentrated on the states that match the sample
   configuration and the linkage (source_alpha_sums_to_one, source_alpha_support). *)
From Coq Require Import String.
From Coq Require Import ZArith QArith Reals List Arith Bool Lia Lra.
From PG Require Import base.Ops base.OpsR model.CoalModels model.StateSpace model.Validate proofs.ValidateProofs.
From PG Require Import gen.NpState gen.NpConfigs gen.ConfigsGen proofs.GenRewardsEquiv.
Import ListNotations.
Local Open Scope list_scope.
Local Open Scope nat_scope.

(* ---------------------------------------------------------------- LocusConfig.__init__ *)
Theorem gen_locus_config_guards : forall n u r, LocusConfig_init_verdict n u r = outcome (RLocusConfig n u r).
Proof. reflexivity. Qed.

Theorem source_locus_config_rejects : forall n u r,
    ~ ((1 <= n <= 2)%Z /\ (0 <= u)%Z /\ (0 <= r)%Q) -> LocusConfig_init_verdict n u r <> Ok.
Proof. intros n u r H. rewrite gen_locus_config_guards. apply invalid_requests_fail_loudly. exact H. Qed.

Theorem source_locus_config_accepts : forall n u r,
    (1 <= n <= 2)%Z -> (0 <= u)%Z -> (0 <= r)%Q -> LocusConfig_init_verdict n u r = Ok.
Proof. intros n u r Hn Hu Hr. rewrite gen_locus_config_guards. apply valid_requests_accepted. cbn. auto. Qed.

Theorem source_more_than_two_loci_not_implemented : forall n u r,
    (2 < n)%Z -> LocusConfig_init_verdict n u r = NotImpl.
Proof.
  intros n u r Hn. unfold LocusConfig_init_verdict.
  destruct (n <? 1)%Z eqn:E1; [apply Z.ltb_lt in E1; lia|].
  destruct (2 <? n)%Z eqn:E2; [reflexivity|]. apply Z.ltb_ge in E2. lia.
Qed.

(* ---------------------------------------------------------------- per-state indicator functions *)
Lemma forallb_id_map {A} (f : A -> bool) : forall l, forallb (fun b => b) (map f l) = forallb f l.
Proof. induction l as [|x l IH]; [reflexivity|]. cbn. rewrite IH. reflexivity. Qed.

Lemma forallb_map' {A B} (F : A -> B) (p : B -> bool) : forall l, forallb p (map F l) = forallb (fun x => p (F x)) l.
Proof. induction l as [|x l IH]; [reflexivity|]. cbn. rewrite IH. reflexivity. Qed.

Lemma forallb_nth_seq {A} (f : A -> bool) (d : A) : forall l,
    forallb f l = forallb (fun i => f (nth i l d)) (seq 0 (length l)).
Proof.
  intros l. rewrite <- (forallb_id_map f l), (map_nth_seq' f d l), forallb_id_map. reflexivity.
Qed.

Theorem gen_locus_initial_states_eq : forall (nl u n : nat) (s : state),
    n_loci s = nl -> length (lnk s) = length (lin s) ->
    LocusConfig_get_initial_states (Z.of_nat nl) (Z.of_nat u) n s = b2n (matches_linkage (n - u) s).
Proof.
  intros nl u n s Hnl Hlen. unfold LocusConfig_get_initial_states, matches_linkage. rewrite Hnl.
  replace (Z.of_nat nl =? 1)%Z with (Nat.eqb nl 1).
  2:{ destruct (Nat.eqb_spec nl 1) as [->|H]; [reflexivity|]. symmetry. apply Z.eqb_neq. lia. }
  destruct (Nat.eqb nl 1); [reflexivity|]. f_equal.
  replace (Z.max (Z.of_nat n - Z.of_nat u) 0) with (Z.of_nat (n - u)) by lia.
  unfold np_all1, np_eqZ1. rewrite forallb_id_map.
  rewrite (forallb_nth_seq _ 0).
  unfold all_loci. rewrite Hnl.
  replace (length (np_sum2_1 (np_sum3_2 (lnk s)))) with nl.
  2:{ unfold np_sum2_1, np_sum3_2. rewrite !map_length. rewrite Hlen. symmetry. exact Hnl. }
  apply forallb_ext_in. intros l _. rewrite nth_locus_totals.
  destruct (Nat.eqb_spec (sum3_locus (lnk s) l) (n - u)) as [->|H]; [apply Z.eqb_refl|]. apply Z.eqb_neq. lia.
Qed.

Lemma row_cmp : forall r v : list nat,
    forallb (fun b => b) (if Nat.eqb (length r) (length v) then map (fun xy => Nat.eqb (fst xy) (snd xy)) (combine r v) else [false])
    = list_eqb Nat.eqb r v.
Proof.
  induction r as [|x r IH]; intros [|y v]; try reflexivity.
  cbn [length Nat.eqb combine map list_eqb]. specialize (IH v).
  destruct (Nat.eqb (length r) (length v)).
  - cbn [forallb fst snd]. cbn [forallb] in IH. rewrite IH. reflexivity.
  - cbn [forallb] in *. rewrite andb_true_r in IH. rewrite <- IH. rewrite andb_false_r. reflexivity.
Qed.

Theorem gen_lineage_initial_states_eq : forall (cfg : list nat) (s : state),
    LineageConfig_get_initial_states cfg s = b2n (matches_config cfg s).
Proof.
  intros cfg s. unfold LineageConfig_get_initial_states, matches_config, all_loci, n_loci. f_equal.
  unfold np_all2, np_eq2_row, np_get3_2. rewrite map_map.
  rewrite forallb_map'. rewrite (forallb_nth_seq _ [] (lin s)).
  apply forallb_ext_in. intros l _.
  rewrite row_cmp. reflexivity.
Qed.

(* ---------------------------------------------------------------- StateSpace.alpha over the reals *)
Lemma b2n_mul a b : b2n a * b2n b = b2n (a && b).
Proof. destruct a, b; reflexivity. Qed.

Lemma sum_b2n_count : forall l : list bool, sum_nat (map b2n l) = length (filter (fun b => b) l).
Proof.
  induction l as [|b l IH]; [reflexivity|]. cbn [map filter]. rewrite sum_nat_cons, IH. destruct b; reflexivity.
Qed.

Theorem gen_alpha_eq_R : forall (cfg : list nat) (nl u : nat) (states : list state),
    (forall s, In s states -> n_loci s = nl /\ length (lnk s) = length (lin s)) ->
    StateSpace_alpha OpsR cfg (Z.of_nat nl) (Z.of_nat u) (sum_nat cfg) states = alpha_vec OpsR cfg u states.
Proof.
  intros cfg nl u states Hwf. unfold StateSpace_alpha, alpha_vec.
  set (ind := map (fun s => matches_config cfg s && matches_linkage (sum_nat cfg - u) s) states).
  assert (Halpha : map (fun ab => fst ab * snd ab)
                       (combine (map (LineageConfig_get_initial_states cfg) states)
                                (map (LocusConfig_get_initial_states (Z.of_nat nl) (Z.of_nat u) (sum_nat cfg)) states))
                   = map b2n ind).
  { unfold ind. clear ind. induction states as [|s states IH]; [reflexivity|].
    cbn [map combine fst snd]. rewrite IH by (intros s' Hs'; apply Hwf; right; exact Hs').
    f_equal. rewrite gen_lineage_initial_states_eq.
    destruct (Hwf s (or_introl eq_refl)) as [H1 H2].
    rewrite (gen_locus_initial_states_eq nl u (sum_nat cfg) s H1 H2). apply b2n_mul. }
  rewrite Halpha. rewrite map_map. rewrite sum_b2n_count.
  apply map_ext. intros b. destruct b; cbn [b2n].
  - reflexivity.
  - unfold odiv, oofN. cbn. lra.
Qed.

(* alpha is a probability vector on the matching states *)
Lemma nth_map_lt {A B} (f : A -> B) d d' : forall l i, i < length l -> nth i (map f l) d = f (nth i l d').
Proof. induction l as [|x l IH]; intros [|i] H; cbn in *; try lia; auto. apply IH. lia. Qed.

Lemma alpha_vec_entry : forall cfg u states i,
    i < length states ->
    nth i (alpha_vec OpsR cfg u states) 0%R
    = (if matches_config cfg (nth i states (mkState [] [])) && matches_linkage (sum_nat cfg - u) (nth i states (mkState [] []))
       then (1 / INR (length (filter (fun b => b)
                        (map (fun s => matches_config cfg s && matches_linkage (sum_nat cfg - u) s) states))))%R else 0%R).
Proof.
  intros cfg u states i Hi. unfold alpha_vec.
  rewrite (nth_map_lt _ 0%R false) by (rewrite map_length; exact Hi).
  rewrite (nth_map_lt _ false (mkState [] [])) by exact Hi.
  destruct (matches_config cfg (nth i states (mkState [] [])) && matches_linkage (sum_nat cfg - u) (nth i states (mkState [] []))); [|reflexivity].
  unfold odiv, oofN. cbn. rewrite INR_IZR_INZ. reflexivity.
Qed.

Lemma sum_indicator : forall (l : list bool) (c : R),
    fold_right Rplus 0%R (map (fun b : bool => if b then c else 0%R) l) = (INR (length (filter (fun b => b) l)) * c)%R.
Proof.
  induction l as [|b l IH]; intros c; [cbn; lra|].
  cbn [map fold_right filter]. rewrite IH. destruct b.
  - cbn [length]. rewrite S_INR. lra.
  - lra.
Qed.

Theorem source_alpha_sums_to_one : forall (cfg : list nat) (nl u : nat) (states : list state),
    (forall s, In s states -> n_loci s = nl /\ length (lnk s) = length (lin s)) ->
    (exists s, In s states /\ matches_config cfg s = true /\ matches_linkage (sum_nat cfg - u) s = true) ->
    fold_right Rplus 0%R (StateSpace_alpha OpsR cfg (Z.of_nat nl) (Z.of_nat u) (sum_nat cfg) states) = 1%R.
Proof.
  intros cfg nl u states Hwf [s [Hs [H1 H2]]]. rewrite gen_alpha_eq_R by exact Hwf.
  unfold alpha_vec.
  set (ind := map (fun s => matches_config cfg s && matches_linkage (sum_nat cfg - u) s) states).
  assert (Hpos : 0 < length (filter (fun b => b) ind)).
  { assert (Hin : In true (filter (fun b => b) ind)).
    { apply filter_In. split; [|reflexivity]. unfold ind. apply in_map_iff. exists s. rewrite H1, H2. auto. }
    destruct (filter (fun b => b) ind); [destruct Hin | cbn; lia]. }
  rewrite sum_indicator. unfold odiv, oofN. cbn. rewrite <- INR_IZR_INZ.
  field. apply not_0_INR. lia.
Qed.

Theorem source_alpha_support : forall (cfg : list nat) (nl u : nat) (states : list state) i,
    (forall s, In s states -> n_loci s = nl /\ length (lnk s) = length (lin s)) ->
    i < length states ->
    matches_config cfg (nth i states (mkState [] [])) && matches_linkage (sum_nat cfg - u) (nth i states (mkState [] [])) = false ->
    nth i (StateSpace_alpha OpsR cfg (Z.of_nat nl) (Z.of_nat u) (sum_nat cfg) states) 0%R = 0%R.
Proof.
  intros cfg nl u states i Hwf Hi Hm. rewrite gen_alpha_eq_R by exact Hwf. rewrite alpha_vec_entry by exact Hi.
  rewrite Hm. reflexivity.
Qed.

(* ---------------------------------------------------------------- LineageConfig.__init__ *)
Theorem gen_lineage_init_dict : forall d,
    LineageConfig_init (NDict d) = (map snd d, fold_right Z.add 0%Z (map snd d), length d, map fst d).
Proof.
  intros d. unfold LineageConfig_init, LineageConfig_n_lineages.
  assert (H : map (fun kv : string * Z => (fst kv, snd kv)) d = d).
  { induction d as [|[k v] d IH]; [reflexivity|]. cbn. rewrite IH. reflexivity. }
  rewrite H. reflexivity.
Qed.

Lemma combine_seq_snd {A} : forall (l : list A) a, map snd (combine (seq a (length l)) l) = l.
Proof. induction l as [|x l IH]; intros a; [reflexivity|]. cbn. rewrite IH. reflexivity. Qed.
Lemma combine_seq_fst {A} : forall (l : list A) a, map fst (combine (seq a (length l)) l) = seq a (length l).
Proof. induction l as [|x l IH]; intros a; [reflexivity|]. cbn. rewrite IH. reflexivity. Qed.

Theorem gen_lineage_init_iterable : forall l,
    LineageConfig_init (NIter l) = (l, fold_right Z.add 0%Z l, length l, map pop_name (seq 0 (length l))).
Proof.
  intros l. unfold LineageConfig_init, LineageConfig_n_lineages.
  rewrite !map_map. cbn [fst snd].
  change (map (fun x : nat * Z => snd x) (combine (seq 0 (length l)) l)) with (map snd (combine (seq 0 (length l)) l)).
  rewrite (combine_seq_snd l 0). rewrite map_length, combine_length, seq_length, Nat.min_id.
  rewrite <- (combine_seq_fst l 0) at 2. rewrite map_map. reflexivity.
Qed.

Theorem gen_lineage_init_scalar : forall v, LineageConfig_init (NScalar v) = ([v], (v + 0)%Z, 1, [pop_name 0]).
Proof. reflexivity. Qed.

(* ---------------------------------------------------------------- LocusConfig.__eq__ *)
Theorem gen_locus_eq_spec : forall n1 u1 r1 c1 n2 u2 r2 c2,
    LocusConfig_eq (n1, u1, r1, c1) (n2, u2, r2, c2) = true <-> n1 = n2 /\ u1 = u2 /\ (r1 == r2)%Q /\ c1 = c2.
Proof.
  intros. unfold LocusConfig_eq. rewrite !andb_true_iff, !Z.eqb_eq, Qeq_bool_iff, eqb_true_iff. tauto.
Qed.


(* ---------------------------------------------------------------- Epoch: the key equality of the state-space cache *)
Section EpochEq.
  Definition same_sizes (a b : list (string * Q)) : Prop :=
    Forall2 (fun x y => fst x = fst y /\ (snd x == snd y)%Q) a b.
  Definition same_mig (a b : list (string * string * Q)) : Prop :=
    Forall2 (fun x y => fst x = fst y /\ (snd x == snd y)%Q) a b.

  Lemma list_eqb_Forall2 {A} (eqb : A -> A -> bool) (P : A -> A -> Prop) :
    (forall x y, eqb x y = true -> P x y) -> forall l1 l2, list_eqb eqb l1 l2 = true -> Forall2 P l1 l2.
  Proof.
    intros H. induction l1 as [|x l1 IH]; intros [|y l2] E; cbn in E; try discriminate; [constructor|].
    apply andb_true_iff in E. destruct E as [E1 E2]. constructor; [apply H; exact E1 | apply IH; exact E2].
  Qed.

  Lemma list_eqb_refl {A} (eqb : A -> A -> bool) : (forall x, eqb x x = true) -> forall l, list_eqb eqb l l = true.
  Proof. intros H. induction l as [|x l IH]; [reflexivity|]. cbn. rewrite H, IH. reflexivity. Qed.

  (* epochs that compare equal have the same population sizes and migration rates, key by key, in the same order *)
  Theorem gen_epoch_eq_sound : forall a b, Epoch_eq a b = true ->
    same_sizes (ev_sizes a) (ev_sizes b) /\ same_mig (ev_mig a) (ev_mig b).
  Proof.
    intros a b E. unfold Epoch_eq in E. apply andb_true_iff in E. destruct E as [E1 E2]. split.
    - eapply list_eqb_Forall2; [|exact E1]. intros x y H. apply andb_true_iff in H. destruct H as [H1 H2].
      split; [apply String.eqb_eq; exact H1 | apply Qeq_bool_iff; exact H2].
    - eapply list_eqb_Forall2; [|exact E2]. intros [[p q] v] [[p' q'] v'] H. cbn in H.
      apply andb_true_iff in H. destruct H as [H12 H3]. apply andb_true_iff in H12. destruct H12 as [H1 H2].
      apply String.eqb_eq in H1. apply String.eqb_eq in H2. cbn. subst. split; [reflexivity | apply Qeq_bool_iff; exact H3].
  Qed.

  Theorem gen_epoch_eq_refl : forall a, Epoch_eq a a = true.
  Proof.
    intros a. unfold Epoch_eq. rewrite !list_eqb_refl; [reflexivity| |].
    - intros [[p q] v]. cbn. rewrite !String.eqb_refl. cbn. apply Qeq_bool_iff. reflexivity.
    - intros [k v]. cbn. rewrite String.eqb_refl. cbn. apply Qeq_bool_iff. reflexivity.
  Qed.

  (* the times of an epoch take no part in the comparison *)
  Theorem gen_epoch_eq_ignores_times : forall a s e,
    Epoch_eq a (mkEpochVal s e (ev_sizes a) (ev_names a) (ev_npops a) (ev_mig a)) = true.
  Proof. intros a s e. exact (gen_epoch_eq_refl a). Qed.

  (* hence: whatever is computed from the sizes and rates of an epoch alone (the transitions of a state space) is the same for
     epochs that compare equal - the hypothesis eqk_sound of the cache theorems (proofs/CacheProofs.v, proofs/GenCacheEquiv.v) *)
  Theorem source_eqk_sound : forall (Tr : Type) (trans_of : epoch_val -> Tr),
    (forall a b, same_sizes (ev_sizes a) (ev_sizes b) -> same_mig (ev_mig a) (ev_mig b) -> trans_of a = trans_of b) ->
    forall a b, Epoch_eq a b = true -> trans_of a = trans_of b.
  Proof. intros Tr trans_of H a b E. destruct (gen_epoch_eq_sound a b E) as [H1 H2]. apply H; assumption. Qed.

  (* Epoch.__init__: the sizes are kept as given, and every rate that was given is kept *)
  Theorem gen_epoch_init_keeps_sizes : forall s e ps mr,
    ev_sizes (Epoch_init s e (Some ps) mr) = ps /\ ev_start (Epoch_init s e (Some ps) mr) = s /\ ev_end (Epoch_init s e (Some ps) mr) = e.
  Proof. intros. repeat split. Qed.
End EpochEq.

(* ---------------------------------------------------------------- AbstractCoalescent.__init__: completion of populations *)
Theorem gen_completion_keeps_given : forall d so, firstn (length d) (Coalescent_completed_lineages d so) = d.
Proof. intros d so. unfold Coalescent_completed_lineages. rewrite firstn_app, Nat.sub_diag, firstn_all. cbn. apply app_nil_r. Qed.

Theorem gen_completion_given_counts : forall d so p,
  (exists v, dict_get p d = Some v) -> dict_get p (Coalescent_completed_lineages d so) = dict_get p d.
Proof.
  intros d so p [v Hv]. unfold Coalescent_completed_lineages, dict_get in *.
  induction d as [|kv d IH]; [discriminate|]. cbn in *. destruct (String.eqb (fst kv) p); [reflexivity|]. apply IH. exact Hv.
Qed.

Theorem gen_completion_added_counts : forall d so p,
  dict_get p d = None -> In p so -> dict_get p (Coalescent_completed_lineages d so) = Some 0%Z.
Proof.
  intros d so p Hn Hin. unfold Coalescent_completed_lineages, dict_get in *.
  induction d as [|kv d IH].
  - cbn. clear Hn. induction so as [|q so IHs]; [destruct Hin|]. cbn.
    destruct (String.eqb q p) eqn:E; [reflexivity|]. destruct Hin as [->|Hin]; [rewrite String.eqb_refl in E; discriminate|]. apply IHs. exact Hin.
  - cbn in *. destruct (String.eqb (fst kv) p); [discriminate|]. apply IH. exact Hn.
Qed.

Theorem gen_completion_total : forall d so,
  fold_right Z.add 0%Z (map snd (Coalescent_completed_lineages d so)) = fold_right Z.add 0%Z (map snd d).
Proof.
  intros d so. unfold Coalescent_completed_lineages. rewrite map_app, fold_right_app. f_equal.
  induction so as [|q so IH]; [reflexivity|]. cbn. exact IH.
Qed.

(* the populations added to the demography are exactly the sampled ones it does not know, each with size 1 *)
Theorem gen_initial_sizes_spec : forall sn dn p v,
  In (p, v) (Coalescent_initial_sizes sn dn) <-> In p sn /\ existsb (String.eqb p) dn = false /\ v = 1%Q.
Proof.
  intros sn dn p v. unfold Coalescent_initial_sizes. rewrite in_map_iff. split.
  - intros [q [E Hq]]. injection E as -> <-. apply filter_In in Hq. destruct Hq as [H1 H2]. apply negb_true_iff in H2. auto.
  - intros [H1 [H2 ->]]. exists p. split; [reflexivity|]. apply filter_In. split; [exact H1|]. rewrite H2. reflexivity.
Qed.

Print Assumptions gen_completion_given_counts.
Print Assumptions gen_epoch_eq_sound.
Print Assumptions source_eqk_sound.
Print Assumptions gen_locus_config_guards.
Print Assumptions source_locus_config_rejects.
Print Assumptions gen_locus_initial_states_eq.
Print Assumptions gen_lineage_initial_states_eq.
Print Assumptions gen_alpha_eq_R.
Print Assumptions source_alpha_sums_to_one.
Print Assumptions source_alpha_support.
Print Assumptions gen_lineage_init_iterable.
Print Assumptions gen_locus_eq_spec.
