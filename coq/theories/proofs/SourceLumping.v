(* The unbounded lumping theorem stated DIRECTLY about the translated source: the function
   Transition_transit of gen/TransitionGen.v - regenerated from phasegen/state_space.py on every run - in
   place of the hand-written transit of model/StateSpace.v.  Every number of demes, every sample
   size, every model, every real valuation of the rates, every labelled state reachable from the
   sample configuration; lineage- or block-counting space as the parameters select. *)
From Coq Require Import Reals List Arith Bool.
From PG Require Import base.Ops base.OpsR model.CoalModels model.StateSpace model.Labelled model.Check
                       proofs.LumpingProofs proofs.LumpingAllN proofs.LumpingAllN_BC
                       gen.NpTrans gen.TransitionGen proofs.GenTransitionEquiv.
Import ListNotations.

Lemma pi1_one_locus lc nd m x : n_loci (pi1 lc nd m x) = 1 /\ same_loci (pi1 lc nd m x).
Proof. destruct lc; split; reflexivity. Qed.

(* on every projected state the translated source and the model agree (no hypothesis on rates or model) *)
Theorem source_transit_on_projected_states :
  forall (n : nat) (P : params (T:=R)) lc nd m x,
    Transition_transit OpsR n 1 P (pi1 lc nd m x) = transit OpsR P (pi1 lc nd m x).
Proof.
  intros n P lc nd m x. destruct (pi1_one_locus lc nd m x) as [H1 Hs].
  apply gen_transit_single_locus; [symmetry; exact H1 | exact H1 | exact Hs].
Qed.

Theorem source_lumping_single_locus_unbounded :
  forall (n : nat) (P : params (T:=R)) (config : list nat) (x : lstate),
    reach (targets_of (levents1 (length config))) (linit config) x ->
  forall t : state,
    rate_of (Transition_transit OpsR n 1 P (pi1 (p_lc P) (length config) (sum_nat config) x)) t =
    rsum_over (fun ey => if state_eqb (pi1 (p_lc P) (length config) (sum_nat config) (snd ey)) t
                         then erate OpsR P (fst ey) else 0%R)
              (levents1 (length config) x).
Proof.
  intros n P config x Hr t. rewrite source_transit_on_projected_states.
  apply lumping_single_locus_unbounded. exact Hr.
Qed.

(* ---------------- the shape hypotheses of the two-locus equivalence are met by the states the construction produces ---------------- *)
Definition shape2_b (s : state) : bool :=
  Nat.eqb (n_loci s) 2 && Nat.eqb (length (lnk s)) (length (lin s)) && Nat.eqb (n_blocks s) 1
  && forallb (forallb (fun r => Nat.leb (length r) 1)) (lin s) && forallb (forallb (fun r => Nat.leb (length r) 1)) (lnk s).

Lemma rows1_of_forallb (a : arr3) : forallb (forallb (fun r => Nat.leb (length r) 1)) a = true -> rows1 a.
Proof.
  intros H l d. rewrite forallb_forall in H.
  destruct (nth_in_or_default l a []) as [Hin | ->]; [|destruct d; cbn; auto].
  specialize (H _ Hin). rewrite forallb_forall in H.
  destruct (nth_in_or_default d (nth l a []) []) as [Hin2 | ->]; [|cbn; auto].
  apply Nat.leb_le. apply H. exact Hin2.
Qed.

Lemma shape2_b_spec s : shape2_b s = true ->
  n_loci s = 2 /\ same_loci s /\ rows1 (lin s) /\ rows1 (lnk s) /\ n_blocks s = 1.
Proof.
  unfold shape2_b. rewrite !andb_true_iff. intros [[[[H1 H2] H3] H4] H5].
  apply Nat.eqb_eq in H1, H2, H3. repeat split; auto using rows1_of_forallb.
Qed.

Theorem source_transit_two_loci_of_check {T} (OP : Ops T) (n : nat) (P : params (T:=T)) (s : state) :
  p_lc P = true -> shape2_b s = true -> Transition_transit OP n 2 P s = transit OP P s.
Proof.
  intros Hlc H. destruct (shape2_b_spec s H) as [H2 [Hs [Hr1 [Hr2 Hb]]]].
  apply gen_transit_two_loci; auto.
Qed.

From Coq Require Import QArith.
(* a concrete two-locus space: samples (2, 1) in two demes, migration, recombination: every state of the breadth-first
   construction satisfies the hypotheses (so the equivalence theorem applies to each of them) *)
Definition ex_P2 : params (T:=Q) := mkParams Kingman [1%Q; (1 # 2)%Q] [[0%Q; 1%Q]; [(1 # 4)%Q; 0%Q]] 1%Q true.
Example two_locus_hypotheses_met :
  match get_transitions OpsQ ex_P2 60 2 2 3 with
  | Some (states, _) => (Nat.ltb 20 (length states) && forallb shape2_b states)%bool = true
  | None => False
  end.
Proof. vm_compute. reflexivity. Qed.
