(* What the centering code of model/PhaseType.v (PhaseTypeDistribution.accumulate / moment) computes.

   Over the reals, for an arbitrary matrix-exponential backend [expm], with the uncentered
   (cross-)moments at a single time as black boxes

       U k Rs p t := nth 0 (accumulate_uncentered OpsR expm k Ss Slast Rs alpha lam p [t]) 0

   the model's [accumulate] with center = true is shown to be the inclusion-exclusion formula of
   proofs/CentralMoments.v (central_from_raw / central2 / central3):

     accumulate_k1, accumulate_k_le1   no centering for k <= 1
     accumulate_not_centered           center = false is accumulate_uncentered
     accumulate_center_k2_code         exactly what the code computes for k = 2
     accumulate_center_k2              = U 2 [r0; r1] p - U 1 [r0] true * U 1 [r1] true
     accumulate_variance               = U 2 [r; r] p - (U 1 [r] true)^2
     accumulate_center_k3              the k = 3 formula (central3)
     moment_is_accumulate_at_end, moment_window, moment_additive
     permutations_perm, accumulate_uncentered_perm, U2_symmetric
                                       cross-moments (permute = true) are symmetric in the rewards *)
From Coq Require Import ZArith QArith Reals List Arith Bool Lia Lra Permutation.
From PG Require Import base.Ops base.OpsR base.Perm model.CoalModels model.Matrix model.Loop model.PhaseType.
Import ListNotations.
Local Open Scope R_scope.

(* ------------------------------------------------------------------ *)
(* Lengths: generic list facts                                         *)
(* ------------------------------------------------------------------ *)

Lemma len1_nth : forall (A : Type) (d : A) (l : list A), length l = 1%nat -> l = [nth 0 l d].
Proof. intros A d [|x [|y l]] H; simpl in H; try discriminate. reflexivity. Qed.

Section SortLength.
  Variable K : Type.
  Variable leb : K -> K -> bool.

  Lemma insert_length : forall (P : Type) (x : K * P) l, length (insert leb x l) = S (length l).
  Proof.
    intros P x l. induction l as [|y l IH]; simpl; [reflexivity|].
    destruct (leb (fst x) (fst y)); simpl; [reflexivity|]. now rewrite IH.
  Qed.

  Lemma isort_length : forall (P : Type) (l : list (K * P)), length (isort leb l) = length l.
  Proof.
    intros P l. induction l as [|x l IH]; simpl; [reflexivity|].
    rewrite insert_length. now rewrite IH.
  Qed.

  Lemma argsort_length : forall ts, length (argsort leb ts) = length ts.
  Proof.
    intros ts. unfold argsort, tagged. rewrite map_length, isort_length, combine_length, seq_length.
    apply Nat.min_id.
  Qed.
End SortLength.

Lemma vectorised_length_any :
  forall (K A : Type) (leb : K -> K -> bool) (d : A) (loop : list K -> list A) ts,
    length (vectorised leb d loop ts) = length ts.
Proof.
  intros. unfold vectorised, gather, inv_perm. rewrite map_length. now rewrite !argsort_length.
Qed.

(* ------------------------------------------------------------------ *)
(* Lengths: vectors over any operations record                         *)
(* ------------------------------------------------------------------ *)
Section Lengths.
  Context {T : Type} (OP : Ops T).
  Variable expm : mat (T:=T) -> mat (T:=T).

  (* a vector of the expected length, or the empty vector (what a zip with a missing mean yields) *)
  Definition len_or_nil (n : nat) (v : vec (T:=T)) : Prop := length v = n \/ length v = 0%nat.

  Lemma vadd_length : forall a b, length (vadd OP a b) = Nat.min (length a) (length b).
  Proof. intros. unfold vadd. now rewrite map_length, combine_length. Qed.
  Lemma vmul_length : forall a b, length (vmul OP a b) = Nat.min (length a) (length b).
  Proof. intros. unfold vmul. now rewrite map_length, combine_length. Qed.
  Lemma vscale_length : forall c a, length (vscale OP c a) = length a.
  Proof. intros. unfold vscale. now rewrite map_length. Qed.
  Lemma ones_length : forall n, length (ones OP n) = n.
  Proof. intros. apply repeat_length. Qed.
  Lemma vzero_length : forall n, length (vzero OP n) = n.
  Proof. intros. apply repeat_length. Qed.

  Lemma len_or_nil_min : forall n a b,
      len_or_nil n a -> len_or_nil n b -> len_or_nil n (vadd OP a b) /\ len_or_nil n (vmul OP a b).
  Proof.
    unfold len_or_nil. intros n a b Ha Hb. rewrite vadd_length, vmul_length. lia.
  Qed.

  Lemma fold_vadd_length : forall n l acc,
      length acc = n -> (forall v, In v l -> length v = n) -> length (fold_left (vadd OP) l acc) = n.
  Proof.
    intros n l. induction l as [|v l IH]; intros acc Hacc Hl; simpl; [exact Hacc|].
    apply IH.
    - rewrite vadd_length, Hacc, (Hl v) by (now left). apply Nat.min_id.
    - intros w Hw. apply Hl. now right.
  Qed.

  Lemma vsum_length : forall n l, (forall v, In v l -> length v = n) -> length (vsum OP n l) = n.
  Proof. intros. unfold vsum. apply fold_vadd_length; [apply vzero_length | assumption]. Qed.

  Lemma fold_vadd_len_or_nil : forall n l acc,
      len_or_nil n acc -> (forall v, In v l -> len_or_nil n v) -> len_or_nil n (fold_left (vadd OP) l acc).
  Proof.
    intros n l. induction l as [|v l IH]; intros acc Hacc Hl; simpl; [exact Hacc|].
    apply IH.
    - apply len_or_nil_min; [exact Hacc | apply Hl; now left].
    - intros w Hw. apply Hl. now right.
  Qed.

  Lemma fold_vmul_len_or_nil : forall n l acc,
      len_or_nil n acc -> (forall v, In v l -> len_or_nil n v) -> len_or_nil n (fold_left (vmul OP) l acc).
  Proof.
    intros n l. induction l as [|v l IH]; intros acc Hacc Hl; simpl; [exact Hacc|].
    apply IH.
    - apply len_or_nil_min; [exact Hacc | apply Hl; now left].
    - intros w Hw. apply Hl. now right.
  Qed.

  Lemma fold_vmul_length : forall n l acc,
      length acc = n -> (forall v, In v l -> length v = n) -> length (fold_left (vmul OP) l acc) = n.
  Proof.
    intros n l. induction l as [|v l IH]; intros acc Hacc Hl; simpl; [exact Hacc|].
    apply IH.
    - rewrite vmul_length, Hacc, (Hl v) by (now left). apply Nat.min_id.
    - intros w Hw. apply Hl. now right.
  Qed.

  Variables (Ss : list (Q * mat (T:=T))) (Slast : mat (T:=T)) (alpha : vec (T:=T)) (lam : T).

  Lemma accumulate_raw_length : forall k Rs ts,
      length (accumulate_raw OP expm k Ss Slast Rs alpha lam ts) = length ts.
  Proof.
    intros. unfold accumulate_raw, loop_vectorised. rewrite map_length. apply vectorised_length_any.
  Qed.

  Lemma accumulate_uncentered_length : forall k Rs p ts,
      length (accumulate_uncentered OP expm k Ss Slast Rs alpha lam p ts) = length ts.
  Proof.
    intros k Rs p ts. unfold accumulate_uncentered. destruct k as [|k]; [apply ones_length|].
    destruct p; [|apply accumulate_raw_length].
    rewrite vscale_length. apply vsum_length. intros v Hv.
    apply in_map_iff in Hv. destruct Hv as [rs [<- _]]. apply accumulate_raw_length.
  Qed.

  (* the centered accumulate has one entry per time, or none at all (k > length Rs: a mean is missing) *)
  Lemma accumulate_len_or_nil : forall k Rs c p ts,
      len_or_nil (length ts) (accumulate OP expm k Ss Slast Rs alpha lam c p ts).
  Proof.
    intros k Rs c p ts. unfold accumulate.
    destruct (c && (1 <? k)%nat); [|left; apply accumulate_uncentered_length].
    unfold vsum. apply fold_vadd_len_or_nil; [left; apply vzero_length|].
    intros v Hv. apply in_flat_map in Hv. destruct Hv as [i [_ Hv]].
    apply in_map_iff in Hv. destruct Hv as [indices [<- _]].
    unfold len_or_nil. rewrite vscale_length. apply len_or_nil_min.
    - left. apply accumulate_uncentered_length.
    - unfold vprod. apply fold_vmul_len_or_nil; [left; apply ones_length|].
      intros w Hw. apply in_map_iff in Hw. destruct Hw as [j [<- _]].
      destruct (nth_in_or_default j
                  (map (fun r => accumulate_uncentered OP expm 1 Ss Slast [r] alpha lam true ts) Rs) [])
        as [Hin | ->]; [|now right].
      apply in_map_iff in Hin. destruct Hin as [r [<- _]]. left. apply accumulate_uncentered_length.
  Qed.

  (* with all k means present the length is exact *)
  Lemma accumulate_length : forall k Rs c p ts,
      (k <= length Rs)%nat ->
      length (accumulate OP expm k Ss Slast Rs alpha lam c p ts) = length ts.
  Proof.
    intros k Rs c p ts Hk. unfold accumulate.
    destruct (c && (1 <? k)%nat); [|apply accumulate_uncentered_length].
    apply vsum_length.
    intros v Hv. apply in_flat_map in Hv. destruct Hv as [i [_ Hv]].
    apply in_map_iff in Hv. destruct Hv as [indices [<- _]].
    rewrite vscale_length, vmul_length, accumulate_uncentered_length.
    replace (length (vprod OP (length ts) _)) with (length ts); [apply Nat.min_id|].
    symmetry. unfold vprod. apply fold_vmul_length; [apply ones_length|].
    intros w Hw. apply in_map_iff in Hw. destruct Hw as [j [<- Hj]].
    apply filter_In in Hj. destruct Hj as [Hj _]. apply in_seq in Hj.
    set (f := fun r => accumulate_uncentered OP expm 1 Ss Slast [r] alpha lam true ts).
    rewrite nth_indep with (d' := f []) by (rewrite map_length; lia).
    rewrite map_nth. unfold f. apply accumulate_uncentered_length.
  Qed.

  (* ---------------------------------------------------------------- *)
  (* a, c: when there is no centering                                  *)
  (* ---------------------------------------------------------------- *)

  Theorem accumulate_not_centered : forall k Rs p ts,
      accumulate OP expm k Ss Slast Rs alpha lam false p ts
      = accumulate_uncentered OP expm k Ss Slast Rs alpha lam p ts.
  Proof. reflexivity. Qed.

  Theorem accumulate_k_le1 : forall k Rs c p ts,
      (k <= 1)%nat ->
      accumulate OP expm k Ss Slast Rs alpha lam c p ts
      = accumulate_uncentered OP expm k Ss Slast Rs alpha lam p ts.
  Proof.
    intros k Rs c p ts Hk. unfold accumulate.
    replace (1 <? k)%nat with false by (symmetry; apply Nat.ltb_ge; exact Hk).
    now rewrite andb_false_r.
  Qed.

  Theorem accumulate_k1 : forall r c p t,
      accumulate OP expm 1 Ss Slast [r] alpha lam c p [t]
      = accumulate_uncentered OP expm 1 Ss Slast [r] alpha lam p [t].
  Proof. intros. apply accumulate_k_le1. apply Nat.le_refl. Qed.
End Lengths.

(* ------------------------------------------------------------------ *)
(* Over the reals                                                      *)
(* ------------------------------------------------------------------ *)

Lemma vadd_vzero_l : forall v, vadd OpsR (vzero OpsR (length v)) v = v.
Proof.
  induction v as [|x v IH]; [reflexivity|].
  change (vadd OpsR (vzero OpsR (length (x :: v))) (x :: v))
    with ((0 + x) :: vadd OpsR (vzero OpsR (length v)) v).
  rewrite IH. f_equal. apply Rplus_0_l.
Qed.

Lemma vscale_inv1 : forall v, vscale OpsR (/ 1) v = v.
Proof.
  intros v. unfold vscale. rewrite <- (map_id v) at 2. apply map_ext.
  intros x. simpl. rewrite Rinv_1. apply Rmult_1_l.
Qed.

(* vadd over R is right-commutative, whatever the lengths (zip semantics) *)
Lemma vadd_rcomm : forall z a b, vadd OpsR (vadd OpsR z a) b = vadd OpsR (vadd OpsR z b) a.
Proof.
  induction z as [|x z IH]; intros [|y a] [|w b]; try reflexivity.
  change (((x + y) + w) :: vadd OpsR (vadd OpsR z a) b = ((x + w) + y) :: vadd OpsR (vadd OpsR z b) a).
  rewrite IH. f_equal. ring.
Qed.

Lemma fold_left_perm :
  forall (A B : Type) (f : B -> A -> B),
    (forall z a b, f (f z a) b = f (f z b) a) ->
    forall l l', Permutation l l' -> forall z, fold_left f l z = fold_left f l' z.
Proof.
  intros A B f Hf l l' HP. induction HP; intros z; simpl.
  - reflexivity.
  - apply IHHP.
  - now rewrite Hf.
  - now rewrite IHHP1.
Qed.

Lemma vsum_perm : forall n l l', Permutation l l' -> vsum OpsR n l = vsum OpsR n l'.
Proof. intros. unfold vsum. apply fold_left_perm; [apply vadd_rcomm | assumption]. Qed.

(* ------------------------------------------------------------------ *)
(* e: itertools.permutations respects permutations of its argument     *)
(* ------------------------------------------------------------------ *)
Lemma flat_map_map' : forall (A B C : Type) (f : B -> list C) (g : A -> B) l,
    flat_map f (map g l) = flat_map (fun x => f (g x)) l.
Proof. intros. induction l; simpl; [reflexivity|]. now rewrite IHl. Qed.

Lemma flat_map_cons_map : forall (A B C : Type) (h : B -> C) (g : A -> C) (F : B -> list A) L,
    Permutation (flat_map (fun q => h q :: map g (F q)) L) (map h L ++ map g (flat_map F L)).
Proof.
  intros A B C h g F L. induction L as [|a L IH]; simpl; [constructor|].
  apply perm_skip. rewrite map_app. rewrite IH.
  apply Permutation_app_swap_app.
Qed.

Section Permutations.
  Variable A : Type.

  Lemma flat_inserts_cons : forall (y z : A) L,
      Permutation (flat_map (inserts y) (map (cons z) L))
                  (map (fun q => y :: z :: q) L ++ map (cons z) (flat_map (inserts y) L)).
  Proof.
    intros y z L. rewrite flat_map_map'. simpl.
    apply (flat_map_cons_map (list A) (list A) (list A) (fun q => y :: z :: q) (cons z) (inserts y) L).
  Qed.

  Lemma inserts_swap : forall (x y : A) p,
      Permutation (flat_map (inserts y) (inserts x p)) (flat_map (inserts x) (inserts y p)).
  Proof.
    intros x y p. induction p as [|z p IH].
    - simpl. apply perm_swap.
    - change (inserts x (z :: p)) with ((x :: z :: p) :: map (cons z) (inserts x p)).
      change (inserts y (z :: p)) with ((y :: z :: p) :: map (cons z) (inserts y p)).
      change (flat_map (inserts y) ((x :: z :: p) :: map (cons z) (inserts x p)))
        with (((y :: x :: z :: p) :: (x :: y :: z :: p) :: map (cons x) (map (cons z) (inserts y p)))
                ++ flat_map (inserts y) (map (cons z) (inserts x p))).
      change (flat_map (inserts x) ((y :: z :: p) :: map (cons z) (inserts y p)))
        with (((x :: y :: z :: p) :: (y :: x :: z :: p) :: map (cons y) (map (cons z) (inserts x p)))
                ++ flat_map (inserts x) (map (cons z) (inserts y p))).
      rewrite !flat_inserts_cons. rewrite !map_map. rewrite IH.
      simpl. rewrite perm_swap. do 2 apply perm_skip.
      apply Permutation_app_swap_app.
  Qed.

  Lemma flat_inserts_swap : forall (x y : A) L,
      Permutation (flat_map (inserts y) (flat_map (inserts x) L))
                  (flat_map (inserts x) (flat_map (inserts y) L)).
  Proof.
    intros x y L. induction L as [|p L IH]; simpl; [constructor|].
    rewrite !flat_map_app. apply Permutation_app; [apply inserts_swap | exact IH].
  Qed.

  Theorem permutations_perm : forall l l' : list A,
      Permutation l l' -> Permutation (permutations l) (permutations l').
  Proof.
    intros l l' HP. induction HP; simpl.
    - apply Permutation_refl.
    - apply Permutation_flat_map. exact IHHP.
    - apply flat_inserts_swap.
    - eapply Permutation_trans; eassumption.
  Qed.
End Permutations.

(* ------------------------------------------------------------------ *)
(* b: what the centering code computes                                 *)
(* ------------------------------------------------------------------ *)
Section Centering.
  Variable expm : mat (T:=R) -> mat (T:=R).
  Variables (Ss : list (Q * mat (T:=R))) (Slast : mat (T:=R)) (alpha : vec (T:=R)) (lam : R).

  (* the uncentered (cross-)moment of order k at the single time t: a black box *)
  Definition U (k : nat) (Rs : list (vec (T:=R))) (p : bool) (t : Q) : R :=
    nth 0 (accumulate_uncentered OpsR expm k Ss Slast Rs alpha lam p [t]) 0.

  Lemma AU_single : forall k Rs p t,
      accumulate_uncentered OpsR expm k Ss Slast Rs alpha lam p [t] = [U k Rs p t].
  Proof. intros. apply len1_nth. apply accumulate_uncentered_length. Qed.

  Lemma U0 : forall Rs p t, U 0 Rs p t = 1.
  Proof. reflexivity. Qed.

  (* a single reward has a single permutation: permute is irrelevant for k = 1 *)
  Theorem accumulate_uncentered_1_permute : forall r ts,
      accumulate_uncentered OpsR expm 1 Ss Slast [r] alpha lam true ts
      = accumulate_uncentered OpsR expm 1 Ss Slast [r] alpha lam false ts.
  Proof.
    intros r ts. unfold accumulate_uncentered.
    change (permutations [r]) with [[r]].
    change (oinv OpsR (oofN OpsR (length [[r]]))) with (/ 1).
    rewrite vscale_inv1.
    change (vsum OpsR (length ts) (map (fun rs => accumulate_raw OpsR expm 1 Ss Slast rs alpha lam ts) [[r]]))
      with (vadd OpsR (vzero OpsR (length ts)) (accumulate_raw OpsR expm 1 Ss Slast [r] alpha lam ts)).
    rewrite <- (accumulate_raw_length OpsR expm Ss Slast alpha lam 1 [r] ts) at 1.
    apply vadd_vzero_l.
  Qed.

  Corollary U1_permute : forall r p t, U 1 [r] p t = U 1 [r] true t.
  Proof.
    intros r [|] t; [reflexivity|]. unfold U. now rewrite accumulate_uncentered_1_permute.
  Qed.

  (* exactly what the code computes for k = 2: the joint moment and the order-1 terms use the caller's
     [permute], the means use permute = true, the order-0 term is the constant 1 *)
  Theorem accumulate_center_k2_code : forall r0 r1 p t,
      nth 0 (accumulate OpsR expm 2 Ss Slast [r0; r1] alpha lam true p [t]) 0
      = U 2 [r0; r1] p t - U 1 [r0] p t * U 1 [r1] true t - U 1 [r1] p t * U 1 [r0] true t
        + U 1 [r0] true t * U 1 [r1] true t.
  Proof.
    intros r0 r1 p t. unfold accumulate.
    cbn -[accumulate_uncentered].
    rewrite !AU_single. rewrite U0. cbn. ring.
  Qed.

  Theorem accumulate_center_k2 : forall r0 r1 p t,
      nth 0 (accumulate OpsR expm 2 Ss Slast [r0; r1] alpha lam true p [t]) 0
      = U 2 [r0; r1] p t - U 1 [r0] true t * U 1 [r1] true t.
  Proof.
    intros. rewrite accumulate_center_k2_code. rewrite !(U1_permute _ p). ring.
  Qed.

  (* as a list, not only at nth 0 *)
  Corollary accumulate_center_k2_list : forall r0 r1 p t,
      accumulate OpsR expm 2 Ss Slast [r0; r1] alpha lam true p [t]
      = [U 2 [r0; r1] p t - U 1 [r0] true t * U 1 [r1] true t].
  Proof.
    intros. rewrite <- accumulate_center_k2.
    apply len1_nth. apply accumulate_length. simpl. lia.
  Qed.

  (* variance = second moment - mean^2 *)
  Corollary accumulate_variance : forall r p t,
      nth 0 (accumulate OpsR expm 2 Ss Slast [r; r] alpha lam true p [t]) 0
      = U 2 [r; r] p t - (U 1 [r] true t) ^ 2.
  Proof. intros. rewrite accumulate_center_k2. ring. Qed.

  (* k = 3: the formula central3 of CentralMoments.v *)
  Theorem accumulate_center_k3_code : forall r0 r1 r2 p t,
      nth 0 (accumulate OpsR expm 3 Ss Slast [r0; r1; r2] alpha lam true p [t]) 0
      = U 3 [r0; r1; r2] p t
        - U 2 [r0; r1] p t * U 1 [r2] true t
        - U 2 [r0; r2] p t * U 1 [r1] true t
        - U 2 [r1; r2] p t * U 1 [r0] true t
        + U 1 [r0] p t * (U 1 [r1] true t * U 1 [r2] true t)
        + U 1 [r1] p t * (U 1 [r0] true t * U 1 [r2] true t)
        + U 1 [r2] p t * (U 1 [r0] true t * U 1 [r1] true t)
        - U 1 [r0] true t * U 1 [r1] true t * U 1 [r2] true t.
  Proof.
    intros r0 r1 r2 p t. unfold accumulate.
    cbn -[accumulate_uncentered].
    rewrite !AU_single. rewrite U0. cbn. ring.
  Qed.

  Theorem accumulate_center_k3 : forall r0 r1 r2 p t,
      nth 0 (accumulate OpsR expm 3 Ss Slast [r0; r1; r2] alpha lam true p [t]) 0
      = U 3 [r0; r1; r2] p t
        - U 1 [r0] true t * U 2 [r1; r2] p t
        - U 1 [r1] true t * U 2 [r0; r2] p t
        - U 1 [r2] true t * U 2 [r0; r1] p t
        + 2 * U 1 [r0] true t * U 1 [r1] true t * U 1 [r2] true t.
  Proof.
    intros. rewrite accumulate_center_k3_code. rewrite !(U1_permute _ p). ring.
  Qed.

  (* -------------------------------------------------------------- *)
  (* d: moment                                                       *)
  (* -------------------------------------------------------------- *)

  Theorem moment_is_accumulate_at_end : forall k Rs c p start_time end_time,
      (start_time <= 0)%Q ->
      moment OpsR expm k Ss Slast Rs alpha lam c p start_time end_time
      = nth 0 (accumulate OpsR expm k Ss Slast Rs alpha lam c p [end_time]) 0.
  Proof.
    intros k Rs c p s e Hs. unfold moment.
    destruct (Qlt_le_dec 0 s) as [Hlt | _]; [|reflexivity].
    exfalso. exact (Qlt_not_le _ _ Hlt Hs).
  Qed.

  Theorem moment_window : forall k Rs c p start_time end_time,
      (0 < start_time)%Q ->
      moment OpsR expm k Ss Slast Rs alpha lam c p start_time end_time
      = nth 1 (accumulate OpsR expm k Ss Slast Rs alpha lam c p [start_time; end_time]) 0
        - nth 0 (accumulate OpsR expm k Ss Slast Rs alpha lam c p [start_time; end_time]) 0.
  Proof.
    intros k Rs c p s e Hs. unfold moment.
    destruct (Qlt_le_dec 0 s) as [_ | Hle]; [|exfalso; exact (Qlt_not_le _ _ Hs Hle)].
    destruct (accumulate_len_or_nil OpsR expm Ss Slast alpha lam k Rs c p [s; e]) as [H | H];
      destruct (accumulate OpsR expm k Ss Slast Rs alpha lam c p [s; e]) as [|a [|b [|x l]]];
      simpl in H; try discriminate; simpl; unfold osub; simpl; ring.
  Qed.

  (* moments over adjacent windows add up, as soon as accumulate is pointwise in the times (which is
     LoopProofs.loop_vectorised_pointwise under the semigroup laws of the backend) *)
  Corollary moment_additive : forall k Rs c p (f : Q -> R) a b,
      (0 < a)%Q ->
      (forall x, accumulate OpsR expm k Ss Slast Rs alpha lam c p [x] = [f x]) ->
      accumulate OpsR expm k Ss Slast Rs alpha lam c p [a; b] = [f a; f b] ->
      moment OpsR expm k Ss Slast Rs alpha lam c p 0 b
      = moment OpsR expm k Ss Slast Rs alpha lam c p 0 a
        + moment OpsR expm k Ss Slast Rs alpha lam c p a b.
  Proof.
    intros k Rs c p f a b Ha H1 H2.
    rewrite !moment_is_accumulate_at_end by apply Qle_refl.
    rewrite moment_window by exact Ha.
    rewrite !H1, H2. simpl. ring.
  Qed.

  (* -------------------------------------------------------------- *)
  (* e: cross-moments are symmetric in their rewards                  *)
  (* -------------------------------------------------------------- *)

  Theorem accumulate_uncentered_perm : forall k Rs Rs' ts,
      Permutation Rs Rs' ->
      accumulate_uncentered OpsR expm k Ss Slast Rs alpha lam true ts
      = accumulate_uncentered OpsR expm k Ss Slast Rs' alpha lam true ts.
  Proof.
    intros k Rs Rs' ts HP. unfold accumulate_uncentered. destruct k as [|k]; [reflexivity|].
    pose proof (permutations_perm _ _ _ HP) as HPP.
    rewrite (Permutation_length HPP). f_equal.
    apply vsum_perm. apply Permutation_map. exact HPP.
  Qed.

  Corollary U_perm : forall k Rs Rs' t, Permutation Rs Rs' -> U k Rs true t = U k Rs' true t.
  Proof. intros. unfold U. now rewrite (accumulate_uncentered_perm k Rs Rs' [t]). Qed.

  Corollary U2_symmetric : forall r0 r1 t, U 2 [r0; r1] true t = U 2 [r1; r0] true t.
  Proof. intros. apply U_perm. apply perm_swap. Qed.

  (* hence the covariance computed by the code is symmetric *)
  Corollary accumulate_center_k2_symmetric : forall r0 r1 t,
      nth 0 (accumulate OpsR expm 2 Ss Slast [r0; r1] alpha lam true true [t]) 0
      = nth 0 (accumulate OpsR expm 2 Ss Slast [r1; r0] alpha lam true true [t]) 0.
  Proof. intros. rewrite !accumulate_center_k2, U2_symmetric. ring. Qed.
End Centering.

Print Assumptions accumulate_k1.
Print Assumptions accumulate_k_le1.
Print Assumptions accumulate_not_centered.
Print Assumptions accumulate_length.
Print Assumptions accumulate_uncentered_1_permute.
Print Assumptions accumulate_center_k2_code.
Print Assumptions accumulate_center_k2.
Print Assumptions accumulate_variance.
Print Assumptions accumulate_center_k3_code.
Print Assumptions accumulate_center_k3.
Print Assumptions moment_is_accumulate_at_end.
Print Assumptions moment_window.
Print Assumptions moment_additive.
Print Assumptions permutations_perm.
Print Assumptions accumulate_uncentered_perm.
Print Assumptions U2_symmetric.
Print Assumptions accumulate_center_k2_symmetric.
