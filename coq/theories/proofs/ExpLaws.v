(* Algebraic transfer theorems for an abstract matrix exponential.

   Everything below is proved for EVERY family of functions
   [expm : forall n, 'M_n -> 'M_n] over a commutative ring that satisfies
   the three laws E0, E1, E2 (all of which hold for the true matrix
   exponential over the reals).  No analysis is used. *)
From mathcomp Require Import all_ssreflect all_algebra fingroup perm.
Set Implicit Arguments. Unset Strict Implicit. Unset Printing Implicit Defensive.
Import GRing.Theory.
Local Open Scope ring_scope.

Section ExpLaws.
Variable R : comRingType.
Variable expm : forall n : nat, 'M[R]_n -> 'M[R]_n.
(* E0 *)
Hypothesis expm0 : forall n, expm (0 : 'M[R]_n) = 1%:M.
(* E1 *)
Hypothesis expmD : forall n (A B : 'M[R]_n),
  A *m B = B *m A -> expm (A + B) = expm A *m expm B.
(* E2, intertwining with a rectangular P *)
Hypothesis expm_intertwine :
  forall m n (A : 'M[R]_m) (B : 'M[R]_n) (P : 'M[R]_(m, n)),
    A *m P = P *m B -> expm A *m P = P *m expm B.

(* ------------------------------------------------------------------ *)
(* 1, 2 : semigroup                                                    *)

Lemma expm_semigroup n (A : 'M[R]_n) (a b : R) :
  expm (a *: A) *m expm (b *: A) = expm ((a + b) *: A).
Proof.
rewrite scalerDl expmD //.
by rewrite -!scalemxAl -!scalemxAr !scalerA mulrC.
Qed.

Lemma expm_scalar0 n (A : 'M[R]_n) : expm (0 *: A) = 1%:M.
Proof. by rewrite scale0r expm0. Qed.

(* ------------------------------------------------------------------ *)
(* 3 : generator => stochastic                                         *)

Lemma expm_row_sums n (S : 'M[R]_n) :
  S *m const_mx 1 = (0 : 'M[R]_(n, 1)) ->
  expm S *m const_mx 1 = (const_mx 1 : 'M[R]_(n, 1)).
Proof.
move=> S1.
have /expm_intertwine -> : S *m const_mx 1 = const_mx 1 *m (0 : 'M[R]_1).
  by rewrite S1 mulmx0.
by rewrite expm0 mulmx1.
Qed.

(* ------------------------------------------------------------------ *)
(* 4 : lumping                                                         *)

Lemma scale_intertwine m n (A : 'M[R]_m) (B : 'M[R]_n) (P : 'M[R]_(m, n)) t :
  A *m P = P *m B -> (t *: A) *m P = P *m (t *: B).
Proof. by move=> AP; rewrite -scalemxAl AP scalemxAr. Qed.

Lemma lumping_transfer m n (SL : 'M[R]_m) (SC : 'M[R]_n) (P : 'M[R]_(m, n))
    (t : R) :
  SL *m P = P *m SC -> expm (t *: SL) *m P = P *m expm (t *: SC).
Proof. by move=> SP; apply/expm_intertwine/scale_intertwine. Qed.

Lemma lumping_cdf m n (SL : 'M[R]_m) (SC : 'M[R]_n) (P : 'M[R]_(m, n))
    (aL : 'rV[R]_m) (eC : 'cV[R]_n) (t : R) :
  SL *m P = P *m SC ->
  aL *m expm (t *: SL) *m (P *m eC) = (aL *m P) *m expm (t *: SC) *m eC.
Proof.
move=> SP; rewrite mulmxA -(mulmxA aL) (lumping_transfer t SP).
by rewrite !mulmxA.
Qed.

Definition epoch_prodL m n (eps : seq (R * 'M[R]_m * 'M[R]_n)) : 'M[R]_m :=
  foldr (fun x acc => expm (x.1.1 *: x.1.2) *m acc) 1%:M eps.

Definition epoch_prodC m n (eps : seq (R * 'M[R]_m * 'M[R]_n)) : 'M[R]_n :=
  foldr (fun x acc => expm (x.1.1 *: x.2) *m acc) 1%:M eps.

Lemma lumping_product m n (P : 'M[R]_(m, n))
    (eps : seq (R * 'M[R]_m * 'M[R]_n)) :
  (forall x, x \in eps -> x.1.2 *m P = P *m x.2) ->
  foldr (fun x acc => expm (x.1.1 *: x.1.2) *m acc) 1%:M eps *m P
  = P *m foldr (fun x acc => expm (x.1.1 *: x.2) *m acc) 1%:M eps.
Proof.
elim: eps => [|x eps IH] H /=; first by rewrite mul1mx mulmx1.
rewrite -mulmxA IH; last by move=> y yeps; apply: H; rewrite inE yeps orbT.
by rewrite !mulmxA (lumping_transfer _ (H x _)) // inE eqxx.
Qed.

Lemma lumping_product_cdf m n (P : 'M[R]_(m, n))
    (eps : seq (R * 'M[R]_m * 'M[R]_n)) (aL : 'rV[R]_m) (eC : 'cV[R]_n) :
  (forall x, x \in eps -> x.1.2 *m P = P *m x.2) ->
  aL *m epoch_prodL eps *m (P *m eC) = (aL *m P) *m epoch_prodC eps *m eC.
Proof.
move=> H; rewrite mulmxA -(mulmxA aL) [_ *m P](lumping_product H).
by rewrite !mulmxA.
Qed.

(* ------------------------------------------------------------------ *)
(* 5 : first-moment Van Loan functional                                *)

Definition vl1 n (S Rw : 'M[R]_n) : 'M[R]_(n + n) := block_mx S Rw 0 S.

Definition m1 n (a : 'rV[R]_n) (S Rw : 'M[R]_n) (t : R) : 'M[R]_(1, 1) :=
  a *m ursubmx (expm (t *: vl1 S Rw)) *m const_mx 1.

Ltac bsimp :=
  rewrite ?(mulmx1, mul1mx, mulmx0, mul0mx, addr0, add0r, scaler0).

(* Block upper triangular matrices with equal diagonal blocks. *)
Lemma expm_ut_blocks n (A B : 'M[R]_n) :
  [/\ ulsubmx (expm (block_mx A B 0 A)) = expm A,
      drsubmx (expm (block_mx A B 0 A)) = expm A
    & dlsubmx (expm (block_mx A B 0 A)) = 0].
Proof.
set E := expm _.
have : block_mx A B 0 A *m col_mx 1%:M 0 = col_mx 1%:M 0 *m A.
  by rewrite mul_block_col mul_col_mx; bsimp.
move/expm_intertwine; rewrite -/E -{1}(submxK E) mul_block_col mul_col_mx.
bsimp => /eq_col_mx [ul dl].
have : A *m row_mx 0 1%:M = row_mx 0 1%:M *m block_mx A B 0 A.
  by rewrite mul_mx_row mul_row_block; bsimp.
move/expm_intertwine; rewrite -/E -{1}(submxK E) mul_mx_row mul_row_block.
bsimp => /eq_row_mx [_ dr].
by split.
Qed.

Lemma vl1_diag_blocks n (S Rw : 'M[R]_n) (t : R) :
  ulsubmx (expm (t *: vl1 S Rw)) = expm (t *: S) /\
  drsubmx (expm (t *: vl1 S Rw)) = expm (t *: S) /\
  dlsubmx (expm (t *: vl1 S Rw)) = 0.
Proof.
rewrite /vl1 scale_block_mx scaler0.
by have [-> -> ->] := expm_ut_blocks (t *: S) (t *: Rw).
Qed.

(* Upper-right block of a product with a block-diagonal matrix. *)
Lemma ursubmx_mul_diag m1 m2 n1 n2 p1 p2 (M : 'M[R]_(m1 + m2, n1 + n2))
    (P : 'M[R]_(n1, p1)) (Q : 'M[R]_(n2, p2)) :
  ursubmx (M *m block_mx P 0 0 Q) = ursubmx M *m Q.
Proof. by rewrite -{1}(submxK M) mulmx_block block_mxKur; bsimp. Qed.

Lemma ursubmx_diag_mul m1 m2 n1 n2 p1 p2 (M : 'M[R]_(n1 + n2, p1 + p2))
    (P : 'M[R]_(m1, n1)) (Q : 'M[R]_(m2, n2)) :
  ursubmx (block_mx P 0 0 Q *m M) = P *m ursubmx M.
Proof. by rewrite -{1}(submxK M) mulmx_block block_mxKur; bsimp. Qed.

(* Lumping of the upper-right block. *)
Lemma expm_ur_lumping m n (AL BL : 'M[R]_m) (AC BC : 'M[R]_n)
    (P : 'M[R]_(m, n)) :
  AL *m P = P *m AC -> BL *m P = P *m BC ->
  ursubmx (expm (block_mx AL BL 0 AL)) *m P
  = P *m ursubmx (expm (block_mx AC BC 0 AC)).
Proof.
move=> AP BP.
have : block_mx AL BL 0 AL *m block_mx P 0 0 P
       = block_mx P 0 0 P *m block_mx AC BC 0 AC.
  by rewrite !mulmx_block; bsimp; rewrite AP BP.
move/expm_intertwine/(congr1 ursubmx).
by rewrite ursubmx_mul_diag ursubmx_diag_mul.
Qed.

(* The upper-right block is linear in the upper-right argument. *)
Lemma expm_ur_scale n (A B : 'M[R]_n) (c : R) :
  ursubmx (expm (block_mx A (c *: B) 0 A))
  = c *: ursubmx (expm (block_mx A B 0 A)).
Proof.
have : block_mx A B 0 A *m block_mx 1%:M 0 0 c%:M
       = block_mx 1%:M 0 0 c%:M *m block_mx A (c *: B) 0 A.
  by rewrite !mulmx_block; bsimp; rewrite !mul_mx_scalar mul_scalar_mx.
move/expm_intertwine/(congr1 ursubmx).
by rewrite ursubmx_mul_diag ursubmx_diag_mul mul_mx_scalar mul1mx.
Qed.

Lemma expm_ur_add n (A B1 B2 : 'M[R]_n) :
  ursubmx (expm (block_mx A (B1 + B2) 0 A))
  = ursubmx (expm (block_mx A B1 0 A)) + ursubmx (expm (block_mx A B2 0 A)).
Proof.
pose W : 'M[R]_(n + (n + n)) :=
  block_mx A (row_mx B1 B2) 0 (block_mx A 0 0 A).
set E12 := expm (block_mx A (B1 + B2) 0 A).
set E1 := expm (block_mx A B1 0 A).
set E2 := expm (block_mx A B2 0 A).
pose X := ursubmx (expm W).
have H12 : ursubmx E12 = X *m col_mx 1%:M 1%:M.
  have : W *m block_mx 1%:M 0 0 (col_mx 1%:M 1%:M)
         = block_mx 1%:M 0 0 (col_mx 1%:M 1%:M) *m block_mx A (B1 + B2) 0 A.
    rewrite !mulmx_block; bsimp.
    by rewrite mul_row_col mul_block_col mul_col_mx; bsimp.
  move/expm_intertwine/(congr1 ursubmx).
  by rewrite ursubmx_mul_diag ursubmx_diag_mul mul1mx.
have H1 : ursubmx E1 = X *m col_mx 1%:M 0.
  have : W *m block_mx 1%:M 0 0 (col_mx 1%:M 0)
         = block_mx 1%:M 0 0 (col_mx 1%:M 0) *m block_mx A B1 0 A.
    rewrite !mulmx_block; bsimp.
    by rewrite mul_row_col mul_block_col mul_col_mx; bsimp.
  move/expm_intertwine/(congr1 ursubmx).
  by rewrite ursubmx_mul_diag ursubmx_diag_mul mul1mx.
have H2 : ursubmx E2 = X *m col_mx 0 1%:M.
  have : W *m block_mx 1%:M 0 0 (col_mx 0 1%:M)
         = block_mx 1%:M 0 0 (col_mx 0 1%:M) *m block_mx A B2 0 A.
    rewrite !mulmx_block; bsimp.
    by rewrite mul_row_col mul_block_col mul_col_mx; bsimp.
  move/expm_intertwine/(congr1 ursubmx).
  by rewrite ursubmx_mul_diag ursubmx_diag_mul mul1mx.
by rewrite H12 H1 H2 -mulmxDr add_col_mx addr0 add0r.
Qed.

Lemma m1_lumping m n (SL RL : 'M[R]_m) (SC RC : 'M[R]_n) (P : 'M[R]_(m, n))
    (aL : 'rV[R]_m) (eC : 'cV[R]_n) (t : R) :
  SL *m P = P *m SC -> RL *m P = P *m RC ->
  aL *m ursubmx (expm (t *: vl1 SL RL)) *m (P *m eC)
  = (aL *m P) *m ursubmx (expm (t *: vl1 SC RC)) *m eC.
Proof.
move=> SP RP; rewrite /vl1 !scale_block_mx !scaler0.
rewrite mulmxA -(mulmxA aL) (@expm_ur_lumping _ _ _ _ (t *: SC) (t *: RC)).
- by rewrite !mulmxA.
- exact: scale_intertwine.
- exact: scale_intertwine.
Qed.

Lemma m1_additive n (a : 'rV[R]_n) (S R1 R2 : 'M[R]_n) (t : R) :
  m1 a S (R1 + R2) t = m1 a S R1 t + m1 a S R2 t.
Proof.
rewrite /m1 /vl1 !scale_block_mx !scaler0 scalerDr expm_ur_add.
by rewrite mulmxDr mulmxDl.
Qed.

Lemma m1_scale n (a : 'rV[R]_n) (S Rw : 'M[R]_n) (c t : R) :
  m1 a S (c *: Rw) t = c *: m1 a S Rw t.
Proof.
rewrite /m1 /vl1 !scale_block_mx !scaler0 scalerA mulrC -scalerA.
by rewrite expm_ur_scale -scalemxAr -scalemxAl.
Qed.

(* Regularisation: multiply the generator by lam, leave the rewards alone,
   run for the shorter time t' with t' * lam = t, and multiply the result
   by lam. *)
Lemma m1_regularisation n (a : 'rV[R]_n) (S Rw : 'M[R]_n) (lam t t' : R) :
  t' * lam = t ->
  a *m ursubmx (expm (t *: vl1 S Rw)) *m (const_mx 1 : 'cV_n)
  = lam *: (a *m ursubmx (expm (t' *: block_mx (lam *: S) Rw 0 (lam *: S)))
              *m (const_mx 1 : 'cV_n)).
Proof.
move=> <-; rewrite /vl1 !scale_block_mx !scaler0 !scalerA.
rewrite (mulrC t') -(scalerA lam t' Rw) expm_ur_scale.
by rewrite -scalemxAr -scalemxAl.
Qed.

Lemma m1_time_rescaling n (a : 'rV[R]_n) (S S' Rw : 'M[R]_n) (c t : R) :
  c *: S' = S -> m1 a S' Rw (c * t) = c *: m1 a S Rw t.
Proof.
move=> <-; rewrite /m1 /vl1 !scale_block_mx !scaler0 scalerA.
rewrite (mulrC t c) -(scalerA c t Rw) expm_ur_scale.
by rewrite -scalemxAr -scalemxAl.
Qed.

Lemma perm_mx_const1 n (s : 'S_n) :
  perm_mx s *m const_mx 1 = (const_mx 1 : 'cV[R]_n).
Proof. by rewrite -row_permE; apply/matrixP=> i j; rewrite !mxE. Qed.

Lemma perm_mxTK n (s : 'S_n) : perm_mx s *m (perm_mx s)^T = (1%:M : 'M[R]_n).
Proof. by rewrite tr_perm_mx -perm_mxM mulgV perm_mx1. Qed.

Lemma m1_permutation n (a : 'rV[R]_n) (S Rw : 'M[R]_n) (t : R) (s : 'S_n) :
  let P := perm_mx s in
  m1 (a *m P) (P^T *m S *m P) (P^T *m Rw *m P) t = m1 a S Rw t.
Proof.
move=> P; rewrite /m1 -(@m1_lumping _ _ S Rw) ?perm_mx_const1 //.
- by rewrite !mulmxA perm_mxTK mul1mx.
- by rewrite !mulmxA perm_mxTK mul1mx.
Qed.

(* ------------------------------------------------------------------ *)
(* 6 : Van Loan functional of arbitrary order k                        *)

(* (k+1) blocks of size n. *)
Fixpoint vlsz (n k : nat) : nat := if k is k'.+1 then (n + vlsz n k')%N else n.

(* The block row [Rw, 0, ..., 0] with k+1 blocks. *)
Definition vltop n (Rw : 'M[R]_n) k : 'M[R]_(n, vlsz n k) :=
  match k return 'M[R]_(n, vlsz n k) with
  | k'.+1 => row_mx Rw 0
  | 0%N => Rw
  end.

(* [[S, R_0, 0, ...], [0, S, R_1, 0, ...], ..., [0, ..., 0, S]];
   the rewards are given as a function of the index, only R_0 .. R_(k-1)
   are used. *)
Fixpoint vl n (S : 'M[R]_n) (Rs : nat -> 'M[R]_n) k : 'M[R]_(vlsz n k) :=
  match k return 'M[R]_(vlsz n k) with
  | k'.+1 => block_mx S (vltop (Rs 0%N) k') 0 (vl S (fun i => Rs i.+1) k')
  | 0%N => S
  end.

(* diag(P, ..., P) with k+1 blocks. *)
Fixpoint vldiag m n (P : 'M[R]_(m, n)) k : 'M[R]_(vlsz m k, vlsz n k) :=
  match k return 'M[R]_(vlsz m k, vlsz n k) with
  | k'.+1 => block_mx P 0 0 (vldiag P k')
  | 0%N => P
  end.

(* First block row, last block column, top-right block. *)
Definition vlfirst n k c : 'M[R]_(vlsz n k, c) -> 'M[R]_(n, c) :=
  match k return 'M[R]_(vlsz n k, c) -> 'M[R]_(n, c) with
  | k'.+1 => fun M => usubmx M
  | 0%N => fun M => M
  end.

Fixpoint vllast r n k : 'M[R]_(r, vlsz n k) -> 'M[R]_(r, n) :=
  match k return 'M[R]_(r, vlsz n k) -> 'M[R]_(r, n) with
  | k'.+1 => fun M => @vllast r n k' (rsubmx M)
  | 0%N => fun M => M
  end.

Arguments vlfirst {n} k {c} M.
Arguments vllast {r n} k M.

Definition vltr m n k (M : 'M[R]_(vlsz m k, vlsz n k)) : 'M[R]_(m, n) :=
  vllast k (vlfirst k M).
Arguments vltr {m n} k M.

Definition mk n (a : 'rV[R]_n) (S : 'M[R]_n) (Rs : nat -> 'M[R]_n) k (t : R)
    : 'M[R]_(1, 1) :=
  a *m vltr k (expm (t *: vl S Rs k)) *m const_mx 1.

(* k = 1 is the first-moment functional above, by computation. *)
Lemma mk1 n (a : 'rV[R]_n) (S Rw : 'M[R]_n) (t : R) :
  mk a S (fun _ => Rw) 1 t = m1 a S Rw t.
Proof. by []. Qed.

Lemma vlfirst_mul n k c d (M : 'M[R]_(vlsz n k, c)) (Q : 'M[R]_(c, d)) :
  vlfirst k (M *m Q) = vlfirst k M *m Q.
Proof.
case: k M => [|k] M //=.
by rewrite -{1}(vsubmxK M) mul_col_mx col_mxKu.
Qed.

Lemma vlfirst_diag_mul m n (P : 'M[R]_(m, n)) k c (M : 'M[R]_(vlsz n k, c)) :
  vlfirst k (vldiag P k *m M) = P *m vlfirst k M.
Proof.
case: k M => [|k] M //=.
by rewrite -{1}(vsubmxK M) mul_block_col col_mxKu; bsimp.
Qed.

Lemma vllast_mul r q n k (Q : 'M[R]_(r, q)) (M : 'M[R]_(q, vlsz n k)) :
  vllast k (Q *m M) = Q *m vllast k M.
Proof.
elim: k M => [|k IH] M //=.
by rewrite -{1}(hsubmxK M) mul_mx_row row_mxKr IH.
Qed.

Lemma vllast_mul_diag r m n (P : 'M[R]_(m, n)) k (M : 'M[R]_(r, vlsz m k)) :
  vllast k (M *m vldiag P k) = vllast k M *m P.
Proof.
elim: k M => [|k IH] M //=.
by rewrite -{1}(hsubmxK M) mul_row_block row_mxKr; bsimp; rewrite IH.
Qed.

Lemma vltr_mul_diag m n (P : 'M[R]_(m, n)) k (M : 'M[R]_(vlsz m k)) :
  vltr k (M *m vldiag P k) = vltr k M *m P.
Proof. by rewrite /vltr vlfirst_mul vllast_mul_diag. Qed.

Lemma vltr_diag_mul m n (P : 'M[R]_(m, n)) k (M : 'M[R]_(vlsz n k)) :
  vltr k (vldiag P k *m M) = P *m vltr k M.
Proof. by rewrite /vltr vlfirst_diag_mul vllast_mul. Qed.

Lemma vltop_diag m n (P : 'M[R]_(m, n)) (RL : 'M[R]_m) (RC : 'M[R]_n) k :
  RL *m P = P *m RC -> vltop RL k *m vldiag P k = P *m vltop RC k.
Proof.
case: k => [|k] //= RP.
by rewrite mul_row_block mul_mx_row; bsimp; rewrite RP.
Qed.

Lemma vl_intertwine m n (P : 'M[R]_(m, n)) (SL : 'M[R]_m) (SC : 'M[R]_n)
    (RL : nat -> 'M[R]_m) (RC : nat -> 'M[R]_n) k :
  SL *m P = P *m SC ->
  (forall i, (i < k)%N -> RL i *m P = P *m RC i) ->
  vl SL RL k *m vldiag P k = vldiag P k *m vl SC RC k.
Proof.
move=> SP; elim: k RL RC => [|k IH] RL RC RP //=.
rewrite !mulmx_block; bsimp.
rewrite SP (vltop_diag _ (RP 0%N _)) //.
by rewrite (IH _ (fun i => RC i.+1)) // => i ik; apply: RP.
Qed.

Lemma vl_scale n (S : 'M[R]_n) (Rs : nat -> 'M[R]_n) k (t : R) :
  t *: vl S Rs k = vl (t *: S) (fun i => t *: Rs i) k.
Proof.
elim: k Rs => [|k IH] Rs //=.
rewrite scale_block_mx scaler0 IH; congr (block_mx _ _ _ _).
by case: k {IH} => [|k] //=; rewrite scale_row_mx scaler0.
Qed.

(* Lumping of the whole Van Loan exponential and of its top-right block. *)
Lemma vl_lumping_transfer m n (P : 'M[R]_(m, n)) (SL : 'M[R]_m)
    (SC : 'M[R]_n) (RL : nat -> 'M[R]_m) (RC : nat -> 'M[R]_n) k (t : R) :
  SL *m P = P *m SC ->
  (forall i, (i < k)%N -> RL i *m P = P *m RC i) ->
  expm (t *: vl SL RL k) *m vldiag P k
  = vldiag P k *m expm (t *: vl SC RC k).
Proof. by move=> SP RP; apply/lumping_transfer/vl_intertwine. Qed.

Lemma vltr_lumping m n (P : 'M[R]_(m, n)) (SL : 'M[R]_m)
    (SC : 'M[R]_n) (RL : nat -> 'M[R]_m) (RC : nat -> 'M[R]_n) k (t : R) :
  SL *m P = P *m SC ->
  (forall i, (i < k)%N -> RL i *m P = P *m RC i) ->
  vltr k (expm (t *: vl SL RL k)) *m P = P *m vltr k (expm (t *: vl SC RC k)).
Proof.
move=> SP RP; rewrite -vltr_mul_diag -vltr_diag_mul.
by rewrite (vl_lumping_transfer t SP RP).
Qed.

Lemma mk_lumping m n (P : 'M[R]_(m, n)) (SL : 'M[R]_m)
    (SC : 'M[R]_n) (RL : nat -> 'M[R]_m) (RC : nat -> 'M[R]_n) k
    (aL : 'rV[R]_m) (eC : 'cV[R]_n) (t : R) :
  SL *m P = P *m SC ->
  (forall i, (i < k)%N -> RL i *m P = P *m RC i) ->
  aL *m vltr k (expm (t *: vl SL RL k)) *m (P *m eC)
  = (aL *m P) *m vltr k (expm (t *: vl SC RC k)) *m eC.
Proof.
move=> SP RP; rewrite mulmxA -(mulmxA aL) (vltr_lumping t SP RP).
by rewrite !mulmxA.
Qed.

Lemma mk_permutation n (a : 'rV[R]_n) (S : 'M[R]_n) (Rs : nat -> 'M[R]_n) k
    (t : R) (s : 'S_n) :
  let P := perm_mx s in
  mk (a *m P) (P^T *m S *m P) (fun i => P^T *m Rs i *m P) k t = mk a S Rs k t.
Proof.
move=> P; rewrite /mk -(@mk_lumping _ _ _ S _ Rs) ?perm_mx_const1 //.
- by rewrite !mulmxA perm_mxTK mul1mx.
- by move=> i _; rewrite !mulmxA perm_mxTK mul1mx.
Qed.

(* k = 2 spelled out with nested blocks. *)
Definition vl2 n (S R1 R2 : 'M[R]_n) : 'M[R]_(n + (n + n)) :=
  block_mx S (row_mx R1 0) 0 (vl1 S R2).

Definition m2 n (a : 'rV[R]_n) (S R1 R2 : 'M[R]_n) (t : R) : 'M[R]_(1, 1) :=
  a *m rsubmx (ursubmx (expm (t *: vl2 S R1 R2))) *m const_mx 1.

Definition rw2 n (R1 R2 : 'M[R]_n) (i : nat) : 'M[R]_n :=
  if i is 0%N then R1 else R2.

Lemma mk2 n (a : 'rV[R]_n) (S R1 R2 : 'M[R]_n) (t : R) :
  mk a S (rw2 R1 R2) 2 t = m2 a S R1 R2 t.
Proof. by []. Qed.

Lemma m2_lumping m n (SL R1L R2L : 'M[R]_m) (SC R1C R2C : 'M[R]_n)
    (P : 'M[R]_(m, n)) (aL : 'rV[R]_m) (eC : 'cV[R]_n) (t : R) :
  SL *m P = P *m SC -> R1L *m P = P *m R1C -> R2L *m P = P *m R2C ->
  aL *m rsubmx (ursubmx (expm (t *: vl2 SL R1L R2L))) *m (P *m eC)
  = (aL *m P) *m rsubmx (ursubmx (expm (t *: vl2 SC R1C R2C))) *m eC.
Proof.
move=> SP R1P R2P.
have RP i : (i < 2)%N -> rw2 R1L R2L i *m P = P *m rw2 R1C R2C i.
  by case: i.
exact: (mk_lumping aL eC t SP RP).
Qed.

Lemma m2_permutation n (a : 'rV[R]_n) (S R1 R2 : 'M[R]_n) (t : R)
    (s : 'S_n) :
  let P := perm_mx s in
  m2 (a *m P) (P^T *m S *m P) (P^T *m R1 *m P) (P^T *m R2 *m P) t
  = m2 a S R1 R2 t.
Proof.
move=> P; rewrite /m2 -(@m2_lumping _ _ S R1 R2) ?perm_mx_const1 //.
- by rewrite !mulmxA perm_mxTK mul1mx.
- by rewrite !mulmxA perm_mxTK mul1mx.
- by rewrite !mulmxA perm_mxTK mul1mx.
Qed.

End ExpLaws.

(* ------------------------------------------------------------------ *)
(* Assumption audit: every theorem is closed under the global context (its
   only premises are the explicit arguments R, expm, E0, E1, E2).       *)

Print Assumptions expm_semigroup.
Print Assumptions expm_scalar0.
Print Assumptions expm_row_sums.
Print Assumptions lumping_transfer.
Print Assumptions lumping_cdf.
Print Assumptions lumping_product.
Print Assumptions lumping_product_cdf.
Print Assumptions vl1_diag_blocks.
Print Assumptions m1_lumping.
Print Assumptions m1_additive.
Print Assumptions m1_scale.
Print Assumptions m1_regularisation.
Print Assumptions m1_time_rescaling.
Print Assumptions m1_permutation.
Print Assumptions vl_lumping_transfer.
Print Assumptions vltr_lumping.
Print Assumptions mk_lumping.
Print Assumptions mk_permutation.
Print Assumptions m2_lumping.
Print Assumptions m2_permutation.

(* ------------------------------------------------------------------ *)
(* Non-vacuity: the laws E0, E1, E2 are consistent, e.g. the constant
   function A |-> 1 satisfies them over any commutative ring.  The
   intended instance is of course the real matrix exponential
   exp(A) = \sum_k A^k / k! over R = the reals, which satisfies E0 (exp 0 = I),
   E1 (exp (A + B) = exp A exp B for commuting A, B) and E2 (A P = P B
   implies A^k P = P B^k for all k, hence exp(A) P = P exp(B)).          *)

Lemma laws_consistent (R : comRingType) :
  let expm := fun (n : nat) (_ : 'M[R]_n) => (1%:M : 'M[R]_n) in
  [/\ forall n, expm n (0 : 'M[R]_n) = 1%:M,
      forall n (A B : 'M[R]_n),
        A *m B = B *m A -> expm n (A + B) = expm n A *m expm n B
    & forall m n (A : 'M[R]_m) (B : 'M[R]_n) (P : 'M[R]_(m, n)),
        A *m P = P *m B -> expm m A *m P = P *m expm n B].
Proof. by split=> //= *; rewrite ?mulmx1 ?mul1mx. Qed.

Print Assumptions laws_consistent.
