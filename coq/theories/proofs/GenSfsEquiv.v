(* Theorems about the pinned reading of the assembly of the SFS statistics (gen/SfsGen.v, re-checked against
   phasegen/distributions.py by /verif/translate/sfs2coq.py on every run of the checks that depend on it):

     gen_sfs_moment_layout      SFSDistribution.moment has n + 1 entries, entry 0 is 0, the entry of the p-th bin index is the moment of that
                                bin (one PhaseTypeDistribution.moment with the rewards combined with the bin's SFS reward), the rest is 0
     gen_sfs_unfolded_entry     for the unfolded spectrum, entry i (1 <= i <= n - 1) is the moment of bin i, entries 0 and n are 0
     gen_sfs_cov_entry          SFSDistribution.cov: entry (a, b) = (A a b + A b a) / 2 - mean_a * mean_b, where A a b is the ordered raw second
                                moment M a b when both a and b are bin indices and 0 otherwise
     gen_sfs_cov_symmetric      over the reals the covariance matrix is symmetric
   The matrix is built by `sfs[i, j] = result` over all pairs of bins on an (n + 1) x (n + 1) array of zeros: fold_mset_get. *)
From Coq Require Import ZArith QArith Reals List Arith Bool Lia Lra.
From PG Require Import base.Ops base.OpsR model.CoalModels model.Matrix gen.NpSfs gen.SfsGen.
Import ListNotations.
Local Open Scope nat_scope.

Section Layout.
  Context {T : Type} (OP : Ops T).
  Variable Rw : Type.
  Variable combined : Rw -> nat -> Rw.
  Variable pmoment : nat -> list Rw -> bool -> bool -> T.
  Variable self_reward : Rw.
  Notation sfs_moment := (SFSDistribution_moment OP Rw combined pmoment self_reward).
  Notation bin_moment := (SFSDistribution__moment Rw combined pmoment).

  Theorem gen_sfs_moment_layout : forall n indices k rewards c p,
    length indices <= n ->
    length (sfs_moment n indices k (Some rewards) c p) = n + 1 /\
    nth 0 (sfs_moment n indices k (Some rewards) c p) (o0 OP) = o0 OP /\
    (forall q, q < length indices ->
       nth (S q) (sfs_moment n indices k (Some rewards) c p) (o0 OP) = bin_moment k (nth q indices 0) rewards c p) /\
    (forall q, length indices < q -> nth q (sfs_moment n indices k (Some rewards) c p) (o0 OP) = o0 OP).
  Proof.
    intros n indices k rewards c p Hle. unfold SFSDistribution_moment. cbn [app].
    repeat split.
    - cbn [length]. rewrite app_length, repeat_length, !map_length. lia.
    - intros q Hq. cbn [nth]. rewrite app_nth1 by (rewrite map_length; exact Hq).
      rewrite (nth_indep _ (o0 OP) (bin_moment k 0 rewards c p)) by (rewrite map_length; exact Hq).
      apply (map_nth (fun i => bin_moment k i rewards c p)).
    - intros q Hq. destruct q as [|q]; [lia|]. cbn [nth]. rewrite app_nth2 by (rewrite map_length; lia).
      rewrite map_length. destruct (Nat.lt_ge_cases (q - length indices) (n - length indices)) as [H|H].
      + apply nth_repeat.
      + apply nth_overflow. rewrite repeat_length. exact H.
  Qed.

  Theorem gen_sfs_unfolded_entry : forall n k rewards c p i,
    1 <= i -> i < n ->
    nth i (sfs_moment n (UnfoldedSFSDistribution_get_indices n) k (Some rewards) c p) (o0 OP) = bin_moment k i rewards c p.
  Proof.
    intros n k rewards c p i H1 Hn. unfold UnfoldedSFSDistribution_get_indices.
    destruct (gen_sfs_moment_layout n (seq 1 (n - 1)) k rewards c p) as [_ [_ [H _]]]; [rewrite seq_length; lia|].
    destruct i as [|i]; [lia|]. rewrite H by (rewrite seq_length; lia). rewrite seq_nth by lia. reflexivity.
  Qed.

  Theorem gen_sfs_unfolded_borders : forall n k rewards c p,
    1 <= n ->
    nth 0 (sfs_moment n (UnfoldedSFSDistribution_get_indices n) k (Some rewards) c p) (o0 OP) = o0 OP /\
    nth n (sfs_moment n (UnfoldedSFSDistribution_get_indices n) k (Some rewards) c p) (o0 OP) = o0 OP.
  Proof.
    intros n k rewards c p Hn. unfold UnfoldedSFSDistribution_get_indices.
    destruct (gen_sfs_moment_layout n (seq 1 (n - 1)) k rewards c p) as [_ [H0 [_ H]]]; [rewrite seq_length; lia|].
    split; [exact H0 | apply H; rewrite seq_length; lia].
  Qed.
End Layout.

(* ---- SFSDistribution.accumulate / get_accumulation: one row per entry of the spectrum; row i (a bin) is the accumulation of the moment of
   bin i with the rewards, center and permute of the call (nothing is replaced by a default on the way); rows 0 and beyond the bins are zero ---- *)
Section Acc.
  Context {T : Type} (OP : Ops T).
  Variable Rw : Type.
  Variable combined : Rw -> nat -> Rw.
  Variable self_reward : Rw.
  Variable paccumulate : nat -> list Rw -> bool -> bool -> list T.
  Notation sfs_acc := (SFSDistribution_accumulate OP Rw combined self_reward paccumulate).
  Notation bin_acc := (SFSDistribution_get_accumulation Rw combined self_reward paccumulate).

  Theorem gen_sfs_accumulate_layout : forall n indices nt k rewards c p,
    length indices <= n ->
    length (sfs_acc n indices nt k rewards c p) = n + 1 /\
    nth 0 (sfs_acc n indices nt k rewards c p) (repeat (o0 OP) nt) = repeat (o0 OP) nt /\
    (forall q, q < length indices ->
       nth (S q) (sfs_acc n indices nt k rewards c p) (repeat (o0 OP) nt) = bin_acc k (nth q indices 0) rewards c p) /\
    (forall q, length indices < q -> nth q (sfs_acc n indices nt k rewards c p) (repeat (o0 OP) nt) = repeat (o0 OP) nt).
  Proof.
    intros n indices nt k rewards c p Hle. unfold SFSDistribution_accumulate. cbn [app].
    repeat split.
    - cbn [length]. rewrite app_length, repeat_length, !map_length. lia.
    - intros q Hq. cbn [nth]. rewrite app_nth1 by (rewrite map_length; exact Hq).
      rewrite (nth_indep _ (repeat (o0 OP) nt) (bin_acc k 0 rewards c p)) by (rewrite map_length; exact Hq).
      apply (map_nth (fun i => bin_acc k i rewards c p)).
    - intros q Hq. destruct q as [|q]; [lia|]. cbn [nth]. rewrite app_nth2 by (rewrite map_length; lia).
      rewrite map_length. destruct (Nat.lt_ge_cases (q - length indices) (n - length indices)) as [H|H].
      + apply nth_repeat.
      + apply nth_overflow. rewrite repeat_length. exact H.
  Qed.

  (* the unfolded spectrum: row i of accumulate(k, end_times, rewards, center, permute) is super().accumulate with the rewards combined with
     the reward of bin i and THE SAME center and permute *)
  Theorem gen_sfs_accumulate_unfolded_entry : forall n nt k rewards c p i,
    1 <= i -> i < n ->
    nth i (sfs_acc n (UnfoldedSFSDistribution_get_indices n) nt k (Some rewards) c p) (repeat (o0 OP) nt)
    = paccumulate k (map (fun r => combined r i) rewards) c p.
  Proof.
    intros n nt k rewards c p i H1 Hn. unfold UnfoldedSFSDistribution_get_indices.
    destruct (gen_sfs_accumulate_layout n (seq 1 (n - 1)) nt k (Some rewards) c p) as [_ [_ [H _]]]; [rewrite seq_length; lia|].
    destruct i as [|i]; [lia|]. rewrite H by (rewrite seq_length; lia). rewrite seq_nth by lia. reflexivity.
  Qed.

  Theorem gen_sfs_accumulate_default_rewards : forall n nt k c p i,
    1 <= i -> i < n ->
    nth i (sfs_acc n (UnfoldedSFSDistribution_get_indices n) nt k None c p) (repeat (o0 OP) nt)
    = paccumulate k (repeat (combined self_reward i) k) c p.
  Proof.
    intros n nt k c p i H1 Hn. unfold UnfoldedSFSDistribution_get_indices.
    destruct (gen_sfs_accumulate_layout n (seq 1 (n - 1)) nt k None c p) as [_ [_ [H _]]]; [rewrite seq_length; lia|].
    destruct i as [|i]; [lia|]. rewrite H by (rewrite seq_length; lia). rewrite seq_nth by lia.
    unfold SFSDistribution_get_accumulation. f_equal.
    clear. induction k as [|k IH]; [reflexivity|]. cbn [repeat map]. rewrite IH. reflexivity.
  Qed.
End Acc.

(* ---------------------------------------------------------------- matrix updates *)
Section MSet.
  Context {T : Type} (OP : Ops T).
  Notation mgetT := (mget OP).

  Definition sq (N : nat) (m : list (list T)) : Prop := length m = N /\ forall a, a < N -> length (nth a m []) = N.

  Lemma upd_length {A} (f : A -> A) : forall l i, length (upd l i f) = length l.
  Proof. induction l as [|x l IH]; intros [|i]; cbn; try reflexivity. rewrite IH. reflexivity. Qed.

  Lemma nth_upd {A} (f : A -> A) d : forall l i j, i < length l -> nth j (upd l i f) d = if Nat.eqb j i then f (nth i l d) else nth j l d.
  Proof.
    induction l as [|x l IH]; intros [|i] [|j] H; cbn in *; try lia; try reflexivity.
    apply IH. lia.
  Qed.

  Lemma sq_mzero N : sq N (mzero OP N N).
  Proof.
    unfold sq, mzero, vzero. split; [apply repeat_length|]. intros a Ha.
    rewrite (nth_indep _ [] (repeat (o0 OP) N)) by (rewrite repeat_length; exact Ha). rewrite nth_repeat. apply repeat_length.
  Qed.

  Lemma mget_mzero N a b : mgetT (mzero OP N N) a b = o0 OP.
  Proof.
    unfold mget, mzero, vzero. destruct (Nat.lt_ge_cases a N) as [Ha|Ha].
    - rewrite (nth_indep _ [] (repeat (o0 OP) N)) by (rewrite repeat_length; exact Ha). rewrite nth_repeat.
      destruct (Nat.lt_ge_cases b N); [apply nth_repeat | apply nth_overflow; rewrite repeat_length; assumption].
    - rewrite (nth_overflow (repeat (repeat (o0 OP) N) N) []) by (rewrite repeat_length; exact Ha). destruct b; reflexivity.
  Qed.

  Lemma sq_mset2 N m i j v : sq N m -> i < N -> j < N -> sq N (mset2 m i j v).
  Proof.
    intros [H1 H2] Hi Hj. unfold mset2. split; [rewrite upd_length; exact H1|]. intros a Ha.
    rewrite nth_upd by lia. destruct (Nat.eqb a i) eqn:E; [rewrite upd_length; apply H2; exact Hi | apply H2; exact Ha].
  Qed.

  Lemma mget_mset2 N m i j v a b : sq N m -> i < N -> j < N ->
    mgetT (mset2 m i j v) a b = if (Nat.eqb a i && Nat.eqb b j)%bool then v else mgetT m a b.
  Proof.
    intros [H1 H2] Hi Hj. unfold mget, mset2. rewrite nth_upd by lia.
    destruct (Nat.eqb a i) eqn:E; cbn [andb]; [|reflexivity].
    apply Nat.eqb_eq in E. subst a. rewrite nth_upd by (rewrite H2; assumption). destruct (Nat.eqb b j); reflexivity.
  Qed.

  Definition keyb (a b : nat) (ir : nat * nat * T) : bool := (Nat.eqb (fst (fst ir)) a && Nat.eqb (snd (fst ir)) b)%bool.

  Lemma fold_mset_get N : forall (l : list (nat * nat * T)) m a b,
    sq N m -> (forall ir, In ir l -> fst (fst ir) < N /\ snd (fst ir) < N) -> NoDup (map fst l) ->
    mgetT (fold_left (fun m ir => mset2 m (fst (fst ir)) (snd (fst ir)) (snd ir)) l m) a b
    = match find (keyb a b) l with Some ir => snd ir | None => mgetT m a b end.
  Proof.
    induction l as [|[[i j] v] l IH]; intros m a b Hsq Hb Hnd; [reflexivity|].
    cbn [fold_left fst snd]. destruct (Hb ((i, j), v) (or_introl eq_refl)) as [Hi Hj]. cbn [fst snd] in Hi, Hj.
    inversion Hnd as [|? ? Hnotin Hnd']; subst.
    rewrite IH; [| apply sq_mset2; assumption | intros ir Hir; apply Hb; right; exact Hir | exact Hnd'].
    cbn [find]. unfold keyb at 2. cbn [fst snd].
    destruct (Nat.eqb i a && Nat.eqb j b)%bool eqn:E.
    - apply andb_true_iff in E. destruct E as [E1 E2]. apply Nat.eqb_eq in E1, E2. subst a b.
      assert (Hnone : find (keyb i j) l = None).
      { destruct (find (keyb i j) l) as [[[i' j'] v']|] eqn:F; [|reflexivity]. exfalso. apply find_some in F. destruct F as [Fin Fk].
        unfold keyb in Fk. cbn in Fk. apply andb_true_iff in Fk. destruct Fk as [K1 K2]. apply Nat.eqb_eq in K1, K2. subst.
        apply Hnotin. apply in_map_iff. exists ((i, j), v'). split; [reflexivity | exact Fin]. }
      rewrite Hnone. rewrite (mget_mset2 N) by assumption. rewrite !Nat.eqb_refl. reflexivity.
    - destruct (find (keyb a b) l); [reflexivity|]. rewrite (mget_mset2 N) by assumption.
      rewrite (Nat.eqb_sym a i), (Nat.eqb_sym b j), E. reflexivity.
  Qed.
End MSet.

(* ---------------------------------------------------------------- the covariance matrix *)
Lemma NoDup_app_disj {A} : forall l1 l2 : list A, NoDup l1 -> NoDup l2 -> (forall x, In x l1 -> In x l2 -> False) -> NoDup (l1 ++ l2).
Proof.
  induction l1 as [|x l1 IH]; intros l2 H1 H2 Hd; [exact H2|]. inversion H1; subst. cbn. constructor.
  - intros Hin. apply in_app_or in Hin. destruct Hin as [Hin|Hin]; [contradiction | apply (Hd x (or_introl eq_refl) Hin)].
  - apply IH; [assumption | exact H2 | intros y Hy1 Hy2; apply (Hd y (or_intror Hy1) Hy2)].
Qed.

Lemma NoDup_list_prod {A B} : forall (l : list A) (l' : list B), NoDup l -> NoDup l' -> NoDup (list_prod l l').
Proof.
  induction l as [|x l IH]; intros l' H H'; [constructor|]. inversion H; subst. cbn [list_prod].
  apply NoDup_app_disj.
  - clear -H'. induction l' as [|y l' IHl]; [constructor|]. inversion H'; subst. cbn. constructor; [|apply IHl; assumption].
    intros Hin. apply in_map_iff in Hin. destruct Hin as [y' [E Hy']]. injection E as ->. contradiction.
  - apply IH; assumption.
  - intros [a b] K1 K2. apply in_map_iff in K1. destruct K1 as [b' [E _]]. injection E as <- <-. apply in_prod_iff in K2. destruct K2 as [K2 _]. contradiction.
Qed.

Section Cov.
  Context {T : Type} (OP : Ops T).
  Variable Rw : Type.
  Variable combined : Rw -> nat -> Rw.
  Variable pmoment : nat -> list Rw -> bool -> bool -> T.
  Variable self_reward : Rw.
  Notation mgetT := (mget OP).

  (* the ordered raw second moment of two bins *)
  Definition M2 (a b : nat) : T := pmoment 2 [combined self_reward a; combined self_reward b] false false.
  Definition A2 (indices : list nat) (a b : nat) : T :=
    if (existsb (Nat.eqb a) indices && existsb (Nat.eqb b) indices)%bool then M2 a b else o0 OP.

  Lemma nth_map_combine {A B C} (f : A * B -> C) (da : A) (db : B) (dc : C) : forall l1 l2 i,
    i < length l1 -> i < length l2 -> nth i (map f (combine l1 l2)) dc = f (nth i l1 da, nth i l2 db).
  Proof.
    induction l1 as [|x l1 IH]; intros [|y l2] [|i] H1 H2; cbn in *; try lia; try reflexivity. apply IH; lia.
  Qed.

  Lemma nth_map_lt {A B} (f : A -> B) (da : A) (db : B) : forall l i, i < length l -> nth i (map f l) db = f (nth i l da).
  Proof. induction l as [|x l IH]; intros [|i] H; cbn in *; try lia; try reflexivity. apply IH. lia. Qed.

  Lemma mget_madd N A B a b : sq N A -> sq N B -> a < N -> b < N -> mgetT (madd OP A B) a b = oadd OP (mgetT A a b) (mgetT B a b).
  Proof.
    intros [HA1 HA2] [HB1 HB2] Ha Hb. unfold mget, madd.
    rewrite (nth_map_combine (A:=list T) (B:=list T) (C:=list T) _ [] [] []) by lia. cbn [fst snd]. unfold vadd.
    rewrite (nth_map_combine _ (o0 OP) (o0 OP) (o0 OP)) by (rewrite ?HA2, ?HB2; assumption). reflexivity.
  Qed.

  Lemma sq_madd N A B : sq N A -> sq N B -> sq N (madd OP A B).
  Proof.
    intros [HA1 HA2] [HB1 HB2]. unfold madd. split; [rewrite map_length, combine_length; lia|]. intros a Ha.
    rewrite (nth_map_combine (A:=list T) (B:=list T) (C:=list T) _ [] [] []) by lia. cbn [fst snd]. unfold vadd. rewrite map_length, combine_length, HA2, HB2 by assumption. lia.
  Qed.

  Lemma mget_mtrans N m a b : a < N -> b < N -> mgetT (mtrans OP N m) a b = mgetT m b a.
  Proof.
    intros Ha Hb. unfold mtrans. unfold mget at 1.
    rewrite (nth_map_lt (A:=nat) (B:=list T) _ 0 []) by (rewrite seq_length; exact Ha). rewrite seq_nth by exact Ha.
    rewrite (nth_map_lt _ 0 (o0 OP)) by (rewrite seq_length; exact Hb). rewrite seq_nth by exact Hb. reflexivity.
  Qed.

  Lemma sq_mtrans N m : sq N (mtrans OP N m).
  Proof.
    unfold mtrans. split; [rewrite map_length, seq_length; reflexivity|]. intros a Ha.
    rewrite (nth_map_lt (A:=nat) (B:=list T) _ 0 []) by (rewrite seq_length; exact Ha). rewrite map_length, seq_length. reflexivity.
  Qed.

  Lemma mget_mhalf N m a b : sq N m -> a < N -> b < N -> mgetT (mhalf OP m) a b = odiv OP (mgetT m a b) (oofN OP 2).
  Proof.
    intros [H1 H2] Ha Hb. unfold mget, mhalf. rewrite (nth_map_lt (A:=list T) (B:=list T) _ [] []) by lia.
    rewrite (nth_map_lt _ (o0 OP) (o0 OP)) by (rewrite H2; assumption). reflexivity.
  Qed.

  Lemma sq_mhalf N m : sq N m -> sq N (mhalf OP m).
  Proof.
    intros [H1 H2]. unfold mhalf. split; [rewrite map_length; exact H1|]. intros a Ha.
    rewrite (nth_map_lt (A:=list T) (B:=list T) _ [] []) by lia. rewrite map_length. apply H2. exact Ha.
  Qed.

  Lemma mget_outer u v a b : a < length u -> b < length v -> mgetT (outer OP u v) a b = omul OP (nth a u (o0 OP)) (nth b v (o0 OP)).
  Proof.
    intros Ha Hb. unfold mget, outer. rewrite (nth_map_lt (A:=T) (B:=list T) _ (o0 OP) []) by exact Ha.
    rewrite (nth_map_lt _ (o0 OP) (o0 OP)) by exact Hb. reflexivity.
  Qed.

  Lemma sq_outer N u v : length u = N -> length v = N -> sq N (outer OP u v).
  Proof.
    intros Hu Hv. unfold outer. split; [rewrite map_length; exact Hu|]. intros a Ha.
    rewrite (nth_map_lt (A:=T) (B:=list T) _ (o0 OP) []) by lia. rewrite map_length. exact Hv.
  Qed.

  Lemma mget_msub2 N A B a b : sq N A -> sq N B -> a < N -> b < N -> mgetT (msub2 OP A B) a b = osub OP (mgetT A a b) (mgetT B a b).
  Proof.
    intros [HA1 HA2] [HB1 HB2] Ha Hb. unfold mget, msub2.
    rewrite (nth_map_combine (A:=list T) (B:=list T) (C:=list T) _ [] [] []) by lia. cbn [fst snd].
    rewrite (nth_map_combine _ (o0 OP) (o0 OP) (o0 OP)) by (rewrite ?HA2, ?HB2; assumption). reflexivity.
  Qed.

  Lemma combine_map_self {A B} (f : A -> B) : forall l, combine l (map f l) = map (fun x => (x, f x)) l.
  Proof. induction l as [|x l IH]; [reflexivity|]. cbn. rewrite IH. reflexivity. Qed.

  (* the matrix of ordered second moments built by `sfs[i, j] = result` *)
  Definition sfs_matrix (n : nat) (indices : list nat) : list (list T) :=
    let idx := list_prod indices indices in
    fold_left (fun m ir => mset2 m (fst (fst ir)) (snd (fst ir)) (snd ir))
              (combine idx (map (fun x => M2 (fst x) (snd x)) idx)) (mzero OP (n + 1) (n + 1)).

  Lemma existsb_eqb_In a l : existsb (Nat.eqb a) l = true <-> In a l.
  Proof.
    rewrite existsb_exists. split; [intros [x [H1 H2]]; apply Nat.eqb_eq in H2; subst; exact H1 | intros H; exists a; split; [exact H | apply Nat.eqb_refl]].
  Qed.

  Lemma sfs_matrix_spec n indices a b :
    NoDup indices -> Forall (fun i => i < n + 1) indices ->
    sq (n + 1) (sfs_matrix n indices) /\ mgetT (sfs_matrix n indices) a b = A2 indices a b.
  Proof.
    intros Hnd Hb. unfold sfs_matrix. cbv zeta. rewrite combine_map_self.
    set (l := map (fun x : nat * nat => (x, M2 (fst x) (snd x))) (list_prod indices indices)).
    assert (Hbound : forall ir, In ir l -> fst (fst ir) < n + 1 /\ snd (fst ir) < n + 1).
    { intros ir Hir. unfold l in Hir. apply in_map_iff in Hir. destruct Hir as [[i j] [<- Hij]]. cbn. apply in_prod_iff in Hij.
      rewrite Forall_forall in Hb. split; apply Hb; apply Hij. }
    assert (Hkeys : map fst l = list_prod indices indices).
    { unfold l. rewrite map_map. cbn. apply map_id. }
    split.
    - clear -Hbound. revert Hbound. generalize (sq_mzero OP (n + 1)). generalize (mzero OP (n + 1) (n + 1)).
      induction l as [|ir l IH]; intros m Hm Hbd; [exact Hm|]. cbn [fold_left]. apply IH.
      + destruct (Hbd ir (or_introl eq_refl)). apply sq_mset2; assumption.
      + intros x Hx. apply Hbd. right. exact Hx.
    - rewrite (fold_mset_get OP (n + 1)); [| apply sq_mzero | exact Hbound | rewrite Hkeys; apply NoDup_list_prod; assumption].
      rewrite mget_mzero. unfold A2.
      destruct (existsb (Nat.eqb a) indices && existsb (Nat.eqb b) indices)%bool eqn:E.
      + apply andb_true_iff in E. destruct E as [E1 E2]. apply existsb_eqb_In in E1, E2.
        assert (Hin : In ((a, b), M2 a b) l) by (unfold l; apply in_map_iff; exists (a, b); split; [reflexivity | apply in_prod; assumption]).
        destruct (find (keyb a b) l) as [[[i j] v]|] eqn:F.
        * apply find_some in F. destruct F as [Fin Fk]. unfold keyb in Fk. cbn in Fk. apply andb_true_iff in Fk. destruct Fk as [K1 K2].
          apply Nat.eqb_eq in K1, K2. subst. unfold l in Fin. apply in_map_iff in Fin. destruct Fin as [[i' j'] [E' _]]. injection E' as <- <- <-. reflexivity.
        * exfalso. apply (find_none _ _ F) in Hin. unfold keyb in Hin. cbn in Hin. rewrite !Nat.eqb_refl in Hin. discriminate.
      + destruct (find (keyb a b) l) as [[[i j] v]|] eqn:F; [|reflexivity]. exfalso.
        apply find_some in F. destruct F as [Fin Fk]. unfold keyb in Fk. cbn in Fk. apply andb_true_iff in Fk. destruct Fk as [K1 K2].
        apply Nat.eqb_eq in K1, K2. subst. unfold l in Fin. apply in_map_iff in Fin. destruct Fin as [[i' j'] [E' Hij]]. injection E' as <- <- _.
        apply in_prod_iff in Hij. destruct Hij as [H1 H2]. apply existsb_eqb_In in H1, H2. rewrite H1, H2 in E. discriminate.
  Qed.

  Theorem gen_sfs_cov_entry : forall n indices mean a b,
    NoDup indices -> Forall (fun i => i < n + 1) indices -> length mean = n + 1 -> a < n + 1 -> b < n + 1 ->
    mgetT (SFSDistribution_cov OP Rw combined pmoment self_reward n indices mean) a b
    = osub OP (odiv OP (oadd OP (A2 indices a b) (A2 indices b a)) (oofN OP 2)) (omul OP (nth a mean (o0 OP)) (nth b mean (o0 OP))).
  Proof.
    intros n indices mean a b Hnd Hb Hm Ha Hbb.
    change (SFSDistribution_cov OP Rw combined pmoment self_reward n indices mean)
      with (msub2 OP (mhalf OP (madd OP (sfs_matrix n indices) (mtrans OP (n + 1) (sfs_matrix n indices)))) (outer OP mean mean)).
    destruct (sfs_matrix_spec n indices a b Hnd Hb) as [Hsq Hab].
    destruct (sfs_matrix_spec n indices b a Hnd Hb) as [_ Hba].
    rewrite (mget_msub2 (n + 1)); [| apply sq_mhalf; apply sq_madd; [exact Hsq | apply sq_mtrans] | apply sq_outer; exact Hm | exact Ha | exact Hbb].
    rewrite (mget_mhalf (n + 1)); [| apply sq_madd; [exact Hsq | apply sq_mtrans] | exact Ha | exact Hbb].
    rewrite (mget_madd (n + 1)); [| exact Hsq | apply sq_mtrans | exact Ha | exact Hbb].
    rewrite mget_mtrans by assumption. rewrite Hab, Hba. rewrite mget_outer by (rewrite Hm; assumption). reflexivity.
  Qed.
End Cov.

(* over the reals the covariance matrix is symmetric *)
Theorem gen_sfs_cov_symmetric : forall (Rw : Type) (combined : Rw -> nat -> Rw) (pmoment : nat -> list Rw -> bool -> bool -> R) (self_reward : Rw)
    n indices mean a b,
  NoDup indices -> Forall (fun i => i < n + 1) indices -> length mean = n + 1 -> a < n + 1 -> b < n + 1 ->
  mget OpsR (SFSDistribution_cov OpsR Rw combined pmoment self_reward n indices mean) a b
  = mget OpsR (SFSDistribution_cov OpsR Rw combined pmoment self_reward n indices mean) b a.
Proof.
  intros. rewrite !gen_sfs_cov_entry by assumption. unfold osub, odiv. cbn. lra.
Qed.

Print Assumptions gen_sfs_moment_layout.
Print Assumptions gen_sfs_cov_entry.
Print Assumptions gen_sfs_cov_symmetric.
