(* Proofs about the cache model (C17): with a key equality that is sound for the transition
   dictionary, every history of operations on a shared state space returns, for each query, exactly
   what a fresh object would return; soundness of the key equality is necessary. *)
From Coq Require Import List Bool Lia.
From PG Require Import model.Cache.
Import ListNotations.

Section CacheLaws.
  Variables Epoch Tr Mx : Type.
  Variable eqk : Epoch -> Epoch -> bool.
  Variable trans_of : Epoch -> Tr.
  Variable mat_of : Tr -> Mx.

  Hypothesis eqk_sound : forall e e', eqk e e' = true -> trans_of e = trans_of e'.

  Local Notation SS := (sspace Epoch Tr Mx).
  Local Notation INV := (Inv Epoch Tr Mx trans_of mat_of).
  Local Notation UPD := (update_epoch Epoch Tr Mx eqk).
  Local Notation GETS := (get_S Epoch Tr Mx eqk trans_of mat_of).
  Local Notation WALK := (walk Epoch Tr Mx eqk trans_of mat_of).
  Local Notation STEP := (step Epoch Tr Mx eqk trans_of mat_of).
  Local Notation RUN := (run Epoch Tr Mx eqk trans_of mat_of).
  Local Notation PURE := (pure Epoch Tr Mx trans_of mat_of).
  Local Notation FRESH := (fresh Epoch Tr Mx).

  Theorem inv_fresh : forall e flag, INV (FRESH e flag).
  Proof.
    intros e flag. split; simpl.
    - intros m H. discriminate H.
    - intros e0 tr H. contradiction.
  Qed.

  Theorem inv_update_epoch : forall s e, INV s -> INV (UPD s e).
  Proof.
    intros s e [HS HC]. split; simpl.
    - intros m H. destruct (eqk (ss_epoch Epoch Tr Mx s) e) eqn:E.
      + rewrite (HS m H). rewrite (eqk_sound _ _ E). reflexivity.
      + discriminate H.
    - exact HC.
  Qed.

  Theorem inv_drop_S : forall s, INV s -> INV (drop_S Epoch Tr Mx s).
  Proof.
    intros s [HS HC]. split; simpl.
    - intros m H. discriminate H.
    - exact HC.
  Qed.

  Theorem inv_drop_cache : forall s, INV s -> INV (drop_cache Epoch Tr Mx s).
  Proof.
    intros s [HS HC]. split; simpl.
    - intros m H. discriminate H.
    - intros e tr H. contradiction.
  Qed.

  Theorem inv_set_flag : forall s b, INV s -> INV (set_flag Epoch Tr Mx s b).
  Proof.
    intros s b [HS HC]. split; simpl; assumption.
  Qed.

  (* a dictionary hit under a sound key equality returns the transitions of the key asked for *)
  Lemma lookup_sound : forall e c tr,
    (forall e0 tr0, In (e0, tr0) c -> tr0 = trans_of e0) ->
    lookup Epoch Tr eqk e c = Some tr -> tr = trans_of e.
  Proof.
    intros e c tr HC. unfold lookup.
    destruct (find (fun kv => eqk (fst kv) e) c) as [[e0 tr0]|] eqn:F; [|discriminate].
    intros H. injection H as <-. simpl.
    apply find_some in F. destruct F as [Hin Heq]. simpl in Heq.
    rewrite (HC _ _ Hin). apply eqk_sound. exact Heq.
  Qed.

  Theorem inv_get_S : forall s, INV s ->
    INV (fst (GETS s)) /\ snd (GETS s) = mat_of (trans_of (ss_epoch Epoch Tr Mx s)).
  Proof.
    intros s HI. pose proof HI as [HS HC]. unfold get_S.
    destruct (ss_S Epoch Tr Mx s) as [m|] eqn:ES.
    - simpl. split.
      + exact HI.
      + apply HS. reflexivity.
    - destruct (ss_flag Epoch Tr Mx s) eqn:EF.
      + destruct (lookup Epoch Tr eqk (ss_epoch Epoch Tr Mx s) (ss_cache Epoch Tr Mx s))
          as [tr|] eqn:EL.
        * pose proof (lookup_sound _ _ _ HC EL) as Htr. subst tr. simpl. split.
          -- split; simpl.
             ++ intros m H. injection H as <-. reflexivity.
             ++ exact HC.
          -- reflexivity.
        * simpl. split.
          -- split; simpl.
             ++ intros m H. injection H as <-. reflexivity.
             ++ intros e tr H. apply in_app_or in H. destruct H as [H|H].
                ** apply HC. exact H.
                ** simpl in H. destruct H as [H|[]]. injection H as <- <-. reflexivity.
          -- reflexivity.
      + simpl. split.
        * split; simpl.
          -- intros m H. injection H as <-. reflexivity.
          -- exact HC.
        * reflexivity.
  Qed.

  Theorem walk_pure : forall eps s, INV s ->
    INV (fst (WALK s eps)) /\ snd (WALK s eps) = map (fun e => mat_of (trans_of e)) eps.
  Proof.
    induction eps as [|e rest IH]; intros s HI.
    - simpl. split; [exact HI | reflexivity].
    - simpl.
      pose proof (inv_get_S _ (inv_update_epoch s e HI)) as [HI1 Hm].
      destruct (GETS (UPD s e)) as [s1 m] eqn:EG. simpl in HI1, Hm.
      pose proof (IH s1 HI1) as [HI2 Hms].
      destruct (WALK s1 rest) as [s2 ms] eqn:EW. simpl in HI2, Hms. simpl.
      split; [exact HI2|]. rewrite Hm, Hms. reflexivity.
  Qed.

  Theorem step_pure : forall o s, INV s ->
    INV (fst (STEP s o)) /\ snd (STEP s o) = PURE o.
  Proof.
    intros o s HI. destruct o as [eps|e| | |b]; simpl.
    - apply walk_pure. exact HI.
    - split; [apply inv_update_epoch; exact HI | reflexivity].
    - split; [apply inv_drop_S; exact HI | reflexivity].
    - split; [apply inv_drop_cache; exact HI | reflexivity].
    - split; [apply inv_set_flag; exact HI | reflexivity].
  Qed.

  Theorem run_pure : forall ops s, INV s ->
    INV (fst (RUN s ops)) /\ snd (RUN s ops) = map PURE ops.
  Proof.
    induction ops as [|o rest IH]; intros s HI.
    - simpl. split; [exact HI | reflexivity].
    - simpl.
      pose proof (step_pure o s HI) as [HI1 Ho].
      destruct (STEP s o) as [s1 out] eqn:ES. simpl in HI1, Ho.
      pose proof (IH s1 HI1) as [HI2 Hos].
      destruct (RUN s1 rest) as [s2 outs] eqn:ER. simpl in HI2, Hos. simpl.
      split; [exact HI2|]. rewrite Ho, Hos. reflexivity.
  Qed.

  (* C17: for every history of operations from a fresh object, each operation returns what a
     fresh object would return for it *)
  Theorem any_history_same_answer : forall ops e flag,
    snd (RUN (FRESH e flag) ops) = map PURE ops.
  Proof.
    intros ops e flag. apply run_pure. apply inv_fresh.
  Qed.

  (* the same from any state satisfying the invariant (e.g. an object left behind by an earlier
     history) *)
  Theorem any_history_same_answer_from : forall ops1 ops2 e flag,
    snd (RUN (fst (RUN (FRESH e flag) ops1)) ops2) = map PURE ops2.
  Proof.
    intros ops1 ops2 e flag. apply run_pure. apply run_pure. apply inv_fresh.
  Qed.

  Theorem query_independent_of_history : forall ops1 ops2 e1 e2 f1 f2 q,
    last (snd (RUN (FRESH e1 f1) (ops1 ++ [OQuery Epoch q]))) [] =
    last (snd (RUN (FRESH e2 f2) (ops2 ++ [OQuery Epoch q]))) [].
  Proof.
    intros. rewrite !any_history_same_answer, !map_app. simpl.
    rewrite !last_last. reflexivity.
  Qed.

  (* the answer of the last query is the pure answer *)
  Theorem query_after_history_is_pure : forall ops e f q,
    last (snd (RUN (FRESH e f) (ops ++ [OQuery Epoch q]))) [] =
    map (fun e => mat_of (trans_of e)) q.
  Proof.
    intros. rewrite any_history_same_answer, map_app. simpl.
    rewrite last_last. reflexivity.
  Qed.

  (* sharing one state space between several parameter sets (Inference.get_coal): two walks
     through different epoch lists on the same object, interleaved, each return their pure
     answers *)
  Corollary shared_state_space_interleaved : forall q1 q2 e flag,
    snd (RUN (FRESH e flag) [OQuery Epoch q1; OQuery Epoch q2; OQuery Epoch q1]) =
    [ map (fun e => mat_of (trans_of e)) q1;
      map (fun e => mat_of (trans_of e)) q2;
      map (fun e => mat_of (trans_of e)) q1 ].
  Proof.
    intros. rewrite any_history_same_answer. reflexivity.
  Qed.

  (* any interleaving of queries (a list of epoch lists) *)
  Corollary shared_state_space_any_interleaving : forall qs e flag,
    snd (RUN (FRESH e flag) (map (OQuery Epoch) qs)) =
    map (fun q => map (fun e => mat_of (trans_of e)) q) qs.
  Proof.
    intros. rewrite any_history_same_answer, map_map. reflexivity.
  Qed.
End CacheLaws.

(* Soundness of the key equality is necessary: when all keys collide, the second query reads the
   matrix of the first. *)
Example unsound_key_gives_stale_matrix :
  exists ops,
    snd (run nat nat nat (fun _ _ => true) (fun x => x) (fun x => x) (fresh nat nat nat 0 true) ops)
    <> map (pure nat nat nat (fun x => x) (fun x => x)) ops.
Proof.
  exists [OQuery nat [1]; OQuery nat [2]]. vm_compute. discriminate.
Qed.

(* the stale value itself: the second query returns the matrix of epoch 1 *)
Example unsound_key_stale_value :
  snd (run nat nat nat (fun _ _ => true) (fun x => x) (fun x => x) (fresh nat nat nat 0 true)
         [OQuery nat [1]; OQuery nat [2]]) = [[1]; [1]].
Proof. vm_compute. reflexivity. Qed.

(* the same through the dictionary alone: S is dropped between the queries, and the lookup hits
   the colliding key *)
Example unsound_key_stale_dictionary :
  snd (run nat nat nat (fun _ _ => true) (fun x => x) (fun x => x) (fresh nat nat nat 0 true)
         [OQuery nat [1]; ODropS nat; OQuery nat [2]]) = [[1]; []; [1]].
Proof. vm_compute. reflexivity. Qed.

Section MemoLaws.
  Variables A B : Type.
  Variable eqa : A -> A -> bool.
  Variable f : A -> B.

  Hypothesis eqa_sound : forall a a', eqa a a' = true -> f a = f a'.

  Theorem memo_call_pure : forall m a, memo_inv A B f m ->
    memo_inv A B f (fst (memo_call A B eqa f m a)) /\ snd (memo_call A B eqa f m a) = f a.
  Proof.
    intros m a HI. unfold memo_call.
    destruct (find (fun kv => eqa (fst kv) a) m) as [[a0 b0]|] eqn:F; simpl.
    - split; [exact HI|].
      apply find_some in F. destruct F as [Hin Heq]. simpl in Heq.
      rewrite (HI _ _ Hin). apply eqa_sound. exact Heq.
    - split; [|reflexivity].
      intros a1 b1 H. apply in_app_or in H. destruct H as [H|H].
      + apply HI. exact H.
      + simpl in H. destruct H as [H|[]]. injection H as <- <-. reflexivity.
  Qed.

  Theorem memo_run_pure : forall args m, memo_inv A B f m ->
    memo_inv A B f (fst (memo_run A B eqa f m args)) /\ snd (memo_run A B eqa f m args) = map f args.
  Proof.
    induction args as [|a rest IH]; intros m HI.
    - simpl. split; [exact HI | reflexivity].
    - simpl.
      pose proof (memo_call_pure m a HI) as [HI1 Hb].
      destruct (memo_call A B eqa f m a) as [m1 b] eqn:EC. simpl in HI1, Hb.
      pose proof (IH m1 HI1) as [HI2 Hbs].
      destruct (memo_run A B eqa f m1 rest) as [m2 bs] eqn:ER. simpl in HI2, Hbs. simpl.
      split; [exact HI2|]. rewrite Hb, Hbs. reflexivity.
  Qed.

  Theorem memo_run_fresh : forall args, snd (memo_run A B eqa f [] args) = map f args.
  Proof.
    intros args. apply memo_run_pure. intros a b H. contradiction.
  Qed.
End MemoLaws.

(* an unsound argument equality makes the memo table return a stale value *)
Example unsound_memo_key_gives_stale_value :
  snd (memo_run nat nat (fun _ _ => true) (fun x => x) [] [1; 2]) <> map (fun x => x) [1; 2].
Proof. vm_compute. discriminate. Qed.

Print Assumptions inv_fresh.
Print Assumptions inv_update_epoch.
Print Assumptions inv_drop_S.
Print Assumptions inv_drop_cache.
Print Assumptions inv_set_flag.
Print Assumptions inv_get_S.
Print Assumptions walk_pure.
Print Assumptions step_pure.
Print Assumptions run_pure.
Print Assumptions any_history_same_answer.
Print Assumptions any_history_same_answer_from.
Print Assumptions query_independent_of_history.
Print Assumptions query_after_history_is_pure.
Print Assumptions shared_state_space_interleaved.
Print Assumptions shared_state_space_any_interleaving.
Print Assumptions unsound_key_gives_stale_matrix.
Print Assumptions unsound_key_stale_value.
Print Assumptions unsound_key_stale_dictionary.
Print Assumptions memo_call_pure.
Print Assumptions memo_run_pure.
Print Assumptions memo_run_fresh.
Print Assumptions unsound_memo_key_gives_stale_value.
