(* Theorems about the PINNED reading gen/SerialGen.v of the serialisation code (phasegen/serialization.py, Coalescent.__getstate__ /
   __setstate__ / to_json, Inference.__getstate__ / __setstate__; re-checked against the current source on every run by
   translate/serial2coq.py).  The reading of the pinned text is model/Serial.v, so the theorems of proofs/SerialProofs.v hold of it under
   the names of the source, for every codec with the round-trip contract. *)
From Coq Require Import List.
From PG Require Import model.Serial proofs.SerialProofs gen.SerialGen.

Section Equiv.
  Variables Config Caches Json : Type.
  Variable drop : Caches -> Caches.
  Variable enc : Config * Caches -> Json.
  Variable dec : Json -> option (Config * Caches).
  Hypothesis codec_roundtrip : forall v, dec (enc v) = Some v.
  Variables Stat Value : Type.
  Variable stat : Config -> Stat -> Value.

  Theorem gen_roundtrip_preserves_config : forall o : obj Config Caches,
    exists o', Serializable_from_json Config Caches Json dec (snd (Coalescent_to_json Config Caches Json drop enc o)) = Some o'
               /\ o_config Config Caches o' = o_config Config Caches o
               /\ o_caches Config Caches o' = drop (o_caches Config Caches o).
  Proof. intros. apply roundtrip_preserves_config. exact codec_roundtrip. Qed.

  Theorem gen_save_does_not_alter_original : forall o : obj Config Caches,
    fst (Coalescent_to_json Config Caches Json drop enc o) = o.
  Proof. intros. apply save_does_not_alter_original. Qed.

  Theorem gen_repeated_cycles : forall n (o : obj Config Caches),
    exists o', save_load_cycles Config Caches Json drop enc dec n o = Some o'
               /\ o_config Config Caches o' = o_config Config Caches o
               /\ forall s, query Config Caches Stat Value stat o' s = query Config Caches Stat Value stat o s.
  Proof. intros. apply repeated_cycles. exact codec_roundtrip. Qed.
End Equiv.
Print Assumptions gen_roundtrip_preserves_config.
Print Assumptions gen_repeated_cycles.
