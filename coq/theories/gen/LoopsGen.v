(* GENERATED FILE - DO NOT EDIT.  Regenerated on every run of the checks that depend on the propagation loops by
   /verif/translate/loops2coq.py (Python `ast`, fail-closed) from phasegen/distributions.py.
   The equivalence with the hand-written model (model/PhaseType.v over model/Loop.v) is proved in proofs/GenLoopsEquiv.v.

   Translated: PhaseTypeDistribution._accumulate, TreeHeightDistribution.cdf.
   Compared textually: PhaseTypeDistribution._get_van_loan_matrix (= vanloan of model/PhaseType.v).
   Skipped statements (guards that raise, logging, numerical-stability warnings, defaulting of arguments):
     _accumulate line 803: if np.any(end_times < 0): raise
     _accumulate line 807: default rewards / reward count guard (the generated function takes the k reward vectors Rs)
     _accumulate line 839: self._check_numerical_stability(...)
     _accumulate line 862: self._check_numerical_stability(...)
     _accumulate line 877: if np.isnan(moments).any(): log
     cdf line 1017: if not isinstance(self.reward, TreeHeightReward): raise
     cdf line 1021: scalar argument = one-element vector
     cdf line 1028: if np.any(t < 0): raise
     cdf line 1055: self._check_numerical_stability(...)
     cdf line 1065: self._check_numerical_stability(...)
     cdf line 1077: if np.isnan(probs).any(): log
   Reading of the source: see the docstring of the translator. *)
From Coq Require Import ZArith QArith List Arith Bool.
From PG Require Import base.Ops base.Perm model.CoalModels model.Matrix model.Loop model.PhaseType gen.NpLoops.
Import ListNotations.

Section Gen.
  Context {T : Type} (OP : Ops T).
  Variable expm : mat (T:=T) -> mat (T:=T).
  Variable regf : mat (T:=T) -> T.

  (* PhaseTypeDistribution._accumulate *)
  Definition PhaseTypeDistribution_accumulate (n_states k : nat) (epochs0 : list (epoch_t (T:=T))) (Rs : list (vec (T:=T)))
             (alpha : vec (T:=T)) (end_times : list Q) : list T :=
(let end_times_1 := end_times in
(let t_sorted_2 := (sortK Qleb end_times_1) in
(let epochs_3 := epochs0 in
(match epochs_3 with
 | [] => []
 | epoch_4 :: epochs_5 =>
(let ss_6 := epoch_4 in
(let n_states_7 := n_states in
(let Q_8 := (mid OP (n_states_7 * (k + 1))) in
(let u_prev_9 := (inject_Z 0) in
(let moments_10 := (repeat (o0 OP) (length t_sorted_2)) in
(let lamb_11 := (regf (snd ss_6)) in
(let S_12 := (mscale OP lamb_11 (snd ss_6)) in
(let R_13 := Rs in
(let V_14 := (vanloan OP S_12 R_13 k) in
(let '(Q_55, u_prev_56, i_epoch_57, epoch_58, epochs_59, __ss___60, S_61, V_62, moments_63) := fold_left (fun acc_ iu_ =>
 let '(Q_15, u_prev_16, i_epoch_17, epoch_18, epochs_19, __ss___20, S_21, V_22, moments_23) := acc_ in
 let '(i_24, u_25) := iu_ in
(let '(epochs_42, Q_43, u_prev_44, i_epoch_45, epoch_46, __ss___47, S_48, V_49) :=
 (fix while_26 epochs_31 Q_27 u_prev_28 i_epoch_29 epoch_30 __ss___32 S_33 V_34 {struct epochs_31} :=
  if (gt_end u_25 (fst epoch_30)) then
(let Q_35 := mmul OP Q_27 (expm (mscale OP (odiv OP (oofQ OP ((end_or0 (fst epoch_30)) - u_prev_28)%Q) lamb_11) V_34)) in
(let u_prev_36 := (end_or0 (fst epoch_30)) in
(match epochs_31 with
 | [] => (epochs_31, Q_35, u_prev_36, i_epoch_29, epoch_30, __ss___32, S_33, V_34)
 | epoch_37 :: epochs_38 =>
(let ss_39 := epoch_37 in
(let S_40 := (mscale OP lamb_11 (snd ss_39)) in
(let V_41 := (vanloan OP S_40 R_13 k) in
while_26 epochs_38 Q_35 u_prev_36 tt epoch_37 ss_39 S_40 V_41)))
 end)))
  else (epochs_31, Q_27, u_prev_28, i_epoch_29, epoch_30, __ss___32, S_33, V_34))
 epochs_19 Q_15 u_prev_16 i_epoch_17 epoch_18 __ss___20 S_21 V_22 in
(let Q_50 := mmul OP Q_43 (expm (mscale OP (odiv OP (oofQ OP (u_25 - u_prev_44)%Q) lamb_11) V_49)) in
(let alpha_51 := alpha in
(let e_52 := (ones OP n_states) in
(let moments_53 := upd_nth moments_23 i_24 (dot OP (vscale OP (omul OP (oofZ OP (fact_Z k)) (opow OP lamb_11 k)) alpha_51) (mvec OP (sub_block Q_50 0 n_states_7 ((n_states_7 * (k + 1)) - n_states_7) n_states_7) e_52)) in
(let u_prev_54 := u_25 in
(Q_50, u_prev_54, i_epoch_45, epoch_46, epochs_42, __ss___47, S_48, V_49, moments_53)))))))) (combine (seq 0 (length t_sorted_2)) t_sorted_2) (Q_8, u_prev_9, tt, epoch_4, epochs_5, ss_6, S_12, V_14, moments_10) in
(let moments_64 := gather (o0 OP) moments_63 (inv_perm (argsort Qleb end_times_1)) in
moments_64)))))))))))
 end)))).

  (* TreeHeightDistribution.cdf *)
  Definition TreeHeightDistribution_cdf (n_states : nat) (epochs0 : list (epoch_t (T:=T))) (alpha e : vec (T:=T))
             (t : list Q) : list T :=
(let t_1 := t in
(let t_sorted_2 := (sortK Qleb t_1) in
(let epochs_3 := epochs0 in
(match epochs_3 with
 | [] => []
 | epoch_4 :: epochs_5 =>
(let ss_6 := epoch_4 in
(let T_7 := (mid OP n_states) in
(let u_prev_8 := (inject_Z 0) in
(let probs_9 := (repeat (o0 OP) (length t_sorted_2)) in
(let e_10 := e in
(let '(T_41, u_prev_42, i_epoch_43, epoch_44, epochs_45, __ss___46, probs_47) := fold_left (fun acc_ iu_ =>
 let '(T_11, u_prev_12, i_epoch_13, epoch_14, epochs_15, __ss___16, probs_17) := acc_ in
 let '(i_18, u_19) := iu_ in
(let '(epochs_32, T_33, u_prev_34, i_epoch_35, epoch_36, __ss___37) :=
 (fix while_20 epochs_25 T_21 u_prev_22 i_epoch_23 epoch_24 __ss___26 {struct epochs_25} :=
  if (gt_end u_19 (fst epoch_24)) then
(let T_27 := mmul OP T_21 (expm (mscale OP (oofQ OP ((end_or0 (fst epoch_24)) - u_prev_22)%Q) (snd __ss___26))) in
(let u_prev_28 := (end_or0 (fst epoch_24)) in
(match epochs_25 with
 | [] => (epochs_25, T_27, u_prev_28, i_epoch_23, epoch_24, __ss___26)
 | epoch_29 :: epochs_30 =>
(let ss_31 := epoch_29 in
while_20 epochs_30 T_27 u_prev_28 tt epoch_29 ss_31)
 end)))
  else (epochs_25, T_21, u_prev_22, i_epoch_23, epoch_24, __ss___26))
 epochs_15 T_11 u_prev_12 i_epoch_13 epoch_14 __ss___16 in
(let T_38 := mmul OP T_33 (expm (mscale OP (oofQ OP (u_19 - u_prev_34)%Q) (snd __ss___37))) in
(let probs_39 := upd_nth probs_17 i_18 (osub OP (o1 OP) (dot OP alpha (mvec OP T_38 e_10))) in
(let u_prev_40 := u_19 in
(T_38, u_prev_40, i_epoch_35, epoch_36, epochs_32, __ss___37, probs_39)))))) (combine (seq 0 (length t_sorted_2)) t_sorted_2) (T_7, u_prev_8, tt, epoch_4, epochs_5, ss_6, probs_9) in
(let probs_48 := gather (o0 OP) probs_47 (inv_perm (argsort Qleb t_1)) in
probs_48)))))))
 end)))).
End Gen.
