(* GENERATED FILE - DO NOT EDIT.  Regenerated on every run of the checks that depend on the moment assembly by
   /verif/translate/moments2coq.py (Python `ast`, fail-closed) from phasegen/distributions.py.
   The equivalence with the hand-written model (accumulate / moment of model/PhaseType.v) is proved in proofs/GenMomentsEquiv.v.

   Translated: PhaseTypeDistribution.accumulate (and its non-centring specialisation, which is what its recursive calls run),
   PhaseTypeDistribution.moment.
   Skipped statements (guards that raise, identities):
     accumulate_nc line 729: k = int(k) (identity on a natural number)
     accumulate_nc line 734: if k != len(rewards): raise
     accumulate line 729: k = int(k) (identity on a natural number)
     accumulate line 734: if k != len(rewards): raise
     moment line 666: if np.isnan(m): raise
   Reading of the source: see the docstring of the translator. *)
From Coq Require Import ZArith QArith List Arith Bool.
From PG Require Import base.Ops model.CoalModels model.Matrix model.PhaseType gen.NpMoments.
Import ListNotations.

Section Gen.
  Context {T : Type} (OP : Ops T) {Rw : Type}.
  Variable raw : nat -> list Q -> list Rw -> list T.      (* self._accumulate(k, tuple(end_times), rewards) *)
  Variable self_reward : Rw.                               (* self.reward *)
  Variables self_start_time self_t_max : Q.                (* self.tree_height.start_time, self.tree_height.t_max *)

  (* the non-centring part of PhaseTypeDistribution.accumulate (its test `center and k > 1` decided false) *)
  Definition PhaseTypeDistribution_accumulate_nc (k : nat) (end_times : list Q) (rewards : option (list Rw)) (permute : bool) : list T :=
(let rewards_1 := match rewards with None => (repeat self_reward k) | Some v_2 => v_2 end in
(if (Nat.eqb k 0) then
(ones OP (length end_times))
 else
(if permute then
(let permutations_3 := (it_permutations rewards_1) in
(vdivn OP (vsum OP (length end_times) (map (fun r_4 => (raw k end_times r_4)) permutations_3)) (length permutations_3)))
 else
(raw k end_times rewards_1)))).

  (* PhaseTypeDistribution.accumulate *)
  Definition PhaseTypeDistribution_accumulate (k : nat) (end_times : list Q) (rewards : option (list Rw)) (center permute : bool) : list T :=
(let rewards_1 := match rewards with None => (repeat self_reward k) | Some v_2 => v_2 end in
(if (Nat.eqb k 0) then
(ones OP (length end_times))
 else
(if (andb center (Nat.ltb 1 k)) then
(let components_3 := [] in
(let means_5 := (map (fun i_4 => (PhaseTypeDistribution_accumulate_nc 1 end_times (Some [(nth i_4 rewards_1 self_reward)]) true)) (seq 0 k)) in
(let components_16 := fold_left (fun components_6 i_7 =>
(let components_15 := fold_left (fun components_8 indices_9 =>
(let mu_i_11 := (PhaseTypeDistribution_accumulate_nc i_7 end_times (Some (map (fun j_10 => (nth j_10 rewards_1 self_reward)) indices_9)) permute) in
(let mu1_13 := (vprod OP (length end_times) (map (fun j_12 => (nth j_12 means_5 [])) (filter (fun j_12 => (negb (existsb (Nat.eqb j_12) indices_9))) (seq 0 k)))) in
(let components_14 := (components_8 ++ [(vmul OP (vscale OP (opow OP (oopp OP (o1 OP)) (k - i_7)) mu_i_11) mu1_13)]) in
components_14)))) (subsets_of_size (seq 0 k) i_7) components_6 in
components_15)) (seq 0 (k + 1)) components_3 in
(vsum OP (length end_times) components_16))))
 else
(if permute then
(let permutations_17 := (it_permutations rewards_1) in
(vdivn OP (vsum OP (length end_times) (map (fun r_18 => (raw k end_times r_18)) permutations_17)) (length permutations_17)))
 else
(raw k end_times rewards_1))))).

  (* PhaseTypeDistribution.moment *)
  Definition PhaseTypeDistribution_moment (k : nat) (rewards : option (list Rw)) (start_time end_time : option Q)
             (center permute : bool) : T :=
(let start_time_1 := match start_time with None => self_start_time | Some v_2 => v_2 end in
(let end_time_3 := match end_time with None => self_t_max | Some v_4 => v_4 end in
(let m_9 := (if (if Qlt_le_dec 0 start_time_1 then true else false) then
(match (PhaseTypeDistribution_accumulate k [start_time_1; end_time_3] rewards center permute) with
 | [m_start_5; m_end_6] =>
(let m_7 := (osub OP m_end_6 m_start_5) in
m_7)
 | _ => o0 OP
 end)
 else
(let m_8 := (nth 0 (PhaseTypeDistribution_accumulate k [end_time_3] rewards center permute) (o0 OP)) in
m_8)) in
m_9))).
End Gen.
