(* Hand-written companion of the GENERATED file gen/SfsGen.v (see translate/sfs2coq.py): the entrywise matrix operations used by the
   assembly of the SFS covariance.

     mget m i j        m[i, j]  (0 outside)
     mset2 m i j v     m[i, j] = v
     outer a b         np.outer(a, b)
     mtrans n m        m.T for an n x n matrix
     mhalf m           m / 2
     msub2 a b         a - b, entrywise                                                                                    *)
From Coq Require Import ZArith QArith List Arith Bool.
From PG Require Import base.Ops model.CoalModels model.Matrix.
Import ListNotations.

Section NpSfs.
  Context {T : Type} (OP : Ops T).
  Definition mget (m : list (list T)) (i j : nat) : T := nth j (nth i m []) (o0 OP).
  Definition mset2 (m : list (list T)) (i j : nat) (v : T) : list (list T) := upd m i (fun row => upd row j (fun _ => v)).
  Definition outer (a b : list T) : list (list T) := map (fun x => map (fun y => omul OP x y) b) a.
  Definition mtrans (n : nat) (m : list (list T)) : list (list T) := map (fun j => map (fun i => mget m i j) (seq 0 n)) (seq 0 n).
  Definition mhalf (m : list (list T)) : list (list T) := map (map (fun x => odiv OP x (oofN OP 2))) m.
  Definition msub2 (a b : list (list T)) : list (list T) :=
    map (fun rs => map (fun xy => osub OP (fst xy) (snd xy)) (combine (fst rs) (snd rs))) (combine a b).
End NpSfs.
Arguments mset2 {T}.
