(* GENERATED FILE - DO NOT EDIT.  Regenerated on every run of the checks that depend on serialisation by
   /verif/translate/serial2coq.py (Python `ast`, fail-closed PIN of the method bodies) from phasegen/serialization.py,
   phasegen/distributions.py (Coalescent) and phasegen/inference.py (Inference).  The reading of the pinned text IS model/Serial.v;
   proofs/GenSerialEquiv.v restates its theorems under the names of the source. *)
From Coq Require Import List.
From PG Require Import model.Serial.
Import ListNotations.

Section Gen.
  Variables Config Caches Json : Type.
  Variable drop : Caches -> Caches.
  Variable enc : Config * Caches -> Json.
  Variable dec : Json -> option (Config * Caches).
  (* Coalescent.to_json / Serializable.to_json on a deep copy whose caches were dropped *)
  Definition Coalescent_to_json (o : obj Config Caches) : obj Config Caches * Json := to_json Config Caches Json drop enc o.
  (* Serializable.from_json *)
  Definition Serializable_from_json (j : Json) : option (obj Config Caches) := from_json Config Caches Json dec j.
  (* n save / load cycles *)
  Definition save_load_cycles (n : nat) (o : obj Config Caches) : option (obj Config Caches) := cycles Config Caches Json drop enc dec n o.
End Gen.
