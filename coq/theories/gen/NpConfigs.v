(* Hand-written companion of the GENERATED file gen/ConfigsGen.v (see translate/configs2coq.py):

     np_eq2_row m v   m == v for a rank-2 array and a vector, broadcast along the LAST axis (false where NumPy would raise
                      because the lengths differ)
     np_eqZ1 v c      v == c for a vector of counts and a Python integer
     np_all2          np.all over both axes of a rank-2 boolean array
     n_arg            the three forms of the argument of LineageConfig: dictionary (in insertion order), iterable, scalar
     pop_name i       f"pop_{i}"
     dict_eqb         == of two dictionaries with distinct keys, given as association lists (order-insensitive)
     epoch_val        the attributes of an Epoch: times, pop_sizes and migration_rates as association lists in insertion order,
                      the sorted names and their number
     mig_in p q m     (p, q) in m;   sort_strings   sorted(list of str) (insertion sort by String.leb: code-point order)          *)
From Coq Require Import String DecimalString.
From Coq Require Import ZArith QArith List Arith Bool.
Import ListNotations.
Local Open Scope list_scope.

Definition row_eqb (r v : list nat) : bool :=
  Nat.eqb (length r) (length v) && forallb (fun xy => Nat.eqb (fst xy) (snd xy)) (combine r v).
Definition np_eq2_row (m : list (list nat)) (v : list nat) : list (list bool) :=
  map (fun r => if Nat.eqb (length r) (length v) then map (fun xy => Nat.eqb (fst xy) (snd xy)) (combine r v) else [false]) m.
Definition np_eqZ1 (v : list nat) (c : Z) : list bool := map (fun x => Z.eqb (Z.of_nat x) c) v.
Definition np_all2 (m : list (list bool)) : bool := forallb (forallb (fun b => b)) m.

Inductive n_arg := NDict (d : list (string * Z)) | NIter (l : list Z) | NScalar (v : Z).
Definition pop_name (i : nat) : string := String.append "pop_" (NilZero.string_of_uint (Nat.to_uint i)).

Definition dict_get (k : string) (d : list (string * Z)) : option Z :=
  match find (fun kv => String.eqb (fst kv) k) d with Some kv => Some (snd kv) | None => None end.
Definition dict_eqb (a b : list (string * Z)) : bool :=
  Nat.eqb (length a) (length b) &&
  forallb (fun kv => match dict_get (fst kv) b with Some v => Z.eqb (snd kv) v | None => false end) a.

Record epoch_val := mkEpochVal {
  ev_start : Q;
  ev_end : option Q;                            (* None = np.inf *)
  ev_sizes : list (string * Q);
  ev_names : list string;
  ev_npops : nat;
  ev_mig : list (string * string * Q)
}.
Definition mig_in (p q : string) (m : list (string * string * Q)) : bool :=
  existsb (fun kv => String.eqb (fst (fst kv)) p && String.eqb (snd (fst kv)) q) m.
Fixpoint insert_string (x : string) (l : list string) : list string :=
  match l with
  | [] => [x]
  | y :: l' => if String.leb x y then x :: l else y :: insert_string x l'
  end.
Definition sort_strings (l : list string) : list string := fold_right insert_string [] l.
