(* Hand-written companion of the GENERATED file gen/DemographyGen.v (see translate/demography2coq.py): epochs as values
   (`epoch_val` of gen/NpConfigs.v), np.inf as None, dictionaries as association lists in insertion order.

     lt_end t e / le_end t e    t < e / t <= e for an end time e that may be infinite
     fin_end prev               prev.end_time where it is finite (0 otherwise: not reached, the generator stops at an infinite end)
     sizes_union / mig_union    d |= d'  (values of keys present are replaced in place, other keys are appended)
     time_get t d               d[t] for a dictionary keyed by times (the empty dictionary when absent: only times of the event are asked)
     upd_at l i v               l[i] = v                                                                                    *)
From Coq Require Import String.
From Coq Require Import ZArith QArith List Arith Bool.
From PG Require Import gen.NpConfigs.
Import ListNotations.
Local Open Scope list_scope.

Definition Qlt_bool (a b : Q) : bool := negb (Qle_bool b a).
Definition lt_end (t : Q) (e : option Q) : bool := match e with None => true | Some e' => Qlt_bool t e' end.
Definition le_end (t : Q) (e : option Q) : bool := match e with None => true | Some e' => Qle_bool t e' end.
Definition is_inf (e : option Q) : bool := match e with None => true | Some _ => false end.
Definition fin_end (ep : epoch_val) : Q := match ev_end ep with Some t => t | None => 0 end.

Definition set_ev_end (ep : epoch_val) (e : option Q) : epoch_val :=
  mkEpochVal (ev_start ep) e (ev_sizes ep) (ev_names ep) (ev_npops ep) (ev_mig ep).
Definition set_ev_sizes (ep : epoch_val) (s : list (string * Q)) : epoch_val :=
  mkEpochVal (ev_start ep) (ev_end ep) s (ev_names ep) (ev_npops ep) (ev_mig ep).
Definition set_ev_mig (ep : epoch_val) (m : list (string * string * Q)) : epoch_val :=
  mkEpochVal (ev_start ep) (ev_end ep) (ev_sizes ep) (ev_names ep) (ev_npops ep) m.

Fixpoint size_set (k : string) (v : Q) (d : list (string * Q)) : list (string * Q) :=
  match d with
  | [] => [(k, v)]
  | kv :: d' => if String.eqb (fst kv) k then (fst kv, v) :: d' else kv :: size_set k v d'
  end.
Definition sizes_union (d d' : list (string * Q)) : list (string * Q) := fold_left (fun acc kv => size_set (fst kv) (snd kv) acc) d' d.
Fixpoint mig_set (p q : string) (v : Q) (d : list (string * string * Q)) : list (string * string * Q) :=
  match d with
  | [] => [((p, q), v)]
  | kv :: d' => if String.eqb (fst (fst kv)) p && String.eqb (snd (fst kv)) q then (fst kv, v) :: d' else kv :: mig_set p q v d'
  end.
Definition mig_union (d d' : list (string * string * Q)) : list (string * string * Q) :=
  fold_left (fun acc kv => mig_set (fst (fst kv)) (snd (fst kv)) (snd kv) acc) d' d.
Definition time_get {A} (t : Q) (d : list (Q * list A)) : list A :=
  match find (fun kv => Qeq_bool (fst kv) t) d with Some kv => snd kv | None => [] end.

Definition ev_placeholder : epoch_val := mkEpochVal 0 (Some 0) [] [] 0 [].
Fixpoint upd_at {A} (l : list A) (i : nat) (v : A) : list A :=
  match l, i with
  | [], _ => []
  | _ :: l', O => v :: l'
  | x :: l', S i' => x :: upd_at l' i' v
  end.
