(* GENERATED FILE - DO NOT EDIT.  Regenerated on every run of the checks that depend on the cache machine of the state space by
   /verif/translate/cache2coq.py (Python `ast`, fail-closed) from phasegen/state_space.py.
   The equivalence with the hand-written model (model/Cache.v) is proved in proofs/GenCacheEquiv.v.

   Translated: StateSpace.__init__ (fields), states, S, update_epoch, drop_S, drop_cache, _get_rate_matrix.
   Skipped statements:
     states line 84: start = time.time() (timing)
     states line 90: self.time = time.time() - start (timing)
   Reading of the source and the scope check: see the docstring of the translator. *)
From Coq Require Import List Bool.
From PG Require Import model.Cache gen.NpCache.
Import ListNotations.
#[local] Arguments ss_epoch {Epoch Tr Mx}. #[local] Arguments ss_S {Epoch Tr Mx}.
#[local] Arguments ss_cache {Epoch Tr Mx}. #[local] Arguments ss_flag {Epoch Tr Mx}.

Section Gen.
  Variables Epoch Tr Mx : Type.
  Variable eqk : Epoch -> Epoch -> bool.
  Variable trans_of : Epoch -> Tr.          (* self.get_transitions() under the rates of the current epoch *)
  Variable mat_of : Tr -> Mx.               (* self._graph_to_matrix(transitions) *)
  Notation sspace := (sspace Epoch Tr Mx).

  (* StateSpace.__init__: epoch as given (the default Epoch() when None), no S yet, empty _cache, the flag *)
  Definition StateSpace_init (epoch : Epoch) (cache : bool) : sspace := mkSS Epoch Tr Mx epoch None [] cache.

  (* StateSpace.drop_S *)
  Definition StateSpace_drop_S (self : sspace) : sspace :=
(let self_1 := set_S self None in
self_1).

  (* StateSpace.drop_cache *)
  Definition StateSpace_drop_cache (self : sspace) : sspace :=
(let self_1 := StateSpace_drop_S self in
(let self_2 := set_cache self_1 [] in
self_2)).

  (* StateSpace.update_epoch *)
  Definition StateSpace_update_epoch (self : sspace) (epoch : Epoch) : sspace :=
(let self_2 := (if (negb (eqk (ss_epoch self) epoch)) then
(let self_1 := StateSpace_drop_S self in
self_1)
 else
self) in
(let self_3 := set_epoch self_2 epoch in
self_3)).

  (* StateSpace._get_rate_matrix *)
  Definition StateSpace_get_rate_matrix (self : sspace) : sspace * Mx :=
(let '(tr_5, self_6) := (if ((ss_flag self) && (dict_in eqk (ss_epoch self) (ss_cache self)))%bool then
(let tr_1 := (dict_get eqk (ss_epoch self) (ss_cache self) (trans_of (ss_epoch self))) in
(tr_1, self))
 else
(let tr_2 := (trans_of (ss_epoch self)) in
(let self_4 := (if (ss_flag self) then
(let self_3 := set_cache self (dict_set eqk (ss_epoch self) tr_2 (ss_cache self)) in
self_3)
 else
self) in
(tr_2, self_4)))) in
(self_6, (mat_of tr_5))).

  (* StateSpace.S: functools.cached_property around _get_rate_matrix *)
  Definition StateSpace_S (self : sspace) : sspace * Mx :=
    match ss_S self with
    | Some m => (self, m)
    | None => let '(self_1, m) := StateSpace_get_rate_matrix self in (set_S self_1 (Some m), m)
    end.

  (* StateSpace.states: the body of the cached property (run once per object): the new object and the pair whose second
     component is returned *)
  Definition StateSpace_states_body (self : sspace) : sspace * Tr :=
(let tr_1 := (trans_of (ss_epoch self)) in
(let self_3 := (if (ss_flag self) then
(let self_2 := set_cache self (dict_set eqk (ss_epoch self) tr_1 (ss_cache self)) in
self_2)
 else
self) in
(self_3, tr_1))).
End Gen.
