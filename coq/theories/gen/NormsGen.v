(* GENERATED FILE - DO NOT EDIT.  Regenerated on every run of the checks that depend on the loss classes by
   /verif/translate/norms2coq.py (Python `ast`, fail-closed PIN of the method bodies) from phasegen/norms.py.
   The theorems about it are in proofs/GenNormsEquiv.v.  Reading of the source: see the docstring of the translator. *)
From Coq Require Import Reals List.
Import ListNotations.
Local Open Scope R_scope.

(* the order of an L-norm after LNorm.__init__: the three named classes *)
Inductive ord := Ord1 | Ord2 | OrdInf.
Definition L1Norm_p := Ord1.
Definition L2Norm_p := Ord2.
Definition LInfNorm_p := OrdInf.

(* np.linalg.norm(v, ord) of a one-dimensional v *)
Definition linalg_norm (v : list R) (p : ord) : R :=
  match p with
  | Ord1 => fold_right (fun x s => Rabs x + s) 0 v
  | Ord2 => sqrt (fold_right (fun x s => x * x + s) 0 v)
  | OrdInf => fold_right (fun x s => Rmax (Rabs x) s) 0 v
  end.

(* a - b, entrywise (equal lengths) *)
Definition vsub (a b : list R) : list R := map (fun xy => fst xy - snd xy) (combine a b).

(* LNorm.compute *)
Definition LNorm_compute (p : ord) (a b : list R) : R := linalg_norm (vsub a b) p.
