(* GENERATED FILE - DO NOT EDIT.  Regenerated on every run of the checks that use reward vectors by
   /verif/translate/rewards2coq.py (Python `ast`, fail-closed) from phasegen/rewards.py.
   The equivalence with the hand-written model model/Rewards.v is proved in proofs/GenRewardsEquiv.v.

   Translated: LineageReward.__init__, TreeHeightReward._get, LocusReward._get, TotalTreeHeightReward._get, TotalBranchLengthReward._get, UnfoldedSFSReward._get, FoldedSFSReward._get_indices, FoldedSFSReward._get, LineageReward._get, DemeReward._get, UnitReward._get, BlockCountingUnitReward._get, TotalBranchLengthLocusReward._get, ProductReward._get, SumReward._get, Reward.supports, CompositeReward.supports.
   NOT translated: CombinedReward.__init__ (left to the differential test against combine_loop of model/Rewards.v),
   CustomReward (a user function), __hash__ / __eq__.

   Conventions: every `_get` is translated as a function of ONE state s (the state axis 0 of
   `state_space.lineages` is pointwise in the source - checked by the translator; gen/NpState.v gives the meaning of
   the NumPy operations on the remaining axes [locus][deme][block]).  X_get_supported k is the condition under which
   the source returns instead of raising NotImplementedError for a state space of kind k (lineage- or block-counting);
   X_get_value is the value returned.  `state_space.lineage_config.n` / `state_space.locus_config.n` are the parameters
   lineage_config_n / locus_config_n; `self.x` is the parameter self_x; `pop_names.index(self.pop)` of the state
   space's lineage configuration is the parameter self_pop (position of the population on the deme axis of the
   states); integer results are injected with oofN, `/` is odiv; int - int is computed in Z; sub-rewards of a
   composite reward enter as the list self_rewards_get of their values at s; np.sum / np.prod over a Python list are
   osum / oprod (right-nested, as in the hand-written model). *)
From Coq Require Import ZArith List Arith Bool.
From PG Require Import base.Ops model.CoalModels model.StateSpace model.Rewards gen.NpState.
Import ListNotations.
Local Open Scope nat_scope.

Inductive sskind : Type := SS_LC | SS_BC.
Definition is_lc (k : sskind) : bool := match k with SS_LC => true | SS_BC => false end.
Definition is_bc (k : sskind) : bool := match k with SS_BC => true | SS_LC => false end.

(* ---- constructor guards: true = the constructor raises ValueError ---- *)
Definition LineageReward_init_raises (n : Z) : bool :=
  (Z.ltb n (2)%Z).

Section Gen.
  Context {T : Type} (OP : Ops T).

  (* TreeHeightReward._get *)
  Definition TreeHeightReward_get_supported (k : sskind) : bool :=
    (orb (is_lc k) (is_bc k)).
  Definition TreeHeightReward_get_value (lineage_config_n locus_config_n : nat) (s : state) : T :=
    (oofN OP (b2n (np_any1 (np_gt1 (np_sum2_1 (np_sum3_2 (lin s))) 1)))).

  (* LocusReward._get *)
  Definition LocusReward_get_supported (k : sskind) : bool :=
    (is_lc k).
  Definition LocusReward_get_value (lineage_config_n locus_config_n : nat) (self_locus : nat) (s : state) : T :=
    (oofN OP (b2n (np_gt0 (np_get1_0 (np_sum2_1 (np_sum3_2 (lin s))) (Z.of_nat self_locus)) 1))).

  (* TotalTreeHeightReward._get *)
  Definition TotalTreeHeightReward_get_supported (k : sskind) : bool :=
    (andb (orb (is_lc k) (is_bc k)) (LocusReward_get_supported k)).
  Definition TotalTreeHeightReward_get_value (lineage_config_n locus_config_n : nat) (s : state) : T :=
    (osum OP (map (fun i : nat => (LocusReward_get_value lineage_config_n locus_config_n i s)) (seq 0 locus_config_n))).

  (* TotalBranchLengthReward._get *)
  Definition TotalBranchLengthReward_get_supported (k : sskind) : bool :=
    (orb (is_lc k) (is_bc k)).
  Definition TotalBranchLengthReward_get_value (lineage_config_n locus_config_n : nat) (s : state) : T :=
    (oofN OP (let loci := (np_sum2_1 (np_sum3_2 (lin s))) in (let n_loci := locus_config_n in (let weights := (sum_nat (map (fun i : nat => ((np_get1_0 loci (Z.of_nat i)) * (b2n (np_gt0 (np_get1_0 loci (Z.of_nat i)) 1)))) (seq 0 n_loci))) in weights)))).

  (* UnfoldedSFSReward._get *)
  Definition UnfoldedSFSReward_get_supported (k : sskind) : bool :=
    (is_bc k).
  Definition UnfoldedSFSReward_get_value (lineage_config_n locus_config_n : nat) (self_index : nat) (s : state) : T :=
    (oofN OP (np_sum1_0 (np_sum2_1 (np_get3_2 (lin s) ((Z.of_nat self_index) - (Z.of_nat 1))%Z)))).

  (* FoldedSFSReward._get_indices *)
  Definition FoldedSFSReward_get_indices (lineage_config_n locus_config_n : nat) (self_index : nat) : list Z :=
    (if (Z.eqb (Z.of_nat self_index) ((Z.of_nat lineage_config_n) - (Z.of_nat self_index))%Z) then [((Z.of_nat self_index) - (Z.of_nat 1))%Z] else [((Z.of_nat self_index) - (Z.of_nat 1))%Z; (((Z.of_nat lineage_config_n) - (Z.of_nat self_index))%Z - (Z.of_nat 1))%Z]).

  (* FoldedSFSReward._get *)
  Definition FoldedSFSReward_get_supported (k : sskind) : bool :=
    (is_bc k).
  Definition FoldedSFSReward_get_value (lineage_config_n locus_config_n : nat) (self_index : nat) (s : state) : T :=
    (oofN OP (let blocks := (FoldedSFSReward_get_indices lineage_config_n locus_config_n self_index) in (np_sum1_0 (np_sum2_1 (np_sum3_2 (np_take3_2 (lin s) blocks)))))).

  (* LineageReward._get *)
  Definition LineageReward_get_supported (k : sskind) : bool :=
    (orb (is_lc k) (is_bc k)).
  Definition LineageReward_get_value (lineage_config_n locus_config_n : nat) (self_n : nat) (s : state) : T :=
    (oofN OP (b2n (np_eq0 (np_sum1_0 (np_sum2_1 (np_sum3_2 (lin s)))) self_n))).

  (* DemeReward._get *)
  Definition DemeReward_get_supported (k : sskind) : bool :=
    (orb (is_lc k) (is_bc k)).
  Definition DemeReward_get_value (lineage_config_n locus_config_n : nat) (self_pop : nat) (s : state) : T :=
    (let pop_index := self_pop in (let fraction := (odiv OP (oofN OP (np_get1_0 (np_sum2_0 (np_sum3_2 (lin s))) (Z.of_nat pop_index))) (oofN OP (np_sum1_0 (np_sum2_1 (np_sum3_2 (lin s)))))) in fraction)).

  (* UnitReward._get *)
  Definition UnitReward_get_supported (k : sskind) : bool :=
    true.
  Definition UnitReward_get_value (lineage_config_n locus_config_n : nat) (s : state) : T :=
    (o1 OP).

  (* BlockCountingUnitReward._get *)
  Definition BlockCountingUnitReward_get_supported (k : sskind) : bool :=
    true.
  Definition BlockCountingUnitReward_get_value (lineage_config_n locus_config_n : nat) (s : state) : T :=
    (o1 OP).

  (* TotalBranchLengthLocusReward._get *)
  Definition TotalBranchLengthLocusReward_get_supported (k : sskind) : bool :=
    (is_lc k).
  Definition TotalBranchLengthLocusReward_get_value (lineage_config_n locus_config_n : nat) (self_locus : nat) (s : state) : T :=
    (oofN OP (let n_branches := (np_get1_0 (np_sum2_1 (np_sum3_2 (lin s))) (Z.of_nat self_locus)) in (let n_branches := (np_mask_lt0 n_branches 2) in n_branches))).

  (* ProductReward._get *)
  Definition ProductReward_get_supported (k : sskind) : bool :=
    true.
  Definition ProductReward_get_value (lineage_config_n locus_config_n : nat) (self_rewards_get : list T) (s : state) : T :=
    (oprod OP self_rewards_get).

  (* SumReward._get *)
  Definition SumReward_get_supported (k : sskind) : bool :=
    true.
  Definition SumReward_get_value (lineage_config_n locus_config_n : nat) (self_rewards_get : list T) (s : state) : T :=
    (osum OP self_rewards_get).

  (* dispatch: the reward vector entry of reward r at state s *)
  Fixpoint gen_reward_get (lineage_config_n locus_config_n : nat) (r : reward) (s : state) : T :=
    match r with
    | RTreeHeight => TreeHeightReward_get_value lineage_config_n locus_config_n s
    | RTotalTreeHeight => TotalTreeHeightReward_get_value lineage_config_n locus_config_n s
    | RTotalBranchLength => TotalBranchLengthReward_get_value lineage_config_n locus_config_n s
    | RUnfoldedSFS x0 => UnfoldedSFSReward_get_value lineage_config_n locus_config_n x0 s
    | RFoldedSFS x0 => FoldedSFSReward_get_value lineage_config_n locus_config_n x0 s
    | RLineage x0 => LineageReward_get_value lineage_config_n locus_config_n x0 s
    | RDeme x0 => DemeReward_get_value lineage_config_n locus_config_n x0 s
    | RLocus x0 => LocusReward_get_value lineage_config_n locus_config_n x0 s
    | RUnit => UnitReward_get_value lineage_config_n locus_config_n s
    | RBlockCountingUnit => BlockCountingUnitReward_get_value lineage_config_n locus_config_n s
    | RTBLLocus x0 => TotalBranchLengthLocusReward_get_value lineage_config_n locus_config_n x0 s
    | RProduct rs => ProductReward_get_value lineage_config_n locus_config_n (map (fun r' => gen_reward_get lineage_config_n locus_config_n r' s) rs) s
    | RSum rs => SumReward_get_value lineage_config_n locus_config_n (map (fun r' => gen_reward_get lineage_config_n locus_config_n r' s) rs) s
    end.

  Fixpoint gen_get_supported (k : sskind) (r : reward) : bool :=
    match r with
    | RTreeHeight => TreeHeightReward_get_supported k
    | RTotalTreeHeight => TotalTreeHeightReward_get_supported k
    | RTotalBranchLength => TotalBranchLengthReward_get_supported k
    | RUnfoldedSFS _ => UnfoldedSFSReward_get_supported k
    | RFoldedSFS _ => FoldedSFSReward_get_supported k
    | RLineage _ => LineageReward_get_supported k
    | RDeme _ => DemeReward_get_supported k
    | RLocus _ => LocusReward_get_supported k
    | RUnit => UnitReward_get_supported k
    | RBlockCountingUnit => BlockCountingUnitReward_get_supported k
    | RTBLLocus _ => TotalBranchLengthLocusReward_get_supported k
    | RProduct rs => andb (ProductReward_get_supported k) (forallb (gen_get_supported k) rs)
    | RSum rs => andb (SumReward_get_supported k) (forallb (gen_get_supported k) rs)
    end.
End Gen.

(* Reward.supports / CompositeReward.supports: isinstance(self, LineageCountingReward / BlockCountingReward) from the
   class hierarchy of the source (C3 linearisation) *)
Fixpoint gen_supports_lc (r : reward) : bool :=
  match r with
  | RTreeHeight => true
  | RTotalTreeHeight => true
  | RTotalBranchLength => true
  | RUnfoldedSFS _ => false
  | RFoldedSFS _ => false
  | RLineage _ => true
  | RDeme _ => true
  | RLocus _ => true
  | RUnit => true
  | RBlockCountingUnit => false
  | RTBLLocus _ => true
  | RProduct rs => forallb gen_supports_lc rs
  | RSum rs => forallb gen_supports_lc rs
  end.
Fixpoint gen_supports_bc (r : reward) : bool :=
  match r with
  | RTreeHeight => true
  | RTotalTreeHeight => true
  | RTotalBranchLength => true
  | RUnfoldedSFS _ => true
  | RFoldedSFS _ => true
  | RLineage _ => false
  | RDeme _ => true
  | RLocus _ => false
  | RUnit => true
  | RBlockCountingUnit => true
  | RTBLLocus _ => false
  | RProduct rs => forallb gen_supports_bc rs
  | RSum rs => forallb gen_supports_bc rs
  end.
