(* GENERATED FILE - DO NOT EDIT.  Regenerated on every run of the checks that depend on the matrix exponential by
   /verif/translate/expm2coq.py (Python `ast`, fail-closed PIN of the method bodies) from phasegen/expm.py.
   The theorems about it are in proofs/GenExpmEquiv.v.  Reading of the source: see the docstring of the translator. *)
Section Gen.
  Variable M : Type.                       (* matrices in binary64 *)
  Variable scipy_linalg_expm : M -> M.     (* scipy.linalg.expm on float64 input: trusted *)

  (* the class attribute Backend.backend as a state; register replaces it *)
  Definition backend := M -> M.
  Definition SciPyExpmBackend_compute : backend := fun m => scipy_linalg_expm m.
  Definition Backend_default : backend := SciPyExpmBackend_compute.
  Definition Backend_register (current new : backend) : backend := new.
  Definition Backend_expm (current : backend) (m : M) : M := current m.
End Gen.
