(* Hand-written companion of the GENERATED file gen/MomentsGen.v (see translate/moments2coq.py):

     selects l           every element of l together with the rest, by position
     it_permutations l   itertools.permutations(l): all orderings, by position of the first element (so equal elements
                         give repeated orderings, as in itertools), in lexicographic order of positions
     vdivn v n           v / n for a vector v and an integer n (every entry divided)                               *)
From Coq Require Import ZArith QArith List.
From PG Require Import base.Ops model.CoalModels model.Matrix.
Import ListNotations.

Fixpoint selects {A : Type} (l : list A) : list (A * list A) :=
  match l with
  | [] => []
  | x :: r => (x, r) :: map (fun p => (fst p, x :: snd p)) (selects r)
  end.

(* fuel = length of the list (each level removes one element) *)
Fixpoint it_perms_fuel {A : Type} (fuel : nat) (l : list A) : list (list A) :=
  match fuel with
  | O => [[]]
  | S f => match l with
           | [] => [[]]
           | _ => flat_map (fun p => map (cons (fst p)) (it_perms_fuel f (snd p))) (selects l)
           end
  end.
Definition it_permutations {A : Type} (l : list A) : list (list A) := it_perms_fuel (length l) l.

Section V.
  Context {T : Type} (OP : Ops T).
  Definition vdivn (v : vec (T:=T)) (n : nat) : vec (T:=T) := map (fun x => odiv OP x (oofN OP n)) v.
End V.
