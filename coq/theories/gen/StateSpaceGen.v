(* GENERATED FILE - DO NOT EDIT.  Regenerated on every run of the checks that depend on the enumeration of the state space by
   /verif/translate/statespace2coq.py (Python `ast`, fail-closed PIN of the method bodies) from phasegen/state_space.py.
   The reading of the pinned text IS the hand-written model (model/StateSpace.v); proofs/GenStateSpaceEquiv.v restates the theorems
   about it under the names of the source. *)
From Coq Require Import ZArith QArith List Arith Bool.
From PG Require Import base.Ops model.CoalModels model.StateSpace model.PhaseType.
Import ListNotations.

Section Gen.
  Context {T : Type} (OP : Ops T).
  (* StateSpace.get_transitions: (visited states, transitions) or None when the fuel - a bound on the number of levels - runs out *)
  Definition StateSpace_get_transitions (P : params (T:=T)) (fuel nl nd n : nat) := get_transitions OP P fuel nl nd n.
  (* StateSpace._graph_to_matrix *)
  Definition StateSpace_graph_to_matrix (states : list state) (trans : list (state * targets (T:=T))) := rate_matrix OP states trans.
  (* StateSpace.e *)
  Definition StateSpace_e (k : nat) := ones OP k.
  (* _get_initial of the two state spaces *)
  Definition LineageCountingStateSpace_get_initial (nl nd n : nat) : state := initial_state nl nd 1 n.
  Definition BlockCountingStateSpace_get_initial (nl nd n : nat) : state := initial_state nl nd n n.
End Gen.
