(* Hand-written companion of the GENERATED file gen/CacheGen.v (see translate/cache2coq.py): field updates of the record
   `sspace` of model/Cache.v and a Python dictionary keyed by objects with __eq__/__hash__ (the key equality eqk), as an
   association list in insertion order.

     dict_in  eqk k d       k in d
     dict_get eqk k d dflt  d[k]   (read only under a successful `k in d`; dflt otherwise)
     dict_set eqk k v d     d[k] = v   (replaces the value of an equal key in place, keeping the stored key; appends otherwise) *)
From Coq Require Import List Bool.
From PG Require Import model.Cache.
Import ListNotations.

Section NpCache.
  Variables Epoch Tr Mx : Type.
  Notation sspace := (sspace Epoch Tr Mx).
  Definition set_epoch (s : sspace) (e : Epoch) : sspace := mkSS Epoch Tr Mx e (ss_S _ _ _ s) (ss_cache _ _ _ s) (ss_flag _ _ _ s).
  Definition set_S (s : sspace) (m : option Mx) : sspace := mkSS Epoch Tr Mx (ss_epoch _ _ _ s) m (ss_cache _ _ _ s) (ss_flag _ _ _ s).
  Definition set_cache (s : sspace) (c : list (Epoch * Tr)) : sspace := mkSS Epoch Tr Mx (ss_epoch _ _ _ s) (ss_S _ _ _ s) c (ss_flag _ _ _ s).

  Variable eqk : Epoch -> Epoch -> bool.
  Definition dict_in (k : Epoch) (d : list (Epoch * Tr)) : bool := existsb (fun kv => eqk (fst kv) k) d.
  Definition dict_get (k : Epoch) (d : list (Epoch * Tr)) (dflt : Tr) : Tr :=
    match find (fun kv => eqk (fst kv) k) d with Some kv => snd kv | None => dflt end.
  Fixpoint dict_set (k : Epoch) (v : Tr) (d : list (Epoch * Tr)) : list (Epoch * Tr) :=
    match d with
    | [] => [(k, v)]
    | kv :: d' => if eqk (fst kv) k then (fst kv, v) :: d' else kv :: dict_set k v d'
    end.
End NpCache.
Arguments set_epoch {Epoch Tr Mx}. Arguments set_S {Epoch Tr Mx}. Arguments set_cache {Epoch Tr Mx}.
Arguments dict_in {Epoch Tr}. Arguments dict_get {Epoch Tr}. Arguments dict_set {Epoch Tr}.
