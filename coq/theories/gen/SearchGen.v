(* GENERATED FILE - DO NOT EDIT.  Regenerated on every run of the checks that depend on the searches on the distribution
   function by /verif/translate/search2coq.py (Python `ast`, fail-closed) from phasegen/distributions.py.
   The equivalence with the hand-written model (model/Loop.v `advance`, model/Search.v) is proved in proofs/GenSearchEquiv.v.

   Translated: TreeHeightDistribution._update, _cum, quantile, _get_absorption_time, t_max.
   Skipped statements (guards that raise, logging, the first probe time of the horizon search):
     quantile line 1151: if q < 0 or q > 1: raise
     quantile line 1154: if expansion_factor <= 1: raise
     quantile line 1184: if i - 1 == max_iter: raise
     _get_absorption_time line 1241: first probe time of the horizon search (parameter t0)
     _get_absorption_time line 1252: if np.isnan(p): log
     t_max line 1221: if t_abs < self.start_time: raise
   Reading of the source: see the docstring of the translator. *)
From Coq Require Import ZArith QArith List Arith Bool.
From PG Require Import base.Ops base.Perm model.CoalModels model.Matrix model.Loop model.PhaseType gen.NpLoops.
Import ListNotations.

Section Gen.
  Context {T : Type} (OP : Ops T).
  Variable expm : mat (T:=T) -> mat (T:=T).
  Variable lt_TQ : T -> Q -> bool.          (* x < q *)
  Variable lt_QT : Q -> T -> bool.          (* q < x *)
  Variables (n_states : nat) (alpha e : vec (T:=T)).
  Variables (epoch0 : epoch_t (T:=T)) (rest0 : list (epoch_t (T:=T))).     (* self.demography.get_epoch(0) and what follows *)

  (* TreeHeightDistribution._cum (with _e = the reward vector e) *)
  Definition TreeHeightDistribution_cum (T_ : mat (T:=T)) : T := osub OP (o1 OP) (dot OP alpha (mvec OP T_ e)).

  (* TreeHeightDistribution._update *)
  Definition TreeHeightDistribution_update (u u_prev : Q) (T_ : mat (T:=T))
             (epoch : epoch_t (T:=T) * list (epoch_t (T:=T))) : Q * mat (T:=T) * (epoch_t (T:=T) * list (epoch_t (T:=T))) :=
  let '(epoch_cur, epoch_rest) := epoch in
(let ss_1 := epoch_cur in
(let '(epoch_cur_14, epoch_rest_15, T_16, u_prev_17, __ss___18) :=
 (fix while_2 epoch_rest_4 epoch_cur_3 T_5 u_prev_6 __ss___7 {struct epoch_rest_4} :=
  if (gt_end u (fst epoch_cur_3)) then
(let tau_8 := ((end_or0 (fst epoch_cur_3)) - u_prev_6)%Q in
(let T_9 := (mmul OP T_5 (expm (mscale OP (oofQ OP tau_8) (snd __ss___7)))) in
(let u_prev_10 := (end_or0 (fst epoch_cur_3)) in
(match epoch_rest_4 with
 | [] => (epoch_cur_3, epoch_rest_4, T_9, u_prev_10, __ss___7)
 | epoch_cur_11 :: epoch_rest_12 =>
(let ss_13 := epoch_cur_11 in
while_2 epoch_rest_12 epoch_cur_11 T_9 u_prev_10 ss_13)
 end))))
  else (epoch_cur_3, epoch_rest_4, T_5, u_prev_6, __ss___7))
 epoch_rest epoch_cur T_ u_prev ss_1 in
(let T_19 := (mmul OP T_16 (expm (mscale OP (oofQ OP (u - u_prev_17)%Q) (snd __ss___18)))) in
(u, T_19, (epoch_cur_14, epoch_rest_15))))).

  (* TreeHeightDistribution.quantile (defaults: expansion_factor = 2, precision = 1e-5, max_iter = 1000) *)
  Definition TreeHeightDistribution_quantile (q expansion_factor precision : Q) (max_iter : nat) : Q :=
(let a_1 := (inject_Z 0) in
let b_2 := (inject_Z 1) in
(let T_a_3 := (mid OP n_states) in
(let '(epoch_a_cur_4, epoch_a_rest_5) := (epoch0, rest0) in
let '(epoch_b_cur_6, epoch_b_rest_7) := (epoch0, rest0) in
(let '(b_8, T_b_9, (epoch_b_cur_10, epoch_b_rest_11)) := (TreeHeightDistribution_update b_2 a_1 T_a_3 (epoch_b_cur_6, epoch_b_rest_7)) in
(let i_12 := 0%nat in
(let '(b_25, T_b_26, epoch_b_cur_27, epoch_b_rest_28, i_29) :=
 (fix while_13 fuel_14 b_15 T_b_16 epoch_b_cur_17 epoch_b_rest_18 i_19 {struct fuel_14} :=
  match fuel_14 with
  | O => (b_15, T_b_16, epoch_b_cur_17, epoch_b_rest_18, i_19)
  | S fuel_14' =>
  if (lt_TQ (TreeHeightDistribution_cum T_b_16) q) then
(let '(b_20, T_b_21, (epoch_b_cur_22, epoch_b_rest_23)) := (TreeHeightDistribution_update (b_15 * expansion_factor)%Q b_15 T_b_16 (epoch_b_cur_17, epoch_b_rest_18)) in
(let i_24 := S i_19 in
while_13 fuel_14' b_20 T_b_21 epoch_b_cur_22 epoch_b_rest_23 i_24))
  else (b_15, T_b_16, epoch_b_cur_17, epoch_b_rest_18, i_19)
  end)
 (max_iter - i_12)%nat b_8 T_b_9 epoch_b_cur_10 epoch_b_rest_11 i_12 in
(let '(a_62, T_a_63, epoch_a_cur_64, epoch_a_rest_65, b_66, T_b_67, epoch_b_cur_68, epoch_b_rest_69, i_70) :=
 (fix while_30 fuel_31 a_32 T_a_33 epoch_a_cur_34 epoch_a_rest_35 b_36 T_b_37 epoch_b_cur_38 epoch_b_rest_39 i_40 {struct fuel_31} :=
  match fuel_31 with
  | O => (a_32, T_a_33, epoch_a_cur_34, epoch_a_rest_35, b_36, T_b_37, epoch_b_cur_38, epoch_b_rest_39, i_40)
  | S fuel_31' =>
  if (lt_QT precision (osub OP (TreeHeightDistribution_cum T_b_37) (TreeHeightDistribution_cum T_a_33))) then
(let '(m_41, T_m_42, (epoch_m_cur_43, epoch_m_rest_44)) := (TreeHeightDistribution_update ((a_32 + b_36)%Q / (inject_Z 2))%Q a_32 T_a_33 (epoch_a_cur_34, epoch_a_rest_35)) in
(let '(a_53, T_a_54, epoch_a_cur_55, epoch_a_rest_56, b_57, T_b_58, epoch_b_cur_59, epoch_b_rest_60) := (if (lt_TQ (TreeHeightDistribution_cum T_m_42) q) then
(let a_45 := m_41 in
let T_a_46 := T_m_42 in
let '(epoch_a_cur_47, epoch_a_rest_48) := (epoch_m_cur_43, epoch_m_rest_44) in
(a_45, T_a_46, epoch_a_cur_47, epoch_a_rest_48, b_36, T_b_37, epoch_b_cur_38, epoch_b_rest_39))
 else
(let b_49 := m_41 in
let T_b_50 := T_m_42 in
let '(epoch_b_cur_51, epoch_b_rest_52) := (epoch_m_cur_43, epoch_m_rest_44) in
(a_32, T_a_33, epoch_a_cur_34, epoch_a_rest_35, b_49, T_b_50, epoch_b_cur_51, epoch_b_rest_52))) in
(let i_61 := S i_40 in
while_30 fuel_31' a_53 T_a_54 epoch_a_cur_55 epoch_a_rest_56 b_57 T_b_58 epoch_b_cur_59 epoch_b_rest_60 i_61)))
  else (a_32, T_a_33, epoch_a_cur_34, epoch_a_rest_35, b_36, T_b_37, epoch_b_cur_38, epoch_b_rest_39, i_40)
  end)
 (max_iter - i_29)%nat a_1 T_a_3 epoch_a_cur_4 epoch_a_rest_5 b_25 T_b_26 epoch_b_cur_27 epoch_b_rest_28 i_29 in
((a_62 + b_66)%Q / (inject_Z 2))%Q))))))).

  (* TreeHeightDistribution._get_absorption_time: (time used, warning logged) *)
  Definition TreeHeightDistribution_get_absorption_time (t0 p_absorption : Q) (self_max_iter : nat) : Q * bool :=
(let i_1 := 0%nat in
(let T_2 := (mid OP n_states) in
(let '(epoch_cur_3, epoch_rest_4) := (epoch0, rest0) in
(let expansion_factor_5 := (inject_Z 2) in
(let '(t_6, T_7, (epoch_cur_8, epoch_rest_9)) := (TreeHeightDistribution_update t0 (inject_Z 0) T_2 (epoch_cur_3, epoch_rest_4)) in
(let p_10 := (TreeHeightDistribution_cum T_7) in
(let '(t_25, T_26, epoch_cur_27, epoch_rest_28, p_29, i_30) :=
 (fix while_11 fuel_12 t_13 T_14 epoch_cur_15 epoch_rest_16 p_17 i_18 {struct fuel_12} :=
  match fuel_12 with
  | O => (t_13, T_14, epoch_cur_15, epoch_rest_16, p_17, i_18)
  | S fuel_12' =>
  if (lt_TQ p_17 p_absorption) then
(let '(t_19, T_20, (epoch_cur_21, epoch_rest_22)) := (TreeHeightDistribution_update (t_13 * expansion_factor_5)%Q t_13 T_14 (epoch_cur_15, epoch_rest_16)) in
(let p_23 := (TreeHeightDistribution_cum T_20) in
(let i_24 := S i_18 in
while_11 fuel_12' t_19 T_20 epoch_cur_21 epoch_rest_22 p_23 i_24)))
  else (t_13, T_14, epoch_cur_15, epoch_rest_16, p_17, i_18)
  end)
 (self_max_iter - i_1)%nat t_6 T_7 epoch_cur_8 epoch_rest_9 p_10 i_1 in
(let warned_31 := (lt_TQ p_29 p_absorption) in
(t_25, warned_31))))))))).

  (* TreeHeightDistribution.t_max: the end time if one was given, otherwise the horizon found by the search *)
  Definition TreeHeightDistribution_t_max (self_end_time : option Q) (t0 p_absorption : Q) (self_max_iter : nat) : Q :=
    match self_end_time with
    | Some en => en
    | None => fst (TreeHeightDistribution_get_absorption_time t0 p_absorption self_max_iter)
    end.
End Gen.
