(* GENERATED FILE - DO NOT EDIT.  Regenerated on every run of the checks that depend on the configuration classes by
   /verif/translate/configs2coq.py (Python `ast`, fail-closed) from phasegen/locus.py, phasegen/lineage.py and
   phasegen/state_space.py (StateSpace.alpha) and phasegen/demography.py (class Epoch).
   The equivalence with the hand-written model (outcome of model/Validate.v; matches_config / matches_linkage / alpha_vec of
   model/StateSpace.v) is proved in proofs/GenConfigsEquiv.v.
   Reading of the source: see the docstring of the translator. *)
From Coq Require Import String.
From Coq Require Import ZArith QArith List Arith Bool.
From PG Require Import base.Ops model.CoalModels model.StateSpace model.Validate gen.NpState gen.NpConfigs.
Import ListNotations.
Local Open Scope list_scope.
Local Open Scope nat_scope.

(* LocusConfig.__init__: the guards, in order *)
Definition LocusConfig_init_verdict (n n_unlinked : Z) (recombination_rate : Q) : verdict :=
    if (n <? 1)%Z then ValueErr else
    if (2 <? n)%Z then NotImpl else
    if (n_unlinked <? 0)%Z then ValueErr else
    if (lt0 recombination_rate) then ValueErr else
    Ok.

(* LocusConfig._get_initial_states, for ONE state; lc_n = s.lineage_config.n *)
Definition LocusConfig_get_initial_states (self_n self_n_unlinked : Z) (lc_n : nat) (s : state) : nat :=
    if (self_n =? 1)%Z then 1 else
    let n_linked_1 := (Z.max ((Z.of_nat lc_n) - self_n_unlinked)%Z (0)%Z) in
    (b2n (np_all1 (np_eqZ1 (np_sum2_1 (np_sum3_2 (lnk s))) n_linked_1))).

(* LocusConfig.__eq__ on the stored attributes (n, n_unlinked, recombination_rate, _allow_coalescence) *)
Definition LocusConfig_eq (a b : Z * Z * Q * bool) : bool :=
    let '(n1, u1, r1, c1) := a in let '(n2, u2, r2, c2) := b in
    (n1 =? n2)%Z && (u1 =? u2)%Z && Qeq_bool r1 r2 && Bool.eqb c1 c2.

(* LineageConfig.__init__: n_lineages (association list in insertion order) for the three container forms, and the stored
   attributes (lineages, n, n_pops, pop_names) *)
Definition LineageConfig_n_lineages (n : n_arg) : list (string * Z) :=
    match n with
    | NDict d => map (fun kv => (fst kv, snd kv)) d
    | NIter l => map (fun iv => (pop_name (fst iv), snd iv)) (combine (seq 0 (length l)) l)
    | NScalar v => [(pop_name 0, v)]
    end.
Definition LineageConfig_init (n : n_arg) : list Z * Z * nat * list string :=
    let n_lineages := LineageConfig_n_lineages n in
    (map snd n_lineages, fold_right Z.add 0%Z (map snd n_lineages), length n_lineages, map fst n_lineages).

(* LineageConfig.__eq__: equality of the dictionaries name -> count (order-insensitive, names are distinct keys) *)
Definition LineageConfig_eq (a b : list (string * Z)) : bool := dict_eqb a b.

(* LineageConfig._get_initial_states, for ONE state *)
Definition LineageConfig_get_initial_states (self_lineages : list nat) (s : state) : nat :=
    (b2n (np_all2 (np_eq2_row (np_get3_2 (lin s) (0)%Z) self_lineages))).

(* StateSpace.alpha over the list of states *)
Section Alpha.
  Context {T : Type} (OP : Ops T).
  Definition StateSpace_alpha (self_lineages : list nat) (self_n self_n_unlinked : Z) (lc_n : nat) (states : list state) : list T :=
    let pops := map (LineageConfig_get_initial_states self_lineages) states in
    let loci := map (LocusConfig_get_initial_states self_n self_n_unlinked lc_n) states in
    let alpha := map (fun ab => fst ab * snd ab) (combine pops loci) in
    map (fun a => odiv OP (oofN OP a) (oofN OP (sum_nat alpha))) alpha.
End Alpha.

(* Epoch.__init__ (compared with the expected text): the epoch OWNS copies of its dictionaries; names sorted; every ordered pair of
   distinct populations without a migration rate gets the rate 0, appended in the order of the loops *)
Definition Epoch_init (start_time : Q) (end_time : option Q) (pop_sizes : option (list (string * Q)))
           (migration_rates : option (list (string * string * Q))) : epoch_val :=
    let pop_sizes := match pop_sizes with None => [("pop_0"%string, 1%Q)] | Some d => d end in
    let migration_rates := match migration_rates with None => [] | Some d => d end in
    let ks := map fst pop_sizes in
    let mig := fold_left (fun m p => fold_left (fun m q =>
                 if negb (String.eqb p q) && negb (mig_in p q m) then m ++ [((p, q), 0%Q)] else m) ks m) ks migration_rates in
    mkEpochVal start_time end_time pop_sizes (sort_strings ks) (length ks) mig.

(* Epoch.__eq__ (and __hash__, which hashes exactly the two tuples compared): start and end time take no part *)
Definition Epoch_eq (a b : epoch_val) : bool :=
    list_eqb (fun x y => String.eqb (fst x) (fst y) && Qeq_bool (snd x) (snd y)) (ev_sizes a) (ev_sizes b) &&
    list_eqb (fun x y => String.eqb (fst (fst x)) (fst (fst y)) && String.eqb (snd (fst x)) (snd (fst y)) && Qeq_bool (snd x) (snd y))
             (ev_mig a) (ev_mig b).

(* AbstractCoalescent.__init__, completion of populations (compared with the expected text): populations of the sample that the
   demography does not know get size 1 from time 0; populations of the demography that the sample does not name are appended to the
   sample configuration with 0 lineages - in the iteration order of a Python set, which is the parameter `set_order` (any
   rearrangement of the missing names) *)
Definition Coalescent_initial_sizes (sample_names demography_names : list string) : list (string * Q) :=
    map (fun p => (p, 1%Q)) (filter (fun p => negb (existsb (String.eqb p) demography_names)) sample_names).
Definition Coalescent_unspecified (sample_names demography_names : list string) : list string :=
    filter (fun p => negb (existsb (String.eqb p) sample_names)) demography_names.
Definition Coalescent_completed_lineages (lineage_dict : list (string * Z)) (set_order : list string) : list (string * Z) :=
    lineage_dict ++ map (fun p => (p, 0%Z)) set_order.
