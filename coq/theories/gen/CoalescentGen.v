(* GENERATED FILE - DO NOT EDIT.  Regenerated on every run of the checks that depend on the routes of class Coalescent by
   /verif/translate/coalescent2coq.py (Python `ast`, fail-closed PIN of the method bodies) from phasegen/distributions.py.
   Theorems: proofs/GenCoalescentEquiv.v. *)
From Coq Require Import ZArith QArith List Arith Bool.
From PG Require Import base.Ops model.CoalModels model.StateSpace model.Rewards.
Import ListNotations.

Inductive space := LineageCounting | BlockCounting.
(* a request as it reaches PhaseTypeDistribution.moment / accumulate: the state space, the distribution's own reward, the order, the
   rewards, the window given on the call (None = the object's own), center, permute *)
Record route := mkRoute { r_space : space; r_own : reward; r_k : nat; r_rewards : list reward;
                          r_start : option Q; r_end : option Q; r_center : bool; r_permute : bool }.

(* Coalescent._get_dist: unit reward, lineage counting iff every reward supports it *)
Definition Coalescent_get_dist_space (rewards : list reward) : space := if choose_lc rewards then LineageCounting else BlockCounting.
(* Coalescent.moment *)
Definition Coalescent_moment (k : nat) (rewards : option (list reward)) (start_time end_time : option Q) (center permute : bool) : route :=
  let rewards := match rewards with None => repeat RTreeHeight k | Some r => r end in
  mkRoute (Coalescent_get_dist_space rewards) RUnit k rewards start_time end_time center permute.
(* Coalescent._raw_moment *)
Definition Coalescent_raw_moment (k : nat) (rewards : option (list reward)) (start_time end_time : option Q) : route :=
  Coalescent_moment k rewards start_time end_time false false.
(* Coalescent.accumulate (the end times are passed through) *)
Definition Coalescent_accumulate (k : nat) (rewards : option (list reward)) (center permute : bool) : route :=
  let rewards := match rewards with None => repeat RTreeHeight k | Some r => r end in
  mkRoute (Coalescent_get_dist_space rewards) RUnit k rewards None None center permute.
(* the distributions behind the properties: state space and own reward *)
Definition Coalescent_tree_height : space * reward := (LineageCounting, RTreeHeight).
Definition Coalescent_total_branch_length : space * reward := (LineageCounting, RTotalBranchLength).
Definition Coalescent_sfs : space * reward := (BlockCounting, RUnit).
Definition Coalescent_fsfs : space * reward := (BlockCounting, RUnit).
