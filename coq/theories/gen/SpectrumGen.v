(* GENERATED FILE - DO NOT EDIT.  Regenerated on every run of the checks that depend on the two-dimensional spectrum class by
   /verif/translate/spectrum2coq.py (Python `ast`, fail-closed PIN of the method bodies) from phasegen/spectrum.py.
   The theorems about it are in proofs/GenSpectrumEquiv.v.  Reading of the source: see the docstring of the translator. *)
From Coq Require Import List Arith Bool.
From PG Require Import base.Ops model.CoalModels model.Matrix gen.NpSfs.
Import ListNotations.

Section Gen.
  Context {T : Type} (OP : Ops T).

  (* SFS2.__init__: self.w *)
  Definition SFS2_w (n : nat) : nat := if Nat.eqb (n mod 2) 1 then n / 2 + 1 else n / 2.

  (* one round of the loop of SFS2.fold *)
  Definition SFS2_fold_round (n w : nat) (data : list (list T)) : list (list T) :=
    let left := firstn w data ++ mzero OP (n - w) n in
    let right := rev (skipn w data) ++ mzero OP w n in
    mtrans OP n (madd OP left right).

  (* SFS2.fold: `for _ in range(2)` *)
  Definition SFS2_fold (n : nat) (data : list (list T)) : list (list T) :=
    SFS2_fold_round n (SFS2_w n) (SFS2_fold_round n (SFS2_w n) data).

  (* SFS2.symmetrize *)
  Definition SFS2_symmetrize (n : nat) (data : list (list T)) : list (list T) := mhalf OP (madd OP data (mtrans OP n data)).
End Gen.
