(* GENERATED FILE - DO NOT EDIT.  Regenerated on every run of the checks that depend on the epoch machinery by
   /verif/translate/demography2coq.py (Python `ast`, fail-closed) from phasegen/demography.py.
   The theorems about it are in proofs/GenDemographyEquiv.v.
   Reading of the source: see the docstring of the translator. *)
From Coq Require Import String.
From Coq Require Import ZArith QArith List Arith Bool.
From PG Require Import base.Perm model.Loop gen.NpConfigs gen.ConfigsGen gen.NpDemography.
Import ListNotations.
Local Open Scope list_scope.

(* DiscreteDemographicEvent._broadcast: the first change time inside (start, end] that is > 0 becomes the end *)
Definition DiscreteDemographicEvent_broadcast (self_times : list Q) (epoch : epoch_val) : epoch_val :=
  let times := (filter (fun t_ => (((Qlt_bool (ev_start epoch) t_) && (le_end t_ (ev_end epoch))) && (Qlt_bool 0 t_))) self_times) in
  match times with [] => epoch | t0 :: _ => set_ev_end epoch (Some t0) end.

(* DiscreteRateChanges._apply: every change with start <= t < end, in ascending time; later values replace earlier ones *)
Definition DiscreteRateChanges_apply (self_times : list Q) (self_pop_sizes : list (Q * list (string * Q)))
           (self_migration_rates : list (Q * list (string * string * Q))) (epoch : epoch_val) : epoch_val :=
  fold_left (fun epoch t =>
    let epoch := set_ev_sizes epoch (sizes_union (ev_sizes epoch) (time_get t self_pop_sizes)) in
    set_ev_mig epoch (mig_union (ev_mig epoch) (time_get t self_migration_rates)))
    (filter (fun t_ => ((Qle_bool (ev_start epoch) t_) && (lt_end t_ (ev_end epoch)))) self_times) epoch.

(* Demography.epochs: the epochs the generator yields (at most `fuel` of them), for events whose classes provide ev_broadcast /
   ev_apply; the candidate epoch starts where the previous one ends, ALL events broadcast first, THEN all are applied *)
Section Generator.
  Variable Ev : Type.
  Variable ev_broadcast : Ev -> epoch_val -> epoch_val.
  Variable ev_apply : Ev -> epoch_val -> epoch_val.
  Variable events : list Ev.                 (* self.events after _prepare_events *)
  Fixpoint Demography_epochs_loop (fuel : nat) (prev : epoch_val) : list epoch_val :=
    match fuel with
    | O => []
    | S fuel' =>
        let epoch := Epoch_init (fin_end prev) None (Some (ev_sizes prev)) (Some (ev_mig prev)) in
        let epoch := fold_left (fun epoch e => ev_broadcast e epoch) events epoch in
        let epoch := fold_left (fun epoch e => ev_apply e epoch) events epoch in
        epoch :: (if is_inf (ev_end epoch) then [] else Demography_epochs_loop fuel' epoch)
    end.
  Definition Demography_epochs (pop_names : list string) (fuel : nat) : list epoch_val :=
    Demography_epochs_loop fuel
      (Epoch_init 0 (Some 0) (Some (map (fun p => (p, 1%Q)) pop_names))
                  (Some (map (fun k => (k, 0%Q)) (list_prod pop_names pop_names)))).
End Generator.

(* Demography.get_epochs over the list of epochs the generator yields *)
Section GetEpochs.
  Variable time : Q.
  Fixpoint get_epochs_while (iterator : list epoch_val) (epoch : epoch_val) {struct iterator} : list epoch_val * epoch_val :=
    if negb (Qle_bool (ev_start epoch) time && lt_end time (ev_end epoch)) then
      match iterator with
      | [] => (iterator, epoch)
      | epoch' :: iterator' => get_epochs_while iterator' epoch'
      end
    else (iterator, epoch).
End GetEpochs.
Definition Demography_get_epochs (self_epochs : list epoch_val) (t : list Q) : list epoch_val :=
  let t_sorted := sortK Qleb t in
  match self_epochs with
  | [] => []
  | epoch :: iterator =>
      let epochs := repeat ev_placeholder (length t_sorted) in
      let '(_, _, epochs) := fold_left (fun acc it_ =>
          let '(iterator, epoch, epochs) := acc in
          let '(i, time) := it_ in
          let '(iterator, epoch) := get_epochs_while time iterator epoch in
          (iterator, epoch, upd_at epochs i epoch)) (combine (seq 0 (length t_sorted)) t_sorted) (iterator, epoch, epochs) in
      gather ev_placeholder epochs (inv_perm (argsort Qleb t))
  end.

(* Demography.get_epoch *)
Definition Demography_get_epoch (self_epochs : list epoch_val) (t : Q) : epoch_val :=
  nth 0 (Demography_get_epochs self_epochs [t]) ev_placeholder.
