(* Hand-written companion of the GENERATED file gen/InferenceGen.v (see translate/inference2coq.py): the bookkeeping attributes of
   an Inference object.

     isrc            the model record of model/Inference.v (bounds, start values, params_inferred, loss_inferred, loss_runs,
                     bootstraps) with `result` and `dist_inferred` (as the parameters the distribution was built from)
     none_or_lt a b  `a is None or b < a` on optional losses (b is known to be present where it is used)
     min_first       min(results, key=lambda r: r.fun): the FIRST minimal element of a non-empty list
     boot_arg        the two forms of the argument of add_bootstrap                                                      *)
From Coq Require Import QArith List Bool.
From PG Require Import model.Inference.
Import ListNotations.

Record isrc := mkISrc {
  s_bounds : list (Q * Q);
  s_x0 : option (list Q);
  s_params : option (list Q);
  s_loss : option Q;
  s_loss_runs : list Q;
  s_boot : list (list Q);
  s_result : option oresult;
  s_dist : option (list Q)
}.
Definition set_s_params (s : isrc) v := mkISrc (s_bounds s) (s_x0 s) v (s_loss s) (s_loss_runs s) (s_boot s) (s_result s) (s_dist s).
Definition set_s_loss (s : isrc) v := mkISrc (s_bounds s) (s_x0 s) (s_params s) v (s_loss_runs s) (s_boot s) (s_result s) (s_dist s).
Definition set_s_loss_runs (s : isrc) v := mkISrc (s_bounds s) (s_x0 s) (s_params s) (s_loss s) v (s_boot s) (s_result s) (s_dist s).
Definition set_s_boot (s : isrc) v := mkISrc (s_bounds s) (s_x0 s) (s_params s) (s_loss s) (s_loss_runs s) v (s_result s) (s_dist s).
Definition set_s_result (s : isrc) v := mkISrc (s_bounds s) (s_x0 s) (s_params s) (s_loss s) (s_loss_runs s) (s_boot s) v (s_dist s).
Definition set_s_dist (s : isrc) v := mkISrc (s_bounds s) (s_x0 s) (s_params s) (s_loss s) (s_loss_runs s) (s_boot s) (s_result s) v.

Definition is_none {A} (o : option A) : bool := match o with None => true | Some _ => false end.
Definition none_or_lt (a b : option Q) : bool :=
  match a with
  | None => true
  | Some a' => match b with Some b' => if Qlt_le_dec b' a' then true else false | None => false end
  end.
Definition min_first (rs : oresult * list oresult) : oresult := argmin_first (fst rs) (snd rs).
Definition results_list (rs : oresult * list oresult) : list oresult := fst rs :: snd rs.
Definition res_x (r : option oresult) : option (list Q) := match r with Some r' => Some (r_x r') | None => None end.
Definition res_fun (r : option oresult) : option Q := match r with Some r' => Some (r_fun r') | None => None end.

Inductive boot_arg := BDict (p : list Q) | BInference (data : isrc).

(* the part of the record that model/Inference.v talks about *)
Definition to_model (s : isrc) : inference :=
  mkInf (s_bounds s) (s_x0 s) (s_params s) (s_loss s) (s_loss_runs s) (s_boot s).
