(* Hand-written companion of the GENERATED file gen/RewardsGen.v: the per-state meaning of the
   NumPy expressions that phasegen/rewards.py applies to `state_space.lineages`.

   `state_space.lineages` is an integer array of shape (k, L, D, B): state, locus, deme, block.  Every
   `_get` of rewards.py treats axis 0 (the state) pointwise: it is never reduced, indexed by anything but
   `:`, or mixed with another state's entry (the translator checks this and fails closed otherwise).  The
   translation therefore drops axis 0 and produces a function of ONE state, whose `lineages` is the
   3-dimensional nested list `lin s` ([locus][deme][block]); NumPy axis a of the source is axis a-1 here.

     np_sumK_A      sum over axis A of a rank-K nested list (a sum over several axes is applied from the
                    highest axis down, which is the order-independent NumPy meaning for integer arrays)
     np_getK_A x z  x[..., z, ...] on axis A of a rank-K list, z : Z with NumPy's wrap-around for -len <= z < 0
                    (an IndexError of the source is not modelled: out of range gives the default 0 / [])
     np_takeK_A     fancy indexing by a list of indices on axis A
     np_gt/lt/eq    comparison with an integer scalar, elementwise
     np_any1        np.any over the only axis of a rank-1 boolean list
     b2n            bool.astype(int)
   Vector addition pads the shorter argument (NumPy would raise on ragged input; state arrays are
   rectangular), so that nth distributes over sums without a shape hypothesis. *)
From Coq Require Import ZArith List Arith Bool.
From PG Require Import base.Ops model.CoalModels.
Import ListNotations.

Definition b2n (b : bool) : nat := if b then 1 else 0.

(* x[z] with NumPy's negative indices *)
Definition getZ {A : Type} (l : list A) (z : Z) (d : A) : A :=
  if (z <? 0)%Z then
    (if (Z.of_nat (length l) + z <? 0)%Z then d else nth (Z.to_nat (Z.of_nat (length l) + z)) l d)
  else nth (Z.to_nat z) l d.

Fixpoint vadd (u v : list nat) : list nat :=
  match u, v with
  | [], _ => v
  | _, [] => u
  | x :: u', y :: v' => (x + y) :: vadd u' v'
  end.
Fixpoint madd (a b : list (list nat)) : list (list nat) :=
  match a, b with
  | [], _ => b
  | _, [] => a
  | x :: a', y :: b' => vadd x y :: madd a' b'
  end.

(* ---- sums ---- *)
Definition np_sum1_0 (v : list nat) : nat := sum_nat v.
Definition np_sum2_1 (m : list (list nat)) : list nat := map sum_nat m.
Definition np_sum2_0 (m : list (list nat)) : list nat := fold_right vadd [] m.
Definition np_sum3_2 (a : list (list (list nat))) : list (list nat) := map (map sum_nat) a.
Definition np_sum3_1 (a : list (list (list nat))) : list (list nat) := map np_sum2_0 a.
Definition np_sum3_0 (a : list (list (list nat))) : list (list nat) := fold_right madd [] a.

(* ---- integer indexing ---- *)
Definition np_get1_0 (v : list nat) (z : Z) : nat := getZ v z 0.
Definition np_get2_0 (m : list (list nat)) (z : Z) : list nat := getZ m z [].
Definition np_get2_1 (m : list (list nat)) (z : Z) : list nat := map (fun r => getZ r z 0) m.
Definition np_get3_0 (a : list (list (list nat))) (z : Z) : list (list nat) := getZ a z [].
Definition np_get3_1 (a : list (list (list nat))) (z : Z) : list (list nat) := map (fun m => getZ m z []) a.
Definition np_get3_2 (a : list (list (list nat))) (z : Z) : list (list nat) :=
  map (map (fun r => getZ r z 0)) a.

(* ---- fancy indexing by an index array on the last axis ---- *)
Definition np_take3_2 (a : list (list (list nat))) (idx : list Z) : list (list (list nat)) :=
  map (map (fun r => map (fun z => getZ r z 0) idx)) a.

(* ---- comparisons with a scalar ---- *)
Definition np_gt0 (x c : nat) : bool := Nat.ltb c x.
Definition np_lt0 (x c : nat) : bool := Nat.ltb x c.
Definition np_eq0 (x c : nat) : bool := Nat.eqb x c.
Definition np_gt1 (v : list nat) (c : nat) : list bool := map (fun x => np_gt0 x c) v.
Definition np_lt1 (v : list nat) (c : nat) : list bool := map (fun x => np_lt0 x c) v.
Definition np_eq1 (v : list nat) (c : nat) : list bool := map (fun x => np_eq0 x c) v.

Definition np_any1 (v : list bool) : bool := existsb (fun b => b) v.
Definition np_all1 (v : list bool) : bool := forallb (fun b => b) v.
Definition np_astype_int1 (v : list bool) : list nat := map b2n v.

(* x[x < c] = 0 on a scalar per state *)
Definition np_mask_lt0 (x c : nat) : nat := if np_lt0 x c then 0 else x.
