(* Hand-written companion of the GENERATED file gen/TransitionGen.v: the meaning of the State accessors and in-place
   NumPy updates that the class Transition of phasegen/state_space.py uses (see translate/transition2coq.py).

     vlin / vlnk / vunl s l d b   source.lineages / linked / unlinked [l, d, b]   (unlinked = lineages - linked entry by entry)
     row_lin s l d                source.lineages[l, d]          (the block vector of one deme)
     upd3o a ol od ob f           a[sel] op= 1 where each of the three indices is Some i (an integer index) or None
                                  (`:` or a missing trailing index: the whole axis); f = pred / S
     updrow a l d v               a[l, d] = v
     st_set_lin / st_set_lnk      the copied state with its lineages / linked array replaced
     str_in a b                   Python `a in b` on strings (substring test)                                        *)
From Coq Require Import List Arith Bool String.
From PG Require Import base.Ops model.CoalModels model.StateSpace.
Import ListNotations.

Definition vlin (s : state) (l d b : nat) : nat := get3 (lin s) l d b.
Definition vlnk (s : state) (l d b : nat) : nat := get3 (lnk s) l d b.
Definition vunl (s : state) (l d b : nat) : nat := get3 (lin s) l d b - get3 (lnk s) l d b.
Definition row_lin (s : state) (l d : nat) : list nat := nth d (nth l (lin s) []) [].

Definition upd_opt {A : Type} (l : list A) (o : option nat) (f : A -> A) : list A :=
  match o with Some i => upd l i f | None => map f l end.
Definition upd3o (a : arr3) (ol od ob : option nat) (f : nat -> nat) : arr3 :=
  upd_opt a ol (fun m => upd_opt m od (fun r => upd_opt r ob f)).
Definition updrow (a : arr3) (l d : nat) (v : list nat) : arr3 :=
  upd a l (fun m => upd m d (fun _ => v)).

Definition st_set_lin (s : state) (a : arr3) : state := mkState a (lnk s).
Definition st_set_lnk (s : state) (a : arr3) : state := mkState (lin s) a.

Definition str_in (a b : string) : bool :=
  match index 0 a b with Some _ => true | None => false end.

Section ModelKind.
  Context {T : Type}.
  (* isinstance(model, StandardCoalescent) *)
  Definition is_standard (m : cmodel (T:=T)) : bool := match m with Kingman => true | _ => false end.
End ModelKind.
