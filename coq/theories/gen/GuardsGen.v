(* GENERATED FILE - DO NOT EDIT.  Regenerated on every run of the checks that depend on the argument guards by
   /verif/translate/guards2coq.py (Python `ast`, fail-closed) from phasegen/distributions.py and phasegen/state_space.py.
   The equivalence with the hand-written model (outcome of model/Validate.v) is proved in proofs/GenGuardsEquiv.v.
   Reading of the source: see the docstring of the translator. *)
From Coq Require Import ZArith QArith List Arith Bool.
From PG Require Import model.Validate.
Import ListNotations.
Local Open Scope nat_scope.

(* TreeHeightDistribution.__init__ (distributions.py) *)
Definition TreeHeightDistribution_init_verdict (start_time : Q) (end_time : option Q) : verdict :=
    if (lt0 start_time) then ValueErr else
    if (match end_time with Some x_ => (lt0 x_) | None => false end) then ValueErr else
    if (match end_time with Some x_ => (lt0 (x_ - start_time)) | None => false end) then ValueErr else
    Ok.

(* TreeHeightDistribution.cdf (distributions.py) *)
Definition TreeHeightDistribution_cdf_verdict (default_reward : bool) (t : list Q) : verdict :=
    if (negb default_reward) then NotImpl else
    if (existsb lt0 t) then ValueErr else
    Ok.

(* TreeHeightDistribution.quantile (distributions.py) *)
Definition TreeHeightDistribution_quantile_verdict (q expansion_factor : Q) : verdict :=
    if ((lt0 q) || (lt0 ((inject_Z 1) - q)))%bool then ValueErr else
    if (le0 (expansion_factor - (inject_Z 1))) then ValueErr else
    Ok.

(* PhaseTypeDistribution._accumulate (distributions.py) *)
Definition PhaseTypeDistribution__accumulate_verdict (end_times : list Q) : verdict :=
    if (existsb lt0 end_times) then ValueErr else
    Ok.

(* PhaseTypeDistribution.accumulate (distributions.py) *)
Definition PhaseTypeDistribution_accumulate_verdict (k n_rewards : nat) : verdict :=
    if (negb (Nat.eqb k n_rewards)) then ValueErr else
    if (Nat.eqb k 0) then Ok else
    Ok.

(* SFSDistribution.get_mutation_config (distributions.py) *)
Definition SFSDistribution_get_mutation_config_verdict (n_epochs len_config n : nat) (theta : Q) : verdict :=
    if (Nat.ltb 1 n_epochs) then NotImpl else
    if (lt0 theta) then ValueErr else
    if (negb (Nat.eqb len_config n)) then ValueErr else
    if (Qeq_bool theta (inject_Z 0)) then Ok else
    Ok.

(* BlockCountingStateSpace.__init__ (state_space.py) *)
Definition BlockCountingStateSpace_init_verdict (locus_config_n : option Z) : verdict :=
    if (match locus_config_n with Some x_ => ((1)%Z <? x_)%Z | None => false end) then NotImpl else
    Ok.

(* Transition.recombine (state_space.py) *)
Definition Transition_recombine_verdict (n_loci : Z) (r : Q) : verdict :=
    if (n_loci =? (1)%Z)%Z then Ok else
    if (lt0 r) then ValueErr else
    Ok.
