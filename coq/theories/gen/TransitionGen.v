(* GENERATED FILE - DO NOT EDIT.  Regenerated on every run of the checks that depend on the transition structure by
   /verif/translate/transition2coq.py (Python `ast`, fail-closed) from the class Transition of phasegen/state_space.py.
   The equivalence with the hand-written model model/StateSpace.v is proved in proofs/GenTransitionEquiv.v.

   Translated: Transition.migrate_unlinked, Transition.migrate_linked, Transition.migrate, Transition.coalesce, Transition.recombine, Transition.transit.
   Checked textually (their meaning is built into gen/NpTrans.v and the model): Transition.add_target, State.__hash__, State.__eq__, State.copy, State.is_absorbing, State.n_demes, State.n_loci, State.n_blocks, State.lineages, State.linked, State.unlinked.
   `if c: raise ...` statements skipped (the functions below give the value returned when no exception is raised):
     Transition.migrate_unlinked line 773: if base_rate < 0
     Transition.migrate_linked line 814: if base_rate < 0
     Transition.coalesce line 635: if any((size <= 0 for size in pop_sizes))
     Transition.recombine line 839: if r < 0
   Reading of the source: see the docstring of the translator. *)
From Coq Require Import ZArith List Arith Bool String.
From PG Require Import base.Ops model.CoalModels model.StateSpace gen.NpTrans.
Import ListNotations.
Local Open Scope nat_scope.

Section Gen.
  Context {T : Type} (OP : Ops T).

  (* Transition.migrate_unlinked *)
  Definition Transition_migrate_unlinked (lineage_config_n locus_config_n : nat) (P : params (T:=T)) (source : state) : targets (T:=T) :=
(let targets_1 := [] in
(let kind_2 := (if (Nat.eqb (n_loci source) 1) then "migration"%string else "unlinked_migration"%string) in
(let targets_21 := fold_left (fun targets_3 it_20 =>
let locus_4 := it_20 in
(let targets_19 := fold_left (fun targets_5 it_18 =>
let '(d1_6, d2_7) := it_18 in
(let targets_17 := fold_left (fun targets_8 it_16 =>
let block_9 := it_16 in
(if (andb (Nat.ltb 0 (vlin source locus_4 d1_6 block_9)) (Nat.ltb 0 (vunl source locus_4 d1_6 block_9))) then
(let target_10 := source in
(let target_11 := st_set_lin target_10 (upd3o (lin target_10) (Some locus_4) (Some d1_6) (Some block_9) pred) in
(let target_12 := st_set_lin target_11 (upd3o (lin target_11) (Some locus_4) (Some d2_7) (Some block_9) S) in
(let base_rate_13 := mig_rate OP P d1_6 d2_7 in
(let rate_14 := (omul OP base_rate_13 (oofN OP (vunl source locus_4 d1_6 block_9))) in
(let targets_15 := add_target OP targets_8 target_12 rate_14 in
targets_15))))))
else
targets_8)) (seq 0 (n_blocks source)) targets_5 in
targets_17)) (filter (fun x_ : nat * nat => negb (Nat.eqb (fst x_) (snd x_))) (list_prod (seq 0 (n_demes source)) (seq 0 (n_demes source)))) targets_3 in
targets_19)) (seq 0 (n_loci source)) targets_1 in
targets_21))).

  (* Transition.migrate_linked *)
  Definition Transition_migrate_linked (lineage_config_n locus_config_n : nat) (P : params (T:=T)) (source : state) : targets (T:=T) :=
(let targets_1 := [] in
(if (Nat.eqb (n_loci source) 1) then
targets_1
else
(let targets_20 := fold_left (fun targets_2 it_19 =>
let '(d1_3, d2_4) := it_19 in
(let targets_18 := fold_left (fun targets_5 it_17 =>
let block_6 := it_17 in
(if (andb (forallb (fun l_7 => (negb (Nat.eqb (vlin source l_7 d1_3 block_6) 0))) (seq 0 (n_loci source))) (forallb (fun l_8 => (Nat.ltb 0 (vlnk source l_8 d1_3 block_6))) (seq 0 (n_loci source)))) then
(let target_9 := source in
(let target_10 := st_set_lin target_9 (upd3o (lin target_9) None (Some d1_3) (Some block_6) pred) in
(let target_11 := st_set_lin target_10 (upd3o (lin target_10) None (Some d2_4) (Some block_6) S) in
(let target_12 := st_set_lnk target_11 (upd3o (lnk target_11) None (Some d1_3) (Some block_6) pred) in
(let target_13 := st_set_lnk target_12 (upd3o (lnk target_12) None (Some d2_4) (Some block_6) S) in
(let base_rate_14 := mig_rate OP P d1_3 d2_4 in
(let rate_15 := (omul OP base_rate_14 (oofN OP (vlnk source 0 d1_3 block_6))) in
(let targets_16 := add_target OP targets_5 target_13 rate_15 in
targets_16))))))))
else
targets_5)) (seq 0 (n_blocks source)) targets_2 in
targets_18)) (filter (fun x_ : nat * nat => negb (Nat.eqb (fst x_) (snd x_))) (list_prod (seq 0 (n_demes source)) (seq 0 (n_demes source)))) targets_1 in
targets_20))).

  (* Transition.migrate *)
  Definition Transition_migrate (lineage_config_n locus_config_n : nat) (P : params (T:=T)) (source : state) : targets (T:=T) :=
(dict_union (Transition_migrate_linked lineage_config_n locus_config_n P source) (Transition_migrate_unlinked lineage_config_n locus_config_n P source)).

  (* Transition.coalesce: conditions under which the source raises NotImplementedError *)
  Definition Transition_coalesce_not_implemented (lineage_config_n locus_config_n : nat) (P : params (T:=T)) (source : state) : bool :=
    (orb (orb (andb (andb (negb (Nat.eqb (n_loci source) 1)) (Nat.eqb (n_loci source) 2)) (negb (p_lc P))) (andb (andb (andb (negb (Nat.eqb (n_loci source) 1)) (Nat.eqb (n_loci source) 2)) (negb (negb (p_lc P)))) (negb (is_standard (p_model P))))) (andb (negb (Nat.eqb (n_loci source) 1)) (negb (Nat.eqb (n_loci source) 2)))).

  (* Transition.coalesce *)
  Definition Transition_coalesce (lineage_config_n locus_config_n : nat) (P : params (T:=T)) (source : state) : targets (T:=T) :=
(let targets_1 := [] in
(if (Nat.eqb (n_loci source) 1) then
(let locus_2 := 0 in
(let targets_16 := fold_left (fun targets_3 it_15 =>
let deme_4 := it_15 in
(let blocks_5 := (coalesce OP (p_model P) (row_lin source locus_2 deme_4)) in
(let targets_14 := fold_left (fun targets_6 it_13 =>
let '(block_7, rate_8) := it_13 in
(let target_9 := source in
(let target_10 := st_set_lin target_9 (updrow (lin target_9) locus_2 deme_4 block_7) in
(let time_scale_11 := (tscale_of OP P deme_4) in
(let targets_12 := add_target OP targets_6 target_10 (odiv OP rate_8 time_scale_11) in
targets_12))))) blocks_5 targets_3 in
targets_14))) (seq 0 (n_demes source)) targets_1 in
targets_16))
else
(if (Nat.eqb (n_loci source) 2) then
(let bins_23 := [("linked"%string, (fun d_17 b_18 => (vlnk source 0 d_17 b_18))); ("unlinked1"%string, (fun d_19 b_20 => (vunl source 0 d_19 b_20))); ("unlinked2"%string, (fun d_21 b_22 => (vunl source 1 d_21 b_22)))] in
(let targets_54 := fold_left (fun targets_24 it_53 =>
let deme_25 := it_53 in
(let time_scale_26 := (tscale_of OP P deme_25) in
(let targets_52 := fold_left (fun targets_27 it_51 =>
let '((class1_28, counts1_29), (class2_30, counts2_31)) := it_51 in
(let target_32 := source in
(if (String.eqb class1_28 class2_30) then
(if (existsb (fun b_33 => (Nat.ltb (counts1_29 deme_25 b_33) 2)) (seq 0 (n_blocks source))) then
targets_27
else
(let rate_34 := (get_rate_bk OP (p_model P) (counts1_29 deme_25 0) 2) in
(if (str_in "unlinked1"%string class1_28) then
(let target_35 := st_set_lin target_32 (upd3o (lin target_32) (Some 0) (Some deme_25) None pred) in
(let targets_36 := add_target OP targets_27 target_35 (odiv OP rate_34 time_scale_26) in
targets_36))
else
(if (str_in "unlinked2"%string class1_28) then
(let target_37 := st_set_lin target_32 (upd3o (lin target_32) (Some 1) (Some deme_25) None pred) in
(let targets_38 := add_target OP targets_27 target_37 (odiv OP rate_34 time_scale_26) in
targets_38))
else
(if (forallb (fun l_39 => (forallb (fun b_40 => (Nat.ltb 0 (vlnk source l_39 deme_25 b_40))) (seq 0 (n_blocks source)))) (seq 0 (n_loci source))) then
(let target_41 := st_set_lin target_32 (upd3o (lin target_32) None (Some deme_25) None pred) in
(let target_42 := st_set_lnk target_41 (upd3o (lnk target_41) None (Some deme_25) None pred) in
(let targets_43 := add_target OP targets_27 target_42 (odiv OP rate_34 time_scale_26) in
targets_43)))
else
targets_27)))))
else
(if (String.ltb class1_28 class2_30) then
(if (orb (Nat.ltb (counts1_29 deme_25 0) 1) (Nat.ltb (counts2_31 deme_25 0) 1)) then
targets_27
else
(let rate_44 := ((counts1_29 deme_25 0) * (counts2_31 deme_25 0)) in
(if (andb (orb (String.eqb "linked"%string class1_28) (String.eqb "linked"%string class2_30)) (orb (str_in "unlinked"%string class1_28) (str_in "unlinked"%string class2_30))) then
(let locus_45 := (if (orb (str_in "1"%string class1_28) (str_in "1"%string class2_30)) then 0 else 1) in
(if (Nat.ltb 1 (vlin target_32 locus_45 deme_25 0)) then
(let target_46 := st_set_lin target_32 (upd3o (lin target_32) (Some locus_45) (Some deme_25) (Some 0) pred) in
(let targets_47 := add_target OP targets_27 target_46 (odiv OP (oofN OP rate_44) time_scale_26) in
targets_47))
else
targets_27))
else
(if (forallb (fun l_48 => (Nat.ltb 0 (vunl source l_48 deme_25 0))) (seq 0 (n_loci source))) then
(let target_49 := st_set_lnk target_32 (upd3o (lnk target_32) None (Some deme_25) (Some 0) S) in
(let targets_50 := add_target OP targets_27 target_49 (odiv OP (oofN OP rate_44) time_scale_26) in
targets_50))
else
targets_27))))
else
targets_27)))) (list_prod bins_23 bins_23) targets_24 in
targets_52))) (seq 0 (n_demes source)) targets_1 in
targets_54))
else
[]))).

  (* Transition.recombine: conditions under which the source raises NotImplementedError *)
  Definition Transition_recombine_not_implemented (lineage_config_n locus_config_n : nat) (P : params (T:=T)) (state0 : state) : bool :=
    (andb (negb (Nat.eqb locus_config_n 1)) (negb (p_lc P))).

  (* Transition.recombine *)
  Definition Transition_recombine (lineage_config_n locus_config_n : nat) (P : params (T:=T)) (state0 : state) : targets (T:=T) :=
(let targets_1 := [] in
(let r_2 := (p_rec P) in
(if (Nat.eqb locus_config_n 1) then
targets_1
else
(if (p_lc P) then
(let targets_12 := fold_left (fun targets_3 it_11 =>
let deme_4 := it_11 in
(if (forallb (fun l_5 => (forallb (fun b_6 => (Nat.ltb 0 (vlnk state0 l_5 deme_4 b_6))) (seq 0 (n_blocks state0)))) (seq 0 (n_loci state0))) then
(let target_7 := state0 in
(let target_8 := st_set_lnk target_7 (upd3o (lnk target_7) None (Some deme_4) None pred) in
(let rate_9 := (omul OP r_2 (oofN OP (vlnk state0 0 deme_4 0))) in
(let targets_10 := add_target OP targets_3 target_8 rate_9 in
targets_10))))
else
targets_3)) (seq 0 (n_demes state0)) targets_1 in
targets_12)
else
[])))).

  (* Transition.transit *)
  Definition Transition_transit (lineage_config_n locus_config_n : nat) (P : params (T:=T)) (source : state) : targets (T:=T) :=
(let targets_1 := [] in
(let targets_2 := dict_union targets_1 (Transition_migrate lineage_config_n locus_config_n P source) in
(if (is_absorbing source) then
targets_2
else
(let targets_3 := dict_union targets_2 (Transition_coalesce lineage_config_n locus_config_n P source) in
(let targets_4 := dict_union targets_3 (Transition_recombine lineage_config_n locus_config_n P source) in
targets_4))))).
End Gen.
