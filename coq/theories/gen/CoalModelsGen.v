(* GENERATED FILE - DO NOT EDIT.  Regenerated on every run of the C14 check by
   /verif/translate/py2coq.py (Python `ast`, fail-closed) from phasegen/coalescent_models.py.
   The equivalence with the hand-written model model/CoalModels.v is proved in proofs/GenEquiv.v.

   Translated: CoalescentModel.get_rate, StandardCoalescent._get_timescale, StandardCoalescent._get_rate, StandardCoalescent._get_rate_block_counting, BetaCoalescent.__init__, BetaCoalescent._get_base_rate, BetaCoalescent._get_timescale, BetaCoalescent._get_rate, BetaCoalescent._get_rate_block_counting, DiracCoalescent.__init__, DiracCoalescent._get_timescale, DiracCoalescent._get_rate, DiracCoalescent._get_rate_block_counting.
   NOT translated (left to the differential test of C14 against the model): every `coalesce`,
   CoalescentModel.get_rate_block_counting (numpy index arithmetic), the __eq__ methods and the default
   values of constructor arguments.

   Conventions: int -> nat, float -> T (Q in the constructor guards), bool -> bool, Sequence[int] -> list nat;
   `self.x` is the parameter self_x (every method takes all value attributes stored by its class's __init__);
   an abstract method called on self is a function parameter; scipy / float functions are the fields of
   SP : special T (gen/Special.v).  int - int is a subtraction in nat only where an enclosing guard of the
   same function gives rhs <= lhs, otherwise it is computed in Z; ints meeting floats are injected with
   oofN / oofZ (the literals 0 and 1 with o0 and o1); `/` is odiv; ** is opow for an int exponent and
   sp_rpow for a float exponent; b[i] is nth i b 0 (an IndexError of the source is not modelled). *)
From Coq Require Import ZArith QArith List Arith Bool.
From PG Require Import base.Ops gen.Special.
Import ListNotations.
Local Open Scope nat_scope.

(* ---- constructor guards: true = the constructor raises ValueError ---- *)
Definition BetaCoalescent_init_raises (alpha : Q) (scale_time : bool) : bool :=
  (orb (Qltb alpha (1 # 1)%Q) (Qltb (2 # 1)%Q alpha)).

Definition DiracCoalescent_init_raises (psi : Q) (c : Q) (scale_time : bool) : bool :=
  (negb (andb (Qltb (0 # 1)%Q psi) (Qltb psi (1 # 1)%Q))).

Section Gen.
  Context {T : Type} (OP : Ops T) (SP : special T).

  (* CoalescentModel.get_rate *)
  Definition CoalescentModel_get_rate (self_get_rate : nat -> nat -> T) (s1 : nat) (s2 : nat) : T :=
    if (Nat.ltb s1 s2) then
      (o0 OP)
    else
      (self_get_rate s1 ((s1 + 1) - s2)).

  (* StandardCoalescent._get_timescale *)
  Definition StandardCoalescent_get_timescale (N : T) : T :=
    N.

  (* StandardCoalescent._get_rate *)
  Definition StandardCoalescent_get_rate (b : nat) (k : nat) : T :=
    if (Nat.eqb k 2) then
      (odiv OP (oofZ OP ((Z.of_nat b) * ((Z.of_nat b) - 1%Z)%Z)%Z) (oofN OP 2))
    else
      (o0 OP).

  (* StandardCoalescent._get_rate_block_counting *)
  Definition StandardCoalescent_get_rate_block_counting (n : nat) (b : list nat) (k : list nat) : T :=
    if (Nat.eqb (length b) 1) then
      (StandardCoalescent_get_rate (nth 0 b 0) (nth 0 k 0))
    else
      if (Nat.eqb (length b) 2) then
        if (andb (Nat.eqb (nth 0 k 0) 1) (Nat.eqb (nth 1 k 0) 1)) then
          (oofN OP ((nth 0 b 0) * (nth 1 b 0)))
        else
        (o0 OP)
      else
        (o0 OP).

  (* attributes stored by BetaCoalescent.__init__, in the order (self.scale_time, self.alpha) *)
  Definition BetaCoalescent_init_fields (alpha : T) (scale_time : bool) : bool * T :=
    (scale_time, alpha).

  (* BetaCoalescent._get_base_rate *)
  Definition BetaCoalescent_get_base_rate (self_scale_time : bool) (self_alpha : T) (b : nat) (k : nat) : T :=
    let rate := (odiv OP (sp_beta SP (osub OP (oofN OP k) self_alpha) (oadd OP (oofZ OP ((Z.of_nat b) - (Z.of_nat k))%Z) self_alpha)) (sp_beta SP self_alpha (osub OP (oofN OP 2) self_alpha))) in
    rate.

  (* BetaCoalescent._get_timescale *)
  Definition BetaCoalescent_get_timescale (self_scale_time : bool) (self_alpha : T) (N : T) : T :=
    if (negb self_scale_time) then
      N
    else
      let m := (oadd OP (o1 OP) (odiv OP (odiv OP (o1 OP) (sp_rpow SP (oofN OP 2) (osub OP self_alpha (o1 OP)))) (osub OP self_alpha (o1 OP)))) in
      let scale := (odiv OP (odiv OP (omul OP (sp_rpow SP m self_alpha) (sp_rpow SP N (osub OP self_alpha (o1 OP)))) self_alpha) (sp_beta SP (osub OP (oofN OP 2) self_alpha) self_alpha)) in
      scale.

  (* BetaCoalescent._get_rate *)
  Definition BetaCoalescent_get_rate (self_scale_time : bool) (self_alpha : T) (b : nat) (k : nat) : T :=
    if (orb (Nat.ltb k 1) (Nat.ltb b k)) then
      (o0 OP)
    else
      (omul OP (oofZ OP (sp_comb SP b k)) (BetaCoalescent_get_base_rate self_scale_time self_alpha b k)).

  (* BetaCoalescent._get_rate_block_counting *)
  Definition BetaCoalescent_get_rate_block_counting (self_scale_time : bool) (self_alpha : T) (n : nat) (b : list nat) (k : list nat) : T :=
    let combinations := (fold_right Z.mul 1%Z (map (fun x_ => (sp_comb SP (fst x_) (snd x_))) (combine b k))) in
    (omul OP (oofZ OP combinations) (BetaCoalescent_get_base_rate self_scale_time self_alpha n (fold_right Nat.add 0 k))).

  (* attributes stored by DiracCoalescent.__init__, in the order (self.psi, self.c, self.scale_time) *)
  Definition DiracCoalescent_init_fields (psi : T) (c : T) (scale_time : bool) : T * T * bool :=
    (psi, c, scale_time).

  (* DiracCoalescent._get_timescale *)
  Definition DiracCoalescent_get_timescale (self_psi : T) (self_c : T) (self_scale_time : bool) (N : T) : T :=
    if (negb self_scale_time) then
      N
    else
      (opow OP N 2).

  (* DiracCoalescent._get_rate *)
  Definition DiracCoalescent_get_rate (self_psi : T) (self_c : T) (self_scale_time : bool) (b : nat) (k : nat) : T :=
    let rate_binary := (StandardCoalescent_get_rate b k) in
    let p_psi := (sp_binom_pmf SP k b self_psi) in
    let rate_multi := (omul OP p_psi self_c) in
    (oadd OP rate_binary rate_multi).

  (* DiracCoalescent._get_rate_block_counting *)
  Definition DiracCoalescent_get_rate_block_counting (self_psi : T) (self_c : T) (self_scale_time : bool) (n : nat) (b : list nat) (k : list nat) : T :=
    let rate_binary := (StandardCoalescent_get_rate_block_counting n b k) in
    let p_psi := (oprod OP (map (fun i => (sp_binom_pmf SP (nth i k 0) (nth i b 0) self_psi)) (seq 0 (length k)))) in
    let p_psi :=
      if (Nat.ltb (fold_right Nat.add 0 b) n) then
        let p_psi := (omul OP p_psi (sp_binom_pmf SP 0 (n - (fold_right Nat.add 0 b)) self_psi)) in
        p_psi
      else
        p_psi in
    let rate_multi := (omul OP p_psi self_c) in
    let rate := (oadd OP rate_binary rate_multi) in
    rate.
End Gen.
