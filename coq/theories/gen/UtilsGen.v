(* GENERATED FILE - DO NOT EDIT.  Regenerated on every run of the checks that depend on the helpers of phasegen/utils.py by
   /verif/translate/utils2coq.py (Python `ast`, fail-closed PIN of the function bodies).  The theorems about it are in
   proofs/GenUtilsEquiv.v.  Reading of the source: see the docstring of the translator. *)
From Coq Require Import List Arith Bool.
Import ListNotations.

Section Gen.
  Context {A B : Type}.

  (* Pool().imap(func, data) and map(func, data): both yield func(x) for the items x of data IN THE ORDER of data *)
  Definition pool_imap (func : A -> B) (data : list A) : list B := map func data.
  Definition builtin_map (func : A -> B) (data : list A) : list B := map func data.
  (* tqdm(iterator, ...) yields the items of the iterator unchanged *)
  Definition tqdm (it : list B) : list B := it.

  (* parallelize *)
  Definition parallelize (func : A -> B) (data : list A) (parallelize pbar : bool) : list B :=
    let iterator := if (parallelize && Nat.ltb 1 (length data))%bool then pool_imap func data else builtin_map func data in
    let iterator := if pbar then tqdm iterator else iterator in
    iterator.

  (* takewhile_inclusive: `for item in iterator: yield item; if not predicate(item): break` *)
  Fixpoint takewhile_inclusive (predicate : A -> bool) (iterable : list A) : list A :=
    match iterable with
    | [] => []
    | item :: rest => item :: (if negb (predicate item) then [] else takewhile_inclusive predicate rest)
    end.

  (* take_n: `for _ in range(int(n)): yield next(iterator)`; next() on an exhausted iterator raises (None) *)
  Fixpoint take_n (iterable : list A) (n : nat) {struct n} : option (list A) :=
    match n with
    | O => Some []
    | S m => match iterable with
             | [] => None
             | x :: rest => match take_n rest m with Some r => Some (x :: r) | None => None end
             end
    end.
End Gen.
