(* Hand-written companion of the GENERATED file gen/CoalModelsGen.v.

   [special T] collects the external (SciPy / float) functions that
   phasegen/coalescent_models.py calls; the generated definitions are parametric in it.
     sp_beta x y          scipy.special.beta(x, y)
     sp_binom_pmf k n p   scipy.stats.binom.pmf(k, n, p)        (argument order of the call)
     sp_comb N k          scipy.special.comb(N, k, exact=True)
     sp_rpow x y          x ** y for a float exponent y
   [model_special] instantiates the two discrete ones by the closed forms of the hand-written
   model (model/CoalModels.v: binom_pmf, binom) - the same modelling assumption the model itself
   makes - and leaves Euler's Beta function and the real power as parameters. *)
From Coq Require Import ZArith QArith.
From PG Require Import base.Ops model.CoalModels.

Record special (T : Type) : Type := mkSpecial {
  sp_beta : T -> T -> T;
  sp_binom_pmf : nat -> nat -> T -> T;
  sp_comb : nat -> nat -> Z;
  sp_rpow : T -> T -> T
}.
Arguments sp_beta {T}. Arguments sp_binom_pmf {T}. Arguments sp_comb {T}. Arguments sp_rpow {T}.

Definition model_special {T : Type} (OP : Ops T) (B rp : T -> T -> T) : special T := {|
  sp_beta := B;
  sp_binom_pmf := fun k n p => binom_pmf OP p n k;
  sp_comb := binom;
  sp_rpow := rp
|}.

(* strict comparison of rationals as a boolean (constructor guards are translated over Q, the
   number type of model/Validate.v) *)
Definition Qltb (x y : Q) : bool := negb (Qle_bool y x).
