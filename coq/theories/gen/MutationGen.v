(* GENERATED FILE - DO NOT EDIT.  Regenerated on every run of the checks that depend on the mutation configurations by
   /verif/translate/mutation2coq.py (Python `ast`, fail-closed PIN of the method bodies) from phasegen/distributions.py and
   phasegen/state_space.py.  The reading of the pinned text IS the hand-written model (model/MutationProb.v, model/Mutation.v);
   proofs/GenMutationEquiv.v restates the theorems about it under the names of the source. *)
From Coq Require Import ZArith QArith List Arith Bool.
From PG Require Import base.Ops model.CoalModels model.Matrix model.Mutation model.MutationProb.
Import ListNotations.

Section Gen.
  Context {T : Type} (OP : Ops T).
  (* get_mutation_config after its guards, theta <> 0: S on all states, the reward vectors of the bins, alpha, the mask of non-absorbing states *)
  Definition SFSDistribution_get_mutation_config (Sm : mat (T:=T)) (Rs : list (vec (T:=T))) (alpha : vec (T:=T)) (non_absorbing : list bool)
             (theta : T) (config : list nat) : T := mutation_prob OP Sm Rs alpha non_absorbing theta config.
End Gen.
(* _get_configs(n, k): the configurations with k mutations for n lineages; StateSpace._get_partitions(n=k, k=bins) *)
Definition StateSpace_get_partitions (n k : nat) : list (list nat) := partitions_sum k n.
Definition UnfoldedSFSDistribution_get_configs (n k : nat) : list (list nat) := StateSpace_get_partitions k (n - 1).
Definition FoldedSFSDistribution_get_configs (n k : nat) : list (list nat) := StateSpace_get_partitions k (n / 2).
(* FoldedSFSDistribution._unfold *)
Definition FoldedSFSDistribution_unfold (n : nat) (config : list nat) : list (list nat) := unfold_config n config.
