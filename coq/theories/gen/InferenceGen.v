(* GENERATED FILE - DO NOT EDIT.  Regenerated on every run of the checks that depend on the bookkeeping of Inference by
   /verif/translate/inference2coq.py (Python `ast`, fail-closed) from phasegen/inference.py.
   The equivalence with the hand-written model (model/Inference.v) is proved in proofs/GenInferenceEquiv.v.

   Translated: Inference._run (from `results` on), add_run, add_runs, add_bootstrap, add_bootstraps.
   Skipped statements:
     _run line 394: n_success = sum([result.success for result in results]) (counting / logging)
     _run line 396: if n_success < self.n_runs: (counting / logging)
   Reading of the source: see the docstring of the translator. *)
From Coq Require Import QArith List Bool.
From PG Require Import model.Inference gen.NpInference.
Import ListNotations.

(* Inference._run, from `results` on (results = head :: tail is non-empty: x0 is always a start point) *)
Definition Inference_run_tail (self : isrc) (results : oresult * list oresult) : isrc :=
(let self_1 := set_s_result self (Some (min_first results)) in
(let self_2 := set_s_params self_1 (res_x (s_result self_1)) in
(let self_3 := set_s_loss self_2 (res_fun (s_result self_2)) in
(let self_4 := set_s_loss_runs self_3 (map r_fun (results_list results)) in
(let self_5 := set_s_dist self_4 (s_params self_4) in
self_5))))).

(* Inference.add_run (None = RuntimeError) *)
Definition Inference_add_run (self inference : isrc) : option isrc :=
(if is_none (s_loss inference) then None else
(let self_1 := set_s_loss_runs self ((s_loss_runs self) ++ (s_loss_runs inference)) in
(let self_6 := (if (none_or_lt (s_loss self_1) (s_loss inference)) then
(let self_2 := set_s_result self_1 (s_result inference) in
(let self_3 := set_s_params self_2 (s_params inference) in
(let self_4 := set_s_loss self_3 (s_loss inference) in
(let self_5 := set_s_dist self_4 (s_dist inference) in
self_5))))
 else self_1) in
Some self_6))).

(* Inference.add_runs: add_run for each element, in order; the first failure propagates *)
Fixpoint Inference_add_runs (self : isrc) (inferences : list isrc) : option isrc :=
  match inferences with
  | [] => Some self
  | inference :: rest => match Inference_add_run self inference with Some self_1 => Inference_add_runs self_1 rest | None => None end
  end.

(* Inference.add_bootstrap: the dictionary branch, and the Inference branch (None = RuntimeError / ValueError) *)
Definition Inference_add_bootstrap_dict (self : isrc) (data : list Q) : isrc := set_s_boot self (s_boot self ++ [data]).
Definition Inference_add_bootstrap (self : isrc) (data : boot_arg) : option isrc :=
  match data with
  | BDict p => Some (Inference_add_bootstrap_dict self p)
  | BInference data =>
(if is_none (s_loss data) then None else
match s_params data with Some p => Some (Inference_add_bootstrap_dict self p) | None => None end)
  end.

(* Inference.add_bootstraps *)
Fixpoint Inference_add_bootstraps (self : isrc) (data : list boot_arg) : option isrc :=
  match data with
  | [] => Some self
  | d :: rest => match Inference_add_bootstrap self d with Some self_1 => Inference_add_bootstraps self_1 rest | None => None end
  end.
