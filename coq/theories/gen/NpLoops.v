(* Hand-written companion of the GENERATED file gen/LoopsGen.v (see translate/loops2coq.py): epochs as seen by the
   propagation loops of phasegen/distributions.py.

     epoch_t           (end time, generator): end time None = infinity (the last epoch)
     gt_end u e        u > epoch.end_time   (false for an infinite end)
     end_or0 e         epoch.end_time as a number; read only where gt_end has just succeeded
     all_epochs        the iterator `self.demography.epochs` for finite epochs Ss followed by the last generator
     upd_nth l i v     l[i] = v                                                                                   *)
From Coq Require Import QArith List.
From PG Require Import base.Ops model.CoalModels model.Matrix.
Import ListNotations.

Section NpLoops.
  Context {T : Type}.
  Definition epoch_t : Type := (option Q * mat (T:=T))%type.
  Definition gt_end (u : Q) (e : option Q) : bool :=
    match e with Some en => if Qlt_le_dec en u then true else false | None => false end.
  Definition end_or0 (e : option Q) : Q := match e with Some en => en | None => 0 end.
  Definition all_epochs (Ss : list (Q * mat (T:=T))) (Slast : mat (T:=T)) : list epoch_t :=
    map (fun eS => (Some (fst eS), snd eS)) Ss ++ [(None, Slast)].
  Definition upd_nth {A : Type} (l : list A) (i : nat) (v : A) : list A := upd l i (fun _ => v).
End NpLoops.
