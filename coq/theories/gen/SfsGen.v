(* GENERATED FILE - DO NOT EDIT.  Regenerated on every run of the checks that depend on the assembly of the SFS statistics by
   /verif/translate/sfs2coq.py (Python `ast`, fail-closed PIN of the method bodies) from phasegen/distributions.py.
   The theorems about it are in proofs/GenSfsEquiv.v.  Reading of the source: see the docstring of the translator. *)
From Coq Require Import ZArith QArith List Arith Bool.
From PG Require Import base.Ops model.CoalModels model.Matrix gen.NpSfs.
Import ListNotations.

Section Gen.
  Context {T : Type} (OP : Ops T).
  Variable Rw : Type.
  Variable combined : Rw -> nat -> Rw.                          (* CombinedReward([r, self._get_sfs_reward(i)]) *)
  Variable pmoment : nat -> list Rw -> bool -> bool -> T.       (* PhaseTypeDistribution.moment(self, k, rewards, <times>, center, permute) *)
  Variable self_reward : Rw.

  (* UnfoldedSFSDistribution._get_indices / FoldedSFSDistribution._get_indices *)
  Definition UnfoldedSFSDistribution_get_indices (n : nat) : list nat := seq 1 (n - 1).
  Definition FoldedSFSDistribution_get_indices (n : nat) : list nat := seq 1 (n / 2).

  (* SFSDistribution._moment *)
  Definition SFSDistribution__moment (k i : nat) (rewards : list Rw) (center permute : bool) : T :=
    pmoment k (map (fun r => combined r i) rewards) center permute.

  (* SFSDistribution.moment: rewards default to k copies of self.reward *)
  Definition SFSDistribution_moment (n : nat) (indices : list nat) (k : nat) (rewards : option (list Rw)) (center permute : bool) : list T :=
    let rewards := match rewards with None => repeat self_reward k | Some r => r end in
    let moments := map (fun i => SFSDistribution__moment k i rewards center permute) indices in
    [o0 OP] ++ moments ++ repeat (o0 OP) (n - length moments).

  (* SFSDistribution.cov; mean = self.mean.data *)
  Definition SFSDistribution_cov (n : nat) (indices : list nat) (mean : list T) : list (list T) :=
    let idx := list_prod indices indices in
    let sfs_results := map (fun x => pmoment 2 [combined self_reward (fst x); combined self_reward (snd x)] false false) idx in
    let sfs := fold_left (fun m ir => mset2 m (fst (fst ir)) (snd (fst ir)) (snd ir)) (combine idx sfs_results) (mzero OP (n + 1) (n + 1)) in
    let m2 := outer OP mean mean in
    msub2 OP (mhalf OP (madd OP sfs (mtrans OP (n + 1) sfs))) m2.

  (* SFSDistribution.get_cov *)
  Definition SFSDistribution_get_cov (n i j : nat) : T :=
    if (Nat.eqb i 0 || Nat.eqb i n || Nat.eqb j 0 || Nat.eqb j n)%bool then o0 OP
    else pmoment 2 [combined self_reward i; combined self_reward j] true true.

  Variable paccumulate : nat -> list Rw -> bool -> bool -> list T.   (* super().accumulate(k, end_times, rewards, center, permute), end_times fixed *)

  (* SFSDistribution.get_accumulation: rewards default to k copies of self.reward *)
  Definition SFSDistribution_get_accumulation (k i : nat) (rewards : option (list Rw)) (center permute : bool) : list T :=
    let rewards := match rewards with None => repeat self_reward k | Some r => r end in
    paccumulate k (map (fun r => combined r i) rewards) center permute.

  (* SFSDistribution.accumulate: one row per entry of the spectrum, nt = len(end_times); the argument list unpacked into get_accumulation
     is [k, i, end_times, rewards, center, permute] in the order of its parameters *)
  Definition SFSDistribution_accumulate (n : nat) (indices : list nat) (nt k : nat) (rewards : option (list Rw)) (center permute : bool) : list (list T) :=
    let accumulation := map (fun i => SFSDistribution_get_accumulation k i rewards center permute) indices in
    [repeat (o0 OP) nt] ++ accumulation ++ repeat (repeat (o0 OP) nt) (n - length indices).
End Gen.
