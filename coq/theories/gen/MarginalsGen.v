(* GENERATED FILE - DO NOT EDIT.  Regenerated on every run of the checks that depend on the marginal distributions by
   /verif/translate/marginals2coq.py (Python `ast`, fail-closed PIN of the method bodies) from phasegen/distributions.py.
   The theorems about it are in proofs/GenMarginalsEquiv.v.  Reading of the source: see the docstring of the translator. *)
From Coq Require Import ZArith QArith List Arith Bool.
From PG Require Import base.Ops model.CoalModels model.Matrix.
Import ListNotations.

Section Gen.
  Context {T : Type} (OP : Ops T).
  Variable Rw : Type.
  Variable Pop : Type.                                          (* population names *)
  Variable comb_deme : Rw -> Pop -> Rw.                         (* CombinedReward([r, DemeReward(pop)]) *)
  Variable comb_locus : Rw -> nat -> Rw.                        (* CombinedReward([r, LocusReward(locus)]) *)
  Variable pmoment : Rw -> nat -> option (list Rw) -> bool -> T. (* <distribution with own reward r>.moment(k, rewards, center) *)
  Variable sqrt : T -> T.                                       (* x ** 0.5 *)

  (* PhaseTypeDistribution.mean / var / m2 / std of the distribution whose own reward is r *)
  Definition PhaseTypeDistribution_mean (r : Rw) : T := pmoment r 1 None true.
  Definition PhaseTypeDistribution_var (r : Rw) : T := pmoment r 2 None true.
  Definition PhaseTypeDistribution_m2 (r : Rw) : T := pmoment r 2 None false.
  Definition PhaseTypeDistribution_std (r : Rw) : T := sqrt (PhaseTypeDistribution_var r).

  (* MarginalDemeDistributions: demes[pop] is the distribution with own reward comb_deme r pop *)
  Definition MarginalDemeDistributions_demes (r : Rw) (pops : list Pop) : list (Pop * Rw) := map (fun pop => (pop, comb_deme r pop)) pops.
  Definition MarginalDemeDistributions_get_cov (r : Rw) (pop1 pop2 : Pop) : T :=
    pmoment r 2 (Some [comb_deme r pop1; comb_deme r pop2]) true.
  Definition MarginalDemeDistributions_cov (r : Rw) (pops : list Pop) : list (list T) :=
    map (fun p2 => map (fun p1 => MarginalDemeDistributions_get_cov r p1 p2) pops) pops.
  Definition MarginalDemeDistributions_get_corr (r : Rw) (pop1 pop2 : Pop) : T :=
    odiv OP (MarginalDemeDistributions_get_cov r pop1 pop2)
            (omul OP (PhaseTypeDistribution_std (comb_deme r pop1)) (PhaseTypeDistribution_std (comb_deme r pop2))).
  Definition MarginalDemeDistributions_corr (r : Rw) (pops : list Pop) : list (list T) :=
    map (fun p2 => map (fun p1 => MarginalDemeDistributions_get_corr r p1 p2) pops) pops.

  (* MarginalLocusDistributions: loci[l] is the distribution with own reward comb_locus r l *)
  Definition MarginalLocusDistributions_loci (r : Rw) (n_loci : nat) : list (nat * Rw) := map (fun l => (l, comb_locus r l)) (seq 0 n_loci).
  Definition MarginalLocusDistributions_get_cov (r : Rw) (locus1 locus2 : nat) : T :=
    pmoment r 2 (Some [comb_locus r locus1; comb_locus r locus2]) true.
  Definition MarginalLocusDistributions_cov (r : Rw) (n_loci : nat) : list (list T) :=
    map (fun j => map (fun i => MarginalLocusDistributions_get_cov r i j) (seq 0 n_loci)) (seq 0 n_loci).
  Definition MarginalLocusDistributions_get_corr (r : Rw) (locus1 locus2 : nat) : T :=
    odiv OP (MarginalLocusDistributions_get_cov r locus1 locus2)
            (omul OP (PhaseTypeDistribution_std (comb_locus r locus1)) (PhaseTypeDistribution_std (comb_locus r locus2))).
  Definition MarginalLocusDistributions_corr (r : Rw) (n_loci : nat) : list (list T) :=
    map (fun j => map (fun i => MarginalLocusDistributions_get_corr r i j) (seq 0 n_loci)) (seq 0 n_loci).

  (* TreeHeightDistribution.pdf *)
  Variable cdf : list Q -> list T.                              (* self.cdf *)
  Variable q99 : Q.                                             (* self.quantile(0.99) *)
  Definition pdf_x1 (dx t : Q) : Q := let y := t - dx / 2 in if Qlt_le_dec y 0 then 0 else y.
  Definition TreeHeightDistribution_pdf (ts : list Q) (dx : option Q) : list T :=
    let dx := match dx with None => q99 / (10000000000 # 1) | Some d => d end in
    let x1 := map (pdf_x1 dx) ts in
    let x2 := map (fun x => x + dx) x1 in
    map (fun ab => odiv OP (osub OP (fst ab) (snd ab)) (oofQ OP dx)) (combine (cdf x2) (cdf x1)).
End Gen.
