(* The real-number instance of the operations record: the semantic domain of the theorems. *)
From Coq Require Import ZArith Reals.
From PG Require Import base.Ops.

(* ---- the reals ---- *)
Definition OpsR : Ops R := {|
  o0 := 0%R; o1 := 1%R;
  oadd := Rplus; omul := Rmult; oopp := Ropp; oinv := Rinv;
  oofZ := IZR
|}.
