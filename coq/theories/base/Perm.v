(* Sorting, argsort and gather ("fancy indexing"), as used by the vectorised
   entry points of PhaseGen:

     t_sorted = np.sort(t)
     res[i]   = F(t_sorted[i])                      (the sorted loop)
     out      = res[np.argsort(np.argsort(t, kind='stable'))]

   Definitions only; proofs live in proofs/PermProofs.v. *)
From Coq Require Import List Arith Bool.
Import ListNotations.

Section Sort.
  Variable K : Type.
  Variable leb : K -> K -> bool.   (* total preorder on keys, as a boolean *)

  (* insert a (key, payload) pair into a list sorted by key; the new pair is
     placed BEFORE the first pair whose key is not strictly smaller, which makes
     [isort] (a right fold) stable *)
  Fixpoint insert {P : Type} (x : K * P) (l : list (K * P)) : list (K * P) :=
    match l with
    | [] => [x]
    | y :: l' => if leb (fst x) (fst y) then x :: y :: l' else y :: insert x l'
    end.

  Definition isort {P : Type} (l : list (K * P)) : list (K * P) :=
    fold_right insert [] l.

  Definition tagged (ts : list K) : list (K * nat) := combine ts (seq 0 (length ts)).

  (* np.sort *)
  Definition sortK (ts : list K) : list K := map fst (isort (tagged ts)).

  (* np.argsort(kind='stable') *)
  Definition argsort (ts : list K) : list nat := map snd (isort (tagged ts)).
End Sort.

Arguments insert {K} leb {P}.
Arguments isort {K} leb {P}.
Arguments tagged {K}.
Arguments sortK {K}.
Arguments argsort {K}.

(* x[p] for an index list p *)
Definition gather {A : Type} (d : A) (xs : list A) (p : list nat) : list A :=
  map (fun i => nth i xs d) p.

(* the inverse of a permutation, computed the way the repaired code does *)
Definition inv_perm (p : list nat) : list nat := argsort Nat.leb p.

(* The vectorised wrapper: evaluate [loop] on the sorted keys and scatter back.
   [loop] stands for the sorted loop of cdf/_accumulate/get_epochs and returns
   one result per sorted key. *)
Definition vectorised {K A : Type} (leb : K -> K -> bool) (d : A)
           (loop : list K -> list A) (ts : list K) : list A :=
  gather d (loop (sortK leb ts)) (inv_perm (argsort leb ts)).

(* What the code did before the repair (kept for the refutation witness). *)
Definition vectorised_buggy {K A : Type} (leb : K -> K -> bool) (d : A)
           (loop : list K -> list A) (ts : list K) : list A :=
  gather d (loop (sortK leb ts)) (argsort leb ts).
