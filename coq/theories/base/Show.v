(* Printing helpers for the correspondence check: rationals are printed as (numerator, denominator)
   pairs of Z so that Coq's number notations for Q never interfere with parsing. *)
From Coq Require Import ZArith QArith List.
Import ListNotations.

Definition showQ (q : Q) : Z * Z := let r := Qred q in (Qnum r, Zpos (Qden r)).
Definition showQs (l : list Q) : list (Z * Z) := map showQ l.
Definition showQss (l : list (list Q)) : list (list (Z * Z)) := map showQs l.
