(* The operations record over which the PhaseGen model is written once, and
   its three instances:
     OpsQ  exact rationals  - discrete layer of the correspondence check
     OpsF  binary64 floats  - numeric layer of the correspondence check
     OpsR  the reals        - what the theorems talk about                  *)
From Coq Require Import ZArith QArith List PrimFloat Uint63.
Import ListNotations.

Record Ops (T : Type) : Type := mkOps {
  o0 : T;
  o1 : T;
  oadd : T -> T -> T;
  omul : T -> T -> T;
  oopp : T -> T;
  oinv : T -> T;
  oofZ : Z -> T
}.
Arguments o0 {T}. Arguments o1 {T}. Arguments oadd {T}. Arguments omul {T}.
Arguments oopp {T}. Arguments oinv {T}. Arguments oofZ {T}.

Section Derived.
  Context {T : Type} (OP : Ops T).
  Definition osub (a b : T) : T := oadd OP a (oopp OP b).
  Definition odiv (a b : T) : T := omul OP a (oinv OP b).
  Definition oofN (n : nat) : T := oofZ OP (Z.of_nat n).
  Definition oofQ (q : Q) : T := odiv (oofZ OP (Qnum q)) (oofZ OP (Zpos (Qden q))).
  Fixpoint opow (a : T) (n : nat) : T :=
    match n with O => o1 OP | S n' => omul OP a (opow a n') end.
  Definition osum (l : list T) : T := fold_right (oadd OP) (o0 OP) l.
  Definition oprod (l : list T) : T := fold_right (omul OP) (o1 OP) l.
End Derived.

(* ---- exact rationals (kept reduced so that numerals stay small) ---- *)
Definition OpsQ : Ops Q := {|
  o0 := 0%Q; o1 := 1%Q;
  oadd := fun a b => Qred (Qplus a b);
  omul := fun a b => Qred (Qmult a b);
  oopp := Qopp;
  oinv := Qinv;
  oofZ := inject_Z
|}.

(* ---- binary64 ---- *)
Fixpoint float_of_pos (p : positive) : float :=
  match p with
  | xH => 1%float
  | xO p' => (2 * float_of_pos p')%float
  | xI p' => (2 * float_of_pos p' + 1)%float
  end.
Definition float_of_Z (z : Z) : float :=
  match z with
  | Z0 => 0%float
  | Zpos p => float_of_pos p
  | Zneg p => (- float_of_pos p)%float
  end.
Definition OpsF : Ops float := {|
  o0 := 0%float; o1 := 1%float;
  oadd := PrimFloat.add; omul := PrimFloat.mul;
  oopp := PrimFloat.opp;
  oinv := fun a => (1 / a)%float;
  oofZ := float_of_Z
|}.

