(* Denotation of the model's list matrices (model/Matrix.v at [OpsR]) as
   Mathematical Components matrices over the reals: every operation of
   Matrix.v computes the corresponding mathcomp operation, and preserves
   well-formedness (rectangular shape). *)
Require Import Reals Psatz QArith Qreals.
From mathcomp Require Import all_ssreflect all_algebra.
From PG Require Import analysis.Rstruct analysis.RSums.
From PG Require Import base.Ops base.OpsR model.Matrix.
Set Implicit Arguments. Unset Strict Implicit. Unset Printing Implicit Defensive.
Import GRing.Theory.
Local Open Scope ring_scope.

(* ------------------------------------------------------------------ *)
(* Standard-library list functions versus ssreflect's [seq] functions  *)

Lemma L_map A B (f : A -> B) l : List.map f l = map f l. Proof. by []. Qed.
Lemma L_seq a n : List.seq a n = iota a n. Proof. by []. Qed.
Lemma L_length A (l : list A) : length l = size l. Proof. by []. Qed.
Lemma L_app A (l1 l2 : list A) : app l1 l2 = l1 ++ l2. Proof. by []. Qed.
Lemma L_hd A (d : A) l : List.hd d l = head d l. Proof. by []. Qed.
Lemma L_nth A (d : A) l i : List.nth i l d = nth d l i.
Proof. by elim: l i => [|x l IH] [|i] //=. Qed.
Lemma L_repeat A (x : A) n : List.repeat x n = nseq n x.
Proof. by elim: n => //= n ->. Qed.
Lemma L_combine A B (a : list A) (b : list B) : List.combine a b = zip a b.
Proof. by elim: a b => [|x a IH] [|y b] //=; rewrite IH. Qed.
Lemma L_firstn A n (l : list A) : List.firstn n l = take n l.
Proof. by elim: n l => [|n IH] [|x l] //=; rewrite IH. Qed.
Lemma L_skipn A n (l : list A) : List.skipn n l = drop n l.
Proof. by elim: n l => [|n IH] [|x l] //=. Qed.
Lemma L_fold_left A B (f : A -> B -> A) l a :
  List.fold_left f l a = foldl f a l.
Proof. by elim: l a => //=. Qed.
Lemma L_flat_map A B (f : A -> list B) l :
  List.flat_map f l = flatten (map f l).
Proof. by elim: l => //= x l ->. Qed.
Lemma L_eqb i j : Nat.eqb i j = (i == j).
Proof. by elim: i j => [|i IH] [|j] //=; rewrite IH. Qed.

(* The rational-to-real conversion of the model is [Q2R]. *)
Lemma oofQE q : oofQ OpsR q = Q2R q. Proof. by []. Qed.

(* ------------------------------------------------------------------ *)
(* Denotations                                                         *)

Definition ent (A : seq (seq R)) (i j : nat) : R := nth 0 (nth [::] A i) j.

Definition mx_of (n m : nat) (A : seq (seq R)) : 'M[R]_(n, m) :=
  \matrix_(i, j) nth 0 (nth [::] A i) j.
Definition rv_of (n : nat) (v : seq R) : 'rV[R]_n := \row_j nth 0 v j.
Definition cv_of (n : nat) (v : seq R) : 'cV[R]_n := \col_i nth 0 v i.

Definition wf (n m : nat) (A : seq (seq R)) : Prop :=
  size A = n /\ all (fun r => size r == m) A.

Lemma mx_ofE n m A (i : 'I_n) (j : 'I_m) : mx_of n m A i j = ent A i j.
Proof. by rewrite mxE. Qed.
Lemma rv_ofE n v (i : 'I_1) (j : 'I_n) : rv_of n v i j = nth 0 v j.
Proof. by rewrite mxE. Qed.
Lemma cv_ofE n v (i : 'I_n) (j : 'I_1) : cv_of n v i j = nth 0 v i.
Proof. by rewrite mxE. Qed.

Lemma mx_of_eq n m A B :
  (forall i j, (i < n)%N -> (j < m)%N -> ent A i j = ent B i j) ->
  mx_of n m A = mx_of n m B.
Proof. by move=> H; apply/matrixP => i j; rewrite !mx_ofE H. Qed.

Lemma wf_size n m A : wf n m A -> size A = n. Proof. by case. Qed.

Lemma wf_row n m A i : wf n m A -> (i < n)%N -> size (nth [::] A i) = m.
Proof.
case=> <- /all_nthP H iA; exact/eqP/H.
Qed.

Lemma wf_row_any n m A i :
  wf n m A -> size (nth [::] A i) = (if (i < n)%N then m else 0%N).
Proof.
move=> Awf; case: ltnP => iN; first exact: wf_row Awf iN.
by rewrite nth_default // (wf_size Awf).
Qed.

Lemma wf_intro n m A :
  size A = n -> (forall i, (i < n)%N -> size (nth [::] A i) = m) -> wf n m A.
Proof.
move=> sA H; split=> //; apply/(all_nthP [::]) => i; rewrite sA => iN.
by rewrite H.
Qed.

(* Two well-formed lists with the same denotation are equal. *)
Lemma mx_of_inj n m A B : wf n m A -> wf n m B ->
  mx_of n m A = mx_of n m B -> A = B.
Proof.
move=> Awf Bwf AB.
apply: (@eq_from_nth _ [::]); first by rewrite (wf_size Awf) (wf_size Bwf).
move=> i; rewrite (wf_size Awf) => iN.
apply: (@eq_from_nth _ 0); first by rewrite (wf_row Awf iN) (wf_row Bwf iN).
move=> j; rewrite (wf_row Awf iN) => jM.
by move/matrixP/(_ (Ordinal iN) (Ordinal jM)): AB; rewrite !mxE.
Qed.

Lemma rv_of_inj n a b : size a = n -> size b = n -> rv_of n a = rv_of n b -> a = b.
Proof.
move=> sa sb ab; apply: (@eq_from_nth _ 0); first by rewrite sa sb.
move=> j; rewrite sa => jN.
by move/matrixP/(_ ord0 (Ordinal jN)): ab; rewrite !mxE.
Qed.

Lemma tr_rv_of n v : (rv_of n v)^T = cv_of n v.
Proof. by apply/matrixP => i j; rewrite !mxE. Qed.
Lemma tr_cv_of n v : (cv_of n v)^T = rv_of n v.
Proof. by apply/matrixP => i j; rewrite !mxE. Qed.

(* ------------------------------------------------------------------ *)
(* Constants: zero, identity, diagonal                                 *)

Lemma vzeroE n : vzero OpsR n = nseq n (0 : R).
Proof. by rewrite /vzero L_repeat. Qed.

Lemma mzeroE n m : mzero OpsR n m = nseq n (nseq m (0 : R)).
Proof. by rewrite /mzero L_repeat vzeroE. Qed.

Lemma ent_mzero n m i j : ent (mzero OpsR n m) i j = 0.
Proof.
rewrite /ent mzeroE nth_nseq; case: ifP => _; last by rewrite nth_nil.
by rewrite nth_nseq; case: ifP.
Qed.

Lemma wf_mzero n m : wf n m (mzero OpsR n m).
Proof.
rewrite mzeroE; split; first by rewrite size_nseq.
by apply/allP => r /nseqP [-> _]; rewrite size_nseq.
Qed.

Theorem mx_of_mzero n m n' m' : mx_of n m (mzero OpsR n' m') = 0.
Proof. by apply/matrixP => i j; rewrite mx_ofE ent_mzero mxE. Qed.

Lemma unit_vecE n i :
  unit_vec OpsR n i = [seq (if i == j then 1 else 0 : R) | j <- iota 0 n].
Proof.
by rewrite /unit_vec L_map L_seq; apply: eq_map => j; rewrite L_eqb.
Qed.

Lemma midE n : mid OpsR n = [seq unit_vec OpsR n i | i <- iota 0 n].
Proof. by []. Qed.

Lemma wf_mid n : wf n n (mid OpsR n).
Proof.
apply: wf_intro; first by rewrite midE size_map size_iota.
move=> i iN; rewrite midE (nth_map 0%N) ?size_iota // unit_vecE.
by rewrite size_map size_iota.
Qed.

Lemma ent_mid n i j : (i < n)%N -> (j < n)%N ->
  ent (mid OpsR n) i j = (i == j)%:R.
Proof.
move=> iN jN; rewrite /ent midE (nth_map 0%N) ?size_iota // unit_vecE.
rewrite (nth_map 0%N) ?size_iota // !nth_iota // !add0n.
by case: eqP.
Qed.

Theorem mx_of_mid n : mx_of n n (mid OpsR n) = 1%:M.
Proof. by apply/matrixP => i j; rewrite mx_ofE ent_mid // mxE. Qed.

Lemma diagmE (d : seq R) :
  diagm OpsR d =
  [seq [seq (if ix.1 == j then ix.2 else 0) | j <- iota 0 (size d)]
  | ix <- zip (iota 0 (size d)) d].
Proof.
rewrite /diagm L_map L_combine L_seq L_length; apply: eq_map => ix.
by rewrite L_map; apply: eq_map => j; rewrite L_eqb.
Qed.

Lemma wf_diagm n (d : seq R) : size d = n -> wf n n (diagm OpsR d).
Proof.
move=> sd; rewrite diagmE sd.
apply: wf_intro; first by rewrite size_map size_zip size_iota sd minnn.
move=> i iN; rewrite (nth_map (0%N, 0)) ?size_zip ?size_iota ?sd ?minnn //.
by rewrite size_map size_iota.
Qed.

Lemma ent_diagm (d : seq R) i j : (i < size d)%N -> (j < size d)%N ->
  ent (diagm OpsR d) i j = if i == j then nth 0 d i else 0.
Proof.
move=> iN jN; rewrite /ent diagmE.
rewrite (nth_map (0%N, 0)) ?size_zip ?size_iota ?minnn //.
rewrite (nth_map 0%N) ?size_iota // nth_zip ?size_iota //=.
by rewrite !nth_iota // !add0n.
Qed.

Theorem mx_of_diagm n (d : seq R) :
  size d = n -> mx_of n n (diagm OpsR d) = diag_mx (rv_of n d).
Proof.
move=> sd; apply/matrixP => i j.
rewrite mx_ofE ent_diagm ?sd // !mxE -val_eqE /=.
by case: (_ == _); rewrite ?mulr1n ?mulr0n.
Qed.

(* ------------------------------------------------------------------ *)
(* Addition and scaling                                                *)

Lemma vaddE (a b : seq R) :
  vadd OpsR a b = [seq xy.1 + xy.2 | xy <- zip a b].
Proof. by rewrite /vadd L_map L_combine. Qed.

Lemma size_vadd n (a b : seq R) :
  size a = n -> size b = n -> size (vadd OpsR a b) = n.
Proof. by move=> sa sb; rewrite vaddE size_map size_zip sa sb minnn. Qed.

Lemma nth_vadd (a b : seq R) j : size a = size b ->
  nth 0 (vadd OpsR a b) j = nth 0 a j + nth 0 b j.
Proof.
rewrite vaddE; elim: a b j => [|x a IH] [|y b] [|j] //=; rewrite ?addr0 //.
by case=> ab; apply: IH.
Qed.

Lemma vscaleE (c : R) (a : seq R) : vscale OpsR c a = [seq c * x | x <- a].
Proof. by []. Qed.

Lemma size_vscale (c : R) a : size (vscale OpsR c a) = size a.
Proof. by rewrite vscaleE size_map. Qed.

Lemma nth_vscale (c : R) a j : nth 0 (vscale OpsR c a) j = c * nth 0 a j.
Proof.
rewrite vscaleE; elim: a j => [|x a IH] [|j] //=; by rewrite mulr0.
Qed.

Theorem rv_of_vadd n a b : size a = n -> size b = n ->
  rv_of n (vadd OpsR a b) = rv_of n a + rv_of n b.
Proof.
by move=> sa sb; apply/matrixP => i j; rewrite !mxE nth_vadd // sa sb.
Qed.

Theorem rv_of_vscale n c a : rv_of n (vscale OpsR c a) = c *: rv_of n a.
Proof. by apply/matrixP => i j; rewrite !mxE nth_vscale. Qed.

Theorem cv_of_vadd n a b : size a = n -> size b = n ->
  cv_of n (vadd OpsR a b) = cv_of n a + cv_of n b.
Proof.
by move=> sa sb; apply/matrixP => i j; rewrite !mxE nth_vadd // sa sb.
Qed.

Theorem cv_of_vscale n c a : cv_of n (vscale OpsR c a) = c *: cv_of n a.
Proof. by apply/matrixP => i j; rewrite !mxE nth_vscale. Qed.

Lemma maddE (A B : seq (seq R)) :
  madd OpsR A B = [seq vadd OpsR rs.1 rs.2 | rs <- zip A B].
Proof. by rewrite /madd L_map L_combine. Qed.

Lemma nth_madd (A B : seq (seq R)) i : size A = size B ->
  nth [::] (madd OpsR A B) i = vadd OpsR (nth [::] A i) (nth [::] B i).
Proof.
rewrite maddE; elim: A B i => [|x A IH] [|y B] [|i] //=.
by case=> ab; apply: IH.
Qed.

Lemma wf_madd n m A B : wf n m A -> wf n m B -> wf n m (madd OpsR A B).
Proof.
move=> Awf Bwf; apply: wf_intro.
  by rewrite maddE size_map size_zip (wf_size Awf) (wf_size Bwf) minnn.
move=> i iN; rewrite nth_madd ?(wf_size Awf) ?(wf_size Bwf) //.
by apply: size_vadd; [exact: wf_row Awf iN | exact: wf_row Bwf iN].
Qed.

Theorem mx_of_madd n m A B : wf n m A -> wf n m B ->
  mx_of n m (madd OpsR A B) = mx_of n m A + mx_of n m B.
Proof.
move=> Awf Bwf; apply/matrixP => i j; rewrite !mxE.
rewrite nth_madd ?(wf_size Awf) ?(wf_size Bwf) // nth_vadd //.
by rewrite (wf_row Awf) // (wf_row Bwf).
Qed.

Lemma mscaleE (c : R) (A : seq (seq R)) :
  mscale OpsR c A = [seq vscale OpsR c r | r <- A].
Proof. by []. Qed.

Lemma nth_mscale c (A : seq (seq R)) i :
  nth [::] (mscale OpsR c A) i = vscale OpsR c (nth [::] A i).
Proof. by rewrite mscaleE; elim: A i => [|x A IH] [|i] //=. Qed.

Lemma wf_mscale n m c A : wf n m A -> wf n m (mscale OpsR c A).
Proof.
move=> Awf; apply: wf_intro; first by rewrite mscaleE size_map (wf_size Awf).
by move=> i iN; rewrite nth_mscale size_vscale (wf_row Awf).
Qed.

Theorem mx_of_mscale n m c A : mx_of n m (mscale OpsR c A) = c *: mx_of n m A.
Proof. by apply/matrixP => i j; rewrite !mxE nth_mscale nth_vscale. Qed.

(* ------------------------------------------------------------------ *)
(* Inner product (a left fold) as a finite sum                         *)

Lemma foldl_sum (I : Type) (f : I -> R) (s : seq I) (z : R) :
  foldl (fun acc x => acc + f x) z s = z + \sum_(x <- s) f x.
Proof.
elim: s z => [|x s IH] z /=; first by rewrite big_nil addr0.
by rewrite IH big_cons addrA.
Qed.

Lemma dotE (a b : seq R) : dot OpsR a b = \sum_(xy <- zip a b) xy.1 * xy.2.
Proof.
rewrite /dot L_fold_left L_combine.
by rewrite (foldl_sum (fun xy : R * R => xy.1 * xy.2)) add0r.
Qed.

Lemma sum_zip n (a b : seq R) : (minn (size a) (size b) <= n)%N ->
  \sum_(xy <- zip a b) xy.1 * xy.2 = \sum_(k < n) nth 0 a k * nth 0 b k.
Proof.
elim: n a b => [|n IH] [|x a] [|y b] //=; rewrite ?minnSS ?big_nil ?big_ord0 //.
- by rewrite big1 // => k _; rewrite nth_nil mul0r.
- by rewrite big1 // => k _; rewrite nth_nil mul0r.
- by rewrite big1 // => k _; rewrite nth_nil mulr0.
rewrite ltnS => ab; rewrite big_cons big_ord_recl /=; congr (_ + _).
exact: IH.
Qed.

(* [zip] truncates to the shorter list; with the default 0 the sum may be
   taken up to any bound that is at least the length of the shorter one. *)
Theorem dot_sum_gen n (a b : seq R) : (minn (size a) (size b) <= n)%N ->
  dot OpsR a b = \sum_(k < n) nth 0 a k * nth 0 b k.
Proof. by move=> ab; rewrite dotE (sum_zip ab). Qed.

Theorem dot_sum n (a b : seq R) : size a = n -> size b = n ->
  dot OpsR a b = \sum_(k < n) nth 0 a k * nth 0 b k.
Proof. by move=> sa sb; apply: dot_sum_gen; rewrite sa sb minnn. Qed.

Theorem dot_mulmx n (a b : seq R) : size a = n -> size b = n ->
  dot OpsR a b = (rv_of n a *m cv_of n b) ord0 ord0.
Proof.
move=> sa sb; rewrite (dot_sum sa sb) mxE.
by apply: eq_bigr => k _; rewrite !mxE.
Qed.

Theorem dot_mulmx_gen n (a b : seq R) : (minn (size a) (size b) <= n)%N ->
  dot OpsR a b = (rv_of n a *m cv_of n b) ord0 ord0.
Proof.
move=> ab; rewrite (dot_sum_gen ab) mxE.
by apply: eq_bigr => k _; rewrite !mxE.
Qed.

(* ------------------------------------------------------------------ *)
(* Transposition                                                       *)

Lemma transpose_auxE m (A : seq (seq R)) :
  transpose_aux OpsR m A = [seq [seq nth 0 row k | row <- A] | k <- iota 0 m].
Proof.
elim: m => [|m IH] //; rewrite -[in RHS]addn1 iotaD map_cat /= IH L_app add0n.
by congr (_ ++ [:: _]); rewrite L_map; apply: eq_map => row; rewrite L_nth.
Qed.

Lemma transposeE (A : seq (seq R)) :
  transpose OpsR A =
  [seq [seq nth 0 row k | row <- A] | k <- iota 0 (size (head [::] A))].
Proof. by rewrite /transpose transpose_auxE. Qed.

Lemma wf_head n m A : wf n m A -> (0 < n)%N -> size (head [::] A) = m.
Proof. by move=> Awf n0; rewrite -nth0 (wf_row Awf). Qed.

Lemma size_transpose n m A : wf n m A -> (0 < n)%N ->
  size (transpose OpsR A) = m.
Proof. by move=> Awf n0; rewrite transposeE size_map size_iota (wf_head Awf). Qed.

Lemma nth_transpose n m A j : wf n m A -> (0 < n)%N -> (j < m)%N ->
  nth [::] (transpose OpsR A) j = [seq nth 0 row j | row <- A].
Proof.
move=> Awf n0 jM; rewrite transposeE (wf_head Awf n0).
by rewrite (nth_map 0%N) ?size_iota // nth_iota.
Qed.

(* For n = 0 the list [A] is empty and so is its transpose: the shape is
   only preserved when there is at least one row (or no column). *)
Lemma wf_transpose n m A : wf n m A -> (0 < n)%N || (m == 0%N) ->
  wf m n (transpose OpsR A).
Proof.
move=> Awf; case: (posnP n) => [n0 /= /eqP m0|n0 _].
  have A0 : A = [::] by apply: size0nil; rewrite (wf_size Awf).
  by rewrite A0 m0.
apply: wf_intro; first exact: size_transpose Awf n0.
by move=> j jM; rewrite (nth_transpose Awf) // size_map (wf_size Awf).
Qed.

Lemma ent_transpose n m A i j : wf n m A -> (i < n)%N -> (j < m)%N ->
  ent (transpose OpsR A) j i = ent A i j.
Proof.
move=> Awf iN jM; have n0 : (0 < n)%N by apply: leq_ltn_trans iN.
rewrite /ent (nth_transpose Awf) // (nth_map [::]) //.
by rewrite (wf_size Awf).
Qed.

Theorem mx_of_transpose n m A : wf n m A ->
  mx_of m n (transpose OpsR A) = (mx_of n m A)^T.
Proof.
by move=> Awf; apply/matrixP => j i; rewrite !mxE -!/(ent _ _ _) (ent_transpose Awf).
Qed.

(* ------------------------------------------------------------------ *)
(* Products                                                            *)

Lemma mmulE (A B : seq (seq R)) :
  mmul OpsR A B =
  [seq [seq dot OpsR row col | col <- transpose OpsR B] | row <- A].
Proof. by []. Qed.

Lemma mvecE (A : seq (seq R)) v : mvec OpsR A v = [seq dot OpsR row v | row <- A].
Proof. by []. Qed.

Lemma size_mvec A v : size (mvec OpsR A v) = size A.
Proof. by rewrite mvecE size_map. Qed.

Lemma nth_mvec n m A v i : wf n m A -> size v = m ->
  nth 0 (mvec OpsR A v) i = \sum_(k < m) ent A i k * nth 0 v k.
Proof.
move=> Awf sv; rewrite mvecE; case: (ltnP i n) => iN.
  rewrite (nth_map [::]) ?(wf_size Awf) //.
  by rewrite (dot_sum (wf_row Awf iN) sv).
rewrite nth_default ?size_map ?(wf_size Awf) //.
rewrite big1 // => k _; rewrite /ent (@nth_default _ _ A) ?(wf_size Awf) //.
by rewrite nth_nil mul0r.
Qed.

Theorem cv_of_mvec n m A v : wf n m A -> size v = m ->
  cv_of n (mvec OpsR A v) = mx_of n m A *m cv_of m v.
Proof.
move=> Awf sv; apply/matrixP => i j; rewrite !mxE (nth_mvec _ Awf sv).
by apply: eq_bigr => k _; rewrite !mxE.
Qed.

Lemma nth_vmat n m A v j : wf n m A -> size v = n -> (j < m)%N ->
  nth 0 (vmat OpsR v A) j = \sum_(k < n) nth 0 v k * ent A k j.
Proof.
move=> Awf sv jM; rewrite /vmat; case: (posnP n) => n0.
  have A0 : A = [::] by apply: size0nil; rewrite (wf_size Awf).
  by rewrite A0 /= nth_nil n0 big_ord0.
have Twf : wf m n (transpose OpsR A) by apply: wf_transpose Awf _; rewrite n0.
rewrite (nth_mvec _ Twf sv); apply: eq_bigr => k _.
by rewrite (ent_transpose Awf) // mulrC.
Qed.

Lemma size_vmat n m A v : wf n m A -> (0 < n)%N -> size (vmat OpsR v A) = m.
Proof. by move=> Awf n0; rewrite /vmat size_mvec (size_transpose Awf). Qed.

Theorem rv_of_vmat n m A v : wf n m A -> size v = n ->
  rv_of m (vmat OpsR v A) = rv_of n v *m mx_of n m A.
Proof.
move=> Awf sv; apply/matrixP => i j; rewrite !mxE (nth_vmat Awf sv) //.
by apply: eq_bigr => k _; rewrite !mxE.
Qed.

Lemma ent_mmul n m p A B i k : wf n m A -> wf m p B -> (k < p)%N ->
  ent (mmul OpsR A B) i k = \sum_(j < m) ent A i j * ent B j k.
Proof.
move=> Awf Bwf kP; rewrite /ent mmulE; case: (ltnP i n) => iN; last first.
  rewrite (@nth_default _ _ (map _ _)) ?size_map ?(wf_size Awf) // nth_nil.
  rewrite big1 // => j _; rewrite (@nth_default _ _ A) ?(wf_size Awf) //.
  by rewrite nth_nil mul0r.
rewrite (nth_map [::]) ?(wf_size Awf) //; case: (posnP m) => m0.
  have B0 : B = [::] by apply: size0nil; rewrite (wf_size Bwf).
  by rewrite B0 /= nth_nil m0 big_ord0.
have Twf : wf p m (transpose OpsR B) by apply: wf_transpose Bwf _; rewrite m0.
rewrite (nth_map [::]) ?(wf_size Twf) //.
rewrite (dot_sum (wf_row Awf iN) (wf_row Twf kP)); apply: eq_bigr => j _.
by rewrite -!/(ent _ _ _) (ent_transpose Bwf).
Qed.

Lemma wf_mmul n m p A B : wf n m A -> wf m p B -> (0 < m)%N || (p == 0%N) ->
  wf n p (mmul OpsR A B).
Proof.
move=> Awf Bwf mp; have Twf := wf_transpose Bwf mp.
apply: wf_intro; first by rewrite mmulE size_map (wf_size Awf).
move=> i iN; rewrite mmulE (nth_map [::]) ?(wf_size Awf) //.
by rewrite size_map (wf_size Twf).
Qed.

Lemma wf_mmul_sq n A B : wf n n A -> wf n n B -> wf n n (mmul OpsR A B).
Proof. by move=> Awf Bwf; apply: wf_mmul Awf Bwf _; case: (n). Qed.

Theorem mx_of_mmul n m p A B : wf n m A -> wf m p B ->
  mx_of n p (mmul OpsR A B) = mx_of n m A *m mx_of m p B.
Proof.
move=> Awf Bwf; apply/matrixP => i k.
rewrite mx_ofE (ent_mmul _ Awf Bwf) // mxE.
by apply: eq_bigr => j _; rewrite !mxE.
Qed.

(* ------------------------------------------------------------------ *)
(* Sub-blocks                                                          *)

Lemma sub_blockE (A : seq (seq R)) r0 nr c0 nc :
  sub_block A r0 nr c0 nc =
  [seq take nc (drop c0 row) | row <- take nr (drop r0 A)].
Proof.
rewrite /sub_block L_map L_firstn L_skipn; apply: eq_map => row.
by rewrite L_firstn L_skipn.
Qed.

Lemma nth_map_default (T1 T2 : Type) (x1 : T1) (x2 : T2) (f : T1 -> T2) s i :
  f x1 = x2 -> nth x2 (map f s) i = f (nth x1 s i).
Proof. by move=> fx; elim: s i => [|y s IH] [|i] //=. Qed.

Lemma ent_sub_block A r0 nr c0 nc i j : (i < nr)%N -> (j < nc)%N ->
  ent (sub_block A r0 nr c0 nc) i j = ent A (r0 + i) (c0 + j).
Proof.
move=> iN jN; rewrite /ent sub_blockE (@nth_map_default _ _ [::]) //.
by rewrite !nth_take // !nth_drop.
Qed.

Lemma wf_sub_block n m A r0 nr c0 nc : wf n m A ->
  (r0 + nr <= n)%N -> (c0 + nc <= m)%N -> wf nr nc (sub_block A r0 nr c0 nc).
Proof.
move=> Awf rn cm.
have sz : size (take nr (drop r0 A)) = nr.
  rewrite size_take size_drop (wf_size Awf); case: ltnP => // H.
  by apply/eqP; rewrite eqn_leq H leq_subRL ?rn // (leq_trans (leq_addr _ _) rn).
apply: wf_intro; first by rewrite sub_blockE size_map.
move=> i iN; rewrite sub_blockE (nth_map [::]) ?sz // nth_take // nth_drop.
have rin : (r0 + i < n)%N by apply: leq_trans rn; rewrite ltn_add2l.
rewrite size_take size_drop (wf_row Awf rin); case: ltnP => // H.
by apply/eqP; rewrite eqn_leq H leq_subRL ?cm // (leq_trans (leq_addr _ _) cm).
Qed.

(* A sub-block denotes the corresponding submatrix. *)
Theorem mx_of_sub_block n m nr nc A r0 c0
    (f : 'I_nr -> 'I_n) (g : 'I_nc -> 'I_m) :
  (forall i, f i = (r0 + i)%N :> nat) -> (forall j, g j = (c0 + j)%N :> nat) ->
  mx_of nr nc (sub_block A r0 nr c0 nc) = mxsub f g (mx_of n m A).
Proof.
move=> fE gE; apply/matrixP => i j.
by rewrite mx_ofE ent_sub_block // !mxE fE gE.
Qed.

Section SubBlocks.
Variables (n1 n2 m1 m2 : nat) (A : seq (seq R)).
Let M := mx_of (n1 + n2) (m1 + m2) A.

Theorem mx_of_sub_block_ul : mx_of n1 m1 (sub_block A 0 n1 0 m1) = ulsubmx M.
Proof. by apply/matrixP => i j; rewrite mx_ofE ent_sub_block // !mxE. Qed.

Theorem mx_of_sub_block_ur : mx_of n1 m2 (sub_block A 0 n1 m1 m2) = ursubmx M.
Proof. by apply/matrixP => i j; rewrite mx_ofE ent_sub_block // !mxE. Qed.

Theorem mx_of_sub_block_dl : mx_of n2 m1 (sub_block A n1 n2 0 m1) = dlsubmx M.
Proof. by apply/matrixP => i j; rewrite mx_ofE ent_sub_block // !mxE. Qed.

Theorem mx_of_sub_block_dr : mx_of n2 m2 (sub_block A n1 n2 m1 m2) = drsubmx M.
Proof. by apply/matrixP => i j; rewrite mx_ofE ent_sub_block // !mxE. Qed.
End SubBlocks.

(* ------------------------------------------------------------------ *)
(* 2 x 2 block grids                                                   *)

Lemma block_grid2E (A B C D : seq (seq R)) :
  block_grid [:: [:: A; B]; [:: C; D]] =
  [seq nth [::] A i ++ nth [::] B i | i <- iota 0 (size A)] ++
  [seq nth [::] C i ++ nth [::] D i | i <- iota 0 (size C)].
Proof.
rewrite /block_grid /= !L_app cats0; congr (_ ++ _).
  by apply: eq_map => i; rewrite !L_nth !L_app cats0.
by apply: eq_map => i; rewrite !L_nth !L_app cats0.
Qed.

Section BlockGrid.
Variables (n1 n2 m1 m2 : nat) (A B C D : seq (seq R)).
Hypothesis Awf : wf n1 m1 A.
Hypothesis Bwf : wf n1 m2 B.
Hypothesis Cwf : wf n2 m1 C.
Hypothesis Dwf : wf n2 m2 D.
Let G := block_grid [:: [:: A; B]; [:: C; D]].

Lemma nth_block_grid_u i : (i < n1)%N ->
  nth [::] G i = nth [::] A i ++ nth [::] B i.
Proof.
move=> iN; rewrite /G block_grid2E nth_cat size_map size_iota (wf_size Awf) iN.
by rewrite (nth_map 0%N) ?size_iota // nth_iota.
Qed.

Lemma nth_block_grid_d i : (i < n2)%N ->
  nth [::] G (n1 + i) = nth [::] C i ++ nth [::] D i.
Proof.
move=> iN; rewrite /G block_grid2E nth_cat size_map size_iota (wf_size Awf).
rewrite ltnNge leq_addr /= addKn (wf_size Cwf).
by rewrite (nth_map 0%N) ?size_iota // nth_iota.
Qed.

Lemma wf_block_grid2 : wf (n1 + n2) (m1 + m2) G.
Proof.
apply: wf_intro.
  by rewrite /G block_grid2E size_cat !size_map !size_iota (wf_size Awf) (wf_size Cwf).
move=> i; case: (ltnP i n1) => iN1 iN.
  by rewrite nth_block_grid_u // size_cat (wf_row Awf) // (wf_row Bwf).
have iN2 : (i - n1 < n2)%N by rewrite ltn_subLR.
rewrite -(subnKC iN1) nth_block_grid_d // size_cat (wf_row Cwf) //.
by rewrite (wf_row Dwf).
Qed.

Lemma ent_block_grid_ul i j : (i < n1)%N -> (j < m1)%N -> ent G i j = ent A i j.
Proof.
by move=> iN jM; rewrite /ent nth_block_grid_u // nth_cat (wf_row Awf) // jM.
Qed.

Lemma ent_block_grid_ur i j : (i < n1)%N -> ent G i (m1 + j) = ent B i j.
Proof.
move=> iN; rewrite /ent nth_block_grid_u // nth_cat (wf_row Awf) //.
by rewrite ltnNge leq_addr /= addKn.
Qed.

Lemma ent_block_grid_dl i j : (i < n2)%N -> (j < m1)%N ->
  ent G (n1 + i) j = ent C i j.
Proof.
by move=> iN jM; rewrite /ent nth_block_grid_d // nth_cat (wf_row Cwf) // jM.
Qed.

Lemma ent_block_grid_dr i j : (i < n2)%N -> ent G (n1 + i) (m1 + j) = ent D i j.
Proof.
move=> iN; rewrite /ent nth_block_grid_d // nth_cat (wf_row Cwf) //.
by rewrite ltnNge leq_addr /= addKn.
Qed.

Theorem mx_of_block_grid2 :
  mx_of (n1 + n2) (m1 + m2) G =
  block_mx (mx_of n1 m1 A) (mx_of n1 m2 B) (mx_of n2 m1 C) (mx_of n2 m2 D).
Proof.
rewrite -[LHS]submxK; congr (block_mx _ _ _ _); apply/matrixP => i j.
- by rewrite !mxE; apply: (ent_block_grid_ul (ltn_ord i) (ltn_ord j)).
- by rewrite !mxE; apply: (ent_block_grid_ur _ (ltn_ord i)).
- by rewrite !mxE; apply: (ent_block_grid_dl (ltn_ord i) (ltn_ord j)).
- by rewrite !mxE; apply: (ent_block_grid_dr _ (ltn_ord i)).
Qed.
End BlockGrid.
Arguments wf_block_grid2 {n1 n2 m1 m2 A B C D}.
Arguments mx_of_block_grid2 {n1 n2 m1 m2 A B C D}.

(* ------------------------------------------------------------------ *)
(* General grids: Kr x Kc blocks of size n x m                         *)

Lemma nth_flatten_unif (T : Type) (x0 : T) n (ss : seq (seq T)) b i :
  all (fun s => size s == n) ss -> (i < n)%N ->
  nth x0 (flatten ss) (b * n + i) = nth x0 (nth [::] ss b) i.
Proof.
move=> H iN; elim: ss b H => [|s ss IH] [|b] //=; rewrite ?nth_nil //.
  by case/andP=> /eqP sn _; rewrite mul0n add0n nth_cat sn iN.
case/andP=> /eqP sn H; rewrite nth_cat sn mulSn -addnA ltnNge leq_addr /=.
by rewrite addKn; apply: IH.
Qed.

Lemma size_flatten_unif (T : Type) n (ss : seq (seq T)) :
  all (fun s => size s == n) ss -> size (flatten ss) = (size ss * n)%N.
Proof.
elim: ss => [|s ss IH] //= /andP [/eqP sn /IH H].
by rewrite size_cat sn H mulSn.
Qed.

Definition grid_rows (brow : seq (seq (seq R))) : seq (seq R) :=
  match brow with
  | [::] => [::]
  | b0 :: _ =>
    [seq flatten [seq nth [::] b i | b <- brow] | i <- iota 0 (size b0)]
  end.

Lemma block_gridE (G : seq (seq (seq (seq R)))) :
  block_grid G = flatten [seq grid_rows brow | brow <- G].
Proof.
rewrite /block_grid L_flat_map; congr (flatten _); apply: eq_map => brow.
case: brow => [|b0 brow] //; rewrite L_map L_seq L_length.
apply: eq_map => i; rewrite L_flat_map; congr (flatten _).
by apply: eq_map => b; rewrite L_nth.
Qed.

Section Grid.
Variables (Kr Kc n m : nat) (G : seq (seq (seq (seq R)))).
Hypothesis Kc0 : (0 < Kc)%N.
Hypothesis sG : size G = Kr.
Hypothesis sGrow : forall bi, (bi < Kr)%N -> size (nth [::] G bi) = Kc.
Hypothesis Gwf : forall bi bj, (bi < Kr)%N -> (bj < Kc)%N ->
  wf n m (nth [::] (nth [::] G bi) bj).

Lemma grid_rows_row bi i : (bi < Kr)%N -> (i < n)%N ->
  nth [::] (grid_rows (nth [::] G bi)) i
  = flatten [seq nth [::] b i | b <- nth [::] G bi].
Proof.
move=> biK iN; have := sGrow biK; have := Gwf biK Kc0.
case: (nth [::] G bi) => [|b0 brow] /=; first by move=> _ s0; move: Kc0; rewrite -s0.
move=> b0wf _; rewrite (wf_size b0wf) (nth_map 0%N) ?size_iota //.
by rewrite nth_iota.
Qed.

Lemma size_grid_rows bi : (bi < Kr)%N -> size (grid_rows (nth [::] G bi)) = n.
Proof.
move=> biK; have := sGrow biK; have := Gwf biK Kc0.
case: (nth [::] G bi) => [|b0 brow] /=; first by move=> _ s0; move: Kc0; rewrite -s0.
by move=> b0wf _; rewrite size_map size_iota (wf_size b0wf).
Qed.

Lemma grid_pieces bi i : (bi < Kr)%N -> (i < n)%N ->
  all (fun s => size s == m) [seq nth [::] b i | b <- nth [::] G bi].
Proof.
move=> biK iN; apply/(all_nthP [::]) => bj; rewrite size_map (sGrow biK) => bjK.
by rewrite (nth_map [::]) ?(sGrow biK) // (wf_row (Gwf biK bjK)).
Qed.

Lemma grid_all_rows : all (fun s => size s == n) [seq grid_rows brow | brow <- G].
Proof.
apply/(all_nthP [::]) => bi; rewrite size_map sG => biK.
by rewrite (nth_map [::]) ?sG // size_grid_rows.
Qed.

Lemma nth_block_grid bi i : (bi < Kr)%N -> (i < n)%N ->
  nth [::] (block_grid G) (bi * n + i)
  = flatten [seq nth [::] b i | b <- nth [::] G bi].
Proof.
move=> biK iN; rewrite block_gridE (nth_flatten_unif _ _ grid_all_rows) //.
by rewrite (nth_map [::]) ?sG // grid_rows_row.
Qed.

Theorem ent_block_grid bi bj i j :
  (bi < Kr)%N -> (bj < Kc)%N -> (i < n)%N -> (j < m)%N ->
  ent (block_grid G) (bi * n + i) (bj * m + j)
  = ent (nth [::] (nth [::] G bi) bj) i j.
Proof.
move=> biK bjK iN jM; rewrite /ent nth_block_grid //.
rewrite (nth_flatten_unif _ _ (grid_pieces biK iN)) //.
by rewrite (nth_map [::]) ?(sGrow biK).
Qed.

Theorem wf_block_grid : wf (Kr * n) (Kc * m) (block_grid G).
Proof.
apply: wf_intro.
  by rewrite block_gridE (size_flatten_unif grid_all_rows) size_map sG.
move=> x xN; have n0 : (0 < n)%N by case: (n) xN => //; rewrite muln0.
have biK : (x %/ n < Kr)%N by rewrite ltn_divLR.
have iN : (x %% n < n)%N by rewrite ltn_mod.
rewrite (divn_eq x n) nth_block_grid //.
by rewrite (size_flatten_unif (grid_pieces biK iN)) size_map sGrow.
Qed.
End Grid.

(* ------------------------------------------------------------------ *)
(* Assumption audit                                                    *)

Print Assumptions mx_of_mzero.
Print Assumptions mx_of_mid.
Print Assumptions mx_of_diagm.
Print Assumptions mx_of_madd.
Print Assumptions mx_of_mscale.
Print Assumptions mx_of_transpose.
Print Assumptions dot_mulmx.
Print Assumptions cv_of_mvec.
Print Assumptions rv_of_vmat.
Print Assumptions mx_of_mmul.
Print Assumptions mx_of_sub_block.
Print Assumptions mx_of_sub_block_ur.
Print Assumptions mx_of_block_grid2.
Print Assumptions wf_mmul.
Print Assumptions wf_block_grid2.
Print Assumptions ent_block_grid.
Print Assumptions wf_block_grid.
