(* Moment accumulation of model/PhaseType.v ([accumulate_raw] at [OpsR],
   sound backend).  First for k = 1: it denotes the Van Loan functional [m1]
   of proofs/ExpLaws.v with the real matrix exponential, independently of the
   regularisation factor lam <> 0; lumping at the level of the model.  Then
   for arbitrary order k, epochs and times: the list [vanloan] denotes [vl],
   the read-out denotes [vltr], the model computes k! times the Van Loan
   functional [mk] of the un-regularised generators, and is lumpable. *)
Require Import Reals Psatz QArith Qreals Lqa.
From mathcomp Require Import all_ssreflect all_algebra.
From PG Require Import analysis.Rstruct analysis.RSums analysis.MExp analysis.MExpLaws.
From PG Require Import base.Ops base.OpsR base.Perm model.CoalModels model.Matrix
  model.Loop model.PhaseType.
From PG Require Import proofs.LoopProofs proofs.ExpLaws.
From PG Require Import analysis.Denote analysis.CdfFacts.
Set Implicit Arguments. Unset Strict Implicit. Unset Printing Implicit Defensive.
Import GRing.Theory.
Delimit Scope Q_scope with QQ.
Local Open Scope ring_scope.

(* ------------------------------------------------------------------ *)
(* The Van Loan matrix for k = 1                                       *)

Lemma vanloan1E (Sg : seq (seq R)) (r : seq R) :
  vanloan OpsR Sg [:: r] 1 =
  block_grid [:: [:: Sg; diagm OpsR r];
                 [:: mzero OpsR (size Sg) (size Sg); Sg]].
Proof. by []. Qed.

(* [[lam S, diag r], [0, lam S]] *)
Definition VL n (lam : R) (S : 'M[R]_n) (r : seq R) : 'M[R]_(n + n) :=
  block_mx (lam *: S) (diag_mx (rv_of n r)) 0 (lam *: S).

Lemma den_vanloan1 n lam Sg r : wf n n Sg -> size r = n ->
  den (n := n + n) (vanloan OpsR (mscale OpsR lam Sg) [:: r] 1)
      (VL lam (mx_of n n Sg) r).
Proof.
move=> Swf sr; have Lwf := wf_mscale lam Swf.
rewrite vanloan1E (wf_size Lwf); split.
  by apply: wf_block_grid2 => //; [apply: wf_diagm | apply: wf_mzero].
rewrite (mx_of_block_grid2 Lwf (wf_mzero n n)).
by rewrite /VL mx_of_mscale mx_of_diagm // mx_of_mzero.
Qed.

Lemma ones_cv n : cv_of n (ones OpsR n) = const_mx 1.
Proof.
apply/matrixP => i j; rewrite !mxE /ones L_repeat nth_nseq.
by rewrite ltn_ord.
Qed.

Lemma size_ones n : size (ones OpsR n) = n.
Proof. by rewrite /ones L_repeat size_nseq. Qed.

Lemma twice_n n : Nat.mul (Nat.add 1 1) n = (n + n)%N.
Proof. by rewrite -[LHS]/(n + (n + 0))%N addn0. Qed.

(* ------------------------------------------------------------------ *)
(* The read-out [acc_out] for k = 1                                    *)

Definition m1_fun n (lam : R) (alpha : seq R) (T : 'M[R]_(n + n)) : R :=
  lam * (rv_of n alpha *m ursubmx T *m (const_mx 1 : 'cV[R]_n)) ord0 ord0.

Lemma acc_out1E n (lam : R) alpha Qm :
  acc_out OpsR 1 n lam alpha Qm =
  lam * dot OpsR alpha (mvec OpsR (sub_block Qm 0 n n n) (ones OpsR n)).
Proof.
rewrite /acc_out Nat.mul_1_l; set X := dot _ _ _.
by change (1 * (lam * 1) * X = lam * X); rewrite mul1r mulr1.
Qed.

Lemma acc_out1_den n lam alpha Qm (T : 'M[R]_(n + n)) : den Qm T ->
  acc_out OpsR 1 n lam alpha Qm = m1_fun lam alpha T.
Proof.
move=> [Qwf <-]; rewrite acc_out1E /m1_fun; congr (_ * _).
have Bwf : wf n n (sub_block Qm 0 n n n).
  by apply: wf_sub_block Qwf _ _; rewrite ?add0n ?leq_addr.
rewrite (@dot_mulmx_gen n); last first.
  by rewrite size_mvec (wf_size Bwf) geq_minr.
rewrite (cv_of_mvec Bwf (size_ones n)) ones_cv mulmxA.
by rewrite (mx_of_sub_block_ur n n n n).
Qed.

(* ------------------------------------------------------------------ *)

Section Moments.
Variable expm : seq (seq R) -> seq (seq R).
Hypothesis expm_sound : forall n A, wf n n A ->
  wf n n (expm A) /\ mx_of n n (expm A) = mexp (mx_of n n A).

(* the denoted step: mexp ((dt / lam) *: V) *)
Definition stepV N (lam : R) (V : 'M[R]_N) (dt : Q) : 'M[R]_N :=
  mexp (Rdiv (Q2R dt) lam *: V).

Lemma den_vl_step N lam V (V' : 'M[R]_N) dt :
  den V V' -> den (vl_step OpsR expm lam V dt) (stepV lam V' dt).
Proof.
move=> [Vwf <-]; rewrite /vl_step.
have [Ewf E] := expm_sound (wf_mscale (odiv OpsR (oofQ OpsR dt) lam) Vwf).
by split=> //; rewrite E mx_of_mscale.
Qed.

Definition denV n (lam : R) (r : seq R) (Ss : list (Q * seq (seq R))) :
    list (Q * 'M[R]_(n + n)) :=
  [seq (x.1, VL lam (mx_of n n x.2) r) | x <- Ss].

Notation loopV n lam :=
  (loop_vectorised 'M[R]_(n + n) 'M[R]_(n + n) mulmx 1%:M (stepV lam)).

(* denotation of the first-moment accumulation: arbitrary epochs and times *)
Theorem accumulate1_denote_loop n Ss Slast r alpha lam ts :
  all_wf n Ss -> wf n n Slast -> size r = n ->
  accumulate_raw OpsR expm 1 Ss Slast [:: r] alpha lam ts =
  List.map (m1_fun lam alpha)
    (loopV n lam (denV n lam r Ss) (VL lam (mx_of n n Slast) r) ts).
Proof.
move=> Swf Lwf sr; rewrite /accumulate_raw L_length (wf_size Lwf) twice_n.
have H : List.Forall2 (@den (n + n))
    (loop_vectorised _ _ (mmul OpsR) (mid OpsR (n + n)) (vl_step OpsR expm lam)
       (List.map (fun eS => (eS.1, vanloan OpsR (mscale OpsR lam eS.2) [:: r] 1)) Ss)
       (vanloan OpsR (mscale OpsR lam Slast) [:: r] 1) ts)
    (loopV n lam (denV n lam r Ss) (VL lam (mx_of n n Slast) r) ts).
  apply: (@loop_vectorised_rel _ _ _ _ _ _ _ _ _ _
            (@den (n + n)) (@den (n + n))).
  - by move=> *; apply: den_mul.
  - exact: den_one.
  - by move=> *; apply: den_vl_step.
  - rewrite /denV; elim: Swf => [|x Ss' xwf _ IH] /=; constructor => //.
    by split=> //=; apply: den_vanloan1.
  - exact: den_vanloan1.
apply: map_Forall2 H _ => Qm T; exact: acc_out1_den.
Qed.

(* single epoch, single time *)
Theorem accumulate1_denote_single n Slast r alpha lam t :
  wf n n Slast -> size r = n ->
  accumulate_raw OpsR expm 1 [::] Slast [:: r] alpha lam [:: t] =
  [:: lam * (rv_of n alpha *m
             ursubmx (mexp (Rdiv (Q2R t) lam *:
                block_mx (lam *: mx_of n n Slast) (diag_mx (rv_of n r))
                         0 (lam *: mx_of n n Slast)))
             *m (const_mx 1 : 'cV[R]_n)) ord0 ord0].
Proof.
move=> Lwf sr; rewrite (@accumulate1_denote_loop n) //.
rewrite /loop_vectorised /vectorised /= /m1_fun mul1mx /stepV /VL.
by rewrite (Qeq_eqR (t - 0)%QQ t) // /Qminus Qplus_0_r.
Qed.

(* hence the model computes the Van Loan functional m1 with the real
   exponential, whatever the regularisation factor *)
Theorem accumulate1_is_m1 n Slast r alpha lam t :
  wf n n Slast -> size r = n -> lam <> 0 ->
  accumulate_raw OpsR expm 1 [::] Slast [:: r] alpha lam [:: t] =
  [:: m1 rexpm (rv_of n alpha) (mx_of n n Slast) (diag_mx (rv_of n r)) (Q2R t)
        ord0 ord0].
Proof.
move=> Lwf sr lam0; rewrite (accumulate1_denote_single _ _ _ Lwf sr).
congr [:: _]; rewrite /m1.
rewrite (@m1_regularisation _ rexpm (@mexp_intertwine) _ _ _ _ lam (Q2R t)
           (Rdiv (Q2R t) lam)) ?mxE //.
by rewrite /Rdiv -RmultE Rmult_assoc Rinv_l // Rmult_1_r.
Qed.

Corollary accumulate1_lam_irrelevant n Slast r alpha lam1 lam2 t :
  wf n n Slast -> size r = n -> lam1 <> 0 -> lam2 <> 0 ->
  accumulate_raw OpsR expm 1 [::] Slast [:: r] alpha lam1 [:: t] =
  accumulate_raw OpsR expm 1 [::] Slast [:: r] alpha lam2 [:: t].
Proof. by move=> Lwf sr l1 l2; rewrite !(@accumulate1_is_m1 n). Qed.

(* ------------------------------------------------------------------ *)
(* Lumping of the model's first moments (arbitrary epochs and times)   *)

Theorem accumulate1_lumping m n P SsL SlastL SsC SlastC rL rC alphaL lam ts :
  wf m n P -> wf m m SlastL -> wf n n SlastC ->
  List.Forall2 (lump_rel m n P) SsL SsC ->
  mmul OpsR SlastL P = mmul OpsR P SlastC ->
  mmul OpsR (diagm OpsR rL) P = mmul OpsR P (diagm OpsR rC) ->
  mvec OpsR P (ones OpsR n) = ones OpsR m ->
  size rL = m -> size rC = n -> size alphaL = m ->
  accumulate_raw OpsR expm 1 SsL SlastL [:: rL] alphaL lam ts
  = accumulate_raw OpsR expm 1 SsC SlastC [:: rC] (vmat OpsR alphaL P) lam ts.
Proof.
move=> Pwf LLwf LCwf Hss Hlast Hr P1 srL srC sa.
have SLwf : all_wf m SsL by elim: Hss => [|x y ? ? [_ ? _ _] _ ?]; constructor.
have SCwf : all_wf n SsC by elim: Hss => [|x y ? ? [_ _ ? _] _ ?]; constructor.
rewrite (accumulate1_denote_loop _ _ _ SLwf LLwf srL).
rewrite (accumulate1_denote_loop _ _ _ SCwf LCwf srC).
pose PM := mx_of m n P; pose PP := block_mx PM 0 0 PM.
pose Rel (A : 'M[R]_(m + m)) (B : 'M[R]_(n + n)) := A *m PP = PP *m B.
have RP : diag_mx (rv_of m rL) *m PM = PM *m diag_mx (rv_of n rC).
  rewrite -(mx_of_diagm srL) -(mx_of_diagm srC).
  by apply: mmul_intertwine => //; apply: wf_diagm.
have VLP SL SC : wf m m SL -> wf n n SC -> mmul OpsR SL P = mmul OpsR P SC ->
    VL lam (mx_of m m SL) rL *m PP = PP *m VL lam (mx_of n n SC) rC.
  move=> Lwf Cwf /(mmul_intertwine Pwf Lwf Cwf) SP.
  rewrite /VL /PP !mulmx_block !(mulmx0, mul0mx, addr0, add0r) RP.
  by rewrite (scale_intertwine lam SP).
have Hrel : List.Forall2 Rel
    (loopV m lam (denV m lam rL SsL) (VL lam (mx_of m m SlastL) rL) ts)
    (loopV n lam (denV n lam rC SsC) (VL lam (mx_of n n SlastC) rC) ts).
  apply: (@loop_vectorised_rel _ _ _ _ _ _ _ _ _ _ Rel Rel).
  - move=> a a' b b' aa bb; rewrite /Rel -mulmxA bb mulmxA aa.
    by rewrite mulmxA.
  - by rewrite /Rel mul1mx mulmx1.
  - move=> v v' dt vv; rewrite /Rel /stepV.
    by apply: mexp_intertwine; apply: scale_intertwine.
  - elim: Hss => [|x y xs ys [xy xwf ywf H] _ IH] /=; constructor => //.
    by split=> //=; apply: VLP.
  - exact: VLP.
apply: map_Forall2 Hrel _ => TL TC TT; rewrite /m1_fun; congr (_ * _).
have <- : PM *m const_mx 1 = (const_mx 1 : 'cV[R]_m).
  by rewrite -(ones_cv n) -(cv_of_mvec Pwf (size_ones n)) P1 ones_cv.
rewrite (rv_of_vmat Pwf sa) -/PM.
have URP : ursubmx TL *m PM = PM *m ursubmx TC.
  by rewrite -(ursubmx_mul_diag TL PM PM) -/PP TT ursubmx_diag_mul.
by rewrite mulmxA -(mulmxA _ (ursubmx TL)) URP !mulmxA.
Qed.

End Moments.

(* ------------------------------------------------------------------ *)
(* General order k                                                     *)

Lemma vlszE n k : vlsz n k = (k.+1 * n)%N.
Proof. by elim: k => [|k IH] /=; rewrite ?mul1n // IH -mulSn. Qed.

Definition vl_blk n (Sg : seq (seq R)) (Rs : seq (seq R)) (i j : nat) :
    seq (seq R) :=
  if i == j then Sg
  else if i.+1 == j then diagm OpsR (nth [::] Rs i) else mzero OpsR n n.

Definition vl_grid n Sg Rs k : seq (seq (seq (seq R))) :=
  [seq [seq vl_blk n Sg Rs i j | j <- iota 0 k.+1] | i <- iota 0 k.+1].

Lemma vanloanE Sg Rs k :
  vanloan OpsR Sg Rs k = block_grid (vl_grid (size Sg) Sg Rs k).
Proof.
rewrite /vanloan /vl_grid L_map L_seq -[Nat.add k 1]/(k + 1)%N addn1.
congr (block_grid _); apply: eq_map => i; rewrite L_map; apply: eq_map => j.
rewrite /vl_blk !L_eqb L_nth L_length -[Nat.add i 1]/(i + 1)%N addn1.
by [].
Qed.

Definition rewards_wf n k (Rs : seq (seq R)) : Prop :=
  forall i, (i < k)%N -> size (nth [::] Rs i) = n.

Section VanLoanK.
Variables (n k : nat) (Sg : seq (seq R)) (Rs : seq (seq R)).
Hypothesis Swf : wf n n Sg.
Hypothesis Rwf : rewards_wf n k Rs.

Lemma vl_grid_size : size (vl_grid n Sg Rs k) = k.+1.
Proof. by rewrite size_map size_iota. Qed.

Lemma vl_grid_row bi : (bi < k.+1)%N ->
  nth [::] (vl_grid n Sg Rs k) bi = [seq vl_blk n Sg Rs bi j | j <- iota 0 k.+1].
Proof. by move=> biK; rewrite (nth_map 0%N) ?size_iota // nth_iota. Qed.

Lemma vl_grid_blk bi bj : (bi < k.+1)%N -> (bj < k.+1)%N ->
  nth [::] (nth [::] (vl_grid n Sg Rs k) bi) bj = vl_blk n Sg Rs bi bj.
Proof.
by move=> biK bjK; rewrite vl_grid_row // (nth_map 0%N) ?size_iota // nth_iota.
Qed.

Lemma vl_blk_wf bi bj : (bi < k.+1)%N -> (bj < k.+1)%N ->
  wf n n (vl_blk n Sg Rs bi bj).
Proof.
move=> biK bjK; rewrite /vl_blk; case: ifP => // _; case: ifP => [/eqP E|_].
  by apply: wf_diagm; apply: Rwf; rewrite -ltnS E.
exact: wf_mzero.
Qed.

Lemma wf_vanloan : wf (vlsz n k) (vlsz n k) (vanloan OpsR Sg Rs k).
Proof.
rewrite vanloanE (wf_size Swf) vlszE.
apply: wf_block_grid => //; first exact: vl_grid_size.
  by move=> bi biK; rewrite vl_grid_row // size_map size_iota.
by move=> bi bj biK bjK; rewrite vl_grid_blk //; apply: vl_blk_wf.
Qed.

Lemma ent_vanloan bi bj i j :
  (bi < k.+1)%N -> (bj < k.+1)%N -> (i < n)%N -> (j < n)%N ->
  ent (vanloan OpsR Sg Rs k) (bi * n + i) (bj * n + j)
  = ent (vl_blk n Sg Rs bi bj) i j.
Proof.
move=> biK bjK iN jN; rewrite vanloanE (wf_size Swf).
rewrite (@ent_block_grid k.+1 k.+1 n n) ?vl_grid_blk //.
- exact: vl_grid_size.
- by move=> b bK; rewrite vl_grid_row // size_map size_iota.
- by move=> b b' bK b'K; rewrite vl_grid_blk //; apply: vl_blk_wf.
Qed.

Lemma ent_vl_blk bi bj i j : (bi < k.+1)%N -> (bj < k.+1)%N ->
  (i < n)%N -> (j < n)%N ->
  ent (vl_blk n Sg Rs bi bj) i j =
  if bi == bj then ent Sg i j
  else if bi.+1 == bj then (if i == j then nth 0 (nth [::] Rs bi) i else 0)
  else 0.
Proof.
move=> biK bjK iN jN; rewrite /vl_blk; case: ifP => // _.
case: ifP => [/eqP E|_]; last exact: ent_mzero.
have sR : size (nth [::] Rs bi) = n by apply: Rwf; rewrite -ltnS E.
by rewrite ent_diagm ?sR.
Qed.

Lemma ent_vanloan_xy x y : (x < k.+1 * n)%N -> (y < k.+1 * n)%N ->
  ent (vanloan OpsR Sg Rs k) x y
  = ent (vl_blk n Sg Rs (x %/ n) (y %/ n)) (x %% n) (y %% n).
Proof.
move=> xN yN; have n0 : (0 < n)%N by case: (n) xN => //; rewrite muln0.
rewrite {1}(divn_eq x n) {1}(divn_eq y n) ent_vanloan ?ltn_mod //.
- by rewrite ltn_divLR.
- by rewrite ltn_divLR.
Qed.
End VanLoanK.
Arguments wf_vanloan {n k Sg Rs}.
Arguments ent_vanloan {n k Sg Rs}.
Arguments ent_vl_blk {n k Sg Rs}.
Arguments ent_vanloan_xy {n k Sg Rs}.

Lemma vl_ext n (S : 'M[R]_n) (f g : nat -> 'M[R]_n) k :
  (forall i, (i < k)%N -> f i = g i) -> vl S f k = vl S g k.
Proof.
elim: k f g => [|k IH] f g fg //=.
rewrite (fg 0%N) // (IH (fun i => f i.+1) (fun i => g i.+1)) // => i ik.
exact: fg.
Qed.

Lemma vltop_diag_ent n (d : 'rV[R]_n) k (i : 'I_n) (y : 'I_(vlsz n k)) :
  vltop (diag_mx d) k i y = if (i == y :> nat) then d ord0 i else 0.
Proof.
case: k y => [|k] y /=.
  by rewrite mxE -val_eqE /=; case: (_ == _)%B; rewrite ?mulr1n ?mulr0n.
rewrite mxE; case: splitP => y' ->.
  by rewrite mxE -val_eqE /=; case: (_ == _)%B; rewrite ?mulr1n ?mulr0n.
by rewrite mxE ltn_eqF // (leq_trans (ltn_ord i)) // leq_addr.
Qed.

Definition rwd n (Rs : seq (seq R)) : nat -> 'M[R]_n :=
  fun i => diag_mx (rv_of n (nth [::] Rs i)).

Section VanLoanStep.
Variables (n k : nat) (Sg : seq (seq R)) (Rs : seq (seq R)).
Hypothesis Swf : wf n n Sg.
Hypothesis Rwf : rewards_wf n k.+1 Rs.
Let V := vanloan OpsR Sg Rs k.+1.

Lemma rewards_wf_behead : rewards_wf n k (behead Rs).
Proof. by move=> i ik; rewrite nth_behead; apply: Rwf. Qed.

Lemma shift_lt x : (x < k.+1 * n)%N -> (n + x < k.+2 * n)%N.
Proof. by move=> xN; rewrite [(k.+2 * n)%N]mulSn ltn_add2l. Qed.

Lemma small_lt i : (i < n)%N -> (i < k.+2 * n)%N.
Proof. by move=> iN; rewrite mulSn (leq_trans iN) // leq_addr. Qed.

Lemma shift_div x : (0 < n)%N -> ((n + x) %/ n = (x %/ n).+1)%N.
Proof. by move=> n0; rewrite divnDl ?dvdnn // divnn n0. Qed.

Lemma van_ul i j : (i < n)%N -> (j < n)%N -> ent V i j = ent Sg i j.
Proof.
move=> iN jN; rewrite /V (ent_vanloan_xy Swf Rwf) ?small_lt //.
by rewrite !divn_small // !modn_small.
Qed.

Lemma van_ur i y : (i < n)%N -> (y < k.+1 * n)%N ->
  ent V i (n + y) = if i == y then nth 0 (nth [::] Rs 0) i else 0.
Proof.
move=> iN yN; have n0 : (0 < n)%N by apply: leq_ltn_trans iN.
rewrite /V (ent_vanloan_xy Swf Rwf) ?shift_lt ?small_lt //.
rewrite shift_div // modnDl divn_small // modn_small //.
have yK : (y %/ n < k.+1)%N by rewrite ltn_divLR.
rewrite (ent_vl_blk Rwf) ?ltn_mod //= eqSS.
case: (ltnP y n) => yn; first by rewrite divn_small // modn_small.
by rewrite !ltn_eqF ?divn_gt0 // (leq_trans iN yn).
Qed.

Lemma van_dl x j : (x < k.+1 * n)%N -> (j < n)%N -> ent V (n + x) j = 0.
Proof.
move=> xN jN; have n0 : (0 < n)%N by apply: leq_ltn_trans jN.
rewrite /V (ent_vanloan_xy Swf Rwf) ?shift_lt ?small_lt //.
rewrite shift_div // modnDl (@divn_small j n) // (@modn_small j n) //.
have xK : (x %/ n < k.+1)%N by rewrite ltn_divLR.
by rewrite (ent_vl_blk Rwf) ?ltn_mod.
Qed.

Lemma van_dr x y : (x < k.+1 * n)%N -> (y < k.+1 * n)%N ->
  ent V (n + x) (n + y) = ent (vanloan OpsR Sg (behead Rs) k) x y.
Proof.
move=> xN yN; have n0 : (0 < n)%N by case: (n) xN => //; rewrite muln0.
rewrite /V (ent_vanloan_xy Swf Rwf) ?shift_lt //.
rewrite (ent_vanloan_xy Swf rewards_wf_behead) //.
rewrite !shift_div // !modnDl.
by rewrite /vl_blk !eqSS nth_behead.
Qed.
End VanLoanStep.

Theorem mx_of_vanloan n k Sg Rs : wf n n Sg -> rewards_wf n k Rs ->
  mx_of (vlsz n k) (vlsz n k) (vanloan OpsR Sg Rs k)
  = vl (mx_of n n Sg) (rwd n Rs) k.
Proof.
move=> Swf; elim: k Rs => [|k IH] Rs Rwf.
  apply/matrixP => i j; rewrite mx_ofE /= (ent_vanloan_xy Swf Rwf) ?mul1n //.
  by rewrite !divn_small // !modn_small // mxE.
have Rwf' := rewards_wf_behead Rwf.
rewrite /= -[LHS]submxK; congr (block_mx _ _ _ _); apply/matrixP => i j.
- by rewrite !mxE; apply: (van_ul Swf Rwf (ltn_ord i) (ltn_ord j)).
- have jK : (j < k.+1 * n)%N by rewrite -vlszE.
  by rewrite vltop_diag_ent !mxE; apply: (van_ur Swf Rwf (ltn_ord i) jK).
- have iK : (i < k.+1 * n)%N by rewrite -vlszE.
  by rewrite !mxE; apply: (van_dl Swf Rwf iK (ltn_ord j)).
- rewrite -(@vl_ext _ _ (rwd n (behead Rs))); last first.
    by move=> l _; rewrite /rwd nth_behead.
  have iK : (i < k.+1 * n)%N by rewrite -vlszE.
  have jK : (j < k.+1 * n)%N by rewrite -vlszE.
  by rewrite -IH // !mxE; apply: (van_dr Swf Rwf iK jK).
Qed.

Lemma den_vanloan n k lam Sg Rs : wf n n Sg -> rewards_wf n k Rs ->
  den (n := vlsz n k) (vanloan OpsR (mscale OpsR lam Sg) Rs k)
      (vl (lam *: mx_of n n Sg) (rwd n Rs) k).
Proof.
move=> Swf Rwf; have Lwf := wf_mscale lam Swf; split; first exact: wf_vanloan.
by rewrite mx_of_vanloan // mx_of_mscale.
Qed.

(* ------------------------------------------------------------------ *)
(* The top-right block                                                 *)

Lemma nth_map_drop c (A : seq (seq R)) i :
  nth [::] [seq drop c row | row <- A] i = drop c (nth [::] A i).
Proof. exact: (@nth_map_default _ _ [::]). Qed.

Lemma vllast_mx_of r n k (A : seq (seq R)) :
  vllast (k := k) (mx_of r (vlsz n k) A) = mx_of r n [seq drop (k * n) row | row <- A].
Proof.
elim: k A => [|k IH] A /=.
  apply/matrixP => i j; rewrite !mxE nth_map_drop mul0n drop0 //.
have -> : rsubmx (mx_of r (n + vlsz n k) A)
          = mx_of r (vlsz n k) [seq drop n row | row <- A].
  by apply/matrixP => i j; rewrite !mxE nth_map_drop nth_drop.
rewrite IH -map_comp; congr (mx_of _ _ _); apply: eq_map => row /=.
by rewrite drop_drop mulSn addnC.
Qed.

Lemma vlfirst_mx_of n k c (A : seq (seq R)) :
  vlfirst (k := k) (mx_of (vlsz n k) c A) = mx_of n c A.
Proof. by case: k => [|k] //=; apply/matrixP => i j; rewrite !mxE. Qed.

Theorem vltr_mx_of n k (Qm : seq (seq R)) :
  vltr (k := k) (mx_of (vlsz n k) (vlsz n k) Qm)
  = mx_of n n (sub_block Qm 0 n (k * n) n).
Proof.
rewrite /vltr vlfirst_mx_of vllast_mx_of; apply: mx_of_eq => i j iN jN.
by rewrite ent_sub_block // add0n /ent nth_map_drop nth_drop.
Qed.

Lemma opowE (a : R) k : opow OpsR a k = a ^+ k.
Proof. by elim: k => [|k IH] //=; rewrite IH exprS. Qed.

Definition mk_fun n k (lam : R) (alpha : seq R) (T : 'M[R]_(vlsz n k)) : R :=
  IZR (fact_Z k) * lam ^+ k *
  (rv_of n alpha *m vltr (k := k) T *m (const_mx 1 : 'cV[R]_n)) ord0 ord0.

Lemma acc_out_den n k lam alpha Qm (T : 'M[R]_(vlsz n k)) : den Qm T ->
  acc_out OpsR k n lam alpha Qm = mk_fun lam alpha T.
Proof.
move=> [Qwf <-]; rewrite /acc_out /mk_fun opowE.
set X := dot _ _ _; set Y := (_ *m _) _ _.
suff -> : X = Y by [].
rewrite /X /Y vltr_mx_of.
have Bwf : wf n n (sub_block Qm 0 n (k * n) n).
  apply: wf_sub_block Qwf _ _; rewrite vlszE ?add0n ?mulSn ?leq_addr //.
  by rewrite addnC.
rewrite (@dot_mulmx_gen n); last first.
  by rewrite size_mvec (wf_size Bwf) geq_minr.
by rewrite (cv_of_mvec Bwf (size_ones n)) ones_cv mulmxA.
Qed.

(* ------------------------------------------------------------------ *)
(* Regularisation for arbitrary order: conjugation by                  *)
(* diag(c, c lam, ..., c lam^k)                                        *)

Fixpoint vlpow n (lam c : R) k : 'M[R]_(vlsz n k) :=
  match k return 'M[R]_(vlsz n k) with
  | k'.+1 => block_mx c%:M 0 0 (vlpow n lam (c * lam) k')
  | 0%N => c%:M
  end.

Ltac bsimp :=
  rewrite ?(mulmx1, mul1mx, mulmx0, mul0mx, addr0, add0r, scaler0).

Lemma vltop_scale n (Rw : 'M[R]_n) (a : R) k :
  vltop (a *: Rw) k = a *: vltop Rw k.
Proof. by case: k => [|k] //=; rewrite scale_row_mx scaler0. Qed.

Lemma vltop_pow n (Rw : 'M[R]_n) lam c k :
  vltop Rw k *m vlpow n lam c k = c *: vltop Rw k.
Proof.
case: k => [|k] /=; first by rewrite mul_mx_scalar.
by rewrite mul_row_block; bsimp; rewrite mul_mx_scalar scale_row_mx scaler0.
Qed.

Lemma vl_pow_intertwine n (S : 'M[R]_n) (R' Rw : nat -> 'M[R]_n) lam c k :
  (forall i, (i < k)%N -> lam *: R' i = Rw i) ->
  vl S R' k *m vlpow n lam c k = vlpow n lam c k *m vl S Rw k.
Proof.
elim: k R' Rw c => [|k IH] R' Rw c H /=; first by rewrite scalar_mxC.
rewrite !mulmx_block; bsimp; rewrite scalar_mxC.
rewrite (IH (fun i => R' i.+1) (fun i => Rw i.+1)); last by move=> i ik; apply: H.
by rewrite vltop_pow !mul_scalar_mx -(H 0%N) // vltop_scale scalerA.
Qed.

Lemma vllast_scale r n k (a : R) (M : 'M[R]_(r, vlsz n k)) :
  vllast (k := k) (a *: M) = a *: vllast (k := k) M.
Proof. by rewrite -!mul_scalar_mx vllast_mul. Qed.

Lemma vllast_mul_pow r n lam c k (M : 'M[R]_(r, vlsz n k)) :
  vllast (k := k) (M *m vlpow n lam c k) = (c * lam ^+ k) *: vllast (k := k) M.
Proof.
elim: k c M => [|k IH] c M /=; first by rewrite mul_mx_scalar expr0 mulr1.
rewrite -{1}(hsubmxK M) mul_row_block row_mxKr; bsimp.
by rewrite IH exprS mulrA.
Qed.

Lemma vltr_mul_pow n lam c k (M : 'M[R]_(vlsz n k)) :
  vltr (k := k) (M *m vlpow n lam c k) = (c * lam ^+ k) *: vltr (k := k) M.
Proof. by rewrite /vltr vlfirst_mul vllast_mul_pow. Qed.

Lemma vlfirst_pow_mul n lam c k cc (M : 'M[R]_(vlsz n k, cc)) :
  vlfirst (k := k) (vlpow n lam c k *m M) = c *: vlfirst (k := k) M.
Proof.
case: k M => [|k] M /=; first by rewrite mul_scalar_mx.
by rewrite -{1}(vsubmxK M) mul_block_col col_mxKu; bsimp; rewrite mul_scalar_mx.
Qed.

Lemma vltr_pow_mul n lam c k (M : 'M[R]_(vlsz n k)) :
  vltr (k := k) (vlpow n lam c k *m M) = c *: vltr (k := k) M.
Proof. by rewrite /vltr vlfirst_pow_mul vllast_scale. Qed.

(* the regularised step and the canonical step are conjugate *)
Lemma step_pow_intertwine n (S : 'M[R]_n) (Rw : nat -> 'M[R]_n) k (lam t : R) :
  lam <> 0 ->
  mexp (Rdiv t lam *: vl (lam *: S) Rw k) *m vlpow n lam 1 k
  = vlpow n lam 1 k *m mexp (t *: vl S Rw k).
Proof.
move=> lam0; apply: mexp_intertwine; rewrite !vl_scale.
have E : Rdiv t lam * lam = t.
  by rewrite /Rdiv -!RmultE Rmult_assoc Rinv_l // Rmult_1_r.
rewrite scalerA E; apply: vl_pow_intertwine => i _.
by rewrite scalerA mulrC E.
Qed.

(* ------------------------------------------------------------------ *)
(* The model's accumulation of order k                                 *)

Lemma mid_size n k : Nat.mul (Nat.add k 1) n = vlsz n k.
Proof. by rewrite vlszE -[Nat.add k 1]/(k + 1)%N addn1. Qed.

Definition mk_val n k (alpha : seq R) (T : 'M[R]_(vlsz n k)) : R :=
  IZR (fact_Z k) *
  (rv_of n alpha *m vltr (k := k) T *m (const_mx 1 : 'cV[R]_n)) ord0 ord0.

Section MomentsK.
Variable expm : seq (seq R) -> seq (seq R).
Hypothesis expm_sound : forall n A, wf n n A ->
  wf n n (expm A) /\ mx_of n n (expm A) = mexp (mx_of n n A).

(* regularised generators / canonical generators *)
Definition denVk n k (lam : R) (Rs : seq (seq R))
    (Ss : list (Q * seq (seq R))) : list (Q * 'M[R]_(vlsz n k)) :=
  [seq (x.1, vl (lam *: mx_of n n x.2) (rwd n Rs) k) | x <- Ss].

Definition denCk n k (Rs : seq (seq R))
    (Ss : list (Q * seq (seq R))) : list (Q * 'M[R]_(vlsz n k)) :=
  [seq (x.1, vl (mx_of n n x.2) (rwd n Rs) k) | x <- Ss].

Theorem accumulate_denote_loop n k Ss Slast Rs alpha lam ts :
  all_wf n Ss -> wf n n Slast -> rewards_wf n k Rs ->
  accumulate_raw OpsR expm k Ss Slast Rs alpha lam ts =
  List.map (mk_fun lam alpha)
    (loop_vectorised _ _ mulmx 1%:M (@stepV (vlsz n k) lam)
       (denVk n k lam Rs Ss) (vl (lam *: mx_of n n Slast) (rwd n Rs) k) ts).
Proof.
move=> Swf Lwf Rwf; rewrite /accumulate_raw L_length (wf_size Lwf) mid_size.
have H : List.Forall2 (@den (vlsz n k))
    (loop_vectorised _ _ (mmul OpsR) (mid OpsR (vlsz n k))
       (vl_step OpsR expm lam)
       (List.map (fun eS => (eS.1, vanloan OpsR (mscale OpsR lam eS.2) Rs k)) Ss)
       (vanloan OpsR (mscale OpsR lam Slast) Rs k) ts)
    (loop_vectorised _ _ mulmx 1%:M (@stepV (vlsz n k) lam)
       (denVk n k lam Rs Ss) (vl (lam *: mx_of n n Slast) (rwd n Rs) k) ts).
  apply: (@loop_vectorised_rel _ _ _ _ _ _ _ _ _ _
            (@den (vlsz n k)) (@den (vlsz n k))).
  - by move=> *; apply: den_mul.
  - exact: den_one.
  - by move=> *; apply: (den_vl_step expm_sound).
  - rewrite /denVk; elim: Swf => [|x Ss' xwf _ IH] /=; constructor => //.
    by split=> //=; apply: den_vanloan.
  - exact: den_vanloan.
apply: map_Forall2 H _ => Qm T; exact: acc_out_den.
Qed.

(* regularisation is invisible: the model computes k! times the Van Loan
   functional of the un-regularised generators, for every lam <> 0 *)
Theorem accumulate_denote n k Ss Slast Rs alpha lam ts :
  lam <> 0 -> all_wf n Ss -> wf n n Slast -> rewards_wf n k Rs ->
  accumulate_raw OpsR expm k Ss Slast Rs alpha lam ts =
  List.map (mk_val alpha)
    (loopM (vlsz n k) (denCk n k Rs Ss) (vl (mx_of n n Slast) (rwd n Rs) k) ts).
Proof.
move=> lam0 Swf Lwf Rwf; rewrite (accumulate_denote_loop _ _ _ Swf Lwf Rwf).
pose Dg := vlpow n lam 1 k.
pose Rel (A B : 'M[R]_(vlsz n k)) := A *m Dg = Dg *m B.
pose RelV (V V' : 'M[R]_(vlsz n k)) :=
  exists S, V = vl (lam *: S) (rwd n Rs) k /\ V' = vl S (rwd n Rs) k.
have Hrel : List.Forall2 Rel
    (loop_vectorised _ _ mulmx 1%:M (@stepV (vlsz n k) lam)
       (denVk n k lam Rs Ss) (vl (lam *: mx_of n n Slast) (rwd n Rs) k) ts)
    (loopM (vlsz n k) (denCk n k Rs Ss) (vl (mx_of n n Slast) (rwd n Rs) k) ts).
  apply: (@loop_vectorised_rel _ _ _ _ _ _ _ _ _ _ Rel RelV).
  - move=> a a' b b' aa bb; rewrite /Rel -mulmxA bb mulmxA aa.
    by rewrite mulmxA.
  - by rewrite /Rel mul1mx mulmx1.
  - move=> v v' dt [S [-> ->]]; rewrite /Rel /stepV /stepM.
    exact: step_pow_intertwine.
  - rewrite /denVk /denCk; elim: (Ss) => [|x Ss' IH] /=; constructor => //.
    by split=> //=; exists (mx_of n n x.2).
  - by exists (mx_of n n Slast).
apply: map_Forall2 Hrel _ => TL TC /(congr1 (vltr (k := k))).
rewrite vltr_mul_pow vltr_pow_mul !mul1r scale1r /mk_fun /mk_val => <-.
by rewrite -scalemxAr -scalemxAl [in RHS]mxE !RmultE mulrA.
Qed.

Corollary accumulate_lam_irrelevant n k Ss Slast Rs alpha lam1 lam2 ts :
  lam1 <> 0 -> lam2 <> 0 -> all_wf n Ss -> wf n n Slast -> rewards_wf n k Rs ->
  accumulate_raw OpsR expm k Ss Slast Rs alpha lam1 ts =
  accumulate_raw OpsR expm k Ss Slast Rs alpha lam2 ts.
Proof. by move=> l1 l2 Swf Lwf Rwf; rewrite !(@accumulate_denote n). Qed.

(* pointwise form, any order of the times *)
Theorem accumulate_pointwise n k Ss Slast Rs alpha lam ts :
  lam <> 0 -> all_wf n Ss -> wf n n Slast -> rewards_wf n k Rs ->
  epochs_wf (seq (seq R)) 0%QQ Ss -> List.Forall (fun t => (0 <= t)%QQ) ts ->
  accumulate_raw OpsR expm k Ss Slast Rs alpha lam ts =
  List.map (fun t => mk_val alpha
     (evalM (vlsz n k) (denCk n k Rs Ss) (vl (mx_of n n Slast) (rwd n Rs) k) t))
     ts.
Proof.
move=> lam0 Swf Lwf Rwf Ewf tpos; rewrite (@accumulate_denote n) //.
rewrite loopM_pointwise ?List.map_map //.
by rewrite /denCk; elim: (Ss) (0%QQ) Ewf => [|[en S] Ss' IH] lo //= [H /IH].
Qed.

(* single epoch: k! times the functional [mk] of proofs/ExpLaws.v *)
Corollary accumulate_is_mk n k Slast Rs alpha lam t :
  lam <> 0 -> wf n n Slast -> rewards_wf n k Rs ->
  accumulate_raw OpsR expm k [::] Slast Rs alpha lam [:: t] =
  [:: IZR (fact_Z k) *
      mk rexpm (rv_of n alpha) (mx_of n n Slast) (rwd n Rs) k (Q2R t) ord0 ord0].
Proof.
move=> lam0 Lwf Rwf; rewrite (@accumulate_denote n) //.
have -> : loopM (vlsz n k) (denCk n k Rs [::])
            (vl (mx_of n n Slast) (rwd n Rs) k) [:: t]
        = [:: evalM (vlsz n k) [::] (vl (mx_of n n Slast) (rwd n Rs) k) t] by [].
by rewrite evalM_single.
Qed.

(* lumping of the model's moments of order k (arbitrary epochs and times) *)
Theorem accumulate_lumping m n k P SsL SlastL SsC SlastC RsL RsC alphaL lam ts :
  wf m n P -> wf m m SlastL -> wf n n SlastC ->
  List.Forall2 (lump_rel m n P) SsL SsC ->
  mmul OpsR SlastL P = mmul OpsR P SlastC ->
  (forall i, (i < k)%N ->
     mmul OpsR (diagm OpsR (nth [::] RsL i)) P
     = mmul OpsR P (diagm OpsR (nth [::] RsC i))) ->
  mvec OpsR P (ones OpsR n) = ones OpsR m ->
  rewards_wf m k RsL -> rewards_wf n k RsC -> size alphaL = m ->
  accumulate_raw OpsR expm k SsL SlastL RsL alphaL lam ts
  = accumulate_raw OpsR expm k SsC SlastC RsC (vmat OpsR alphaL P) lam ts.
Proof.
move=> Pwf LLwf LCwf Hss Hlast Hr P1 RLwf RCwf sa.
have SLwf : all_wf m SsL by elim: Hss => [|x y ? ? [_ ? _ _] _ ?]; constructor.
have SCwf : all_wf n SsC by elim: Hss => [|x y ? ? [_ _ ? _] _ ?]; constructor.
rewrite (accumulate_denote_loop _ _ _ SLwf LLwf RLwf).
rewrite (accumulate_denote_loop _ _ _ SCwf LCwf RCwf).
pose PM := mx_of m n P; pose PP := vldiag PM k.
pose Rel (A : 'M[R]_(vlsz m k)) (B : 'M[R]_(vlsz n k)) := A *m PP = PP *m B.
have RP i : (i < k)%N -> rwd m RsL i *m PM = PM *m rwd n RsC i.
  move=> ik; rewrite /rwd -(mx_of_diagm (RLwf i ik)) -(mx_of_diagm (RCwf i ik)).
  by apply: mmul_intertwine (Hr i ik) => //; apply: wf_diagm; auto.
have VLP SL SC : wf m m SL -> wf n n SC -> mmul OpsR SL P = mmul OpsR P SC ->
    vl (lam *: mx_of m m SL) (rwd m RsL) k *m PP
    = PP *m vl (lam *: mx_of n n SC) (rwd n RsC) k.
  move=> Lwf Cwf /(mmul_intertwine Pwf Lwf Cwf) SP.
  by apply: vl_intertwine => //; apply: scale_intertwine.
have Hrel : List.Forall2 Rel
    (loop_vectorised _ _ mulmx 1%:M (@stepV (vlsz m k) lam)
       (denVk m k lam RsL SsL) (vl (lam *: mx_of m m SlastL) (rwd m RsL) k) ts)
    (loop_vectorised _ _ mulmx 1%:M (@stepV (vlsz n k) lam)
       (denVk n k lam RsC SsC) (vl (lam *: mx_of n n SlastC) (rwd n RsC) k) ts).
  apply: (@loop_vectorised_rel _ _ _ _ _ _ _ _ _ _ Rel Rel).
  - move=> a a' b b' aa bb; rewrite /Rel -mulmxA bb mulmxA aa.
    by rewrite mulmxA.
  - by rewrite /Rel mul1mx mulmx1.
  - move=> v v' dt vv; rewrite /Rel /stepV.
    by apply: mexp_intertwine; apply: scale_intertwine.
  - elim: Hss => [|x y xs ys [xy xwf ywf H] _ IH] /=; constructor => //.
    by split=> //=; apply: VLP.
  - exact: VLP.
apply: map_Forall2 Hrel _ => TL TC TT; rewrite /mk_fun; congr (_ * _).
have <- : PM *m const_mx 1 = (const_mx 1 : 'cV[R]_m).
  by rewrite -(ones_cv n) -(cv_of_mvec Pwf (size_ones n)) P1 ones_cv.
rewrite (rv_of_vmat Pwf sa) -/PM.
have URP : vltr (k := k) TL *m PM = PM *m vltr (k := k) TC.
  by rewrite -vltr_mul_diag -/PP TT vltr_diag_mul.
by rewrite mulmxA -(mulmxA _ (vltr TL)) URP !mulmxA.
Qed.
End MomentsK.

(* hypothesis-free instances with the ideal backend of CdfFacts.v *)
Definition accumulate1_is_m1_ideal := accumulate1_is_m1 expm_ideal_sound.
Definition accumulate_is_mk_ideal := accumulate_is_mk expm_ideal_sound.
Definition accumulate_lumping_ideal := accumulate_lumping expm_ideal_sound.

Print Assumptions accumulate1_denote_loop.
Print Assumptions accumulate1_denote_single.
Print Assumptions accumulate1_is_m1.
Print Assumptions accumulate1_lam_irrelevant.
Print Assumptions accumulate1_lumping.
Print Assumptions mx_of_vanloan.
Print Assumptions vltr_mx_of.
Print Assumptions accumulate_denote_loop.
Print Assumptions accumulate_denote.
Print Assumptions accumulate_lam_irrelevant.
Print Assumptions accumulate_pointwise.
Print Assumptions accumulate_is_mk.
Print Assumptions accumulate_lumping.
