(* First-moment accumulation of model/PhaseType.v ([accumulate_raw] with
   k = 1 at [OpsR], sound backend): it denotes the Van Loan functional
   [m1] of proofs/ExpLaws.v with the real matrix exponential, independently
   of the regularisation factor lam <> 0; lumping at the level of the model. *)
Require Import Reals Psatz QArith Qreals Lqa.
From mathcomp Require Import all_ssreflect all_algebra.
From PG Require Import analysis.Rstruct analysis.RSums analysis.MExp analysis.MExpLaws.
From PG Require Import base.Ops base.OpsR base.Perm model.CoalModels model.Matrix
  model.Loop model.PhaseType.
From PG Require Import proofs.LoopProofs proofs.ExpLaws.
From PG Require Import analysis.Denote analysis.CdfFacts.
Set Implicit Arguments. Unset Strict Implicit. Unset Printing Implicit Defensive.
Import GRing.Theory.
Delimit Scope Q_scope with QQ.
Local Open Scope ring_scope.

(* ------------------------------------------------------------------ *)
(* The Van Loan matrix for k = 1                                       *)

Lemma vanloan1E (Sg : seq (seq R)) (r : seq R) :
  vanloan OpsR Sg [:: r] 1 =
  block_grid [:: [:: Sg; diagm OpsR r];
                 [:: mzero OpsR (size Sg) (size Sg); Sg]].
Proof. by []. Qed.

(* [[lam S, diag r], [0, lam S]] *)
Definition VL n (lam : R) (S : 'M[R]_n) (r : seq R) : 'M[R]_(n + n) :=
  block_mx (lam *: S) (diag_mx (rv_of n r)) 0 (lam *: S).

Lemma den_vanloan1 n lam Sg r : wf n n Sg -> size r = n ->
  den (n := n + n) (vanloan OpsR (mscale OpsR lam Sg) [:: r] 1)
      (VL lam (mx_of n n Sg) r).
Proof.
move=> Swf sr; have Lwf := wf_mscale lam Swf.
rewrite vanloan1E (wf_size Lwf); split.
  by apply: wf_block_grid2 => //; [apply: wf_diagm | apply: wf_mzero].
rewrite (mx_of_block_grid2 Lwf (wf_mzero n n)).
by rewrite /VL mx_of_mscale mx_of_diagm // mx_of_mzero.
Qed.

Lemma ones_cv n : cv_of n (ones OpsR n) = const_mx 1.
Proof.
apply/matrixP => i j; rewrite !mxE /ones L_repeat nth_nseq.
by rewrite ltn_ord.
Qed.

Lemma size_ones n : size (ones OpsR n) = n.
Proof. by rewrite /ones L_repeat size_nseq. Qed.

Lemma twice_n n : Nat.mul (Nat.add 1 1) n = (n + n)%N.
Proof. by rewrite -[LHS]/(n + (n + 0))%N addn0. Qed.

(* ------------------------------------------------------------------ *)
(* The read-out [acc_out] for k = 1                                    *)

Definition m1_fun n (lam : R) (alpha : seq R) (T : 'M[R]_(n + n)) : R :=
  lam * (rv_of n alpha *m ursubmx T *m (const_mx 1 : 'cV[R]_n)) ord0 ord0.

Lemma acc_out1E n (lam : R) alpha Qm :
  acc_out OpsR 1 n lam alpha Qm =
  lam * dot OpsR alpha (mvec OpsR (sub_block Qm 0 n n n) (ones OpsR n)).
Proof.
rewrite /acc_out Nat.mul_1_l; set X := dot _ _ _.
by change (1 * (lam * 1) * X = lam * X); rewrite mul1r mulr1.
Qed.

Lemma acc_out1_den n lam alpha Qm (T : 'M[R]_(n + n)) : den Qm T ->
  acc_out OpsR 1 n lam alpha Qm = m1_fun lam alpha T.
Proof.
move=> [Qwf <-]; rewrite acc_out1E /m1_fun; congr (_ * _).
have Bwf : wf n n (sub_block Qm 0 n n n).
  by apply: wf_sub_block Qwf _ _; rewrite ?add0n ?leq_addr.
rewrite (@dot_mulmx_gen n); last first.
  by rewrite size_mvec (wf_size Bwf) geq_minr.
rewrite (cv_of_mvec Bwf (size_ones n)) ones_cv mulmxA.
by rewrite (mx_of_sub_block_ur n n n n).
Qed.

(* ------------------------------------------------------------------ *)

Section Moments.
Variable expm : seq (seq R) -> seq (seq R).
Hypothesis expm_sound : forall n A, wf n n A ->
  wf n n (expm A) /\ mx_of n n (expm A) = mexp (mx_of n n A).

(* the denoted step: mexp ((dt / lam) *: V) *)
Definition stepV N (lam : R) (V : 'M[R]_N) (dt : Q) : 'M[R]_N :=
  mexp (Rdiv (Q2R dt) lam *: V).

Lemma den_vl_step N lam V (V' : 'M[R]_N) dt :
  den V V' -> den (vl_step OpsR expm lam V dt) (stepV lam V' dt).
Proof.
move=> [Vwf <-]; rewrite /vl_step.
have [Ewf E] := expm_sound (wf_mscale (odiv OpsR (oofQ OpsR dt) lam) Vwf).
by split=> //; rewrite E mx_of_mscale.
Qed.

Definition denV n (lam : R) (r : seq R) (Ss : list (Q * seq (seq R))) :
    list (Q * 'M[R]_(n + n)) :=
  [seq (x.1, VL lam (mx_of n n x.2) r) | x <- Ss].

Notation loopV n lam :=
  (loop_vectorised 'M[R]_(n + n) 'M[R]_(n + n) mulmx 1%:M (stepV lam)).

(* denotation of the first-moment accumulation: arbitrary epochs and times *)
Theorem accumulate1_denote_loop n Ss Slast r alpha lam ts :
  all_wf n Ss -> wf n n Slast -> size r = n ->
  accumulate_raw OpsR expm 1 Ss Slast [:: r] alpha lam ts =
  List.map (m1_fun lam alpha)
    (loopV n lam (denV n lam r Ss) (VL lam (mx_of n n Slast) r) ts).
Proof.
move=> Swf Lwf sr; rewrite /accumulate_raw L_length (wf_size Lwf) twice_n.
have H : List.Forall2 (@den (n + n))
    (loop_vectorised _ _ (mmul OpsR) (mid OpsR (n + n)) (vl_step OpsR expm lam)
       (List.map (fun eS => (eS.1, vanloan OpsR (mscale OpsR lam eS.2) [:: r] 1)) Ss)
       (vanloan OpsR (mscale OpsR lam Slast) [:: r] 1) ts)
    (loopV n lam (denV n lam r Ss) (VL lam (mx_of n n Slast) r) ts).
  apply: (@loop_vectorised_rel _ _ _ _ _ _ _ _ _ _
            (@den (n + n)) (@den (n + n))).
  - by move=> *; apply: den_mul.
  - exact: den_one.
  - by move=> *; apply: den_vl_step.
  - rewrite /denV; elim: Swf => [|x Ss' xwf _ IH] /=; constructor => //.
    by split=> //=; apply: den_vanloan1.
  - exact: den_vanloan1.
apply: map_Forall2 H _ => Qm T; exact: acc_out1_den.
Qed.

(* single epoch, single time *)
Theorem accumulate1_denote_single n Slast r alpha lam t :
  wf n n Slast -> size r = n ->
  accumulate_raw OpsR expm 1 [::] Slast [:: r] alpha lam [:: t] =
  [:: lam * (rv_of n alpha *m
             ursubmx (mexp (Rdiv (Q2R t) lam *:
                block_mx (lam *: mx_of n n Slast) (diag_mx (rv_of n r))
                         0 (lam *: mx_of n n Slast)))
             *m (const_mx 1 : 'cV[R]_n)) ord0 ord0].
Proof.
move=> Lwf sr; rewrite (@accumulate1_denote_loop n) //.
rewrite /loop_vectorised /vectorised /= /m1_fun mul1mx /stepV /VL.
by rewrite (Qeq_eqR (t - 0)%QQ t) // /Qminus Qplus_0_r.
Qed.

(* hence the model computes the Van Loan functional m1 with the real
   exponential, whatever the regularisation factor *)
Theorem accumulate1_is_m1 n Slast r alpha lam t :
  wf n n Slast -> size r = n -> lam <> 0 ->
  accumulate_raw OpsR expm 1 [::] Slast [:: r] alpha lam [:: t] =
  [:: m1 rexpm (rv_of n alpha) (mx_of n n Slast) (diag_mx (rv_of n r)) (Q2R t)
        ord0 ord0].
Proof.
move=> Lwf sr lam0; rewrite (accumulate1_denote_single _ _ _ Lwf sr).
congr [:: _]; rewrite /m1.
rewrite (@m1_regularisation _ rexpm (@mexp_intertwine) _ _ _ _ lam (Q2R t)
           (Rdiv (Q2R t) lam)) ?mxE //.
by rewrite /Rdiv -RmultE Rmult_assoc Rinv_l // Rmult_1_r.
Qed.

Corollary accumulate1_lam_irrelevant n Slast r alpha lam1 lam2 t :
  wf n n Slast -> size r = n -> lam1 <> 0 -> lam2 <> 0 ->
  accumulate_raw OpsR expm 1 [::] Slast [:: r] alpha lam1 [:: t] =
  accumulate_raw OpsR expm 1 [::] Slast [:: r] alpha lam2 [:: t].
Proof. by move=> Lwf sr l1 l2; rewrite !(@accumulate1_is_m1 n). Qed.

(* ------------------------------------------------------------------ *)
(* Lumping of the model's first moments (arbitrary epochs and times)   *)

Theorem accumulate1_lumping m n P SsL SlastL SsC SlastC rL rC alphaL lam ts :
  wf m n P -> wf m m SlastL -> wf n n SlastC ->
  List.Forall2 (lump_rel m n P) SsL SsC ->
  mmul OpsR SlastL P = mmul OpsR P SlastC ->
  mmul OpsR (diagm OpsR rL) P = mmul OpsR P (diagm OpsR rC) ->
  mvec OpsR P (ones OpsR n) = ones OpsR m ->
  size rL = m -> size rC = n -> size alphaL = m ->
  accumulate_raw OpsR expm 1 SsL SlastL [:: rL] alphaL lam ts
  = accumulate_raw OpsR expm 1 SsC SlastC [:: rC] (vmat OpsR alphaL P) lam ts.
Proof.
move=> Pwf LLwf LCwf Hss Hlast Hr P1 srL srC sa.
have SLwf : all_wf m SsL by elim: Hss => [|x y ? ? [_ ? _ _] _ ?]; constructor.
have SCwf : all_wf n SsC by elim: Hss => [|x y ? ? [_ _ ? _] _ ?]; constructor.
rewrite (accumulate1_denote_loop _ _ _ SLwf LLwf srL).
rewrite (accumulate1_denote_loop _ _ _ SCwf LCwf srC).
pose PM := mx_of m n P; pose PP := block_mx PM 0 0 PM.
pose Rel (A : 'M[R]_(m + m)) (B : 'M[R]_(n + n)) := A *m PP = PP *m B.
have RP : diag_mx (rv_of m rL) *m PM = PM *m diag_mx (rv_of n rC).
  rewrite -(mx_of_diagm srL) -(mx_of_diagm srC).
  by apply: mmul_intertwine => //; apply: wf_diagm.
have VLP SL SC : wf m m SL -> wf n n SC -> mmul OpsR SL P = mmul OpsR P SC ->
    VL lam (mx_of m m SL) rL *m PP = PP *m VL lam (mx_of n n SC) rC.
  move=> Lwf Cwf /(mmul_intertwine Pwf Lwf Cwf) SP.
  rewrite /VL /PP !mulmx_block !(mulmx0, mul0mx, addr0, add0r) RP.
  by rewrite (scale_intertwine lam SP).
have Hrel : List.Forall2 Rel
    (loopV m lam (denV m lam rL SsL) (VL lam (mx_of m m SlastL) rL) ts)
    (loopV n lam (denV n lam rC SsC) (VL lam (mx_of n n SlastC) rC) ts).
  apply: (@loop_vectorised_rel _ _ _ _ _ _ _ _ _ _ Rel Rel).
  - move=> a a' b b' aa bb; rewrite /Rel -mulmxA bb mulmxA aa.
    by rewrite mulmxA.
  - by rewrite /Rel mul1mx mulmx1.
  - move=> v v' dt vv; rewrite /Rel /stepV.
    by apply: mexp_intertwine; apply: scale_intertwine.
  - elim: Hss => [|x y xs ys [xy xwf ywf H] _ IH] /=; constructor => //.
    by split=> //=; apply: VLP.
  - exact: VLP.
apply: map_Forall2 Hrel _ => TL TC TT; rewrite /m1_fun; congr (_ * _).
have <- : PM *m const_mx 1 = (const_mx 1 : 'cV[R]_m).
  by rewrite -(ones_cv n) -(cv_of_mvec Pwf (size_ones n)) P1 ones_cv.
rewrite (rv_of_vmat Pwf sa) -/PM.
have URP : ursubmx TL *m PM = PM *m ursubmx TC.
  by rewrite -(ursubmx_mul_diag TL PM PM) -/PP TT ursubmx_diag_mul.
by rewrite mulmxA -(mulmxA _ (ursubmx TL)) URP !mulmxA.
Qed.

End Moments.

Definition accumulate1_is_m1_ideal := accumulate1_is_m1 expm_ideal_sound.

Print Assumptions accumulate1_denote_loop.
Print Assumptions accumulate1_denote_single.
Print Assumptions accumulate1_is_m1.
Print Assumptions accumulate1_lam_irrelevant.
Print Assumptions accumulate1_lumping.
