(* Mathematical Components algebraic structures on the standard-library
   real numbers [R], following the classical [Rstruct.v] (CoqApprox /
   mathcomp-analysis) for the packed-class hierarchy of mathcomp 1.15.

   After importing this file, ['M[R]_n] is a matrix algebra over the
   [comRingType] (indeed [fieldType]) [R], and the ring operations are
   convertible to [Rplus], [Rmult], [Ropp], [R0], [R1]. *)
Require Import Rdefinitions Raxioms RIneq Rbasic_fun Rfunctions.
Require Import Epsilon FunctionalExtensionality.
From mathcomp Require Import all_ssreflect all_algebra.
Set Implicit Arguments. Unset Strict Implicit. Unset Printing Implicit Defensive.

Local Open Scope R_scope.

(* ------------------------------------------------------------------ *)
(* eqType, choiceType                                                  *)

Definition eqr (r1 r2 : R) : bool :=
  if Req_EM_T r1 r2 is left _ then true else false.

Lemma eqrP : Equality.axiom eqr.
Proof.
by move=> r1 r2; rewrite /eqr; case: Req_EM_T => H; apply: (iffP idP).
Qed.

Canonical R_eqMixin := EqMixin eqrP.
Canonical R_eqType := Eval hnf in EqType R R_eqMixin.

Fact inhR : inhabited R.
Proof. exact: (inhabits 0). Qed.

Definition pickR (P : pred R) (n : nat) :=
  let x := epsilon inhR P in if P x then Some x else None.

Fact pickR_some P n x : pickR P n = Some x -> P x.
Proof. by rewrite /pickR; case: (boolP (P _)) => // Px [<-]. Qed.

Fact pickR_ex (P : pred R) :
  (exists x : R, P x) -> exists n, pickR P n.
Proof. by rewrite /pickR; move=> /(epsilon_spec inhR)->; exists 0%N. Qed.

Fact pickR_ext (P Q : pred R) : P =1 Q -> pickR P =1 pickR Q.
Proof.
move=> PEQ n; rewrite /pickR; set u := epsilon _ _; set v := epsilon _ _.
suff->: u = v by rewrite PEQ.
by congr (epsilon _ _); apply: functional_extensionality => x; rewrite PEQ.
Qed.

Definition R_choiceMixin : choiceMixin R :=
  Choice.Mixin pickR_some pickR_ex pickR_ext.

Canonical R_choiceType := Eval hnf in ChoiceType R R_choiceMixin.

(* ------------------------------------------------------------------ *)
(* zmodType, ringType, comRingType                                     *)

Fact RplusA : associative Rplus.
Proof. by move=> *; rewrite Rplus_assoc. Qed.

Definition R_zmodMixin := ZmodMixin RplusA Rplus_comm Rplus_0_l Rplus_opp_l.
Canonical R_zmodType := Eval hnf in ZmodType R R_zmodMixin.

Fact RmultA : associative Rmult.
Proof. by move=> *; rewrite Rmult_assoc. Qed.

Fact R1_neq_0 : R1 != R0.
Proof. by apply/eqP/R1_neq_R0. Qed.

Definition R_ringMixin := RingMixin RmultA Rmult_1_l Rmult_1_r
  Rmult_plus_distr_r Rmult_plus_distr_l R1_neq_0.
Canonical R_ringType := Eval hnf in RingType R R_ringMixin.
Canonical R_comRingType := Eval hnf in ComRingType R Rmult_comm.

(* ------------------------------------------------------------------ *)
(* unitRingType, idomainType, fieldType                                *)

Definition Rinvx (r : R) : R := if r != 0 then / r else r.

Definition unit_R (r : R) : bool := r != 0.

Lemma RmultRinvx : {in unit_R, left_inverse 1 Rinvx Rmult}.
Proof.
move=> r; rewrite -topredE /unit_R /Rinvx => /= rNZ /=.
by rewrite rNZ Rinv_l //; apply/eqP.
Qed.

Lemma RinvxRmult : {in unit_R, right_inverse 1 Rinvx Rmult}.
Proof.
move=> r; rewrite -topredE /unit_R /Rinvx => /= rNZ /=.
by rewrite rNZ Rinv_r //; apply/eqP.
Qed.

Lemma intro_unit_R x y : y * x = 1 /\ x * y = 1 -> unit_R x.
Proof.
move=> [yx1 _]; apply/eqP => x0.
by move: yx1; rewrite x0 Rmult_0_r => /esym; apply: R1_neq_R0.
Qed.

Lemma Rinvx_out : {in predC unit_R, Rinvx =1 id}.
Proof. by move=> x; rewrite inE /= /Rinvx -if_neg => ->. Qed.

Definition R_unitRingMixin :=
  UnitRingMixin RmultRinvx RinvxRmult intro_unit_R Rinvx_out.
Canonical R_unitRingType := Eval hnf in UnitRingType R R_unitRingMixin.
Canonical R_comUnitRingType := Eval hnf in [comUnitRingType of R].

Lemma R_idomainMixin x y : x * y = 0 -> (x == 0) || (y == 0).
Proof.
by case/Rmult_integral => ->; rewrite eqxx ?orbT.
Qed.

Canonical R_idomainType := Eval hnf in IdomainType R R_idomainMixin.

Lemma R_fieldMixin : GRing.Field.mixin_of [unitRingType of R].
Proof. by []. Qed.

Canonical R_fieldType := Eval hnf in FieldType R R_fieldMixin.

(* ------------------------------------------------------------------ *)
(* Bridges between the two vocabularies                                *)

Local Open Scope ring_scope.
Import GRing.Theory.

Lemma RplusE (x y : R) : Rplus x y = x + y. Proof. by []. Qed.
Lemma RmultE (x y : R) : Rmult x y = x * y. Proof. by []. Qed.
Lemma RoppE (x : R) : Ropp x = - x. Proof. by []. Qed.
Lemma RminusE (x y : R) : Rminus x y = x - y. Proof. by []. Qed.
Lemma R0E : R0 = 0. Proof. by []. Qed.
Lemma R1E : R1 = 1. Proof. by []. Qed.

Lemma RinvE (x : R) : x != 0 -> Rinv x = x^-1.
Proof. by move=> x0; rewrite /GRing.inv /= /Rinvx x0. Qed.

Lemma INRE (n : nat) : INR n = n%:R.
Proof.
elim: n => [|n IH] //; rewrite S_INR IH.
by rewrite -[n.+1]addn1 natrD.
Qed.

Lemma RmulrnE (x : R) (n : nat) : x *+ n = Rmult (INR n) x.
Proof. by rewrite INRE RmultE mulr_natl. Qed.

Lemma RpowE (x : R) (n : nat) : pow x n = x ^+ n.
Proof. by elim: n => [|n IH] //=; rewrite IH exprS. Qed.

Lemma factE (n : nat) : fact n = n`!.
Proof. by elim: n => [|n IH] //=; rewrite factS -IH. Qed.

(* ------------------------------------------------------------------ *)
(* The structure is usable: matrices over R form a ring over a          *)
(* commutative ring.                                                    *)

Lemma Rstruct_sanity n (A B : 'M[R]_n) (c : R) :
  (c *: A) *m B = c *: (A *m B) /\ (A + B)^T = A^T + B^T.
Proof. by rewrite -scalemxAl linearD. Qed.

Print Assumptions R_comRingType.
Print Assumptions R_fieldType.
Print Assumptions Rstruct_sanity.
