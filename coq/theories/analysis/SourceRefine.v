(* Property C10 (refinement): inserting a redundant change point - the same rate matrix on both sides - changes no accumulated
   moment (any order k, any rewards) and no value of the distribution function, for the translated _accumulate / cdf
   (gen/LoopsGen.v, regenerated from phasegen/distributions.py on every run) on any demography and any list of end times.
   From redundant_change_point of proofs/LoopProofs.v (generic in the monoid) through the pointwise denotations of
   analysis/SourceLoops.v; split_epoch commutes with the map that builds the Van Loan matrices. *)
Require Import Reals Psatz QArith Qreals.
From mathcomp Require Import all_ssreflect all_algebra.
From PG Require Import analysis.Rstruct analysis.RSums analysis.MExp analysis.MExpLaws.
From PG Require Import base.Ops base.OpsR base.Perm model.Matrix model.Loop model.PhaseType.
From PG Require Import proofs.LoopProofs proofs.ExpLaws proofs.ExpLaws2 analysis.Denote analysis.CdfFacts analysis.DenotePhaseType.
From PG Require Import gen.NpLoops gen.LoopsGen proofs.GenLoopsEquiv analysis.SourceLoops analysis.SourceLinear.
Set Implicit Arguments. Unset Strict Implicit. Unset Printing Implicit Defensive.
Import GRing.Theory.
Delimit Scope Q_scope with QQ.
Local Open Scope ring_scope.

Lemma split_epoch_map (V W : Type) (f : V -> W) (c : Q) (vlast : V) (Ss : seq (Q * V)) :
  split_epoch W c (f vlast) [seq (x.1, f x.2) | x <- Ss] = [seq (x.1, f x.2) | x <- split_epoch V c vlast Ss].
Proof.
elim: Ss => [|[en v] Ss IH] //=.
by case: (Qlt_le_dec c en) => _ //=; rewrite IH.
Qed.

Lemma split_epoch_Forall (V : Type) (P : V -> Prop) (c : Q) (vlast : V) (Ss : seq (Q * V)) :
  P vlast -> List.Forall (fun x => P x.2) Ss -> List.Forall (fun x => P x.2) (split_epoch V c vlast Ss).
Proof.
move=> Pl; elim=> [|[en v] l Pv Hl IH] /=; first by constructor.
by case: (Qlt_le_dec c en) => _; constructor => //; constructor.
Qed.

Lemma hd_all_epochs_split (c : Q) (Slast : seq (seq R)) (Ss : seq (Q * seq (seq R))) :
  (List.hd (None, Slast) (all_epochs (split_epoch _ c Slast Ss) Slast)).2 = (List.hd (None, Slast) (all_epochs Ss Slast)).2.
Proof. by case: Ss => [|[en v] Ss] //=; case: (Qlt_le_dec c en). Qed.

Lemma evalM_redundant_change_point n (Ss : seq (Q * 'M[R]_n)) (vlast : 'M[R]_n) (c u : Q) :
  epochs_wf 'M[R]_n 0%QQ Ss -> (0 < c)%QQ -> (0 <= u)%QQ ->
  evalM n (split_epoch _ c vlast Ss) vlast u = evalM n Ss vlast u.
Proof.
apply: redundant_change_point.
- by move=> a b d; rewrite mulmxA.
- exact: stepM_proper.
- exact: stepM_add.
Qed.

Section Src.
Variable expm : seq (seq R) -> seq (seq R).
Hypothesis expm_sound : forall n A, wf n n A -> wf n n (expm A) /\ mx_of n n (expm A) = mexp (mx_of n n A).

(* property C10: inserting a redundant change point (same rate matrix on both sides) changes no accumulated moment and no
   value of the distribution function - translated source, any order k, any rewards, any list of end times *)
Theorem source_accumulate_redundant_change_point (regf : seq (seq R) -> R) (n k : nat) (Ss : seq (Q * seq (seq R)))
    (Slast : seq (seq R)) (Rs : seq (seq R)) (alpha : seq R) (ts : seq Q) (c : Q) :
  regf (List.hd (None, Slast) (all_epochs Ss Slast)).2 <> 0 ->
  List.Forall (fun x : Q * seq (seq R) => wf n n x.2) Ss -> wf n n Slast ->
  (forall i, (i < k)%N -> size (nth [::] Rs i) = n) ->
  epochs_wf (seq (seq R)) 0%QQ Ss -> epochs_wf (seq (seq R)) 0%QQ (split_epoch _ c Slast Ss) -> (0 < c)%QQ ->
  List.Forall (fun t => (0 <= t)%QQ) ts ->
  PhaseTypeDistribution_accumulate OpsR expm regf (length Slast) k (all_epochs (split_epoch _ c Slast Ss) Slast) Rs alpha ts
  = PhaseTypeDistribution_accumulate OpsR expm regf (length Slast) k (all_epochs Ss Slast) Rs alpha ts.
Proof.
move=> r0 Swf Lwf HR Ewf Ewf' c0 T0.
rewrite (@source_accumulate_pointwise expm expm_sound regf n k (split_epoch _ c Slast Ss)) //; first last.
- exact: (@split_epoch_Forall _ (fun S => wf n n S)).
- by rewrite hd_all_epochs_split.
rewrite (@source_accumulate_pointwise expm expm_sound regf n k Ss) //.
rewrite !L_map; elim: T0 => [|t l t0 _ IH] //=; congr (_ :: _) => //.
congr (mk_val _ _).
rewrite /denCk.
rewrite -(@split_epoch_map _ _ (fun S => vl (mx_of n n S) (rwd n Rs) k)).
apply: evalM_redundant_change_point => //.
by elim: (Ss) (0%QQ) Ewf => [|[en S] Ss2 IH2] lo //= [H /IH2].
Qed.

Theorem source_cdf_redundant_change_point (n : nat) (Ss : seq (Q * seq (seq R))) (Slast : seq (seq R)) (alpha e : seq R)
    (ts : seq Q) (c : Q) :
  List.Forall (fun x : Q * seq (seq R) => wf n n x.2) Ss -> wf n n Slast -> size e = n ->
  epochs_wf (seq (seq R)) 0%QQ Ss -> epochs_wf (seq (seq R)) 0%QQ (split_epoch _ c Slast Ss) -> (0 < c)%QQ ->
  List.Forall (fun t => (0 <= t)%QQ) ts ->
  TreeHeightDistribution_cdf OpsR expm (length Slast) (all_epochs (split_epoch _ c Slast Ss) Slast) alpha e ts
  = TreeHeightDistribution_cdf OpsR expm (length Slast) (all_epochs Ss Slast) alpha e ts.
Proof.
move=> Swf Lwf se Ewf Ewf' c0 T0.
rewrite (@source_cdf_denotes_absorption_probability expm expm_sound n (split_epoch _ c Slast Ss)) //; last first.
  exact: (@split_epoch_Forall _ (fun S => wf n n S)).
rewrite (@source_cdf_denotes_absorption_probability expm expm_sound n Ss) //.
rewrite !L_map; elim: T0 => [|t l t0 _ IH] //=; congr (_ :: _) => //.
rewrite /TM /denE -(@split_epoch_map _ _ (mx_of n n)).
rewrite evalM_redundant_change_point //.
exact: epochs_wf_denE.
Qed.
End Src.

Print Assumptions source_accumulate_redundant_change_point.
Print Assumptions source_cdf_redundant_change_point.
