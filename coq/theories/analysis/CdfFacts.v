(* The model's [cdf] (model/PhaseType.v at [OpsR], with a sound backend
   [expm]) denotes  1 - alpha T(t) e  with  T(t)  the ordered product of real
   matrix exponentials over the epochs traversed; consequences: range,
   monotonicity, lumping, all stated about the MODEL function. *)
Require Import Reals Psatz QArith Qreals Lqa.
From mathcomp Require Import all_ssreflect all_algebra.
From PG Require Import analysis.Rstruct analysis.RSums analysis.MExp analysis.MExpLaws.
From PG Require Import base.Ops base.OpsR base.Perm model.Matrix model.Loop model.PhaseType.
From PG Require Import proofs.LoopProofs proofs.ExpLaws.
From PG Require Import analysis.Denote.
Set Implicit Arguments. Unset Strict Implicit. Unset Printing Implicit Defensive.
Import GRing.Theory.
Delimit Scope Q_scope with QQ.
Local Open Scope ring_scope.

(* ------------------------------------------------------------------ *)
(* The loop of model/Loop.v preserves any relation between two          *)
(* instances that is preserved by the operations (a homomorphism        *)
(* principle; no hypothesis on the times).                              *)

Section LoopRel.
Variables (M1 V1 M2 V2 : Type).
Variables (mul1 : M1 -> M1 -> M1) (one1 : M1) (step1 : V1 -> Q -> M1).
Variables (mul2 : M2 -> M2 -> M2) (one2 : M2) (step2 : V2 -> Q -> M2).
Variables (RM : M1 -> M2 -> Prop) (RV : V1 -> V2 -> Prop).
Hypothesis RM_mul :
  forall a a' b b', RM a a' -> RM b b' -> RM (mul1 a b) (mul2 a' b').
Hypothesis RM_one : RM one1 one2.
Hypothesis RM_step : forall v v' dt, RV v v' -> RM (step1 v dt) (step2 v' dt).

Definition RE (x : Q * V1) (y : Q * V2) : Prop := x.1 = y.1 /\ RV x.2 y.2.

Definition RS (s1 : lstate M1 V1) (s2 : lstate M2 V2) : Prop :=
  [/\ RM (lQ s1) (lQ s2), lprev s1 = lprev s2
    & List.Forall2 RE (lrest s1) (lrest s2)].

Lemma advance_rest_rel vl1 vl2 r1 r2 u : RV vl1 vl2 -> List.Forall2 RE r1 r2 ->
  forall Q1 Q2 up, RM Q1 Q2 ->
  RS (advance_rest M1 V1 mul1 step1 vl1 Q1 up r1 u)
     (advance_rest M2 V2 mul2 step2 vl2 Q2 up r2 u).
Proof.
move=> Hv; elim=> [|[e1 v1] [e2 v2] r1' r2' [/= He Hvv] Hr IH] Q1 Q2 up HQ.
  split=> /=; [|by []|by constructor].
  by apply: RM_mul => //; apply: RM_step.
rewrite /= -He; case: (Qlt_le_dec e1 u) => _.
  by apply: IH; apply: RM_mul => //; apply: RM_step.
split=> /=; [|by []|by constructor].
by apply: RM_mul => //; apply: RM_step.
Qed.

Lemma advance_rel vl1 vl2 s1 s2 u : RV vl1 vl2 -> RS s1 s2 ->
  RS (advance M1 V1 mul1 step1 vl1 s1 u) (advance M2 V2 mul2 step2 vl2 s2 u).
Proof.
by move=> Hv [HQ Hp Hr]; rewrite /advance Hp; apply: advance_rest_rel.
Qed.

Lemma run_loop_rel vl1 vl2 ts : RV vl1 vl2 -> forall s1 s2, RS s1 s2 ->
  List.Forall2 RM (run_loop M1 V1 mul1 step1 vl1 s1 ts)
                  (run_loop M2 V2 mul2 step2 vl2 s2 ts).
Proof.
move=> Hv; elim: ts => [|u ts IH] s1 s2 Hs /=; first by constructor.
have Hs' := advance_rel u Hv Hs.
by constructor; [case: Hs' | apply: IH].
Qed.

Lemma Forall2_nth (xs : list M1) (ys : list M2) d d' i :
  List.Forall2 RM xs ys -> RM d d' -> RM (List.nth i xs d) (List.nth i ys d').
Proof.
move=> H Hd; elim: H i => [|x y xs' ys' Hxy _ IH] [|i] //=.
Qed.

Lemma gather_rel (xs : list M1) (ys : list M2) d d' p :
  List.Forall2 RM xs ys -> RM d d' ->
  List.Forall2 RM (gather d xs p) (gather d' ys p).
Proof.
move=> H Hd; rewrite /gather; elim: p => [|i p IH] /=; constructor => //.
exact: Forall2_nth.
Qed.

Theorem loop_vectorised_rel e1 e2 vl1 vl2 ts :
  List.Forall2 RE e1 e2 -> RV vl1 vl2 ->
  List.Forall2 RM (loop_vectorised M1 V1 mul1 one1 step1 e1 vl1 ts)
                  (loop_vectorised M2 V2 mul2 one2 step2 e2 vl2 ts).
Proof.
move=> He Hv; rewrite /loop_vectorised /vectorised.
by apply: gather_rel => //; apply: run_loop_rel.
Qed.

Theorem eval_at_rel e1 e2 vl1 vl2 u :
  List.Forall2 RE e1 e2 -> RV vl1 vl2 ->
  RM (eval_at M1 V1 mul1 one1 step1 e1 vl1 u)
     (eval_at M2 V2 mul2 one2 step2 e2 vl2 u).
Proof.
move=> He Hv; rewrite /eval_at.
by have [] : RS (advance M1 V1 mul1 step1 vl1 (init M1 V1 one1 e1) u)
                (advance M2 V2 mul2 step2 vl2 (init M2 V2 one2 e2) u)
  by apply: advance_rel.
Qed.

End LoopRel.

(* ------------------------------------------------------------------ *)
(* Invariants of the loop: a property of the accumulated matrix that is *)
(* preserved by products and holds of every step over a NON-NEGATIVE    *)
(* duration; and the factorisation T(u2) = T(u1) * U.                   *)

Section LoopInv.
Variables (M V : Type) (mul : M -> M -> M) (one : M) (step : V -> Q -> M).
Variables (P : M -> Prop) (PV : V -> Prop).
Hypothesis P_mul : forall a b, P a -> P b -> P (mul a b).
Hypothesis P_one : P one.
Hypothesis P_step : forall v dt, PV v -> (0 <= dt)%QQ -> P (step v dt).

Local Notation adv := (advance_rest M V mul step).

Lemma advance_rest_inv vlast rest u :
  PV vlast -> List.Forall (fun x => PV x.2) rest ->
  forall Qm up, P Qm -> (up <= u)%QQ -> wf_le V up rest ->
  P (lQ (adv vlast Qm up rest u)).
Proof.
move=> Hl; elim=> [|[en v] rest' /= Hv Hr IH] Qm up HQ Hu Hwf.
  by apply: P_mul => //; apply: P_step => //; Lqa.lra.
case: Hwf => Hen Hwf; case: (Qlt_le_dec en u) => H /=.
  apply: IH; last exact: wf_wf_le.
    by apply: P_mul => //; apply: P_step => //; Lqa.lra.
  by Lqa.lra.
by apply: P_mul => //; apply: P_step => //; Lqa.lra.
Qed.

Lemma advance_rest_state (Pe : Q * V -> Prop) vlast rest u :
  List.Forall Pe rest ->
  forall Qm up, (up <= u)%QQ -> wf_le V up rest ->
  let s := adv vlast Qm up rest u in
  [/\ lprev s = u, wf_le V u (lrest s) & List.Forall Pe (lrest s)].
Proof.
elim=> [|[en v] rest' /= Hv Hr IH] Qm up Hu Hwf.
  by split=> //=; constructor.
case: Hwf => Hen Hwf; case: (Qlt_le_dec en u) => H /=.
  by apply: IH; [Lqa.lra | exact: wf_wf_le].
by split=> //; constructor.
Qed.

Hypothesis mulA : forall a b c, mul a (mul b c) = mul (mul a b) c.
Hypothesis mul1l : forall a, mul one a = a.

Lemma advance_rest_factor vlast rest u : forall Qm up,
  lQ (adv vlast Qm up rest u) = mul Qm (lQ (adv vlast one up rest u)).
Proof.
elim: rest => [|[en v] rest' IH] Qm up /=; first by rewrite mul1l.
case: (Qlt_le_dec en u) => H /=; last by rewrite mul1l.
by rewrite IH [in RHS]IH mul1l mulA.
Qed.

Hypothesis step_proper : forall v a b, (a == b)%QQ -> step v a = step v b.
Hypothesis step_add : forall v a b, (0 <= a)%QQ -> (0 <= b)%QQ ->
  mul (step v a) (step v b) = step v (a + b)%QQ.

Theorem eval_at_inv epochs vlast u :
  epochs_wf V 0%QQ epochs -> (0 <= u)%QQ ->
  PV vlast -> List.Forall (fun x => PV x.2) epochs ->
  P (eval_at M V mul one step epochs vlast u).
Proof.
move=> Hwf Hu Hl He; rewrite /eval_at /advance /init /=.
by apply: advance_rest_inv => //; apply: wf_wf_le.
Qed.

Theorem eval_at_split epochs vlast u1 u2 :
  epochs_wf V 0%QQ epochs -> (0 <= u1)%QQ -> (u1 <= u2)%QQ ->
  PV vlast -> List.Forall (fun x => PV x.2) epochs ->
  exists2 U, P U &
    eval_at M V mul one step epochs vlast u2
    = mul (eval_at M V mul one step epochs vlast u1) U.
Proof.
move=> Hwf H1 H12 Hl He.
rewrite -(@advance_advance M V mul one step mulA step_proper
            step_add vlast epochs u1 u2 Hwf H1 H12).
rewrite {1}/advance advance_rest_factor /eval_at.
set s1 := advance M V mul step vlast _ u1.
have [Hp Hw Hf] : [/\ lprev s1 = u1, wf_le V u1 (lrest s1)
                    & List.Forall (fun x => PV x.2) (lrest s1)].
  by apply: advance_rest_state => //=; apply: wf_wf_le.
exists (lQ (adv vlast one (lprev s1) (lrest s1) u2)) => //.
by apply: advance_rest_inv => //; rewrite Hp.
Qed.

End LoopInv.

(* ------------------------------------------------------------------ *)
(* Stochastic matrices                                                 *)

Definition stoch n (U : 'M[R]_n) : Prop :=
  mx_ge0 U /\ U *m const_mx 1 = (const_mx 1 : 'cV[R]_n).

Definition gen_mx n (S : 'M[R]_n) : Prop :=
  (forall i j, i != j -> Rle R0 (S i j)) /\
  S *m const_mx 1 = (0 : 'cV[R]_n).

Lemma stoch1 n : stoch (1%:M : 'M[R]_n).
Proof. by split; [apply/scalar_mx_ge0/Rle_0_1 | rewrite mul1mx]. Qed.

Lemma stoch_mul n (U W : 'M[R]_n) : stoch U -> stoch W -> stoch (U *m W).
Proof.
move=> [U0 U1] [W0 W1]; split; first exact: mulmx_ge0.
by rewrite -mulmxA W1 U1.
Qed.

Lemma stoch_step n (S : 'M[R]_n) (t : R) :
  Rle R0 t -> gen_mx S -> stoch (mexp (t *: S)).
Proof. by move=> t0 [Soff S1]; apply: real_generator_stochastic. Qed.

Lemma mulmx_le m n p (A : 'M[R]_(m, n)) (B C : 'M[R]_(n, p)) :
  mx_ge0 A -> (forall i j, Rle (B i j) (C i j)) ->
  forall i j, Rle ((A *m B) i j) ((A *m C) i j).
Proof.
move=> A0 BC i j; rewrite !mxE; apply: Rle_sum => k _.
exact: Rmult_le_compat_l.
Qed.

Definition unit_range m n (x : 'M[R]_(m, n)) : Prop :=
  forall i j, Rle R0 (x i j) /\ Rle (x i j) R1.

Lemma stoch_range m n (A : 'M[R]_(m, n)) (x : 'cV[R]_n) :
  mx_ge0 A -> A *m const_mx 1 = (const_mx 1 : 'cV[R]_m) ->
  unit_range x -> unit_range (A *m x).
Proof.
move=> A0 A1 x01 i j; split.
  by apply: mulmx_ge0 => // k l; case: (x01 k l).
have -> : R1 = (A *m (const_mx 1 : 'cV[R]_n)) i j by rewrite A1 mxE.
by apply: mulmx_le => // k l; rewrite [X in Rle _ X]mxE; case: (x01 k l).
Qed.

(* A 0/1 column vector e such that S never leads from {e = 0} to {e = 1}:
   the exponential never leads from {e = 0} to {e = 1} either. *)
Definition zero_one n (e : 'cV[R]_n) : Prop :=
  forall i, e i ord0 = 0 \/ e i ord0 = 1.

Definition closed_mx n (S : 'M[R]_n) (e : 'cV[R]_n) : Prop :=
  forall i j, e i ord0 = 0 -> e j ord0 = 1 -> S i j = 0.

Lemma mexp_closed n (S : 'M[R]_n) (e : 'cV[R]_n) :
  zero_one e -> closed_mx S e ->
  forall i, e i ord0 = 0 -> (mexp S *m e) i ord0 = 0.
Proof.
move=> e01 Scl i ei0; pose D : 'M[R]_n := diag_mx e^T.
have SD : S *m D = D *m (S *m D).
  apply/matrixP => k l; rewrite mul_diag_mx !mul_mx_diag !mxE.
  have -> : (0 : 'I_1) = ord0 by apply/val_inj.
  case: (e01 k) => ek; rewrite ek; last by rewrite mul1r.
  rewrite mul0r; case: (e01 l) => [->|el1]; first by rewrite mulr0.
  by rewrite Scl // mul0r.
have eD : e = D *m const_mx 1.
  by apply/matrixP => k l; rewrite mul_diag_mx !mxE mulr1 ord1.
by rewrite eD mulmxA (mexp_intertwine SD) -mulmxA mul_diag_mx !mxE ei0 mul0r.
Qed.

(* substochastic action on e:  U e <= e  entrywise *)
Definition decr n (e : 'cV[R]_n) (U : 'M[R]_n) : Prop :=
  forall i, Rle ((U *m e) i ord0) (e i ord0).

Lemma zero_one_range n (e : 'cV[R]_n) : zero_one e -> unit_range e.
Proof.
move=> e01 i j; rewrite ord1; case: (e01 i) => ->.
  by split; [apply: Rle_refl | apply: Rle_0_1].
by split; [apply: Rle_0_1 | apply: Rle_refl].
Qed.

Lemma decr_step n (S : 'M[R]_n) (e : 'cV[R]_n) (t : R) :
  Rle R0 t -> gen_mx S -> zero_one e -> closed_mx S e ->
  decr e (mexp (t *: S)).
Proof.
move=> t0 Sgen e01 Scl i; case: (e01 i) => ei.
  rewrite ei mexp_closed //; first exact: Rle_refl.
  by move=> k l ek el; rewrite mxE Scl // mulr0.
have [U0 U1] := stoch_step t0 Sgen.
by rewrite ei; case: (stoch_range U0 U1 (zero_one_range e01) i ord0).
Qed.

Lemma decr1 n (e : 'cV[R]_n) : decr e 1%:M.
Proof. by move=> i; rewrite mul1mx; apply: Rle_refl. Qed.

Lemma decr_mul n (e : 'cV[R]_n) (U W : 'M[R]_n) :
  mx_ge0 U -> decr e U -> decr e W -> decr e (U *m W).
Proof.
move=> U0 Ue We i; apply: Rle_trans (Ue i); rewrite -mulmxA.
by apply: mulmx_le => // k l; rewrite ord1.
Qed.

(* ------------------------------------------------------------------ *)
(* Rational times as reals                                             *)

Lemma Q2R_0 : Q2R 0%QQ = 0.
Proof. by rewrite /Q2R /= Rmult_0_l. Qed.

Lemma Q2R_ge0 q : (0 <= q)%QQ -> Rle R0 (Q2R q).
Proof. by move/Qle_Rle; rewrite Q2R_0. Qed.

(* ------------------------------------------------------------------ *)
(* (b) the semigroup laws of the denoted step                          *)

Definition stepM n (S : 'M[R]_n) (dt : Q) : 'M[R]_n := mexp (Q2R dt *: S).

Lemma stepM_proper n (S : 'M[R]_n) a b : (a == b)%QQ -> stepM S a = stepM S b.
Proof. by move=> ab; rewrite /stepM (Qeq_eqR _ _ ab). Qed.

Lemma stepM0 n (S : 'M[R]_n) : stepM S 0%QQ = 1%:M.
Proof. by rewrite /stepM Q2R_0 scale0r mexp0. Qed.

Lemma stepM_add n (S : 'M[R]_n) a b : (0 <= a)%QQ -> (0 <= b)%QQ ->
  stepM S a *m stepM S b = stepM S (a + b)%QQ.
Proof. by move=> _ _; rewrite /stepM Q2R_plus real_expm_semigroup. Qed.

Notation loopM n :=
  (loop_vectorised 'M[R]_n 'M[R]_n mulmx 1%:M (@stepM n)).
Notation evalM n := (eval_at 'M[R]_n 'M[R]_n mulmx 1%:M (@stepM n)).

(* hence the theorems of proofs/LoopProofs.v apply to the denoted loop *)
Theorem loopM_pointwise n (epochs : list (Q * 'M[R]_n)) vlast ts :
  epochs_wf 'M[R]_n 0%QQ epochs -> List.Forall (fun t => (0 <= t)%QQ) ts ->
  loopM n epochs vlast ts = List.map (evalM n epochs vlast) ts.
Proof.
apply: loop_vectorised_pointwise.
- by move=> a b c; rewrite mulmxA.
- by move=> a; rewrite mul1mx.
- exact: stepM_proper.
- exact: stepM0.
- exact: stepM_add.
Qed.

Theorem evalM_split n (P : 'M[R]_n -> Prop) (PV : 'M[R]_n -> Prop)
    (epochs : list (Q * 'M[R]_n)) vlast u1 u2 :
  (forall a b, P a -> P b -> P (a *m b)) -> P 1%:M ->
  (forall v dt, PV v -> (0 <= dt)%QQ -> P (stepM v dt)) ->
  epochs_wf 'M[R]_n 0%QQ epochs -> (0 <= u1)%QQ -> (u1 <= u2)%QQ ->
  PV vlast -> List.Forall (fun x => PV x.2) epochs ->
  exists2 U, P U & evalM n epochs vlast u2 = evalM n epochs vlast u1 *m U.
Proof.
move=> Pm P1 Ps; apply: (@eval_at_split _ _ mulmx 1%:M (@stepM n) P PV) => //.
- by move=> a b c; rewrite mulmxA.
- by move=> a; rewrite mul1mx.
- exact: stepM_proper.
- exact: stepM_add.
Qed.

Lemma evalM_single n (S : 'M[R]_n) t : evalM n [::] S t = mexp (Q2R t *: S).
Proof.
have -> : evalM n [::] S t = 1%:M *m stepM S (t - 0)%QQ by [].
rewrite mul1mx.
rewrite /stepM.
have -> // : Q2R (t - 0)%QQ = Q2R t.
by apply: Qeq_eqR; rewrite /Qminus Qplus_0_r.
Qed.

(* ------------------------------------------------------------------ *)
(* The model's cdf                                                     *)

Lemma map_Forall2 (A B C : Type) (Rel : A -> B -> Prop) (f : A -> C)
    (g : B -> C) xs ys :
  List.Forall2 Rel xs ys -> (forall x y, Rel x y -> f x = g y) ->
  List.map f xs = List.map g ys.
Proof. by move=> H fg; elim: H => //= x y xs' ys' /fg -> _ ->. Qed.

Lemma Forall2_map_r (A B : Type) (Rel : A -> B -> Prop) (g : A -> B) xs :
  List.Forall (fun x => Rel x (g x)) xs -> List.Forall2 Rel xs (List.map g xs).
Proof. by elim=> [|x xs' Hx _ IH] /=; constructor. Qed.

Section Cdf.
(* The pluggable backend and its contract. *)
Variable expm : seq (seq R) -> seq (seq R).
Hypothesis expm_sound : forall n A, wf n n A ->
  wf n n (expm A) /\ mx_of n n (expm A) = mexp (mx_of n n A).

Notation stepL := (fun Sg dt => expm (mscale OpsR (oofQ OpsR dt) Sg)).
Notation loopL n :=
  (loop_vectorised (seq (seq R)) (seq (seq R)) (mmul OpsR) (mid OpsR n) stepL).

(* denotation of a demography *)
Definition denE n (Ss : list (Q * seq (seq R))) : list (Q * 'M[R]_n) :=
  [seq (x.1, mx_of n n x.2) | x <- Ss].

Definition all_wf n (Ss : list (Q * seq (seq R))) : Prop :=
  List.Forall (fun x => wf n n x.2) Ss.

(* "the list matrix A denotes the matrix M" *)
Definition den n (A : seq (seq R)) (M : 'M[R]_n) : Prop :=
  wf n n A /\ mx_of n n A = M.

Lemma den_mul n A A' B B' :
  den A A' -> den B B' -> den (n := n) (mmul OpsR A B) (A' *m B').
Proof.
move=> [Awf <-] [Bwf <-]; split; first exact: wf_mmul_sq.
exact: mx_of_mmul.
Qed.

Lemma den_one n : den (mid OpsR n) (1%:M : 'M[R]_n).
Proof. by split; [apply: wf_mid | apply: mx_of_mid]. Qed.

Lemma den_step n S S' dt : den (n := n) S S' -> den (stepL S dt) (stepM S' dt).
Proof.
move=> [Swf <-].
have [Ewf E] := expm_sound (wf_mscale (oofQ OpsR dt) Swf).
by split=> //=; rewrite E mx_of_mscale.
Qed.

Lemma denE_rel n Ss : all_wf n Ss ->
  List.Forall2 (RE (@den n)) Ss (denE n Ss).
Proof.
rewrite /denE -L_map => H; apply: Forall2_map_r.
by apply: List.Forall_impl H => x xwf.
Qed.

Lemma epochs_wf_denE n lo Ss :
  epochs_wf (seq (seq R)) lo Ss -> epochs_wf 'M[R]_n lo (denE n Ss).
Proof. by elim: Ss lo => [|[en S] Ss IH] lo //= [H /IH]. Qed.

(* the list loop denotes the matrix loop, for arbitrary times *)
Theorem loopL_denote n Ss Slast ts : all_wf n Ss -> wf n n Slast ->
  List.Forall2 (@den n) (loopL n Ss Slast ts)
                        (loopM n (denE n Ss) (mx_of n n Slast) ts).
Proof.
move=> Swf Lwf.
apply: (@loop_vectorised_rel _ _ _ _ _ _ _ _ _ _ (@den n) (@den n)) => //.
- exact: den_mul.
- exact: den_one.
- exact: den_step.
- exact: denE_rel.
Qed.

Definition cdf_fun n (alpha e : seq R) (T : 'M[R]_n) : R :=
  1 - (rv_of n alpha *m T *m cv_of n e) ord0 ord0.

Lemma cdf_fun_den n alpha e Tm (T : 'M[R]_n) : size e = n -> den Tm T ->
  osub OpsR (o1 OpsR) (dot OpsR alpha (mvec OpsR Tm e)) = cdf_fun alpha e T.
Proof.
move=> se [Twf <-]; rewrite /cdf_fun /osub /=; congr (_ - _).
rewrite (@dot_mulmx_gen n); last first.
  by rewrite size_mvec (wf_size Twf) geq_minr.
by rewrite (cv_of_mvec Twf se) mulmxA.
Qed.

(* (a) denotation, vectorised, no hypothesis on the times *)
Theorem cdf_denote_loop n Ss Slast alpha e ts :
  all_wf n Ss -> wf n n Slast -> size e = n ->
  cdf OpsR expm Ss Slast alpha e ts =
  List.map (cdf_fun alpha e) (loopM n (denE n Ss) (mx_of n n Slast) ts).
Proof.
move=> Swf Lwf se; rewrite /cdf L_length (wf_size Lwf).
apply: map_Forall2 (loopL_denote ts Swf Lwf) _ => Tm T.
exact: cdf_fun_den.
Qed.

(* the matrix T(t): ordered product over the epochs traversed up to t of
   mexp (duration *: generator) *)
Definition TM n Ss Slast (t : Q) : 'M[R]_n :=
  evalM n (denE n Ss) (mx_of n n Slast) t.

(* (a) denotation, pointwise *)
Theorem cdf_denote n Ss Slast alpha e ts :
  all_wf n Ss -> wf n n Slast -> size e = n ->
  epochs_wf (seq (seq R)) 0%QQ Ss -> List.Forall (fun t => (0 <= t)%QQ) ts ->
  cdf OpsR expm Ss Slast alpha e ts =
  List.map (fun t => 1 - (rv_of n alpha *m TM n Ss Slast t *m cv_of n e) ord0 ord0)
           ts.
Proof.
move=> Swf Lwf se Ewf tpos; rewrite (cdf_denote_loop _ _ Swf Lwf se).
by rewrite loopM_pointwise ?List.map_map //; apply: epochs_wf_denE.
Qed.

Corollary cdf_denote_single n Slast alpha e t :
  wf n n Slast -> size e = n -> (0 <= t)%QQ ->
  cdf OpsR expm [::] Slast alpha e [:: t] =
  [:: 1 - (rv_of n alpha *m mexp (Q2R t *: mx_of n n Slast) *m cv_of n e) ord0 ord0].
Proof.
move=> Lwf se t0; rewrite (@cdf_denote n) //=; try by constructor.
by rewrite /TM evalM_single.
Qed.

(* the value at a single time, as computed by the model *)
Definition cdf_at Ss Slast alpha e (t : Q) : R :=
  List.nth 0 (cdf OpsR expm Ss Slast alpha e [:: t]) 0.

Lemma cdf_atE n Ss Slast alpha e t :
  all_wf n Ss -> wf n n Slast -> size e = n ->
  epochs_wf (seq (seq R)) 0%QQ Ss -> (0 <= t)%QQ ->
  cdf_at Ss Slast alpha e t = cdf_fun alpha e (TM n Ss Slast t).
Proof.
move=> Swf Lwf se Ewf t0; rewrite /cdf_at (@cdf_denote n) //.
by constructor.
Qed.

(* the vectorised model function is pointwise (any order, repeats) *)
Theorem cdf_pointwise n Ss Slast alpha e ts :
  all_wf n Ss -> wf n n Slast -> size e = n ->
  epochs_wf (seq (seq R)) 0%QQ Ss -> List.Forall (fun t => (0 <= t)%QQ) ts ->
  cdf OpsR expm Ss Slast alpha e ts = List.map (cdf_at Ss Slast alpha e) ts.
Proof.
move=> Swf Lwf se Ewf tpos; rewrite (@cdf_denote n) //.
elim: tpos => //= t ts' t0 _ ->; congr (_ :: _).
by rewrite (@cdf_atE n).
Qed.

(* ------------------------------------------------------------------ *)
(* Hypotheses on the model data, stated on the lists                   *)

Definition is_generator n (S : seq (seq R)) : Prop :=
  [/\ wf n n S,
      forall i j, (i < n)%N -> (j < n)%N -> i != j -> Rle R0 (ent S i j)
    & forall i, (i < n)%N -> \sum_(j < n) ent S i j = 0].

Definition is_prob n (alpha : seq R) : Prop :=
  (forall j, (j < n)%N -> Rle R0 (nth 0 alpha j)) /\
  \sum_(j < n) nth 0 alpha j = 1.

Definition is_01 n (e : seq R) : Prop :=
  size e = n /\ forall i, (i < n)%N -> nth 0 e i = 0 \/ nth 0 e i = 1.

(* no transition from a state with e = 0 (absorbing) to a state with e = 1 *)
Definition abs_closed n (S : seq (seq R)) (e : seq R) : Prop :=
  forall i j, (i < n)%N -> (j < n)%N ->
    nth 0 e i = 0 -> nth 0 e j = 1 -> ent S i j = 0.

Lemma is_generator_mx n S : is_generator n S -> gen_mx (mx_of n n S).
Proof.
move=> [Swf Soff Ssum]; split=> [i j ij|]; first by rewrite mx_ofE; apply: Soff.
apply/matrixP => i j; rewrite !mxE -[RHS](Ssum i) //.
by apply: eq_bigr => k _; rewrite !mxE mulr1.
Qed.

Lemma is_prob_mx n alpha : is_prob n alpha ->
  mx_ge0 (rv_of n alpha) /\
  rv_of n alpha *m const_mx 1 = (const_mx 1 : 'cV[R]_1).
Proof.
move=> [a0 a1]; split=> [i j|]; first by rewrite mxE; apply: a0.
apply/matrixP => i j; rewrite !mxE -[RHS]a1.
by apply: eq_bigr => k _; rewrite !mxE mulr1.
Qed.

Lemma is_01_mx n e : is_01 n e -> zero_one (cv_of n e).
Proof. by move=> [_ e01] i; rewrite mxE; apply: e01. Qed.

Lemma abs_closed_mx n S e :
  abs_closed n S e -> closed_mx (mx_of n n S) (cv_of n e).
Proof. by move=> H i j; rewrite !mxE; apply: H. Qed.

Lemma Forall_denE n (PV : 'M[R]_n -> Prop) Ss :
  List.Forall (fun x => PV (mx_of n n x.2)) Ss ->
  List.Forall (fun x => PV x.2) (denE n Ss).
Proof. by elim=> [|x Ss' Hx _ IH] /=; constructor. Qed.

Lemma all_generators_wf n Ss :
  List.Forall (fun x => is_generator n x.2) Ss -> all_wf n Ss.
Proof. by apply: List.Forall_impl => x []. Qed.

Lemma one_minus_range (y : R) :
  Rle R0 y -> Rle y R1 -> Rle R0 (1 - y) /\ Rle (1 - y) R1.
Proof.
move=> y0 y1; change (Rle R0 (Rminus R1 y) /\ Rle (Rminus R1 y) R1).
by split; Lra.lra.
Qed.

Lemma one_minus_le (x y : R) : Rle y x -> Rle (1 - x) (1 - y).
Proof.
by move=> yx; change (Rle (Rminus R1 x) (Rminus R1 y)); Lra.lra.
Qed.

(* T(t) is a stochastic matrix *)
Theorem TM_stoch n Ss Slast t :
  List.Forall (fun x => is_generator n x.2) Ss -> is_generator n Slast ->
  epochs_wf (seq (seq R)) 0%QQ Ss -> (0 <= t)%QQ ->
  stoch (TM n Ss Slast t).
Proof.
move=> Sgen Lgen Ewf t0.
apply: (@eval_at_inv _ _ mulmx 1%:M (@stepM n) (@stoch n) (@gen_mx n)) => //.
- exact: stoch_mul.
- exact: stoch1.
- by move=> v dt vgen dt0; apply: stoch_step => //; apply: Q2R_ge0.
- exact: epochs_wf_denE.
- exact: is_generator_mx.
- apply: Forall_denE; apply: List.Forall_impl Sgen => x.
  exact: is_generator_mx.
Qed.

(* (c) the values of the model's cdf are probabilities *)
Theorem cdf_range n Ss Slast alpha e ts :
  List.Forall (fun x => is_generator n x.2) Ss -> is_generator n Slast ->
  is_prob n alpha -> is_01 n e ->
  epochs_wf (seq (seq R)) 0%QQ Ss -> List.Forall (fun t => (0 <= t)%QQ) ts ->
  List.Forall (fun x => Rle R0 x /\ Rle x R1)
              (cdf OpsR expm Ss Slast alpha e ts).
Proof.
move=> Sgen Lgen /is_prob_mx [a0 a1] e01 Ewf tpos.
have [Lwf _ _] := Lgen.
rewrite (@cdf_denote n) //; [|exact: all_generators_wf|by case: e01].
elim: tpos => [|t ts' t0 _ IH] /=; constructor => //.
have [T0 T1] := TM_stoch Sgen Lgen Ewf t0.
rewrite -mulmxA.
have := stoch_range a0 a1 (stoch_range T0 T1 (zero_one_range (is_01_mx e01))).
by move/(_ ord0 ord0) => [H0 H1]; apply: one_minus_range.
Qed.

(* (d) monotonicity, for an arbitrary piecewise-constant demography *)
Theorem cdf_monotone n Ss Slast alpha e t1 t2 :
  List.Forall (fun x => is_generator n x.2 /\ abs_closed n x.2 e) Ss ->
  is_generator n Slast -> abs_closed n Slast e ->
  is_prob n alpha -> is_01 n e ->
  epochs_wf (seq (seq R)) 0%QQ Ss -> (0 <= t1)%QQ -> (t1 <= t2)%QQ ->
  Rle (cdf_at Ss Slast alpha e t1) (cdf_at Ss Slast alpha e t2).
Proof.
move=> Sgc Lgen Lcl /is_prob_mx [a0 a1] e01 Ewf t10 t12.
have Sgen : List.Forall (fun x => is_generator n x.2) Ss.
  by apply: List.Forall_impl Sgc => x [].
have [Lwf _ _] := Lgen; have se : size e = n by case: e01.
have Swf := all_generators_wf Sgen.
have t20 : (0 <= t2)%QQ by Lqa.lra.
rewrite !(@cdf_atE n) // /cdf_fun; apply: one_minus_le.
pose ec := cv_of n e.
have ec01 : zero_one ec by apply: is_01_mx.
pose P (U : 'M[R]_n) := stoch U /\ decr ec U.
pose PV (S : 'M[R]_n) := gen_mx S /\ closed_mx S ec.
have [U [Ust Ue] ->] :
    exists2 U, P U & TM n Ss Slast t2 = TM n Ss Slast t1 *m U.
  apply: (@evalM_split n P PV) => //.
  - move=> a b [ast ae] [bst be]; split; first exact: stoch_mul.
    by apply: decr_mul => //; case: ast.
  - by split; [apply: stoch1 | apply: decr1].
  - move=> v dt [vgen vcl] dt0; have dtR := Q2R_ge0 dt0.
    by split; [apply: stoch_step | apply: decr_step].
  - exact: epochs_wf_denE.
  - by split; [apply: is_generator_mx | apply: abs_closed_mx].
  - apply: Forall_denE; apply: List.Forall_impl Sgc => x [xgen xcl].
    by split; [apply: is_generator_mx | apply: abs_closed_mx].
have [T0 T1] := TM_stoch Sgen Lgen Ewf t10.
rewrite mulmxA -(mulmxA _ U).
apply: mulmx_le; first by apply: mulmx_ge0.
by move=> i j; rewrite ord1; apply: Ue.
Qed.

Corollary cdf_monotone_single n Slast alpha e t1 t2 :
  is_generator n Slast -> abs_closed n Slast e ->
  is_prob n alpha -> is_01 n e -> (0 <= t1)%QQ -> (t1 <= t2)%QQ ->
  Rle (cdf_at [::] Slast alpha e t1) (cdf_at [::] Slast alpha e t2).
Proof. by move=> *; apply: (@cdf_monotone n) => //; constructor. Qed.

(* ------------------------------------------------------------------ *)
(* (e) lumping, at the level of the model                              *)

Definition lump_rel m n (P : seq (seq R))
    (x y : Q * seq (seq R)) : Prop :=
  [/\ x.1 = y.1, wf m m x.2, wf n n y.2
    & mmul OpsR x.2 P = mmul OpsR P y.2].

Lemma mmul_intertwine m n P SL SC :
  wf m n P -> wf m m SL -> wf n n SC ->
  mmul OpsR SL P = mmul OpsR P SC ->
  mx_of m m SL *m mx_of m n P = mx_of m n P *m mx_of n n SC.
Proof.
move=> Pwf Lwf Cwf /(congr1 (mx_of m n)).
by rewrite (mx_of_mmul Lwf Pwf) (mx_of_mmul Pwf Cwf).
Qed.

Theorem cdf_lumping m n P SsL SlastL SsC SlastC alphaL eC ts :
  wf m n P -> wf m m SlastL -> wf n n SlastC ->
  List.Forall2 (lump_rel m n P) SsL SsC ->
  mmul OpsR SlastL P = mmul OpsR P SlastC ->
  size alphaL = m -> size eC = n ->
  cdf OpsR expm SsL SlastL alphaL (mvec OpsR P eC) ts
  = cdf OpsR expm SsC SlastC (vmat OpsR alphaL P) eC ts.
Proof.
move=> Pwf LLwf LCwf Hss Hlast sa se.
have SLwf : all_wf m SsL by elim: Hss => [|x y ? ? [_ ? _ _] _ ?]; constructor.
have SCwf : all_wf n SsC by elim: Hss => [|x y ? ? [_ _ ? _] _ ?]; constructor.
have seL : size (mvec OpsR P eC) = m by rewrite size_mvec (wf_size Pwf).
rewrite (cdf_denote_loop _ _ SLwf LLwf seL) (cdf_denote_loop _ _ SCwf LCwf se).
pose PM := mx_of m n P.
pose Rel (A : 'M[R]_m) (B : 'M[R]_n) := A *m PM = PM *m B.
have Hrel : List.Forall2 Rel (loopM m (denE m SsL) (mx_of m m SlastL) ts)
                             (loopM n (denE n SsC) (mx_of n n SlastC) ts).
  apply: (@loop_vectorised_rel _ _ _ _ _ _ _ _ _ _ Rel Rel).
  - move=> a a' b b' aa bb; rewrite /Rel -mulmxA bb mulmxA aa.
    by rewrite mulmxA.
  - by rewrite /Rel mul1mx mulmx1.
  - move=> v v' dt vv; rewrite /Rel /stepM.
    by apply: mexp_intertwine; apply: scale_intertwine.
  - elim: Hss => [|x y xs ys [xy xwf ywf H] _ IH] /=; constructor => //.
    by split=> //=; apply: mmul_intertwine.
  - exact: mmul_intertwine.
apply: map_Forall2 Hrel _ => TL TC TT; rewrite /cdf_fun; congr (_ - _).
rewrite (cv_of_mvec Pwf se) (rv_of_vmat Pwf sa) -/PM.
by rewrite mulmxA -(mulmxA _ TL) TT !mulmxA.
Qed.

Corollary cdf_lumping_single m n P SlastL SlastC alphaL eC ts :
  wf m n P -> wf m m SlastL -> wf n n SlastC ->
  mmul OpsR SlastL P = mmul OpsR P SlastC ->
  size alphaL = m -> size eC = n ->
  cdf OpsR expm [::] SlastL alphaL (mvec OpsR P eC) ts
  = cdf OpsR expm [::] SlastC (vmat OpsR alphaL P) eC ts.
Proof. by move=> *; apply: (@cdf_lumping m n) => //; constructor. Qed.

End Cdf.

(* ------------------------------------------------------------------ *)
(* The contract of the backend is satisfiable: the ideal backend       *)
(* (tabulating the real exponential) meets it, so that every theorem   *)
(* of the section above has a hypothesis-free instance.                *)

Definition list_of_mx m n (M : 'M[R]_(m, n)) : seq (seq R) :=
  mkseq (fun i => mkseq (fun j =>
    match insub i, insub j with
    | Some i', Some j' => M i' j'
    | _, _ => 0
    end) n) m.

Lemma wf_list_of_mx m n (M : 'M[R]_(m, n)) : wf m n (list_of_mx M).
Proof.
apply: wf_intro; first by rewrite size_mkseq.
by move=> i im; rewrite nth_mkseq // size_mkseq.
Qed.

Lemma mx_of_list_of_mx m n (M : 'M[R]_(m, n)) : mx_of m n (list_of_mx M) = M.
Proof.
apply/matrixP => i j; rewrite mxE /list_of_mx nth_mkseq // nth_mkseq //.
by rewrite (valK i) (valK j).
Qed.

Definition expm_ideal (A : seq (seq R)) : seq (seq R) :=
  list_of_mx (mexp (mx_of (size A) (size A) A)).

Theorem expm_ideal_sound n A : wf n n A ->
  wf n n (expm_ideal A) /\ mx_of n n (expm_ideal A) = mexp (mx_of n n A).
Proof.
case=> sA _; rewrite /expm_ideal sA; split; first exact: wf_list_of_mx.
exact: mx_of_list_of_mx.
Qed.

Definition cdf_range_ideal := cdf_range expm_ideal_sound.
Definition cdf_monotone_ideal := cdf_monotone expm_ideal_sound.
Definition cdf_lumping_ideal := cdf_lumping expm_ideal_sound.

(* ------------------------------------------------------------------ *)
(* Assumption audit                                                    *)

Print Assumptions loop_vectorised_rel.
Print Assumptions eval_at_split.
Print Assumptions loopM_pointwise.
Print Assumptions cdf_denote_loop.
Print Assumptions cdf_denote.
Print Assumptions cdf_denote_single.
Print Assumptions cdf_pointwise.
Print Assumptions cdf_range.
Print Assumptions cdf_monotone.
Print Assumptions cdf_lumping.
Print Assumptions expm_ideal_sound.
