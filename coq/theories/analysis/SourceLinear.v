(* Linearity of FIRST moments in the reward, stated DIRECTLY about the translated source: the function
   PhaseTypeDistribution_accumulate of gen/LoopsGen.v (regenerated from phasegen/distributions.py on every run) with the reward
   vectors of gen/RewardsGen.v (regenerated from phasegen/rewards.py on every run), at the real instance, for every backend
   [expm] that computes the real matrix exponential - on ANY piecewise-constant demography (any number of epochs) and any list
   of end times.

   Method: the Van Loan matrix of order 1 with reward c1 B1 + c2 B2 is intertwined (J3) with the (n + 2n)-matrix W3 that carries
   B1 and B2 side by side; intertwining is preserved by the matrix exponential (analysis/MExp.v), by products and hence by the
   whole epoch walk (eval_at_rel of analysis/CdfFacts.v), so the upper-right block of the accumulated matrix is linear in the
   reward.  Consequences: additivity, the zero reward, finite sums; with proofs/RewardProofs.v: the per-deme marginal means of
   any reward sum to its mean, the per-locus branch lengths / heights sum to the totals (property C12, first-moment part, for the
   source and every demography - it was proved before only for one epoch, "given ExpLaws").

   Order k: the same device with level-dependent intertwiners (vlf_intertwine of proofs/ExpLaws2.v) carried through the epoch
   walk gives homogeneity and additivity of the order-k functional in EACH reward slot (evalM_scale_slot, evalM_additive_slot),
   hence source_moment_slot_linear: the translated _accumulate of order k is linear in each of its k rewards, on any demography. *)
Require Import Reals Psatz QArith Qreals.
From mathcomp Require Import all_ssreflect all_algebra.
From mathcomp Require Import zify.
From PG Require Import model.StateSpace model.Rewards proofs.RewardProofs gen.NpState gen.RewardsGen proofs.GenRewardsEquiv.
From PG Require Import analysis.Rstruct analysis.RSums analysis.MExp analysis.MExpLaws.
From PG Require Import base.Ops base.OpsR base.Perm model.Matrix model.Loop model.PhaseType.
From PG Require Import proofs.LoopProofs proofs.ExpLaws proofs.ExpLaws2 analysis.Denote analysis.CdfFacts analysis.DenotePhaseType.
Set Implicit Arguments. Unset Strict Implicit. Unset Printing Implicit Defensive.
Import GRing.Theory.
Delimit Scope Q_scope with QQ.
Local Open Scope ring_scope.

Section Lin.
Variable n : nat.
Implicit Types (S B : 'M[R]_n).

Definition W3 S B1 B2 : 'M[R]_(n + (n + n)) := block_mx S (row_mx B1 B2) 0 (block_mx S 0 0 S).
Definition J3 (c1 c2 : R) : 'M[R]_(n + (n + n), n + n) := block_mx 1%:M 0 0 (col_mx c1%:M c2%:M).
Definition V2 S B : 'M[R]_(n + n) := block_mx S B 0 S.

Lemma W3_J3 S B1 B2 c1 c2 : W3 S B1 B2 *m J3 c1 c2 = J3 c1 c2 *m V2 S (c1 *: B1 + c2 *: B2).
Proof.
rewrite /W3 /J3 /V2 !mulmx_block.
rewrite !(mulmx1, mul1mx, mulmx0, mul0mx, addr0, add0r).
rewrite mul_row_col mul_block_col mul_col_mx.
rewrite !(mulmx1, mul1mx, mulmx0, mul0mx, addr0, add0r).
by rewrite !mul_mx_scalar !mul_scalar_mx.
Qed.

Definition E2 (Ss : list (Q * 'M[R]_n)) B : list (Q * 'M[R]_(n + n)) := [seq (x.1, V2 x.2 B) | x <- Ss].
Definition E3 (Ss : list (Q * 'M[R]_n)) B1 B2 : list (Q * 'M[R]_(n + (n + n))) := [seq (x.1, W3 x.2 B1 B2) | x <- Ss].

Lemma evalM_J3 Ss Slast B1 B2 c1 c2 u :
  evalM (n + (n + n)) (E3 Ss B1 B2) (W3 Slast B1 B2) u *m J3 c1 c2
  = J3 c1 c2 *m evalM (n + n) (E2 Ss (c1 *: B1 + c2 *: B2)) (V2 Slast (c1 *: B1 + c2 *: B2)) u.
Proof.
pose Rel (A : 'M[R]_(n + (n + n))) (B : 'M[R]_(n + n)) := A *m J3 c1 c2 = J3 c1 c2 *m B.
apply: (@eval_at_rel _ _ _ _ _ _ _ _ _ _ Rel Rel).
- move=> a a' b b' aa bb; rewrite /Rel -mulmxA bb mulmxA aa.
  by rewrite mulmxA.
- by rewrite /Rel mul1mx mulmx1.
- move=> v v' dt vv; rewrite /Rel /stepM.
  by apply: mexp_intertwine; apply: scale_intertwine.
- rewrite /E3 /E2; elim: Ss => [|x Ss IH] /=; constructor => //.
  by split=> //=; apply: W3_J3.
- exact: W3_J3.
Qed.

Theorem evalM_ur_linear Ss Slast B1 B2 c1 c2 u :
  ursubmx (evalM (n + n) (E2 Ss (c1 *: B1 + c2 *: B2)) (V2 Slast (c1 *: B1 + c2 *: B2)) u)
  = c1 *: ursubmx (evalM (n + n) (E2 Ss B1) (V2 Slast B1) u)
  + c2 *: ursubmx (evalM (n + n) (E2 Ss B2) (V2 Slast B2) u).
Proof.
set X := ursubmx (evalM (n + (n + n)) (E3 Ss B1 B2) (W3 Slast B1 B2) u).
have G d1 d2 : ursubmx (evalM (n + n) (E2 Ss (d1 *: B1 + d2 *: B2)) (V2 Slast (d1 *: B1 + d2 *: B2)) u)
               = d1 *: lsubmx X + d2 *: rsubmx X.
  have /(congr1 ursubmx) := evalM_J3 Ss Slast B1 B2 d1 d2 u.
  rewrite /J3 ursubmx_mul_diag ursubmx_diag_mul mul1mx -/X => <-.
  by rewrite -{1}(hsubmxK X) mul_row_col !mul_mx_scalar.
have := G 1 0; rewrite !scale1r !scale0r !addr0 => ->.
have := G 0 1; rewrite !scale1r !scale0r !add0r => ->.
exact: G.
Qed.
End Lin.

(* ---- any order k: homogeneity and additivity in each reward slot, across ALL epochs ---- *)
Ltac bsimp := rewrite ?(mulmx1, mul1mx, mulmx0, mul0mx, addr0, add0r, scaler0).

Section MultiEpoch.
Variable k : nat.

Definition Ek p (Ss : list (Q * 'M[R]_p)) (Rs : nat -> 'M[R]_p) : list (Q * 'M[R]_(vlsz p k)) :=
  [seq (x.1, vl x.2 Rs k) | x <- Ss].

(* the transfer of the top-right block along level-dependent intertwiners, for the WHOLE epoch walk *)
Lemma evalM_vltr_transfer m n (Ps : nat -> 'M[R]_(m, n)) (SsL : list (Q * 'M[R]_m)) SlastL
    (SsC : list (Q * 'M[R]_n)) SlastC (RL : nat -> 'M[R]_m) (RC : nat -> 'M[R]_n) u :
  List.Forall2 (fun x y => x.1 = y.1 /\ forall i, (i <= k)%N -> x.2 *m Ps i = Ps i *m y.2) SsL SsC ->
  (forall i, (i <= k)%N -> SlastL *m Ps i = Ps i *m SlastC) ->
  (forall i, (i < k)%N -> RL i *m Ps i.+1 = Ps i *m RC i) ->
  vltr (k := k) (evalM (vlsz m k) (Ek SsL RL) (vl SlastL RL k) u) *m Ps k
  = Ps 0%N *m vltr (k := k) (evalM (vlsz n k) (Ek SsC RC) (vl SlastC RC k) u).
Proof.
move=> HS HL HR; rewrite -vltr_mul_diagf -vltr_diagf_mul; congr (vltr _).
pose Rel (A : 'M[R]_(vlsz m k)) (B : 'M[R]_(vlsz n k)) := A *m vldiagf Ps k = vldiagf Ps k *m B.
apply: (@eval_at_rel _ _ _ _ _ _ _ _ _ _ Rel Rel).
- move=> a a' b b' aa bb; rewrite /Rel -mulmxA bb mulmxA aa.
  by rewrite mulmxA.
- by rewrite /Rel mul1mx mulmx1.
- move=> v v' dt vv; rewrite /Rel /stepM.
  by apply: mexp_intertwine; apply: scale_intertwine.
- rewrite /Ek; elim: HS => [|x y xs ys [xy Hxy] _ IH] /=; constructor => //.
  by split=> //=; apply: vlf_intertwine.
- exact: vlf_intertwine.
Qed.

Lemma Forall2_same (T : Type) (P : T -> T -> Prop) (l : list T) :
  (forall x, P x x) -> List.Forall2 P l l.
Proof. by move=> H; elim: l => [|x l IH]; constructor. Qed.

Lemma Forall2_map_l (T U : Type) (P : U -> T -> Prop) (f : T -> U) (l : list T) :
  (forall x, P (f x) x) -> List.Forall2 P [seq f x | x <- l] l.
Proof. by move=> H; elim: l => [|x l IH]; constructor. Qed.

Variable n : nat.
Implicit Types (Ss : list (Q * 'M[R]_n)) (S X Y : 'M[R]_n) (Rs : nat -> 'M[R]_n).

Definition TR Ss Slast Rs (u : Q) : 'M[R]_n := vltr (k := k) (evalM (vlsz n k) (Ek Ss Rs) (vl Slast Rs k) u).

(* homogeneity in slot j *)
Theorem evalM_scale_slot Ss Slast Rs j X (c : R) u : (j < k)%N ->
  TR Ss Slast (rset Rs j (c *: X)) u = c *: TR Ss Slast (rset Rs j X) u.
Proof.
move=> jk.
pose Ps (i : nat) : 'M[R]_n := if (i <= j)%N then 1%:M else c%:M.
have := @evalM_vltr_transfer _ _ Ps Ss Slast Ss Slast (rset Rs j X) (rset Rs j (c *: X)) u.
rewrite /Ps leq0n leqNgt jk /= mul1mx mul_mx_scalar /TR => -> //.
- apply: Forall2_same => x; split=> // i ik.
  by case: ifP => _; rewrite scalar_mxC.
- by move=> i ik; case: ifP => _; rewrite scalar_mxC.
move=> i ik; rewrite /rset; case: (ltngtP i j) => _ /=.
- by rewrite mulmx1 mul1mx.
- by rewrite scalar_mxC.
- by rewrite mul_mx_scalar mul1mx.
Qed.

(* additivity in slot j *)
Theorem evalM_additive_slot Ss Slast Rs j X Y u : (j < k)%N ->
  TR Ss Slast (rset Rs j (X + Y)) u = TR Ss Slast (rset Rs j X) u + TR Ss Slast (rset Rs j Y) u.
Proof.
move=> jk.
pose D (S : 'M[R]_n) : 'M[R]_(n + n) := block_mx S 0 0 S.
pose Ss2 : list (Q * 'M[R]_(n + n)) := [seq (x.1, D x.2) | x <- Ss].
pose R2 (i : nat) : 'M[R]_(n + n) :=
  if i == j then block_mx X Y 0 0 else block_mx (Rs i) 0 0 (Rs i).
pose e1 : 'M[R]_(n + n, n) := col_mx 1%:M 0.
pose e2 : 'M[R]_(n + n, n) := col_mx 0 1%:M.
pose e12 : 'M[R]_(n + n, n) := col_mx 1%:M 1%:M.
set TT := vltr (k := k) (evalM (vlsz (n + n) k) (Ek Ss2 R2) (vl (D Slast) R2 k) u).
have De1 S : D S *m e1 = e1 *m S by rewrite mul_block_col mul_col_mx; bsimp.
have De2 S : D S *m e2 = e2 *m S by rewrite mul_block_col mul_col_mx; bsimp.
have De12 S : D S *m e12 = e12 *m S by rewrite mul_block_col mul_col_mx; bsimp.
have HX : TT *m e1 = e1 *m TR Ss Slast (rset Rs j X) u.
  apply: (@evalM_vltr_transfer _ _ (fun _ => e1)) => //.
  - by apply: Forall2_map_l => x; split=> // i _ /=; exact: De1.
  - move=> i _.
    by rewrite /R2 /rset; case: ifP => _; rewrite mul_block_col mul_col_mx; bsimp.
have HY : TT *m e2 = e1 *m TR Ss Slast (rset Rs j Y) u.
  pose Ps (i : nat) := if (i <= j)%N then e1 else e2.
  have := @evalM_vltr_transfer _ _ Ps Ss2 (D Slast) Ss Slast R2 (rset Rs j Y) u.
  rewrite /Ps leq0n leqNgt jk /= => -> //.
  - by apply: Forall2_map_l => x; split=> // i ik /=; case: ifP => _; [exact: De1 | exact: De2].
  - by move=> i ik; case: ifP => _; [exact: De1 | exact: De2].
  by move=> i ik; rewrite /R2 /rset; case: (ltngtP i j) => _ /=;
    rewrite mul_block_col mul_col_mx; bsimp.
have HXY : TT *m e12 = e1 *m TR Ss Slast (rset Rs j (X + Y)) u.
  pose Ps (i : nat) := if (i <= j)%N then e1 else e12.
  have := @evalM_vltr_transfer _ _ Ps Ss2 (D Slast) Ss Slast R2 (rset Rs j (X + Y)) u.
  rewrite /Ps leq0n leqNgt jk /= => -> //.
  - by apply: Forall2_map_l => x; split=> // i ik /=; case: ifP => _; [exact: De1 | exact: De12].
  - by move=> i ik; case: ifP => _; [exact: De1 | exact: De12].
  by move=> i ik; rewrite /R2 /rset; case: (ltngtP i j) => _ /=;
    rewrite mul_block_col mul_col_mx; bsimp.
have e12E : e12 = e1 + e2 by rewrite /e1 /e2 add_col_mx addr0 add0r.
move: HXY; rewrite e12E mulmxDr HX HY -mulmxDr.
move/(congr1 (mulmx (row_mx 1%:M 0))).
by rewrite !mulmxA mul_row_col; bsimp.
Qed.
End MultiEpoch.

From PG Require Import gen.NpLoops gen.LoopsGen proofs.GenLoopsEquiv analysis.SourceLoops.

Lemma map_lin (T : Type) (f12 f1 f2 : T -> R) (c1 c2 : R) (ts : seq T) :
  (forall t, f12 t = c1 * f1 t + c2 * f2 t) ->
  List.map f12 ts = vadd OpsR (vscale OpsR c1 (List.map f1 ts)) (vscale OpsR c2 (List.map f2 ts)).
Proof.
move=> H; rewrite vaddE !vscaleE.
elim: ts => [|t ts IH] //=; by rewrite IH H.
Qed.

Lemma denCk1 n (r : seq R) (Ss : seq (Q * seq (seq R))) :
  denCk n 1 [:: r] Ss = E2 [seq (x.1, mx_of n n x.2) | x <- Ss] (diag_mx (rv_of n r)).
Proof. by rewrite /denCk /E2 -map_comp. Qed.

Lemma diag_lin n (r1 r2 : seq R) (c1 c2 : R) : size r1 = n -> size r2 = n ->
  diag_mx (rv_of n (vadd OpsR (vscale OpsR c1 r1) (vscale OpsR c2 r2)))
  = c1 *: diag_mx (rv_of n r1) + c2 *: diag_mx (rv_of n r2).
Proof.
move=> s1 s2; rewrite rv_of_vadd ?size_vscale // !rv_of_vscale.
by rewrite linearD /= !linearZ.
Qed.

Section Src.
Variable expm : seq (seq R) -> seq (seq R).
Hypothesis expm_sound : forall n A, wf n n A -> wf n n (expm A) /\ mx_of n n (expm A) = mexp (mx_of n n A).

Definition acc1 (regf : seq (seq R) -> R) (Ss : seq (Q * seq (seq R))) (Slast : seq (seq R)) (alpha : seq R) (ts : seq Q) (r : seq R) : seq R :=
  PhaseTypeDistribution_accumulate OpsR expm regf (length Slast) 1 (all_epochs Ss Slast) [:: r] alpha ts.

Theorem source_first_moment_linear regf n Ss Slast alpha ts r1 r2 (c1 c2 : R) :
  regf (List.hd (None, Slast) (all_epochs Ss Slast)).2 <> 0 ->
  List.Forall (fun x : Q * seq (seq R) => wf n n x.2) Ss -> wf n n Slast ->
  size r1 = n -> size r2 = n ->
  epochs_wf (seq (seq R)) 0%QQ Ss -> List.Forall (fun t => (0 <= t)%QQ) ts ->
  acc1 regf Ss Slast alpha ts (vadd OpsR (vscale OpsR c1 r1) (vscale OpsR c2 r2))
  = vadd OpsR (vscale OpsR c1 (acc1 regf Ss Slast alpha ts r1)) (vscale OpsR c2 (acc1 regf Ss Slast alpha ts r2)).
Proof.
move=> H0 H1 H2 s1 s2 H5 H6; rewrite /acc1.
have s12 : size (vadd OpsR (vscale OpsR c1 r1) (vscale OpsR c2 r2)) = n.
  by rewrite (@size_vadd n) ?size_vscale.
rewrite !(@source_accumulate_pointwise expm expm_sound regf n 1) //; try by case.
apply: map_lin => t.
rewrite /mk_val !denCk1.
have vlE r : vl (mx_of n n Slast) (rwd n [:: r]) 1 = V2 (mx_of n n Slast) (diag_mx (rv_of n r)) by [].
have trE (T : 'M[R]_(vlsz n 1)) : vltr (k := 1) T = ursubmx (T : 'M[R]_(n + n)) by [].
rewrite !vlE !trE diag_lin // evalM_ur_linear.
rewrite mulmxDr mulmxDl -!scalemxAr -!scalemxAl !mxE.
rewrite /GRing.add /GRing.mul /=; ring.
Qed.

(* ---- corollaries under the standing hypotheses on the demography and the times ---- *)
Variables (regf : seq (seq R) -> R) (n : nat) (Ss : seq (Q * seq (seq R))) (Slast : seq (seq R)) (alpha : seq R) (ts : seq Q).
Hypothesis H0 : regf (List.hd (None, Slast) (all_epochs Ss Slast)).2 <> 0.
Hypothesis H1 : List.Forall (fun x : Q * seq (seq R) => wf n n x.2) Ss.
Hypothesis H2 : wf n n Slast.
Hypothesis H5 : epochs_wf (seq (seq R)) 0%QQ Ss.
Hypothesis H6 : List.Forall (fun t => (0 <= t)%QQ) ts.
Let A := acc1 regf Ss Slast alpha ts.

Lemma size_acc1 r : size r = n -> size (A r) = size ts.
Proof.
move=> sr; rewrite /A /acc1 (@source_accumulate_pointwise expm expm_sound regf n 1) //; last by case.
by rewrite L_map size_map.
Qed.

Lemma vscale1 (a : seq R) : vscale OpsR 1 a = a.
Proof. by rewrite vscaleE -[RHS]map_id; apply: eq_map => x; rewrite mul1r. Qed.

Lemma vadd_vscale0 m (a b : seq R) : size a = m -> size b = m ->
  vadd OpsR (vscale OpsR 0 a) (vscale OpsR 0 b) = nseq m 0.
Proof.
move=> sa sb; apply: (@eq_from_nth _ 0).
  by rewrite size_nseq (@size_vadd m) ?size_vscale.
move=> i; rewrite (@size_vadd m) ?size_vscale // => im.
by rewrite nth_vadd ?size_vscale ?sa ?sb // !nth_vscale !mul0r addr0 nth_nseq im.
Qed.

Theorem source_first_moment_additive r1 r2 : size r1 = n -> size r2 = n ->
  A (vadd OpsR r1 r2) = vadd OpsR (A r1) (A r2).
Proof.
move=> s1 s2.
have := @source_first_moment_linear regf n Ss Slast alpha ts r1 r2 1 1 H0 H1 H2 s1 s2 H5 H6.
by rewrite !vscale1.
Qed.

Theorem source_first_moment_zero : A (nseq n 0) = nseq (size ts) 0.
Proof.
have sz : size (nseq n (0 : R)) = n by rewrite size_nseq.
have := @source_first_moment_linear regf n Ss Slast alpha ts _ _ 0 0 H0 H1 H2 sz sz H5 H6.
by rewrite (@vadd_vscale0 n) // (@vadd_vscale0 (size ts)) ?size_acc1.
Qed.

Definition vsum m (rs : seq (seq R)) : seq R := foldr (vadd OpsR) (nseq m 0) rs.

Lemma size_vsum m rs : all (fun r => (size r == m)%B) rs -> size (vsum m rs) = m.
Proof.
elim: rs => [|r rs IH] /=; first by rewrite size_nseq.
by case/andP => /eqP sr /IH sv; rewrite (@size_vadd m).
Qed.

Theorem source_first_moment_sum rs : all (fun r => (size r == n)%B) rs ->
  A (vsum n rs) = vsum (size ts) [seq A r | r <- rs].
Proof.
elim: rs => [|r rs IH] /=; first by rewrite source_first_moment_zero.
case/andP => /eqP sr srs.
by rewrite source_first_moment_additive ?size_vsum // IH.
Qed.

(* ---- rewards: the per-deme marginal means of ANY reward sum to its mean ---- *)
Lemma nseq_map0 (S : Type) (sts : seq S) : nseq (size sts) (0 : R) = [seq 0 | _ <- sts].
Proof. by elim: sts => [|s sts IH] //=; rewrite IH. Qed.

Lemma vadd_map (S : Type) (f g : S -> R) (sts : seq S) :
  vadd OpsR [seq f s | s <- sts] [seq g s | s <- sts] = [seq f s + g s | s <- sts].
Proof. by rewrite vaddE; elim: sts => [|s sts IH] //=; rewrite IH. Qed.

Lemma vsum_pointwise (D S : Type) (f : D -> S -> R) (ds : seq D) (sts : seq S) :
  vsum (size sts) [seq [seq f d s | s <- sts] | d <- ds]
  = [seq List.fold_right Rplus 0 (List.map (fun d => f d s) ds) | s <- sts].
Proof.
elim: ds => [|d ds IH] /=; first exact: nseq_map0.
by rewrite /vsum /= in IH *; rewrite IH vadd_map.
Qed.

Theorem source_deme_means_sum_to_mean (nn nl nd : nat) (r : reward) (sts : seq state) :
  size sts = n -> reward_ok nn r = true ->
  List.Forall (fun s => n_loci s = nl) sts ->
  List.Forall (fun s => n_demes s = nd /\ (1 <= total_lineages s)%coq_nat /\
                        List.Forall (fun loc => length loc = n_demes s) (lin s)) sts ->
  A [seq gen_reward_get OpsR nn nl r s | s <- sts]
  = vsum (size ts) [seq A [seq gen_reward_get OpsR nn nl (RProduct [:: r; RDeme d]) s | s <- sts] | d <- iota 0 nd].
Proof.
move=> ssz rok Hnl Hst.
have E1 : [seq gen_reward_get OpsR nn nl r s | s <- sts] = [seq reward_get OpsR nn r s | s <- sts].
  by have := gen_reward_vector_eq_R nn nl r sts rok Hnl; rewrite /reward_vector !L_map.
have E2 d : [seq gen_reward_get OpsR nn nl (RProduct [:: r; RDeme d]) s | s <- sts]
          = [seq reward_get OpsR nn (RProduct [:: r; RDeme d]) s | s <- sts].
  have rok' : reward_ok nn (RProduct [:: r; RDeme d]) = true by rewrite /= rok.
  by have := gen_reward_vector_eq_R nn nl _ sts rok' Hnl; rewrite /reward_vector !L_map.
rewrite E1 (eq_map (f2 := fun d => A [seq reward_get OpsR nn (RProduct [:: r; RDeme d]) s | s <- sts])); last first.
  by move=> d; rewrite E2.
rewrite (map_comp A (fun d => [seq reward_get OpsR nn (RProduct [:: r; RDeme d]) s | s <- sts])).
rewrite -source_first_moment_sum; last first.
  by apply/allP => x /mapP [d _ ->]; rewrite size_map ssz.
congr (A _); rewrite -ssz vsum_pointwise.
elim: Hst => [|s sts' [nds [tl wfl]] _ IH] //=; congr (_ :: _) => //.
by rewrite -nds -[LHS](deme_marginals_decompose nn r s tl wfl).
Qed.

(* per-locus marginals: total branch length = sum of the per-locus branch lengths, sum of the per-locus heights = total tree height *)
Lemma source_locus_sum_gen (nn nl : nat) (rtot : reward) (rl : nat -> reward) (sts : seq state) :
  size sts = n -> reward_ok nn rtot = true -> (forall l, reward_ok nn (rl l) = true) ->
  List.Forall (fun s => n_loci s = nl) sts ->
  (forall s, List.fold_right Rplus 0 (List.map (fun l => reward_get OpsR nn (rl l) s) (List.seq 0 (n_loci s)))
             = reward_get OpsR nn rtot s) ->
  A [seq gen_reward_get OpsR nn nl rtot s | s <- sts]
  = vsum (size ts) [seq A [seq gen_reward_get OpsR nn nl (rl l) s | s <- sts] | l <- iota 0 nl].
Proof.
move=> ssz rok rlok Hnl Hsum.
have E1 : [seq gen_reward_get OpsR nn nl rtot s | s <- sts] = [seq reward_get OpsR nn rtot s | s <- sts].
  by have := gen_reward_vector_eq_R nn nl rtot sts rok Hnl; rewrite /reward_vector !L_map.
have E2 l : [seq gen_reward_get OpsR nn nl (rl l) s | s <- sts] = [seq reward_get OpsR nn (rl l) s | s <- sts].
  by have := gen_reward_vector_eq_R nn nl _ sts (rlok l) Hnl; rewrite /reward_vector !L_map.
rewrite E1 (eq_map (f2 := fun l => A [seq reward_get OpsR nn (rl l) s | s <- sts])); last first.
  by move=> l; rewrite E2.
rewrite (map_comp A (fun l => [seq reward_get OpsR nn (rl l) s | s <- sts])).
rewrite -source_first_moment_sum; last first.
  by apply/allP => x /mapP [l _ ->]; rewrite size_map ssz.
congr (A _); rewrite -ssz vsum_pointwise.
elim: Hnl => [|s sts' nls _ IH] //=; congr (_ :: _) => //.
by rewrite -nls -[LHS]Hsum.
Qed.

Theorem source_locus_branch_length_means_sum (nn nl : nat) (sts : seq state) :
  size sts = n -> List.Forall (fun s => n_loci s = nl) sts ->
  A [seq gen_reward_get OpsR nn nl RTotalBranchLength s | s <- sts]
  = vsum (size ts) [seq A [seq gen_reward_get OpsR nn nl (RTBLLocus l) s | s <- sts] | l <- iota 0 nl].
Proof. by move=> ssz Hnl; apply: source_locus_sum_gen => // s; exact: locus_branch_lengths_sum. Qed.

Theorem source_locus_height_means_sum (nn nl : nat) (sts : seq state) :
  size sts = n -> List.Forall (fun s => n_loci s = nl) sts ->
  A [seq gen_reward_get OpsR nn nl RTotalTreeHeight s | s <- sts]
  = vsum (size ts) [seq A [seq gen_reward_get OpsR nn nl (RLocus l) s | s <- sts] | l <- iota 0 nl].
Proof. by move=> ssz Hnl; apply: source_locus_sum_gen => // s; exact: locus_heights_sum. Qed.
(* ---- order k: the translated _accumulate is linear in EACH reward slot ---- *)
Definition acck (k : nat) (Rs : seq (seq R)) : seq R :=
  PhaseTypeDistribution_accumulate OpsR expm regf (length Slast) k (all_epochs Ss Slast) Rs alpha ts.

Lemma denCkE k (Rs : seq (seq R)) :
  denCk n k Rs Ss = Ek k [seq (x.1, mx_of n n x.2) | x <- Ss] (rwd n Rs).
Proof. by rewrite /denCk /Ek -map_comp. Qed.

Lemma rwd_set (Rs : seq (seq R)) j (r : seq R) i :
  rwd n (set_nth [::] Rs j r) i = rset (rwd n Rs) j (diag_mx (rv_of n r)) i.
Proof. by rewrite /rwd /rset nth_set_nth /=; case: ifP. Qed.

Lemma acck_pointwise k (Rs : seq (seq R)) j (r : seq R) :
  (forall i, (i < k)%N -> i != j -> size (nth [::] Rs i) = n) -> size r = n ->
  acck k (set_nth [::] Rs j r)
  = List.map (fun t => IZR (CoalModels.fact_Z k) *
        (rv_of n alpha *m @TR k n [seq (x.1, mx_of n n x.2) | x <- Ss] (mx_of n n Slast)
                              (rset (rwd n Rs) j (diag_mx (rv_of n r))) t *m (const_mx 1 : 'cV[R]_n)) ord0 ord0) ts.
Proof.
move=> HR sr; rewrite /acck (@source_accumulate_pointwise expm expm_sound regf n k) //; last first.
  by move=> i ik; rewrite nth_set_nth /=; case: ifP => [_ //|/negbT ij]; apply: HR.
apply: eq_map => t; rewrite /mk_val /TR denCkE.
congr (_ * ((_ *m vltr (evalM _ _ _ _) *m _) _ _))%Re.
- by rewrite /Ek; apply: eq_map => x; congr (_, _); apply: eq_vl => i _; exact: rwd_set.
- by apply: eq_vl => i _; exact: rwd_set.
Qed.

Theorem source_moment_slot_linear k j (Rs : seq (seq R)) (r1 r2 : seq R) (c1 c2 : R) :
  (j < k)%N -> (forall i, (i < k)%N -> i != j -> size (nth [::] Rs i) = n) -> size r1 = n -> size r2 = n ->
  acck k (set_nth [::] Rs j (vadd OpsR (vscale OpsR c1 r1) (vscale OpsR c2 r2)))
  = vadd OpsR (vscale OpsR c1 (acck k (set_nth [::] Rs j r1))) (vscale OpsR c2 (acck k (set_nth [::] Rs j r2))).
Proof.
move=> jk HR s1 s2.
have s12 : size (vadd OpsR (vscale OpsR c1 r1) (vscale OpsR c2 r2)) = n.
  by rewrite (@size_vadd n) ?size_vscale.
rewrite !acck_pointwise //; apply: map_lin => t.
rewrite diag_lin // evalM_additive_slot // !evalM_scale_slot //.
rewrite mulmxDr mulmxDl -!scalemxAr -!scalemxAl !mxE.
rewrite /GRing.add /GRing.mul /=; ring.
Qed.
End Src.

(* any family of rewards whose values sum, state by state, to the value of a total reward *)
Lemma family_vectors_sum (nn nl : nat) (rtot : reward) (I : seq nat) (rl : nat -> reward) (sts : seq state) :
  reward_ok nn rtot = true -> all (fun l => reward_ok nn (rl l)) I ->
  List.Forall (fun s => n_loci s = nl) sts ->
  List.Forall (fun s => List.fold_right Rplus 0 (List.map (fun l => reward_get OpsR nn (rl l) s) I) = reward_get OpsR nn rtot s) sts ->
  vsum (size sts) [seq [seq gen_reward_get OpsR nn nl (rl l) s | s <- sts] | l <- I]
  = [seq gen_reward_get OpsR nn nl rtot s | s <- sts].
Proof.
move=> rok rlok Hnl Hsum.
have E1 : [seq gen_reward_get OpsR nn nl rtot s | s <- sts] = [seq reward_get OpsR nn rtot s | s <- sts].
  by have := gen_reward_vector_eq_R nn nl rtot sts rok Hnl; rewrite /reward_vector !L_map.
have E2 l : l \in I -> [seq gen_reward_get OpsR nn nl (rl l) s | s <- sts] = [seq reward_get OpsR nn (rl l) s | s <- sts].
  by move=> /(allP rlok) ok; have := gen_reward_vector_eq_R nn nl _ sts ok Hnl; rewrite /reward_vector !L_map.
have -> : [seq [seq gen_reward_get OpsR nn nl (rl l) s | s <- sts] | l <- I] = [seq [seq reward_get OpsR nn (rl l) s | s <- sts] | l <- I].
  by apply/eq_in_map => l; exact: E2.
rewrite E1 vsum_pointwise.
by elim: Hsum => [|s sts' Hs _ IH] //=; congr (_ :: _).
Qed.

Section SrcFamily.
Variable expm : seq (seq R) -> seq (seq R).
Hypothesis expm_sound : forall n A, wf n n A -> wf n n (expm A) /\ mx_of n n (expm A) = mexp (mx_of n n A).
Variables (regf : seq (seq R) -> R) (n : nat) (Ss : seq (Q * seq (seq R))) (Slast : seq (seq R)) (alpha : seq R) (ts : seq Q).
Hypothesis H0 : regf (List.hd (None, Slast) (all_epochs Ss Slast)).2 <> 0.
Hypothesis H1 : List.Forall (fun x : Q * seq (seq R) => wf n n x.2) Ss.
Hypothesis H2 : wf n n Slast.
Hypothesis H5 : epochs_wf (seq (seq R)) 0%QQ Ss.
Hypothesis H6 : List.Forall (fun t => (0 <= t)%QQ) ts.
Let A := acc1 expm regf Ss Slast alpha ts.

Theorem source_family_means_sum (nn nl : nat) (rtot : reward) (I : seq nat) (rl : nat -> reward) (sts : seq state) :
  size sts = n -> reward_ok nn rtot = true -> all (fun l => reward_ok nn (rl l)) I ->
  List.Forall (fun s => n_loci s = nl) sts ->
  List.Forall (fun s => List.fold_right Rplus 0 (List.map (fun l => reward_get OpsR nn (rl l) s) I) = reward_get OpsR nn rtot s) sts ->
  A [seq gen_reward_get OpsR nn nl rtot s | s <- sts]
  = vsum (size ts) [seq A [seq gen_reward_get OpsR nn nl (rl l) s | s <- sts] | l <- I].
Proof.
move=> ssz rok rlok Hnl Hsum.
rewrite /A -(family_vectors_sum rok rlok Hnl Hsum) ssz.
rewrite (@source_first_moment_sum expm expm_sound regf n Ss Slast alpha ts H0 H1 H2 H5 H6) -?map_comp //.
by apply/allP => x /mapP [l _ ->]; rewrite size_map ssz.
Qed.

(* property C02 / C13: for any reward r0 (the unit reward: the spectrum itself; a deme reward: its per-population marginals) the
   expected (un)folded spectrum of r0 sums to the expected r0-weighted total branch length, on any demography *)
Theorem source_expected_sfs_sums_to_branch_length (nn : nat) (r0 : reward) (sts : seq state) :
  size sts = n -> (2 <= nn)%coq_nat -> reward_ok nn r0 = true -> List.Forall (fun s => bc_inv nn s) sts ->
  A [seq gen_reward_get OpsR nn 1 (RProduct [:: r0; RTotalBranchLength]) s | s <- sts]
  = vsum (size ts) [seq A [seq gen_reward_get OpsR nn 1 (RProduct [:: r0; RUnfoldedSFS i]) s | s <- sts] | i <- iota 1 (nn - 1)].
Proof.
move=> ssz n2 r0ok Hinv; apply: source_family_means_sum => //.
- by rewrite /= r0ok.
- by apply/allP => i; rewrite mem_iota => /andP [i1 _]; rewrite /= r0ok /=; case: i i1.
- by elim: Hinv => [|s l [h _] _ IH]; constructor.
- by elim: Hinv => [|s l h _ IH]; constructor => //; exact: sfs_family_decompose.
Qed.

Theorem source_expected_folded_sfs_sums_to_branch_length (nn : nat) (r0 : reward) (sts : seq state) :
  size sts = n -> (2 <= nn)%coq_nat -> reward_ok nn r0 = true -> List.Forall (fun s => bc_inv nn s) sts ->
  A [seq gen_reward_get OpsR nn 1 (RProduct [:: r0; RTotalBranchLength]) s | s <- sts]
  = vsum (size ts) [seq A [seq gen_reward_get OpsR nn 1 (RProduct [:: r0; RFoldedSFS i]) s | s <- sts] | i <- iota 1 (Nat.div nn 2)].
Proof.
move=> ssz n2 r0ok Hinv; apply: source_family_means_sum => //.
- by rewrite /= r0ok.
- apply/allP => i; rewrite mem_iota => /andP [i1 i2]; rewrite /= r0ok /= andbT.
  apply/andP; split; first by case: i i1 {i2}.
  apply/Nat.ltb_lt.
  have h : (Nat.div nn 2 < nn)%coq_nat by apply: Nat.div_lt; lia.
  move/ltP: i2; lia.
- by elim: Hinv => [|s l [h _] _ IH]; constructor.
- by elim: Hinv => [|s l h _ IH]; constructor => //; exact: folded_sfs_family_decompose.
Qed.
End SrcFamily.


Lemma forallb_all (T : Type) (f : T -> bool) (l : seq T) : List.forallb f l = all f l.
Proof. by elim: l => [|x l IH] //=; rewrite IH. Qed.

Lemma fold_nth_iota (f : reward -> R) (rs : seq reward) :
  List.fold_right Rplus 0 (List.map (fun i => f (nth RUnit rs i)) (iota 0 (size rs)))
  = List.fold_right Rplus 0 (List.map f rs).
Proof. by rewrite -[in RHS](mkseq_nth RUnit rs) /mkseq !L_map -map_comp. Qed.

Section SrcSum.
Variable expm : seq (seq R) -> seq (seq R).
Hypothesis expm_sound : forall n A, wf n n A -> wf n n (expm A) /\ mx_of n n (expm A) = mexp (mx_of n n A).
Variables (regf : seq (seq R) -> R) (n : nat) (Ss : seq (Q * seq (seq R))) (Slast : seq (seq R)) (alpha : seq R) (ts : seq Q).
Hypothesis H0 : regf (List.hd (None, Slast) (all_epochs Ss Slast)).2 <> 0.
Hypothesis H1 : List.Forall (fun x : Q * seq (seq R) => wf n n x.2) Ss.
Hypothesis H2 : wf n n Slast.
Hypothesis H5 : epochs_wf (seq (seq R)) 0%QQ Ss.
Hypothesis H6 : List.Forall (fun t => (0 <= t)%QQ) ts.
Let A := acc1 expm regf Ss Slast alpha ts.

(* property C15: the mean of SumReward([r_1, .., r_m]) is the sum of the means of the r_i - translated rewards.py and _accumulate,
   any demography *)
Theorem source_sum_reward_mean (nn nl : nat) (rs : seq reward) (sts : seq state) :
  size sts = n -> all (reward_ok nn) rs -> List.Forall (fun s => n_loci s = nl) sts ->
  A [seq gen_reward_get OpsR nn nl (RSum rs) s | s <- sts]
  = vsum (size ts) [seq A [seq gen_reward_get OpsR nn nl r s | s <- sts] | r <- rs].
Proof.
move=> ssz rok Hnl.
have -> : [seq A [seq gen_reward_get OpsR nn nl r s | s <- sts] | r <- rs]
        = [seq A [seq gen_reward_get OpsR nn nl (nth RUnit rs i) s | s <- sts] | i <- iota 0 (size rs)].
  by rewrite -[in LHS](mkseq_nth RUnit rs) /mkseq -map_comp.
apply: (@source_family_means_sum expm expm_sound regf n Ss Slast alpha ts H0 H1 H2 H5 H6 nn nl (RSum rs) (iota 0 (size rs)) (nth RUnit rs)) => //.
- by apply/allP => i; rewrite mem_iota /= add0n => isz; exact: (all_nthP RUnit rok).
- elim: (sts) => [|s l IH]; constructor => //.
  by rewrite sum_reward_linear (fold_nth_iota (fun r => reward_get OpsR nn r s)).
Qed.
End SrcSum.

(* a deme that holds no lineage in a state has reward 0 there, whatever it is combined with *)
Lemma deme_reward_zero (nn : nat) (r : reward) (d : nat) (s : state) :
  deme_lineages s d = 0%N -> reward_get OpsR nn (RProduct [:: r; RDeme d]) s = 0.
Proof.
move=> dz; rewrite product_reward_pointwise /= dz /=.
rewrite /Rdiv; change (INR 0) with R0.
by rewrite !(Rmult_0_l, Rmult_0_r).
Qed.

Section SrcZero.
Variable expm : seq (seq R) -> seq (seq R).
Hypothesis expm_sound : forall n A, wf n n A -> wf n n (expm A) /\ mx_of n n (expm A) = mexp (mx_of n n A).
Variables (regf : seq (seq R) -> R) (n : nat) (Ss : seq (Q * seq (seq R))) (Slast : seq (seq R)) (alpha : seq R) (ts : seq Q).
Hypothesis H0 : regf (List.hd (None, Slast) (all_epochs Ss Slast)).2 <> 0.
Hypothesis H1 : List.Forall (fun x : Q * seq (seq R) => wf n n x.2) Ss.
Hypothesis H2 : wf n n Slast.
Hypothesis H5 : epochs_wf (seq (seq R)) 0%QQ Ss.
Hypothesis H6 : List.Forall (fun t => (0 <= t)%QQ) ts.
Let A := acc1 expm regf Ss Slast alpha ts.

(* property C12: a population that holds no lineage in any state of the state space contributes EXACTLY zero to every first moment,
   at every end time, on any demography *)
Theorem source_unvisited_deme_contributes_zero (nn nl d : nat) (r : reward) (sts : seq state) :
  size sts = n -> reward_ok nn r = true -> List.Forall (fun s => n_loci s = nl) sts ->
  List.Forall (fun s => deme_lineages s d = 0%N) sts ->
  A [seq gen_reward_get OpsR nn nl (RProduct [:: r; RDeme d]) s | s <- sts] = nseq (size ts) 0.
Proof.
move=> ssz rok Hnl Hz.
have rok' : reward_ok nn (RProduct [:: r; RDeme d]) = true by rewrite /= rok.
have -> : [seq gen_reward_get OpsR nn nl (RProduct [:: r; RDeme d]) s | s <- sts] = nseq n 0.
  have := gen_reward_vector_eq_R nn nl _ sts rok' Hnl; rewrite /reward_vector !L_map => ->.
  rewrite -ssz; elim: Hz => [|s l sz _ IH] //.
  by rewrite map_cons deme_reward_zero // IH.
exact: (@source_first_moment_zero expm expm_sound regf n Ss Slast alpha ts).
Qed.
End SrcZero.

Lemma vadd_vscale0_r (a b : seq R) : size a = size b -> vadd OpsR a (vscale OpsR 0 b) = a.
Proof.
move=> sab; apply: (@eq_from_nth _ 0); first by rewrite (@size_vadd (size a)) ?size_vscale.
move=> i _; by rewrite nth_vadd ?size_vscale // nth_vscale mul0r addr0.
Qed.

Lemma vscale_map (S : Type) (c : R) (f : S -> R) (sts : seq S) : vscale OpsR c [seq f s | s <- sts] = [seq c * f s | s <- sts].
Proof. by rewrite vscaleE -map_comp. Qed.

Section SrcWeighted.
Variable expm : seq (seq R) -> seq (seq R).
Hypothesis expm_sound : forall n A, wf n n A -> wf n n (expm A) /\ mx_of n n (expm A) = mexp (mx_of n n A).
Variables (regf : seq (seq R) -> R) (n : nat) (Ss : seq (Q * seq (seq R))) (Slast : seq (seq R)) (alpha : seq R) (ts : seq Q).
Hypothesis H0 : regf (List.hd (None, Slast) (all_epochs Ss Slast)).2 <> 0.
Hypothesis H1 : List.Forall (fun x : Q * seq (seq R) => wf n n x.2) Ss.
Hypothesis H2 : wf n n Slast.
Hypothesis H5 : epochs_wf (seq (seq R)) 0%QQ Ss.
Hypothesis H6 : List.Forall (fun t => (0 <= t)%QQ) ts.
Let A := acc1 expm regf Ss Slast alpha ts.

Theorem source_first_moment_scale (c : R) (r : seq R) : size r = n -> A (vscale OpsR c r) = vscale OpsR c (A r).
Proof.
move=> sr.
have := @source_first_moment_linear expm expm_sound regf n Ss Slast alpha ts r r c 0 H0 H1 H2 sr sr H5 H6.
by rewrite !vadd_vscale0_r ?size_vscale.
Qed.

(* a weighted family: sum_i w_i r_i(s) = W r_tot(s) in every state  ==>  sum_i w_i E[r_i] = W E[r_tot] *)
Theorem source_weighted_family_means_sum (nn nl : nat) (rtot : reward) (W : R) (I : seq nat) (w : nat -> R) (rl : nat -> reward)
    (sts : seq state) :
  size sts = n -> reward_ok nn rtot = true -> all (fun l => reward_ok nn (rl l)) I ->
  List.Forall (fun s => n_loci s = nl) sts ->
  List.Forall (fun s => List.fold_right Rplus 0 (List.map (fun l => w l * reward_get OpsR nn (rl l) s) I)
                        = W * reward_get OpsR nn rtot s) sts ->
  vscale OpsR W (A [seq gen_reward_get OpsR nn nl rtot s | s <- sts])
  = vsum (size ts) [seq vscale OpsR (w l) (A [seq gen_reward_get OpsR nn nl (rl l) s | s <- sts]) | l <- I].
Proof.
move=> ssz rok rlok Hnl Hsum.
have E1 : [seq gen_reward_get OpsR nn nl rtot s | s <- sts] = [seq reward_get OpsR nn rtot s | s <- sts].
  by have := gen_reward_vector_eq_R nn nl rtot sts rok Hnl; rewrite /reward_vector !L_map.
have E2 l : l \in I -> [seq gen_reward_get OpsR nn nl (rl l) s | s <- sts] = [seq reward_get OpsR nn (rl l) s | s <- sts].
  by move=> /(allP rlok) ok; have := gen_reward_vector_eq_R nn nl _ sts ok Hnl; rewrite /reward_vector !L_map.
have -> : [seq vscale OpsR (w l) (A [seq gen_reward_get OpsR nn nl (rl l) s | s <- sts]) | l <- I]
        = [seq A r | r <- [seq [seq w l * reward_get OpsR nn (rl l) s | s <- sts] | l <- I]].
  rewrite -map_comp; apply/eq_in_map => l lI /=.
  by rewrite (E2 l lI) -source_first_moment_scale ?size_map // vscale_map.
rewrite -(@source_first_moment_sum expm expm_sound regf n Ss Slast alpha ts H0 H1 H2 H5 H6); last first.
  by apply/allP => x /mapP [l _ ->]; rewrite size_map ssz.
rewrite -source_first_moment_scale ?size_map // E1 vscale_map; congr (A _).
rewrite -ssz vsum_pointwise.
by elim: Hsum => [|s l Hs _ IH] //=; congr (_ :: _).
Qed.

(* property C11: the size-weighted bins of the expected spectrum sum to n times the expected tree height, on any demography *)
Theorem source_weighted_sfs_is_n_height (nn : nat) (sts : seq state) :
  size sts = n -> (2 <= nn)%coq_nat -> List.Forall (fun s => bc_inv nn s) sts ->
  vscale OpsR (INR nn) (A [seq gen_reward_get OpsR nn 1 RTreeHeight s | s <- sts])
  = vsum (size ts) [seq vscale OpsR (INR i) (A [seq gen_reward_get OpsR nn 1 (RUnfoldedSFS i) s | s <- sts]) | i <- iota 1 (nn - 1)].
Proof.
move=> ssz n2 Hinv; apply: (@source_weighted_family_means_sum nn 1 RTreeHeight (INR nn) (iota 1 (nn - 1)) INR RUnfoldedSFS) => //.
- by apply/allP => i; rewrite mem_iota => /andP [i1 _]; case: i i1.
- by elim: Hinv => [|s l [h _] _ IH]; constructor.
- by elim: Hinv => [|s l h _ IH]; constructor => //; exact: weighted_sfs_is_n_height.
Qed.
End SrcWeighted.

Print Assumptions evalM_ur_linear.
Print Assumptions source_first_moment_linear.
Print Assumptions source_first_moment_sum.
Print Assumptions source_deme_means_sum_to_mean.
Print Assumptions source_locus_branch_length_means_sum.
Print Assumptions source_locus_height_means_sum.
Print Assumptions evalM_scale_slot.
Print Assumptions evalM_additive_slot.
Print Assumptions source_moment_slot_linear.
Print Assumptions source_family_means_sum.
Print Assumptions source_expected_sfs_sums_to_branch_length.
Print Assumptions source_expected_folded_sfs_sums_to_branch_length.
Print Assumptions source_sum_reward_mean.
Print Assumptions source_unvisited_deme_contributes_zero.
Print Assumptions source_weighted_family_means_sum.
Print Assumptions source_weighted_sfs_is_n_height.
