(* Property C10: the raw accumulation curve of ANY order k of non-negative rewards is non-decreasing in the end time - stated
   about the translated _accumulate (gen/LoopsGen.v) on any demography whose rate matrices are generators.

   Method (generalises analysis/SourceMonotone.v, which is the case k = 1): with w the indicator of the last block of the
   Van Loan state space, the accumulated matrix T satisfies  alpha vltr(T) 1 = alpha vlfirst(T w).  Every step U over a
   non-negative duration is entrywise non-negative (the Van Loan matrix has non-negative off-diagonal entries) and satisfies
   U w >= w: by induction on k, the exponential of a block upper triangular matrix has the exponential of the lower-right block
   as its lower-right block (mexp_ut_lower, by intertwining), whose action on w is >= w, and a non-negative block above it.
   Both facts are kept by products, the walk up to u2 is the walk up to u1 times such a matrix (evalM_split), so
   T(u2) w = T(u1) (U w) >= T(u1) w. *)
Require Import Reals Psatz QArith Qreals.
From mathcomp Require Import all_ssreflect all_algebra.
From PG Require Import analysis.Rstruct analysis.RSums analysis.MExp analysis.MExpLaws.
From PG Require Import base.Ops base.OpsR base.Perm model.Matrix model.Loop model.PhaseType.
From PG Require Import proofs.LoopProofs proofs.ExpLaws proofs.ExpLaws2 analysis.Denote analysis.CdfFacts analysis.DenotePhaseType.
From PG Require Import gen.NpLoops gen.LoopsGen proofs.GenLoopsEquiv analysis.SourceLoops analysis.SourceLinear.
Set Implicit Arguments. Unset Strict Implicit. Unset Printing Implicit Defensive.
Import GRing.Theory.
Delimit Scope Q_scope with QQ.
Local Open Scope ring_scope.

Ltac bsimp := rewrite ?(mulmx1, mul1mx, mulmx0, mul0mx, addr0, add0r, scaler0).

(* entrywise order on real matrices *)
Definition mx_le m n (A B : 'M[R]_(m, n)) : Prop := forall i j, Rle (A i j) (B i j).

Lemma mx_le_refl m n (A : 'M[R]_(m, n)) : mx_le A A.
Proof. by move=> i j; exact: Rle_refl. Qed.

Lemma mx_le_trans m n (A B C : 'M[R]_(m, n)) : mx_le A B -> mx_le B C -> mx_le A C.
Proof. by move=> AB BC i j; exact: Rle_trans (AB i j) (BC i j). Qed.

Lemma mulmx_le_l m n p (A : 'M[R]_(m, n)) (B C : 'M[R]_(n, p)) : mx_ge0 A -> mx_le B C -> mx_le (A *m B) (A *m C).
Proof. by move=> A0 BC; exact: mulmx_le. Qed.

(* the indicator of the last block *)
Fixpoint wlast n k : 'cV[R]_(vlsz n k) :=
  match k return 'cV[R]_(vlsz n k) with
  | k'.+1 => col_mx 0 (wlast n k')
  | 0%N => const_mx 1
  end.

Lemma wlast_ge0 n k : mx_ge0 (wlast n k).
Proof.
elim: k => [|k IH] /= i j; first by rewrite mxE; exact: Rle_0_1.
rewrite -[i]splitK; case: (split i) => i' /=.
- by rewrite col_mxEu mxE; exact: Rle_refl.
- by rewrite col_mxEd; exact: IH.
Qed.

Lemma mul_wlast r n k (M : 'M[R]_(r, vlsz n k)) : M *m wlast n k = vllast (k := k) M *m (const_mx 1 : 'cV[R]_n).
Proof.
elim: k M => [|k IH] M //=.
by rewrite -{1}(hsubmxK M) mul_row_col mulmx0 add0r IH.
Qed.

(* general block upper triangular matrices: the lower blocks of the exponential *)
Lemma mexp_ut_lower m n (A : 'M[R]_m) (B : 'M[R]_(m, n)) (C : 'M[R]_n) :
  dlsubmx (mexp (block_mx A B 0 C)) = 0 /\ drsubmx (mexp (block_mx A B 0 C)) = mexp C.
Proof.
set E := mexp _.
have : C *m row_mx 0 1%:M = row_mx 0 1%:M *m block_mx A B 0 C.
  by rewrite mul_mx_row mul_row_block; bsimp.
move/mexp_intertwine; rewrite -/E -{1}(submxK E) mul_mx_row mul_row_block.
by bsimp => /eq_row_mx [<- <-].
Qed.

Definition offge0 n (A : 'M[R]_n) : Prop := forall i j, i != j -> Rle R0 (A i j).

Lemma offge0_block m n (A : 'M[R]_m) (B : 'M[R]_(m, n)) (C : 'M[R]_n) :
  offge0 A -> mx_ge0 B -> offge0 C -> offge0 (block_mx A B 0 C).
Proof.
move=> A0 B0 C0 i j; rewrite -[i]splitK -[j]splitK; case: (split i) => i'; case: (split j) => j' /=.
- by rewrite block_mxEul (inj_eq (@lshift_inj _ _)); exact: A0.
- by rewrite block_mxEur => _; exact: B0.
- by rewrite block_mxEdl mxE => _; exact: Rle_refl.
- by rewrite block_mxEdr (inj_eq (@rshift_inj _ _)); exact: C0.
Qed.

Lemma vltop_ge0 n (Rw : 'M[R]_n) k : mx_ge0 Rw -> mx_ge0 (vltop Rw k).
Proof.
case: k => [|k] //= R0 i j; rewrite -[j]splitK; case: (split j) => j' /=.
- by rewrite row_mxEl; exact: R0.
- by rewrite row_mxEr mxE; exact: Rle_refl.
Qed.

Lemma vl_offge0 n k (A : 'M[R]_n) (Bs : nat -> 'M[R]_n) :
  offge0 A -> (forall i, mx_ge0 (Bs i)) -> offge0 (vl A Bs k).
Proof.
elim: k Bs => [|k IH] Bs A0 B0 //=.
by apply: offge0_block => //; [exact: vltop_ge0 | exact: IH].
Qed.

Lemma mexp_vl_ge0 n k (A : 'M[R]_n) (Bs : nat -> 'M[R]_n) :
  offge0 A -> (forall i, mx_ge0 (Bs i)) -> mx_ge0 (mexp (vl A Bs k)).
Proof. by move=> A0 B0; apply: mexp_offdiag_ge0; exact: vl_offge0. Qed.

Lemma sub_ge0_ur' m1 m2 n1 n2 (A : 'M[R]_(m1 + m2, n1 + n2)) : mx_ge0 A -> mx_ge0 (ursubmx A).
Proof. by move=> A0 i j; rewrite !mxE. Qed.

Lemma mexp_vl_wlast n k (A : 'M[R]_n) (Bs : nat -> 'M[R]_n) :
  offge0 A -> A *m const_mx 1 = (0 : 'cV[R]_n) -> (forall i, mx_ge0 (Bs i)) ->
  mx_le (wlast n k) (mexp (vl A Bs k) *m wlast n k).
Proof.
move=> A0 A1; elim: k Bs => [|k IH] Bs B0 /=.
  by rewrite (real_expm_row_sums A1); exact: mx_le_refl.
set E := mexp _.
have E0 : mx_ge0 E by apply: (@mexp_vl_ge0 n k.+1 A Bs).
have [_ Edr] := mexp_ut_lower A (vltop (Bs 0%N) k) (vl A (fun i => Bs i.+1) k).
rewrite -{1}(submxK E) mul_block_col !mulmx0 !add0r -/E Edr => i j.
rewrite -[i]splitK; case: (split i) => i' /=.
- rewrite !col_mxEu mxE; apply: mulmx_ge0; [exact: sub_ge0_ur' | exact: wlast_ge0].
- by rewrite !col_mxEd; apply: IH => l; exact: B0.
Qed.

Lemma vlfirst_le n k c (A B : 'M[R]_(vlsz n k, c)) : mx_le A B -> mx_le (vlfirst (k := k) A) (vlfirst (k := k) B).
Proof. by case: k A B => [|k] A B AB //= i j; rewrite !mxE. Qed.

Section MonoK.
Variables (n k : nat) (Rs : nat -> 'M[R]_n).
Hypothesis Rs0 : forall i, mx_ge0 (Rs i).
Let w := wlast n k.

Definition PUk (U : 'M[R]_(vlsz n k)) : Prop := mx_ge0 U /\ mx_le w (U *m w).
Definition PVk (V : 'M[R]_(vlsz n k)) : Prop := exists2 S : 'M[R]_n, gen_mx S & V = vl S Rs k.

Lemma PUk1 : PUk 1%:M.
Proof. by split; [exact/scalar_mx_ge0/Rle_0_1 | rewrite mul1mx; exact: mx_le_refl]. Qed.

Lemma PUk_mul A B : PUk A -> PUk B -> PUk (A *m B).
Proof.
move=> [A0 Aw] [B0 Bw]; split; first exact: mulmx_ge0.
by rewrite -mulmxA; apply: mx_le_trans Aw _; exact: mulmx_le_l.
Qed.

Lemma PUk_step V (dt : Q) : PVk V -> (0 <= dt)%QQ -> PUk (stepM V dt).
Proof.
move=> [S [Soff S1] ->] /Q2R_ge0 t0; rewrite /stepM vl_scale.
set t := Q2R dt in t0 *.
have A0 : offge0 (t *: S) by move=> i j ij; rewrite mxE; apply: Rmult_le_pos => //; exact: Soff.
have A1 : (t *: S) *m const_mx 1 = (0 : 'cV[R]_n) by rewrite -scalemxAl S1 scaler0.
have B0 i : mx_ge0 (t *: Rs i) by move=> a b; rewrite mxE; apply: Rmult_le_pos => //; exact: Rs0.
by split; [exact: mexp_vl_ge0 | exact: mexp_vl_wlast].
Qed.

Lemma epochs_wf_Ek lo (Ss : seq (Q * 'M[R]_n)) : epochs_wf 'M[R]_n lo Ss -> epochs_wf 'M[R]_(vlsz n k) lo (Ek k Ss Rs).
Proof. by elim: Ss lo => [|[en S] Ss IH] lo //= [H /IH]. Qed.

(* raw moments of order k of non-negative rewards do not decrease in the end time, on any demography *)
Theorem evalM_moment_monotone (Ss : seq (Q * 'M[R]_n)) (Slast : 'M[R]_n) (a : 'rV[R]_n) (u1 u2 : Q) :
  List.Forall (fun x => gen_mx x.2) Ss -> gen_mx Slast -> mx_ge0 a ->
  epochs_wf 'M[R]_n 0%QQ Ss -> (0 <= u1)%QQ -> (u1 <= u2)%QQ ->
  Rle ((a *m vltr (k := k) (evalM (vlsz n k) (Ek k Ss Rs) (vl Slast Rs k) u1) *m (const_mx 1 : 'cV[R]_n)) ord0 ord0)
      ((a *m vltr (k := k) (evalM (vlsz n k) (Ek k Ss Rs) (vl Slast Rs k) u2) *m (const_mx 1 : 'cV[R]_n)) ord0 ord0).
Proof.
move=> Sgen Lgen a0 Ewf u10 u12.
have PVl : PVk (vl Slast Rs k) by exists Slast.
have PVs : List.Forall (fun x => PVk x.2) (Ek k Ss Rs).
  by rewrite /Ek; elim: Sgen => [|x l xg _ IH] /=; constructor => //; exists x.2.
have Ewf2 := epochs_wf_Ek Ewf.
have [U [U0 Uw] ->] : exists2 U, PUk U & evalM (vlsz n k) (Ek k Ss Rs) (vl Slast Rs k) u2
                                         = evalM (vlsz n k) (Ek k Ss Rs) (vl Slast Rs k) u1 *m U.
  apply: (@evalM_split (vlsz n k) PUk PVk) => //.
  - exact: PUk_mul.
  - exact: PUk1.
  - by move=> v dt; exact: PUk_step.
have [T0 _] : PUk (evalM (vlsz n k) (Ek k Ss Rs) (vl Slast Rs k) u1).
  apply: (@eval_at_inv _ _ mulmx 1%:M (@stepM (vlsz n k)) PUk PVk) => //.
  - exact: PUk_mul.
  - exact: PUk1.
  - by move=> v dt; exact: PUk_step.
set T1 := evalM _ _ _ u1 in T0 *.
have E (T : 'M[R]_(vlsz n k)) : a *m vltr (k := k) T *m (const_mx 1 : 'cV[R]_n) = a *m vlfirst (k := k) (T *m w).
  by rewrite -mulmxA /vltr -mul_wlast vlfirst_mul.
rewrite !E; apply: mulmx_le_l => //; apply: vlfirst_le.
by rewrite -mulmxA; exact: mulmx_le_l.
Qed.
End MonoK.

From PG Require Import proofs.RatesProofs.

Lemma denCkE2 n k (Rs : seq (seq R)) (Ss : seq (Q * seq (seq R))) :
  denCk n k Rs Ss = Ek k (denE n Ss) (rwd n Rs).
Proof. by rewrite /denCk /Ek /denE -map_comp. Qed.

Section SrcMonoK.
Variable expm : seq (seq R) -> seq (seq R).
Hypothesis expm_sound : forall n A, wf n n A -> wf n n (expm A) /\ mx_of n n (expm A) = mexp (mx_of n n A).

(* property C10: the raw accumulation curve of ANY order k of non-negative rewards is non-decreasing in the end time - translated
   _accumulate, any demography whose rate matrices are generators *)
Theorem source_moment_monotone (regf : seq (seq R) -> R) (n k : nat) (Ss : seq (Q * seq (seq R))) (Slast : seq (seq R))
    (alpha : seq R) (Rs : seq (seq R)) (t1 t2 : Q) :
  regf (List.hd (None, Slast) (all_epochs Ss Slast)).2 <> 0 ->
  List.Forall (fun x : Q * seq (seq R) => is_generator n x.2) Ss -> is_generator n Slast ->
  (forall j, (j < n)%N -> Rle R0 (nth 0 alpha j)) ->
  (forall i, (i < k)%N -> size (nth [::] Rs i) = n) -> (forall i j, Rle R0 (nth 0 (nth [::] Rs i) j)) ->
  epochs_wf (seq (seq R)) 0%QQ Ss -> (0 <= t1)%QQ -> (t1 <= t2)%QQ ->
  Rle (nth 0 (PhaseTypeDistribution_accumulate OpsR expm regf (length Slast) k (all_epochs Ss Slast) Rs alpha [:: t1]) 0)
      (nth 0 (PhaseTypeDistribution_accumulate OpsR expm regf (length Slast) k (all_epochs Ss Slast) Rs alpha [:: t2]) 0).
Proof.
move=> r0 Sgen Lgen a0 sR Rge0 Ewf t10 t12.
have t20 : (0 <= t2)%QQ by Lqa.lra.
have Swf := all_generators_wf Sgen; have [Lwf _ _] := Lgen.
rewrite !(@source_accumulate_pointwise expm expm_sound regf n k) //; try by constructor.
rewrite !L_map; cbn [map nth]; rewrite /mk_val !denCkE2.
apply: Rmult_le_compat_l; first by apply: IZR_le; apply: Z.lt_le_incl; exact: fact_Z_pos.
apply: evalM_moment_monotone => //.
- by move=> i a b; rewrite /rwd !mxE; case: (a == b)%B; rewrite ?mulr1n ?mulr0n; [exact: Rge0 | exact: Rle_refl].
- by apply: Forall_denE; apply: List.Forall_impl Sgen => x; exact: is_generator_mx.
- exact: is_generator_mx.
- by move=> i j; rewrite mxE; exact: a0.
- exact: epochs_wf_denE.
Qed.
End SrcMonoK.
Print Assumptions source_moment_monotone.
Print Assumptions evalM_moment_monotone.
