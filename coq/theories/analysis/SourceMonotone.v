(* Property C10 (and C01/C02: "moments of non-negative statistics"): the raw accumulation curve of the FIRST moment of a
   non-negative reward is non-decreasing in the end time - stated about the translated _accumulate (gen/LoopsGen.v, regenerated
   from phasegen/distributions.py on every run) on ANY piecewise-constant demography with generator rate matrices.

   Method: the accumulated Van Loan matrix of order 1 stays block upper triangular, entrywise non-negative, with a
   row-stochastic lower-right block (PU: kept by products, true of every step over a non-negative duration because the real
   exponential of a matrix with non-negative off-diagonal entries is non-negative - analysis/MExp.v - and the diagonal blocks
   are exponentials of generators); the walk up to u2 is the walk up to u1 times such a matrix (evalM_split of
   analysis/CdfFacts.v), so  alpha ur(T(u2)) 1 = alpha ul(T(u1)) ur(U) 1 + alpha ur(T(u1)) 1  with a non-negative first term.
   NOT proved here: the same for raw moments of order k >= 2. *)
Require Import Reals Psatz QArith Qreals.
From mathcomp Require Import all_ssreflect all_algebra.
From PG Require Import analysis.Rstruct analysis.RSums analysis.MExp analysis.MExpLaws.
From PG Require Import base.Ops base.OpsR base.Perm model.Matrix model.Loop model.PhaseType.
From PG Require Import proofs.LoopProofs proofs.ExpLaws proofs.ExpLaws2 analysis.Denote analysis.CdfFacts analysis.DenotePhaseType.
From PG Require Import gen.NpLoops gen.LoopsGen proofs.GenLoopsEquiv analysis.SourceLoops analysis.SourceLinear.
Set Implicit Arguments. Unset Strict Implicit. Unset Printing Implicit Defensive.
Import GRing.Theory.
Delimit Scope Q_scope with QQ.
Local Open Scope ring_scope.

Section Mono.
Variable n : nat.
Variable D : 'M[R]_n.
Hypothesis D0 : mx_ge0 D.

(* block upper triangular, entrywise non-negative, lower-right block row-stochastic *)
Definition PU (U : 'M[R]_(n + n)) : Prop :=
  [/\ mx_ge0 U, dlsubmx U = 0 & drsubmx U *m const_mx 1 = (const_mx 1 : 'cV[R]_n)].
Definition PVg (V : 'M[R]_(n + n)) : Prop := exists2 S : 'M[R]_n, gen_mx S & V = V2 S D.

Lemma PU1 : PU 1%:M.
Proof.
split; first exact/scalar_mx_ge0/Rle_0_1.
- by rewrite -[1%:M]/(scalar_mx 1) scalar_mx_block block_mxKdl.
- by rewrite -[1%:M]/(scalar_mx 1) scalar_mx_block block_mxKdr mul1mx.
Qed.

Lemma PU_mul A B : PU A -> PU B -> PU (A *m B).
Proof.
move=> [A0 Adl Adr] [B0 Bdl Bdr]; split; first exact: mulmx_ge0.
- by rewrite -{1}(submxK A) -{1}(submxK B) mulmx_block block_mxKdl Adl Bdl mul0mx mulmx0 addr0.
- by rewrite -{1}(submxK A) -{1}(submxK B) mulmx_block block_mxKdr Adl mul0mx add0r -mulmxA Bdr.
Qed.

Lemma PU_step V (dt : Q) : PVg V -> (0 <= dt)%QQ -> PU (stepM V dt).
Proof.
move=> [S [Soff S1] ->] /Q2R_ge0 t0; rewrite /stepM /V2 scale_block_mx scaler0.
set t := Q2R dt in t0 *.
have [Eul Edr Edl] := expm_ut_blocks (expm := rexpm) (@mexp_intertwine) (t *: S) (t *: D).
split; last 2 first.
- exact: Edl.
- by rewrite Edr; have [_ ->] := @stoch_step n S t t0 (conj Soff S1).
apply: mexp_offdiag_ge0 => i j.
rewrite -[i]splitK -[j]splitK; case: (split i) => i'; case: (split j) => j' /=.
- rewrite block_mxEul (inj_eq (@lshift_inj _ _)) mxE => ij.
  by apply: Rmult_le_pos => //; exact: Soff.
- by rewrite block_mxEur mxE => _; apply: Rmult_le_pos => //; exact: D0.
- by rewrite block_mxEdl mxE => _; exact: Rle_refl.
- rewrite block_mxEdr (inj_eq (@rshift_inj _ _)) mxE => ij.
  by apply: Rmult_le_pos => //; exact: Soff.
Qed.

Lemma epochs_wf_E2 lo (Ss : seq (Q * 'M[R]_n)) : epochs_wf 'M[R]_n lo Ss -> epochs_wf 'M[R]_(n + n) lo (E2 Ss D).
Proof. by elim: Ss lo => [|[en S] Ss IH] lo //= [H /IH]. Qed.

Lemma ursubmx_mul_ut (A B : 'M[R]_(n + n)) : dlsubmx B = 0 ->
  ursubmx (A *m B) = ulsubmx A *m ursubmx B + ursubmx A *m drsubmx B.
Proof. by move=> _; rewrite -{1}(submxK A) -{1}(submxK B) mulmx_block block_mxKur. Qed.

Lemma sub_ge0_ul (A : 'M[R]_(n + n)) : mx_ge0 A -> mx_ge0 (ulsubmx A).
Proof. by move=> A0 i j; rewrite !mxE. Qed.
Lemma sub_ge0_ur (A : 'M[R]_(n + n)) : mx_ge0 A -> mx_ge0 (ursubmx A).
Proof. by move=> A0 i j; rewrite !mxE. Qed.

(* raw first moments of a non-negative reward do not decrease in the end time, on any demography *)
Theorem evalM_first_moment_monotone (Ss : seq (Q * 'M[R]_n)) (Slast : 'M[R]_n) (a : 'rV[R]_n) (u1 u2 : Q) :
  List.Forall (fun x => gen_mx x.2) Ss -> gen_mx Slast -> mx_ge0 a ->
  epochs_wf 'M[R]_n 0%QQ Ss -> (0 <= u1)%QQ -> (u1 <= u2)%QQ ->
  Rle ((a *m ursubmx (evalM (n + n) (E2 Ss D) (V2 Slast D) u1) *m (const_mx 1 : 'cV[R]_n)) ord0 ord0)
      ((a *m ursubmx (evalM (n + n) (E2 Ss D) (V2 Slast D) u2) *m (const_mx 1 : 'cV[R]_n)) ord0 ord0).
Proof.
move=> Sgen Lgen a0 Ewf u10 u12.
have PVl : PVg (V2 Slast D) by exists Slast.
have PVs : List.Forall (fun x => PVg x.2) (E2 Ss D).
  by rewrite /E2; elim: Sgen => [|x l xg _ IH] /=; constructor => //; exists x.2.
have Ewf2 := epochs_wf_E2 Ewf.
have [U [U0 Udl Udr] ->] : exists2 U, PU U & evalM (n + n) (E2 Ss D) (V2 Slast D) u2
                                            = evalM (n + n) (E2 Ss D) (V2 Slast D) u1 *m U.
  apply: (@evalM_split (n + n) PU PVg) => //.
  - exact: PU_mul.
  - exact: PU1.
  - by move=> v dt; exact: PU_step.
have [T0 _ _] : PU (evalM (n + n) (E2 Ss D) (V2 Slast D) u1).
  apply: (@eval_at_inv _ _ mulmx 1%:M (@stepM (n + n)) PU PVg) => //.
  - exact: PU_mul.
  - exact: PU1.
  - by move=> v dt; exact: PU_step.
set T1 := evalM _ _ _ u1 in T0 *.
rewrite ursubmx_mul_ut // mulmxDr mulmxDl.
have -> : a *m (ursubmx T1 *m drsubmx U) *m (const_mx 1 : 'cV[R]_n) = a *m ursubmx T1 *m const_mx 1.
  by rewrite -!mulmxA Udr.
rewrite [X in Rle _ X]mxE.
have y0 : Rle R0 ((a *m (ulsubmx T1 *m ursubmx U) *m (const_mx 1 : 'cV[R]_n)) ord0 ord0).
  apply: mulmx_ge0; last by move=> i j; rewrite mxE; exact: Rle_0_1.
  apply: mulmx_ge0 => //; apply: mulmx_ge0; [exact: sub_ge0_ul | exact: sub_ge0_ur].
set y := (a *m (ulsubmx T1 *m ursubmx U) *m _) _ _ in y0 *.
set x := (a *m ursubmx T1 *m _) _ _.
by rewrite /GRing.add /=; Lra.lra.
Qed.
End Mono.

Section SrcMono.
Variable expm : seq (seq R) -> seq (seq R).
Hypothesis expm_sound : forall n A, wf n n A -> wf n n (expm A) /\ mx_of n n (expm A) = mexp (mx_of n n A).

(* property C10: the raw accumulation curve of the first moment of a NON-NEGATIVE reward (tree height, branch lengths, SFS
   bins, their per-deme / per-locus parts) is non-decreasing in the end time, for the translated _accumulate on any demography *)
Theorem source_first_moment_monotone (regf : seq (seq R) -> R) (n : nat) (Ss : seq (Q * seq (seq R))) (Slast : seq (seq R))
    (alpha r : seq R) (t1 t2 : Q) :
  regf (List.hd (None, Slast) (all_epochs Ss Slast)).2 <> 0 ->
  List.Forall (fun x : Q * seq (seq R) => is_generator n x.2) Ss -> is_generator n Slast ->
  (forall j, (j < n)%N -> Rle R0 (nth 0 alpha j)) ->
  size r = n -> (forall j, (j < n)%N -> Rle R0 (nth 0 r j)) ->
  epochs_wf (seq (seq R)) 0%QQ Ss -> (0 <= t1)%QQ -> (t1 <= t2)%QQ ->
  Rle (nth 0 (acc1 expm regf Ss Slast alpha [:: t1] r) 0) (nth 0 (acc1 expm regf Ss Slast alpha [:: t2] r) 0).
Proof.
move=> r0 Sgen Lgen a0 sr rge0 Ewf t10 t12.
have t20 : (0 <= t2)%QQ by Lqa.lra.
have Swf := all_generators_wf Sgen; have [Lwf _ _] := Lgen.
rewrite /acc1 !(@source_accumulate_pointwise expm expm_sound regf n 1) //; try (by case); try by constructor.
rewrite !L_map; cbn [map nth]; rewrite /mk_val !denCk1.
have vlE : vl (mx_of n n Slast) (rwd n [:: r]) 1 = V2 (mx_of n n Slast) (diag_mx (rv_of n r)) by [].
have trE (T : 'M[R]_(vlsz n 1)) : vltr (k := 1) T = ursubmx (T : 'M[R]_(n + n)) by [].
rewrite !vlE !trE.
have -> : IZR (CoalModels.fact_Z 1) = 1 by [].
rewrite !Rmult_1_l.
apply: evalM_first_moment_monotone => //.
- by move=> i j; rewrite !mxE; case: (i == j)%B; rewrite ?mulr1n ?mulr0n; [apply: rge0 | apply: Rle_refl].
- by apply: Forall_denE; apply: List.Forall_impl Sgen => x; exact: is_generator_mx.
- exact: is_generator_mx.
- by move=> i j; rewrite mxE; exact: a0.
- exact: epochs_wf_denE.
Qed.
End SrcMono.

Print Assumptions evalM_first_moment_monotone.
Print Assumptions source_first_moment_monotone.
