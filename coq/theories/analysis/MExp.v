(* The real matrix exponential  exp(A) = \sum_k A^k / k!  and the laws
   E0, E1, E2 (and positivity E3) assumed abstractly in proofs/ExpLaws.v. *)
Require Import Reals Psatz.
From mathcomp Require Import all_ssreflect all_algebra.
From Coquelicot Require Import Coquelicot.
From PG Require Import analysis.Rstruct analysis.RSums.
Set Implicit Arguments. Unset Strict Implicit. Unset Printing Implicit Defensive.
Import GRing.Theory.
Delimit Scope ring_scope with RR.
Delimit Scope R_scope with Re.
Local Open Scope ring_scope.

(* ------------------------------------------------------------------ *)
(* Powers of a square matrix of arbitrary size (['M_n] is a ring only   *)
(* for n = n'.+1).                                                      *)

Section Pow.
Variable n : nat.
Implicit Types A B : 'M[R]_n.

Definition pow_mx A (k : nat) : 'M[R]_n := iter k (mulmx A) 1%:M.

Lemma pow_mx0 A : pow_mx A 0 = 1%:M. Proof. by []. Qed.
Lemma pow_mxS A k : pow_mx A k.+1 = A *m pow_mx A k. Proof. by []. Qed.

Lemma pow_mxSr A k : pow_mx A k.+1 = pow_mx A k *m A.
Proof.
elim: k => [|k IH]; first by rewrite pow_mxS pow_mx0 mulmx1 mul1mx.
by rewrite pow_mxS {1}IH mulmxA -pow_mxS.
Qed.

Lemma pow_mx1 A : pow_mx A 1 = A.
Proof. by rewrite pow_mxS mulmx1. Qed.

Lemma pow_0mx k : pow_mx (0 : 'M[R]_n) k.+1 = 0.
Proof. by rewrite pow_mxS mul0mx. Qed.

Lemma pow_scalar_mx (c : R) k : pow_mx c%:M k = (c ^+ k)%:M.
Proof.
elim: k => [|k IH]; first by rewrite pow_mx0 expr0.
by rewrite pow_mxS IH -scalar_mxM exprS.
Qed.

End Pow.

Lemma pow_mx_expr n (A : 'M[R]_n.+1) k : pow_mx A k = A ^+ k.
Proof. by elim: k => [|k IH]; rewrite ?pow_mxS ?IH ?exprS. Qed.

Lemma pow_mx_intertwine m n (A : 'M[R]_m) (B : 'M[R]_n) (P : 'M[R]_(m, n)) k :
  A *m P = P *m B -> pow_mx A k *m P = P *m pow_mx B k.
Proof.
move=> AP; elim: k => [|k IH]; first by rewrite !pow_mx0 mul1mx mulmx1.
by rewrite pow_mxS -mulmxA IH mulmxA AP -mulmxA -pow_mxS.
Qed.

(* ------------------------------------------------------------------ *)
(* Entrywise bound  |A^k i j| <= ||A||^k  for the entrywise 1-norm.     *)

Definition mnorm m n (A : 'M[R]_(m, n)) : R := \sum_i \sum_j Rabs (A i j).

Lemma mnorm_ge0 m n (A : 'M[R]_(m, n)) : Rle R0 (mnorm A).
Proof.
by apply: Rsum_ge0 => i _; apply: Rsum_ge0 => j _; apply: Rabs_pos.
Qed.

Lemma row_le_mnorm m n (A : 'M[R]_(m, n)) i :
  Rle (\sum_j Rabs (A i j)) (mnorm A).
Proof.
apply: (@Rle_sum_term _ (fun i => \sum_j Rabs (A i j))) => i'.
by apply: Rsum_ge0 => j _; apply: Rabs_pos.
Qed.

Lemma entry_le_mnorm m n (A : 'M[R]_(m, n)) i j : Rle (Rabs (A i j)) (mnorm A).
Proof.
apply: Rle_trans (row_le_mnorm A i).
by apply: (@Rle_sum_term _ (fun j => Rabs (A i j))) => j'; apply: Rabs_pos.
Qed.

Lemma mulmx_entry_bound m n p (A : 'M[R]_(m, n)) (B : 'M[R]_(n, p)) (b : R) i j :
  Rle R0 b -> (forall l, Rle (Rabs (B l j)) b) ->
  Rle (Rabs ((A *m B) i j)) (Rmult (mnorm A) b).
Proof.
move=> b0 Bb; rewrite mxE.
apply: Rle_trans (Rabs_sum _ _ _) _.
apply: (@Rle_trans _ (\sum_l Rmult (Rabs (A i l)) b)).
  apply: Rle_sum => l _; rewrite -RmultE Rabs_mult.
  by apply: Rmult_le_compat_l (Bb l); apply: Rabs_pos.
rewrite Rsum_mulr; apply: Rmult_le_compat_r => //.
exact: row_le_mnorm.
Qed.

Lemma pow_mx_bound n (A : 'M[R]_n) k i j :
  Rle (Rabs (pow_mx A k i j)) (pow (mnorm A) k).
Proof.
elim: k i j => [|k IH] i j.
  rewrite pow_mx0 mxE /=; case: (i == j).
    by rewrite Rabs_R1; apply: Rle_refl.
  by rewrite Rabs_R0; apply: Rle_0_1.
rewrite pow_mxS /=; apply: mulmx_entry_bound => //.
by apply: pow_le; apply: mnorm_ge0.
Qed.

(* ------------------------------------------------------------------ *)
(* Entrywise convergent series of matrices                             *)

Section MSeries.
Variables m n : nat.
Implicit Types (a b : nat -> 'M[R]_(m, n)) (L : 'M[R]_(m, n)).

Definition is_mseries a L := forall i j, is_series (fun k => a k i j) (L i j).

Definition abs_mseries a := forall i j, ex_series (fun k => Rabs (a k i j)).

Lemma is_mseries_unique a L L' : is_mseries a L -> is_mseries a L' -> L = L'.
Proof.
move=> H H'; apply/matrixP => i j.
by rewrite -(is_series_unique _ _ (H i j)) -(is_series_unique _ _ (H' i j)).
Qed.

Lemma is_mseries_ext a b L :
  (forall k, a k = b k) -> is_mseries a L -> is_mseries b L.
Proof.
by move=> ab H i j; apply: is_series_ext (H i j) => k; rewrite ab.
Qed.

End MSeries.

Lemma is_mseries_mulr m n p (a : nat -> 'M[R]_(m, n)) L (P : 'M[R]_(n, p)) :
  is_mseries a L -> is_mseries (fun k => a k *m P) (L *m P).
Proof.
move=> H i j; rewrite mxE.
apply: (is_series_ext (fun k => \sum_l a k i l * P l j)).
  by move=> k; rewrite -[RHS]/((a k *m P) i j) mxE.
apply: is_series_bigsum => l _.
exact: is_series_scal_r (H i l).
Qed.

Lemma is_mseries_mull m n p (a : nat -> 'M[R]_(n, p)) L (P : 'M[R]_(m, n)) :
  is_mseries a L -> is_mseries (fun k => P *m a k) (P *m L).
Proof.
move=> H i j; rewrite mxE.
apply: (is_series_ext (fun k => \sum_l P i l * a k l j)).
  by move=> k; rewrite -[RHS]/((P *m a k) i j) mxE.
apply: is_series_bigsum => l _.
exact: (is_series_scal_l (P i l)) (H l j).
Qed.

Lemma is_mseries_scale m n (a : nat -> 'M[R]_(m, n)) L (c : R) :
  is_mseries a L -> is_mseries (fun k => c *: a k) (c *: L).
Proof.
move=> H i j; rewrite mxE.
apply: (is_series_ext (fun k => c * a k i j)).
  by move=> k; rewrite -[RHS]/((c *: a k) i j) mxE.
exact: (is_series_scal_l c) (H i j).
Qed.

Arguments is_mseries_mulr {m n p a L} P _ i j.
Arguments is_mseries_mull {m n p a L} P _ i j.
Arguments is_mseries_scale {m n a L} c _ i j.

(* Cauchy product of absolutely convergent matrix series. *)
Lemma is_mseries_cauchy m n p (a : nat -> 'M[R]_(m, n))
    (b : nat -> 'M[R]_(n, p)) LA LB :
  is_mseries a LA -> is_mseries b LB -> abs_mseries a -> abs_mseries b ->
  is_mseries (fun N => \sum_(k < N.+1) a k *m b (N - k)%N) (LA *m LB).
Proof.
move=> Ha Hb Aa Ab i j; rewrite mxE.
apply: (is_series_ext
  (fun N => \sum_l sum_f_R0 (fun k => Rmult (a k i l) (b (N - k)%coq_nat l j)) N)).
  move=> N; rewrite -[RHS]/((\sum_(k < N.+1) a k *m b (N - k)%N) i j) summxE.
  under [RHS]eq_bigr do rewrite mxE.
  rewrite exchange_big /=; apply: eq_bigr => l _.
  by rewrite sum_f_R0_big.
apply: is_series_bigsum => l _.
exact: (is_series_mult (fun k => a k i l) (fun k => b k l j)).
Qed.

(* ------------------------------------------------------------------ *)
(* The exponential                                                     *)

Section Exp.
Variable n : nat.
Implicit Types A B : 'M[R]_n.

Definition mterm A (k : nat) : 'M[R]_n := (/ INR (fact k))%Re *: pow_mx A k.

Definition mexp A : 'M[R]_n := \matrix_(i, j) Series (fun k => mterm A k i j).

Lemma ex_series_exp (c : R) : ex_series (fun k => Rmult (/ INR (fact k)) (pow c k)).
Proof.
by exists (exp c); apply/is_pseries_R; apply: is_exp_Reals.
Qed.

Lemma mterm_bound A k i j :
  Rle (Rabs (mterm A k i j)) (Rmult (/ INR (fact k)) (pow (mnorm A) k)).
Proof.
rewrite mxE -RmultE Rabs_mult Rabs_pos_eq; last first.
  by apply/Rlt_le/Rinv_0_lt_compat/INR_fact_lt_0.
apply: Rmult_le_compat_l (pow_mx_bound A k i j).
by apply/Rlt_le/Rinv_0_lt_compat/INR_fact_lt_0.
Qed.

Lemma mterm_abs A : abs_mseries (mterm A).
Proof.
move=> i j; apply: ex_series_le (ex_series_exp (mnorm A)) => k.
by rewrite /norm /= /abs /= Rabs_Rabsolu; apply: mterm_bound.
Qed.

Lemma mexp_is_mseries A : is_mseries (mterm A) (mexp A).
Proof.
move=> i j; rewrite mxE; apply: Series_correct.
exact/ex_series_Rabs/mterm_abs.
Qed.

Lemma mexp_unique A L : is_mseries (mterm A) L -> mexp A = L.
Proof. by move=> H; apply: is_mseries_unique H; apply: mexp_is_mseries. Qed.

End Exp.

Arguments mexp_is_mseries {n} A i j.
Arguments mterm_abs {n} A i j.

(* ------------------------------------------------------------------ *)
(* Scalar matrices and E0                                              *)

Lemma is_mseries_scalar_mx n (f : nat -> R) (l : R) :
  is_series f l -> is_mseries (fun k => (f k)%:M : 'M[R]_n) l%:M.
Proof.
move=> H i j; rewrite mxE.
apply: (is_series_ext (fun k => f k *+ (i == j))).
  by move=> k; rewrite -[RHS]/(((f k)%:M : 'M[R]_n) i j) mxE.
case: (i == j); rewrite ?mulr1n ?mulr0n //.
exact: is_series_R0.
Qed.

Lemma mexp_scalar n (c : R) : mexp (c%:M : 'M[R]_n) = (exp c)%:M.
Proof.
apply: mexp_unique.
apply: (is_mseries_ext (a := fun k => (Rmult (/ INR (fact k)) (pow c k))%:M)).
  by move=> k; rewrite /mterm pow_scalar_mx scale_scalar_mx RpowE.
apply: is_mseries_scalar_mx.
by apply/is_pseries_R; apply: is_exp_Reals.
Qed.

(* E0 *)
Theorem mexp0 n : mexp (0 : 'M[R]_n) = 1%:M.
Proof.
have -> : (0 : 'M[R]_n) = (R0 : R)%:M by rewrite -[R0]/(0 : R) raddf0.
by rewrite mexp_scalar exp_0.
Qed.

(* ------------------------------------------------------------------ *)
(* E2 : intertwining                                                   *)

Lemma mterm_intertwine m n (A : 'M[R]_m) (B : 'M[R]_n) (P : 'M[R]_(m, n)) k :
  A *m P = P *m B -> mterm A k *m P = P *m mterm B k.
Proof.
by move=> AP; rewrite /mterm -scalemxAl (pow_mx_intertwine k AP) scalemxAr.
Qed.

Theorem mexp_intertwine m n (A : 'M[R]_m) (B : 'M[R]_n) (P : 'M[R]_(m, n)) :
  A *m P = P *m B -> mexp A *m P = P *m mexp B.
Proof.
move=> AP.
have HA := is_mseries_mulr P (mexp_is_mseries A).
have HB := is_mseries_mull P (mexp_is_mseries B).
apply: is_mseries_unique HB.
by apply: is_mseries_ext HA => k; apply: mterm_intertwine.
Qed.

(* ------------------------------------------------------------------ *)
(* E3 : positivity                                                     *)

Definition mx_ge0 m n (A : 'M[R]_(m, n)) := forall i j, Rle R0 (A i j).

Lemma mulmx_ge0 m n p (A : 'M[R]_(m, n)) (B : 'M[R]_(n, p)) :
  mx_ge0 A -> mx_ge0 B -> mx_ge0 (A *m B).
Proof.
move=> A0 B0 i j; rewrite mxE; apply: Rsum_ge0 => l _.
exact: Rmult_le_pos.
Qed.

Lemma scalar_mx_ge0 n (c : R) : Rle R0 c -> mx_ge0 (c%:M : 'M[R]_n).
Proof.
move=> c0 i j; rewrite mxE; case: (i == j); rewrite ?mulr1n ?mulr0n //.
exact: Rle_refl.
Qed.

Lemma pow_mx_ge0 n (A : 'M[R]_n) k : mx_ge0 A -> mx_ge0 (pow_mx A k).
Proof.
move=> A0; elim: k => [|k IH]; first exact/scalar_mx_ge0/Rle_0_1.
by rewrite pow_mxS; apply: mulmx_ge0.
Qed.

Lemma mterm_ge0 n (A : 'M[R]_n) k : mx_ge0 A -> mx_ge0 (mterm A k).
Proof.
move=> A0 i j; rewrite mxE; apply: Rmult_le_pos; last exact: pow_mx_ge0.
by apply/Rlt_le/Rinv_0_lt_compat/INR_fact_lt_0.
Qed.

Theorem mexp_ge0 n (A : 'M[R]_n) : mx_ge0 A -> mx_ge0 (mexp A).
Proof.
move=> A0 i j; apply: is_series_ge0 (mexp_is_mseries A i j) => k.
exact: mterm_ge0.
Qed.

(* ------------------------------------------------------------------ *)
(* E1 : exponential of a sum of commuting matrices                     *)

Lemma fact_coef (N i : nat) : (i <= N)%N ->
  Rmult (/ INR (fact N)) (INR 'C(N, i))
  = Rmult (/ INR (fact i)) (/ INR (fact (N - i)%N)).
Proof.
move=> iN; have := bin_fact iN; rewrite -!factE => /(congr1 INR).
rewrite !mult_INR => <-.
have Hi := INR_fact_neq_0 i; have HNi := INR_fact_neq_0 (N - i)%N.
have HC : INR 'C(N, i) <> R0.
  by apply: not_0_INR => C0; move: (bin_gt0 N i); rewrite iN C0.
by field.
Qed.

Lemma mterm_add n (A B : 'M[R]_n) N :
  A *m B = B *m A ->
  mterm (A + B) N = \sum_(k < N.+1) mterm A k *m mterm B (N - k)%N.
Proof.
case: n A B => [|n] A B AB; first by rewrite [LHS]flatmx0 [RHS]flatmx0.
have cBA : GRing.comm B A by [].
rewrite /mterm pow_mx_expr addrC (exprDn_comm _ cBA) scaler_sumr.
apply: eq_bigr => i _.
rewrite -scalemxAl -scalemxAr scalerA !pow_mx_expr.
have -> : B ^+ (N - i) * A ^+ i = A ^+ i *m B ^+ (N - i).
  by apply: commrX; apply/commr_sym/commrX/commr_sym.
rewrite -scaler_nat scalerA; congr (_ *: _).
by rewrite -INRE -!RmultE fact_coef // -ltnS.
Qed.

Theorem mexpD n (A B : 'M[R]_n) :
  A *m B = B *m A -> mexp (A + B) = mexp A *m mexp B.
Proof.
move=> AB; apply: mexp_unique.
have H := is_mseries_cauchy (mexp_is_mseries A) (mexp_is_mseries B)
            (mterm_abs A) (mterm_abs B).
by apply: is_mseries_ext H => N; rewrite mterm_add.
Qed.

(* ------------------------------------------------------------------ *)
(* Sub-generators: non-negative off-diagonal entries give a            *)
(* non-negative exponential.                                           *)

Theorem mexp_offdiag_ge0 n (S : 'M[R]_n) :
  (forall i j, i != j -> Rle R0 (S i j)) -> mx_ge0 (mexp S).
Proof.
move=> Soff; pose q : R := \sum_i Rabs (S i i).
have qS i : Rle (Rabs (S i i)) q.
  by apply: (@Rle_sum_term _ (fun i => Rabs (S i i))) => i'; apply: Rabs_pos.
have S'0 : mx_ge0 (S + q%:M).
  move=> i j; rewrite !mxE; case: (altP (i =P j)) => [<-|ij].
    rewrite mulr1n -RplusE.
    have := qS i; have := Rle_abs (- S i i)%Re; rewrite Rabs_Ropp.
    move: (S i i) (Rabs _) => x y; move: q {qS} => z H1 H2; lra.
  by rewrite mulr0n addr0; apply: Soff.
have -> : S = (S + q%:M) + (- q)%:M.
  by rewrite -addrA -raddfD /= subrr raddf0 addr0.
rewrite mexpD; last by rewrite scalar_mxC.
rewrite mexp_scalar mul_mx_scalar => i j; rewrite mxE.
apply: Rmult_le_pos; first exact/Rlt_le/exp_pos.
exact: mexp_ge0.
Qed.

(* ------------------------------------------------------------------ *)
(* The hypotheses of proofs/ExpLaws.v hold for the real exponential.   *)

Theorem real_mexp_laws :
  [/\ forall n, mexp (0 : 'M[R]_n) = 1%:M,
      forall n (A B : 'M[R]_n),
        A *m B = B *m A -> mexp (A + B) = mexp A *m mexp B
    & forall m n (A : 'M[R]_m) (B : 'M[R]_n) (P : 'M[R]_(m, n)),
        A *m P = P *m B -> mexp A *m P = P *m mexp B].
Proof. by split; [exact: mexp0 | exact: mexpD | exact: mexp_intertwine]. Qed.

(* ------------------------------------------------------------------ *)
(* mexp A is the entrywise limit of the partial sums                   *)
(*   S_N(A) = \sum_(k < N) (k!)^-1 A^k,                                *)
(* and is bounded entrywise by exp ||A||.                              *)

Definition mexp_psum n (A : 'M[R]_n) (N : nat) : 'M[R]_n :=
  \sum_(k < N) mterm A k.

Theorem mexp_is_lim n (A : 'M[R]_n) i j :
  is_lim_seq (fun N => mexp_psum A N i j) (mexp A i j).
Proof.
apply/is_lim_seq_incr_1.
have H : is_lim_seq (sum_n (fun k => mterm A k i j)) (mexp A i j).
  exact: (mexp_is_mseries A i j).
apply: is_lim_seq_ext H => N.
by rewrite sum_n_big /mexp_psum summxE.
Qed.

Arguments mexp_is_lim {n} A i j.

Corollary mexp_Lim_seq n (A : 'M[R]_n) :
  mexp A = \matrix_(i, j) real (Lim_seq (fun N => mexp_psum A N i j)).
Proof.
by apply/matrixP => i j; rewrite [RHS]mxE (is_lim_seq_unique _ _ (mexp_is_lim A i j)).
Qed.

Theorem mexp_bound n (A : 'M[R]_n) i j :
  Rle (Rabs (mexp A i j)) (exp (mnorm A)).
Proof.
rewrite mxE; apply: Rle_trans (Series_Rabs _ (mterm_abs A i j)) _.
have <- : Series (fun k => Rmult (/ INR (fact k)) (pow (mnorm A) k))
          = exp (mnorm A).
  by apply: is_series_unique; apply/is_pseries_R; apply: is_exp_Reals.
apply: Series_le (ex_series_exp _) => k; split; first exact: Rabs_pos.
exact: mterm_bound.
Qed.

(* ------------------------------------------------------------------ *)
(* Assumption audit                                                    *)

Print Assumptions mterm_abs.
Print Assumptions mexp_scalar.
Print Assumptions mexp0.
Print Assumptions mexp_intertwine.
Print Assumptions mexpD.
Print Assumptions mexp_ge0.
Print Assumptions mexp_offdiag_ge0.
Print Assumptions mexp_is_lim.
Print Assumptions mexp_bound.
Print Assumptions real_mexp_laws.
