(* Property C09 (time rescaling) stated DIRECTLY about the translated source on ANY piecewise-constant demography:
   if every change time is multiplied by a rational c > 0 and every rate matrix divided by c (what multiplying all population
   sizes - the coalescent time scale - by c and dividing migration / recombination rates by c does: C09_rate_matrix_time_rescaling),
   then  cdf'(c t) = cdf(t)  and the accumulated moment of order k satisfies  acc'_k(c t) = c^k acc_k(t),  for the functions
   TreeHeightDistribution_cdf and PhaseTypeDistribution_accumulate of gen/LoopsGen.v (regenerated from phasegen/distributions.py
   on every run), every list of times, every reward tuple, every backend computing the real matrix exponential and every non-zero
   regularisation factor (the two objects may use different ones).

   Method: proofs/LoopScale.v (the epoch walk of model/Loop.v evaluated at c u on the rescaled epochs equals the walk at u when
   the rescaled step over c dt is the original step over dt - generic in the monoid); the step of S/c over c dt is the step of S
   over dt; for order k, c * vl(S/c, R) = vl(S, c R) and the homogeneity of the top-right block in all rewards carried through the
   epoch walk by level-dependent scalar intertwiners (evalM_vltr_transfer of analysis/SourceLinear.v). *)
Require Import Reals Psatz QArith Qreals.
From mathcomp Require Import all_ssreflect all_algebra.
From PG Require Import analysis.Rstruct analysis.RSums analysis.MExp analysis.MExpLaws.
From PG Require Import base.Ops base.OpsR base.Perm model.Matrix model.Loop model.PhaseType.
From PG Require Import proofs.LoopProofs proofs.LoopScale proofs.ExpLaws proofs.ExpLaws2 analysis.Denote analysis.CdfFacts analysis.DenotePhaseType.
From PG Require Import gen.NpLoops gen.LoopsGen proofs.GenLoopsEquiv analysis.SourceLoops analysis.SourceLinear.
Set Implicit Arguments. Unset Strict Implicit. Unset Printing Implicit Defensive.
Import GRing.Theory.
Delimit Scope Q_scope with QQ.
Local Open Scope ring_scope.

(* the rate matrix "divided by c, entry by entry" (what C09_rate_matrix_time_rescaling_unbounded produces) is the hypothesis of
   the rescaling theorems *)
Lemma mx_of_divided n (a : R) (S : seq (seq R)) : a != 0 ->
  a *: mx_of n n [seq [seq (x / a)%Re | x <- row] | row <- S] = mx_of n n S.
Proof.
move=> a0; apply/matrixP => i j; rewrite !mxE /ent.
case: (ltnP i (size S)) => iS; last first.
  rewrite (nth_default _ (s:=S)) // (nth_default _ (s:=[seq _ | row <- S])) ?size_map //.
  by rewrite !nth_nil mulr0.
rewrite (nth_map [::]) //.
case: (ltnP j (size (nth [::] S i))) => jS; last first.
  rewrite (nth_default _ (s:=nth [::] S i)) // (nth_default _ (s:=[seq _ | x <- nth [::] S i])) ?size_map //.
  by rewrite mulr0.
rewrite (nth_map 0) //.
by rewrite /GRing.mul /=; field; apply/eqP.
Qed.

Lemma denCkE' n k (Rs : seq (seq R)) (Ss : seq (Q * seq (seq R))) :
  denCk n k Rs Ss = Ek k [seq (x.1, mx_of n n x.2) | x <- Ss] (rwd n Rs).
Proof. by rewrite /denCk /Ek -map_comp. Qed.

Section Scaling.
Variable c : Q.
Hypothesis c_pos : (0 < c)%QQ.
Let cR : R := Q2R c.

Lemma cR_neq0 : cR != 0.
Proof.
apply/eqP => h; have := Qlt_Rlt _ _ c_pos; rewrite /cR in h.
by rewrite RMicromega.Q2R_0 h => /Rlt_irrefl.
Qed.

(* the step of the generator S / c over c dt is the step of S over dt *)
Lemma stepM_scale n (V V' : 'M[R]_n) (dt dt' : Q) : cR *: V' = V -> (dt' == c * dt)%QQ -> stepM V' dt' = stepM V dt.
Proof.
move=> <- /Qeq_eqR E; rewrite /stepM E Q2R_mult scalerA -/cR.
by congr (mexp (_ *: _)); exact: Rmult_comm.
Qed.

(* the rescaled demography: every end time multiplied by c, every generator divided by c *)
Definition scaled n (Ss Ss' : seq (Q * seq (seq R))) : Prop :=
  List.Forall2 (fun x y : Q * seq (seq R) => (y.1 == c * x.1)%QQ /\ cR *: mx_of n n y.2 = mx_of n n x.2) Ss Ss'.

Theorem TM_time_rescaling n Ss Ss' Slast Slast' (u : Q) :
  scaled n Ss Ss' -> cR *: mx_of n n Slast' = mx_of n n Slast ->
  TM n Ss' Slast' (c * u)%QQ = TM n Ss Slast u.
Proof.
move=> HS HL; rewrite /TM.
apply: (@eval_at_scale _ _ _ mulmx 1%:M (@stepM n) (@stepM n) c c_pos (fun V V' => cR *: V' = V)) => //.
- by move=> v v' dt dt'; exact: stepM_scale.
- rewrite /denE; elim: HS => [|x y xs ys [h1 h2] _ IH] /=; constructor => //.
Qed.

(* order k: the top-right block of the rescaled walk at c u is c^k times that of the original walk at u *)
Theorem vltr_evalM_time_rescaling n k (SsM SsM' : seq (Q * 'M[R]_n)) (SL SL' : 'M[R]_n) (Rw : nat -> 'M[R]_n) (u : Q) :
  List.Forall2 (fun x y : Q * 'M[R]_n => (y.1 == c * x.1)%QQ /\ cR *: y.2 = x.2) SsM SsM' -> cR *: SL' = SL ->
  vltr (k := k) (evalM (vlsz n k) (Ek k SsM' Rw) (vl SL' Rw k) (c * u)%QQ)
  = cR ^+ k *: vltr (k := k) (evalM (vlsz n k) (Ek k SsM Rw) (vl SL Rw k) u).
Proof.
move=> HS HL.
pose Rc := fun i => cR *: Rw i.
have -> : evalM (vlsz n k) (Ek k SsM' Rw) (vl SL' Rw k) (c * u)%QQ = evalM (vlsz n k) (Ek k SsM Rc) (vl SL Rc k) u.
  apply: (@eval_at_scale _ _ _ mulmx 1%:M (@stepM (vlsz n k)) (@stepM (vlsz n k)) c c_pos (fun V V' => cR *: V' = V)) => //.
  - by move=> v v' dt dt'; exact: stepM_scale.
  - rewrite /Ek; elim: HS => [|x y xs ys [h1 h2] _ IH] /=; constructor => //.
    by split=> //=; rewrite vl_scale h2.
  - by rewrite vl_scale HL.
pose Ps (i : nat) : 'M[R]_n := (cR ^+ i)%:M.
have := @evalM_vltr_transfer k n n Ps SsM SL SsM SL Rw Rc u.
rewrite /Ps expr0 mul1mx mul_mx_scalar => <- //.
- by apply: Forall2_same => x; split=> // i _; rewrite scalar_mxC.
- by move=> i _; rewrite scalar_mxC.
- by move=> i _; rewrite /Rc mul_mx_scalar mul_scalar_mx scalerA exprSr.
Qed.

Lemma scaled_times_ge0 (ts : seq Q) : List.Forall (fun t => (0 <= t)%QQ) ts -> List.Forall (fun t => (0 <= t)%QQ) [seq (c * t)%QQ | t <- ts].
Proof.
elim=> [|t l t0 _ IH] /=; constructor => //.
by apply: Qmult_le_0_compat => //; apply: Qlt_le_weak.
Qed.

Section Src.
Variable expm : seq (seq R) -> seq (seq R).
Hypothesis expm_sound : forall n A, wf n n A -> wf n n (expm A) /\ mx_of n n (expm A) = mexp (mx_of n n A).
Variables (n : nat) (Ss Ss' : seq (Q * seq (seq R))) (Slast Slast' : seq (seq R)).
Hypothesis HS : scaled n Ss Ss'.
Hypothesis HL : cR *: mx_of n n Slast' = mx_of n n Slast.
Hypothesis W1 : List.Forall (fun x : Q * seq (seq R) => wf n n x.2) Ss.
Hypothesis W1' : List.Forall (fun x : Q * seq (seq R) => wf n n x.2) Ss'.
Hypothesis W2 : wf n n Slast.
Hypothesis W2' : wf n n Slast'.
Hypothesis E1 : epochs_wf (seq (seq R)) 0%QQ Ss.
Hypothesis E1' : epochs_wf (seq (seq R)) 0%QQ Ss'.

(* property C09 for the distribution function of the translated source: cdf'(c t) = cdf(t), any demography *)
Theorem source_cdf_time_rescaling (alpha e : seq R) (ts : seq Q) :
  size e = n -> List.Forall (fun t => (0 <= t)%QQ) ts ->
  TreeHeightDistribution_cdf OpsR expm (length Slast') (all_epochs Ss' Slast') alpha e [seq (c * t)%QQ | t <- ts]
  = TreeHeightDistribution_cdf OpsR expm (length Slast) (all_epochs Ss Slast) alpha e ts.
Proof.
move=> se T0.
rewrite (@source_cdf_denotes_absorption_probability expm expm_sound n Ss' Slast') //; last exact: scaled_times_ge0.
rewrite (@source_cdf_denotes_absorption_probability expm expm_sound n Ss Slast) //.
rewrite !L_map -map_comp; apply: eq_map => t /=.
by rewrite (TM_time_rescaling _ HS HL).
Qed.

(* property C09 for the moments of the translated source: the accumulated moment of order k at c t is c^k times that at t *)
Theorem source_accumulate_time_rescaling (regf : seq (seq R) -> R) (k : nat) (Rs : seq (seq R)) (alpha : seq R) (ts : seq Q) :
  regf (List.hd (None, Slast) (all_epochs Ss Slast)).2 <> 0 ->
  regf (List.hd (None, Slast') (all_epochs Ss' Slast')).2 <> 0 ->
  (forall i, (i < k)%N -> size (nth [::] Rs i) = n) ->
  List.Forall (fun t => (0 <= t)%QQ) ts ->
  PhaseTypeDistribution_accumulate OpsR expm regf (length Slast') k (all_epochs Ss' Slast') Rs alpha [seq (c * t)%QQ | t <- ts]
  = vscale OpsR (cR ^+ k) (PhaseTypeDistribution_accumulate OpsR expm regf (length Slast) k (all_epochs Ss Slast) Rs alpha ts).
Proof.
move=> r0 r0' HR T0.
rewrite (@source_accumulate_pointwise expm expm_sound regf n k Ss' Slast') //; last exact: scaled_times_ge0.
rewrite (@source_accumulate_pointwise expm expm_sound regf n k Ss Slast) //.
rewrite vscaleE !L_map -!map_comp; apply: eq_map => t /=.
rewrite /mk_val !denCkE'.
rewrite (@vltr_evalM_time_rescaling n k [seq (x.1, mx_of n n x.2) | x <- Ss] [seq (x.1, mx_of n n x.2) | x <- Ss']
           (mx_of n n Slast) (mx_of n n Slast') (rwd n Rs) t) //; last first.
  by elim: HS => [|x y xs ys [h1 h2] _ IH] /=; constructor.
rewrite -scalemxAr -scalemxAl mxE.
exact: (@mulrCA [comRingType of R]).
Qed.
End Src.
End Scaling.

Print Assumptions mx_of_divided.
Print Assumptions TM_time_rescaling.
Print Assumptions vltr_evalM_time_rescaling.
Print Assumptions source_cdf_time_rescaling.
Print Assumptions source_accumulate_time_rescaling.
