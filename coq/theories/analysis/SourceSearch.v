(* Stage 2 of the tie of the searches on the distribution function (see proofs/GenSearchEquiv.v): at the real instance, for
   every backend [expm] that computes the real matrix exponential on the matrices it is given, every (time, transition matrix,
   epoch position) triple that the TRANSLATED SOURCE of quantile / _get_absorption_time threads through `_update` is the
   from-scratch state of its own time.  Hence the searches of the source are searches on the source's OWN distribution function

       F t = cdf_at Ss Slast alpha e t      (the value the translated cdf returns for the single time t)

   source_quantile_is_search_on_cdf      quantile             = t_quantile F   (expanding, then bisecting; both bounded by max_iter)
   source_horizon_is_search_on_cdf       _get_absorption_time = t_horizon F    (doubling; the flag says F(time) < p_absorption)
   source_horizon_sound                  no warning  ->  F (t_max) >= p_absorption   (for the comparison x < q on reals)

   whatever the float comparisons lt_TQ / lt_QT are.  Hypotheses: well-formed generators of one dimension n, epoch end times
   strictly increasing and positive, expansion factor >= 1 (the source raises otherwise). *)
Require Import Reals Psatz QArith Qreals Lqa.
From mathcomp Require Import all_ssreflect all_algebra.
From PG Require Import analysis.Rstruct analysis.RSums analysis.MExp analysis.MExpLaws.
From PG Require Import base.Ops base.OpsR base.Perm model.CoalModels model.Matrix model.Loop model.PhaseType model.Search.
From PG Require Import proofs.LoopProofs proofs.ExpLaws analysis.Denote analysis.CdfFacts.
From PG Require Import gen.NpLoops gen.SearchGen proofs.GenLoopsEquiv proofs.GenSearchEquiv.
Set Implicit Arguments. Unset Strict Implicit. Unset Printing Implicit Defensive.
Import GRing.Theory.
Delimit Scope Q_scope with QQ.
Local Open Scope ring_scope.

(* the searches on TIMES, for an arbitrary function F and arbitrary comparisons (model/Search.v with the comparisons abstracted) *)
Section TimeSearch.
  Variable X : Type.
  Variable F : Q -> X.
  Variable lt_XQ : X -> Q -> bool.
  Variable lt_QX : Q -> X -> bool.
  Variable subX : X -> X -> X.

  Fixpoint t_expand (fuel : nat) (q ef : Q) (b : Q) (i : nat) : Q * nat :=
    match fuel with
    | O => (b, i)
    | S fuel' => if lt_XQ (F b) q then t_expand fuel' q ef (b * ef)%QQ (S i) else (b, i)
    end.
  Fixpoint t_bisect (fuel : nat) (q prec : Q) (a b : Q) (i : nat) : Q * Q * nat :=
    match fuel with
    | O => (a, b, i)
    | S fuel' =>
        if lt_QX prec (subX (F b) (F a)) then
          let m := ((a + b) / inject_Z 2)%QQ in
          if lt_XQ (F m) q then t_bisect fuel' q prec m b (S i) else t_bisect fuel' q prec a m (S i)
        else (a, b, i)
    end.
  Definition t_quantile (q ef prec : Q) (max_iter : nat) : Q :=
    let '(b1, i) := t_expand (max_iter - 0) q ef (inject_Z 1) 0 in
    let '(a2, b2, _) := t_bisect (max_iter - i) q prec (inject_Z 0) b1 i in
    ((a2 + b2) / inject_Z 2)%QQ.
  Fixpoint t_hloop (fuel : nat) (p_abs : Q) (t : Q) (i : nat) : Q * nat :=
    match fuel with
    | O => (t, i)
    | S fuel' => if lt_XQ (F t) p_abs then t_hloop fuel' p_abs (t * inject_Z 2)%QQ (S i) else (t, i)
    end.
  Definition t_horizon (t0 p_abs : Q) (max_iter : nat) : Q * bool :=
    let '(t, _) := t_hloop (max_iter - 0) p_abs t0 0 in (t, lt_XQ (F t) p_abs).
End TimeSearch.

(* model/Search.v (expand / bisect / quantile over a rational-valued F) is the instance of the searches above with the exact
   comparisons of Q *)
Section SearchModelIsInstance.
  Variable F : Q -> Q.
  Let ltq (x q : Q) : bool := if Qlt_le_dec x q then true else false.
  Lemma expand_is_instance fuel q ef b i : expand F fuel q ef b i = t_expand F ltq fuel q ef b i.
  Proof.
  elim: fuel b i => [|fuel IH] b i //; cbn [expand t_expand]; rewrite /ltq.
  by destruct (Qlt_le_dec (F b) q); [rewrite IH|].
  Qed.
  Lemma bisect_is_instance fuel q prec a b i :
    bisect F fuel q prec a b i = t_bisect F ltq ltq Qminus fuel q prec a b i.
  Proof.
  elim: fuel a b i => [|fuel IH] a b i //; cbn [bisect t_bisect]; rewrite /ltq.
  destruct (Qlt_le_dec prec (F b - F a)); [|by []].
  change ((a + b) / inject_Z 2)%QQ with ((a + b) / 2)%QQ.
  by destruct (Qlt_le_dec (F ((a + b) / 2)) q); rewrite IH.
  Qed.
End SearchModelIsInstance.

Section Source.
Variable expm : seq (seq R) -> seq (seq R).
Hypothesis expm_sound : forall n A, wf n n A -> wf n n (expm A) /\ mx_of n n (expm A) = mexp (mx_of n n A).
Variable lt_TQ : R -> Q -> bool.
Variable lt_QT : Q -> R -> bool.
Variable n : nat.
Variables (Ss : seq (Q * seq (seq R))) (Slast : seq (seq R)) (alpha e : seq R).
Hypothesis Swf : all_wf n Ss.
Hypothesis Lwf : wf n n Slast.
Hypothesis se : size e = n.
Hypothesis Ewf : epochs_wf (seq (seq R)) 0%QQ Ss.

Notation stepL := (stepS OpsR expm).
Notation advL := (advance (seq (seq R)) (seq (seq R)) (mmul OpsR) stepL Slast).
Notation advM := (advance 'M[R]_n 'M[R]_n mulmx (@stepM n) (mx_of n n Slast)).
Notation initM := (init 'M[R]_n 'M[R]_n 1%:M (denE n Ss)).
Notation F := (cdf_at expm Ss Slast alpha e).

(* the from-scratch matrix state of time u *)
Definition stM (u : Q) := advM initM u.

(* the invariant: the list state denotes the from-scratch matrix state of its own time *)
Definition I (s : lstate (seq (seq R)) (seq (seq R))) (u : Q) : Prop :=
  RS (@den n) (@den n) s (stM u) /\ lprev s = u.

Lemma advM_advM u1 u2 : (0 <= u1)%QQ -> (u1 <= u2)%QQ -> advM (stM u1) u2 = stM u2.
Proof.
move=> H1 H2; rewrite /stM.
apply: (@advance_init_state _ _ mulmx 1%:M (@stepM n)) => //.
- by move=> a b c; rewrite mulmxA.
- exact: stepM_proper.
- exact: stepM_add.
- exact: epochs_wf_denE.
Qed.

Lemma I_adv s u u' : I s u -> (0 <= u)%QQ -> (u <= u')%QQ -> I (advL s u') u'.
Proof.
move=> [Hrs Hp] H0 Hle; split; last first.
  by rewrite /advance GenSearchEquiv.advr_prev.
rewrite -(advM_advM H0 Hle).
apply: (@advance_rel _ _ _ _ _ _ _ _ (@den n) (@den n)) => //.
- by move=> a a' b b'; exact: den_mul.
- by move=> v v' dt Hv; exact: (den_step expm_sound).
Qed.

Lemma I_s0 : I (s0 OpsR n Ss) 0%QQ.
Proof.
split=> //; rewrite /stM.
have -> : advM initM 0%QQ = initM.
  apply: (@advance_init_zero _ _ mulmx 1%:M (@stepM n)) => //.
  - by move=> a; rewrite mul1mx.
  - exact: stepM_proper.
  - exact: stepM0.
  - exact: epochs_wf_denE.
split=> //=; [exact: den_one | exact: denE_rel].
Qed.

Lemma I_cum s u : I s u -> (0 <= u)%QQ -> cumL OpsR alpha e s = F u.
Proof.
move=> [[HQ _ _] _] H0.
rewrite (@cdf_atE expm expm_sound n) // /cumL /TreeHeightDistribution_cum.
exact: (cdf_fun_den alpha se HQ).
Qed.

Lemma half_mid a b : (a <= b)%QQ -> (a <= (a + b) / inject_Z 2)%QQ /\ ((a + b) / inject_Z 2 <= b)%QQ.
Proof.
move=> H; have E : ((a + b) / inject_Z 2 == (a + b) * (1 # 2))%QQ by field.
by split; rewrite E; lra.
Qed.

Lemma mul_ge b ef : (0 <= b)%QQ -> (1 <= ef)%QQ -> (b <= b * ef)%QQ.
Proof. by move=> H0 H1; nra. Qed.

Notation s_expandR := (s_expand OpsR expm lt_TQ alpha e Slast).
Notation s_bisectR := (s_bisect OpsR expm lt_TQ lt_QT alpha e Slast).
Notation s_hloopR := (s_hloop OpsR expm lt_TQ alpha e Slast).
Notation t_expandR := (t_expand F lt_TQ).
Notation t_bisectR := (t_bisect F lt_TQ lt_QT (osub OpsR)).
Notation t_hloopR := (t_hloop F lt_TQ).

Lemma expand_search fuel q ef : (1 <= ef)%QQ -> forall s b i, I s b -> (0 <= b)%QQ ->
  let r := s_expandR fuel q ef s i in
  t_expandR fuel q ef b i = (lprev r.1, r.2) /\ I r.1 (lprev r.1) /\ (0 <= lprev r.1)%QQ.
Proof.
move=> Hef; elim: fuel => [|fuel IH] s b i Hs Hb; cbn [s_expand t_expand fst snd].
  by case: (Hs) => _ ->.
rewrite (I_cum Hs Hb).
have Hp : lprev s = b by case: Hs.
case: (lt_TQ (F b) q); last by rewrite Hp.
rewrite Hp.
have Hle := mul_ge Hb Hef.
apply: IH; first exact: (I_adv Hs Hb Hle).
by lra.
Qed.

Lemma bisect_search fuel q prec : forall sa sb a b i, I sa a -> I sb b -> (0 <= a)%QQ -> (a <= b)%QQ ->
  let r := s_bisectR fuel q prec sa sb i in
  t_bisectR fuel q prec a b i = (lprev r.1.1, lprev r.1.2, r.2).
Proof.
elim: fuel => [|fuel IH] sa sb a b i Ha Hb H0 Hab; cbn [s_bisect t_bisect fst snd].
  by case: (Ha) => _ ->; case: (Hb) => _ ->.
have Hb0 : (0 <= b)%QQ by lra.
rewrite (I_cum Ha H0) (I_cum Hb Hb0).
have Hpa : lprev sa = a by case: Ha.
have Hpb : lprev sb = b by case: Hb.
case: (lt_QT prec _); last by rewrite Hpa Hpb.
rewrite Hpa Hpb.
have [Hm1 Hm2] := half_mid Hab.
have Hm := I_adv Ha H0 Hm1.
have Hm0 : (0 <= (a + b) / inject_Z 2)%QQ by lra.
rewrite (I_cum Hm Hm0).
case: (lt_TQ _ q).
- by apply: IH.
- by apply: IH.
Qed.

Lemma hloop_search fuel p_abs : forall s t i, I s t -> (0 <= t)%QQ ->
  let r := s_hloopR fuel p_abs s i in
  t_hloopR fuel p_abs t i = (lprev r.1, r.2) /\ I r.1 (lprev r.1) /\ (0 <= lprev r.1)%QQ.
Proof.
elim: fuel => [|fuel IH] s t i Hs Ht; cbn [s_hloop t_hloop fst snd].
  by case: (Hs) => _ ->.
rewrite (I_cum Hs Ht).
have Hp : lprev s = t by case: Hs.
case: (lt_TQ (F t) p_abs); last by rewrite Hp.
rewrite Hp.
have Hle : (t <= t * inject_Z 2)%QQ by apply: mul_ge.
apply: IH; first exact: (I_adv Hs Ht Hle).
by lra.
Qed.

Notation pos0 := (pos_of Slast Ss).

Theorem source_quantile_is_search_on_cdf q ef prec max_iter : (1 <= ef)%QQ ->
  TreeHeightDistribution_quantile OpsR expm lt_TQ lt_QT n alpha e pos0.1 pos0.2 q ef prec max_iter
  = t_quantile F lt_TQ lt_QT (osub OpsR) q ef prec max_iter.
Proof.
move=> Hef; rewrite gen_quantile_eq /s_quantile /t_quantile.
have P01 : (0 <= inject_Z 1)%QQ by [].
have H1 : I (advL (s0 OpsR n Ss) (inject_Z 1)) (inject_Z 1) by apply: (I_adv I_s0).
have [E1 [I1 P1]] := @expand_search (max_iter - 0)%coq_nat q ef Hef _ _ 0%N H1 P01.
move: E1 I1 P1; case: (s_expandR _ q ef _ 0%N) => sb1 i1 /= E1 I1 P1.
rewrite E1.
have E2 := @bisect_search (max_iter - i1)%coq_nat q prec _ _ _ _ i1 I_s0 I1 (Qle_refl 0) P1.
move: E2; case: (s_bisectR _ q prec _ sb1 i1) => [[sa2 sb2] i2] /= E2.
by rewrite E2.
Qed.

Theorem source_horizon_is_search_on_cdf t0 p_abs max_iter : (0 <= t0)%QQ ->
  TreeHeightDistribution_get_absorption_time OpsR expm lt_TQ n alpha e pos0.1 pos0.2 t0 p_abs max_iter
  = t_horizon F lt_TQ t0 p_abs max_iter.
Proof.
move=> Ht0; rewrite gen_horizon_eq /s_horizon /t_horizon.
have H1 : I (advL (s0 OpsR n Ss) t0) t0 by apply: (I_adv I_s0).
have [E1 [I1 P1]] := @hloop_search (max_iter - 0)%coq_nat p_abs _ _ 0%N H1 Ht0.
move: E1 I1 P1; case: (s_hloopR _ p_abs _ 0%N) => s1 i1; cbn [fst snd] => E1 I1 P1.
by rewrite E1 (I_cum I1 P1).
Qed.
End Source.

(* with the comparison of reals: no warning means the required probability was reached at the time that is used *)
Theorem source_horizon_sound (expm : seq (seq R) -> seq (seq R))
  (expm_sound : forall n A, wf n n A -> wf n n (expm A) /\ mx_of n n (expm A) = mexp (mx_of n n A))
  n Ss Slast alpha e t0 p_abs max_iter :
  all_wf n Ss -> wf n n Slast -> size e = n -> epochs_wf (seq (seq R)) 0%QQ Ss -> (0 <= t0)%QQ ->
  let lt_RQ := fun (x : R) (q : Q) => if Rlt_dec x (Q2R q) then true else false in
  let r := TreeHeightDistribution_get_absorption_time OpsR expm lt_RQ n alpha e (pos_of Slast Ss).1 (pos_of Slast Ss).2 t0 p_abs max_iter in
  r.2 = false -> Rle (Q2R p_abs) (cdf_at expm Ss Slast alpha e r.1).
Proof.
move=> Swf Lwf se Ewf Ht0 lt_RQ r.
rewrite /r (@source_horizon_is_search_on_cdf expm expm_sound lt_RQ n Ss Slast alpha e Swf Lwf se Ewf t0 p_abs max_iter Ht0) /t_horizon.
case: (t_hloop _ _ _ _ _ _) => t i; cbn [fst snd]; rewrite /lt_RQ.
case: (Rlt_dec _ _) => [//|Hn] _. exact: Rnot_lt_le.
Qed.

Print Assumptions source_quantile_is_search_on_cdf.
Print Assumptions source_horizon_is_search_on_cdf.
Print Assumptions source_horizon_sound.

(* ------------------------------------------------------------------------------------------------------------------------------ *)
(* The precision guarantee of the quantile search, for the comparisons of real numbers: when the iteration budget is not exhausted,  *)
(* the distribution function at the returned time is within `precision` of q.                                                       *)
From mathcomp Require Import zify.
Section Precision.
  Variable F : Q -> R.
  Hypothesis F_mono : forall a b, (0 <= a)%QQ -> (a <= b)%QQ -> Rle (F a) (F b).
  Let ltRQ (x : R) (q : Q) : bool := if Rlt_dec x (Q2R q) then true else false.
  Let ltQR (q : Q) (x : R) : bool := if Rlt_dec (Q2R q) x then true else false.
  Variables q prec : Q.

  Definition bracket (a b : Q) : Prop := (0 <= a)%QQ /\ (a <= b)%QQ /\ Rlt (F a) (Q2R q) /\ Rle (Q2R q) (F b).

  Lemma t_bisect_spec : forall fuel a b i a' b' i',
    t_bisect F ltRQ ltQR Rminus fuel q prec a b i = (a', b', i') -> bracket a b ->
    bracket a' b' /\ (i <= i')%coq_nat /\ ((i' < i + fuel)%coq_nat -> Rle (Rminus (F b') (F a')) (Q2R prec)).
  Proof.
  elim=> [|fuel IH] a b i a' b' i' /=.
    move=> [<- <- <-] Hb; split; [exact: Hb | split; [exact: le_n | move=> H; exfalso; move: H; rewrite ?addn0 -?plus_n_O; exact: PeanoNat.Nat.lt_irrefl]].
  rewrite /ltQR; case: (Rlt_dec (Q2R prec) (F b - F a)) => Hgap; last first.
    move=> [<- <- <-] Hb; split; [exact: Hb | split; [exact: le_n | move=> _; exact: Rnot_lt_le]].
  move=> E [Ha [Hab [Hlo Hhi]]].
  have [Hm1 Hm2] := half_mid Hab.
  have Hm0 : (0 <= (a + b) / inject_Z 2)%QQ by lra.
  move: E; rewrite /ltRQ; case: (Rlt_dec (F ((a + b) / inject_Z 2)%QQ) (Q2R q)) => Hmid E.
  - have Hbr : bracket ((a + b) / inject_Z 2)%QQ b by [].
    have [H1 [H2 H3]] := IH _ _ _ _ _ _ E Hbr.
    split=> //; split; first by move: H2; clear; lia.
    by move=> H; apply: H3; move: H; clear; lia.
  - have Hbr : bracket a ((a + b) / inject_Z 2)%QQ by split=> //; split=> //; split=> //; exact: Rnot_lt_le.
    have [H1 [H2 H3]] := IH _ _ _ _ _ _ E Hbr.
    split=> //; split; first by move: H2; clear; lia.
    by move=> H; apply: H3; move: H; clear; lia.
  Qed.

  (* the value at the midpoint of a bracket whose gap is at most prec is within prec of q *)
  Lemma bracket_midpoint a b : bracket a b -> Rle (Rminus (F b) (F a)) (Q2R prec) ->
    Rle (Rabs (Rminus (F ((a + b) / inject_Z 2)%QQ) (Q2R q))) (Q2R prec).
  Proof.
  move=> [Ha [Hab [Hlo Hhi]]] Hgap.
  have [Hm1 Hm2] := half_mid Hab.
  have H1 := F_mono Ha Hm1.
  have Hm0 : (0 <= (a + b) / inject_Z 2)%QQ by lra.
  have H2 := F_mono Hm0 Hm2.
  apply: Rabs_le; split; Lra.lra.
  Qed.

  (* the whole search: expansion from b = 1, then bisection from a = 0 *)
  Theorem t_quantile_precision ef max_iter b1 i1 a2 b2 i2 :
    t_expand F ltRQ (max_iter - 0) q ef (inject_Z 1) 0 = (b1, i1) ->
    t_bisect F ltRQ ltQR Rminus (max_iter - i1) q prec (inject_Z 0) b1 i1 = (a2, b2, i2) ->
    (0 <= b1)%QQ -> Rlt (F 0%QQ) (Q2R q) -> Rle (Q2R q) (F b1) -> (i1 <= max_iter)%coq_nat -> (i2 < max_iter)%coq_nat ->
    t_quantile F ltRQ ltQR Rminus q ef prec max_iter = ((a2 + b2) / inject_Z 2)%QQ /\
    Rle (Rabs (Rminus (F ((a2 + b2) / inject_Z 2)%QQ) (Q2R q))) (Q2R prec).
  Proof.
  move=> E1 E2 Hb1 H0 Hq Hi1 Hi2.
  split; first by rewrite /t_quantile E1 E2.
  have Hbr : bracket (inject_Z 0) b1 by [].
  have [Hbr' [_ Hgap]] := t_bisect_spec E2 Hbr.
  apply: (bracket_midpoint Hbr'); apply: Hgap.
  move: Hi1 Hi2; rewrite /subn /subn_rec => Hi1 Hi2; lia.
  Qed.
End Precision.

Print Assumptions t_quantile_precision.

(* the C03 clause for the TRANSLATED SOURCE: with the comparisons of real numbers, whenever the expansion reached q and the iteration
   budget was not exhausted, the source's own distribution function at the time that `quantile` returns is within `precision` of q *)
Theorem source_quantile_within_precision (expm : seq (seq R) -> seq (seq R))
  (expm_sound : forall n A, wf n n A -> wf n n (expm A) /\ mx_of n n (expm A) = mexp (mx_of n n A))
  n Ss Slast alpha e q ef prec max_iter b1 i1 a2 b2 i2 :
  all_wf n Ss -> wf n n Slast -> size e = n -> epochs_wf (seq (seq R)) 0%QQ Ss -> (1 <= ef)%QQ ->
  let F := cdf_at expm Ss Slast alpha e in
  let ltRQ := fun (x : R) (q : Q) => if Rlt_dec x (Q2R q) then true else false in
  let ltQR := fun (q : Q) (x : R) => if Rlt_dec (Q2R q) x then true else false in
  (forall a b, (0 <= a)%QQ -> (a <= b)%QQ -> Rle (F a) (F b)) ->
  t_expand F ltRQ (max_iter - 0) q ef (inject_Z 1) 0 = (b1, i1) ->
  t_bisect F ltRQ ltQR Rminus (max_iter - i1) q prec (inject_Z 0) b1 i1 = (a2, b2, i2) ->
  (0 <= b1)%QQ -> Rlt (F 0%QQ) (Q2R q) -> Rle (Q2R q) (F b1) -> (i1 <= max_iter)%coq_nat -> (i2 < max_iter)%coq_nat ->
  Rle (Rabs (Rminus (F (TreeHeightDistribution_quantile OpsR expm ltRQ ltQR n alpha e (pos_of Slast Ss).1 (pos_of Slast Ss).2 q ef prec max_iter))
                    (Q2R q))) (Q2R prec).
Proof.
move=> Swf Lwf se Ewf Hef F ltRQ ltQR Hmono E1 E2 Hb1 H0 Hq Hi1 Hi2.
rewrite (@source_quantile_is_search_on_cdf expm expm_sound ltRQ ltQR n Ss Slast alpha e Swf Lwf se Ewf q ef prec max_iter Hef).
have [-> H] := @t_quantile_precision F Hmono q prec ef max_iter b1 i1 a2 b2 i2 E1 E2 Hb1 H0 Hq Hi1 Hi2.
exact: H.
Qed.
Print Assumptions source_quantile_within_precision.
