(* cdf(0) = 0 for the translated TreeHeightDistribution.cdf on any demography (property C03): from eval_at_zero of
   proofs/LoopProofs.v through the denotation of analysis/SourceLoops.v. *)
Require Import Reals Psatz QArith Qreals.
From mathcomp Require Import all_ssreflect all_algebra.
From PG Require Import analysis.Rstruct analysis.RSums analysis.MExp analysis.MExpLaws.
From PG Require Import base.Ops base.OpsR base.Perm model.Matrix model.Loop model.PhaseType.
From PG Require Import proofs.LoopProofs proofs.ExpLaws analysis.Denote analysis.CdfFacts analysis.DenotePhaseType.
From PG Require Import gen.NpLoops gen.LoopsGen proofs.GenLoopsEquiv analysis.SourceLoops.
Set Implicit Arguments. Unset Strict Implicit. Unset Printing Implicit Defensive.
Import GRing.Theory.
Delimit Scope Q_scope with QQ.
Local Open Scope ring_scope.

Lemma evalM_zero n (Ss : seq (Q * 'M[R]_n)) (vlast : 'M[R]_n) :
  epochs_wf 'M[R]_n 0%QQ Ss -> evalM n Ss vlast 0%QQ = 1%:M.
Proof.
apply: eval_at_zero.
- by move=> a; rewrite mul1mx.
- exact: stepM_proper.
- exact: stepM0.
Qed.

Section Src.
Variable expm : seq (seq R) -> seq (seq R).
Hypothesis expm_sound : forall n A, wf n n A -> wf n n (expm A) /\ mx_of n n (expm A) = mexp (mx_of n n A).

(* property C03: the distribution function of the translated source is 0 at t = 0 when the initial distribution sits on the
   states marked by e (the states in which not all lineages have coalesced), on any demography *)
Theorem source_cdf_zero_at_zero (n : nat) (Ss : seq (Q * seq (seq R))) (Slast : seq (seq R)) (alpha e : seq R) :
  List.Forall (fun x : Q * seq (seq R) => wf n n x.2) Ss -> wf n n Slast -> size e = n ->
  epochs_wf (seq (seq R)) 0%QQ Ss ->
  (rv_of n alpha *m cv_of n e) ord0 ord0 = 1 ->
  TreeHeightDistribution_cdf OpsR expm (length Slast) (all_epochs Ss Slast) alpha e [:: 0%QQ] = [:: 0].
Proof.
move=> Swf Lwf se Ewf ae.
rewrite (@source_cdf_denotes_absorption_probability expm expm_sound n Ss Slast) //; last by constructor.
rewrite /= /TM evalM_zero; last exact: epochs_wf_denE.
by rewrite mulmx1 ae subrr.
Qed.
End Src.
Print Assumptions source_cdf_zero_at_zero.
