(* The abstract transfer theorems of proofs/ExpLaws.v, instantiated with
   the real matrix exponential of analysis/MExp.v: their hypotheses E0, E1,
   E2 are discharged, so they hold unconditionally over the reals. *)
Require Import Reals Psatz.
From mathcomp Require Import all_ssreflect all_algebra fingroup perm.
From Coquelicot Require Import Coquelicot.
From PG Require Import analysis.Rstruct analysis.RSums analysis.MExp.
From PG Require Import proofs.ExpLaws.
Set Implicit Arguments. Unset Strict Implicit. Unset Printing Implicit Defensive.
Import GRing.Theory.
Local Open Scope ring_scope.

Notation rexpm := (fun n : nat => @mexp n).

(* 1, 2 : semigroup *)
Theorem real_expm_semigroup n (A : 'M[R]_n) (a b : R) :
  mexp (a *: A) *m mexp (b *: A) = mexp ((a + b) *: A).
Proof. exact: (expm_semigroup (expm := rexpm) (@mexpD)). Qed.

(* 3 : generators give stochastic matrices *)
Theorem real_expm_row_sums n (S : 'M[R]_n) :
  S *m const_mx 1 = (0 : 'M[R]_(n, 1)) ->
  mexp S *m const_mx 1 = (const_mx 1 : 'M[R]_(n, 1)).
Proof. exact: (expm_row_sums (expm := rexpm) (@mexp0) (@mexp_intertwine)). Qed.

Theorem real_generator_stochastic n (S : 'M[R]_n) (t : R) :
  Rle R0 t ->
  (forall i j, i != j -> Rle R0 (S i j)) ->
  S *m const_mx 1 = (0 : 'M[R]_(n, 1)) ->
  mx_ge0 (mexp (t *: S)) /\
  mexp (t *: S) *m const_mx 1 = (const_mx 1 : 'M[R]_(n, 1)).
Proof.
move=> t0 Soff S1; split.
  apply: mexp_offdiag_ge0 => i j ij; rewrite mxE.
  by apply: Rmult_le_pos => //; apply: Soff.
by apply: real_expm_row_sums; rewrite -scalemxAl S1 scaler0.
Qed.

(* 4 : lumping *)
Theorem real_lumping_cdf m n (SL : 'M[R]_m) (SC : 'M[R]_n) (P : 'M[R]_(m, n))
    (aL : 'rV[R]_m) (eC : 'cV[R]_n) (t : R) :
  SL *m P = P *m SC ->
  aL *m mexp (t *: SL) *m (P *m eC) = (aL *m P) *m mexp (t *: SC) *m eC.
Proof. exact: (lumping_cdf (expm := rexpm) (@mexp_intertwine)). Qed.

Theorem real_lumping_product_cdf m n (P : 'M[R]_(m, n))
    (eps : seq (R * 'M[R]_m * 'M[R]_n)) (aL : 'rV[R]_m) (eC : 'cV[R]_n) :
  (forall x, x \in eps -> x.1.2 *m P = P *m x.2) ->
  aL *m epoch_prodL rexpm eps *m (P *m eC)
  = (aL *m P) *m epoch_prodC rexpm eps *m eC.
Proof. exact: (lumping_product_cdf (expm := rexpm) (@mexp_intertwine)). Qed.

(* 5 : first-moment Van Loan functional *)
Theorem real_m1_additive n (a : 'rV[R]_n) (S R1 R2 : 'M[R]_n) (t : R) :
  m1 rexpm a S (R1 + R2) t = m1 rexpm a S R1 t + m1 rexpm a S R2 t.
Proof. exact: (m1_additive (expm := rexpm) (@mexp_intertwine)). Qed.

(* 6 : Van Loan functional of order k *)
Theorem real_mk_lumping m n (P : 'M[R]_(m, n)) (SL : 'M[R]_m)
    (SC : 'M[R]_n) (RL : nat -> 'M[R]_m) (RC : nat -> 'M[R]_n) k
    (aL : 'rV[R]_m) (eC : 'cV[R]_n) (t : R) :
  SL *m P = P *m SC ->
  (forall i, (i < k)%N -> RL i *m P = P *m RC i) ->
  aL *m vltr (k := k) (mexp (t *: vl SL RL k)) *m (P *m eC)
  = (aL *m P) *m vltr (k := k) (mexp (t *: vl SC RC k)) *m eC.
Proof. exact: (mk_lumping (expm := rexpm) (@mexp_intertwine)). Qed.

Theorem real_mk_permutation n (a : 'rV[R]_n) (S : 'M[R]_n)
    (Rs : nat -> 'M[R]_n) k (t : R) (s : 'S_n) :
  let P := perm_mx s in
  mk rexpm (a *m P) (P^T *m S *m P) (fun i => P^T *m Rs i *m P) k t
  = mk rexpm a S Rs k t.
Proof. exact: (mk_permutation (expm := rexpm) (@mexp_intertwine)). Qed.

Print Assumptions real_expm_semigroup.
Print Assumptions real_generator_stochastic.
Print Assumptions real_lumping_cdf.
Print Assumptions real_lumping_product_cdf.
Print Assumptions real_m1_additive.
Print Assumptions real_mk_lumping.
Print Assumptions real_mk_permutation.
