(* Property C12, SECOND-moment part, stated about the translated source on ANY piecewise-constant demography:
   the entries of the covariance matrix across demes sum to the variance.

   dist.demes.get_cov(p, q) is moment(k=2, rewards=(CombinedReward([r, DemeReward(p)]), CombinedReward([r, DemeReward(q)])),
   center=True); read through gen/MomentsGen.v (accumulate: centring, permutation average; regenerated from
   phasegen/distributions.py on every run), gen/RewardsGen.v (the reward vectors; regenerated from phasegen/rewards.py) and the
   model of _accumulate (equal to gen/LoopsGen.v by proofs/GenLoopsEquiv.v) it is  S2(rp, rq) - M1(rp) M1(rq)  with S2 the
   permutation-averaged raw second cross moment.  analysis/SourceLinear.v makes the raw moment of order k linear in each reward
   slot across all epochs (raw_slot_linear below transports it to the model's accumulate_raw), so S2 is bilinear and M1 linear
   over finite sums (LinSum), and the per-deme reward vectors sum to the reward vector (deme_vectors_sum, from
   proofs/RewardProofs.v).  Hence  sum_p sum_q cov(p, q) = S2(r, r) - M1(r)^2 = var.

   For every backend [expm] that computes the real matrix exponential on the matrices it is given, every regularisation factor
   lam <> 0, every end time t >= 0.  NOT proved: positive semi-definiteness (needs the path-measure reading). *)
Require Import Reals Psatz QArith Qreals.
From mathcomp Require Import all_ssreflect all_algebra.
From PG Require Import model.StateSpace model.Rewards proofs.RewardProofs gen.NpState gen.RewardsGen proofs.GenRewardsEquiv.
From PG Require Import gen.NpMoments gen.MomentsGen proofs.GenMomentsEquiv.
From PG Require Import analysis.Rstruct analysis.RSums analysis.MExp analysis.MExpLaws.
From PG Require Import base.Ops base.OpsR base.Perm model.CoalModels model.Matrix model.Loop model.PhaseType.
From PG Require Import proofs.LoopProofs proofs.PhaseTypeProofs proofs.ExpLaws proofs.ExpLaws2 analysis.Denote analysis.CdfFacts analysis.DenotePhaseType.
From PG Require Import gen.NpLoops gen.LoopsGen proofs.GenLoopsEquiv analysis.SourceLoops analysis.SourceLinear.
Set Implicit Arguments. Unset Strict Implicit. Unset Printing Implicit Defensive.
Import GRing.Theory.
Delimit Scope Q_scope with QQ.
Local Open Scope ring_scope.

Section Cov.
Variable expm : seq (seq R) -> seq (seq R).
Hypothesis expm_sound : forall n A, wf n n A -> wf n n (expm A) /\ mx_of n n (expm A) = mexp (mx_of n n A).
Variables (n : nat) (Ss : seq (Q * seq (seq R))) (Slast : seq (seq R)) (alpha : seq R) (lam : R) (ts : seq Q).
Hypothesis lam0 : lam <> 0.
Hypothesis H1 : List.Forall (fun x : Q * seq (seq R) => wf n n x.2) Ss.
Hypothesis H2 : wf n n Slast.
Hypothesis H5 : epochs_wf (seq (seq R)) 0%QQ Ss.
Hypothesis H6 : List.Forall (fun t => (0 <= t)%QQ) ts.

Definition raw (k : nat) (Rs : seq (seq R)) : seq R := accumulate_raw OpsR expm k Ss Slast Rs alpha lam ts.

Lemma raw_acck k Rs : raw k Rs = acck expm (fun _ => lam) Ss Slast alpha ts k Rs.
Proof. by rewrite /raw /acck gen_accumulate_eq_model_R. Qed.

Theorem raw_slot_linear k j (Rs : seq (seq R)) (r1 r2 : seq R) (c1 c2 : R) :
  (j < k)%N -> (forall i, (i < k)%N -> i != j -> size (nth [::] Rs i) = n) -> size r1 = n -> size r2 = n ->
  raw k (set_nth [::] Rs j (vadd OpsR (vscale OpsR c1 r1) (vscale OpsR c2 r2)))
  = vadd OpsR (vscale OpsR c1 (raw k (set_nth [::] Rs j r1))) (vscale OpsR c2 (raw k (set_nth [::] Rs j r2))).
Proof. by move=> *; rewrite !raw_acck; apply: (@source_moment_slot_linear expm expm_sound _ n). Qed.

(* ---- a single end time: scalar functionals ---- *)
End Cov.


Section LinSum.
Variable n : nat.
Variable f : seq R -> R.
Hypothesis f_lin : forall a1 a2 c1 c2, size a1 = n -> size a2 = n ->
  f (vadd OpsR (vscale OpsR c1 a1) (vscale OpsR c2 a2)) = c1 * f a1 + c2 * f a2.

Lemma lin_zero : f (nseq n 0) = 0.
Proof.
have sz : size (nseq n (0 : R)) = n by rewrite size_nseq.
by have := f_lin 0 0 sz sz; rewrite (@vadd_vscale0 n) // !mul0r addr0.
Qed.

Lemma lin_add a b : size a = n -> size b = n -> f (vadd OpsR a b) = f a + f b.
Proof. by move=> sa sb; have := f_lin 1 1 sa sb; rewrite !vscale1 !mul1r. Qed.

Lemma lin_vsum rs : all (fun r => (size r == n)%B) rs -> f (vsum n rs) = \sum_(r <- rs) f r.
Proof.
elim: rs => [|r rs IH] /=; first by rewrite big_nil lin_zero.
by case/andP => /eqP sr srs; rewrite big_cons lin_add ?size_vsum // IH.
Qed.
End LinSum.

Section Cov1.
Variable expm : seq (seq R) -> seq (seq R).
Hypothesis expm_sound : forall n A, wf n n A -> wf n n (expm A) /\ mx_of n n (expm A) = mexp (mx_of n n A).
Variables (n : nat) (Ss : seq (Q * seq (seq R))) (Slast : seq (seq R)) (alpha : seq R) (lam : R) (t : Q).
Hypothesis lam0 : lam <> 0.
Hypothesis H1 : List.Forall (fun x : Q * seq (seq R) => wf n n x.2) Ss.
Hypothesis H2 : wf n n Slast.
Hypothesis H5 : epochs_wf (seq (seq R)) 0%QQ Ss.
Hypothesis t0 : (0 <= t)%QQ.

Let rawt := raw expm Ss Slast alpha lam [:: t].
Definition M1 (a : seq R) : R := nth 0 (rawt 1 [:: a]) 0.
Definition B2 (a b : seq R) : R := nth 0 (rawt 2 [:: a; b]) 0.

Lemma size_rawt k Rs : size (rawt k Rs) = 1%N.
Proof. by rewrite /rawt /raw -L_length accumulate_raw_length. Qed.

Lemma nth0_lin (X Y : seq R) (c1 c2 : R) : size X = 1%N -> size Y = 1%N ->
  nth 0 (vadd OpsR (vscale OpsR c1 X) (vscale OpsR c2 Y)) 0 = c1 * nth 0 X 0 + c2 * nth 0 Y 0.
Proof. by move=> sx sy; rewrite nth_vadd ?size_vscale ?sx ?sy //; rewrite !nth_vscale. Qed.

Let H6 : List.Forall (fun t => (0 <= t)%QQ) [:: t]. Proof. by constructor. Qed.

Lemma M1_lin a1 a2 c1 c2 : size a1 = n -> size a2 = n ->
  M1 (vadd OpsR (vscale OpsR c1 a1) (vscale OpsR c2 a2)) = c1 * M1 a1 + c2 * M1 a2.
Proof.
move=> s1 s2; rewrite /M1 -nth0_lin ?size_rawt //; congr (nth _ _ _).
apply: (@raw_slot_linear expm expm_sound n Ss Slast alpha lam [:: t] lam0 H1 H2 H5 H6 1 0 [:: [::]]) => //.
by case.
Qed.

Lemma B2_lin_l a1 a2 b c1 c2 : size a1 = n -> size a2 = n -> size b = n ->
  B2 (vadd OpsR (vscale OpsR c1 a1) (vscale OpsR c2 a2)) b = c1 * B2 a1 b + c2 * B2 a2 b.
Proof.
move=> s1 s2 sb; rewrite /B2 -nth0_lin ?size_rawt //; congr (nth _ _ _).
apply: (@raw_slot_linear expm expm_sound n Ss Slast alpha lam [:: t] lam0 H1 H2 H5 H6 2 0 [:: [::]; b]) => //.
by case=> [|[|i]].
Qed.

Lemma B2_lin_r a b1 b2 c1 c2 : size a = n -> size b1 = n -> size b2 = n ->
  B2 a (vadd OpsR (vscale OpsR c1 b1) (vscale OpsR c2 b2)) = c1 * B2 a b1 + c2 * B2 a b2.
Proof.
move=> sa s1 s2; rewrite /B2 -nth0_lin ?size_rawt //; congr (nth _ _ _).
apply: (@raw_slot_linear expm expm_sound n Ss Slast alpha lam [:: t] lam0 H1 H2 H5 H6 2 1 [:: a; [::]]) => //.
by case=> [|[|i]].
Qed.

Definition S2 (a b : seq R) : R := U expm Ss Slast alpha lam 2 [:: a; b] true t.
Definition half : R := oinv OpsR (oofN OpsR 2).
Lemma S2E a b : S2 a b = half * (B2 a b + B2 b a).
Proof.
rewrite /S2 /U.
have -> : accumulate_uncentered OpsR expm 2 Ss Slast [:: a; b] alpha lam true [:: t]
        = vscale OpsR half (vadd OpsR (vadd OpsR (vzero OpsR 1) (rawt 2 [:: a; b])) (rawt 2 [:: b; a])) by [].
rewrite L_nth nth_vscale nth_vadd; last by rewrite (@size_vadd 1) ?size_rawt.
rewrite nth_vadd ?size_rawt // /B2.
have -> : (vzero OpsR 1)`_0 = 0 :> R by [].
by rewrite add0r.
Qed.

Lemma U1E a : U expm Ss Slast alpha lam 1 [:: a] true t = M1 a.
Proof. by rewrite /U accumulate_uncentered_1_permute L_nth. Qed.

Lemma S2_lin_l a1 a2 b c1 c2 : size a1 = n -> size a2 = n -> size b = n ->
  S2 (vadd OpsR (vscale OpsR c1 a1) (vscale OpsR c2 a2)) b = c1 * S2 a1 b + c2 * S2 a2 b.
Proof.
move=> s1 s2 sb; rewrite !S2E B2_lin_l // B2_lin_r //.
rewrite /GRing.add /GRing.mul /=; ring.
Qed.

Lemma S2_sym a b : S2 a b = S2 b a.
Proof. by rewrite !S2E addrC. Qed.

Lemma S2_lin_r a b1 b2 c1 c2 : size a = n -> size b1 = n -> size b2 = n ->
  S2 a (vadd OpsR (vscale OpsR c1 b1) (vscale OpsR c2 b2)) = c1 * S2 a b1 + c2 * S2 a b2.
Proof. by move=> sa s1 s2; rewrite S2_sym S2_lin_l // ![S2 _ a]S2_sym. Qed.

(* what the model (= the translated source, proofs/GenMomentsEquiv.v) returns for center = permute = True *)
Definition cov_t (a b : seq R) : R := nth 0 (accumulate OpsR expm 2 Ss Slast [:: a; b] alpha lam true true [:: t]) 0.

Lemma cov_tE a b : cov_t a b = S2 a b - M1 a * M1 b.
Proof. by rewrite /cov_t -L_nth accumulate_center_k2 !U1E. Qed.

Theorem cov_entries_sum_to_variance (rs : seq (seq R)) : all (fun r => (size r == n)%B) rs ->
  \sum_(p <- rs) \sum_(q <- rs) cov_t p q = cov_t (vsum n rs) (vsum n rs).
Proof.
move=> srs; have sv : size (vsum n rs) = n by exact: size_vsum.
rewrite cov_tE.
rewrite (@lin_vsum n (fun a => S2 a (vsum n rs))) //; last first.
  by move=> a1 a2 c1 c2 s1 s2; exact: S2_lin_l.
rewrite (@lin_vsum n M1) //; last by move=> *; exact: M1_lin.
rewrite big_distrlr /= -sumrB !big_seq; apply: eq_bigr => p /(allP srs) /eqP sp.
rewrite (@lin_vsum n (fun b => S2 p b)) //; last first.
  by move=> b1 b2 c1 c2 s1 s2; exact: S2_lin_r.
by rewrite -sumrB; apply: eq_bigr => q _; rewrite cov_tE.
Qed.
End Cov1.

(* ---- the per-deme reward vectors of the translated rewards.py sum to the reward vector ---- *)
Lemma deme_vectors_sum (nn nl nd : nat) (r : reward) (sts : seq state) :
  reward_ok nn r = true ->
  List.Forall (fun s => n_loci s = nl) sts ->
  List.Forall (fun s => n_demes s = nd /\ (1 <= total_lineages s)%coq_nat /\
                        List.Forall (fun loc => length loc = n_demes s) (lin s)) sts ->
  vsum (size sts) [seq [seq gen_reward_get OpsR nn nl (RProduct [:: r; RDeme d]) s | s <- sts] | d <- iota 0 nd]
  = [seq gen_reward_get OpsR nn nl r s | s <- sts].
Proof.
move=> rok Hnl Hst.
have E1 : [seq gen_reward_get OpsR nn nl r s | s <- sts] = [seq reward_get OpsR nn r s | s <- sts].
  by have := gen_reward_vector_eq_R nn nl r sts rok Hnl; rewrite /reward_vector !L_map.
have E2 d : [seq gen_reward_get OpsR nn nl (RProduct [:: r; RDeme d]) s | s <- sts]
          = [seq reward_get OpsR nn (RProduct [:: r; RDeme d]) s | s <- sts].
  have rok' : reward_ok nn (RProduct [:: r; RDeme d]) = true by rewrite /= rok.
  by have := gen_reward_vector_eq_R nn nl _ sts rok' Hnl; rewrite /reward_vector !L_map.
rewrite E1 (eq_map E2) vsum_pointwise.
elim: Hst => [|s sts' [nds [tl wfl]] _ IH] //=; congr (_ :: _) => //.
by rewrite -nds (deme_marginals_decompose nn r s tl wfl).
Qed.

(* ---- property C12, second-moment part, for the translated source on any demography:
        the entries of the covariance matrix across demes (dist.demes.get_cov(p, q) = moment(k=2, rewards=(r*Deme_p, r*Deme_q),
        center=True), read through gen/MomentsGen.v, gen/RewardsGen.v and the model of _accumulate) sum to the variance ---- *)
Section SourceCov.
Variable expm : seq (seq R) -> seq (seq R).
Hypothesis expm_sound : forall n A, wf n n A -> wf n n (expm A) /\ mx_of n n (expm A) = mexp (mx_of n n A).
Variables (n : nat) (Ss : seq (Q * seq (seq R))) (Slast : seq (seq R)) (alpha : seq R) (lam : R) (t : Q).
Hypothesis lam0 : lam <> 0.
Hypothesis H1 : List.Forall (fun x : Q * seq (seq R) => wf n n x.2) Ss.
Hypothesis H2 : wf n n Slast.
Hypothesis H5 : epochs_wf (seq (seq R)) 0%QQ Ss.
Hypothesis t0 : (0 <= t)%QQ.
Variable self_reward : seq R.

Notation gen_acc := (MomentsGen.PhaseTypeDistribution_accumulate OpsR (raw_model expm Ss Slast alpha lam) self_reward).

Definition src_cov (a b : seq R) : R := List.nth 0 (gen_acc 2 [:: t] (Some [:: a; b]) true true) 0.

Lemma src_covE a b : src_cov a b = cov_t expm Ss Slast alpha lam t a b.
Proof. by rewrite /src_cov /cov_t gen_accumulate_eq // L_nth. Qed.

Theorem source_deme_covariances_sum_to_variance (nn nl nd : nat) (r : reward) (sts : seq state) :
  size sts = n -> reward_ok nn r = true ->
  List.Forall (fun s => n_loci s = nl) sts ->
  List.Forall (fun s => n_demes s = nd /\ (1 <= total_lineages s)%coq_nat /\
                        List.Forall (fun loc => length loc = n_demes s) (lin s)) sts ->
  let rv x := [seq gen_reward_get OpsR nn nl x s | s <- sts] in
  \sum_(p <- iota 0 nd) \sum_(q <- iota 0 nd) src_cov (rv (RProduct [:: r; RDeme p])) (rv (RProduct [:: r; RDeme q]))
  = src_cov (rv r) (rv r).
Proof.
move=> ssz rok Hnl Hst rv.
rewrite src_covE /rv -(deme_vectors_sum rok Hnl Hst) ssz.
rewrite -(@cov_entries_sum_to_variance expm expm_sound n Ss Slast alpha lam t lam0 H1 H2 H5 t0); last first.
  by apply/allP => x /mapP [d _ ->]; rewrite size_map ssz.
rewrite big_map; apply: eq_bigr => p _; rewrite big_map; apply: eq_bigr => q _.
exact: src_covE.
Qed.
End SourceCov.

Section SrcCov.
Variable expm : seq (seq R) -> seq (seq R).
Hypothesis expm_sound : forall n A, wf n n A -> wf n n (expm A) /\ mx_of n n (expm A) = mexp (mx_of n n A).
Variables (n : nat) (Ss : seq (Q * seq (seq R))) (Slast : seq (seq R)) (alpha : seq R) (lam : R) (t : Q).
Hypothesis lam0 : lam <> 0.
Hypothesis H1 : List.Forall (fun x : Q * seq (seq R) => wf n n x.2) Ss.
Hypothesis H2 : wf n n Slast.
Hypothesis H5 : epochs_wf (seq (seq R)) 0%QQ Ss.
Hypothesis t0 : (0 <= t)%QQ.
Variable self_reward : seq R.
Let C := src_cov expm Ss Slast alpha lam t self_reward.

Theorem source_family_covariances_sum (nn nl : nat) (rtot : reward) (I : seq nat) (rl : nat -> reward) (sts : seq state) :
  size sts = n -> reward_ok nn rtot = true -> all (fun l => reward_ok nn (rl l)) I ->
  List.Forall (fun s => n_loci s = nl) sts ->
  List.Forall (fun s => List.fold_right Rplus 0 (List.map (fun l => reward_get OpsR nn (rl l) s) I) = reward_get OpsR nn rtot s) sts ->
  let rv x := [seq gen_reward_get OpsR nn nl x s | s <- sts] in
  \sum_(p <- I) \sum_(q <- I) C (rv (rl p)) (rv (rl q)) = C (rv rtot) (rv rtot).
Proof.
move=> ssz rok rlok Hnl Hsum rv.
rewrite /C src_covE /rv -(family_vectors_sum rok rlok Hnl Hsum) ssz.
rewrite -(@cov_entries_sum_to_variance expm expm_sound n Ss Slast alpha lam t lam0 H1 H2 H5 t0); last first.
  by apply/allP => x /mapP [d _ ->]; rewrite size_map ssz.
rewrite big_map; apply: eq_bigr => p _; rewrite big_map; apply: eq_bigr => q _.
exact: src_covE.
Qed.

(* SFSDistribution.get_cov(i, j) = moment(k=2, rewards=(CombinedReward([r0, SFS_i]), CombinedReward([r0, SFS_j])), center=True)
   (pinned in gen/SfsGen.v): the entries of the covariance matrix of the spectrum sum to the variance of the (r0-weighted) total
   branch length *)
Theorem source_sfs_covariances_sum_to_branch_length_variance (nn : nat) (r0 : reward) (sts : seq state) :
  size sts = n -> (2 <= nn)%coq_nat -> reward_ok nn r0 = true -> List.Forall (fun s => bc_inv nn s) sts ->
  let rv x := [seq gen_reward_get OpsR nn 1 x s | s <- sts] in
  \sum_(i <- iota 1 (nn - 1)) \sum_(j <- iota 1 (nn - 1)) C (rv (RProduct [:: r0; RUnfoldedSFS i])) (rv (RProduct [:: r0; RUnfoldedSFS j]))
  = C (rv (RProduct [:: r0; RTotalBranchLength])) (rv (RProduct [:: r0; RTotalBranchLength])).
Proof.
move=> ssz n2 r0ok Hinv; apply: source_family_covariances_sum => //.
- by rewrite /= r0ok.
- by apply/allP => i; rewrite mem_iota => /andP [i1 _]; rewrite /= r0ok /=; case: i i1.
- by elim: Hinv => [|s l [h _] _ IH]; constructor.
- by elim: Hinv => [|s l h _ IH]; constructor => //; exact: sfs_family_decompose.
Qed.
End SrcCov.

Section CovLin.
Variable expm : seq (seq R) -> seq (seq R).
Hypothesis expm_sound : forall n A, wf n n A -> wf n n (expm A) /\ mx_of n n (expm A) = mexp (mx_of n n A).
Variables (n : nat) (Ss : seq (Q * seq (seq R))) (Slast : seq (seq R)) (alpha : seq R) (lam : R) (t : Q).
Hypothesis lam0 : lam <> 0.
Hypothesis H1 : List.Forall (fun x : Q * seq (seq R) => wf n n x.2) Ss.
Hypothesis H2 : wf n n Slast.
Hypothesis H5 : epochs_wf (seq (seq R)) 0%QQ Ss.
Hypothesis t0 : (0 <= t)%QQ.
Let C := cov_t expm Ss Slast alpha lam t.

(* the covariance computed by the model of accumulate (center = permute = True) is symmetric and bilinear in the reward vectors *)
Theorem cov_t_sym a b : C a b = C b a.
Proof. by rewrite /C !cov_tE S2_sym mulrC. Qed.

Theorem cov_t_lin_l a1 a2 b (c1 c2 : R) : size a1 = n -> size a2 = n -> size b = n ->
  C (vadd OpsR (vscale OpsR c1 a1) (vscale OpsR c2 a2)) b = c1 * C a1 b + c2 * C a2 b.
Proof.
move=> s1 s2 sb; rewrite /C !cov_tE.
rewrite (@S2_lin_l expm expm_sound n Ss Slast alpha lam t lam0 H1 H2 H5 t0) //.
rewrite (@M1_lin expm expm_sound n Ss Slast alpha lam t lam0 H1 H2 H5 t0) //.
rewrite /GRing.add /GRing.mul /GRing.opp /=; ring.
Qed.

Theorem cov_t_lin_r a b1 b2 (c1 c2 : R) : size a = n -> size b1 = n -> size b2 = n ->
  C a (vadd OpsR (vscale OpsR c1 b1) (vscale OpsR c2 b2)) = c1 * C a b1 + c2 * C a b2.
Proof. by move=> sa s1 s2; rewrite cov_t_sym cov_t_lin_l // ![C _ a]cov_t_sym. Qed.
End CovLin.

Print Assumptions raw_slot_linear.
Print Assumptions cov_entries_sum_to_variance.
Print Assumptions deme_vectors_sum.
Print Assumptions source_deme_covariances_sum_to_variance.
Print Assumptions source_family_covariances_sum.
Print Assumptions source_sfs_covariances_sum_to_branch_length_variance.
Print Assumptions cov_t_lin_l.
Print Assumptions cov_t_sym.
