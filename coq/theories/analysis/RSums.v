(* Finite sums ([\sum] of mathcomp) over the reals versus the order, the
   absolute value and the convergent series of Coquelicot. *)
Require Import Reals Psatz.
From mathcomp Require Import all_ssreflect all_algebra.
From Coquelicot Require Import Coquelicot.
From PG Require Import analysis.Rstruct.
Set Implicit Arguments. Unset Strict Implicit. Unset Printing Implicit Defensive.
Import GRing.Theory.
Delimit Scope ring_scope with RR.
Local Open Scope ring_scope.

Section BigR.
Variable I : Type.
Implicit Types (r : seq I) (P : pred I) (f g : I -> R).

Lemma Rle_sum r P f g :
  (forall i, P i -> Rle (f i) (g i)) ->
  Rle (\sum_(i <- r | P i) f i) (\sum_(i <- r | P i) g i).
Proof.
move=> H; elim/big_ind2: _ => //; first exact: Rle_refl.
by move=> x1 x2 y1 y2 H1 H2; apply: Rplus_le_compat.
Qed.

Lemma Rsum_ge0 r P f :
  (forall i, P i -> Rle 0 (f i)) -> Rle 0 (\sum_(i <- r | P i) f i).
Proof.
move=> H; elim/big_ind: _ => //; first exact: Rle_refl.
by move=> x y x0 y0; apply: Rplus_le_le_0_compat.
Qed.

Lemma Rabs_sum r P f :
  Rle (Rabs (\sum_(i <- r | P i) f i)) (\sum_(i <- r | P i) Rabs (f i)).
Proof.
elim/big_ind2: _ => [|x1 x2 y1 y2 H1 H2|i _]; last exact: Rle_refl.
  by rewrite Rabs_R0; exact: Rle_refl.
apply: Rle_trans (Rabs_triang _ _) _.
exact: Rplus_le_compat.
Qed.

Lemma Rsum_mull r P f (c : R) :
  \sum_(i <- r | P i) Rmult c (f i) = Rmult c (\sum_(i <- r | P i) f i).
Proof. by rewrite RmultE mulr_sumr. Qed.

Lemma Rsum_mulr r P f (c : R) :
  \sum_(i <- r | P i) Rmult (f i) c = Rmult (\sum_(i <- r | P i) f i) c.
Proof. by rewrite RmultE mulr_suml. Qed.

End BigR.

Lemma Rle_sum_term (I : finType) (f : I -> R) (i0 : I) :
  (forall i, Rle 0 (f i)) -> Rle (f i0) (\sum_i f i).
Proof.
move=> H; rewrite (bigD1 i0) //=.
rewrite -[X in Rle X _]Rplus_0_r; apply: Rplus_le_compat_l.
by apply: Rsum_ge0.
Qed.

(* ------------------------------------------------------------------ *)
(* Series                                                              *)

Lemma is_series_R0 : is_series (fun _ : nat => R0) R0.
Proof.
apply: (filterlim_ext (fun _ => R0)); last exact: filterlim_const.
by elim=> [|n IH]; rewrite ?sum_O ?sum_Sn -?IH //= /plus /= Rplus_0_r.
Qed.

Lemma is_series_bigsum (I : Type) (r : seq I) (P : pred I)
    (f : I -> nat -> R) (s : I -> R) :
  (forall i, P i -> is_series (f i) (s i)) ->
  is_series (fun k => \sum_(i <- r | P i) f i k) (\sum_(i <- r | P i) s i).
Proof.
move=> H; elim: r => [|i r IH].
  rewrite big_nil; apply: is_series_ext is_series_R0 => k.
  by rewrite big_nil.
rewrite big_cons; case Pi: (P i).
  apply: (is_series_ext (fun k => plus (f i k) (\sum_(j <- r | P j) f j k))).
    by move=> k; rewrite big_cons Pi.
  by apply: (is_series_plus (f i)) => //; apply: H.
by apply: is_series_ext IH => k; rewrite big_cons Pi.
Qed.

Lemma ex_series_bigsum (I : Type) (r : seq I) (P : pred I)
    (f : I -> nat -> R) :
  (forall i, P i -> ex_series (f i)) ->
  ex_series (fun k => \sum_(i <- r | P i) f i k).
Proof.
move=> H; elim: r => [|i r [l IH]].
  by exists R0; apply: is_series_ext is_series_R0 => k; rewrite big_nil.
case Pi: (P i); last first.
  by exists l; apply: is_series_ext IH => k; rewrite big_cons Pi.
have [li Hi] := H i Pi; exists (plus li l).
apply: (is_series_ext (fun k => plus (f i k) (\sum_(j <- r | P j) f j k))).
  by move=> k; rewrite big_cons Pi.
exact: is_series_plus.
Qed.

(* The three kinds of finite sums indexed by an initial segment of nat. *)
Lemma sum_f_R0_big (f : nat -> R) (n : nat) :
  sum_f_R0 f n = \sum_(k < n.+1) f k.
Proof.
elim: n => [|n IH] /=; first by rewrite big_ord_recl big_ord0 addr0.
by rewrite [RHS]big_ord_recr /= -IH.
Qed.

Lemma sum_n_big (f : nat -> R) (n : nat) : sum_n f n = \sum_(k < n.+1) f k.
Proof. by rewrite sum_n_Reals sum_f_R0_big. Qed.

(* A series whose terms vanish from rank 1 on. *)
Lemma is_series_single (a : nat -> R) :
  (forall k, a k.+1 = R0) -> is_series a (a 0%N).
Proof.
move=> H; apply: (filterlim_ext (fun _ => a 0%N)); last exact: filterlim_const.
by elim=> [|n IH]; rewrite ?sum_O ?sum_Sn -?IH // H /plus /= Rplus_0_r.
Qed.

(* Limits of non-negative series are non-negative. *)
Lemma is_series_ge0 (a : nat -> R) (l : R) :
  (forall k, Rle 0 (a k)) -> is_series a l -> Rle 0 l.
Proof.
move=> a0 al.
have ea : ex_series a by exists l.
change (Rle R0 l).
rewrite -(is_series_unique _ _ al) -(is_series_unique _ _ is_series_R0).
by apply: Series_le => // k; split => //; apply: Rle_refl.
Qed.

Print Assumptions is_series_bigsum.
