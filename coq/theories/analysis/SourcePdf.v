(* The density of the translated source is non-negative (property C03): the pinned pdf (gen/MarginalsGen.v) applied to the translated
   cdf (gen/LoopsGen.v), through the pointwise form and the monotonicity of the cdf (analysis/CdfFacts.v). *)
Require Import Reals Psatz QArith Qreals.
From mathcomp Require Import all_ssreflect all_algebra.
From PG Require Import analysis.Rstruct analysis.RSums analysis.MExp analysis.MExpLaws.
From PG Require Import base.Ops base.OpsR base.Perm model.Matrix model.Loop model.PhaseType.
From PG Require Import proofs.LoopProofs proofs.ExpLaws analysis.Denote analysis.CdfFacts analysis.DenotePhaseType.
From PG Require Import gen.NpLoops gen.LoopsGen proofs.GenLoopsEquiv analysis.SourceLoops gen.MarginalsGen proofs.GenMarginalsEquiv.
Set Implicit Arguments. Unset Strict Implicit. Unset Printing Implicit Defensive.
Import GRing.Theory.
Delimit Scope Q_scope with QQ.
Local Open Scope ring_scope.

Section Src.
Variable expm : seq (seq R) -> seq (seq R).
Hypothesis expm_sound : forall n A, wf n n A -> wf n n (expm A) /\ mx_of n n (expm A) = mexp (mx_of n n A).

(* property C03: the density computed by the (pinned) pdf from the translated cdf is non-negative at every time, for every step dx > 0,
   on any demography whose rate matrices are generators and close the set of coalesced states *)
Theorem source_pdf_nonneg (n : nat) (Ss : seq (Q * seq (seq R))) (Slast : seq (seq R)) (alpha e : seq R) (q99 dx : Q) (ts : seq Q) :
  List.Forall (fun x : Q * seq (seq R) => is_generator n x.2 /\ abs_closed n x.2 e) Ss ->
  is_generator n Slast -> abs_closed n Slast e -> is_prob n alpha -> is_01 n e ->
  epochs_wf (seq (seq R)) 0%QQ Ss -> (0 < dx)%QQ ->
  List.Forall (fun x : R => Rle R0 x)
    (TreeHeightDistribution_pdf OpsR (TreeHeightDistribution_cdf OpsR expm (length Slast) (all_epochs Ss Slast) alpha e) q99 ts (Some dx)).
Proof.
move=> Sgc Lgen Lcl ap e01 Ewf dx0.
have Sgen : List.Forall (fun x : Q * seq (seq R) => is_generator n x.2) Ss by apply: List.Forall_impl Sgc => x [].
have Swf := all_generators_wf Sgen; have [Lwf _ _] := Lgen; have se : size e = n by case: e01.
pose F (t : Q) : R := cdf_at expm Ss Slast alpha e t.
have cdfE l : List.Forall (fun t => (0 <= t)%QQ) l ->
    TreeHeightDistribution_cdf OpsR expm (length Slast) (all_epochs Ss Slast) alpha e l = List.map F l.
  by move=> l0; rewrite gen_cdf_eq_model_R; apply: (@cdf_pointwise expm expm_sound n).
have x1ge l : List.Forall (fun t => (0 <= t)%QQ) (List.map (pdf_x1 dx) l).
  by elim: l => [|t l IH] /=; constructor => //; exact: pdf_x1_ge0.
have x2ge l : List.Forall (fun t => (0 <= t)%QQ) (List.map (fun x => (x + dx)%QQ) (List.map (pdf_x1 dx) l)).
  elim: l => [|t l IH] /=; constructor => //.
  by have := pdf_x1_ge0 dx t; Lqa.lra.
rewrite /TreeHeightDistribution_pdf (cdfE _ (x1ge ts)) (cdfE _ (x2ge ts)).
have dxR : Rlt R0 (oofQ OpsR dx).
  have -> : oofQ OpsR dx = Q2R dx by [].
  by have := Qlt_Rlt _ _ dx0; rewrite RMicromega.Q2R_0.
apply: (@gen_pdf_nonneg F q99 _ ts dx dx0 dxR) => a b a0 ab.
exact: (@cdf_monotone expm expm_sound n Ss Slast alpha e a b).
Qed.
End Src.
Print Assumptions source_pdf_nonneg.
