(* The analytic facts about cdf / _accumulate stated DIRECTLY about the translated source: the functions
   TreeHeightDistribution_cdf and PhaseTypeDistribution_accumulate of gen/LoopsGen.v (regenerated from
   phasegen/distributions.py on every run), at the real instance, for every backend [expm] that computes the real matrix
   exponential on the matrices it is given (the contract of phasegen.expm.Backend).

   Each statement is the corresponding theorem of analysis/CdfFacts.v / analysis/DenotePhaseType.v transported along
   proofs/GenLoopsEquiv.v (translated source = model). *)
From Coq Require Import QArith Reals.
From mathcomp Require Import all_ssreflect all_algebra.
From PG Require Import analysis.Rstruct analysis.RSums analysis.MExp analysis.MExpLaws.
From PG Require Import base.Ops base.OpsR base.Perm model.CoalModels model.Matrix model.Loop model.PhaseType.
From PG Require Import proofs.LoopProofs proofs.ExpLaws analysis.Denote analysis.CdfFacts analysis.DenotePhaseType.
From PG Require Import gen.NpLoops gen.LoopsGen proofs.GenLoopsEquiv.
Delimit Scope Q_scope with QQ.
Delimit Scope nat_scope with N.
Local Open Scope ring_scope.

Section Source.
Variable expm : seq (seq R) -> seq (seq R).
Hypothesis expm_sound : forall n A, wf n n A -> wf n n (expm A) /\ mx_of n n (expm A) = mexp (mx_of n n A).

(* cdf: every value returned is a probability *)
Theorem source_cdf_values_are_probabilities
  (n : nat) (Ss : seq (Q * seq (seq R))) (Slast : seq (seq R)) (alpha e : seq R) (ts : seq Q) :
  List.Forall (fun x : Q * seq (seq R) => is_generator n x.2) Ss -> is_generator n Slast ->
  is_prob n alpha -> is_01 n e ->
  epochs_wf (seq (seq R)) 0%QQ Ss -> List.Forall (fun t => (0 <= t)%QQ) ts ->
  List.Forall (fun x : R => Rle R0 x /\ Rle x R1)
              (TreeHeightDistribution_cdf OpsR expm (length Slast) (all_epochs Ss Slast) alpha e ts).
Proof. move=> H1 H2 H3 H4 H5 H6; rewrite gen_cdf_eq_model_R; exact: (cdf_range expm_sound H1 H2 H3 H4 H5 H6). Qed.

(* cdf: non-decreasing in t *)
Theorem source_cdf_monotone
  (n : nat) (Ss : seq (Q * seq (seq R))) (Slast : seq (seq R)) (alpha e : seq R) (t1 t2 : Q) :
  List.Forall (fun x : Q * seq (seq R) => is_generator n x.2 /\ abs_closed n x.2 e) Ss ->
  is_generator n Slast -> abs_closed n Slast e ->
  is_prob n alpha -> is_01 n e ->
  epochs_wf (seq (seq R)) 0%QQ Ss -> (0 <= t1)%QQ -> (t1 <= t2)%QQ ->
  Rle (List.nth 0 (TreeHeightDistribution_cdf OpsR expm (length Slast) (all_epochs Ss Slast) alpha e [:: t1]) 0)
      (List.nth 0 (TreeHeightDistribution_cdf OpsR expm (length Slast) (all_epochs Ss Slast) alpha e [:: t2]) 0).
Proof. move=> H1 H2 H3 H4 H5 H6 H7 H8; rewrite !gen_cdf_eq_model_R; exact: (cdf_monotone expm_sound H1 H2 H3 H4 H5 H6 H7 H8). Qed.

(* cdf: it is 1 - alpha T(t) e with T(t) the ordered product of real exponentials over the epochs traversed; any order of
   the times, repeats allowed (so the vectorised call is pointwise) *)
Theorem source_cdf_denotes_absorption_probability
  (n : nat) (Ss : seq (Q * seq (seq R))) (Slast : seq (seq R)) (alpha e : seq R) (ts : seq Q) :
  all_wf n Ss -> wf n n Slast -> size e = n ->
  epochs_wf (seq (seq R)) 0%QQ Ss -> List.Forall (fun t => (0 <= t)%QQ) ts ->
  TreeHeightDistribution_cdf OpsR expm (length Slast) (all_epochs Ss Slast) alpha e ts =
  List.map (fun t => 1 - (rv_of n alpha *m TM n Ss Slast t *m cv_of n e) ord0 ord0) ts.
Proof. move=> H1 H2 H3 H4 H5; rewrite gen_cdf_eq_model_R; exact: (cdf_denote expm_sound alpha H1 H2 H3 H4 H5). Qed.

(* _accumulate: pointwise in the end times (any order, repeats), and equal to the Van Loan functional of the UNREGULARISED
   generators - whatever non-zero factor _get_regularization_factor returns *)
Theorem source_accumulate_pointwise
  (regf : seq (seq R) -> R) (n k : nat) (Ss : seq (Q * seq (seq R))) (Slast : seq (seq R)) (Rs : seq (seq R))
  (alpha : seq R) (ts : seq Q) :
  regf (List.hd (None, Slast) (all_epochs Ss Slast)).2 <> 0 ->
  List.Forall (fun x : Q * seq (seq R) => wf n n x.2) Ss -> wf n n Slast ->
  (forall i, (i < k)%N -> size (nth [::] Rs i) = n) ->
  epochs_wf (seq (seq R)) 0%QQ Ss -> List.Forall (fun t => (0 <= t)%QQ) ts ->
  PhaseTypeDistribution_accumulate OpsR expm regf (length Slast) k (all_epochs Ss Slast) Rs alpha ts =
  List.map (fun t => mk_val alpha
     (evalM (vlsz n k) (denCk n k Rs Ss) (vl (mx_of n n Slast) (rwd n Rs) k) t)) ts.
Proof. move=> H1 H2 H3 H4 H5 H6; rewrite gen_accumulate_eq_model_R; exact: (accumulate_pointwise expm_sound alpha H1 H2 H3 H4 H5 H6). Qed.
End Source.
