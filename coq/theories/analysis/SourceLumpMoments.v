(* Lumping of the moments of every order, restated for the translated _accumulate (gen/LoopsGen.v) on any demography: from
   accumulate_lumping / accumulate_lam_irrelevant of analysis/DenotePhaseType.v through proofs/GenLoopsEquiv.v. *)
Require Import Reals Psatz QArith Qreals.
From mathcomp Require Import all_ssreflect all_algebra.
From PG Require Import analysis.Rstruct analysis.RSums analysis.MExp analysis.MExpLaws.
From PG Require Import base.Ops base.OpsR base.Perm model.Matrix model.Loop model.PhaseType.
From PG Require Import proofs.LoopProofs proofs.ExpLaws proofs.ExpLaws2 analysis.Denote analysis.CdfFacts analysis.DenotePhaseType.
From PG Require Import gen.NpLoops gen.LoopsGen proofs.GenLoopsEquiv analysis.SourceLoops.
Set Implicit Arguments. Unset Strict Implicit. Unset Printing Implicit Defensive.
Import GRing.Theory.
Delimit Scope Q_scope with QQ.
Local Open Scope ring_scope.

Section Src.
Variable expm : seq (seq R) -> seq (seq R).
Hypothesis expm_sound : forall n A, wf n n A -> wf n n (expm A) /\ mx_of n n (expm A) = mexp (mx_of n n A).

(* properties C01 / C02 / C04: if P lumps the fine chain (L: m states, e.g. the labelled coalescent or a finer state space) onto the
   coarse chain (C: n states) in EVERY epoch - S_L P = P S_C - and intertwines the rewards, then the accumulated moments of every
   order computed by the translated _accumulate on the fine chain are those computed on the coarse chain started from alpha_L P;
   the two objects may use different (non-zero) regularisation factors *)
Theorem source_accumulate_lumping (regfL regfC : seq (seq R) -> R) (m n k : nat) (P : seq (seq R))
    (SsL : seq (Q * seq (seq R))) (SlastL : seq (seq R)) (SsC : seq (Q * seq (seq R))) (SlastC : seq (seq R))
    (RsL RsC : seq (seq R)) (alphaL : seq R) (ts : seq Q) :
  regfL (List.hd (None, SlastL) (all_epochs SsL SlastL)).2 <> 0 ->
  regfC (List.hd (None, SlastC) (all_epochs SsC SlastC)).2 <> 0 ->
  wf m n P -> wf m m SlastL -> wf n n SlastC ->
  List.Forall2 (lump_rel m n P) SsL SsC ->
  mmul OpsR SlastL P = mmul OpsR P SlastC ->
  (forall i, (i < k)%N -> mmul OpsR (diagm OpsR (nth [::] RsL i)) P = mmul OpsR P (diagm OpsR (nth [::] RsC i))) ->
  mvec OpsR P (ones OpsR n) = ones OpsR m ->
  (forall i, (i < k)%N -> size (nth [::] RsL i) = m) -> (forall i, (i < k)%N -> size (nth [::] RsC i) = n) ->
  size alphaL = m ->
  PhaseTypeDistribution_accumulate OpsR expm regfL (length SlastL) k (all_epochs SsL SlastL) RsL alphaL ts
  = PhaseTypeDistribution_accumulate OpsR expm regfC (length SlastC) k (all_epochs SsC SlastC) RsC (vmat OpsR alphaL P) ts.
Proof.
move=> rL rC Pwf LLwf LCwf Hss Hlast Hr P1 RLwf RCwf sa.
have SCwf : all_wf n SsC by elim: Hss => [|x y ? ? [_ _ ? _] _ ?]; constructor.
rewrite !gen_accumulate_eq_model_R.
rewrite (@accumulate_lumping expm expm_sound m n k P SsL SlastL SsC SlastC RsL RsC) //.
exact: (@accumulate_lam_irrelevant expm expm_sound n k).
Qed.
End Src.
Print Assumptions source_accumulate_lumping.
