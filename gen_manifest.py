#!/venv/bin/python
"""Writes MANIFEST.json from the table below (kept in one place so it stays valid)."""
import json, os
HERE = os.path.dirname(os.path.abspath(__file__))
props = [json.loads(l) for l in open(os.path.join(HERE, 'properties.jsonl'))]
CLAIMED = json.load(open(os.path.join(HERE, 'claims.json')))
checks, na = [], []
for p in props:
    pid = p['id']
    if pid in CLAIMED:
        c = CLAIMED[pid]
        checks.append({
            'property_id': pid,
            'quick_cmd': f'./check {pid} --tier quick',
            'thorough_cmd': f'./check {pid} --tier thorough',
            'evidence_file': f'/verif/evidence/{pid}.json',
            'replay_cmd_template': f'./check {pid} --replay {{path}}',
            'engine': 'coq-model+correspondence',
            'level_claimed': {'category': 'proof', 'text': c['text'], 'design_ref': f'DESIGN.md section 3 ({pid}) and section 5'},
            'level_note': c['note'],
            'technique': c['technique'],
        })
    else:
        na.append({'property_id': pid, 'reason': 'check not built yet in this round (planned: see DESIGN.md section 3); not claimed'})
m = {
    'version': 1,
    'setup_cmd': './setup.sh',
    'hooks': {'guard': 'SENDROWSKI_PHASEGEN_VERIF', 'enable': 'no source hooks are needed: all observations use public or underscore attributes and a logging handler; checks set SENDROWSKI_PHASEGEN_VERIF=1 for uniformity',
              'baseline_off_cmd': 'cd /repo && /venv/bin/python -m pytest -ra -q -p no:cacheprovider --timeout=900 --continue-on-collection-errors',
              'source_commits': [], 'add_only': True},
    'engines': [{'name': 'coq-model+correspondence', 'path': '/verif/coq, /verif/harness',
                 'serves_properties': sorted(CLAIMED),
                 'kind_free_text': 'Rocq/Coq 8.16 theorems about a hand-written Gallina model of PhaseGen; the model is tied to /repo by differential execution (model evaluated by vm_compute inside Coq, implementation run from the working tree) on every run'}],
    'checks': checks,
    'not_applicable': na,
    'notes': 'See DESIGN.md. Known findings in known_findings.json; fix: commits in /repo are listed there as fixed entries.',
}
json.dump(m, open(os.path.join(HERE, 'MANIFEST.json'), 'w'), indent=1)
print('claimed', len(checks), 'not claimed', len(na))
