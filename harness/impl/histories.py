"""Implementation side of the `histories` stream (C17): query histories on one object vs fresh objects,
cache invariants on the real state-space objects, instrumented update_epoch / rate-matrix computations."""
import json
import sys
import warnings

import numpy as np

import build
import phasegen as pg
from numeric import run_op, tolist

EVENTS = []
_orig_update = pg.state_space.StateSpace.update_epoch
_orig_grm = pg.state_space.StateSpace._get_rate_matrix


def ekey(e):
    return json.dumps([sorted([k, float(v)] for k, v in e.pop_sizes.items()),
                       sorted([f'{p}>{q}', float(v)] for (p, q), v in e.migration_rates.items())])


def _upd(self, epoch):
    EVENTS.append([id(self), 'U', ekey(epoch)])
    return _orig_update(self, epoch)


def _grm(self):
    EVENTS.append([id(self), 'C', ekey(self.epoch)])
    return _orig_grm(self)


_orig_gt = pg.state_space.StateSpace.get_transitions


def _gt(self):
    EVENTS.append([id(self), 'T', ekey(self.epoch)])
    return _orig_gt(self)


pg.state_space.StateSpace.get_transitions = _gt
pg.state_space.StateSpace.update_epoch = _upd
pg.state_space.StateSpace._get_rate_matrix = _grm


def check_invariant(coal):
    """Inv of model/Cache.v on the real objects: a cached S is the matrix of the current epoch; every
    _cache entry holds the transitions of its key epoch."""
    bad = []
    for name in ('lineage_counting_state_space', 'block_counting_state_space'):
        if name not in coal.__dict__:
            continue
        ss = coal.__dict__[name]
        fresh = ss.__class__(lineage_config=ss.lineage_config, locus_config=ss.locus_config, model=ss.model, epoch=ss.epoch)
        if 'S' in ss.__dict__:
            if not np.array_equal(ss.__dict__['S'], fresh.S):
                bad.append({'space': name, 'what': 'cached S is not the rate matrix of the current epoch'})
        for ep, (tr, states) in ss._cache.items():
            f2 = ss.__class__(lineage_config=ss.lineage_config, locus_config=ss.locus_config, model=ss.model, epoch=ep)
            t2, _ = f2.get_transitions()
            a = sorted((hash(k[0]), hash(k[1]), v[0]) for k, v in tr.items())
            b = sorted((hash(k[0]), hash(k[1]), v[0]) for k, v in t2.items())
            if a != b:
                bad.append({'space': name, 'what': '_cache entry does not hold the transitions of its key epoch'})
    return bad


def main():
    pl = json.load(sys.stdin)
    out = []
    for case in pl['cases']:
        r = {}
        try:
            with warnings.catch_warnings():
                warnings.simplefilter('ignore')
                spec = case['spec']
                coal = build.coalescent(spec, parallelize=case.get('parallelize', False))
                if case.get('parallelize') and spec.get('loci', 1) == 1:
                    # worker processes for the SFS bins (the flag of the Coalescent is not handed on to its SFS distributions)
                    coal.sfs.parallelize = True
                    coal.fsfs.parallelize = True
                if case.get('cache') is False:
                    coal.lineage_counting_state_space.cache = False
                    if spec.get('loci', 1) == 1:
                        coal.block_counting_state_space.cache = False
                del EVENTS[:]
                hist, fresh, inv = [], [], []
                def run_any(c, op):
                    if op['kind'] == 'ss':          # public state-space API: read S / k, re-point the epoch
                        ss = c.lineage_counting_state_space if op['space'] == 'lc' else c.block_counting_state_space
                        if op['what'] == 'update_epoch':
                            ss.update_epoch(c.demography.get_epoch(op['t']))
                            return None
                        v = getattr(ss, op['what'])
                        return tolist(v) if op['what'] == 'S' else int(v)
                    return run_op(c, op)
                for op in case['ops']:
                    hist.append(run_any(coal, op))
                    inv += check_invariant(coal)
                events = list(EVENTS)
                lc_id = id(coal.lineage_counting_state_space)
                r['events_lc'] = [[k, e] for (i, k, e) in events if i == lc_id]
                ss = coal.lineage_counting_state_space
                r['final_lc'] = {'epoch': ekey(ss.epoch), 'has_S': 'S' in ss.__dict__, 'cache_keys': [ekey(e) for e in ss._cache.keys()],
                                 'flag': bool(ss.cache)}
                r['initial_lc_epoch'] = ekey(build.coalescent(spec).demography.get_epoch(0))
                for op in case['ops']:
                    f = build.coalescent(spec, parallelize=False)
                    if op['kind'] == 'ss':
                        # a fresh object re-pointed to the epoch the history object is in at this moment
                        fresh.append(None)
                        continue
                    fresh.append(run_op(f, op))
                r['history'] = hist
                if case.get('parallel_map'):
                    # the ordered parallel map itself, with more work items than this machine has CPUs
                    import os
                    m = 3 * (os.cpu_count() or 4) + 5
                    data = [float(i) for i in range(m)]
                    r['parallel_map'] = [pg.utils.parallelize(lambda x: x * x + 1.0, data, parallelize=mode, pbar=False).tolist() for mode in (True, False)]
                    r['parallel_map_expected'] = [x * x + 1.0 for x in data]
                r['fresh'] = fresh
                r['inv_violations'] = inv
        except Exception as e:
            import traceback
            r['error'] = type(e).__name__ + ': ' + str(e)[:300] + traceback.format_exc()[-800:]
        out.append(r)
    print(json.dumps({'results': out}))


if __name__ == '__main__':
    main()
