"""Implementation side of the `inference` stream (C19) and of the shared-state-space part of C17."""
import json
import sys
import warnings

import numpy as np

import phasegen as pg

CALLS = []
_orig_opt = pg.Inference._optimize


def _opt(observation, x0, bounds, show_pbar, get_dist, get_loss, opts=None, logger=None):
    res = _orig_opt(observation=observation, x0=x0, bounds=bounds, show_pbar=show_pbar, get_dist=get_dist, get_loss=get_loss,
                    opts=opts, **({'logger': logger} if logger is not None else {}))
    CALLS.append({'x0': [float(v) for v in x0.values()], 'x': [float(v) for v in res.x], 'fun': float(res.fun),
                  'success': bool(res.success)})
    return res


pg.Inference._optimize = staticmethod(_opt)


def make_coal(n, times):
    def coal(N0, N1=None):
        sizes = {0: N0}
        if N1 is not None:
            sizes[times[1]] = N1
        return pg.Coalescent(n=n, demography=pg.Demography(pop_sizes={'pop_0': sizes}), parallelize=False)
    return coal


def loss_l2(coal, obs):
    return float((coal.tree_height.mean - obs[0]) ** 2 + (coal.total_branch_length.mean - obs[1]) ** 2)


def loss_sfs(coal, obs):
    n = len(obs)
    return float(pg.PoissonLikelihood().compute(observed=np.asarray(obs)[1:n - 1], modelled=100 * coal.sfs.mean.data[1:n - 1]))


def loss_sfs_full(coal, obs):
    # the complete spectrum, monomorphic classes (exactly 0 on both sides) included
    return float(pg.PoissonLikelihood().compute(observed=np.asarray(obs), modelled=100 * coal.sfs.mean.data))


def mk_inf(case, **over):
    two = case.get('two_params', False)
    coal = make_coal(case['n'], case['times'])
    truth = coal(*case['truth'])
    if case.get('loss') == 'poisson_full':
        obs = [float(x) * 100 for x in truth.sfs.mean.data]
        loss = loss_sfs_full
    elif case.get('loss') == 'poisson':
        obs = [float(x) * 100 for x in truth.sfs.mean.data]
        loss = loss_sfs
    else:
        obs = [truth.tree_height.mean, truth.total_branch_length.mean]
        loss = loss_l2
    bounds = {'N0': tuple(case['bounds'][0])}
    if two:
        bounds['N1'] = tuple(case['bounds'][1])
    kw = dict(bounds=bounds, coal=coal, loss=loss, observation=obs, n_runs=case['n_runs'], parallelize=False, pbar=False,
              seed=case['seed'], cache=case.get('cache', True),
              resample=lambda o, rng: [float(x) for x in np.asarray(o) * (1 + 0.01 * rng.standard_normal(len(o)))])
    if case.get('x0') is not None:
        kw['x0'] = dict(zip(bounds.keys(), case['x0']))
        if case.get('x0_reversed'):       # same start values, keys written in the opposite order to the bounds
            kw['x0'] = dict(reversed(list(kw['x0'].items())))
    kw.update(over)
    return pg.Inference(**kw), loss, obs, coal


def summary(inf):
    return {'params': {k: float(v) for k, v in inf.params_inferred.items()},
            'loss': None if inf.loss_inferred is None else float(inf.loss_inferred),
            'loss_runs': [float(x) for x in inf.loss_runs], 'n_boot': int(len(inf.bootstraps))}


def do_case(case):
    r = {}
    inf, loss, obs, coal = mk_inf(case)
    del CALLS[:]
    inf.run()
    r['calls'] = list(CALLS)
    r['main'] = summary(inf)
    r['main']['params'] = {k: r['main']['params'][k] for k in inf.bounds}      # report in the order of the bounds
    r['bounds'] = [list(b) for b in inf.bounds.values()]
    r['loss_at_params'] = float(loss(coal(**inf.params_inferred), obs))
    d = inf.dist_inferred.demography.get_epoch(0).pop_sizes['pop_0']
    r['dist_inferred_N0'] = float(d)
    # reproducibility and cache on/off (an unrelated Inference with its OWN optimiser options is set up in between and never
    # run: options given to one object are that object's alone)
    mk_inf(case, opts={'maxiter': 1, 'ftol': 0.5})
    inf2, *_ = mk_inf(case)
    inf2.run()
    r['again'] = summary(inf2)
    inf3, *_ = mk_inf(dict(case, cache=not case.get('cache', True)))
    inf3.run()
    r['cache_flipped'] = summary(inf3)
    # add_run / add_bootstrap / create_run / create_bootstrap
    other, *_ = mk_inf(dict(case, seed=case['seed'] + 1))
    other.run()
    before = summary(inf)
    inf.add_run(other)
    r['other'] = summary(other)
    r['merged'] = summary(inf)
    # the reported distribution was READ before the merge: after it, it must be the one of the parameters now reported
    r['merged_dist_N0'] = float(inf.dist_inferred.demography.get_epoch(0).pop_sizes['pop_0'])
    r['merged_params_N0'] = float(inf.params_inferred['N0'])
    r['before_merge'] = before
    nb = len(inf.bootstraps)
    inf.add_bootstrap(other)
    inf.add_bootstrap({k: 1.0 for k in inf.bounds})
    r['boot_rows'] = [nb, int(len(inf.bootstraps))]
    try:
        notrun, *_ = mk_inf(case)
        inf.add_run(notrun)
        r['add_not_run'] = 'accepted'
    except RuntimeError:
        r['add_not_run'] = 'RuntimeError'
    x0 = {k: (b[0] + b[1]) / 2 for k, b in inf.bounds.items()}
    cr = inf.create_run(x0)
    r['create_run_x0'] = [float(v) for v in cr.x0.values()]
    r['requested_x0'] = [float(v) for v in x0.values()]
    del CALLS[:]
    cr.n_runs = 1
    cr.run()
    r['create_run_first_start'] = CALLS[0]['x0'] if CALLS else None
    try:
        inf.create_run({k: b[1] * 10 + 1 for k, b in inf.bounds.items()})
        r['create_run_oob'] = 'accepted'
    except ValueError:
        r['create_run_oob'] = 'ValueError'
    cb = inf.create_bootstrap()
    r['bootstrap_observation_changed'] = bool(list(cb.observation) != list(inf.observation))
    # objects DERIVED from a parent that has already run (create_run / create_bootstrap copy the parent together with its
    # result) and then run themselves: they must report THEIR OWN best run
    r['derived'] = []
    for kind, obj in (('create_run', cr), ('create_bootstrap', cb)):
        if kind == 'create_bootstrap':
            del CALLS[:]
            obj.run()
        sm = summary(obj)
        r['derived'].append({'kind': kind, 'summary': sm, 'parent_loss': r['merged']['loss'],
                             'loss_at_params': float(loss(coal(**obj.params_inferred), obj.observation)),
                             'best_call_fun': min(cl['fun'] for cl in CALLS) if CALLS else None})
    r['truth'] = case['truth']
    # merging into / from a PERFECT fit: noise-free moments, one run started at the generating parameters (loss 0.0)
    nb_ = len(inf.bounds)
    pc = dict(case, x0=list(case['truth'][:nb_]), x0_reversed=False, n_runs=1, loss='l2')
    pf, *_ = mk_inf(pc)
    pf.run()
    oth, *_ = mk_inf(dict(case, seed=case['seed'] + 2, loss='l2', x0=None))
    oth.run()
    bf, ot = summary(pf), summary(oth)
    pf.add_run(oth)
    pf2, *_ = mk_inf(pc)
    pf2.run()
    oth.add_run(pf2)
    r['perfect'] = {'before': bf, 'other': ot, 'merged': summary(pf), 'merged_reverse': summary(oth)}
    # bootstraps and runs INTERLEAVED on one parent: a bootstrap is added, a run is derived from the parent (a copy that carries the table
    # so far) and reaches a better fit, another bootstrap is added to the parent, the derived run is merged, a third bootstrap is added:
    # the parent's table has exactly one more row per add_bootstrap, in the order they were added
    par, *_ = mk_inf(dict(case, seed=case['seed'] + 3, loss='l2', x0=None))
    par.run()
    rows0 = int(len(par.bootstraps))
    par.add_bootstrap({k: 1.0 for k in par.bounds})
    der = par.create_run({k: float(v) for k, v in zip(par.bounds, case['truth'][:nb_])})
    der.n_runs = 1
    der.run()
    par.add_bootstrap({k: 2.0 for k in par.bounds})
    par.add_run(der)
    par.add_bootstrap({k: 3.0 for k in par.bounds})
    k0 = list(par.bounds)[0]
    r['interleaved_boot'] = {'rows_added': int(len(par.bootstraps)) - rows0, 'first_column': [float(x) for x in list(par.bootstraps[k0])[rows0:]],
                             'derived_loss': float(der.loss_inferred), 'parent_loss_after': float(par.loss_inferred)}
    # the PLURAL entry points add_runs / add_bootstraps (documented to take any iterable): the same objects merged one by one, handed over as
    # a list and handed over as a one-shot iterator (generator / map) give the same result - the minimum over all runs, one row each
    import copy
    srcs = [other, der, pf2]
    pa, pb, pg_ = copy.deepcopy(par), copy.deepcopy(par), copy.deepcopy(par)
    for x_ in srcs:
        pa.add_run(x_)
    pb.add_runs(list(srcs))
    pg_.add_runs(x_ for x_ in srcs)
    items = [other, {k: 4.0 for k in par.bounds}, der]
    rows = []
    for obj, how in ((pa, 'singular'), (pb, 'list'), (pg_, 'iterator')):
        n0_ = int(len(obj.bootstraps))
        if how == 'singular':
            for d_ in items:
                obj.add_bootstrap(d_)
        elif how == 'list':
            obj.add_bootstraps(list(items))
        else:
            obj.add_bootstraps(map(lambda d_: d_, items))
        rows.append({'how': how, 'rows_added': int(len(obj.bootstraps)) - n0_, 'first_column': [float(x) for x in list(obj.bootstraps[k0])[n0_:]]})
    # the loss classes of norms.py on one-dimensional operands: the observation of this case against the modelled values at the truth
    # (a perfect fit) and against perturbed / permuted / scalar operands
    ob_ = np.asarray([float(x) for x in par.observation], dtype=float)
    vecs = [(ob_, ob_.copy()), (ob_, ob_ * 1.25 + 0.5), (ob_ * 1.25 + 0.5, ob_), (ob_, ob_[::-1].copy()), (np.array([3.0]), np.array([-1.5])),
            (np.array([0.0, -2.0, 7.5, 1e-3]), np.array([1.0, 2.0, -0.5, 1e-3]))]
    r['norms'] = [{'a': a_.tolist(), 'b': b_.tolist(), 'l1': float(pg.L1Norm().compute(a_, b_)), 'l2': float(pg.L2Norm().compute(a_, b_)),
                   'linf': float(pg.LInfNorm().compute(a_, b_)), 'lnorm1': float(pg.LNorm(1).compute(a_, b_)),
                   'lnorm_inf': float(pg.LNorm(np.inf).compute(a_, b_))}
                  for a_, b_ in vecs]
    r['plural'] = {'singular': summary(pa), 'list': summary(pb), 'iterator': summary(pg_), 'rows': rows,
                   'min_loss': float(min([par.loss_inferred] + [x_.loss_inferred for x_ in srcs]))}
    return r


def do_shared(case):
    """C17: parameter sets routed through one Inference (shared, cached state spaces) vs fresh objects"""
    coal = make_coal(case['n'], case['times'])
    inf = pg.Inference(bounds={'N0': (0.1, 10), 'N1': (0.1, 10)}, coal=coal, loss=lambda c, o: 0.0, x0={'N0': 1.0, 'N1': 1.0},
                       parallelize=False, pbar=False, cache=True)
    shared, fresh = [], []
    ps = case['params']
    def stats(c, early_first):
        # early_first: the first query stays inside the first epoch (the shared state space is then left pointing at it)
        out = [float(c.tree_height.cdf(0.25))] if early_first else []
        out += [c.tree_height.mean, c.total_branch_length.var, c.sfs.mean.data.tolist(), float(c.tree_height.cdf(1.0))]
        return out
    for j, (a, b) in enumerate(zip(ps, ps[1:] + ps[:1])):
        c1 = inf.get_coal(N0=a, N1=b)
        shared.append(stats(c1, j % 2 == 1))
        c2 = coal(a, b)
        fresh.append(stats(c2, j % 2 == 1))
    # parameter sets that give ONE-epoch models (every epoch starts at time 0) through a second shared Inference
    inf1 = pg.Inference(bounds={'N0': (0.1, 10)}, coal=coal, loss=lambda c, o: 0.0, x0={'N0': 1.0}, parallelize=False, pbar=False, cache=True)
    # ... with the probability of a mutational configuration as the FIRST thing asked of the object on every other parameter set (it reads
    # the rate matrix of the shared state space: the state space must first be re-pointed to the object's own epoch) and as the last otherwise
    cfg = [1] + [0] * (case['n'] - 2)
    def stats1(c, early_first, mc_first):
        out = [float(c.sfs.get_mutation_config(cfg, 1.0))] if mc_first else []
        out += stats(c, early_first)
        if not mc_first:
            out.append(float(c.sfs.get_mutation_config(cfg, 1.0)))
        return out
    # an EARLIER object is asked again after other parameter sets have been evaluated through the same shared state spaces
    first1, firstf = inf1.get_coal(N0=ps[0]), coal(ps[0])
    shared.append([first1.tree_height.mean]); fresh.append([firstf.tree_height.mean])
    for j, a in enumerate(ps):
        c1 = inf1.get_coal(N0=a)
        shared.append(stats1(c1, j % 2 == 0, j % 2 == 1))
        c2 = coal(a)
        fresh.append(stats1(c2, j % 2 == 0, j % 2 == 1))
    shared.append([first1.tree_height.var, first1.total_branch_length.mean, float(first1.tree_height.cdf(0.5))])
    fresh.append([firstf.tree_height.var, firstf.total_branch_length.mean, float(firstf.tree_height.cdf(0.5))])
    # parameter sets that change the coalescent MODEL (Beta alpha) while the demography - hence every epoch - stays the same
    mkb = lambda alpha: pg.Coalescent(n=case['n'], model=pg.BetaCoalescent(alpha=alpha), demography=pg.Demography(pop_sizes={'pop_0': {0: 2.0, 0.5: 1.0}}), parallelize=False)
    infb = pg.Inference(bounds={'alpha': (1.05, 1.95)}, coal=mkb, loss=lambda c, o: 0.0, x0={'alpha': 1.5}, parallelize=False, pbar=False, cache=True)
    for j, a in enumerate([1.25, 1.75, 1.5, 1.25]):
        shared.append(stats(infb.get_coal(alpha=a), j % 2 == 0))
        fresh.append(stats(mkb(a), j % 2 == 0))
    return {'shared': shared, 'fresh': fresh}


def do_modelparam(case):
    """C19: the optimised parameter is a parameter of the coalescent MODEL (Beta alpha / Dirac psi); with state-space caching the
    shared state space must be rebuilt for every value the optimiser tries, however close to the previous one"""
    if case['family'] == 'beta':
        mk = lambda v: pg.Coalescent(n=case['n'], model=pg.BetaCoalescent(alpha=v), parallelize=False)
    else:
        mk = lambda v: pg.Coalescent(n=case['n'], model=pg.DiracCoalescent(psi=v, c=2.0), parallelize=False)
    truth = mk(case['truth'])
    obs = [truth.tree_height.mean, truth.total_branch_length.mean, truth.tree_height.var]
    loss = lambda c, o: float((c.tree_height.mean - o[0]) ** 2 + (c.total_branch_length.mean - o[1]) ** 2 + (c.tree_height.var - o[2]) ** 2)
    out = {}
    for cache in (True, False):
        inf = pg.Inference(bounds={'v': tuple(case['bounds'])}, coal=lambda v: mk(v), loss=loss, observation=obs, x0={'v': case['x0']},
                           n_runs=1, parallelize=False, pbar=False, seed=case['seed'], cache=cache)
        inf.run()
        out['cache_on' if cache else 'cache_off'] = {'v': float(inf.params_inferred['v']), 'loss': float(inf.loss_inferred),
                                                      'loss_at': float(loss(mk(float(inf.params_inferred['v'])), obs))}
    out['truth'] = case['truth']
    return out


def main():
    pl = json.load(sys.stdin)
    out = []
    for case in pl['cases']:
        try:
            with warnings.catch_warnings():
                warnings.simplefilter('ignore')
                out.append(do_shared(case) if pl.get('mode') == 'shared' else (do_modelparam(case) if pl.get('mode') == 'modelparam' else do_case(case)))
        except Exception as e:
            import traceback
            out.append({'error': type(e).__name__ + ': ' + str(e)[:300] + traceback.format_exc()[-1000:]})
    print(json.dumps({'results': out}))


if __name__ == '__main__':
    main()
