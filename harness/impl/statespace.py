"""Implementation side of the `statespace` stream (C04, C08, C11, C20): states, S, alpha, rewards."""
import json
import sys

import numpy as np

import build
import phasegen as pg
from phasegen import rewards as R


def mk_reward(r):
    t = r[0]
    if t == 'TreeHeight': return R.TreeHeightReward()
    if t == 'TotalTreeHeight': return R.TotalTreeHeightReward()
    if t == 'TotalBranchLength': return R.TotalBranchLengthReward()
    if t == 'UnfoldedSFS': return R.UnfoldedSFSReward(r[1])
    if t == 'FoldedSFS': return R.FoldedSFSReward(r[1])
    if t == 'Lineage': return R.LineageReward(r[1])
    if t == 'Deme': return R.DemeReward(r[1])
    if t == 'Locus': return R.LocusReward(r[1])
    if t == 'Unit': return R.UnitReward()
    if t == 'BlockCountingUnit': return R.BlockCountingUnitReward()
    if t == 'TBLLocus': return R.TotalBranchLengthLocusReward(r[1])
    if t == 'Product': return R.ProductReward([mk_reward(x) for x in r[1]])
    if t == 'Sum': return R.SumReward([mk_reward(x) for x in r[1]])
    if t == 'Combined': return R.CombinedReward([mk_reward(x) for x in r[1]])
    raise ValueError(t)


def space_dump(ss, coal, rewards):
    pops = list(ss.lineage_config.pop_names)
    ep = ss.epoch
    d = {
        'pop_names': pops,
        'config': [int(x) for x in ss.lineage_config.lineages],
        'sizes': [float(ep.pop_sizes[p]) for p in pops],
        'mig': [[float(ep.migration_rates[(p, q)]) if p != q else 0.0 for q in pops] for p in pops],
        'tscale': [float(ss.model._get_timescale(ep.pop_sizes[p])) for p in pops],
        'rec': float(ss.locus_config.recombination_rate),
        'n_unlinked': int(ss.locus_config.n_unlinked),
        'states': [[s.lineages.tolist(), s.linked.tolist()] for s in ss.states],
        'S': [[float(x) for x in row] for row in ss.S],
        'alpha': [float(x) for x in ss.alpha],
        'absorbing': [bool(s.is_absorbing()) for s in ss.states],
    }
    rv = []
    for r in rewards:
        try:
            rr = mk_reward(r)
            rv.append([float(x) for x in rr._get(ss)])
        except NotImplementedError:
            rv.append('NotImplementedError')
    d['rewards'] = rv
    return d


def main():
    pl = json.load(sys.stdin)
    out = []
    for case in pl['cases']:
        r = {}
        try:
            # other configurations used EARLIER in the same process (state shared between lineage / locus configurations,
            # models or state-space classes must not leak into this one)
            for ps in case.get('prelude', []):
                pc = build.coalescent(ps)
                for w_ in case['spaces']:
                    pss = pc.lineage_counting_state_space if w_ == 'lc' else pc.block_counting_state_space
                    _ = pss.alpha, pss.S
            coal = build.coalescent(case['spec'])
            times = case.get('epoch_times', [0.0])
            for which in case['spaces']:
                ss = coal.lineage_counting_state_space if which == 'lc' else coal.block_counting_state_space
                dumps = []
                order = list(times)
                if case.get('k_first'):
                    # the states are enumerated (ss.k) while no rate matrix exists yet, then the epochs are visited LAST FIRST:
                    # the first rate matrix ever read belongs to another epoch than the one the states were enumerated in
                    _ = ss.k
                    order = order[::-1]
                for t in order:
                    ss.update_epoch(coal.demography.get_epoch(t))
                    dumps.append(space_dump(ss, coal, case.get('rewards_' + which, [])))
                r[which] = dumps[::-1] if case.get('k_first') else dumps
        except Exception as e:
            r['error'] = type(e).__name__ + ': ' + str(e)[:300]
        out.append(r)
    print(json.dumps({'results': out}))


if __name__ == "__main__":
    main()
