"""Build phasegen objects from the JSON configuration specs used by all streams.

spec = {
  'n': int | [ints] | {pop: int} (as list of [pop, int] pairs to keep order: 'n_items'),
  'model': {'kind': 'kingman'|'beta'|'dirac', ...},
  'pop_sizes': {pop: {time(str): size}} | None,   'pop_sizes_order': [pops] (dict insertion order)
  'migration_rates': {"p>q": {time(str): rate}} | None,
  'events': [ {...} ],
  'loci': 1|2, 'recombination_rate': float|None, 'n_unlinked': int,
  'start_time': float, 'end_time': float|None, 'regularize': bool }
"""
import logging

import numpy as np

import phasegen as pg


class Capture(logging.Handler):
    """Collects log records of the phasegen logger, mapped to a small enum."""

    def __init__(self):
        super().__init__(level=logging.WARNING)
        self.kinds = []
        self.messages = []

    def emit(self, record):
        msg = record.getMessage()
        self.messages.append(f'{record.levelname}: {msg[:160]}')
        if 'almost sure absorption' in msg:
            self.kinds.append('horizon')
        elif 'NaN' in msg:
            self.kinds.append('nan')
        elif 'orders of magnitude' in msg:
            self.kinds.append('numerical')
        elif 'Number of epochs' in msg or 'State space' in msg or 'zero migration rates' in msg:
            self.kinds.append('info')
        else:
            self.kinds.append('other')


def capture():
    h = Capture()
    lg = logging.getLogger('phasegen')
    for old in list(lg.handlers):
        if isinstance(old, Capture):
            lg.removeHandler(old)
    lg.addHandler(h)
    return h


def model(m):
    if m is None or m['kind'] == 'kingman':
        return pg.StandardCoalescent()
    if m['kind'] == 'beta':
        return pg.BetaCoalescent(alpha=m['alpha'], scale_time=m.get('scale_time', True))
    return pg.DiracCoalescent(psi=m['psi'], c=m['c'], scale_time=m.get('scale_time', True))


def tdict(d):
    return {float(t): v for t, v in d.items()}


def mkey(k):
    p, q = k.split('>')
    return (p, q)


def table_fn(points):
    """piecewise-linear function through the (t, value) points, constant outside"""
    ts = [float(p[0]) for p in points]
    vs = [float(p[1]) for p in points]

    def f(t):
        return float(np.interp(t, ts, vs))
    return f


def event(e):
    t = e['type']
    if t == 'PopSizeChange':
        return pg.PopSizeChange(pop=e['pop'], time=e['time'], size=e['size'])
    if t == 'PopSizeChanges':
        return pg.PopSizeChanges({p: tdict(d) for p, d in e['pop_sizes'].items()})
    if t == 'MigrationRateChange':
        return pg.MigrationRateChange(source=e['source'], dest=e['dest'], time=e['time'], rate=e['rate'])
    if t == 'MigrationRateChanges':
        return pg.MigrationRateChanges({mkey(k): tdict(d) for k, d in e['rates'].items()})
    if t == 'SymmetricMigrationRateChanges':
        rate = e['rate'] if not isinstance(e['rate'], dict) else tdict(e['rate'])
        return pg.SymmetricMigrationRateChanges(pops=e['pops'], rate=rate)
    if t == 'DiscreteRateChanges':
        return pg.DiscreteRateChanges(pop_sizes={p: tdict(d) for p, d in e.get('pop_sizes', {}).items()},
                                      migration_rates={mkey(k): tdict(d) for k, d in e.get('migration_rates', {}).items()})
    if t == 'PopulationSplit':
        return pg.PopulationSplit(time=e['time'], derived=e['derived'], ancestral=e['ancestral'],
                                  multiplier=e.get('multiplier', 100))
    if t == 'DiscretizedRateChange':
        return pg.DiscretizedRateChange(trajectory=table_fn(e['points']), start_time=e['start_time'],
                                        end_time=e.get('end_time', np.inf) if e.get('end_time') is not None else np.inf,
                                        pop=e.get('pop'), source=e.get('source'), dest=e.get('dest'),
                                        step_size=e['step_size'])
    if t == 'DiscretizedRateChanges':
        traj = {}
        for k, pts in e['points'].items():
            traj[mkey(k) if '>' in k else k] = table_fn(pts)
        st = e['start_time']
        if isinstance(st, dict):
            st = {(mkey(k) if '>' in k else k): v for k, v in st.items()}
        en = e.get('end_time')
        if en is None:
            en = np.inf
        return pg.DiscretizedRateChanges(trajectory=traj, start_time=st, end_time=en, step_size=e['step_size'])
    if t == 'ExponentialPopSizeChanges':
        return pg.ExponentialPopSizeChanges(initial_size=e['initial_size'], growth_rate=e['growth_rate'],
                                            start_time=e['start_time'],
                                            end_time=e.get('end_time') if e.get('end_time') is not None else np.inf,
                                            step_size=e['step_size'])
    if t == 'ExponentialRateChanges':
        conv = lambda d: {(mkey(k) if '>' in k else k): v for k, v in d.items()} if isinstance(d, dict) else d
        return pg.ExponentialRateChanges(initial_rate=conv(e['initial_rate']), growth_rate=conv(e['growth_rate']),
                                         start_time=conv(e['start_time']),
                                         end_time=e.get('end_time') if e.get('end_time') is not None else np.inf,
                                         step_size=e['step_size'])
    raise ValueError(t)


def demography(spec):
    kw = {}
    if spec.get('pop_sizes') is not None:
        ps = spec['pop_sizes']
        if isinstance(ps, dict):
            order = spec.get('pop_sizes_order') or list(ps.keys())
            kw['pop_sizes'] = {p: (tdict(ps[p]) if isinstance(ps[p], dict) else ps[p]) for p in order}
        else:
            kw['pop_sizes'] = ps
    if spec.get('migration_rates') is not None:
        mr = spec['migration_rates']
        order = spec.get('migration_order') or list(mr.keys())
        kw['migration_rates'] = {mkey(k): (tdict(mr[k]) if isinstance(mr[k], dict) else mr[k]) for k in order}
    if spec.get('events'):
        kw['events'] = [event(e) for e in spec['events']]
    if not kw and not spec.get('explicit_demography'):
        return None
    d = pg.Demography(**kw)
    for e in spec.get('added_events', []):
        # a user may look epochs up while still assembling the demography: later additions must be honoured
        for t in spec.get('probe_times', []):
            d.get_epoch(t)
        d.add_event(event(e))
    return d


def sample(spec):
    if 'n_items' in spec:
        return {p: v for p, v in spec['n_items']}
    return spec['n']


def coalescent(spec, **over):
    kw = dict(n=sample(spec), model=model(spec.get('model')), demography=demography(spec),
              parallelize=spec.get('parallelize', False))
    loci = spec.get('loci', 1)
    if loci == 2 or spec.get('locus_config'):
        route = spec.get('rec_route', 'locus_config')
        rr = spec.get('recombination_rate', 0) or 0
        if route == 'kwarg':          # rate given to the Coalescent next to a LocusConfig carrying the linkage
            kw['loci'] = pg.LocusConfig(n=loci, n_unlinked=spec.get('n_unlinked', 0))
            kw['recombination_rate'] = rr
        elif route == 'kwarg_over':   # the LocusConfig carries ANOTHER (non-zero) rate; the keyword of the Coalescent overrides it
            kw['loci'] = pg.LocusConfig(n=loci, n_unlinked=spec.get('n_unlinked', 0), recombination_rate=spec.get('rec_cfg', 2.0))
            kw['recombination_rate'] = rr
        elif route == 'int' and not spec.get('n_unlinked'):      # loci=2, recombination_rate=r
            kw['loci'] = loci
            kw['recombination_rate'] = rr
        else:
            kw['loci'] = pg.LocusConfig(n=loci, n_unlinked=spec.get('n_unlinked', 0), recombination_rate=rr)
    if spec.get('start_time'):
        kw['start_time'] = spec['start_time']
    if spec.get('end_time') is not None:
        kw['end_time'] = spec['end_time']
    if 'regularize' in spec:
        kw['regularize'] = spec['regularize']
    kw.update(over)
    coal = pg.Coalescent(**kw)
    if spec.get('late_events'):
        # the user first LOOKS at the object (size of its state spaces: nothing is evaluated), THEN completes the demography it
        # holds, THEN asks for statistics: they must describe the demography in force when they are asked for
        coal.lineage_counting_state_space.k
        if spec.get('late_touch_bc'):
            coal.block_counting_state_space.k
        for e in spec['late_events']:
            coal.demography.add_event(event(e))
    return coal
