"""Implementation side of the `rates` stream (C14, C13): evaluates phasegen.coalescent_models."""
import json
import sys

import numpy as np

import phasegen as pg


def mk(m):
    if m['kind'] == 'kingman':
        return pg.StandardCoalescent()
    if m['kind'] == 'beta':
        return pg.BetaCoalescent(alpha=m['alpha'], scale_time=m.get('scale_time', True))
    return pg.DiracCoalescent(psi=m['psi'], c=m['c'], scale_time=m.get('scale_time', True))


def main():
    pl = json.load(sys.stdin)
    out = []
    for case in pl['cases']:
        model = mk(case['model'])
        r = {}
        if 'bk' in case:
            r['bk'] = [float(model._get_rate(b=b, k=k)) for b, k in case['bk']]
        if 's12' in case:
            r['s12'] = [float(model.get_rate(s1, s2)) for s1, s2 in case['s12']]
        if 'blocks' in case:
            res = []
            for blocks in case['blocks']:
                outcomes = model.coalesce(int(sum(b * (i + 1) for i, b in enumerate(blocks))) if len(blocks) > 1
                                          else int(blocks[0]), np.array(blocks, dtype=int))
                res.append([[[int(x) for x in st], float(rate)] for st, rate in outcomes])
            r['blocks'] = res
        if 'bc' in case:
            r['bc'] = [float(model._get_rate_block_counting(n=n, b=np.array(b), k=np.array(k))) for n, b, k in case['bc']]
        if 'timescale' in case:
            r['timescale'] = [float(model._get_timescale(N)) for N in case['timescale']]
        # the public parameters of a model object are reassigned after it has been queried: every later answer must be that
        # of a model constructed with the new values
        if case.get('reassign'):
            new = case['reassign']
            for k_, v_ in new.items():
                if k_ != 'kind' and k_ != 'scale_time':
                    setattr(model, k_, v_)
            fresh = mk(dict(case['model'], **new))
            probe = lambda mdl: ([float(mdl._get_rate(b=b, k=k)) for b, k in [(5, 2), (5, 3), (4, 4), (7, 5)]]
                                 + [float(mdl._get_timescale(N)) for N in (0.5, 3.0)]
                                 + [float(mdl._get_rate_block_counting(n=6, b=np.array([3, 1]), k=np.array([2, 1])))]
                                 + [float(x[1]) for x in mdl.coalesce(4, np.array([2, 1, 0, 0]))])
            r['reassigned'] = probe(model)
            r['reassigned_fresh'] = probe(fresh)
        out.append(r)
    print(json.dumps({'results': out}))


main()
