"""Implementation side of the numeric streams (moments, cdf, accumulation, SFS, marginals)."""
import json
import sys
import warnings

import numpy as np

import build
import phasegen as pg
from statespace import mk_reward  # noqa


def get_attr(obj, path):
    for part in path.split('.'):
        if part.endswith(']'):
            name, idx = part[:-1].split('[')
            obj = getattr(obj, name) if name else obj
            try:
                idx = int(idx)
            except ValueError:
                idx = idx.strip("'\"")
            obj = obj[idx]
        else:
            obj = getattr(obj, part)
    return obj


def tolist(v):
    if hasattr(v, 'data') and not isinstance(v, (np.ndarray, float, int)):
        v = v.data
    if isinstance(v, np.ndarray):
        return v.astype(float).tolist()
    if isinstance(v, (list, tuple)):
        return [tolist(x) for x in v]
    return float(v)


def run_op(coal, op):
    k = op['kind']
    if k == 'attr':
        return tolist(get_attr(coal, op['path']))
    if k == 'attr_after_plot':
        # the matrix is plotted (both plot kinds, diagonals filled) and then read AGAIN from the distribution: displaying a
        # statistic must not change it
        import matplotlib.pyplot as plt
        x = get_attr(coal, op['path'])
        x.plot(show=False, fill_diagonal_entries=True)
        plt.close('all')
        x.plot_surface(show=False, fill_diagonal_entries=True)
        plt.close('all')
        return tolist(get_attr(coal, op['path']))
    if k == 'call':
        # a documented method of a (marginal) distribution called with positional arguments, e.g. sfs.demes[a].get_cov(1, 2)
        return tolist(getattr(get_attr(coal, op['path']), op['method'])(*op.get('args', [])))
    dist = coal if op.get('route') == 'coal' else get_attr(coal, op.get('dist', 'tree_height'))
    rewards = None if op.get('rewards') is None else tuple(mk_reward(r) for r in op['rewards'])
    if k == 'moment':
        kw = dict(k=op['k'], rewards=rewards, center=op.get('center', True), permute=op.get('permute', True))
        if op.get('start_time') is not None:
            kw['start_time'] = op['start_time']
        if op.get('end_time') is not None:
            kw['end_time'] = op['end_time']
        return tolist(dist.moment(**kw))
    if k == 'accumulate':
        return tolist(dist.accumulate(k=op['k'], end_times=op['ts'], rewards=rewards, center=op.get('center', True),
                                      permute=op.get('permute', True)))
    if k == 'cdf':
        return tolist(coal.tree_height.cdf(np.array(op['ts'], dtype=float)))
    if k == 'pdf':
        return tolist(coal.tree_height.pdf(np.array(op['ts'], dtype=float), dx=op.get('dx')))
    if k == 'quantile':
        return float(coal.tree_height.quantile(op['q'], **op.get('kw', {})))
    if k == 't_max':
        return float(coal.tree_height.t_max)
    raise ValueError(k)


def main():
    pl = json.load(sys.stdin)
    out = []
    for case in pl['cases']:
        r = {'values': [], 'errors': []}
        try:
            h = build.capture()
            # other configurations evaluated EARLIER in the same process (state shared between model or reward
            # instances must not leak into this one)
            for ps in case.get('prelude', []):
                pc = build.coalescent(ps)
                with warnings.catch_warnings():
                    warnings.simplefilter('ignore')
                    pc.tree_height.mean
                    if ps.get('loci', 1) == 1:
                        pc.sfs.mean
            coal = build.coalescent(case['spec'])
            r['lineage_pops'] = list(coal.lineage_config.pop_names)
            r['lineage_counts'] = [int(x) for x in coal.lineage_config.lineages]
            r['demography_pops'] = list(coal.demography.pop_names)
            r['k_lc'] = int(coal.lineage_counting_state_space.k)
            # queries made EARLIER on the same object (their values are not compared here): what a statistic returns must not
            # depend on what the object was asked before
            for op in case.get('pre_ops', []):
                with warnings.catch_warnings():
                    warnings.simplefilter('ignore')
                    run_op(coal, op)
            for op in case['ops']:
                if case.get('fresh_per_op'):
                    coal = build.coalescent(case['spec'])
                try:
                    with warnings.catch_warnings():
                        warnings.simplefilter('ignore')
                        r['values'].append(run_op(coal, op))
                    r['errors'].append(None)
                except Exception as e:
                    r['values'].append(None)
                    r['errors'].append(type(e).__name__ + ': ' + str(e)[:200])
            r['warnings'] = h.kinds
            r['t_max'] = float(coal.tree_height.t_max)
            # size of the block-counting space (read AFTER the operations, so that it does not alter their history)
            r['k_bc'] = int(coal.block_counting_state_space.k) if case.get('want_k_bc') else None
        except Exception as e:
            r['error'] = type(e).__name__ + ': ' + str(e)[:300]
        out.append(r)
    print(json.dumps({'results': out}))


if __name__ == '__main__':
    main()
