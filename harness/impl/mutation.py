"""Implementation side of the `mutation` stream (C16)."""
import itertools
import json
import sys
import warnings

import numpy as np

import build
import phasegen as pg
from statespace import space_dump


def main():
    pl = json.load(sys.stdin)
    out = []
    for case in pl['cases']:
        r = {}
        try:
            with warnings.catch_warnings():
                warnings.simplefilter('ignore')
                coal = build.coalescent(case['spec'])
                n = coal.lineage_config.n
                theta = case['theta']
                ss = coal.block_counting_state_space
                r['dump'] = space_dump(ss, coal, [])
                configs = []
                if case.get('configs'):
                    configs = [list(c) for c in case['configs']]
                else:
                    for m in range(case['max_mut'] + 1):
                        configs += [list(c) for c in coal.sfs._get_configs(n, m)]
                r['perms'] = [sorted(list(map(int, p)) for p in pg.utils.multiset_permutations(items)) for items in case.get('perm_items', [])]
                # every multiset is requested a SECOND time in the same process
                r['perms_again'] = [sorted(list(map(int, p)) for p in pg.utils.multiset_permutations(items)) for items in case.get('perm_items', [])]
                r['configs'] = configs
                # the same distribution objects are first asked about OTHER mutation rates (what they return for theta must
                # not depend on the rates they were asked about before)
                for th0 in case.get('pre_thetas', []):
                    coal.sfs.get_mutation_config(configs[0], th0)
                    coal.fsfs.get_mutation_config([0] * (n // 2), th0)
                r['probs'] = [float(coal.sfs.get_mutation_config(c, theta)) for c in configs]
                # iterator bookkeeping
                it = coal.sfs.get_mutation_configs(theta)
                gm, seq = [], []
                for _ in range(0 if case.get('configs') else len(configs)):
                    c, p = next(it)
                    seq.append([list(map(int, c)), float(p)])
                    gm.append(float(coal.sfs.generated_mass))
                r['iter'] = seq
                r['generated_mass'] = gm
                fconfigs = []
                for m in range((min(case['max_mut'], 4) + 1) if not case.get('configs') else 0):
                    fconfigs += [list(c) for c in coal.fsfs._get_configs(n, m)]
                r['fconfigs'] = fconfigs
                r['fprobs'] = [float(coal.fsfs.get_mutation_config(c, theta)) for c in fconfigs]
                r['unfold'] = [sorted(list(map(int, u)) for u in coal.fsfs._unfold(c)) for c in fconfigs]
                r['sfs_mean'] = coal.sfs.mean.data.tolist()
                # Laplace transform of the total branch length at theta, computed independently from S
                S = np.array(ss.S)
                na = np.array([not s.is_absorbing() for s in ss.states])
                St = S[na][:, na]
                tot = np.array([s.lineages.sum() for s in ss.states])[na]
                alpha = np.array(ss.alpha)[na]
                r['laplace'] = float(alpha @ np.linalg.solve(theta * np.diag(tot) - St, -St @ np.ones(na.sum()))) if theta > 0 else 1.0
        except Exception as e:
            import traceback
            r['error'] = type(e).__name__ + ': ' + str(e)[:300] + traceback.format_exc()[-600:]
        out.append(r)
    print(json.dumps({'results': out}))


if __name__ == '__main__':
    main()
