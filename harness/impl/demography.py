"""Implementation side of the `demography` stream (C05): first epochs of a Demography, epoch lookup."""
import itertools
import json
import sys

import numpy as np

import build
import phasegen as pg


def dump_epoch(e, pops):
    return {'start': float(e.start_time), 'end': (None if np.isinf(e.end_time) else float(e.end_time)),
            'sizes': [float(e.pop_sizes[p]) for p in pops],
            'mig': [[float(e.migration_rates.get((p, q), 0.0)) if p != q else 0.0 for q in pops] for p in pops]}


def _split_apply_documented(self, epoch):
    """PopulationSplit._apply with the dictionary keys the documentation describes (lineages of the DERIVED populations move to
    the ancestral one; nothing migrates into a derived population any more) - used only to decide whether a failing input fails
    BECAUSE of the recorded defect D4 (the source writes the transposed keys)"""
    if epoch.start_time <= self.start_time < epoch.end_time:
        for p in self.derived:
            epoch.migration_rates[(p, self.ancestral)] = epoch.pop_sizes[p] * self.multiplier
        for p in self.derived:
            for q in epoch.pop_names:
                epoch.migration_rates[(q, p)] = 0


def main():
    pl = json.load(sys.stdin)
    if pl.get('documented_split'):
        pg.PopulationSplit._apply = _split_apply_documented
    out = []
    for case in pl['cases']:
        r = {}
        try:
            h = build.capture()
            if case.get('via_coalescent'):
                coal = build.coalescent(case['spec'])
                d = coal.demography
                r['lineage_pops'] = list(coal.lineage_config.pop_names)
                r['lineage_counts'] = [int(x) for x in coal.lineage_config.lineages]
            else:
                d = build.demography(case['spec'])
            pops = list(d.pop_names)
            r['pops'] = pops
            eps = list(itertools.islice(d.epochs, case['n_epochs']))
            r['epochs'] = [dump_epoch(e, pops) for e in eps]
            r['lookup'] = [dump_epoch(d.get_epoch(t), pops) for t in case.get('lookup', [])]
            if case.get('lookup'):
                r['lookup_vec'] = [dump_epoch(e, pops) for e in d.get_epochs(case['lookup'])]
            r['warnings'] = h.kinds
        except Exception as e:
            r['error'] = type(e).__name__ + ': ' + str(e)[:300]
        out.append(r)
    print(json.dumps({'results': out}))


if __name__ == "__main__":
    main()
