"""Implementation side of the `invalid` stream (C20): outcome of requests inside / outside the documented domain."""
import json
import math
import sys
import warnings

import numpy as np

import build
import phasegen as pg


def outcome(fn):
    h = build.capture()
    try:
        with warnings.catch_warnings():
            warnings.simplefilter('ignore')
            v = fn()
    except NotImplementedError:
        return 'NotImpl'
    except ValueError:
        return 'ValueErr'
    except Exception as e:
        return 'Other:' + type(e).__name__
    vals = np.asarray(v, dtype=float).ravel() if v is not None else np.array([0.0])
    if np.isnan(vals).any():
        return 'nan+log' if any(k in ('nan', 'horizon', 'numerical') for k in h.kinds) else 'nan-silent'
    return 'Ok'


def d1(size=1.0):
    return pg.Demography(pop_sizes={'pop_0': size})


def d2(sa=1.0, sb=1.0, m=1.0):
    return pg.Demography(pop_sizes={'a': sa, 'b': sb}, migration_rates={('a', 'b'): m, ('b', 'a'): 1.0})


def mk_model(kind):
    if kind == 'dirac':
        return pg.DiracCoalescent(psi=0.5, c=1.0)          # scale_time=True: time scale N**2
    if kind == 'beta':
        return pg.BetaCoalescent(alpha=1.5)                # scale_time=True: time scale ~ N**(alpha-1)
    return pg.StandardCoalescent()


def size_route(route, v, kind=None):
    C = lambda **kw: pg.Coalescent(model=mk_model(kind), **kw)
    if route == 'SScalar': return lambda: C(n=3, demography=pg.Demography(pop_sizes=v)).tree_height.mean
    if route == 'SFlatDict': return lambda: C(n=3, demography=pg.Demography(pop_sizes={'pop_0': v})).tree_height.mean
    if route == 'SNestedDict': return lambda: C(n=3, demography=pg.Demography(pop_sizes={'pop_0': {0: 1.0, 0.5: v}})).tree_height.mean
    if route == 'SPopSizeChange': return lambda: C(n=3, demography=pg.Demography(events=[pg.PopSizeChange('pop_0', 0.5, v)])).tree_height.mean
    if route == 'SPopSizeChanges': return lambda: C(n=3, demography=pg.Demography(events=[pg.PopSizeChanges({'pop_0': {0: v}})])).tree_height.mean
    if route == 'SDiscreteRateChanges': return lambda: C(n=3, demography=pg.Demography(events=[pg.DiscreteRateChanges(pop_sizes={'pop_0': {0.25: v}})])).tree_height.mean
    if route == 'SEpochToStateSpace':
        return lambda: pg.state_space.LineageCountingStateSpace(pg.LineageConfig(3), model=mk_model(kind), epoch=pg.Epoch(pop_sizes={'pop_0': v})).S
    if route == 'STrajectoryValue':
        return lambda: C(n=3, demography=pg.Demography(events=[pg.DiscretizedRateChange(trajectory=lambda t: v + 0 * t, start_time=0, pop='pop_0', step_size=0.5)]), end_time=2).tree_height.mean
    if route == 'SExponentialInitialSize':
        return lambda: C(n=3, demography=pg.Demography(events=[pg.ExponentialPopSizeChanges(initial_size={'pop_0': v}, growth_rate=0.5, start_time=0, step_size=0.5)]), end_time=2).tree_height.mean
    raise ValueError(route)


LATE = 400.0   # a change point far beyond the time by which all lineages have coalesced (the invalid value is never reached by the process)


def late_mig_route(route, v, only_events=False):
    C = pg.Coalescent
    n = {'a': 2, 'b': 1}
    base = dict(pop_sizes={'a': 1.0, 'b': 1.0})
    bad, good = {0: 0.5, LATE: v}, {0: 0.5}
    ev = {'MMigrationRateChange': lambda: [pg.MigrationRateChange('a', 'b', 0.0, 0.5), pg.MigrationRateChange('b', 'a', 0.0, 0.5), pg.MigrationRateChange('a', 'b', LATE, v)],
          'MMigrationRateChanges': lambda: [pg.MigrationRateChanges({('a', 'b'): bad, ('b', 'a'): good})],
          'MSymmetric': lambda: [pg.SymmetricMigrationRateChanges(['a', 'b'], bad)],
          'MDiscreteRateChanges': lambda: [pg.DiscreteRateChanges(migration_rates={('a', 'b'): bad, ('b', 'a'): good})]}
    if route == 'MNestedDict':
        return lambda: (C(n=n, demography=pg.Demography(**base, migration_rates={('a', 'b'): bad, ('b', 'a'): good})).tree_height.mean if not only_events
                        else (pg.Demography(migration_rates={('a', 'b'): bad, ('b', 'a'): good}), None)[1])
    if only_events:
        return lambda: (ev[route](), None)[1]           # the event object alone must already refuse the value
    return lambda: C(n=n, demography=pg.Demography(events=[pg.PopSizeChanges({'a': {0: 1}, 'b': {0: 1}})] + ev[route]())).tree_height.mean


def late_size_route(route, v):
    C = pg.Coalescent
    if route == 'SNestedDict': return lambda: C(n=3, demography=pg.Demography(pop_sizes={'pop_0': {0: 1.0, LATE: v}})).tree_height.mean
    if route == 'SPopSizeChange': return lambda: C(n=3, demography=pg.Demography(events=[pg.PopSizeChange('pop_0', LATE, v)])).tree_height.mean
    if route == 'SPopSizeChanges': return lambda: C(n=3, demography=pg.Demography(events=[pg.PopSizeChanges({'pop_0': {0: 1.0, LATE: v}})])).tree_height.mean
    if route == 'SDiscreteRateChanges': return lambda: C(n=3, demography=pg.Demography(events=[pg.DiscreteRateChanges(pop_sizes={'pop_0': {LATE: v}})])).tree_height.mean
    raise ValueError(route)


def mig_route(route, v):
    C = pg.Coalescent
    n = {'a': 2, 'b': 1}
    base = dict(pop_sizes={'a': 1.0, 'b': 1.0})
    if route == 'MFlatDict': return lambda: C(n=n, demography=pg.Demography(**base, migration_rates={('a', 'b'): v, ('b', 'a'): 1.0})).tree_height.mean
    if route == 'MNestedDict': return lambda: C(n=n, demography=pg.Demography(**base, migration_rates={('a', 'b'): {0: 1.0, 0.5: v}, ('b', 'a'): {0: 1.0}})).tree_height.mean
    if route == 'MMigrationRateChange': return lambda: C(n=n, demography=pg.Demography(**base, events=[pg.MigrationRateChange('a', 'b', 0.0, v), pg.MigrationRateChange('b', 'a', 0.0, 1.0)])).tree_height.mean
    if route == 'MMigrationRateChanges': return lambda: C(n=n, demography=pg.Demography(**base, events=[pg.MigrationRateChanges({('a', 'b'): {0: v}, ('b', 'a'): {0: 1.0}})])).tree_height.mean
    if route == 'MSymmetric': return lambda: C(n=n, demography=pg.Demography(**base, events=[pg.SymmetricMigrationRateChanges(['a', 'b'], v)])).tree_height.mean
    if route == 'MDiscreteRateChanges': return lambda: C(n=n, demography=pg.Demography(**base, events=[pg.DiscreteRateChanges(migration_rates={('a', 'b'): {0: v}, ('b', 'a'): {0: 1.0}})])).tree_height.mean
    if route == 'MEpochToStateSpace':
        return lambda: pg.state_space.LineageCountingStateSpace(pg.LineageConfig({'a': 2, 'b': 1}), epoch=pg.Epoch(pop_sizes={'a': 1, 'b': 1}, migration_rates={('a', 'b'): v, ('b', 'a'): 1.0})).S
    if route == 'MTrajectoryValue':
        return lambda: C(n=n, demography=pg.Demography(**base, migration_rates={('b', 'a'): 1.0}, events=[pg.DiscretizedRateChange(trajectory=lambda t: v + 0 * t, start_time=0, source='a', dest='b', step_size=0.5)]), end_time=2).tree_height.mean
    raise ValueError(route)


def rng_n(rq):
    return 2 if rq[4] == 'tree_height' else 3


def request(rq):
    t = rq[0]
    C = pg.Coalescent
    if t == 'RLocusConfigReal':
        # counts that are not Python ints (floats strictly between two integers, NumPy scalars): the same guards apply to the value given
        cv = lambda x: np.int64(x[1]) if isinstance(x, list) and x[0] == 'np' else x
        if len(rq) > 4 and rq[4] == 'statistic':
            return lambda: C(n=3, loci=pg.LocusConfig(n=cv(rq[1]), n_unlinked=cv(rq[2]), recombination_rate=rq[3])).tree_height.mean
        return lambda: (pg.LocusConfig(n=cv(rq[1]), n_unlinked=cv(rq[2]), recombination_rate=rq[3]), 0.0)[1]
    if t == 'RLocusConfig': return lambda: (pg.LocusConfig(n=rq[1], n_unlinked=rq[2], recombination_rate=rq[3]), 0.0)[1]
    if t == 'RRecombinationKeyword' and len(rq) > 2:
        # the LocusConfig object has ALREADY been used (validly) by another Coalescent, or its attribute is reassigned after use
        def f():
            lc = pg.LocusConfig(n=2)
            C(n=2, loci=lc, recombination_rate=0.5).tree_height.mean
            if rq[2] == 'reused_keyword':
                return C(n=3, loci=lc, recombination_rate=rq[1]).tree_height.mean
            lc.recombination_rate = rq[1]
            return C(n=3, loci=lc).tree_height.mean
        return f
    if t == 'RRecombinationKeyword': return lambda: C(n=2, loci=pg.LocusConfig(n=2), recombination_rate=rq[1]).tree_height.mean
    if t == 'RSfsTwoLoci': return lambda: C(n=3, loci=rq[1]).sfs.mean.data
    if t == 'RMultipleMergerLoci' and len(rq) > 3:
        mdl = {'dirac': lambda: pg.DiracCoalescent(psi=0.5, c=1.0), 'dirac_unscaled': lambda: pg.DiracCoalescent(psi=0.25, c=2.0, scale_time=False),
               'beta': lambda: pg.BetaCoalescent(alpha=1.25, scale_time=False)}[rq[3]]
        return lambda: getattr(C(n=rng_n(rq), loci=pg.LocusConfig(n=rq[2], recombination_rate=0.5) if rq[2] == 2 else 1, model=mdl()), rq[4]).mean
    if t == 'RMultipleMergerLoci':
        return lambda: C(n=3, loci=rq[2], model=pg.BetaCoalescent(alpha=1.5) if rq[1] else pg.StandardCoalescent()).tree_height.mean
    if t == 'RConstructTimes': return lambda: C(n=3, start_time=rq[1], end_time=rq[2]).tree_height.mean
    if t == 'RCdfTime': return lambda: C(n=3).tree_height.cdf(np.array([rq[1], 1.0]))
    if t == 'RAccumulateTime': return lambda: C(n=3).tree_height.accumulate(1, [1.0, rq[1]])
    if t == 'RMomentEndTime': return lambda: C(n=3).tree_height.moment(1, end_time=rq[1])
    if t == 'RPopSize' and len(rq) > 3 and rq[3] == 'late': return late_size_route(rq[1], rq[2])
    if t == 'RPopSize': return size_route(rq[1], rq[2], rq[3] if len(rq) > 3 else None)
    if t == 'RMigrationRate' and len(rq) > 3: return late_mig_route(rq[1], rq[2], only_events=(rq[3] == 'late_object'))
    if t == 'RMigrationRate': return mig_route(rq[1], rq[2])
    if t == 'RBetaAlpha': return lambda: C(n=3, model=pg.BetaCoalescent(alpha=rq[1], scale_time=False)).tree_height.moment(1, end_time=2.0)
    if t == 'RDiracPsi': return lambda: C(n=3, model=pg.DiracCoalescent(psi=rq[1], c=1.0)).tree_height.moment(1, end_time=2.0)
    if t == 'RRewardCount':
        return lambda: C(n=3).tree_height.accumulate(rq[1], [1.0], rewards=tuple([pg.rewards.TreeHeightReward()] * rq[2]))
    if t == 'RMutationConfig':
        dem = pg.Demography(pop_sizes={'pop_0': {0: 1.0, 1.0: 2.0}}) if rq[4] > 1 else None
        return lambda: C(n=rq[2] + 1, demography=dem).sfs.get_mutation_config([1] + [0] * (rq[1] - 1) if rq[1] > 0 else [], rq[3])
    if t == 'RQuantile': return lambda: C(n=3).tree_height.quantile(rq[1])
    raise ValueError(t)


def main():
    pl = json.load(sys.stdin)
    out = []
    for rq in pl['requests']:
        out.append(outcome(request(rq)))
    # NaN is never silent: extreme configurations
    nanout = []
    for spec in pl.get('extreme', []):
        def f(spec=spec):
            c = pg.Coalescent(n=spec['n'], demography=pg.Demography(pop_sizes=spec['sizes'], migration_rates={('pop_0', 'pop_1'): {0: spec['m']}, ('pop_1', 'pop_0'): {0: spec['m']}}))
            return [c.tree_height.mean, c.total_branch_length.var, float(c.tree_height.cdf(1.0))]
        nanout.append(outcome(f))
    print(json.dumps({'outcomes': out, 'extreme': nanout}))


if __name__ == '__main__':
    main()
