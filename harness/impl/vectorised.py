"""Implementation side of the `vectorised` stream (C07): vectorised vs pointwise evaluation."""
import json
import sys

import numpy as np

import build
import phasegen as pg


def as_container(ts, kind):
    if kind == 'list':
        return list(ts)
    if kind == 'tuple':
        return tuple(ts)
    return np.array(ts, dtype=float)


def epoch_repr(e):
    return [float(e.start_time), float(e.end_time), sorted([k, float(v)] for k, v in e.pop_sizes.items()),
            sorted([f'{p}>{q}', float(v)] for (p, q), v in e.migration_rates.items())]


def main():
    pl = json.load(sys.stdin)
    out = []
    for case in pl['cases']:
        r = {}
        try:
            spec = case['spec']
            ts = case['ts']
            cont = as_container(ts, case['container'])
            ep = case['entry']
            fresh = lambda: build.coalescent(spec)
            if ep == 'cdf':
                obj = fresh()
                r['vec'] = [float(x) for x in obj.tree_height.cdf(cont)]
                r['vec2'] = [float(x) for x in obj.tree_height.cdf(as_container(ts[1:] + ts[:1], case['container']))]
                r['pt'] = [float(fresh().tree_height.cdf(t)) for t in ts]
            elif ep == 'pdf':
                c = fresh()
                dx = 2.0 ** -10
                r['vec'] = [float(x) for x in c.tree_height.pdf(cont, dx=dx)]
                r['pt'] = [float(fresh().tree_height.pdf(t, dx=dx)) for t in ts]
            elif ep in ('acc1', 'acc2', 'tbl1'):
                k = 2 if ep == 'acc2' else 1
                dist = (lambda c: c.total_branch_length) if ep == 'tbl1' else (lambda c: c.tree_height)
                obj = dist(fresh())
                r['vec'] = [float(x) for x in obj.accumulate(k, cont)]
                r['pt'] = [float(dist(fresh()).accumulate(k, [t])[0]) for t in ts]
                # the SAME times in another order asked of the SAME object afterwards (rotated by one position)
                r['vec2'] = [float(x) for x in obj.accumulate(k, as_container(ts[1:] + ts[:1], case['container']))]
            elif ep == 'deme1':
                # marginal distribution of one population (its accumulated reward may sit on an exact plateau and rise later)
                from numeric import get_attr
                obj = get_attr(fresh(), case['dist_path'])
                r['vec'] = [float(x) for x in obj.accumulate(1, cont)]
                r['pt'] = [float(get_attr(fresh(), case['dist_path']).accumulate(1, [t])[0]) for t in ts]
                r['vec2'] = [float(x) for x in obj.accumulate(1, as_container(ts[1:] + ts[:1], case['container']))]
            elif ep == 'sfs1':
                obj = fresh()
                v = obj.sfs.accumulate(1, cont)
                r['vec'] = [[float(x) for x in row] for row in np.array(v).T]
                r['vec2'] = [[float(x) for x in row] for row in np.array(obj.sfs.accumulate(1, as_container(ts[1:] + ts[:1], case['container']))).T]
                r['pt'] = [[float(x) for x in np.array(fresh().sfs.accumulate(1, [t]))[:, 0]] for t in ts]
            elif ep == 'epochs':
                d = fresh().demography
                r['vec'] = [epoch_repr(e) for e in d.get_epochs(cont)]
                r['pt'] = [epoch_repr(fresh().demography.get_epoch(t)) for t in ts]
                # the SAME demography object after single lookups that end in late and early epochs: a batch in another order
                for t in sorted(ts):
                    d.get_epoch(t)
                r['vec2'] = [epoch_repr(e) for e in d.get_epochs(as_container(ts[1:] + ts[:1], case['container']))]
                d.get_epoch(max(ts) + 1.0)
                r['vec3'] = [epoch_repr(e) for e in d.get_epochs(as_container(sorted(ts, reverse=True), case['container']))]
            r['numpy_inv'] = [int(i) for i in np.argsort(np.argsort(np.array(ts, dtype=float), kind='stable'))]
            r['numpy_sorted'] = [float(x) for x in np.sort(np.array(ts, dtype=float))]
        except Exception as e:
            r['error'] = type(e).__name__ + ': ' + str(e)[:200]
        out.append(r)
    print(json.dumps({'results': out}))


main()
