"""Implementation side of the `serial` stream (C18)."""
import json
import os
import sys
import tempfile
import warnings

import numpy as np

import build
import phasegen as pg
from demography import dump_epoch
import itertools


def config_of(c):
    d = c.demography
    pops = list(d.pop_names)
    m = c.model
    return {'lineages': {k: int(v) for k, v in c.lineage_config.lineage_dict.items()},
            'model': [m.__class__.__name__] + [float(getattr(m, a)) for a in ('alpha', 'psi', 'c') if hasattr(m, a)] +
                     [bool(getattr(m, 'scale_time', True))],
            'loci': [int(c.locus_config.n), int(c.locus_config.n_unlinked), float(c.locus_config.recombination_rate)],
            'times': [float(c.start_time), None if c.end_time is None else float(c.end_time)],
            'regularize': bool(c.regularize), 'parallelize': bool(c.parallelize),
            'epochs': [dump_epoch(e, pops) for e in itertools.islice(d.epochs, 8)]}


def stats_of(c, two_loci):
    out = {'th.mean': c.tree_height.mean, 'th.var': c.tree_height.var, 'tbl.mean': c.total_branch_length.mean,
           'cdf': c.tree_height.cdf(np.array([0.5, 1.0, 2.0])).tolist(), 'q50': c.tree_height.quantile(0.5)}
    if not two_loci:
        out['sfs.mean'] = c.sfs.mean.data.tolist()
        out['sfs.cov'] = c.sfs.cov.data.tolist()
    else:
        out['loci.cov'] = np.array(c.tree_height.loci.cov).tolist()
    return out


def cache_state(c):
    out = {}
    for name in ('lineage_counting_state_space', 'block_counting_state_space'):
        if name in c.__dict__:
            ss = c.__dict__[name]
            out[name] = [len(ss._cache), 'S' in ss.__dict__, 'states' in ss.__dict__]
    out['keys'] = sorted(k for k in c.__dict__ if not k.startswith('_'))
    return out


def main():
    pl = json.load(sys.stdin)
    out = []
    for case in pl['cases']:
        r = {'failures': []}
        try:
            with warnings.catch_warnings():
                warnings.simplefilter('ignore')
                spec = case['spec']
                two = spec.get('loci') == 2
                # (a) save before anything was computed
                c = build.coalescent(spec)
                cfg0 = config_of(c)
                j = c.to_json()
                c2 = pg.Coalescent.from_json(j)
                if config_of(c2) != cfg0:
                    r['failures'].append({'what': 'configuration changed by a save/load cycle (before computing)', 'before': cfg0, 'after': config_of(c2)})
                ref = stats_of(build.coalescent(spec), two)
                if stats_of(c2, two) != ref:
                    r['failures'].append({'what': 'statistics of the loaded object differ (saved before computing)'})
                # (b) save after computing
                c = build.coalescent(spec)
                s0 = stats_of(c, two)
                before = cache_state(c)
                j = c.to_json()
                if cache_state(c) != before or config_of(c) != cfg0 or stats_of(c, two) != s0:
                    r['failures'].append({'what': 'saving altered the original object', 'before': before, 'after': cache_state(c)})
                c3 = pg.Coalescent.from_json(j)
                if config_of(c3) != cfg0:
                    r['failures'].append({'what': 'configuration changed by a save/load cycle (after computing)'})
                if stats_of(c3, two) != s0:
                    r['failures'].append({'what': 'statistics of the loaded object differ (saved after computing)'})
                # (c) file round trip, repeated
                with tempfile.TemporaryDirectory() as d:
                    f = os.path.join(d, 'c.json')
                    c3.to_file(f)
                    c4 = pg.Coalescent.from_file(f)
                    c4.to_file(f)
                    c5 = pg.Coalescent.from_file(f)
                if config_of(c5) != cfg0 or stats_of(c5, two) != s0:
                    r['failures'].append({'what': 'repeated file save/load cycles changed configuration or statistics'})
                r['json_len'] = len(j)
        except Exception as e:
            import traceback
            r['error'] = type(e).__name__ + ': ' + str(e)[:300] + traceback.format_exc()[-800:]
        out.append(r)
    # Inference and SFS2 (once per process)
    extra = {'failures': []}
    if pl.get('extras'):
        try:
            with warnings.catch_warnings():
                warnings.simplefilter('ignore')
                inf = pg.Inference(bounds={'N': (0.5, 4)}, coal=lambda N: pg.Coalescent(n=3, demography=pg.Demography(pop_sizes=N), parallelize=False),
                                   loss=lambda c, o: (c.tree_height.mean - o) ** 2, observation=2.0, x0={'N': 1.0}, n_runs=2,
                                   parallelize=False, pbar=False, seed=3)
                j0 = inf.to_json()
                i0 = pg.Inference.from_json(j0)
                if i0.bounds != inf.bounds or i0.n_runs != inf.n_runs or i0.seed != inf.seed or i0._x0 != inf._x0:
                    extra['failures'].append({'what': 'Inference configuration changed by save/load before running'})
                inf.run()
                j1 = inf.to_json()
                i1 = pg.Inference.from_json(j1)
                same = ({k: float(v) for k, v in i1.params_inferred.items()} == {k: float(v) for k, v in inf.params_inferred.items()}
                        and float(i1.loss_inferred) == float(inf.loss_inferred) and list(map(float, i1.loss_runs)) == list(map(float, inf.loss_runs))
                        and i1.dist_inferred.tree_height.mean == inf.dist_inferred.tree_height.mean
                        and i1.loss(i1.dist_inferred, i1.observation) == inf.loss(inf.dist_inferred, inf.observation))
                if not same:
                    extra['failures'].append({'what': 'Inference results changed by save/load after running'})
                i0.run()
                if float(i0.loss_inferred) != float(inf.loss_inferred):
                    extra['failures'].append({'what': 'Inference loaded before running gives a different result', 'a': float(i0.loss_inferred), 'b': float(inf.loss_inferred)})
                # start values drawn from the seeded generator (x0=None) must survive the round trip
                def mk():
                    return pg.Inference(bounds={'N': (0.5, 4)}, coal=lambda N: pg.Coalescent(n=3, demography=pg.Demography(pop_sizes=N), parallelize=False),
                                        loss=lambda c, o: (c.tree_height.mean - o) ** 2, observation=2.0, n_runs=2,
                                        parallelize=False, pbar=False, seed=7)
                i2 = mk()
                x0 = dict(i2.x0)
                l2 = pg.Inference.from_json(i2.to_json())
                if dict(l2.x0) != x0:
                    extra['failures'].append({'what': 'sampled start values differ after save/load', 'original': x0, 'loaded': dict(l2.x0)})
                i2.run(); l2.run()
                if list(map(float, l2.loss_runs)) != list(map(float, i2.loss_runs)) or \
                        {k: float(v) for k, v in l2.params_inferred.items()} != {k: float(v) for k, v in i2.params_inferred.items()}:
                    extra['failures'].append({'what': 'Inference saved before running (sampled start values) gives a different result after loading',
                                              'original': list(map(float, i2.loss_runs)), 'loaded': list(map(float, l2.loss_runs))})
                i3 = mk(); i3.run()
                l3 = pg.Inference.from_json(i3.to_json())
                if dict(l3.x0) != dict(i3.x0):
                    extra['failures'].append({'what': 'start values of a finished run differ after save/load'})
                # REPEATED save/load cycles of an Inference that has run (two-epoch model, SFS loss on the block-counting space,
                # one bootstrap): results unchanged after every cycle, the loaded object still usable, the original not altered
                def coal2(N0):
                    return pg.Coalescent(n=4, demography=pg.Demography(pop_sizes={'pop_0': {0: N0, 0.5: 1.0}}), parallelize=False)
                obs2 = [float(x) * 100 for x in coal2(2.0).sfs.mean.data]

                def loss2(c, o):
                    n_ = len(o)
                    return float(pg.PoissonLikelihood().compute(observed=np.asarray(o)[1:n_ - 1], modelled=100 * c.sfs.mean.data[1:n_ - 1]))
                i4 = pg.Inference(bounds={'N0': (0.25, 8.0)}, coal=coal2, loss=loss2, observation=obs2, n_runs=2, parallelize=False, pbar=False,
                                  seed=3, resample=lambda o, rng: [float(x) for x in np.asarray(o) * (1 + 0.01 * rng.standard_normal(len(o)))])
                i4.run()
                b4 = i4.create_bootstrap(); b4.run(); i4.add_bootstrap(b4)
                n_cache = len(i4._block_counting_state_space._cache)
                cur = i4
                for cyc in range(3):
                    try:
                        cur = pg.Inference.from_json(cur.to_json())
                        ok = ({k: float(v) for k, v in cur.params_inferred.items()} == {k: float(v) for k, v in i4.params_inferred.items()}
                              and float(cur.loss_inferred) == float(i4.loss_inferred) and list(map(float, cur.loss_runs)) == list(map(float, i4.loss_runs))
                              and cur.bootstraps.values.tolist() == i4.bootstraps.values.tolist()
                              and abs(cur.get_coal(N0=1.5).tree_height.mean - coal2(1.5).tree_height.mean) < 1e-12)
                        if not ok:
                            extra['failures'].append({'what': f'Inference results changed by save/load cycle number {cyc + 1} after running'})
                            break
                    except Exception as e_:
                        extra['failures'].append({'what': f'save/load cycle number {cyc + 1} of an Inference that has run raised',
                                                  'error': type(e_).__name__ + ': ' + str(e_)[:200]})
                        break
                if len(i4._block_counting_state_space._cache) != n_cache:
                    extra['failures'].append({'what': 'saving an Inference altered the original object (shared state-space cache)'})
                for data in (np.array([[0.0, np.inf, 2.0], [3.0, -np.inf, np.nan], [6.0, 7.0, 8.5]]),
                             np.arange(9).reshape(3, 3)):
                    a0 = pg.SFS2(data)
                    b0 = pg.SFS2.from_json(a0.to_json())
                    with tempfile.TemporaryDirectory() as d:
                        f = os.path.join(d, 's.json')
                        a0.to_file(f)
                        c0 = pg.SFS2.from_file(f)
                    for nm, x in (('string', b0), ('file', c0)):
                        if not np.array_equal(np.asarray(a0.data, dtype=float), np.asarray(x.data, dtype=float), equal_nan=True):
                            extra['failures'].append({'what': f'2-SFS entries changed by a {nm} save/load cycle',
                                                      'original': np.asarray(a0.data, dtype=float).tolist(), 'loaded': np.asarray(x.data, dtype=float).tolist()})
                # a 2-SFS is saved, THEN edited in place / derived from (copy, fill_monomorphic), THEN the result is saved and loaded
                s0 = pg.SFS2(np.arange(25, dtype=float).reshape(5, 5) / 3)
                s0.to_json()
                t1 = s0.fill_monomorphic(-1.0)
                t2 = s0.copy(); t2.data[1, 2] = 99.0
                s0.data[2, 2] = -5.0
                for nm, x in (('derived by fill_monomorphic after a save', t1), ('copy edited after a save', t2), ('original edited in place after a save', s0)):
                    y = pg.SFS2.from_json(x.to_json())
                    if not np.array_equal(np.asarray(x.data, dtype=float), np.asarray(y.data, dtype=float), equal_nan=True):
                        extra['failures'].append({'what': f'2-SFS {nm}: save/load returns other entries',
                                                  'saved': np.asarray(x.data, dtype=float).tolist(), 'loaded': np.asarray(y.data, dtype=float).tolist()})
                a = pg.SFS2(np.arange(16, dtype=float).reshape(4, 4) / 7)
                b = pg.SFS2.from_json(a.to_json())
                if not np.array_equal(a.data, b.data):
                    extra['failures'].append({'what': '2-SFS changed by save/load'})
                with tempfile.TemporaryDirectory() as d:
                    f = os.path.join(d, 's.json')
                    a.to_file(f)
                    if not np.array_equal(pg.SFS2.from_file(f).data, a.data):
                        extra['failures'].append({'what': '2-SFS changed by file save/load'})
        except Exception as e:
            import traceback
            extra['error'] = type(e).__name__ + ': ' + str(e)[:300] + traceback.format_exc()[-800:]
    print(json.dumps({'results': out, 'extras': extra}))


if __name__ == '__main__':
    main()
