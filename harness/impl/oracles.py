"""Property oracles evaluated on the implementation (metamorphic relations stated by the properties).
payload: {'oracle': name, 'cases': [case...]}; output: {'results': [{'failures': [...], 'checks': n, 'warnings': [...]}]}"""
import copy
import itertools
import json
import math
import sys
import warnings

import numpy as np

import build
import phasegen as pg
from statespace import mk_reward


def rel(a, b, tol, floor=1e-12):
    return abs(a - b) <= tol * max(abs(a), abs(b)) + floor


def relv(a, b, tol, floor=1e-12):
    a, b = np.asarray(a, dtype=float).ravel(), np.asarray(b, dtype=float).ravel()
    return a.shape == b.shape and bool(np.all(np.abs(a - b) <= tol * np.maximum(np.abs(a), np.abs(b)) + floor))


def noisy(h):
    return any(k in ('horizon', 'numerical', 'nan') for k in h.kinds)


# ------------------------------------------------------------------------------------------ C08
def rename_spec(spec, mapping, order=None):
    """consistent renaming of populations and/or reordering of every input container"""
    s = copy.deepcopy(spec)
    mp = lambda p: mapping.get(p, p)
    mk = lambda k: '>'.join(mp(x) for x in k.split('>'))
    items = s['n_items']
    if order is not None:
        items = [items[i] for i in order]
    s['n_items'] = [[mp(p), c] for p, c in items]
    if s.get('pop_sizes'):
        keys = list(s['pop_sizes'].keys())
        if order is not None:
            keys = list(reversed(keys))
        s['pop_sizes'] = {mp(p): s['pop_sizes'][p] for p in keys}
    if s.get('migration_rates'):
        keys = list(s['migration_rates'].keys())
        if order is not None:
            keys = list(reversed(keys))
        s['migration_rates'] = {mk(k): s['migration_rates'][k] for k in keys}
    for fld in ('events', 'added_events'):
        evs = []
        for e in s.get(fld) or []:
            e = dict(e)
            for k_ in ('pop', 'source', 'dest', 'ancestral'):
                if k_ in e:
                    e[k_] = mp(e[k_])
            if 'derived' in e:
                e['derived'] = mp(e['derived']) if isinstance(e['derived'], str) else [mp(x) for x in e['derived']]
            if 'pops' in e:
                e['pops'] = [mp(x) for x in e['pops']]
            if 'pop_sizes' in e and isinstance(e['pop_sizes'], dict):
                e['pop_sizes'] = {mp(p): v for p, v in e['pop_sizes'].items()}
            for k_ in ('rates', 'migration_rates'):
                if isinstance(e.get(k_), dict):
                    e[k_] = {mk(k): v for k, v in e[k_].items()}
            evs.append(e)
        if evs:
            s[fld] = evs
    return s


def stats_by_name(coal, pops, sfs=True, shared=None):
    out = {}
    if shared is not None:
        # reward objects built ONCE by the user and reused with several coalescents (different listing orders)
        for p in pops:
            if p not in shared:
                shared[p] = pg.TotalBranchLengthReward().prod(pg.DemeReward(p))
            out[f'moment1.shared_reward[{p}]'] = float(coal.moment(1, (shared[p],)))
        p0, p1 = pops[0], pops[-1]
        out[f'moment2.shared_reward[{p0},{p1}]'] = float(coal.moment(2, (shared[p0], shared[p1])))
    out['th.mean'] = coal.tree_height.mean
    out['th.var'] = coal.tree_height.var
    out['tbl.mean'] = coal.total_branch_length.mean
    for p in pops:
        out[f'th.demes[{p}].mean'] = coal.tree_height.demes[p].mean
        out[f'tbl.demes[{p}].mean'] = coal.total_branch_length.demes[p].mean
        out[f'th.demes[{p}].var'] = coal.tree_height.demes[p].var
    for p, q in itertools.product(pops, repeat=2):
        out[f'th.cov[{p},{q}]'] = coal.tree_height.demes.get_cov(p, q)
    # the covariance / correlation MATRICES across demes, read by the names of their axes (list(dist.demes)); NaN (a deme that is never
    # visited has no correlation) is compared as a sentinel
    names = list(coal.tree_height.demes)
    with np.errstate(all='ignore'):
        cm = np.array(coal.tree_height.demes.cov, dtype=float)
        try:
            rm = np.array(coal.tree_height.demes.corr, dtype=float)
        except ZeroDivisionError:
            # a deme that is never visited has standard deviation 0.0 (a Python float): the correlation is not defined and the library
            # raises; not a matter of naming - recorded as a sentinel so that every listing order / name must behave alike
            rm = np.full(cm.shape, -6.0)
    for (i, p), (j, q) in itertools.product(enumerate(names), repeat=2):
        if p in pops and q in pops:
            out[f'th.cov_matrix[{p},{q}]'] = float(np.nan_to_num(cm[j, i], nan=-7.0))
            out[f'th.corr_matrix[{p},{q}]'] = float(np.nan_to_num(rm[j, i], nan=-7.0, posinf=-8.0, neginf=-9.0))
    if not sfs:
        out['loci.cov'] = np.array(coal.tree_height.loci.cov).tolist()
        out['loci[0].mean'] = coal.tree_height.loci[0].mean
    if sfs:
        out['sfs.mean'] = coal.sfs.mean.data.tolist()
        for p in pops:
            out[f'sfs.demes[{p}].mean'] = coal.sfs.demes[p].mean.data.tolist()
        # the covariance matrices ACROSS DEMES of the spectrum (one vector of bins per pair of demes), read by the names of their axes
        for nm_, dd_ in (('sfs', coal.sfs), ('fsfs', coal.fsfs)):
            names_ = list(dd_.demes)
            cm_ = np.array(dd_.demes.cov, dtype=float)
            for (i, p), (j, q) in itertools.product(enumerate(names_), repeat=2):
                if p in pops and q in pops:
                    out[f'{nm_}.demes.cov_matrix[{p},{q}]'] = np.nan_to_num(cm_[j, i], nan=-7.0).tolist()
    return out


def oracle_naming(case):
    fails, n = [], 0
    spec = case['spec']
    pops = [p for p, _ in spec['n_items']]
    one_locus = spec.get('loci', 1) == 1
    shared = {} if one_locus else None
    base = stats_by_name(build.coalescent(spec), pops, sfs=one_locus, shared=shared)
    for p, q in itertools.product(pops, repeat=2):
        n += 1
        if not rel(base[f'th.cov_matrix[{p},{q}]'], base[f'th.cov[{p},{q}]'], 1e-9):
            fails.append({'what': 'entry of the covariance matrix across demes (axes named by list(dist.demes)) is not the covariance of the two named demes',
                          'pair': [p, q], 'matrix': base[f'th.cov_matrix[{p},{q}]'], 'get_cov': base[f'th.cov[{p},{q}]'], 'spec': spec})
            break
    variants = []
    for order in case['orders']:
        variants.append(('reordered', rename_spec(spec, {}, order), {p: p for p in pops}))
    for mapping in case['renamings']:
        variants.append(('renamed', rename_spec(spec, mapping), mapping))
    if case.get('drop_unsampled'):
        s = copy.deepcopy(spec)
        s['n_items'] = [[p, c] for p, c in s['n_items'] if c > 0]
        if len(s['n_items']) < len(spec['n_items']):
            variants.append(('unsampled population omitted', s, {p: p for p in pops}))
    for kind, s2, mapping in variants:
        got = stats_by_name(build.coalescent(s2), [mapping[p] for p in pops], sfs=one_locus, shared=shared)
        for k, v in base.items():
            k2 = k
            for p in pops:
                k2 = k2.replace(f'[{p}]', f'[@{p}@]').replace(f'[{p},', f'[@{p}@,').replace(f',{p}]', f',@{p}@]')
            for p in pops:
                k2 = k2.replace(f'@{p}@', mapping[p])
            n += 1
            if not relv(v, got[k2], 1e-9):
                fails.append({'what': f'{kind}: statistic attached to a population name changed', 'statistic': k,
                              'original': v, 'variant': got[k2], 'variant_spec': s2})
                break
    # ONE LineageConfig object (unsampled populations omitted) given to several Coalescents in turn - what a loop over demographies or an
    # Inference callback does: every one of them must give the values of the configuration that lists all populations
    if case.get('drop_unsampled') and any(c_ == 0 for _, c_ in spec['n_items']) and one_locus:
        lc_obj = pg.LineageConfig({p: c_ for p, c_ in spec['n_items'] if c_ > 0})
        for rep in range(3):
            co = build.coalescent(spec, n=lc_obj)
            x = [co.tree_height.mean, co.total_branch_length.mean] + [co.tree_height.demes[p].mean for p in pops]
            y = [base['th.mean'], base['tbl.mean']] + [base[f'th.demes[{p}].mean'] for p in pops]
            n += 1
            if not relv(x, y, 1e-9):
                fails.append({'what': f'one LineageConfig object (unsampled populations omitted) reused for Coalescent number {rep + 1}: statistics differ from those of the full listing',
                              'reused': x, 'full_listing': y, 'spec': spec})
                break
    # the object handed on as a copy (what a worker process or a saved file receives) after ONE statistic has been computed:
    # statistics not yet computed must still be attached to the right population names
    for kind, s2, mapping in [('original', spec, {p: p for p in pops})] + variants[:1]:
        for how in ('deepcopy', 'json'):
            c0 = build.coalescent(s2)
            _ = c0.tree_height.mean
            c1 = copy.deepcopy(c0) if how == 'deepcopy' else pg.Coalescent.from_json(c0.to_json())
            for p in pops:
                q = mapping[p]
                n += 1
                x = [c1.tree_height.demes[q].mean, c1.total_branch_length.demes[q].mean, c1.tree_height.var]
                y = [base[f'th.demes[{p}].mean'], base[f'tbl.demes[{p}].mean'], base['th.var']]
                if not relv(x, y, 1e-9):
                    fails.append({'what': f'{kind} configuration handed on by {how} after one statistic was computed: statistics of the copy are attached to other populations',
                                  'population': q, 'copy': x, 'original': y, 'spec': s2})
                    break
    return fails, n, base


# ------------------------------------------------------------------------------------------ C09
def scale_spec(spec, c):
    s = copy.deepcopy(spec)
    m = s.get('model') or {'kind': 'kingman'}
    if m['kind'] == 'kingman' or not m.get('scale_time', True):
        fN = c
    elif m['kind'] == 'dirac':
        fN = math.sqrt(c)
    else:
        fN = c ** (1.0 / (m['alpha'] - 1))
    s['pop_sizes'] = {p: {repr(float(t) * c): v * fN for t, v in d.items()} for p, d in s['pop_sizes'].items()}
    if s.get('migration_rates'):
        s['migration_rates'] = {k: {repr(float(t) * c): v / c for t, v in d.items()} for k, d in s['migration_rates'].items()}
    if s.get('recombination_rate'):
        s['recombination_rate'] = s['recombination_rate'] / c
    if s.get('end_time') is not None:
        s['end_time'] = s['end_time'] * c
    return s


def _exp_growth_coal(kind, fN, c, n=4):
    """exponentially growing population (discretised trajectory) whose growth started 2.05 base time units ago - deliberately off the
    discretisation grid - expressed in time units c times the base unit (sizes multiplied by fN so that the time scale is multiplied by c)"""
    model = {'kingman': lambda: pg.StandardCoalescent(), 'beta': lambda: pg.BetaCoalescent(alpha=1.5),
             'dirac': lambda: pg.DiracCoalescent(psi=0.5, c=1)}[kind]()
    return pg.Coalescent(n=n, model=model, parallelize=False, demography=pg.Demography(events=[
        pg.ExponentialPopSizeChanges(initial_size={'pop_0': 8 * fN}, growth_rate=0.5 / c, start_time=0, end_time=2.05 * c, step_size=0.1 * c)]))


def oracle_scaling_exp(case):
    """the rescaling law on a DISCRETISED demography (exponential growth): change times, step size and time scale times c, growth
    rate divided by c"""
    fails, n = [], 0
    kind, c = case['exp_growth'], case['c']
    fN = {'kingman': c, 'beta': c ** (1.0 / 0.5), 'dirac': math.sqrt(c)}[kind]
    h = build.capture()
    a, b = _exp_growth_coal(kind, 1.0, 1.0), _exp_growth_coal(kind, fN, c)
    ts = np.array([0.5, 1.0, 2.0, 4.0, 8.0])
    pairs = {'tree_height.mean': (a.tree_height.mean * c, b.tree_height.mean),
             'tree_height.var': (a.tree_height.var * c * c, b.tree_height.var),
             'total_branch_length.mean': (a.total_branch_length.mean * c, b.total_branch_length.mean),
             'total_branch_length.m2': (a.total_branch_length.m2 * c * c, b.total_branch_length.m2)}
    ca, cb = a.tree_height.cdf(ts), b.tree_height.cdf(ts * c)
    if noisy(h):
        return fails, 0, {'skipped': 'warning logged', 'warnings': h.kinds}
    for key, (x, y) in pairs.items():
        n += 1
        if not rel(x, y, 1e-9):
            fails.append({'what': 'discretised (exponential growth) demography: statistic does not scale with the time unit', 'statistic': key,
                          'model': kind, 'c': c, 'expected': x, 'rescaled': y})
    n += 1
    if not relv(ca, cb, 1e-9, 1e-12):
        fails.append({'what': 'discretised (exponential growth) demography: cdf(c t) of the rescaled model differs from cdf(t)', 'model': kind, 'c': c,
                      'original': ca.tolist(), 'rescaled': cb.tolist()})
    return fails, n, {'exp_growth': kind, 'c': c}


def oracle_scaling(case):
    if case.get('exp_growth'):
        return oracle_scaling_exp(case)
    fails, n = [], 0
    spec, c = case['spec'], case['c']
    h = build.capture()
    a = build.coalescent(spec)
    b = build.coalescent(scale_spec(spec, c))
    vals = {}
    for name, k in (('mean', 1), ('m2', 2), ('m3', 3)):
        for dist in ('tree_height', 'total_branch_length'):
            x = getattr(a, dist).moment(k, center=False)
            y = getattr(b, dist).moment(k, center=False)
            vals[f'{dist}.{name}'] = (x, y)
    va, vb = a.tree_height.var, b.tree_height.var
    q = a.tree_height.quantile(0.5)
    qb = b.tree_height.quantile(0.5)
    ts = np.array([0.25, 1.0, 3.0])
    ca, cb = a.tree_height.cdf(ts), b.tree_height.cdf(ts * c)
    if noisy(h):
        return fails, 0, {'skipped': 'warning logged', 'warnings': h.kinds}
    for key, (x, y) in vals.items():
        k = {'mean': 1, 'm2': 2, 'm3': 3}[key.split('.')[1]]
        n += 1
        if not rel(x * c ** k, y, 1e-9):
            fails.append({'what': f'moment of order {k} does not scale by c^{k}', 'statistic': key, 'c': c,
                          'original': x, 'rescaled': y, 'expected': x * c ** k})
    n += 3
    if not rel(va * c * c, vb, 1e-8):
        fails.append({'what': 'variance does not scale by c^2', 'c': c, 'original': va, 'rescaled': vb})
    if not rel(q * c, qb, 1e-4):
        fails.append({'what': 'quantile does not scale by c', 'c': c, 'original': q, 'rescaled': qb})
    if not relv(ca, cb, 0, 1e-9):
        fails.append({'what': 'cdf(c t) of the rescaled model differs from cdf(t)', 'c': c, 'original': ca.tolist(), 'rescaled': cb.tolist()})
    # the spectrum (block-counting representation: its merger rates carry the time scale on their own)
    if spec.get('loci', 1) == 1:
        h_s = build.capture()
        sa_, sb_ = np.array(a.sfs.mean.data, dtype=float), np.array(b.sfs.mean.data, dtype=float)
        va_, vb_ = np.array(a.sfs.var.data, dtype=float), np.array(b.sfs.var.data, dtype=float)
        if not noisy(h_s):
            n += 2
            if not relv(sa_ * c, sb_, 1e-9, 1e-300):
                fails.append({'what': 'expected spectrum does not scale by c', 'c': c, 'original': sa_.tolist(), 'rescaled': sb_.tolist()})
            if not relv(va_ * c * c, vb_, 1e-8, 1e-300):
                fails.append({'what': 'variances of the spectrum do not scale by c^2', 'c': c, 'original': va_.tolist(), 'rescaled': vb_.tolist()})
    # the same law on objects that were first asked for the distribution function beyond their last change point (the default
    # horizon of the moments is searched afterwards: it must be that of the whole demography, at every scale)
    bs_ = sorted({float(t) for dd in (spec.get('pop_sizes') or {}).values() if isinstance(dd, dict) for t in dd} |
                 {float(t) for dd in (spec.get('migration_rates') or {}).values() if isinstance(dd, dict) for t in dd})
    if len(bs_) > 1 and spec.get('end_time') is None:
        a2, b2 = build.coalescent(spec), build.coalescent(scale_spec(spec, c))
        far = bs_[-1] * 1.5 + 1.0
        a2.tree_height.cdf(np.array([far]))
        b2.tree_height.cdf(np.array([far * c]))
        h2 = build.capture()
        for dist in ('tree_height', 'total_branch_length'):
            x2, y2 = getattr(a2, dist).moment(1, center=False), getattr(b2, dist).moment(1, center=False)
            if noisy(h2):
                break
            n += 1
            x, y = vals[f'{dist}.mean']
            if not (rel(x2 * c, y2, 1e-9) and rel(x2, x, 1e-9) and rel(y2, y, 1e-9)):
                fails.append({'what': 'mean asked after the distribution function beyond the last change point: scaling law / value of a fresh object broken',
                              'statistic': dist, 'c': c, 'original_after_cdf': x2, 'rescaled_after_cdf': y2, 'original_fresh': x, 'rescaled_fresh': y})
    if case.get('regularize_check'):
        r0 = build.coalescent(spec, regularize=False)
        for dist in ('tree_height', 'total_branch_length'):
            for k in (1, 2):
                n += 1
                x, y = getattr(a, dist).moment(k, center=False), getattr(r0, dist).moment(k, center=False)
                # the property claims "changes nothing" in the moderate-scale regime only (all sizes within [1/8, 8]): 1e-9 there;
                # outside it (epoch-contrast cases) the two must still agree to 1e-6 - a factor carried over between epochs is O(1)
                sizes_ = [float(v) for dd in spec['pop_sizes'].values() for v in (dd.values() if isinstance(dd, dict) else [dd])]
                tol_ = 1e-9 if (min(sizes_) >= 0.125 and max(sizes_) <= 8.0) else 1e-6
                if not rel(x, y, tol_):
                    fails.append({'what': 'switching the regularisation off changes a moment', 'statistic': f'{dist} k={k}',
                                  'regularized': x, 'unregularized': y})
    return fails, n, {k: v[0] for k, v in vals.items()}


# ------------------------------------------------------------------------------------------ C10
def refine_spec(spec, extra_times):
    """insert redundant change points: a change to the value already in force"""
    s = copy.deepcopy(spec)
    for key in ('pop_sizes', 'migration_rates'):
        if not s.get(key):
            continue
        for p, d in s[key].items():
            pts = sorted((float(t), v) for t, v in d.items())
            for t in extra_times:
                prev = [v for tt, v in pts if tt <= t]
                if prev and all(abs(tt - t) > 0 for tt, _ in pts):
                    d[repr(float(t))] = prev[-1]
    return s


def oracle_accumulation(case):
    fails, n = [], 0
    spec = case['spec']
    h = build.capture()
    a = build.coalescent(spec)
    b = build.coalescent(refine_spec(spec, case['extra_times']))
    ts = case['ts']
    for dist in ('tree_height', 'total_branch_length'):
        for k in (1, 2):
            n += 1
            x = getattr(a, dist).accumulate(k, ts, center=False)
            y = getattr(b, dist).accumulate(k, ts, center=False)
            if not relv(x, y, 1e-9):
                fails.append({'what': 'inserting redundant change points changes an accumulation curve',
                              'dist': dist, 'k': k, 'original': x.tolist(), 'refined': y.tolist()})
            # finer grid
            fine = sorted(set(ts) | set(case['extra_times']))
            z = getattr(a, dist).accumulate(k, fine, center=False)
            zz = [z[fine.index(t)] for t in ts]
            n += 1
            if not relv(x, zz, 1e-9):
                fails.append({'what': 'evaluating on a finer grid changes a value', 'dist': dist, 'k': k,
                              'coarse': x.tolist(), 'fine': list(map(float, zz))})
            # raw curves of non-negative rewards are non-decreasing
            srt = np.array(sorted(ts))
            zs = getattr(a, dist).accumulate(k, srt, center=False)
            n += 1
            if np.any(np.diff(zs) < -1e-9 * np.maximum(1.0, np.abs(zs[1:]))):
                fails.append({'what': 'raw accumulation curve of a non-negative reward decreases', 'dist': dist, 'k': k,
                              'ts': srt.tolist(), 'curve': zs.tolist()})
    # a demography that is queried, then extended by add_event INSIDE an epoch that was already looked up, then used again:
    # the default horizon and the moments must be those of the demography built at once (one-population size change that
    # slows coalescence down, so a stale horizon truncates the moments)
    if spec.get('end_time') is None and not spec.get('start_time'):
        pops_ = [p for p, _ in spec['n_items']]
        p0 = pops_[0]
        bs_ = sorted({float(t) for dd in spec['pop_sizes'].values() for t in dd})
        t_new = bs_[-1] + 0.75
        first = build.coalescent(spec)
        _ = first.tree_height.mean, float(first.tree_height.cdf(t_new + 1.0))
        dem = first.demography
        dem.add_event(pg.PopSizeChange(pop=p0, time=t_new, size=32.0))
        second = pg.Coalescent(n=first.lineage_config.lineage_dict, model=first.model, demography=dem, parallelize=False)
        ev = dict(type='PopSizeChange', pop=p0, time=t_new, size=32.0)
        ref = build.coalescent(dict(spec, events=list(spec.get('events') or []) + [ev]))
        for dist in ('tree_height', 'total_branch_length'):
            n += 1
            x, y = getattr(second, dist).mean, getattr(ref, dist).mean
            if not rel(x, y, 1e-9):
                fails.append({'what': 'a demography extended by add_event after it had been queried gives another mean than the same demography built at once',
                              'dist': dist, 'after_add_event': x, 'built_at_once': y, 'event': ev,
                              't_max_after_add_event': float(second.tree_height.t_max), 't_max_built_at_once': float(ref.tree_height.t_max)})
    # the rates in force from time 0 are changed AFTER a query that ended inside the first epoch (same object, same
    # state space): the next windowed moment must be that of the demography now held
    if spec.get('end_time') is None and not spec.get('start_time'):
        p0 = spec['n_items'][0][0]
        obj = build.coalescent(spec)
        _ = obj.tree_height.moment(1, end_time=0.0625)
        s0 = float(next(iter(sorted(spec['pop_sizes'][p0].items(), key=lambda kv: float(kv[0]))))[1])
        obj.demography.add_event(pg.PopSizeChange(pop=p0, time=0, size=4.0 * s0))
        ev0 = dict(type='PopSizeChange', pop=p0, time=0.0, size=4.0 * s0)
        ref = build.coalescent(dict(spec, late_events=[ev0]))
        for dist in ('tree_height', 'total_branch_length'):
            n += 1
            x, y = getattr(obj, dist).moment(1, end_time=2.0), getattr(ref, dist).moment(1, end_time=2.0)
            if not rel(x, y, 1e-9):
                fails.append({'what': 'after a query, a change of the rates in force from time 0 is not honoured by the next windowed moment of the same object',
                              'dist': dist, 'same_object': x, 'fresh_object': y, 'event': ev0})
    # a tree-height distribution assembled by hand on a freshly made state space (which sits in the default epoch): the
    # FIRST windowed evaluation must already use the demography's own rates
    if spec.get('end_time') is None and not spec.get('start_time') and spec.get('loci', 1) == 1:
        own = build.coalescent(spec)
        hand = pg.distributions.TreeHeightDistribution(state_space=pg.state_space.LineageCountingStateSpace(lineage_config=own.lineage_config, locus_config=own.locus_config, model=own.model),
                                         demography=own.demography)
        n += 1
        x, y = hand.moment(1, end_time=2.0), own.tree_height.moment(1, end_time=2.0)
        if not rel(x, y, 1e-9):
            fails.append({'what': 'first windowed moment of a tree-height distribution assembled on a fresh state space differs from the Coalescent\'s own',
                          'hand_made': x, 'coalescent': y})
    # end-time routes
    T = case['T']
    for dist in ('tree_height', 'total_branch_length'):
        for k in (1, 2):
            obj = build.coalescent(dict(spec, end_time=T))
            v1 = getattr(obj, dist).moment(k, center=False)
            v2 = getattr(a, dist).moment(k, end_time=T, center=False)
            v3 = float(getattr(a, dist).accumulate(k, [T], center=False)[0])
            n += 1
            if not (rel(v1, v2, 1e-10) and rel(v2, v3, 1e-10)):
                fails.append({'what': 'end time given to the Coalescent, to the call, or as accumulation point disagree',
                              'dist': dist, 'k': k, 'T': T, 'on_object': v1, 'on_call': v2, 'accumulate': v3})
    # grid independence: every value of an evenly spaced grid (epoch boundaries on grid points) equals the value
    # obtained for that time alone
    for grid in case.get('grids', []):
        for dist in ('tree_height', 'total_branch_length'):
            g = getattr(a, dist).accumulate(1, grid, center=False)
            alone = [float(getattr(build.coalescent(spec), dist).accumulate(1, [t], center=False)[0]) for t in grid]
            n += 1
            if not relv(g, alone, 1e-9):
                fails.append({'what': 'a value on an evenly spaced grid differs from the value computed for that time alone',
                              'dist': dist, 'grid': grid, 'on_grid': np.asarray(g).tolist(), 'alone': alone})
    # additivity of first moments over adjacent windows
    for a_, b_ in [case['window']] + case.get('windows', []):
      for dist in ('tree_height', 'total_branch_length'):
        m0a = getattr(a, dist).moment(1, end_time=a_)
        mab = getattr(a, dist).moment(1, start_time=a_, end_time=b_) if a_ > 0 else getattr(a, dist).moment(1, end_time=b_) - m0a
        m0b = getattr(a, dist).moment(1, end_time=b_)
        n += 1
        if not rel(m0a + mab, m0b, 1e-9):
            fails.append({'what': 'first moments are not additive over adjacent windows', 'dist': dist, 'a': a_, 'b': b_,
                          'm[0,a]': m0a, 'm[a,b]': mab, 'm[0,b]': m0b})
    a_, b_ = case['window']
    for dist in ():
        m0a = getattr(a, dist).moment(1, end_time=a_)
        mab = getattr(a, dist).moment(1, start_time=a_, end_time=b_) if a_ > 0 else getattr(a, dist).moment(1, end_time=b_) - m0a
        m0b = getattr(a, dist).moment(1, end_time=b_)
        n += 1
        if not rel(m0a + mab, m0b, 1e-9):
            fails.append({'what': 'first moments are not additive over adjacent windows', 'dist': dist, 'a': a_, 'b': b_,
                          'm[0,a]': m0a, 'm[a,b]': mab, 'm[0,b]': m0b})
    # default horizon: infinite-horizon value, or a warning
    h2 = build.capture()
    c0 = build.coalescent({k: v for k, v in spec.items() if k != 'end_time'})
    mean_default = c0.tree_height.mean
    tmax = c0.tree_height.t_max
    p = float(c0.tree_height.cdf(tmax))
    far = c0.tree_height.moment(1, end_time=tmax * 64)
    n += 1
    warned = 'horizon' in h2.kinds
    if not warned and not (p >= 1 - 1e-12 and rel(mean_default, far, 1e-9)):
        fails.append({'what': 'default end time neither reaches the infinite-horizon value nor logs a warning',
                      't_max': tmax, 'cdf(t_max)': p, 'mean_default': mean_default, 'mean_64x_horizon': far, 'warnings': h2.kinds})
    # the same default on an object that was FIRST asked for time-dependent quantities reaching beyond its last change point (a moment
    # with an explicit end time, an accumulation curve, the distribution function): the default horizon is searched afterwards and must
    # be that of the whole demography, as for a fresh object
    bs3 = sorted({float(t) for dd in (spec.get('pop_sizes') or {}).values() if isinstance(dd, dict) for t in dd} |
                 {float(t) for dd in (spec.get('migration_rates') or {}).values() if isinstance(dd, dict) for t in dd})
    if len(bs3) > 1 and not warned:
        beyond = bs3[-1] * 1.5 + 1.0
        for how in ('moment', 'accumulate', 'cdf'):
            c3 = build.coalescent({k: v for k, v in spec.items() if k != 'end_time'})
            h3 = build.capture()
            if how == 'moment':
                c3.tree_height.moment(1, end_time=beyond)
            elif how == 'accumulate':
                c3.total_branch_length.accumulate(1, [beyond / 2, beyond])
            else:
                c3.tree_height.cdf(np.array([beyond]))
            m3, t3 = c3.tree_height.mean, c3.tree_height.t_max
            if 'horizon' in h3.kinds:
                continue
            n += 1
            if not (rel(m3, mean_default, 1e-9) and rel(t3, tmax, 1e-12)):
                fails.append({'what': f'default horizon / mean asked after a {how} query beyond the last change point differs from that of a fresh object',
                              'beyond': beyond, 'mean_after': m3, 'mean_fresh': mean_default, 't_max_after': t3, 't_max_fresh': tmax})
                break
    return fails, n, {'t_max': tmax, 'warned': warned}


# ------------------------------------------------------------------------------------------ C11 / C12
def oracle_identities(case):
    fails, n = [], 0
    spec = case['spec']
    h = build.capture()
    c = build.coalescent(spec)
    nn = c.lineage_config.n
    sfs = c.sfs.mean.data
    L, H = c.total_branch_length.mean, c.tree_height.mean
    if noisy(h):
        return fails, 0, {'skipped': h.kinds}
    n += 1
    if not rel(float(np.sum(sfs)), L, 1e-9):
        fails.append({'what': 'SFS bins do not sum to the total branch length', 'sum_sfs': float(np.sum(sfs)), 'L': L})
    n += 1
    w = float(np.sum(np.arange(nn + 1) * sfs))
    if not rel(w, nn * H, 1e-9):
        fails.append({'what': 'size-weighted SFS bins do not sum to n times the tree height', 'weighted': w, 'n*H': nn * H})
    f = c.fsfs.mean.data
    fold = np.zeros(nn + 1)
    for i in range(1, nn):
        j = min(i, nn - i)
        fold[j] += sfs[i]
    n += 1
    if not relv(f, fold, 1e-9):
        fails.append({'what': 'folded spectrum is not the fold of the unfolded one', 'fsfs': f.tolist(), 'fold': fold.tolist()})
    order = case.get('second_order_reads', 'cov')
    with warnings.catch_warnings():
        warnings.simplefilter('ignore')
        if order == 'corr_first':        # the identities must not depend on which cached property was read first
            c.sfs.corr, c.fsfs.corr
        elif order == 'touch':
            c.sfs.touch()
    for nm, d in (('sfs', c.sfs), ('fsfs', c.fsfs)):
        cov = d.cov.data
        n += 1
        if not rel(float(np.sum(cov)), c.total_branch_length.var, 1e-7, 1e-10):
            fails.append({'what': f'{nm}: SFS covariances do not sum to the variance of the total branch length',
                          'reads': order, 'sum_cov': float(np.sum(cov)), 'var_L': c.total_branch_length.var})
        n += 1
        if not relv(np.diag(cov), d.var.data, 1e-8, 1e-11):
            fails.append({'what': f'{nm}: diagonal of the SFS covariance matrix is not the SFS variance', 'reads': order,
                          'diag': np.diag(cov).tolist(), 'var': d.var.data.tolist()})
    # second order: the covariance matrix of the folded spectrum is the 2-SFS fold (SFS2.fold: bins i and n - i added on both axes) of the
    # covariance matrix of the unfolded one (covariance is bilinear), and folding / symmetrising keep what they should
    cu, cf = c.sfs.cov, c.fsfs.cov
    n += 1
    if not relv(cu.fold().data, cf.data, 1e-7, 1e-10):
        fails.append({'what': 'covariance matrix of the folded spectrum is not SFS2.fold of the covariance matrix of the unfolded spectrum',
                      'fold_of_cov': cu.fold().data.tolist(), 'fsfs_cov': cf.data.tolist()})
    n += 1
    if not (rel(float(np.sum(cu.fold().data)), float(np.sum(cu.data)), 1e-9, 1e-10) and relv(cu.symmetrize().data, cu.data, 1e-9, 1e-12)
            and relv(cf.fold().data, cf.data, 1e-12, 1e-14) and bool(cf.is_folded())):
        fails.append({'what': 'SFS2.fold does not keep the total / is not idempotent on a folded matrix, or symmetrize alters a symmetric matrix',
                      'sum_fold': float(np.sum(cu.fold().data)), 'sum': float(np.sum(cu.data))})
    # the size-weighted identity for orders 1 and 2 through ONE composite reward: the library has no scalar weights, so bin i is listed i
    # times in a SumReward (repeated components count with their multiplicity); sum_i i xi_i = n H, so its raw moments are n^k E[H^k]
    if 3 <= nn <= 6:
        R_ = pg.rewards
        wsum = R_.SumReward([R_.UnfoldedSFSReward(i) for i in range(1, nn) for _ in range(i)])
        for k in (1, 2):
            wv = c.moment(k, (wsum,) * k, center=False)
            hv = c.tree_height.moment(k, center=False)
            n += 1
            if not rel(wv, nn ** k * hv, 1e-8):
                fails.append({'what': f'raw moment of order {k} of SumReward(bin i listed i times) is not n^{k} times that of the tree height',
                              'weighted': wv, 'n^k*H^k': nn ** k * hv})
        psq = R_.ProductReward([R_.TotalBranchLengthReward(), R_.TotalBranchLengthReward()])
        n += 1
        # ProductReward([L, L]) is the pointwise square of the branch-length reward (a repeated factor is a power)
        ss_ = c.lineage_counting_state_space
        if not relv(np.asarray(psq._get(ss_), dtype=float), np.asarray(R_.TotalBranchLengthReward()._get(ss_), dtype=float) ** 2, 1e-12):
            fails.append({'what': 'ProductReward([L, L]) is not the pointwise square of the total-branch-length reward',
                          'product': np.asarray(psq._get(ss_), dtype=float).tolist()})
    # lineage-counting vs block-counting representation
    for k in (1, 2):
        for rw, lcv in ((pg.rewards.TreeHeightReward(), c.tree_height.moment(k, center=False)),
                        (pg.rewards.TotalBranchLengthReward(), c.total_branch_length.moment(k, center=False))):
            bc = c.moment(k, tuple([pg.rewards.ProductReward([pg.rewards.BlockCountingUnitReward(), rw])] * k), center=False)
            n += 1
            if not rel(bc, lcv, 1e-8):
                fails.append({'what': 'moment differs between the lineage-counting and block-counting representation',
                              'reward': rw.__class__.__name__, 'k': k, 'lineage_counting': lcv, 'block_counting': bc})
    return fails, n, {'sfs': sfs.tolist()}


def oracle_marginals(case):
    fails, n = [], 0
    spec = case['spec']
    h = build.capture()
    for ps in case.get('prelude', []):
        # another configuration (another model family, the same layout) whose marginals are read EARLIER in the same process
        pc = build.coalescent(ps)
        with warnings.catch_warnings():
            warnings.simplefilter('ignore')
            for p_ in pc.lineage_config.pop_names:
                pc.tree_height.demes[p_].mean
                if ps.get('loci', 1) == 1:
                    pc.sfs.demes[p_].mean
    c = build.coalescent(spec)
    pops = list(c.lineage_config.pop_names)
    dists = [('tree_height', c.tree_height), ('total_branch_length', c.total_branch_length)]
    if spec.get('loci') == 2 and case.get('loci_first'):
        # per-locus marginals are read BEFORE the per-population ones on the same object (the order of reading must not matter)
        n += locus_block(c, fails)
    for name, d in dists:
        tot = d.mean
        parts = [d.demes[p].mean for p in pops]
        n += 1
        if not rel(sum(parts), tot, 1e-9):
            fails.append({'what': 'per-population means do not sum to the mean', 'dist': name, 'parts': parts, 'total': tot})
        cov = np.array(d.demes.cov)
        n += 1
        if not rel(float(cov.sum()), d.var, 1e-7, 1e-10):
            fails.append({'what': 'between-population covariances do not sum to the variance', 'dist': name,
                          'sum': float(cov.sum()), 'var': d.var})
        n += 1
        if not np.allclose(cov, cov.T, rtol=1e-9, atol=1e-10):
            fails.append({'what': 'marginal covariance matrix is not symmetric', 'dist': name, 'cov': cov.tolist()})
        ev = np.linalg.eigvalsh((cov + cov.T) / 2)
        n += 1
        if ev.min() < -1e-9 * max(1.0, abs(np.trace(cov))):
            fails.append({'what': 'marginal covariance matrix is not positive semi-definite', 'dist': name, 'eigenvalues': ev.tolist()})
        with warnings.catch_warnings():
            warnings.simplefilter('ignore')
            for p, q in itertools.product(pops, repeat=2):
                vp, vq = cov[pops.index(p), pops.index(p)], cov[pops.index(q), pops.index(q)]
                if vp > 1e-12 and vq > 1e-12:
                    r = d.demes.get_corr(p, q)
                    n += 1
                    if not (-1 - 1e-7 <= r <= 1 + 1e-7):
                        fails.append({'what': 'marginal correlation outside [-1, 1]', 'dist': name, 'pops': [p, q], 'corr': r})
    if spec.get('loci', 1) == 1:
        sm = c.sfs.mean.data
        parts = np.sum([c.sfs.demes[p].mean.data for p in pops], axis=0)
        n += 1
        if not relv(parts, sm, 1e-9):
            fails.append({'what': 'per-population SFS means do not sum to the SFS', 'parts': parts.tolist(), 'total': sm.tolist()})
    for p in case.get('unreachable', []):
        v = [c.tree_height.demes[p].mean, c.total_branch_length.demes[p].mean]
        n += 1
        if any(x != 0.0 for x in v):
            fails.append({'what': 'a population that can never hold a lineage contributes a non-zero amount', 'pop': p, 'values': v})
    if spec.get('loci') == 2 and not case.get('loci_first'):
        n += locus_block(c, fails)
    return fails, n, {}


def locus_block(c, fails):
    tot = c.total_branch_length.mean
    parts = [c.total_branch_length.loci[l].mean for l in (0, 1)]
    if not rel(sum(parts), tot, 1e-9):
        fails.append({'what': 'per-locus branch lengths do not sum to the total', 'parts': parts, 'total': tot})
    # the joint tree height is at least the height at each locus
    hs = [c.tree_height.loci[l].mean for l in (0, 1)]
    if c.tree_height.mean < max(hs) * (1 - 1e-9):
        fails.append({'what': 'tree height (max over loci) is below the height of one locus', 'loci': hs, 'joint': c.tree_height.mean})
    # the covariance MATRIX across loci: its entries are the pairwise covariances, its diagonal the per-locus variances, and for the
    # (additive) total branch length its entries sum to the variance
    cnt = 2
    for name, d in (('total_branch_length', c.total_branch_length), ('tree_height', c.tree_height)):
        cov = np.array(d.loci.cov, dtype=float)
        for i_, j_ in itertools.product((0, 1), repeat=2):
            cnt += 1
            if not rel(float(cov[j_, i_]), float(d.loci.get_cov(i_, j_)), 1e-8, 1e-10):
                fails.append({'what': 'entry of the covariance matrix across loci is not the covariance of the two loci', 'dist': name,
                              'loci': [i_, j_], 'matrix': float(cov[j_, i_]), 'get_cov': float(d.loci.get_cov(i_, j_))})
        for l in (0, 1):
            cnt += 1
            if not rel(float(cov[l, l]), float(d.loci[l].var), 1e-8, 1e-10):
                fails.append({'what': 'diagonal of the covariance matrix across loci is not the variance of the locus', 'dist': name,
                              'locus': l, 'matrix': float(cov[l, l]), 'var': float(d.loci[l].var)})
        if name == 'total_branch_length':
            cnt += 1
            if not rel(float(cov.sum()), float(d.var), 1e-7, 1e-10):
                fails.append({'what': 'between-locus covariances do not sum to the variance', 'dist': name, 'sum': float(cov.sum()), 'var': float(d.var)})
    return cnt


# ------------------------------------------------------------------------------------------ C13
def oracle_projection(case):
    fails, n = [], 0
    spec = case['spec']
    nn = case['n']
    def mk(k):
        s = copy.deepcopy(spec)
        s['n_items'] = [[spec['n_items'][0][0], k]]
        return build.coalescent(s)
    h = build.capture()
    a, b = mk(nn), mk(nn - 1)
    sa, sb = a.sfs.mean.data, b.sfs.mean.data
    if noisy(h) and spec.get('end_time') is None:
        # make both horizons identical so that truncation cancels
        T = max(a.tree_height.t_max, b.tree_height.t_max)
        s2 = dict(spec, end_time=T)
        return oracle_projection({'spec': s2, 'n': nn})
    if spec.get('end_time') is None:
        T = max(a.tree_height.t_max, b.tree_height.t_max)
        return oracle_projection({'spec': dict(spec, end_time=T), 'n': nn})
    proj = np.zeros(nn)
    for j in range(1, nn - 1 + 1):
        proj[j] = (nn - j) / nn * sa[j] + (j + 1) / nn * (sa[j + 1] if j + 1 <= nn - 1 else 0.0)
    n += 1
    if not relv(proj[1:nn - 1 + 0], sb[1:nn - 1 + 0], 1e-9):
        fails.append({'what': 'expected SFS of n-1 samples is not the hypergeometric down-projection of that of n samples',
                      'n': nn, 'projected': proj[1:nn - 1].tolist(), 'observed': sb[1:nn - 1].tolist()})
    # asymmetric history: the larger sample is first asked for a moment with an end time just beyond the first change (and one
    # beyond the last), THEN for its mean spectrum; the smaller one is fresh
    bs_ = sorted({float(t) for dd in (spec.get('pop_sizes') or {}).values() if isinstance(dd, dict) for t in dd} - {0.0})
    if bs_:
        a2 = mk(nn)
        for et in (bs_[0] * 1.25, bs_[-1] * 2.0 + 0.5):
            if et < float(spec['end_time']):
                a2.sfs.moment(1, end_time=et)
                a2.tree_height.moment(1, end_time=et)
        sa2 = a2.sfs.mean.data
        proj2 = np.zeros(nn)
        for j in range(1, nn):
            proj2[j] = (nn - j) / nn * sa2[j] + (j + 1) / nn * (sa2[j + 1] if j + 1 <= nn - 1 else 0.0)
        n += 2
        if not relv(proj2[1:nn - 1], sb[1:nn - 1], 1e-9):
            fails.append({'what': 'expected SFS of n-1 samples is not the down-projection of that of n samples when the larger sample was asked for windowed moments first',
                          'n': nn, 'projected': proj2[1:nn - 1].tolist(), 'observed': sb[1:nn - 1].tolist()})
        if a2.tree_height.mean < b.tree_height.mean * (1 - 1e-9) - 1e-12:
            fails.append({'what': 'expected tree height decreases when a sample is added (larger sample asked for windowed moments first)', 'n': nn,
                          'H(n-1)': b.tree_height.mean, 'H(n)': a2.tree_height.mean})
    n += 2
    if b.tree_height.mean > a.tree_height.mean * (1 + 1e-9) + 1e-12:
        fails.append({'what': 'expected tree height decreases when a sample is added', 'n': nn,
                      'H(n-1)': b.tree_height.mean, 'H(n)': a.tree_height.mean})
    if b.total_branch_length.mean > a.total_branch_length.mean * (1 + 1e-9) + 1e-12:
        fails.append({'what': 'expected total branch length decreases when a sample is added', 'n': nn,
                      'L(n-1)': b.total_branch_length.mean, 'L(n)': a.total_branch_length.mean})
    # the same statements for values obtained jointly for several end times (one accumulate call) and for a
    # window (start_time > 0): expectations are linear, so the projection holds for each of them
    T = float(spec['end_time'])
    times = [T / 4, T / 2, T]
    def proj_of(v):
        out = np.zeros(nn)
        for j in range(1, nn):
            out[j] = (nn - j) / nn * v[j] + (j + 1) / nn * (v[j + 1] if j + 1 <= nn - 1 else 0.0)
        return out[1:nn - 1]
    A, B = np.array(a.sfs.accumulate(1, times)), np.array(b.sfs.accumulate(1, times))
    HA, HB = np.array(a.tree_height.accumulate(1, times)), np.array(b.tree_height.accumulate(1, times))
    LA, LB = np.array(a.total_branch_length.accumulate(1, times)), np.array(b.total_branch_length.accumulate(1, times))
    for i, t in enumerate(times):
        n += 2
        if not relv(proj_of(A[:, i]), B[1:nn - 1, i], 1e-9):
            fails.append({'what': 'accumulate(1, several end times): expected SFS of n-1 samples is not the down-projection of n samples',
                          'n': nn, 'end_times': times, 'position': i, 'projected': proj_of(A[:, i]).tolist(), 'observed': B[1:nn - 1, i].tolist()})
            break
        if HB[i] > HA[i] * (1 + 1e-9) + 1e-12 or LB[i] > LA[i] * (1 + 1e-9) + 1e-12:
            fails.append({'what': 'accumulate(1, several end times): expected height or branch length decreases when a sample is added',
                          'n': nn, 'end_times': times, 'position': i, 'H(n-1)': float(HB[i]), 'H(n)': float(HA[i]), 'L(n-1)': float(LB[i]), 'L(n)': float(LA[i])})
            break
    def mkw(k):
        s = copy.deepcopy(spec)
        s['n_items'] = [[spec['n_items'][0][0], k]]
        s['start_time'] = T / 4
        return build.coalescent(s)
    wa, wb = mkw(nn), mkw(nn - 1)
    n += 1
    if not relv(proj_of(wa.sfs.mean.data), wb.sfs.mean.data[1:nn - 1], 1e-9):
        fails.append({'what': 'window (start_time > 0): expected SFS of n-1 samples is not the down-projection of n samples',
                      'n': nn, 'start_time': T / 4, 'projected': proj_of(wa.sfs.mean.data).tolist(), 'observed': wb.sfs.mean.data[1:nn - 1].tolist()})
    return fails, n, {'sfs_n': sa.tolist()}


# ------------------------------------------------------------------------------------------ C15
def oracle_routes(case):
    fails, n = [], 0
    spec = case['spec']
    R = pg.rewards
    c = build.coalescent(spec)
    d = c.tree_height
    checks = []
    checks.append(('var = m2 - mean^2', d.var, d.m2 - d.mean ** 2, 1e-8))
    checks.append(('std = sqrt(var)', d.std, math.sqrt(d.var), 1e-12))
    checks.append(('mean via moment', d.mean, d.moment(1), 0))
    checks.append(('m2 via moment', d.m2, d.moment(2, center=False), 0))
    checks.append(('Coalescent.moment default rewards', c.moment(1), d.mean, 1e-12))
    checks.append(('Coalescent.moment(2) default rewards', c.moment(2), d.var, 1e-12))
    checks.append(('Coalescent.moment explicit rewards', c.moment(2, (R.TreeHeightReward(), R.TreeHeightReward())), d.var, 1e-12))
    L = c.total_branch_length
    checks.append(('branch length via Coalescent.moment', c.moment(1, (R.TotalBranchLengthReward(),)), L.mean, 1e-12))
    # odd and even higher central moments of ONE repeated reward (default rewards, explicit identical rewards, equivalent but non-identical
    # reward tuples) against the binomial combination of the raw moments
    for nm, dd, rw in (('tree height', d, R.TreeHeightReward), ('total branch length', L, R.TotalBranchLengthReward)):
        m1_, m2_, m3_, m4_ = (dd.moment(k_, center=False) for k_ in (1, 2, 3, 4))
        c3 = m3_ - 3 * m1_ * m2_ + 2 * m1_ ** 3
        c4 = m4_ - 4 * m1_ * m3_ + 6 * m1_ ** 2 * m2_ - 3 * m1_ ** 4
        sc3, sc4 = max(abs(m3_), abs(m1_ * m2_), abs(m1_) ** 3), max(abs(m4_), abs(m1_ * m3_), m1_ ** 2 * abs(m2_), m1_ ** 4)
        checks.append((f'{nm}: third central moment moment(3) vs raw combination', dd.moment(3) / sc3, c3 / sc3, 1e-9))
        checks.append((f'{nm}: third central moment Coalescent.moment(3, (r, r, r)) vs raw combination', c.moment(3, (rw(), rw(), rw())) / sc3, c3 / sc3, 1e-9))
        checks.append((f'{nm}: third central moment with an equivalent reward tuple (r, r, r * unit)',
                       c.moment(3, (rw(), rw(), R.CombinedReward([rw(), R.UnitReward()]))) / sc3, c3 / sc3, 1e-9))
        checks.append((f'{nm}: fourth central moment moment(4) vs raw combination', dd.moment(4) / sc4, c4 / sc4, 1e-9))
    T = case['T']
    obj = build.coalescent(dict(spec, end_time=T))
    checks.append(('end time on object vs call', obj.tree_height.mean, d.moment(1, end_time=T), 1e-12))
    checks.append(('end time: Coalescent.moment', c.moment(1, end_time=T), d.moment(1, end_time=T), 1e-12))
    checks.append(('accumulate route', float(c.accumulate(1, [T])[0]), d.moment(1, end_time=T), 1e-12))
    # several end times given in an order that is neither ascending nor descending (a 3-cycle and its inverse: the permutation that sorts
    # is not its own inverse): entry i belongs to end time i
    for cyc in ([2 * T, T / 4, T], [T, 2 * T, T / 4], [T, T / 4, 3 * T, T / 2, 2 * T]):
        for k_, dd in ((1, d), (2, d), (1, L)):
            acc = np.asarray((c if dd is d else c.total_branch_length).accumulate(k_, cyc)).ravel()
            for g_, a_ in zip(cyc, acc):
                checks.append((f'accumulate(k={k_}, {"tree height" if dd is d else "total branch length"}) at the end times {cyc} (as given): entry of {g_} vs moment(end_time={g_})',
                               float(a_), dd.moment(k_, end_time=g_), 1e-10))
    # composite rewards whose component lists are PREFIXES of one another, asked of ONE Coalescent at increasing end times (nothing kept
    # from the shorter reward may be continued for the longer one): E[SumReward([H, L])] = E[H] + E[L], E[SumReward([H])] = E[H]
    c_seq = build.coalescent(spec)
    s1_, s2_ = R.SumReward([R.TreeHeightReward()]), R.SumReward([R.TreeHeightReward(), R.TotalBranchLengthReward()])
    v1_ = c_seq.moment(1, (s1_,), end_time=T)
    v2_ = c_seq.moment(1, (s2_,), end_time=2 * T + 0.5)
    v3_ = c_seq.moment(2, (s2_, s1_), end_time=3 * T + 1.0, center=False)
    checks.append(('SumReward([H]) at the end time T', v1_, d.moment(1, end_time=T), 1e-10))
    checks.append(('SumReward([H, L]) at a later end time on the same Coalescent (after SumReward([H]))', v2_,
                   d.moment(1, end_time=2 * T + 0.5) + L.moment(1, end_time=2 * T + 0.5), 1e-10))
    f3_ = build.coalescent(spec).moment(2, (s2_, s1_), end_time=3 * T + 1.0, center=False)
    checks.append(('second cross moment of SumReward([H, L]) and SumReward([H]) after both were used alone vs a fresh Coalescent', v3_, f3_, 1e-10))
    # an end time on the call overrides the one on the object, in both directions
    for T0 in (T / 2, 2 * T + 0.25):
        o0 = build.coalescent(dict(spec, end_time=T0))
        checks.append((f'call end time {T} on an object built with end time {T0}: Coalescent.moment', o0.moment(1, end_time=T), d.moment(1, end_time=T), 1e-12))
        checks.append((f'call end time {T} on an object built with end time {T0}: tree_height.moment(2)', o0.tree_height.moment(2, end_time=T), d.moment(2, end_time=T), 1e-10))
        checks.append((f'call end time {T} on an object built with end time {T0}: total_branch_length.moment', o0.total_branch_length.moment(1, end_time=T), L.moment(1, end_time=T), 1e-12))
    # one accumulate call on an evenly spaced grid with an epoch boundary ON a grid point vs one moment call per end time
    bs_ = sorted({float(t) for dd in (spec.get('pop_sizes') or {}).values() if isinstance(dd, dict) for t in dd} - {0.0})
    if bs_:
        b_ = bs_[0]
        grid = [b_ / 2, b_, 3 * b_ / 2, 2 * b_]
        for k_ in (1, 2):
            acc = np.asarray(c.accumulate(k_, grid)).ravel()
            for g_, a_ in zip(grid, acc):
                checks.append((f'accumulate(k={k_}) on the grid {grid} at {g_} vs moment(end_time={g_})', float(a_), d.moment(k_, end_time=g_), 1e-10))
    # two loci: the documented per-locus marginals are inspected FIRST, then lineage-count rewards are asked of the same object
    # (linearity: L3 = 2 H - TotH and L3 + L4 = H state by state for n = 2; same value as a fresh object)
    if case.get('two_locus_history'):
        mk2 = lambda: pg.Coalescent(n=2, loci=2, recombination_rate=case['two_locus_history'], parallelize=False)
        l3, l4 = R.LineageReward(3), R.LineageReward(4)
        fresh2, used2 = mk2(), mk2()
        _ = [used2.total_branch_length.loci[i].mean for i in range(2)], used2.total_branch_length.loci.cov, used2.tree_height.loci.cov
        h_, th_ = used2.moment(1, (R.TreeHeightReward(),)), used2.moment(1, (R.TotalTreeHeightReward(),))
        checks.append(('two loci: E[L3] after the per-locus marginals = 2 E[H] - E[TotH]', used2.moment(1, (l3,)), 2 * h_ - th_, 1e-9))
        checks.append(('two loci: E[L3 + L4] after the per-locus marginals = E[H]', used2.moment(1, (R.SumReward([l3, l4]),)), used2.tree_height.mean, 1e-9))
        checks.append(('two loci: E[L3] after the per-locus marginals vs a fresh object', used2.moment(1, (l3,)), fresh2.moment(1, (l3,)), 1e-12))
        checks.append(('two loci: Var[L3] after the per-locus marginals vs a fresh object', used2.moment(2, (l3, l3)), fresh2.moment(2, (l3, l3)), 1e-12))
    # the per-bin accumulation of the SFS distribution through its two documented routes (accumulate for all bins, get_accumulation for
    # one bin) with NON-DEFAULT center / permute: raw second moments accumulate to m2, centred ones to var, and both routes agree
    nt_ = c.lineage_config.n
    if nt_ <= 5 and not case.get('two_locus_history'):
        sf_ = c.sfs
        ts_ = [T, 2 * T + 0.5]
        for cen_, prm_ in ((False, True), (True, True), (False, False)):
            all_ = np.asarray(sf_.accumulate(2, ts_, center=cen_, permute=prm_))
            for i_ in range(1, nt_):
                one_ = np.asarray(sf_.get_accumulation(2, i_, ts_, center=cen_, permute=prm_)).ravel()
                for j_, t_ in enumerate(ts_):
                    checks.append((f'sfs.accumulate(2, {ts_}, center={cen_}, permute={prm_})[{i_}] at {t_} vs sfs.get_accumulation(2, {i_}, ..., center={cen_}, permute={prm_})',
                                   float(all_[i_][j_]), float(one_[j_]), 1e-10))
                    ri_ = R.UnfoldedSFSReward(i_)
                    checks.append((f'sfs.accumulate(2, {ts_}, center={cen_}, permute={prm_})[{i_}] at {t_} vs Coalescent.moment(2, (SFS_{i_}, SFS_{i_}), center={cen_})',
                                   float(all_[i_][j_]), c.moment(2, (ri_, ri_), end_time=t_, center=cen_), 1e-9))
    # reward tuples
    rs = [mk_reward(r) for r in case['rewards']]
    k = len(rs)
    raw = lambda tup: c.moment(len(tup), tuple(tup), center=False)
    cen = c.moment(k, tuple(rs), center=True)
    means = [raw([r]) for r in rs]
    if k == 2:
        exp = raw(rs) - means[0] * means[1]
    else:
        exp = (raw(rs) - means[0] * raw([rs[1], rs[2]]) - means[1] * raw([rs[0], rs[2]]) - means[2] * raw([rs[0], rs[1]])
               + 2 * means[0] * means[1] * means[2])
    scale = max(abs(raw(rs)), abs(np.prod(means)), 1e-12)
    checks.append((f'central moment of order {k} = combination of raw moments', cen, exp, ('abs', 1e-8 * scale)))
    # order 4 with REPEATED rewards (two distinct rewards, each twice, in several orders): central = inclusion-exclusion over
    # all index subsets of the raw joint moments (subsets with the same members but other multiplicities are different moments)
    import itertools
    a_, b_ = rs[0], rs[1]
    for tup4 in ((a_, a_, b_, b_), (a_, b_, a_, b_), (b_, b_, a_, a_), (a_, b_, b_, b_)):
        mu = [raw([r]) for r in tup4]
        exp4 = 0.0
        for m_ in range(0, 5):
            for S in itertools.combinations(range(4), m_):
                rest = [i for i in range(4) if i not in S]
                exp4 += (-1) ** len(rest) * (raw([tup4[i] for i in S]) if S else 1.0) * float(np.prod([mu[i] for i in rest]))
        sc4 = max(abs(raw(list(tup4))), abs(float(np.prod(mu))), 1e-12)
        checks.append(('central moment of order 4 with repeated rewards ' + ''.join('a' if r is a_ else 'b' for r in tup4) + ' = inclusion-exclusion of raw moments',
                       c.moment(4, tuple(tup4), center=True), exp4, ('abs', 1e-7 * sc4)))
    perm = list(reversed(rs))
    checks.append(('cross moment symmetric in its rewards', c.moment(k, tuple(perm), center=True), cen, ('abs', 1e-9 * scale)))
    # linearity of sums, products pointwise
    s12 = R.SumReward([rs[0], rs[1]])
    checks.append(('sum of rewards acts linearly', raw([s12]), means[0] + means[1], 1e-10))
    ss = c.lineage_counting_state_space if R.Reward.support(pg.state_space.LineageCountingStateSpace, rs) else c.block_counting_state_space
    pr = R.ProductReward([rs[0], rs[1]])
    checks.append(('product reward is the pointwise product', pr._get(ss).tolist(),
                   (np.asarray(rs[0]._get(ss)) * np.asarray(rs[1]._get(ss))).tolist(), 0))
    # a Sum and a Product of the SAME components asked one after the other on the same object (memo keys must differ)
    pv = raw([R.ProductReward([rs[0], rs[1]])])
    sv = raw([R.SumReward([rs[0], rs[1]])])
    fresh = build.coalescent(spec)
    checks.append(('sum after product of the same components (memoisation)', sv,
                   fresh.moment(1, (R.SumReward([mk_reward(case['rewards'][0]), mk_reward(case['rewards'][1])]),), center=False), 1e-12))
    checks.append(('sum of rewards acts linearly after the product was asked', sv, means[0] + means[1], 1e-10))
    checks.append(('product after sum of the same components (memoisation)', pv,
                   build.coalescent(spec).moment(1, (R.ProductReward([mk_reward(case['rewards'][0]), mk_reward(case['rewards'][1])]),), center=False), 1e-12))
    # composites that differ only in the MULTIPLICITY of an operand, asked on the same object after the plain ones
    s122 = raw([R.SumReward([rs[0], rs[1], rs[1]])])
    checks.append(('sum with a repeated operand acts linearly (asked after the plain sum)', s122, means[0] + 2 * means[1], 1e-10))
    p1 = raw([R.ProductReward([rs[1]])])
    p11 = raw([R.ProductReward([rs[1], rs[1]])])
    checks.append(('product with a single operand is the operand', p1, means[1], 1e-12))
    checks.append(('product with a repeated operand (asked after the single one) vs a fresh object', p11,
                   build.coalescent(spec).moment(1, (R.ProductReward([mk_reward(case['rewards'][1]), mk_reward(case['rewards'][1])]),), center=False), 1e-12))
    # memoisation keyed by reward equality: equal rewards built twice give the same number
    rs2 = [mk_reward(r) for r in case['rewards']]
    checks.append(('rewards that compare equal give the same value', c.moment(k, tuple(rs2), center=True), cen, 0))
    # ordered cross moments (permute=False): raw, centred, raw again on ONE object - the centred request must not
    # change what the raw request returns afterwards, and for k = 2 centred = raw - product of the means
    f = build.coalescent(spec)
    # one persistent distribution object on the state space the rewards need (what Coalescent.moment builds per call)
    fd = f.tree_height if R.Reward.support(pg.state_space.LineageCountingStateSpace, rs) else f._get_dist(k, rs)
    ordered = lambda center: float(np.asarray(fd.accumulate(k, [T], rewards=tuple(rs), center=center, permute=False)).ravel()[0])
    raw_before = ordered(False)
    cen_ord = ordered(True)
    raw_after = ordered(False)
    checks.append(('ordered raw moment unchanged by an intervening centred request (permute=False)', raw_after, raw_before, 0))
    mT = [float(np.asarray(fd.accumulate(1, [T], rewards=(r,), center=False)).ravel()[0]) for r in rs]
    if k == 2:
        checks.append(('ordered centred cross moment = ordered raw - product of means', cen_ord, raw_before - mT[0] * mT[1],
                       ('abs', 1e-9 * max(abs(raw_before), abs(mT[0] * mT[1]), 1e-12))))
    sym = float(np.asarray(fd.accumulate(k, [T], rewards=tuple(rs), center=False, permute=True)).ravel()[0])
    if k == 2:
        rev = float(np.asarray(fd.accumulate(2, [T], rewards=(rs[1], rs[0]), center=False, permute=False)).ravel()[0])
        checks.append(('symmetrised cross moment = average of the two ordered ones', sym, (raw_after + rev) / 2,
                       ('abs', 1e-10 * max(abs(sym), 1e-12))))
    for name, x, y, tol in checks:
        n += 1
        if isinstance(tol, tuple):
            ok = abs(x - y) <= tol[1]
        elif tol == 0:
            ok = (x == y) if not isinstance(x, list) else (x == y)
        else:
            ok = relv(x, y, tol)
        if not ok:
            fails.append({'what': 'route/algebra disagreement: ' + name, 'a': x, 'b': y})
    return fails, n, {}


# ------------------------------------------------------------------------------------------ C06 (shared configuration objects)
def oracle_shared_configs(case):
    """One LocusConfig / model / Demography object handed to several Coalescents in a row: each Coalescent must give what a
    Coalescent with freshly built configuration objects gives (configuration objects are inputs, not scratch space)"""
    fails, n = [], 0
    r, nu = case['r'], case['n_unlinked']

    def stats(c):
        cov = np.array(c.tree_height.loci.cov)
        return [c.tree_height.mean, c.tree_height.loci[0].mean, float(cov[0, 1]), float(cov[0, 0]), c.total_branch_length.loci[1].mean]
    shared = pg.LocusConfig(n=2, n_unlinked=nu, recombination_rate=r)
    for nn in case['sample_sizes']:
        a = stats(pg.Coalescent(n=nn, loci=shared, parallelize=False))
        b = stats(pg.Coalescent(n=nn, loci=pg.LocusConfig(n=2, n_unlinked=nu, recombination_rate=r), parallelize=False))
        n += 1
        if not relv(a, b, 1e-10):
            fails.append({'what': 'a LocusConfig object used for several Coalescents gives other two-locus statistics than a fresh LocusConfig',
                          'sample_size': nn, 'sample_sizes_in_order': case['sample_sizes'], 'shared': a, 'fresh': b})
    if (shared.n_unlinked, shared.recombination_rate) != (nu, r):
        fails.append({'what': 'a LocusConfig object was altered by the Coalescents it was given to',
                      'n_unlinked': shared.n_unlinked, 'recombination_rate': shared.recombination_rate, 'expected': [nu, r]})
    return fails, n, {}


ORACLES = {'naming': oracle_naming, 'scaling': oracle_scaling, 'accumulation': oracle_accumulation,
           'identities': oracle_identities, 'marginals': oracle_marginals, 'projection': oracle_projection,
           'routes': oracle_routes, 'shared_configs': oracle_shared_configs}


def main():
    pl = json.load(sys.stdin)
    fn = ORACLES[pl['oracle']]
    out = []
    for case in pl['cases']:
        try:
            with warnings.catch_warnings():
                warnings.simplefilter('ignore')
                fails, n, info = fn(case)
            out.append({'failures': fails, 'checks': n, 'info': info})
        except Exception as e:
            import traceback
            out.append({'failures': [], 'checks': 0, 'error': type(e).__name__ + ': ' + str(e)[:300],
                        'traceback': traceback.format_exc()[-1500:]})
    print(json.dumps({'results': out}, default=lambda o: o.tolist() if hasattr(o, 'tolist') else float(o)))


if __name__ == '__main__':
    main()
