"""C16 - mutation-configuration probabilities form the distribution implied by the tree."""
import random
from fractions import Fraction as Fr

import common as C
import gen
import space

HEADER = """From Coq Require Import ZArith QArith List.
From PG Require Import base.Ops base.Show model.CoalModels model.StateSpace model.Rewards model.Check
                       model.Matrix model.PhaseType model.Mutation model.MutationProb.
Import ListNotations.
Open Scope Q_scope.
"""


def run(res, replay=None):
    # structural tie of the argument guards at the entry points (their conditions, exception kinds and ORDER): translate the CURRENT source and re-check proofs/GenGuardsEquiv.v
    import translate_step; (res.proof is not None) and translate_step.run(res.proof, pid=res.pid, tie='guards')
    # pinned reading of the mutation-configuration code (_get_P, get_mutation_config core, get_mutation_configs, _get_configs, _unfold, _get_partitions): re-check the CURRENT source against it and proofs/GenMutationEquiv.v
    import translate_step; (res.proof is not None) and translate_step.run(res.proof, pid=res.pid, tie='mutation')
    # pinned reading of phasegen/utils.py (takewhile_inclusive / take_n, through which the configurations are consumed; parallelize): re-check the CURRENT source against it and proofs/GenUtilsEquiv.v
    import translate_step; (res.proof is not None) and translate_step.run(res.proof, pid=res.pid, tie='utils')
    rng = random.Random(res.seed)
    res.rule = ('mutation stream: single-epoch configurations (n<=4, thorough n<=5; 1-2 demes; three models; dyadic theta '
                'in {0, 1/16, 1/4, 1, 2}; plus Beta/Dirac with n = 5..7 in one deme); every unfolded configuration with <= 3 (thorough 4) mutations: probability '
                'compared with the exact-rational Gallina model (Gauss-Jordan inverse, distinct orderings) at 1e-9; '
                '_get_configs and _unfold compared exactly with the model; oracles on the implementation: non-negativity, '
                'running generated mass (iterator bookkeeping exact, non-decreasing, <= 1), empty configuration = Laplace '
                'transform of the branch length, folded = sum over unfoldings, expected counts = theta * E[SFS] when the '
                'generated mass is ~1; non-trivial = probability > 0; distinct = distinct (configuration spec, theta, config)')
    res.assumptions = ['configuration counts capped (<= 4 mutations) so that the number of orderings stays small']
    ncase = 6 if res.tier == 'quick' else 40
    cases = []
    if replay:
        cases = [replay['replay']['case']]
    else:
        for i in range(ncase):
            nt_, nd_ = rng.choice([2, 3, 3, 4] if res.tier == 'quick' else [3, 4, 4, 5]), rng.choice([1, 1, 2])
            # cost cap: the exact-rational inverse of the model on the block-counting space of 5 samples in two demes does not finish within
            # the 30-minute budget of one case (thorough tier, seed 1: two '[timeout]' model evaluations) - two demes go up to n = 4
            s = gen.rand_spec(rng, n_total=min(nt_, 4) if nd_ == 2 else nt_, n_demes=nd_, n_epochs=1, end_time='never')
            if s['model']['kind'] == 'beta' and (len(s['n_items']) > 1 or gen.effective_n(s) > 3):
                # the scaled Beta time scale is a 53-bit rational: the exact-rational inverse of the model then takes minutes on
                # the larger block-counting spaces (the time scale itself is the subject of C14, not of this property)
                s['model']['scale_time'] = False
            cases.append({'spec': s, 'theta': rng.choice([0.0, 0.0625, 0.25, 1.0, 2.0]),
                          'max_mut': 3 if res.tier == 'quick' else 4})
    if not replay:
        # larger samples, a few configurations mixing low and high frequency classes (Kingman, one deme, exact rationals)
        for n_big in ([9] if res.tier == 'quick' else [9, 10]):
            z = [0] * (n_big - 1)
            cf = []
            for a, b_, ca, cb in ((0, n_big - 2, 2, 1), (0, n_big - 2, 1, 2), (1, n_big - 2, 2, 1), (3, n_big - 2, 1, 1)):
                v = list(z); v[a] = ca; v[b_] = cb
                cf.append(v)
            cases.append({'spec': {'n_items': [['a', n_big]], 'model': {'kind': 'kingman'}, 'pop_sizes': {'a': {'0.0': 1.0}}},
                          'theta': 1.0, 'max_mut': 3, 'configs': cf})
    if not replay:
        # multiple mergers with n >= 5: the block-counting generator is no longer triangular in enumeration order
        for n_mm, mdl in ((5, {'kind': 'beta', 'alpha': 1.5, 'scale_time': False}), (6, {'kind': 'dirac', 'psi': 0.5, 'c': 2.0, 'scale_time': False}),
                          (5, {'kind': 'dirac', 'psi': 0.25, 'c': 1.0, 'scale_time': True})) if res.tier == 'quick' else \
                         ((5, {'kind': 'beta', 'alpha': 1.5, 'scale_time': False}), (6, {'kind': 'beta', 'alpha': 1.25, 'scale_time': False}),
                          (6, {'kind': 'dirac', 'psi': 0.5, 'c': 2.0, 'scale_time': False}), (5, {'kind': 'dirac', 'psi': 0.25, 'c': 1.0, 'scale_time': True}),
                          (7, {'kind': 'beta', 'alpha': 1.75, 'scale_time': False})):
            cases.append({'spec': {'n_items': [['a', n_mm]], 'model': mdl, 'pop_sizes': {'a': {'0.0': rng.choice([0.5, 1.0, 2.0])}}},
                          'theta': rng.choice([0.25, 1.0]), 'max_mut': 2})
    if not replay:
        # designed: several demes with the sample NOT in the first deme (the enumeration starts from another state than the sampled one:
        # absorbing states precede the initial state) and a multiple-merger model with the sample split over two demes
        mg = {'a>b': {'0.0': 0.5}, 'b>a': {'0.0': 1.0}}
        cases.append({'spec': {'n_items': [['a', 0], ['b', 3]], 'model': {'kind': 'kingman'}, 'pop_sizes': {'a': {'0.0': 1.0}, 'b': {'0.0': 2.0}},
                               'migration_rates': mg}, 'theta': 1.0, 'max_mut': 2})
        cases.append({'spec': {'n_items': [['a', 2], ['b', 2]], 'model': {'kind': 'beta', 'alpha': 1.5, 'scale_time': False},
                               'pop_sizes': {'a': {'0.0': 1.0}, 'b': {'0.0': 0.5}}, 'migration_rates': mg}, 'theta': 0.25, 'max_mut': 2})
    if not replay:
        # designed (seed-independent): the documented boundary theta = 0 through BOTH routes (the scalar call and the iterator
        # get_mutation_configs with its running generated mass), unfolded and folded, one and two demes
        cases.append({'spec': {'n_items': [['a', 3]], 'model': {'kind': 'kingman'}, 'pop_sizes': {'a': {'0.0': 1.0}}, 'designed': 'theta_zero'},
                      'theta': 0.0, 'max_mut': 2})
        cases.append({'spec': {'n_items': [['a', 2], ['b', 2]], 'model': {'kind': 'dirac', 'psi': 0.5, 'c': 1.0, 'scale_time': False},
                               'pop_sizes': {'a': {'0.0': 1.0}, 'b': {'0.0': 2.0}}, 'migration_rates': {'a>b': {'0.0': 0.5}, 'b>a': {'0.0': 1.0}},
                               'designed': 'theta_zero'}, 'theta': 0.0, 'max_mut': 2})
    for j_, c in enumerate(cases):
        if j_ % 2 == 1 and c['theta'] > 0:
            c['pre_thetas'] = [0.5, 3.0]
    for c in cases:
        c['perm_items'] = [[rng.choice([1, 2, 3, 8, 9, 11, 16]) for _ in range(rng.randrange(1, 6))] for _ in range(6)] + [[1, 1, 8], [8, 8, 1], [2, 9, 9, 9], [1, 2, 3, 8, 9, 11], [1, 1, 2, 2, 3, 8]]
    outs = C.run_impl_parallel('mutation.py', [{'cases': [c]} for c in cases], timeout=1800)
    bodies, keep = [], []
    for i, (c, o) in enumerate(zip(cases, outs)):
        r = o['results'][0]
        if 'error' in r:
            res.violation('valid configuration raised', {'case': c, 'error': r['error']})
            continue
        d = r['dump']
        spec = c['spec']
        n = sum(d['config'])
        nd = len(d['pop_names'])
        m = spec.get('model') or {'kind': 'kingman'}
        fuel = 4 * n + 2 * nd * n + 10
        b = f'Definition P{i} : params (T:=Q) := mkParams {space.model_coq(m)} {space.tscale_expr(spec, d)} ' \
            + C.coqlist([C.coqlist([C.qlit(x) for x in row]) for row in d['mig']]) + f' 0 false.\n'
        b += f'Definition sp{i} := get_transitions OpsQ P{i} {fuel}%nat 1%nat {nd}%nat {n}%nat.\n'
        cfgs = C.coqlist([C.natlist(cf) for cf in r['configs']])
        b += (f'Eval vm_compute in (match sp{i} with None => [] | Some (states, trans) =>\n'
              f'  let Sm := rate_matrix OpsQ states trans in\n'
              f'  let Rs := map (fun j => reward_vector OpsQ {n}%nat (RUnfoldedSFS j) states) (seq 1 ({n} - 1)) in\n'
              f'  let al := alpha_vec OpsQ {C.natlist(d["config"])} 0%nat states in\n'
              f'  let tr := map (fun s => negb (is_absorbing s)) states in\n'
              f'  showQs (map (mutation_prob OpsQ Sm Rs al tr {C.qlit(c["theta"])}) {cfgs}) end).\n') if c['theta'] > 0 else \
             'Eval vm_compute in (@nil (Z*Z)).\n'
        mm = c['max_mut']
        b += 'Eval vm_compute in (map (fun l => dedup (permutations l)) ' + C.coqlist([C.natlist(l) for l in c['perm_items']]) + ').\n'
        b += f'Eval vm_compute in (flat_map (fun k => partitions_sum ({n} - 1) k) (seq 0 {mm + 1})).\n'
        b += 'Eval vm_compute in (map (unfold_config ' + f'{n}%nat) ' + C.coqlist([C.natlist(cf) for cf in r['fconfigs']]) + ').\n'
        bodies.append(b)
        keep.append((c, r))
    couts = C.run_coq_cases('C16', 'mutation', HEADER, bodies, timeout=1800)
    for (c, r), (rc, vals, raw) in zip(keep, couts):
        if rc != 0 or len(vals) != 4:
            res.violation('model evaluation failed', {'case': c, 'coq_output': raw[-1500:]}, concrete=False)
            continue
        key = gen.spec_key(c['spec'])
        theta = c['theta']
        mp = [Fr(a, b_) for a, b_ in C.parse_term(vals[0])]
        mperms = C.parse_term(vals[1])
        for items, mpm, ipm in zip(c['perm_items'], mperms, r['perms']):
            res.count((key, 'perm', tuple(items)))
            if sorted(list(x) for x in mpm) != ipm:
                res.violation('multiset_permutations does not enumerate each distinct ordering exactly once',
                              {'case': c, 'items': items, 'model': sorted(list(x) for x in mpm)[:6], 'observed': ipm[:6]})
        for items, a_, b_ in zip(c['perm_items'], r['perms'], r.get('perms_again', r['perms'])):
            if a_ != b_:
                res.violation('multiset_permutations returns another set of orderings when the same multiset is requested again',
                              {'case': c, 'items': items, 'first': len(a_), 'second': len(b_)})
        mconfigs = C.parse_term(vals[2])
        munfold = C.parse_term(vals[3])
        n = sum(r['dump']['config'])
        if n > 2 and not c.get('configs') and [list(x) for x in mconfigs] != r['configs']:
            res.violation('_get_configs differs from the model enumeration', {'case': c, 'model': mconfigs[:6], 'observed': r['configs'][:6]})
        for cf, mu, iu in zip(r['fconfigs'], munfold, r['unfold']):
            if sorted([list(u) for u in mu]) != iu:
                res.violation('_unfold is not the fibre of the fold map', {'case': c, 'folded': cf, 'model': mu, 'observed': iu})
        probs = dict((tuple(cf), p) for cf, p in zip(r['configs'], r['probs']))
        for j, (cf, p) in enumerate(zip(r['configs'], r['probs'])):
            res.count((key, theta, tuple(cf)), nontrivial=p > 0)
            if p < -1e-12:
                res.violation('negative configuration probability', {'case': c, 'config': cf, 'p': p})
            if theta > 0 and j < len(mp) and not C.close(mp[j], p, rel=Fr(1, 10 ** 9), abs_=Fr(1, 10 ** 13)):
                res.violation('configuration probability differs from the model (first-step / resolvent formula)',
                              {'case': c, 'config': cf, 'expected': float(mp[j]), 'observed': p})
                break
            if theta == 0 and p != (1 if sum(cf) == 0 else 0):
                res.violation('theta = 0 rule violated', {'case': c, 'config': cf, 'p': p})
        # iterator bookkeeping and running mass
        run_sum, ok = 0.0, True
        for (cf, p), gm in zip(r['iter'], r['generated_mass']):
            run_sum += p
            # (comparisons written so that a NaN fails them)
            if not (abs(gm - run_sum) <= 1e-12 and abs(p - probs.get(tuple(cf), p)) <= 1e-13):
                ok = False
            if theta == 0 and not (p == (1 if sum(cf) == 0 else 0)):
                res.violation('theta = 0 rule violated by the iterator get_mutation_configs', {'case': c, 'config': cf, 'p': p})
                break
        if not ok or any(not (b_ >= a - 1e-12) for a, b_ in zip(r['generated_mass'], r['generated_mass'][1:])) or \
                (r['generated_mass'] and not (r['generated_mass'][-1] <= 1 + 1e-9)):
            res.violation('generated mass is not the running, non-decreasing sum bounded by 1',
                          {'case': c, 'generated_mass': r['generated_mass'][-5:]})
        # empty configuration = Laplace transform
        if theta > 0 and not c.get('configs') and C.gt(abs(r['probs'][0] - r['laplace']), 1e-9):
            res.violation('empty configuration is not the Laplace transform of the total branch length',
                          {'case': c, 'p_empty': r['probs'][0], 'laplace': r['laplace']})
        # folded = sum over unfoldings
        for cf, fp, us in zip(r['fconfigs'], r['fprobs'], r['unfold']):
            if all(tuple(u) in probs for u in us):
                s_ = sum(probs[tuple(u)] for u in us)
                if C.gt(abs(s_ - fp), 1e-10 * max(1.0, fp)):
                    res.violation('folded configuration probability is not the sum over its unfoldings',
                                  {'case': c, 'folded': cf, 'p_folded': fp, 'sum_unfoldings': s_})
        # expected counts
        if theta > 0 and r['generated_mass'] and r['generated_mass'][-1] > 1 - 1e-7:
            for i_ in range(1, n):
                ec = sum(cf[i_ - 1] * p for cf, p in zip(r['configs'], r['probs']))
                if C.gt(abs(ec - theta * r['sfs_mean'][i_]), 1e-4 * max(1e-3, theta * r['sfs_mean'][i_])):
                    res.violation('expected mutation counts are not theta times the expected SFS',
                                  {'case': c, 'bin': i_, 'expected_count': ec, 'theta_sfs': theta * r['sfs_mean'][i_]})
        res.sample({'spec': c['spec'], 'theta': theta, 'configs': r['configs'][:3], 'probs': r['probs'][:3]}, cap=3)
    res.stream('mutation', cases=len(keep))
    res.extra['input_distribution'] = {'theta': sorted(c['theta'] for c in cases), 'n': sorted(gen.effective_n(c['spec']) for c in cases)}
