"""C12 - per-population and per-locus marginals decompose the totals."""
import random

import common as C
import gen
import numeric as N
import orc


def run(res, replay=None):
    # structural tie of phasegen/rewards.py: translate the CURRENT source and re-check proofs/GenRewardsEquiv.v against it
    import translate_step; (res.proof is not None) and translate_step.run(res.proof, pid=res.pid, tie='rewards')
    # structural tie of the numeric loop _accumulate (the source-level decomposition theorems of analysis/SourceLinear.v / SourceCovariance.v are about it): translate the CURRENT source and re-check proofs/GenLoopsEquiv.v
    import translate_step; (res.proof is not None) and translate_step.run(res.proof, pid=res.pid, tie='loops')
    # structural tie of the moment assembly (accumulate: centring, permutation average): translate the CURRENT source and re-check proofs/GenMomentsEquiv.v
    import translate_step; (res.proof is not None) and translate_step.run(res.proof, pid=res.pid, tie='moments')
    # pinned reading of the marginal distributions (demes / loci: get_cov, cov, corr; mean / var / std / m2) and of the density pdf: re-check the CURRENT source against it and proofs/GenMarginalsEquiv.v
    import translate_step; (res.proof is not None) and translate_step.run(res.proof, pid=res.pid, tie='marginals')
    rng = random.Random(res.seed)
    res.rule = ('marginals stream: structured configurations with 2-3 demes (n<=4, three models, 1-2 epochs) and two-locus '
                'configurations: per-population means sum to the mean, covariance entries sum to the variance, symmetry, '
                'eigenvalues >= -1e-9 trace, correlations in [-1,1], per-population SFS sums, per-locus branch lengths, '
                'and a population without lineages and without immigration contributes exactly 0.0; the per-population '
                'means are also compared with the Gallina model in binary64')
    res.assumptions = ['numeric model uses a Taylor/squaring exponential in binary64']
    ncase = 8 if res.tier == 'quick' else 50
    cases = []
    if replay:
        cases = [replay['replay']['case']]
    else:
        for i in range(ncase):
            nd = rng.choice([2, 2, 3])
            if i % 4 == 3:
                s = gen.rand_spec(rng, n_total=rng.choice([2, 3]), n_demes=2, n_epochs=1, loci=2, end_time='always')
                lf = (i % 8 == 3)
                if lf and not s.get('recombination_rate'):
                    s['recombination_rate'] = 1.0       # the two loci must be able to coalesce at different times
                cases.append({'spec': s, 'loci_first': lf})
                continue
            s = gen.rand_spec(rng, n_total=rng.choice([2, 3, 4]), n_demes=nd, n_epochs=rng.choice([1, 2]), end_time='always')
            if i % 4 == 0:
                # late colonisation: all samples in the first deme, NO migration during the first epoch, migration afterwards (the other
                # demes' marginals are exactly zero at first and must still be accumulated later)
                s = gen.rand_spec(rng, n_total=rng.choice([2, 3]), n_demes=nd, n_epochs=2, end_time='never', isolation=True)
                tot_ = sum(c for _, c in s['n_items'])
                s['n_items'] = [[p, (tot_ if j == 0 else 0)] for j, (p, c) in enumerate(s['n_items'])]
                s['end_time'] = max(float(t) for d in s['migration_rates'].values() for t in d) + 3.0
            unreachable = []
            if i % 4 == 1:
                # last deme holds no sample and nothing ever migrates into it
                pops = [p for p, _ in s['n_items']]
                last = pops[-1]
                tot = sum(c for _, c in s['n_items'])
                s['n_items'] = [[p, (tot if j == 0 else 0)] for j, (p, c) in enumerate(s['n_items'])]
                s['migration_rates'] = {k: ({t: 0.0 for t in d} if k.endswith('>' + last) else d)
                                        for k, d in s['migration_rates'].items()}
                unreachable = [last]
            if i % 4 == 2:
                s['start_time'] = rng.choice([0.25, 0.5])
                s['end_time'] = s['end_time'] + 1.0
            cases.append({'spec': s, 'unreachable': unreachable})
    if not replay:
        # designed: the OTHER model family (which enumerates the same states in another order) with the same layout is asked for
        # its marginals earlier in the same process
        base = {'n_items': [['a', 2], ['b', 2]], 'pop_sizes': {'a': {'0.0': 1.0}, 'b': {'0.0': 2.0, '1.0': 0.5}},
                'migration_rates': {'a>b': {'0.0': 0.5}, 'b>a': {'0.0': 1.0}}, 'end_time': 6.0}
        for mdl, pre in (({'kind': 'beta', 'alpha': 1.5, 'scale_time': False}, {'kind': 'kingman'}),
                         ({'kind': 'kingman'}, {'kind': 'dirac', 'psi': 0.5, 'c': 1.0, 'scale_time': False})):
            cases.append({'spec': dict(base, model=mdl, designed='other_family_first'), 'unreachable': [],
                          'prelude': [dict(base, model=pre, n_items=[['a', 3], ['b', 1]])]})
    if not replay:
        # designed: two loci with a window [start_time, end_time] that does not start at 0 (a moment over such a window is a DIFFERENCE of
        # accumulated moments: products of means must be formed from the windowed means)
        for st, lf in ((0.75, False), (0.25, True)):
            cases.append({'spec': {'n_items': [['a', 2], ['b', 1]], 'model': {'kind': 'kingman'}, 'loci': 2, 'recombination_rate': 1.0,
                                   'pop_sizes': {'a': {'0.0': 1.0}, 'b': {'0.0': 2.0}}, 'migration_rates': {'a>b': {'0.0': 0.5}, 'b>a': {'0.0': 0.25}},
                                   'start_time': st, 'end_time': 5.0, 'designed': 'two_loci_window'}, 'loci_first': lf})
    orc.run_oracle(res, 'marginals', cases, chunk=1)
    # correspondence of per-population means with the model
    items = []
    for c in cases[: (4 if res.tier == 'quick' else 20)]:
        s = c['spec']
        if s.get('loci') == 2:
            continue
        pops = [p for p, _ in s['n_items']]
        ops = []
        for p in pops:
            ops.append(dict(py={'kind': 'attr', 'path': f"tree_height.demes['{p}'].mean"},
                            queries=[dict(kind='moment', k=1, rewards=[['Combined', [['TreeHeight'], ['Deme', p]]]])], combine=N.one))
            ops.append(dict(py={'kind': 'attr', 'path': f"total_branch_length.demes['{p}'].mean"},
                            queries=[dict(kind='moment', k=1, rewards=[['Combined', [['TotalBranchLength'], ['Deme', p]]]])], combine=N.one))
        items.append(dict(spec=s, lc=True, ops=ops))
    N.run_items(res, 'C12', 'marginal_means', items, what='per-population mean differs from the model value')
    res.extra['input_distribution'] = {'with_unreachable_deme': sum(1 for c in cases if c.get('unreachable')),
                                       'two_loci': sum(1 for c in cases if c['spec'].get('loci') == 2)}
