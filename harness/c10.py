"""C10 - accumulation over time is consistent: refinement, truncation, additivity."""
import random

import common as C
import gen
import orc


def run(res, replay=None):
    rng = random.Random(res.seed)
    res.rule = ('accumulation stream: random configurations (n<=4, 1-2 demes, three models, 1-3 epochs); relations on the '
                'implementation at 1e-9: redundant change points inserted at random times, evaluation on a refined grid '
                '(points on epoch boundaries and beyond the last change included), end time on the object / on the call / '
                'as accumulation point, additivity of first moments over [0,a],[a,b], monotone raw curves, and the default '
                'horizon reaching the infinite-horizon value or logging a warning (incl. weakly connected demes and '
                'huge population sizes); non-trivial = relations evaluated > 0')
    res.assumptions = []
    ncase = 8 if res.tier == 'quick' else 60
    cases = []
    if replay:
        cases = [replay['replay']['case']]
    else:
        for i in range(ncase):
            s = gen.rand_spec(rng, n_total=rng.choice([2, 3, 4]), n_demes=rng.choice([1, 1, 2]), n_epochs=rng.choice([1, 2, 3]),
                              end_time='never')
            if i % 4 == 3 and len(s['n_items']) == 2:       # weakly connected demes: horizon cannot be reached
                s['migration_rates'] = {k: {'0.0': 2.0 ** -26} for k in s['migration_rates']}
            if i % 4 == 1:
                s['model'] = {'kind': 'dirac', 'psi': 0.5, 'c': 1.0, 'scale_time': True}
                s['pop_sizes'] = {p: {'0.0': 2.0 ** 17} for p in s['pop_sizes']}
            bs = sorted({float(t) for d in s['pop_sizes'].values() for t in d})
            ts = sorted(set(rng.sample([0.0, 0.25, 0.5, 1.0, 1.5, 2.0, 3.0, 5.0], 4) + bs[:2]))
            rng.shuffle(ts)
            extra = sorted(set(rng.sample([0.125, 0.375, 0.625, 0.875, 1.25, 1.75, 2.5, 4.0], 3)))
            a = rng.choice([0.0, 0.25, 0.5, 1.0])
            cases.append({'spec': s, 'ts': ts, 'extra_times': extra, 'T': rng.choice([0.5, 1.0, 2.0, 3.5]),
                          'window': [a, a + rng.choice([0.25, 0.5, 1.0, 2.0])]})
    results = orc.run_oracle(res, 'accumulation', cases, chunk=1)
    res.extra['input_distribution'] = {'horizon_warnings': sum(1 for _, r in results if isinstance(r.get('info'), dict) and r['info'].get('warned')),
                                       'cases': len(cases)}
