"""C10 - accumulation over time is consistent: refinement, truncation, additivity."""
import random

import common as C
import gen
import numeric as N
import orc


def run(res, replay=None):
    # structural tie of the epoch machinery of phasegen/demography.py (generator, get_epochs, discrete _broadcast / _apply): translate the CURRENT source and re-check proofs/GenDemographyEquiv.v
    import translate_step; (res.proof is not None) and translate_step.run(res.proof, pid=res.pid, tie='demography')
    # structural tie of the searches on the distribution function (_update, _cum, quantile, _get_absorption_time, t_max): translate the CURRENT source and re-check proofs/GenSearchEquiv.v
    import translate_step; (res.proof is not None) and translate_step.run(res.proof, pid=res.pid, tie='search')
    # structural tie of the moment assembly (accumulate: centring, permutations; moment: windows) of phasegen/distributions.py: translate the CURRENT source and re-check proofs/GenMomentsEquiv.v
    import translate_step; (res.proof is not None) and translate_step.run(res.proof, pid=res.pid, tie='moments')
    # structural tie of the propagation loops (_accumulate, cdf) of phasegen/distributions.py: translate the CURRENT source and re-check proofs/GenLoopsEquiv.v
    import translate_step; (res.proof is not None) and translate_step.run(res.proof, pid=res.pid, tie='loops')
    rng = random.Random(res.seed)
    res.rule = ('accumulation stream: random configurations (n<=4, 1-2 demes, three models, 1-3 epochs); relations on the '
                'implementation at 1e-9: redundant change points inserted at random times, evaluation on a refined grid '
                '(points on epoch boundaries and beyond the last change included), end time on the object / on the call / '
                'as accumulation point, additivity of first moments over [0,a],[a,b] (incl. a on an epoch boundary and b = 2a), values on evenly spaced dyadic grids through the boundaries vs each time alone, monotone raw curves, and the default '
                'horizon reaching the infinite-horizon value or logging a warning (incl. weakly connected demes and '
                'huge population sizes); non-trivial = relations evaluated > 0')
    res.assumptions = []
    ncase = 8 if res.tier == 'quick' else 60
    cases = []
    if replay:
        cases = [replay['replay']['case']]
    else:
        for i in range(ncase):
            s = gen.rand_spec(rng, n_total=rng.choice([2, 3, 4]), n_demes=rng.choice([1, 1, 2]), n_epochs=rng.choice([1, 2, 3]),
                              end_time='never')
            if i % 4 == 3 and len(s['n_items']) == 2:       # weakly connected demes: horizon cannot be reached
                s['migration_rates'] = {k: {'0.0': 2.0 ** -26} for k in s['migration_rates']}
            if i % 4 == 1:
                s['model'] = {'kind': 'dirac', 'psi': 0.5, 'c': 1.0, 'scale_time': True}
                s['pop_sizes'] = {p: {'0.0': 2.0 ** 17} for p in s['pop_sizes']}
            bs = sorted({float(t) for d in s['pop_sizes'].values() for t in d})
            ts = sorted(set(rng.sample([0.0, 0.25, 0.5, 1.0, 1.5, 2.0, 3.0, 5.0], 4) + bs[:2]))
            rng.shuffle(ts)
            extra = sorted(set(rng.sample([0.125, 0.375, 0.625, 0.875, 1.25, 1.75, 2.5, 4.0], 3)))
            a = rng.choice([0.0, 0.25, 0.5, 1.0])
            pos = [b for b in bs if b > 0]
            step = rng.choice([0.125, 0.25])
            cases.append({'spec': s, 'ts': ts, 'extra_times': extra, 'T': (0.0 if i == 0 else rng.choice([0.0, 0.5, 1.0, 2.0, 3.5])),      # the first case always carries the end time 0
                          'window': [a, a + rng.choice([0.25, 0.5, 1.0, 2.0])],
                          # windows starting exactly on an epoch boundary, as long as the stretch before it
                          'windows': [[b, 2 * b] for b in pos[:2]],
                          # evenly spaced dyadic grids: every boundary (multiple of 1/8) is a grid point of the first
                          'grids': [[step * j for j in range(1, rng.randrange(6, 14))]] + ([[b * j for j in range(1, 5)] for b in pos[:1]])})
    if not replay:
        # designed: a slow first epoch followed by a much faster one (N = 10 until t = 5, then N = 0.1): the horizon of the whole demography
        # is far beyond the change point and far shorter than that of the first epoch alone
        cases.append({'spec': {'n_items': [['a', 2]], 'model': {'kind': 'kingman'}, 'pop_sizes': {'a': {'0.0': 10.0, '5.0': 0.125}}},
                      'ts': [6.0, 1.0, 5.0], 'extra_times': [2.5, 5.5], 'T': 60.0, 'window': [1.0, 6.0], 'windows': [[5.0, 10.0]], 'grids': [[1.25 * j for j in range(1, 7)]]})
    results = orc.run_oracle(res, 'accumulation', cases, chunk=1)
    # accumulation curves on multi-point grids against the Gallina propagation loop, incl. rewards that stall
    # before absorption (isolation then contact; per-population and per-bin rewards)
    items = []
    for i in range(3 if res.tier == 'quick' else 16):
        s = gen.rand_spec(rng, n_total=rng.choice([2, 3]), n_demes=2, n_epochs=rng.choice([2, 3]), end_time='never',
                          isolation=True, kinds=('kingman',))
        tot = gen.effective_n(s)
        # late colonisation (all samples in the first population) or isolation then contact
        s['n_items'] = [[s['n_items'][0][0], tot], [s['n_items'][1][0], 0]] if i % 2 == 0 else [[s['n_items'][0][0], tot - 1], [s['n_items'][1][0], 1]]
        pops = [p for p, _ in s['n_items']]
        b1 = sorted(float(t) for d in s['migration_rates'].values() for t in d)[1]
        ts = [b1 / 4, b1 / 2, b1 + 0.5, b1 + 2.0, b1]
        rng.shuffle(ts)
        ops = [dict(py={'kind': 'accumulate', 'dist': 'tree_height', 'k': 1, 'ts': ts, 'center': False},
                    queries=[dict(kind='accumulate', k=1, rewards=[['TreeHeight']], center=False, ts=ts)],
                    combine=lambda mq: mq[0], uses_horizon=False)]
        for p in pops:
            ops.append(dict(py={'kind': 'accumulate', 'dist': f"tree_height.demes['{p}']", 'k': 1, 'ts': ts, 'center': False},
                            queries=[dict(kind='accumulate', k=1, rewards=[['Combined', [['TreeHeight'], ['Deme', p]]]], center=False, ts=ts)],
                            combine=lambda mq: mq[0], uses_horizon=False))
        items.append(dict(spec=s, lc=True, ops=ops))
        if tot == 3:
            nb = tot - 1
            items.append(dict(spec=s, lc=False, ops=[dict(
                py={'kind': 'accumulate', 'dist': 'sfs', 'k': 1, 'ts': ts, 'center': False},
                queries=[dict(kind='accumulate', k=1, rewards=[['Combined', [['Unit'], ['UnfoldedSFS', j]]]], center=False, ts=ts)
                         for j in range(1, tot)],
                combine=lambda mq, n_=tot, nt=len(ts): [[0.0] * nt] + [list(x) for x in mq] + [[0.0] * nt] * (n_ - len(mq)),
                uses_horizon=False)]))
    N.run_items(res, 'C10', 'accumulation_curves', items,
                what='accumulation curve differs from the epoch-by-epoch propagation of the model')
    res.extra['input_distribution'] = {'horizon_warnings': sum(1 for _, r in results if isinstance(r.get('info'), dict) and r['info'].get('warned')),
                                       'cases': len(cases)}
