"""C01 - tree-height and branch-length moments equal those of the true coalescent."""
import math
import random

import common as C
import gen
import numeric as N


def build_ops(rng, spec, budget=96):
    """list of (python op, model query, k, raw_scale_query_index or None)"""
    ops = []
    has_end = spec.get('end_time') is not None
    for dist, rw in (('tree_height', ['TreeHeight']), ('total_branch_length', ['TotalBranchLength'])):
        ops.append(({'kind': 'attr', 'path': f'{dist}.mean'}, dict(kind='moment', k=1, rewards=[rw], center=True)))
        ops.append(({'kind': 'attr', 'path': f'{dist}.var'}, dict(kind='moment', k=2, rewards=[rw, rw], center=True)))
        ops.append(({'kind': 'attr', 'path': f'{dist}.m2'}, dict(kind='moment', k=2, rewards=[rw, rw], center=False)))
        k = rng.choice([3, 3, 4]) if gen.effective_n(spec) <= 3 else 3
        ops.append(({'kind': 'moment', 'dist': dist, 'k': k, 'center': rng.random() < 0.5},
                    dict(kind='moment', k=k, rewards=[rw] * k)))
        ops[-1][1]['center'] = ops[-1][0]['center']
        # end time given to the call, start time for first moments
        et = rng.choice([0.5, 1.0, 2.5, 4.0])
        ops.append(({'kind': 'moment', 'dist': dist, 'k': 1, 'end_time': et}, dict(kind='moment', k=1, rewards=[rw], end=et)))
        st = rng.choice([0.25, 0.5, 1.0])
        ops.append(({'kind': 'moment', 'dist': dist, 'k': 1, 'start_time': st, 'end_time': st + et},
                    dict(kind='moment', k=1, rewards=[rw], start=st, end=st + et)))
    # explicit zeros: an end time of exactly 0 (nothing accumulated) and - on an object built with a start time - an explicit start 0
    ops.append(({'kind': 'moment', 'dist': 'total_branch_length', 'k': 1, 'end_time': 0.0},
                dict(kind='moment', k=1, rewards=[['TotalBranchLength']], end=0.0)))
    if spec.get('start_time'):
        ops.append(({'kind': 'moment', 'dist': 'tree_height', 'k': 1, 'start_time': 0.0, 'end_time': 2.0},
                    dict(kind='moment', k=1, rewards=[['TreeHeight']], start=0.0, end=2.0)))
    # cross moment through Coalescent.moment with explicit rewards
    ops.append(({'kind': 'moment', 'route': 'coal', 'k': 2, 'rewards': [['TreeHeight'], ['TotalBranchLength']], 'center': True},
                dict(kind='moment', k=2, rewards=[['TreeHeight'], ['TotalBranchLength']], center=True)))
    # cost control: the binary64 model multiplies ((k+1) * states)-dimensional matrices inside Coq (one core per configuration);
    # orders whose Van Loan matrix exceeds the budget are left to the larger tier (means are always compared)
    d_ = len(spec['n_items'])
    K = sum(math.comb(m + d_ - 1, d_ - 1) for m in range(1, gen.effective_n(spec) + 1))
    ops = [o for o in ops if o[1]['k'] == 1 or (o[1]['k'] + 1) * K <= budget]
    # total cost of one configuration (it is evaluated on ONE core): sum over operations of dim^3 * (epochs + 1); the most
    # expensive higher-order operations are dropped until the estimate fits (about 8e-6 s per unit)
    E = len({t for d in spec['pop_sizes'].values() for t in d} | {t for d in (spec.get('migration_rates') or {}).values() for t in d})
    cost = lambda o: ((o[1]['k'] + 1) * K) ** 3 * (E + 1)
    cap = 6e6 * (budget / 96.0) ** 3
    while sum(cost(o) for o in ops) > cap:
        worst = max((o for o in ops if o[1]['k'] > 1), key=cost, default=None)
        if worst is None:
            break
        ops.remove(worst)
    return ops


def run(res, replay=None):
    # structural tie of the moment assembly (accumulate: centring, permutations; moment: windows) of phasegen/distributions.py: translate the CURRENT source and re-check proofs/GenMomentsEquiv.v
    import translate_step; (res.proof is not None) and translate_step.run(res.proof, pid=res.pid, tie='moments')
    # structural tie of the propagation loops (_accumulate, cdf) of phasegen/distributions.py: translate the CURRENT source and re-check proofs/GenLoopsEquiv.v
    import translate_step; (res.proof is not None) and translate_step.run(res.proof, pid=res.pid, tie='loops')
    # structural tie of phasegen/rewards.py: translate the CURRENT source and re-check proofs/GenRewardsEquiv.v against it
    import translate_step; (res.proof is not None) and translate_step.run(res.proof, pid=res.pid, tie='rewards')
    rng = random.Random(res.seed)
    res.rule = ('moments stream: random single-locus configurations (n<=4, thorough n<=5; 1-3 demes; Kingman/Beta/'
                'Dirac; 1-4 epochs with power-of-two sizes in [1/8, 8] and dyadic migration rates in [1/8, 2]; with and '
                'without end time); mean, var, m2, a 3rd/4th order moment, moments with end/start time on the call and a '
                'cross moment, for tree height and total branch length; the implementation value must agree with the '
                'end-to-end Gallina model evaluated in binary64 (1e-7 relative for means, 1e-6 of the raw-moment scale '
                'otherwise); non-trivial = value not 0; distinct = distinct (configuration, statistic)')
    res.assumptions = ['numeric model uses a Taylor/squaring exponential in binary64; SciPy backend accuracy is observed, not proved',
                       'default horizon: the model integrates up to the implementation\'s own t_max (checked by C10)']
    nspec = 10 if res.tier == 'quick' else 80
    if replay:
        specs = [replay['replay']['spec']]
    else:
        specs = []
        for i in range(nspec):
            if i % 5 == 2:
                # the same sizes / rates in force in two finite epochs of different duration (bottleneck and recovery,
                # or an epoch split unevenly by a redundant change point)
                specs.append(gen.recurring_spec(rng, n_total=rng.choice([2, 3, 4]), n_demes=rng.choice([1, 1, 2])))
                continue
            specs.append(gen.rand_spec(rng, n_total=rng.choice([2, 3, 3, 4] if res.tier == 'quick' else [2, 3, 4, 4, 5]),
                                       n_demes=rng.choice([1, 2, 2, 3]) , n_epochs=rng.choice([1, 2, 3, 4]),
                                       size_range=(-3, 3), mig_only_boundary=(i % 3 == 0)))
    if not replay:
        # designed configuration: a LONG first epoch followed by a much faster one, queried beyond the change BEFORE the moments
        # with the default horizon are asked (the horizon search must not read whatever rate matrix the earlier query left behind)
        specs.append({'n_items': [['a', rng.choice([2, 3])]], 'model': {'kind': 'kingman'},
                      'pop_sizes': {'a': {'0.0': 4.0, '16.0': 0.0625}}, 'designed': 'slow_then_fast'})
    if not replay:
        # designed: consecutive epochs whose sizes differ by a few parts per million (1 + 2^-17, exactly representable): a rate
        # matrix kept because the epochs 'look equal' is off by far more than the 1e-7 the property allows
        step = 2.0 ** -17
        specs.append({'n_items': [['a', 2]], 'model': {'kind': 'kingman'}, 'pop_sizes': {'a': {'0.0': 1.0, '0.5': 1.0 + step}},
                      'designed': 'tiny_change'})
        specs.append({'n_items': [['a', 3]], 'model': {'kind': 'kingman'},
                      'pop_sizes': {'a': {repr(0.125 * i): 1.0 + i * step for i in range(0, 9)}}, 'designed': 'fine_staircase'})
    if not replay:
        # designed: the object is looked at (size of its state space), the demography it holds is then completed with a change
        # taking effect at time 0, and only then are the moments asked for
        specs.append({'n_items': [['a', 4]], 'model': {'kind': 'kingman'}, 'pop_sizes': {'a': {'0.0': 1.0}},
                      'late_events': [{'type': 'PopSizeChange', 'pop': 'a', 'time': 0.0, 'size': 2.0}], 'designed': 'late_event'})
        # designed: an object built with a start time, asked for a moment from an EXPLICIT start 0
        specs.append({'n_items': [['a', 3]], 'model': {'kind': 'kingman'}, 'pop_sizes': {'a': {'0.0': 1.0, '0.75': 2.0}}, 'start_time': 0.5, 'end_time': 6.0,
                      'designed': 'explicit_zero_start'})
        specs.append({'n_items': [['a', 2], ['b', 1]], 'model': {'kind': 'beta', 'alpha': 1.5}, 'pop_sizes': {'a': {'0.0': 1.0, '1.0': 4.0}, 'b': {'0.0': 2.0}},
                      'migration_rates': {'a>b': {'0.0': 0.5}, 'b>a': {'0.0': 0.25}}, 'late_touch_bc': True,
                      'late_events': [{'type': 'PopSizeChange', 'pop': 'b', 'time': 0.0, 'size': 0.5},
                                      {'type': 'MigrationRateChange', 'source': 'b', 'dest': 'a', 'time': 0.5, 'rate': 1.0}], 'designed': 'late_event'})
    cases = []
    for j, s in enumerate(specs):
        ops = build_ops(rng, s, budget=(96 if res.tier == 'quick' else 180))
        if s.get('start_time'):
            ops = [o for o in ops if o[1]['k'] == 1]      # a start time is claimed for first moments only
        c_ = {'spec': s, 'ops': [o[0] for o in ops], '_q': [o[1] for o in ops]}
        bs_ = sorted({float(t) for d in s['pop_sizes'].values() for t in d})
        if (j % 3 == 1 or s.get('designed') == 'slow_then_fast') and len(bs_) > 1 and s.get('end_time') is None:
            # the object is first asked for the cdf / a quantile far beyond its last change point (the shared state space is
            # left in the last epoch), THEN for its moments with the default horizon
            c_['pre_ops'] = [{'kind': 'cdf', 'ts': [bs_[-1] + 40.0]}] + ([{'kind': 'quantile', 'q': 0.5}] if j % 2 == 0 and not s.get('designed') else [])
        cases.append(c_)
    outs = C.run_impl_parallel('numeric.py', [{'cases': [{'spec': c['spec'], 'ops': c['ops'], 'pre_ops': c.get('pre_ops', [])}]} for c in cases])
    bodies, keep = [], []
    for i, (c, o) in enumerate(zip(cases, outs)):
        r = o['results'][0]
        if 'error' in r:
            res.violation('valid configuration raised', {'spec': c['spec'], 'error': r['error']})
            continue
        end_default = c['spec'].get('end_time') if c['spec'].get('end_time') is not None else r['t_max']
        qs = []
        for q in c['_q']:
            q = dict(q)
            q.setdefault('end', end_default)
            if c['spec'].get('start_time'):
                q.setdefault('start', c['spec']['start_time'])
            qs.append(q)
        # the default horizon itself: the MODEL cdf at the implementation's t_max must have reached the absorption probability
        qs.append(dict(kind='cdf', ts=[r['t_max']]))
        txt, _ = N.case_text(i, c['spec'], r, qs, [])
        bodies.append(txt)
        keep.append((c, r, qs))
    couts = C.run_coq_cases('C01', 'moments', N.HEADER, bodies, timeout=1500)
    nwarn = 0
    for (c, r, qs), (rc, vals, raw) in zip(keep, couts):
        if rc != 0 or len(vals) != 1:
            res.violation('model evaluation failed', {'spec': c['spec'], 'coq_output': raw[-1500:]}, concrete=False)
            continue
        mv = C.parse_term(vals[0])
        warned = any(k in ('horizon', 'numerical', 'nan') for k in r['warnings'])
        nwarn += warned
        # raw-moment scales
        for j, (op, q, m, iv, err) in enumerate(zip(c['ops'], qs, mv, r['values'], r['errors'])):
            key = (gen.spec_key(c['spec']), j)
            if err:
                res.violation('statistic raised on a valid configuration', {'spec': c['spec'], 'op': op, 'error': err})
                continue
            if not m:
                res.violation('model returned no value', {'spec': c['spec'], 'op': op}, concrete=False)
                continue
            m = m[0]
            res.count(key, nontrivial=(iv != 0))
            k = q['k']
            if k == 1:
                ok = N.close_f(m, iv, 1e-7, 1e-12)
            else:
                # scale of the raw moment of the same order: E[X^k] <= use the model's uncentred value bound via mean^k and value
                jl = next(j_ for j_, o_ in enumerate(c['ops']) if o_.get('path') == 'total_branch_length.mean')
                scale = max(abs(m), abs(iv), abs(mv[0][0]) ** k if q['rewards'][0] == ['TreeHeight'] else abs(mv[jl][0]) ** k)
                ok = abs(m - iv) <= 1e-6 * scale + 1e-12
            if not ok and not (warned and c['spec'].get('end_time') is None):
                res.violation('moment differs from the moment of the labelled coalescent (model value)',
                              {'spec': c['spec'], 'op': op, 'expected': m, 'observed': iv, 'order': k,
                               't_max': r['t_max'], 'warnings': r['warnings']})
        if c['spec'].get('end_time') is None and not warned and len(mv) > len(c['ops']) and mv[len(c['ops'])]:
            cdf_tmax = mv[len(c['ops'])][0]
            res.count((gen.spec_key(c['spec']), 'horizon'))
            if cdf_tmax < 1 - 1e-9:
                res.violation('default horizon: the time up to which moments are integrated is far from almost sure absorption and no warning was logged',
                              {'spec': c['spec'], 'pre_ops': c.get('pre_ops'), 't_max': r['t_max'], 'model_cdf_at_t_max': cdf_tmax})
        res.sample({'spec': c['spec'], 'tree_height.mean': r['values'][0], 'model': mv[0][0]}, cap=4)
    res.stream('moments', configurations=len(keep), with_warning=nwarn)
    res.extra['input_distribution'] = {
        'by_model': {k: sum(1 for s in specs if s['model']['kind'] == k) for k in ('kingman', 'beta', 'dirac')},
        'by_demes': {str(k): sum(1 for s in specs if len(s['n_items']) == k) for k in (1, 2, 3)},
        'with_end_time': sum(1 for s in specs if s.get('end_time') is not None),
        'epochs': sorted({len(d) for s in specs for d in s['pop_sizes'].values()})}
