"""C13 - expected spectra are consistent across sample sizes."""
import random

import common as C
import gen
import orc


def run(res, replay=None):
    # structural tie of the propagation loops (_accumulate, cdf) of phasegen/distributions.py: translate the CURRENT source and re-check proofs/GenLoopsEquiv.v
    import translate_step; (res.proof is not None) and translate_step.run(res.proof, pid=res.pid, tie='loops')
    rng = random.Random(res.seed)
    res.rule = ('projection stream: one population, n = 3..8 (thorough: ..10), Kingman / Beta / Dirac with random dyadic '
                'parameters, random size histories (1-4 epochs), random end time or the common default horizon: the '
                'expected SFS of n-1 samples must be the hypergeometric down-projection of that of n samples (1e-9), and '
                'expected height and branch length must not decrease in n; the same for the values of one accumulate(1, [T/4, T/2, T]) '
                'call and for the window [T/4, T] (start_time > 0)')
    res.assumptions = []
    ncase = 10 if res.tier == 'quick' else 80
    cases = []
    if replay:
        cases = [replay['replay']['case']]
    else:
        for i in range(ncase):
            s = gen.rand_spec(rng, n_total=3, n_demes=1, n_epochs=rng.choice([1, 2, 3, 4]))
            cases.append({'spec': s, 'n': rng.randrange(3, 9 if res.tier == 'quick' else 11)})
    orc.run_oracle(res, 'projection', cases)
    # one process, several models of the same family with different parameters and growing n
    # (state shared between model instances must not leak from one parameterisation to the next)
    if not replay:
        seq = []
        for kind, params in (('dirac', [dict(psi=0.25, c=2.0), dict(psi=0.75, c=4.0), dict(psi=0.5, c=1.0)]),
                             ('beta', [dict(alpha=1.25), dict(alpha=1.75)])):
            for j, pr in enumerate(params):
                s = gen.rand_spec(rng, n_total=3, n_demes=1, n_epochs=2)
                s['model'] = dict(kind=kind, scale_time=False, **pr)
                seq.append({'spec': s, 'n': 4 + 2 * j})
        orc.run_oracle(res, 'projection', seq, chunk=len(seq))
    res.extra['input_distribution'] = {'n': sorted(c['n'] for c in cases),
                                       'by_model': {k: sum(1 for c in cases if c['spec']['model']['kind'] == k) for k in ('kingman', 'beta', 'dirac')}}
