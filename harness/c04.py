"""C04 - state spaces are the exact lumping of the labelled coalescent."""
import random

import common as C
import gen
import space


def exhaustive_specs(rng, tier):
    """all sample splits with n <= nmax over <= 3 demes (two loci: n <= 4 / <= 2 demes), three models"""
    specs = []
    nmax = 4 if tier == 'quick' else 5
    for nd in (1, 2, 3):
        for n in range(2, nmax + 1):
            for comp in gen.compositions(n, nd):
                if tier == 'quick' and rng.random() < 0.6 and nd > 1:
                    continue
                s = gen.rand_spec(rng, n_total=n, n_demes=nd, n_epochs=rng.choice([1, 2]), end_time='never')
                s['n_items'] = [[pc[0], int(c)] for pc, c in zip(s['n_items'], comp)]
                specs.append(s)
    for nd in (1, 2):
        for n in range(2, (3 if tier == 'quick' else 4) + 1):
            if nd == 2 and n == 4 and tier == 'quick':
                continue
            for comp in gen.compositions(n, nd):
                for nu in sorted({0, n, rng.randrange(0, n + 1)}):
                    s = gen.rand_spec(rng, n_total=n, n_demes=nd, n_epochs=1, loci=2, end_time='never')
                    s['n_items'] = [[pc[0], int(c)] for pc, c in zip(s['n_items'], comp)]
                    s['n_unlinked'] = nu
                    # how the recombination rate reaches the configuration: LocusConfig constructor, keyword of the Coalescent
                    # next to a LocusConfig (with or without another rate of its own), or loci=2 with the keyword
                    s['rec_route'] = ['locus_config', 'kwarg', 'kwarg_over', 'int'][len(specs) % 4]
                    if s['rec_route'] != 'locus_config' and not s.get('recombination_rate'):
                        s['recombination_rate'] = rng.choice([0.5, 1.0, 3.0])
                    specs.append(s)
    return specs


def run(res, replay=None):
    # structural tie of the cache machine of the state space (update_epoch, drop_S, drop_cache, S, _get_rate_matrix, states): translate the CURRENT source and re-check proofs/GenCacheEquiv.v
    import translate_step; (res.proof is not None) and translate_step.run(res.proof, pid=res.pid, tie='cache')
    # structural tie of the configuration classes (locus.py, lineage.py, StateSpace.alpha): translate the CURRENT source and re-check proofs/GenConfigsEquiv.v
    import translate_step; (res.proof is not None) and translate_step.run(res.proof, pid=res.pid, tie='configs')
    # structural tie of the class Transition of phasegen/state_space.py: translate the CURRENT source and re-check proofs/GenTransitionEquiv.v
    import translate_step; (res.proof is not None) and translate_step.run(res.proof, pid=res.pid, tie='transition')
    # pinned reading of the enumeration of the state space and the assembly of the rate matrix (get_transitions, _graph_to_matrix, e, _get_initial, State): re-check the CURRENT source against it and proofs/GenStateSpaceEquiv.v
    import translate_step; (res.proof is not None) and translate_step.run(res.proof, pid=res.pid, tie='statespace')
    rng = random.Random(res.seed)
    res.rule = ('statespace stream: every sample split with n<=4 (thorough: 5) over <=3 demes, random model among '
                'Kingman/Beta/Dirac, power-of-two sizes and dyadic migration rates in 1-2 epochs, both state spaces; two '
                'loci: n<=3 (thorough: 4) over <=2 demes, all/none/random unlinked; compared: state set, no duplicates, '
                'every entry of S, alpha, is_absorbing, reward vectors; non-trivial = space with more than one state; '
                'distinct = distinct (configuration, space, epoch)')
    res.assumptions = ['rates compared exactly for Kingman (dyadic inputs), at 1e-11 relative for Beta/Dirac',
                       'scaled Beta time scale: documented formula evaluated with mpmath (40 digits), independent of the implementation']
    if replay:
        specs = [replay['replay']['spec']]
    else:
        specs = exhaustive_specs(rng, res.tier)
        # designed: the SAME unbalanced split under another model family evaluated earlier in the same process (the order in which
        # the breadth-first construction lists the states depends on the model; nothing indexed by state may be shared)
        for mdl, pre in (({'kind': 'beta', 'alpha': 1.5, 'scale_time': False}, {'kind': 'kingman'}),
                         ({'kind': 'kingman'}, {'kind': 'dirac', 'psi': 0.5, 'c': 2.0, 'scale_time': False})):
            for split in ([['a', 1], ['b', 2]], [['b', 0], ['a', 3]]):
                base = {'n_items': split, 'pop_sizes': {'a': {'0.0': 1.0}, 'b': {'0.0': 2.0}},
                        'migration_rates': {'a>b': {'0.0': 1.0}, 'b>a': {'0.0': 0.5}}}
                specs.append(dict(base, model=mdl, prelude=[dict(base, model=pre)]))

    def times(spec):
        ts = sorted({float(t) for d in (spec.get('pop_sizes') or {}).values() for t in d} |
                    {float(t) for d in (spec.get('migration_rates') or {}).values() for t in d})
        return ts[:3]
    space.run_stream(res, 'C04', specs, epoch_times=times)
    res.extra['input_distribution'] = {
        'specs': len(specs),
        'by_demes': {str(k): sum(1 for s in specs if len(s['n_items']) == k) for k in (1, 2, 3)},
        'by_model': {k: sum(1 for s in specs if s['model']['kind'] == k) for k in ('kingman', 'beta', 'dirac')},
        'two_loci': sum(1 for s in specs if s.get('loci') == 2)}
