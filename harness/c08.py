"""C08 - results do not depend on population naming, listing order or the process."""
import itertools
import random

import common as C
import gen
import orc
import space


def run(res, replay=None):
    # structural tie of the configuration classes (locus.py, lineage.py, StateSpace.alpha): translate the CURRENT source and re-check proofs/GenConfigsEquiv.v
    import translate_step; (res.proof is not None) and translate_step.run(res.proof, pid=res.pid, tie='configs')
    # structural tie of the class Transition of phasegen/state_space.py: translate the CURRENT source and re-check proofs/GenTransitionEquiv.v
    import translate_step; (res.proof is not None) and translate_step.run(res.proof, pid=res.pid, tie='transition')
    rng = random.Random(res.seed)
    res.rule = ('naming stream: structured configurations (2-3 demes, n<=4, three models, 1-2 epochs) given with the sample '
                'dictionary in unsorted order; every statistic incl. per-population marginals, their covariances and the '
                'per-population SFS is recomputed after (a) reordering every input container, (b) renaming the '
                'populations consistently (incl. names whose sorted order differs from the listing order), (c) omitting '
                'unsampled populations; per-name equality at 1e-9; the whole comparison is run under several '
                'PYTHONHASHSEED values in fresh processes; the statespace stream (exact, against the Gallina model) is run '
                'on the unsorted configurations; non-trivial = at least two demes; distinct = distinct (configuration, variant)')
    res.assumptions = ['float summation order may differ between listing orders (1e-9 relative)']
    nspec = 6 if res.tier == 'quick' else 40
    seeds = ['0', '1', '12345'] if res.tier == 'quick' else [str(s) for s in (0, 1, 2, 3, 5, 8, 13, 21, 12345, 4242)]
    specs = []
    if replay:
        specs = [replay['replay']['case']['spec']]
    else:
        for i in range(nspec):
            nd = rng.choice([2, 2, 3])
            names = rng.choice([['b', 'a', 'c'], ['z', 'y', 'x'], ['pop_1', 'pop_0', 'pop_2'], ['a', 'c', 'b']])[:nd]
            s = gen.rand_spec(rng, n_total=rng.choice([2, 3, 3, 4]), n_demes=nd, n_epochs=rng.choice([1, 2]), names=names,
                              end_time='always')
            specs.append(s)
    if not replay:
        # two loci: linked migration must also follow the names (asymmetric rates, unsorted listing)
        for i in range(2 if res.tier == 'quick' else 8):
            names = rng.choice([['b', 'a'], ['z', 'y'], ['pop_1', 'pop_0']])
            s = gen.rand_spec(rng, n_total=2, n_demes=2, n_epochs=1, names=names, loci=2, end_time='always')
            ks = list(s['migration_rates'])
            s['migration_rates'][ks[0]] = {'0.0': 0.25}
            s['migration_rates'][ks[1]] = {'0.0': 2.0}
            s['recombination_rate'] = rng.choice([0.5, 1.0])
            specs.append(s)
        # two loci, SOME lineages initially unlinked, samples in both demes (several states match the start configuration)
        for i in range(2 if res.tier == 'quick' else 6):
            names = rng.choice([['b', 'a'], ['z', 'y'], ['pop_1', 'pop_0']])
            s = gen.rand_spec(rng, n_total=3, n_demes=2, n_epochs=1, names=names, loci=2, end_time='always')
            s['n_items'] = [[names[0], 2], [names[1], 1]] if i % 2 == 0 else [[names[0], 1], [names[1], 2]]
            ks = list(s['migration_rates'])
            s['migration_rates'][ks[0]] = {'0.0': 0.25}
            s['migration_rates'][ks[1]] = {'0.0': 1.0}
            s['pop_sizes'] = {names[0]: {'0.0': 1.0}, names[1]: {'0.0': 4.0}}
            s['recombination_rate'] = 0.5
            s['n_unlinked'] = rng.choice([1, 2])
            specs.append(s)
    cases = []
    for s in specs:
        pops = [p for p, _ in s['n_items']]
        nd = len(pops)
        orders = [list(reversed(range(nd)))] + ([list(p) for p in itertools.permutations(range(nd))][1:3] if nd == 3 else [])
        ren = [{p: q for p, q in zip(pops, ['q_' + p for p in pops])},
               {p: q for p, q in zip(pops, sorted(pops))}]
        ren = [m for m in ren if len(set(m.values())) == nd and set(m.values()).isdisjoint(set(pops) - set(m.keys()))]
        ren = [m for m in ren if all(m[p] not in pops or m[p] == p for p in pops) or True]
        # a renaming onto the same name set must be a bijection applied consistently
        cases.append({'spec': s, 'orders': orders, 'renamings': ren[:1] + ([ren[1]] if sorted(pops) != pops else []),
                      'drop_unsampled': True})
    # designed: demographic EVENTS that name populations (a split, single changes) under names that contain one another
    ev_spec = {'n_items': [['a', 1], ['b', 2], ['c', 1]], 'model': {'kind': 'kingman'},
               'pop_sizes': {'a': {'0.0': 1.0}, 'b': {'0.0': 2.0}, 'c': {'0.0': 0.5}},
               'migration_rates': {'a>b': {'0.0': 0.5}, 'b>a': {'0.0': 0.25}, 'a>c': {'0.0': 0.8}, 'c>a': {'0.0': 0.3}, 'b>c': {'0.0': 0.2}, 'c>b': {'0.0': 0.6}},
               'events': [{'type': 'PopulationSplit', 'time': 0.75, 'derived': 'b', 'ancestral': 'a', 'multiplier': 50},
                          {'type': 'PopSizeChange', 'pop': 'c', 'time': 1.5, 'size': 2.0},
                          {'type': 'MigrationRateChange', 'source': 'c', 'dest': 'a', 'time': 2.0, 'rate': 1.0}],
               'end_time': 4.0}
    cases.append({'spec': ev_spec, 'orders': [], 'renamings': [{'a': 'A', 'b': 'AB', 'c': 'ABC'}, {'a': 'pop', 'b': 'pop_1', 'c': 'p'}],
                  'drop_unsampled': False})
    # designed: an unsampled deme that NO lineage can reach, listed BETWEEN two demes that are visited (matrices across demes must keep
    # its row and column where its name is), and the same with the two unsampled demes omitted (completed by the constructor)
    if not replay:
        gh_spec = {'n_items': [['a', 2], ['b', 0], ['c', 1]], 'model': {'kind': 'kingman'},
                   'pop_sizes': {'a': {'0.0': 1.0}, 'b': {'0.0': 2.0}, 'c': {'0.0': 0.5}},
                   'migration_rates': {'a>c': {'0.0': 0.7}, 'c>a': {'0.0': 0.3}}, 'end_time': None}
        cases.append({'spec': gh_spec, 'orders': [[2, 1, 0], [1, 0, 2]], 'renamings': [{'a': 'z', 'b': 'y', 'c': 'x'}], 'drop_unsampled': True})
        gh2 = {'n_items': [['a', 3], ['b', 0], ['c', 0]], 'model': {'kind': 'kingman'},
               'pop_sizes': {'a': {'0.0': 1.0}, 'b': {'0.0': 2.0}, 'c': {'0.0': 0.5}},
               'migration_rates': {'a>c': {'0.0': 0.7}, 'c>a': {'0.0': 0.3}}, 'end_time': None}
        cases.append({'spec': gh2, 'orders': [[1, 2, 0]], 'renamings': [], 'drop_unsampled': True})
        # designed: sampled populations listed in NON-sorted order with different counts and an unsampled one that is omitted in a variant
        us = {'n_items': [['b', 1], ['a', 2], ['c', 0]], 'model': {'kind': 'kingman'},
              'pop_sizes': {'b': {'0.0': 1.0}, 'a': {'0.0': 2.0}, 'c': {'0.0': 0.5}},
              'migration_rates': {'a>b': {'0.0': 0.5}, 'b>a': {'0.0': 0.25}, 'a>c': {'0.0': 0.8}, 'c>a': {'0.0': 0.3}, 'b>c': {'0.0': 0.2}, 'c>b': {'0.0': 0.6}},
              'end_time': None}
        cases.append({'spec': us, 'orders': [[1, 0, 2]], 'renamings': [], 'drop_unsampled': True})
    for hs in seeds:
        orc.run_oracle(res, 'naming', cases, hashseeds=None if hs == '0' else [hs] * len(cases), chunk=1)
    # exact correspondence of state spaces / rewards on the unsorted configurations
    space.run_stream(res, 'C08', specs[-(5 if res.tier == 'quick' else 24):], spaces=('lc',))
    res.extra['input_distribution'] = {'name_sets': sorted({','.join(p for p, _ in s['n_items']) for s in specs}),
                                       'hash_seeds': seeds}
