"""C02 - site-frequency-spectrum moments equal those of the true coalescent."""
import math
import random

import common as C
import gen
import numeric as N


def sfs_r(i, folded=False):
    return ['Combined', [['Unit'], ['FoldedSFS' if folded else 'UnfoldedSFS', i]]]


def build_ops(rng, spec):
    n = gen.effective_n(spec)
    bins = list(range(1, n))
    fbins = list(range(1, n // 2 + 1))
    pad = lambda vals, nb: [0.0] + vals + [0.0] * (n - nb)
    ops = []
    ops.append(dict(py={'kind': 'attr', 'path': 'sfs.mean'},
                    queries=[dict(kind='moment', k=1, rewards=[sfs_r(i)]) for i in bins],
                    combine=lambda mq, nb=len(bins): pad([x[0] for x in mq], nb), tol='mean'))
    ops.append(dict(py={'kind': 'attr', 'path': 'fsfs.mean'},
                    queries=[dict(kind='moment', k=1, rewards=[sfs_r(i, True)]) for i in fbins],
                    combine=lambda mq, nb=len(fbins): pad([x[0] for x in mq], nb), tol='mean'))
    ops.append(dict(py={'kind': 'attr', 'path': 'sfs.var'},
                    queries=[dict(kind='moment', k=2, rewards=[sfs_r(i), sfs_r(i)], center=True) for i in bins]
                    + [dict(kind='moment', k=1, rewards=[sfs_r(i)]) for i in bins],
                    combine=lambda mq, nb=len(bins): pad([x[0] for x in mq[:nb]], nb), tol='higher',
                    scale=lambda mq, nb=len(bins): max(x[0] ** 2 for x in mq[nb:])))
    ops.append(dict(py={'kind': 'attr', 'path': 'sfs.m2'},
                    queries=[dict(kind='moment', k=2, rewards=[sfs_r(i), sfs_r(i)], center=False) for i in bins],
                    combine=lambda mq, nb=len(bins): pad([x[0] for x in mq], nb), tol='higher'))
    # full covariance matrix: (M + M^T)/2 - mu mu^T with ordered second moments
    def cov_combine(mq, nb=len(bins)):
        M = [[mq[a * nb + b][0] for b in range(nb)] for a in range(nb)]
        mu = [mq[nb * nb + a][0] for a in range(nb)]
        full = [[0.0] * (n + 1) for _ in range(n + 1)]
        for a in range(nb):
            for b in range(nb):
                full[a + 1][b + 1] = (M[a][b] + M[b][a]) / 2 - mu[a] * mu[b]
        return full
    covq = [dict(kind='moment', k=2, rewards=[sfs_r(i), sfs_r(j)], center=False, permute=False) for i in bins for j in bins] \
        + [dict(kind='moment', k=1, rewards=[sfs_r(i)]) for i in bins]
    ops.append(dict(py={'kind': 'attr', 'path': 'sfs.cov'}, queries=covq, combine=cov_combine, tol='higher',
                    scale=lambda mq, nb=len(bins): max(x[0] ** 2 for x in mq[nb * nb:])))
    def corr_combine(mq, nb=len(bins)):
        c = cov_combine(mq, nb)
        out = [[0.0] * (n + 1) for _ in range(n + 1)]
        for a in range(n + 1):
            for b in range(n + 1):
                d = math.sqrt(max(c[a][a], 0.0)) * math.sqrt(max(c[b][b], 0.0))
                out[a][b] = c[a][b] / d if d > 0 else 0.0
        return out
    ops.append(dict(py={'kind': 'attr', 'path': 'sfs.corr'}, queries=covq, combine=corr_combine, tol='corr'))
    # the same matrices asked again AFTER the correlation matrix (cached objects must not be altered by later queries) and after
    # they have been plotted
    ops.append(dict(py={'kind': 'attr_after_plot', 'path': 'sfs.cov'}, queries=covq, combine=cov_combine, tol='higher',
                    scale=lambda mq, nb=len(bins): max(x[0] ** 2 for x in mq[nb * nb:])))
    ops.append(dict(py={'kind': 'attr', 'path': 'sfs.mean'},
                    queries=[dict(kind='moment', k=1, rewards=[sfs_r(i)]) for i in bins],
                    combine=lambda mq, nb=len(bins): pad([x[0] for x in mq], nb), tol='mean'))
    ops.append(dict(py={'kind': 'attr_after_plot', 'path': 'sfs.corr'}, queries=covq, combine=corr_combine, tol='corr'))
    if len(bins) >= 2:
        i, j = rng.sample(bins, 2)
        ops.append(dict(py={'kind': 'moment', 'route': 'coal', 'k': 2, 'rewards': [['UnfoldedSFS', i], ['UnfoldedSFS', j]], 'center': True},
                        queries=[dict(kind='moment', k=2, rewards=[['UnfoldedSFS', i], ['UnfoldedSFS', j]], center=True),
                                 dict(kind='moment', k=1, rewards=[['UnfoldedSFS', i]]), dict(kind='moment', k=1, rewards=[['UnfoldedSFS', j]])],
                        combine=lambda mq: mq[0][0], tol='higher', scale=lambda mq: abs(mq[1][0] * mq[2][0])))
    # the scalar entry points get_cov(i, j) / get_corr(i, j) (observe_at of the property) on the spectrum itself and on the spectrum of ONE
    # deme (sfs.demes[p]: a distribution that carries a non-default reward, which every bin has to be combined with)
    if len(bins) >= 2:
        def sfs_d(i, p=None):
            return ['Combined', [['Deme', p] if p is not None else ['Unit'], ['UnfoldedSFS', i]]]
        pops = [p for p, _ in spec['n_items']] if len(spec['n_items']) >= 2 and not spec.get('start_time') else []
        for pth, p in [('sfs', None)] + [(f'sfs.demes[{p}]', p) for p in pops[:1]]:
            for (i, j) in {tuple(rng.sample(bins, 2)), (bins[0], bins[0]), (bins[-1], bins[0])}:
                ops.append(dict(py={'kind': 'call', 'path': pth, 'method': 'get_cov', 'args': [i, j]},
                                queries=[dict(kind='moment', k=2, rewards=[sfs_d(i, p), sfs_d(j, p)], center=True),
                                         dict(kind='moment', k=1, rewards=[sfs_d(i, p)]), dict(kind='moment', k=1, rewards=[sfs_d(j, p)])],
                                combine=lambda mq: mq[0][0], tol='higher', scale=lambda mq: max(abs(mq[1][0] * mq[2][0]), 1e-3)))
        i, j = bins[0], bins[-1]
        ops.append(dict(py={'kind': 'call', 'path': 'sfs', 'method': 'get_corr', 'args': [i, j]},
                        queries=[dict(kind='moment', k=2, rewards=[sfs_d(a, None), sfs_d(b, None)], center=True) for (a, b) in ((i, j), (i, i), (j, j))],
                        combine=lambda mq: mq[0][0] / math.sqrt(mq[1][0] * mq[2][0]), tol='corr'))
    return ops


def run(res, replay=None):
    # pinned reading of the assembly of the SFS statistics (moment layout, cov, corr, get_cov, bin indices): re-check the CURRENT source against it and proofs/GenSfsEquiv.v
    import translate_step; (res.proof is not None) and translate_step.run(res.proof, pid=res.pid, tie='sfs')
    # pinned reading of phasegen/utils.py (parallelize is the ordered map the SFS assembly assumes): re-check the CURRENT source against it and proofs/GenUtilsEquiv.v
    import translate_step; (res.proof is not None) and translate_step.run(res.proof, pid=res.pid, tie='utils')
    # pinned reading of the two-dimensional spectrum class (SFS2.fold / symmetrize / arithmetic of phasegen/spectrum.py, what cov and corr are wrapped in): re-check the CURRENT source against it and proofs/GenSpectrumEquiv.v
    import translate_step; (res.proof is not None) and translate_step.run(res.proof, pid=res.pid, tie='spectrum')
    # structural tie of the propagation loops (_accumulate, cdf) of phasegen/distributions.py: translate the CURRENT source and re-check proofs/GenLoopsEquiv.v
    import translate_step; (res.proof is not None) and translate_step.run(res.proof, pid=res.pid, tie='loops')
    # structural tie of the moment assembly (accumulate: centring, permutation average - what get_cov runs): translate the CURRENT source and re-check proofs/GenMomentsEquiv.v
    import translate_step; (res.proof is not None) and translate_step.run(res.proof, pid=res.pid, tie='moments')
    # structural tie of phasegen/rewards.py: translate the CURRENT source and re-check proofs/GenRewardsEquiv.v against it
    import translate_step; (res.proof is not None) and translate_step.run(res.proof, pid=res.pid, tie='rewards')
    rng = random.Random(res.seed)
    res.rule = ('sfs stream: random single-locus configurations (n<=4, thorough n<=5; 1-2 demes; three models; 1-3 epochs; '
                'with/without end time; multiple-merger cases preceded in the same process by another parameterisation of the same model family), block-counting space: sfs.mean, fsfs.mean, sfs.var, sfs.m2, full sfs.cov and '
                'sfs.corr matrices and one explicit cross moment, each entry compared with the Gallina model evaluated in '
                'binary64 (1e-7 relative for means, 1e-6 of the raw-moment scale otherwise), layout (zeros at 0 and n, bin i '
                'at index i) included; non-trivial = some entry non-zero; distinct = distinct (configuration, statistic)')
    res.assumptions = ['numeric model uses a Taylor/squaring exponential in binary64; SciPy backend accuracy is observed, not proved']
    nspec = 8 if res.tier == 'quick' else 60
    specs = [replay['replay']['spec']] if replay else \
        [gen.rand_spec(rng, n_total=rng.choice([2, 3, 3, 4] if res.tier == 'quick' else [3, 4, 4, 5]),
                       n_demes=rng.choice([1, 1, 2]), n_epochs=rng.choice([1, 2, 3])) for _ in range(nspec)]
    for j, s in enumerate(specs):
        if j % 3 == 1 and not replay:
            s['start_time'] = 0.25
            s['end_time'] = (s.get('end_time') or 2.0) + 0.5
    # a start time is only claimed for FIRST moments (second moments are not additive over windows): with a start
    # time only the mean spectra are compared
    items = [dict(spec=s, lc=False, ops=[o for o in build_ops(rng, s)
                                          if not s.get('start_time') or o['py'].get('path') in ('sfs.mean', 'fsfs.mean')])
             for s in specs]
    # the same model family with OTHER parameters evaluated earlier in the same process
    if not replay:
        for j, it in enumerate(items[:]):
            m = it['spec']['model']
            if m['kind'] == 'kingman' or it['spec'].get('start_time'):
                continue
            other = dict(m, **({'alpha': 1.375} if m['kind'] == 'beta' else {'psi': 0.625 if m['psi'] != 0.625 else 0.375, 'c': 3.0}))
            pre = gen.rand_spec(rng, n_total=gen.effective_n(it['spec']) + 1, n_demes=1, n_epochs=2)
            pre['model'] = other
            it['prelude'] = [pre]
    # designed: the OTHER model family (another enumeration order of the same states) with the same sample size and number of
    # demes evaluated earlier in the same process; mean spectra only (n = 4, two demes)
    if not replay:
        base = {'n_items': [['a', 2], ['b', 2]], 'pop_sizes': {'a': {'0.0': 1.0}, 'b': {'0.0': 2.0, '1.0': 0.5}},
                'migration_rates': {'a>b': {'0.0': 0.5}, 'b>a': {'0.0': 1.0}}}
        for mdl, pre in (({'kind': 'dirac', 'psi': 0.5, 'c': 1.0, 'scale_time': False}, {'kind': 'kingman'}),
                         ({'kind': 'kingman'}, {'kind': 'beta', 'alpha': 1.5, 'scale_time': False})):
            sp = dict(base, model=mdl, designed='other_family_first')
            pr = dict(base, model=pre, n_items=[['a', 3], ['b', 1]])
            items.append(dict(spec=sp, lc=False, prelude=[pr],
                              ops=[o for o in build_ops(rng, sp) if o['py'].get('path') in ('sfs.mean', 'fsfs.mean')]))
    # designed (seed-independent): (a) the textbook case - Kingman, one population of constant size - with an end time / a start
    # time on the Coalescent (closed forms of the complete tree do not apply to a window); (b) time-scaled multiple-merger models in
    # one population whose size changes (the time scale is not linear in N: rates of a new epoch are not a rescaling of an old one)
    if not replay:
        for extra in ({'end_time': 1.5}, {'start_time': 0.25, 'end_time': 3.0}):
            sp = dict({'n_items': [['a', 4]], 'model': {'kind': 'kingman'}, 'pop_sizes': {'a': {'0.0': 2.0}}, 'designed': 'window_constant_size'}, **extra)
            items.append(dict(spec=sp, lc=False, ops=[o for o in build_ops(rng, sp) if o['py'].get('path') in ('sfs.mean', 'fsfs.mean')]))
        for mdl in ({'kind': 'dirac', 'psi': 0.5, 'c': 1.0, 'scale_time': True}, {'kind': 'beta', 'alpha': 1.5, 'scale_time': True}):
            sp = {'n_items': [['a', 4]], 'model': mdl, 'pop_sizes': {'a': {'0.0': 1.0, '0.5': 4.0, '2.0': 0.5}}, 'designed': 'scaled_mm_size_change'}
            items.append(dict(spec=sp, lc=False, ops=[o for o in build_ops(rng, sp) if o['py'].get('path') in ('sfs.mean', 'fsfs.mean', 'sfs.var')]))
        # the FULL covariance / correlation matrices for n = 4 and n = 5 (the smallest sizes with pairs i > j, i + j > n whose ordered
        # second cross moment is exactly zero on one side): every entry against the model
        for n_ in ((4,) if res.tier == 'quick' else (4, 5)):
            sp = {'n_items': [['a', n_]], 'model': {'kind': 'kingman'}, 'pop_sizes': {'a': {'0.0': 1.0, '0.5': 2.0}}, 'designed': 'full_cov_matrix'}
            items.append(dict(spec=sp, lc=False, ops=[o for o in build_ops(rng, sp) if o['py'].get('path') in ('sfs.cov', 'sfs.corr') and o['py'].get('kind') == 'attr']))
        # a very short, very strong bottleneck (the piecewise-constant stand-in for an instantaneous one): an epoch far shorter than
        # 1e-5 of its end time still carries 5 coalescent units
        sp = {'n_items': [['a', 4]], 'model': {'kind': 'kingman'}, 'pop_sizes': {'a': {'0.0': 1.0, '1.0': 1e-6, '1.000005': 1.0}},
              'designed': 'short_strong_bottleneck'}
        items.append(dict(spec=sp, lc=False, ops=[o for o in build_ops(rng, sp) if o['py'].get('path') in ('sfs.mean', 'fsfs.mean')]))
    # SFS accumulation curves on several points at once (points inside epochs, on boundaries, beyond the last change)
    for s in specs[: (3 if res.tier == 'quick' else 15)]:
        if s.get('start_time'):
            continue
        n = gen.effective_n(s)
        bs = sorted({float(t) for d in s['pop_sizes'].values() for t in d})
        ts = sorted({0.3125, 1.0, 2.75} | set(bs[1:2]))
        rng.shuffle(ts)
        items.append(dict(spec=s, lc=False, ops=[dict(
            py={'kind': 'accumulate', 'dist': 'sfs', 'k': 1, 'ts': ts, 'center': False},
            queries=[dict(kind='accumulate', k=1, rewards=[sfs_r(i)], center=False, ts=ts) for i in range(1, n)],
            combine=lambda mq, n_=n, nt=len(ts): [[0.0] * nt] + [list(x) for x in mq] + [[0.0] * nt] * (n_ - len(mq)),
            uses_horizon=False)]))
    results = N.run_items(res, 'C02', 'sfs', items, what='SFS moment differs from the branch-length moment of the labelled coalescent (model value)')
    # layout oracle on the implementation
    for it, r, mvals in results:
        n = gen.effective_n(it['spec'])
        mean = r['values'][0]
        if it['ops'][0]['py'].get('path') != 'sfs.mean':
            continue
        if mean is not None and (len(mean) != n + 1 or mean[0] != 0 or mean[n] != 0):
            res.violation('SFS is not padded with zeros at 0 and n', {'spec': it['spec'], 'mean': mean})
    res.extra['input_distribution'] = {
        'by_model': {k: sum(1 for s in specs if s['model']['kind'] == k) for k in ('kingman', 'beta', 'dirac')},
        'n': sorted(gen.effective_n(s) for s in specs)}
