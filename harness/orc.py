"""Runs the implementation-side property oracles (impl/oracles.py) in parallel and records violations."""
import common as C
import gen


def run_oracle(res, name, cases, hashseeds=None, chunk=2, finding_key=None):
    chunks = [cases[i:i + chunk] for i in range(0, len(cases), chunk)]
    outs = C.run_impl_parallel('oracles.py', [{'oracle': name, 'cases': ch} for ch in chunks], timeout=2400,
                               hashseeds=hashseeds)
    nchecks = 0
    results = []
    for ch, o in zip(chunks, outs):
        for case, r in zip(ch, o['results']):
            results.append((case, r))
            key = (name, gen.spec_key(case.get('spec', case)), str({k: v for k, v in case.items() if k != 'spec'}))
            if 'error' in r:
                res.violation(f'{name} oracle: the implementation raised on a valid configuration',
                              {'case': case, 'error': r['error'], 'traceback': r.get('traceback')})
                res.count(key, nontrivial=False)
                continue
            res.count(key, nontrivial=r['checks'] > 0, n=max(1, r['checks']))
            nchecks += r['checks']
            for f in r['failures'][:3]:
                res.violation(f['what'], {'case': case, 'details': {k: v for k, v in f.items() if k != 'what'}},
                              finding_key=(finding_key(case, f) if finding_key else None))
    res.stream(name, cases=len(cases), relations_checked=nchecks)
    return results
