"""C03 - tree-height CDF, density and quantiles describe the true time to the MRCA."""
import random

import common as C
import gen
import numeric as N


def boundaries(spec):
    return sorted({float(t) for d in (spec.get('pop_sizes') or {}).values() for t in d} |
                  {float(t) for d in (spec.get('migration_rates') or {}).values() for t in d} |
                  {float(e['time']) for e in (spec.get('late_events') or []) if 'time' in e})


def run(res, replay=None):
    # structural tie of the searches on the distribution function (_update, _cum, quantile, _get_absorption_time, t_max): translate the CURRENT source and re-check proofs/GenSearchEquiv.v
    import translate_step; (res.proof is not None) and translate_step.run(res.proof, pid=res.pid, tie='search')
    # pinned reading of the marginal distributions (demes / loci: get_cov, cov, corr; mean / var / std / m2) and of the density pdf: re-check the CURRENT source against it and proofs/GenMarginalsEquiv.v
    import translate_step; (res.proof is not None) and translate_step.run(res.proof, pid=res.pid, tie='marginals')
    # structural tie of the propagation loops (_accumulate, cdf) of phasegen/distributions.py: translate the CURRENT source and re-check proofs/GenLoopsEquiv.v
    import translate_step; (res.proof is not None) and translate_step.run(res.proof, pid=res.pid, tie='loops')
    # pinned reading of phasegen/expm.py (which matrix exponential Backend.expm denotes: SciPy's in binary64 unless another backend is registered): re-check the CURRENT source against it and proofs/GenExpmEquiv.v
    import translate_step; (res.proof is not None) and translate_step.run(res.proof, pid=res.pid, tie='expm')
    rng = random.Random(res.seed)
    res.rule = ('cdf stream: random configurations (one locus: n<=4, 1-3 demes, three models, 1-3 epochs, half of them built with an early end_time on the Coalescent; two loci: n<=3, '
                'Kingman); cdf at 0, interior points, exact epoch boundaries and beyond the last change (scalar and array '
                'calls) compared with the Gallina model in binary64 (1e-9 absolute); quantile(q) for q in {0.05, 0.5, 0.9, '
                '0.99}: the MODEL cdf at the returned time must be within 1e-5 of q; pdf(t, dx=2^-12) against the same difference '
                'quotient of the model cdf (well defined also at epoch boundaries, where the cdf has a kink); oracles on the implementation: cdf(0)=0, non-decreasing, within [0,1], -> 1, integral of '
                '1-cdf = mean; non-trivial = configuration with n >= 2; distinct = distinct (configuration, query)')
    res.assumptions = ['numeric model uses a Taylor/squaring exponential in binary64']
    nspec = 8 if res.tier == 'quick' else 60
    specs = []
    if replay:
        specs = [replay['replay']['spec']]
    else:
        for i in range(nspec):
            if i % 4 == 1:
                # the same rates in force in two finite epochs of different duration (nothing remembered per Epoch may be
                # reused for another duration); scalar calls and quantiles cross both epochs in one step
                s = gen.recurring_spec(rng, n_total=rng.choice([2, 3, 4]), n_demes=rng.choice([1, 1, 2]))
            elif i % 4 == 3:
                s = gen.rand_spec(rng, n_total=rng.choice([2, 3]), n_demes=1, n_epochs=rng.choice([1, 2]), loci=2, end_time='never')
                s['recombination_rate'] = rng.choice([0.0, 0.5, 2.0])
            else:
                # every other one-locus configuration carries its own (early) end time: the end time bounds the window
                # over which MOMENTS accumulate; the cdf / density / quantiles still describe the full time to the MRCA
                # every fourth configuration: two demes and a boundary at which ONLY migration rates change
                mob = (i % 4 == 2)
                s = gen.rand_spec(rng, n_total=rng.choice([2, 2, 3, 4] if not mob else [2, 3]), n_epochs=rng.choice([1, 2, 3]),
                                  n_demes=(2 if mob else None), mig_only_boundary=mob,
                                  end_time=('always' if i % 2 == 0 else 'never'))
            specs.append(s)
    if not replay:
        # designed: the user looks at the object (size of its state space), THEN completes the demography the object holds
        # (a change taking effect at time 0 and a later one), THEN asks for the distribution function
        specs.append({'n_items': [['a', 3]], 'model': {'kind': 'kingman'}, 'pop_sizes': {'a': {'0.0': 1.0, '1.0': 0.5}},
                      'late_events': [{'type': 'PopSizeChange', 'pop': 'a', 'time': 0.0, 'size': 2.0}], 'designed': 'late_event'})
        specs.append({'n_items': [['a', 1], ['b', 1]], 'model': {'kind': 'kingman'}, 'pop_sizes': {'a': {'0.0': 1.0}, 'b': {'0.0': 2.0}},
                      'migration_rates': {'a>b': {'0.0': 0.5}, 'b>a': {'0.0': 0.25}},
                      'late_events': [{'type': 'MigrationRateChange', 'source': 'a', 'dest': 'b', 'time': 0.0, 'rate': 2.0},
                                      {'type': 'PopSizeChange', 'pop': 'b', 'time': 0.5, 'size': 0.5}], 'designed': 'late_event'})
    if not replay:
        # designed: a time scale of millions of time units (N = 2^21, n = 2: the median is N ln 2 = 1.45e6 time units, the 99% quantile
        # 9.7e6): whatever bounds the search for the bracket of a quantile must not be an absolute number of time units
        specs.append({'n_items': [['a', 2]], 'model': {'kind': 'kingman'}, 'pop_sizes': {'a': {'0.0': 2097152.0}},
                      'designed': 'large_time_scale', 'time_scale': 2097152.0})
    if not replay:
        # designed: two loci with recombination in ONE deme whose size changes twice (recombination rates do not depend on the population
        # size: the rate matrix of a later epoch is not a rescaling of the first one)
        specs.append({'n_items': [['a', 3]], 'model': {'kind': 'kingman'}, 'loci': 2, 'recombination_rate': 1.5,
                      'pop_sizes': {'a': {'0.0': 1.0, '0.4': 4.0, '1.5': 0.5}}, 'designed': 'two_loci_size_changes'})
    qs_levels = [0.05, 0.5, 0.9, 0.99]
    NS = 4      # number of single-time cdf calls per configuration
    cases = []
    for s in specs:
        bs = boundaries(s)
        ts = sorted(set([0.0, 0.0625, 0.5, 1.0, 2.0, 6.0] + bs + [max(bs) + 1.5]))
        ts = ts[:1] + rng.sample(ts[1:], len(ts) - 1)      # arbitrary order after t = 0 (values are compared per position)
        grid = [i * 0.125 for i in range(0, 321)]      # for the integral of the survival function (up to t = 40)
        far = max(bs) + 1.5
        scal = ts[:3] + [far]
        # every other case asks its quantiles with a documented NON-DEFAULT expansion factor of the bracket search (any factor > 1 is valid;
        # the returned time has to meet the same precision) - by position, not by a random draw
        qkw = {} if len(cases) % 2 == 0 else {'kw': {'expansion_factor': [1.5, 3.0, 4.0, 10.0][(len(cases) // 2) % 4]}}
        ops = [{'kind': 'cdf', 'ts': ts}] + [{'kind': 'cdf', 'ts': [t]} for t in scal] + \
              [dict({'kind': 'quantile', 'q': q}, **qkw) for q in qs_levels] + \
              [{'kind': 'pdf', 'ts': [0.25, 1.0, 2.5, 0.0], 'dx': 2.0 ** -12}, {'kind': 'attr', 'path': 'tree_height.mean'},
               {'kind': 'cdf', 'ts': grid}, {'kind': 'cdf', 'ts': [1e3 * s.get('time_scale', 1.0), 1e4 * s.get('time_scale', 1.0)]}]
        cases.append({'spec': s, 'ops': ops, 'ts': ts, 'far_pos': ts.index(far)})
    outs = C.run_impl_parallel('numeric.py', [{'cases': [{'spec': c['spec'], 'ops': c['ops']}]} for c in cases])
    bodies, keep = [], []
    h = 2.0 ** -13      # half of the dx passed to pdf: the model evaluates the very same difference quotient
    for i, (c, o) in enumerate(zip(cases, outs)):
        r = o['results'][0]
        if 'error' in r or any(r['errors']):
            res.violation('valid configuration raised', {'spec': c['spec'], 'error': r.get('error') or r['errors']})
            continue
        nts = len(c['ts'])
        tq = r['values'][1 + NS: 1 + NS + len(qs_levels)]
        pdf_pts = [0.25, 1.0, 2.5]
        model_ts = list(c['ts']) + list(tq) + [x + s_ for x in pdf_pts for s_ in (-h, h)] + [0.0, 2.0 ** -12]
        # the code's own difference quotient: x1 = max(t - dx/2, 0), x2 = x1 + dx with dx = 2^-12 (exact in binary64)
        if r['k_lc'] > 70:
            continue
        txt, _ = N.case_text(i, c['spec'], r, [dict(kind='cdf', ts=model_ts)], [])
        bodies.append(txt)
        keep.append((c, r, tq, pdf_pts))
    couts = C.run_coq_cases('C03', 'cdf', N.HEADER, bodies, timeout=1500)
    for (c, r, tq, pdf_pts), (rc, vals, raw) in zip(keep, couts):
        if rc != 0 or len(vals) != 1:
            res.violation('model evaluation failed', {'spec': c['spec'], 'coq_output': raw[-1500:]}, concrete=False)
            continue
        m = C.parse_term(vals[0])[0]
        nts = len(c['ts'])
        key = gen.spec_key(c['spec'])
        vec = r['values'][0]
        for j, (t, mv, iv) in enumerate(zip(c['ts'], m[:nts], vec)):
            res.count((key, 'cdf', t))
            if C.gt(abs(mv - iv), 1e-9):
                res.violation('cdf differs from the absorption probability of the labelled process (model)',
                              {'spec': c['spec'], 't': t, 'expected': mv, 'observed': iv})
                break
        for j in range(NS):   # scalar-ish calls (the last one lies beyond every change point)
            pos = j if j < 3 else c['far_pos']
            if C.gt(abs(r['values'][1 + j][0] - vec[pos]), 1e-10) or C.gt(abs(r['values'][1 + j][0] - m[pos]), 1e-9):
                res.violation('cdf of one time alone differs from the vectorised value / the model',
                              {'spec': c['spec'], 't': c['ts'][pos], 'alone': r['values'][1 + j][0], 'vectorised': vec[pos], 'model': m[pos]})
        for q, t, mv in zip([0.05, 0.5, 0.9, 0.99], tq, m[nts:nts + len(tq)]):
            res.count((key, 'quantile', q))
            if C.gt(abs(mv - q), 1e-5 + 1e-9):
                res.violation('quantile: the CDF at the returned time is not within the stated precision of q',
                              {'spec': c['spec'], 'q': q, 'returned_time': t, 'model_cdf_at_time': mv})
        pm = m[nts + len(tq):]
        for k_, x in enumerate(pdf_pts[:3]):
            d_model = (pm[2 * k_ + 1] - pm[2 * k_]) / 2.0 ** -12
            d_impl = r['values'][1 + NS + 4][k_]
            res.count((key, 'pdf', x))
            if C.gt(abs(d_model - d_impl), 1e-6 * abs(d_model) + 2e-6):
                res.violation('pdf does not agree with the derivative of the cdf',
                              {'spec': c['spec'], 't': x, 'model_derivative': d_model, 'observed_pdf': d_impl})
        # density at t = 0: right derivative of the model cdf
        d0_model = (pm[-1] - pm[-2]) / 2.0 ** -12      # the same one-sided difference the code uses at t = 0 (dx = 2^-12)
        d0_impl = r['values'][1 + NS + 4][3]
        res.count((key, 'pdf', 0.0), nontrivial=d0_model > 1e-6)
        if C.gt(abs(d0_model - d0_impl), 1e-6 * abs(d0_model) + 1e-9):
            res.violation('pdf(0) does not agree with the (right) derivative of the cdf at 0',
                          {'spec': c['spec'], 't': 0.0, 'model_derivative': d0_model, 'observed_pdf': d0_impl})
        # oracles on the implementation
        mean = r['values'][1 + NS + 4 + 1]
        grid = r['values'][1 + NS + 4 + 2]
        far = r['values'][1 + NS + 4 + 3]
        srt = sorted(zip(c['ts'], vec))
        if any(b[1] < a[1] - 1e-12 for a, b in zip(srt, srt[1:])):
            res.violation('cdf values of one vector call are not non-decreasing in t', {'spec': c['spec'], 'ts': c['ts'], 'cdf': vec})
        if C.gt(abs(vec[0]), 1e-12) and c['ts'][0] == 0.0:
            res.violation('cdf(0) is not 0', {'spec': c['spec'], 'cdf0': vec[0]})
        if any(b < a - 1e-12 for a, b in zip(grid, grid[1:])) or min(grid) < -1e-12 or max(grid) > 1 + 1e-12:
            res.violation('cdf is not non-decreasing within [0,1]', {'spec': c['spec'], 'grid_head': grid[:8]})
        connected = all(v > 0 for d in (c['spec'].get('migration_rates') or {'x': {'0': 1}}).values() for v in d.values())
        if connected and far[-1] < 1 - 1e-6:
            res.violation('cdf does not tend to 1 although coalescence is certain', {'spec': c['spec'], 'cdf(1e4)': far[-1]})
        # the mean against the integral of the survival function on [0, 40] (only when almost all mass is below 40): the cdf is non-decreasing,
        # so the integral lies between the lower and the upper Riemann sum of 1 - cdf on the grid - a SOUND bracket whatever the time scale of
        # the model (a trapezoid with a fixed tolerance is not: with sizes of 1/8 the whole law fits into one grid step)
        if grid[-1] > 1 - 1e-7 and r['t_max'] >= 40:
            lower = sum((1 - b) * 0.125 for b in grid[1:])
            upper = sum((1 - a) * 0.125 for a in grid[:-1])
            tol_i = 1e-5 * max(1.0, mean)
            tail = (r['t_max'] - 40) * (1 - grid[-1])      # what the survival function can still contribute between 40 and the horizon
            if not (lower - tol_i <= mean <= upper + tail + tol_i):
                res.violation('the mean does not lie between the lower and upper Riemann sums of 1 - cdf',
                              {'spec': c['spec'], 'lower_sum': lower, 'upper_sum': upper, 'mean': mean})
        res.sample({'spec': c['spec'], 'ts': c['ts'][:4], 'cdf': vec[:4], 'quantiles': tq}, cap=3)
    res.stream('cdf', configurations=len(keep))
    res.extra['input_distribution'] = {'two_loci': sum(1 for s in specs if s.get('loci') == 2),
                                       'by_model': {k: sum(1 for s in specs if s['model']['kind'] == k) for k in ('kingman', 'beta', 'dirac')}}
