"""Generators of structured, mostly valid configuration specs (see impl/build.py).

All numeric parameters are small dyadic rationals so that the implementation's own float
arithmetic on rates and epoch boundaries is exact (population sizes are powers of two in the
exact streams: the code divides by the time scale)."""
import itertools

POPS = ['a', 'b', 'c']


def dyadic(rng, lo, hi, den=8):
    """dyadic rational k/den in [lo, hi]"""
    k = rng.randrange(int(lo * den), int(hi * den) + 1)
    return k / den


def pow2(rng, lo=-3, hi=3):
    return 2.0 ** rng.randrange(lo, hi + 1)


def compositions(n, k):
    """all ways to write n as an ordered sum of k non-negative integers"""
    if k == 1:
        yield (n,)
        return
    for i in range(n + 1):
        for rest in compositions(n - i, k - 1):
            yield (i,) + rest


def rand_model(rng, kinds=('kingman', 'beta', 'dirac')):
    k = rng.choice(kinds)
    if k == 'kingman':
        return {'kind': 'kingman'}
    if k == 'beta':
        return {'kind': 'beta', 'alpha': rng.choice([1.25, 1.5, 1.75, 1.125, 1.875]), 'scale_time': rng.random() < 0.4}
    return {'kind': 'dirac', 'psi': rng.choice([0.25, 0.5, 0.75, 0.125]), 'c': rng.choice([0.5, 1.0, 2.0, 8.0]),
            'scale_time': rng.random() < 0.5}


def rand_times(rng, n_changes, tmax=4.0, den=8):
    ts = set()
    while len(ts) < n_changes:
        ts.add(dyadic(rng, 1 / den, tmax, den))
    return sorted(ts)


def rand_spec(rng, n_total=None, n_demes=None, n_epochs=None, kinds=('kingman', 'beta', 'dirac'),
              loci=1, exact_sizes=True, names=None, end_time='maybe', size_range=(-3, 3), isolation=False,
              mig_only_boundary=False):
    n_demes = n_demes or rng.choice([1, 1, 2, 2, 3])
    n_total = n_total or rng.choice([2, 3, 3, 4, 4, 5])
    n_epochs = n_epochs or rng.choice([1, 1, 2, 3])
    if names is None:
        # listing order of the populations is random (not sorted): statistics must not depend on it
        names = rng.sample(POPS, len(POPS))
    names = names[:n_demes]
    comp = rng.choice([c for c in compositions(n_total, n_demes)])
    spec = {'n_items': [[p, int(c)] for p, c in zip(names, comp)], 'model': rand_model(rng, kinds)}
    change_times = [0.0] + rand_times(rng, n_epochs - 1)
    ps = {}
    for p in names:
        d = {}
        for t in change_times:
            if t == 0.0 or rng.random() < 0.7:
                d[repr(t)] = pow2(rng, *size_range) if exact_sizes else dyadic(rng, 0.125, 8, 16)
        ps[p] = d
    spec['pop_sizes'] = ps
    if n_demes > 1:
        mr = {}
        for p, q in itertools.permutations(names, 2):
            d = {}
            for t in change_times:
                if t == 0.0 or rng.random() < 0.5:
                    d[repr(t)] = rng.choice([0.0, 0.25, 0.5, 1.0, 2.0, 0.125]) if t > 0 else rng.choice([0.25, 0.5, 1.0, 2.0, 0.125])
            mr[f'{p}>{q}'] = d
        spec['migration_rates'] = mr
    if loci == 2:
        spec['loci'] = 2
        spec['recombination_rate'] = rng.choice([0.0, 0.25, 1.0, 4.0, 0.5])
        spec['n_unlinked'] = 0
        spec['model'] = {'kind': 'kingman'}
    if n_demes > 1 and isolation and n_epochs > 1:
        # isolation then contact: no migration in the first epoch (rewards can stall before absorption)
        t1 = repr(change_times[1])
        for k in spec['migration_rates']:
            d = spec['migration_rates'][k]
            d['0.0'] = 0.0
            d[t1] = d.get(t1) or 0.5
    if n_demes > 1 and mig_only_boundary:
        # one more boundary at which ONLY migration rates change (all sizes stay as they are)
        t_new = max(change_times) + rng.choice([0.25, 0.5, 1.0])
        ks = list(spec['migration_rates'])
        for k in rng.sample(ks, rng.randrange(1, len(ks) + 1)):
            d = spec['migration_rates'][k]
            last = d[max(d, key=float)]
            d[repr(t_new)] = rng.choice([v for v in (0.125, 0.5, 2.0, 4.0) if v != last])
    if end_time == 'always' or (end_time == 'maybe' and rng.random() < 0.5):
        spec['end_time'] = dyadic(rng, 0.5, 6, 4)
    return spec


def recurring_spec(rng, n_total=None, n_demes=None, kinds=('kingman', 'beta', 'dirac'), end_time='never'):
    """A demography in which the SAME sizes and migration rates are in force in two finite epochs of DIFFERENT
    duration (bottleneck and recovery: A B A C, or a redundant change point that splits an epoch unevenly: A A B):
    anything remembered per Epoch (whose equality ignores the boundaries) must not be reused for another duration."""
    spec = rand_spec(rng, n_total=n_total, n_demes=n_demes, n_epochs=1, kinds=kinds, end_time=end_time)
    d0 = rng.choice([0.25, 0.5, 0.75])
    d2 = rng.choice([x for x in (0.25, 0.5, 1.0, 1.5) if x != d0])
    if rng.random() < 0.6:
        d1 = rng.choice([0.25, 0.5, 1.0])
        times, pattern = [d0, d0 + d1, d0 + d1 + d2], 'ABAC'
    else:
        times, pattern = [d0, d0 + d2], 'AAB'

    def other(v, pool):
        return rng.choice([x for x in pool if x != v])
    for tab, pool in ((spec['pop_sizes'], [0.25, 0.5, 2.0, 4.0, 1.0]), (spec.get('migration_rates') or {}, [0.125, 0.5, 1.0, 2.0, 0.25])):
        for k, d in tab.items():
            a = d['0.0']
            if pattern == 'ABAC':
                d[repr(times[0])] = other(a, pool)
                d[repr(times[1])] = a
                d[repr(times[2])] = other(a, pool)
            else:
                d[repr(times[0])] = a
                d[repr(times[1])] = other(a, pool)
    spec['recurring'] = pattern
    return spec


def spec_key(spec):
    import json
    return json.dumps(spec, sort_keys=True)


def effective_n(spec):
    return sum(c for _, c in spec['n_items']) if 'n_items' in spec else (
        spec['n'] if isinstance(spec['n'], int) else sum(spec['n']))
