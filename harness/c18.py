"""C18 - serialisation round-trips preserve configuration and results."""
import json
import random

import common as C
import gen


def run(res, replay=None):
    # pinned reading of the serialisation code (serialization.py, Coalescent / Inference __getstate__ / __setstate__ / to_json): re-check the CURRENT source against it and proofs/GenSerialEquiv.v
    import translate_step; (res.proof is not None) and translate_step.run(res.proof, pid=res.pid, tie='serial')
    rng = random.Random(res.seed)
    res.rule = ('serial stream: configurations over all three models, one and two loci, 1-3 demes, demographies built from '
                'discrete events (dicts, PopSizeChange(s), MigrationRateChange(s), PopulationSplit), start/end times: '
                'save -> load as string and as file, before and after computing, twice in a row; compared exactly: '
                'configuration fields (lineages, model and parameters, loci, times, flags, first 8 epochs), statistics '
                '(moments, cdf, quantile, SFS mean/cov or locus covariance) of the loaded object vs the original, and the '
                'original object before/after saving (state-space cache contents, cached attributes); Inference before/'
                'after a small run and a 2-SFS; non-trivial = configuration with a demography change or two loci')
    res.assumptions = ['jsonpickle/dill codecs are contracts of the model, exercised here']
    ncase = 8 if res.tier == 'quick' else 50
    cases = []
    if replay:
        cases = [replay['replay']['case']]
    else:
        for i in range(ncase):
            loci = 2 if i % 3 == 2 else 1
            s = gen.rand_spec(rng, n_total=rng.choice([2, 3]), n_demes=rng.choice([1, 2]), n_epochs=rng.choice([1, 2, 3]), loci=loci)
            if i % 4 == 1 and len(s['n_items']) == 2:
                pops = [p for p, _ in s['n_items']]
                s['events'] = [{'type': 'PopSizeChange', 'pop': pops[0], 'time': 0.75, 'size': 2.0},
                               {'type': 'MigrationRateChange', 'source': pops[0], 'dest': pops[1], 'time': 1.25, 'rate': 0.5}]
                s['added_events'] = [{'type': 'PopulationSplit', 'time': 2.0, 'derived': pops[1], 'ancestral': pops[0]}]
            if rng.random() < 0.3:
                s['start_time'] = 0.25
                s['end_time'] = (s.get('end_time') or 2.0) + 0.25
            cases.append({'spec': s})
    outs = C.run_impl_parallel('serial.py', [{'cases': [c], 'extras': i == 0} for i, c in enumerate(cases)], timeout=1800)
    for i, (c, o) in enumerate(zip(cases, outs)):
        r = o['results'][0]
        s = c['spec']
        res.count(json.dumps(c, sort_keys=True),
                  nontrivial=(s.get('loci') == 2 or any(len(d) > 1 for d in s['pop_sizes'].values()) or bool(s.get('events'))))
        if 'error' in r:
            res.violation('serialisation raised on a valid configuration', {'case': c, 'error': r['error']})
        for f in r.get('failures', [])[:2]:
            res.violation(f['what'], {'case': c, 'details': {k: v for k, v in f.items() if k != 'what'}})
        if i == 0:
            ex = o['extras']
            res.count('extras-inference-sfs2')
            if 'error' in ex:
                res.violation('Inference / 2-SFS serialisation raised', {'error': ex['error']})
            for f in ex['failures']:
                res.violation(f['what'], {'details': f})
        res.sample({'spec': s, 'json_len': r.get('json_len')}, cap=3)
    res.stream('serial', cases=len(cases))
    res.extra['input_distribution'] = {'two_loci': sum(1 for c in cases if c['spec'].get('loci') == 2),
                                       'with_events': sum(1 for c in cases if c['spec'].get('events')),
                                       'by_model': {k: sum(1 for c in cases if c['spec']['model']['kind'] == k) for k in ('kingman', 'beta', 'dirac')}}
