"""C14 - merger rates follow their Lambda-measure and time scale.

Proof step: props/C14.v.  Correspondence: stream `rates` (exact rationals of the Gallina model
CoalModels.v against phasegen.coalescent_models on the same (model, b, k) / block vectors).
Oracle on the implementation: sampling consistency, non-negativity, block sums, Kingman limits,
documented time scales (mpmath, independent of SciPy)."""
import itertools
import json
import random
from fractions import Fraction as Fr

import common as C

HEADER = """From Coq Require Import QArith ZArith List.
From PG Require Import base.Ops base.Show model.CoalModels.
Import ListNotations.
Open Scope Q_scope.
"""


def model_coq(m):
    if m['kind'] == 'kingman':
        return 'Kingman'
    st = 'true' if m.get('scale_time', True) else 'false'
    if m['kind'] == 'beta':
        return f'(Beta {C.qlit(m["alpha"])} {st})'
    return f'(Dirac {C.qlit(m["psi"])} {C.qlit(m["c"])} {st})'


def block_vectors(n):
    """all block-counting vectors (a_1..a_n) with sum i*a_i = n"""
    out = []

    def rec(i, rem, acc):
        if i > n:
            if rem == 0:
                out.append(acc[:])
            return
        for a in range(rem // i + 1):
            acc.append(a)
            rec(i + 1, rem - a * i, acc)
            acc.pop()

    rec(1, n, [])
    return out


def gen_models(rng, tier):
    ms = [{'kind': 'kingman'}]
    alphas = [1.5, 1 + 1 / 64, 2 - 1 / 64] + [1 + rng.randrange(1, 256) / 256 for _ in range(2 if tier == 'quick' else 8)]
    for a in alphas:
        ms.append({'kind': 'beta', 'alpha': a, 'scale_time': rng.random() < 0.7})
    psis = [0.5, 1 / 32, 31 / 32] + [rng.randrange(1, 64) / 64 for _ in range(2 if tier == 'quick' else 8)]
    for p in psis:
        ms.append({'kind': 'dirac', 'psi': p, 'c': rng.choice([0.0, 0.5, 1.0, 3.25, 50.0]), 'scale_time': rng.random() < 0.7})
    # designed (independent of the draws): the boundary c = 0 of the Dirac family and alpha close to 2 of the Beta family,
    # each with and without time scaling
    for st in (True, False):
        ms.append({'kind': 'dirac', 'psi': 0.375, 'c': 0.0, 'scale_time': st})
        ms.append({'kind': 'beta', 'alpha': 2 - 1 / 256, 'scale_time': st})
    return ms


def run(res, replay=None):
    import translate_step; (res.proof is not None) and translate_step.run(res.proof)
    rng = random.Random(res.seed)
    tier = res.tier
    res.rule = ('rates stream: every 2<=k<=b<=12 and every (s1,s2)<=12 for Kingman, Beta (dyadic alpha) and Dirac '
                '(dyadic psi, c); coalesce() on every block vector with sum i*a_i = n, n<=7 (quick: multiple-merger '
                'models n<=6) and lineage vectors [b]; non-trivial = a (model, b, k) or (model, block vector) whose '
                'rate is non-zero; distinct = distinct (model, arguments)')
    res.assumptions = ['scipy.special.beta / binom.pmf replaced by their exact product forms in the model',
                       'Beta time scale compared with an mpmath evaluation of the documented formula']
    models = gen_models(rng, tier) if not replay else [replay['replay']['model']]
    bk = [(b, k) for b in range(2, 13) for k in range(2, b + 1)]
    s12 = [(s1, s2) for s1 in range(1, 13) for s2 in range(1, 13) if s2 != s1]
    nmax_k, nmax_mm = (7, 6) if tier == 'quick' else (8, 7)
    Ns = [1.0, 0.5, 4.0, 2.0 ** -5, 1024.0, 3.0, 0.1, 12345.678, 0.0123, 0.00731, 1.37e-3]
    cases = []
    for m in models:
        nmax = nmax_k if m['kind'] == 'kingman' else nmax_mm
        blocks = [[b] for b in range(1, 9)]
        for n in range(2, nmax + 1):
            blocks += block_vectors(n)
        cases.append({'model': m, 'bk': bk, 's12': s12, 'blocks': blocks, 'timescale': Ns})
        if m['kind'] == 'beta':
            cases[-1]['reassign'] = {'alpha': 1.25 if m['alpha'] != 1.25 else 1.75}
        elif m['kind'] == 'dirac':
            cases[-1]['reassign'] = {'psi': 0.625 if m['psi'] != 0.625 else 0.375, 'c': 3.0 if m['c'] != 3.0 else 0.5}
    impl = C.run_impl('rates.py', {'cases': cases})['results']
    for c_, im_ in zip(cases, impl):
        if 'reassigned' in im_:
            res.count(('reassign', json.dumps(c_['model'], sort_keys=True)))
            if im_['reassigned'] != im_['reassigned_fresh']:
                res.violation('a model object whose public parameters were reassigned after it had been queried answers differently from a model constructed with the new values',
                              {'model': c_['model'], 'new_parameters': c_['reassign'], 'after_reassignment': im_['reassigned'], 'fresh_model': im_['reassigned_fresh']})

    # ---- model values (Coq, exact rationals) ----
    bodies = []
    for m, c in zip(models, cases):
        mc = model_coq(m)
        b = f'Definition m : cmodel (T:=Q) := {mc}.\n'
        b += 'Eval vm_compute in (showQs (map (fun bk => get_rate_bk OpsQ m (fst bk) (snd bk)) ' + \
             C.coqlist([f'({x}%nat, {y}%nat)' for x, y in c['bk']]) + ')).\n'
        b += 'Eval vm_compute in (showQs (map (fun bk => get_rate OpsQ m (fst bk) (snd bk)) ' + \
             C.coqlist([f'({x}%nat, {y}%nat)' for x, y in c['s12']]) + ')).\n'
        b += 'Eval vm_compute in (map (fun bl => map (fun o => (fst o, showQ (snd o))) (coalesce OpsQ m bl)) ' + \
             C.coqlist(['[' + '; '.join(f'{v}%nat' for v in bl) + ']' for bl in c['blocks']]) + ').\n'
        b += ('Eval vm_compute in (showQs (map (timescale OpsQ (fun N a => 0) m) '
              + C.coqlist([C.qlit(N) for N in c['timescale']]) + ')).\n')
        bodies.append(b)
    outs = C.run_coq_cases('C14', 'rates', HEADER, bodies)

    for m, c, im, (rc, vals, raw) in zip(models, cases, impl, outs):
        if rc != 0 or len(vals) != 4:
            res.violation('model evaluation failed', {'model': m, 'coq_output': raw[-1500:]}, concrete=False)
            continue
        exact = m['kind'] == 'kingman'
        tol = 0 if exact else Fr(1, 10 ** 11)
        fq = lambda p: Fr(p[0], p[1])
        mod_bk = [fq(p) for p in C.parse_term(vals[0])]
        mod_s12 = [fq(p) for p in C.parse_term(vals[1])]
        mod_bl = [[(s_, fq(r_)) for s_, r_ in o] for o in C.parse_term(vals[2])]
        mod_ts = [fq(p) for p in C.parse_term(vals[3])]
        for (b, k), mv, iv in zip(c['bk'], mod_bk, im['bk']):
            res.count(('bk', m, b, k), nontrivial=(mv != 0))
            if not C.close(mv, iv, rel=tol):
                res.violation(f'rate of a {k}-merger among {b} lineages differs from the Lambda-integral',
                              {'model': m, 'b': b, 'k': k, 'expected': float(mv), 'observed': iv,
                               'call': '_get_rate(b,k)'})
        for (s1, s2), mv, iv in zip(c['s12'], mod_s12, im['s12']):
            res.count(('s12', m, s1, s2), nontrivial=(mv != 0))
            if not C.close(mv, iv, rel=tol):
                res.violation('get_rate(s1,s2) differs from the model',
                              {'model': m, 's1': s1, 's2': s2, 'expected': float(mv), 'observed': iv})
        for bl, mo, io in zip(c['blocks'], mod_bl, im['blocks']):
            res.count(('blocks', m, bl), nontrivial=len(mo) > 0)
            ok = len(mo) == len(io) and all(list(ms_) == list(is_) and C.close(mr, ir, rel=tol)
                                            for (ms_, mr), (is_, ir) in zip(mo, io))
            if not ok:
                # order-insensitive comparison before calling it a violation: sum rates per outcome
                def agg(lst):
                    d = {}
                    for s, r in lst:
                        d[tuple(s)] = d.get(tuple(s), Fr(0)) + Fr(r)
                    return d
                dm, di = agg(mo), agg(io)
                same = set(dm) == set(di) and all(C.close(dm[s], di[s], rel=tol or Fr(1, 10 ** 13)) for s in dm)
                if not same:
                    res.violation('coalesce() outcomes/rates differ from the model',
                                  {'model': m, 'blocks': bl,
                                   'expected': [[list(s), float(r)] for s, r in mo],
                                   'observed': io})
            # property oracle on the implementation: outcomes with the same reduction sum to the LC rate
            if len(bl) > 1:
                nl = sum(bl)
                by_red = {}
                for s, r in io:
                    by_red.setdefault(nl - sum(s), 0.0)
                    by_red[nl - sum(s)] += r
                for red, tot in by_red.items():
                    k = red + 1
                    lc = im['bk'][c['bk'].index((nl, k))] if (nl, k) in c['bk'] else None
                    if lc is not None and not C.close(tot, lc, rel=Fr(1, 10 ** 9)):
                        res.violation('block-counting rates of one reduction do not sum to the lineage-counting rate',
                                      {'model': m, 'blocks': bl, 'k': k, 'sum_block_rates': tot, 'lineage_rate': lc})
        # time scales
        for N, mv, iv in zip(c['timescale'], mod_ts, im['timescale']):
            res.count(('ts', m, N))
            if m['kind'] == 'beta' and m.get('scale_time', True):
                import mpmath
                mpmath.mp.dps = 40
                a = mpmath.mpf(m['alpha'])
                mm = 1 + 1 / (2 ** (a - 1) * (a - 1))
                ref = mm ** a * mpmath.mpf(N) ** (a - 1) / a / mpmath.beta(2 - a, a)
                if C.gt(abs(ref - iv), 1e-11 * abs(ref)):
                    res.violation('Beta time scale differs from the documented msprime scaling',
                                  {'model': m, 'N': N, 'expected': float(ref), 'observed': iv})
            elif not C.close(mv, iv, rel=Fr(1, 10 ** 14)):
                res.violation('time scale differs from the model', {'model': m, 'N': N, 'expected': float(mv), 'observed': iv})
        # oracle on the implementation: sampling consistency and non-negativity
        import math
        lam = {(b, k): v / math.comb(b, k) for (b, k), v in zip(c['bk'], im['bk'])}
        for (b, k), v in lam.items():
            if v < 0:
                res.violation('negative merger rate', {'model': m, 'b': b, 'k': k, 'observed': v})
            if (b + 1, k + 1) in lam:
                rhs = lam[(b + 1, k)] + lam[(b + 1, k + 1)]
                if C.gt(abs(v - rhs), 1e-9 * max(abs(v), abs(rhs), 1e-300)):
                    res.violation('rates are not sampling consistent',
                                  {'model': m, 'b': b, 'k': k, 'lambda_b_k': v, 'sum_b1': rhs})
        res.stream('rates', models=1, bk=len(c['bk']), s12=len(c['s12']), block_vectors=len(c['blocks']))
        res.sample({'model': m, 'b,k': c['bk'][7], 'model_rate': str(mod_bk[7]), 'impl_rate': im['bk'][7]})

    # Kingman limits on the implementation
    lim_cases = [{'model': {'kind': 'beta', 'alpha': 2 - 2.0 ** -30}, 'bk': bk},
                 {'model': {'kind': 'dirac', 'psi': 0.375, 'c': 0.0}, 'bk': bk},
                 {'model': {'kind': 'kingman'}, 'bk': bk}]
    lim = C.run_impl('rates.py', {'cases': lim_cases})['results']
    for j in (0, 1):
        for (b, k), v, kv in zip(bk, lim[j]['bk'], lim[2]['bk']):
            res.count(('limit', j, b, k))
            if C.gt(abs(v - kv), 1e-6 * max(1.0, kv) * b):
                res.violation('model does not reduce to Kingman in the limit',
                              {'model': lim_cases[j]['model'], 'b': b, 'k': k, 'observed': v, 'kingman': kv})
    res.extra['input_distribution'] = {'models': [m['kind'] for m in models],
                                       'alphas': [m.get('alpha') for m in models if m['kind'] == 'beta'],
                                       'psis': [m.get('psi') for m in models if m['kind'] == 'dirac']}
