"""C20 - unsupported or invalid requests fail loudly instead of returning numbers."""
import random

import common as C

HEADER = """From Coq Require Import ZArith QArith List.
From PG Require Import model.Validate.
Import ListNotations.
Open Scope Q_scope.
Definition code (v : verdict) : nat := match v with Ok => 0%nat | ValueErr => 1%nat | NotImpl => 2%nat end.
"""
SROUTES = ['SScalar', 'SFlatDict', 'SNestedDict', 'SPopSizeChange', 'SPopSizeChanges', 'SDiscreteRateChanges',
           'SEpochToStateSpace', 'STrajectoryValue', 'SExponentialInitialSize']
MROUTES = ['MFlatDict', 'MNestedDict', 'MMigrationRateChange', 'MMigrationRateChanges', 'MSymmetric', 'MDiscreteRateChanges',
           'MEpochToStateSpace', 'MTrajectoryValue']


def coq_request(rq):
    q = C.qlit
    t = rq[0]
    if t == 'RLocusConfig': return f'(RLocusConfig ({rq[1]})%Z ({rq[2]})%Z {q(rq[3])})'
    if t == 'RRecombinationKeyword': return f'(RRecombinationKeyword {q(rq[1])})'
    if t == 'RSfsTwoLoci': return f'(RSfsTwoLoci ({rq[1]})%Z)'
    if t == 'RMultipleMergerLoci': return f'(RMultipleMergerLoci {"true" if rq[1] else "false"} ({rq[2]})%Z)'
    if t == 'RConstructTimes': return f'(RConstructTimes {q(rq[1])} ' + ('None' if rq[2] is None else f'(Some {q(rq[2])})') + ')'
    if t in ('RCdfTime', 'RAccumulateTime', 'RMomentEndTime', 'RBetaAlpha', 'RDiracPsi', 'RQuantile'): return f'({t} {q(rq[1])})'
    if t in ('RPopSize', 'RMigrationRate'): return f'({t} {rq[1]} {q(rq[2])})'
    if t == 'RRewardCount': return f'(RRewardCount {rq[1]}%nat {rq[2]}%nat)'
    if t == 'RMutationConfig': return f'(RMutationConfig {rq[1]}%nat {rq[2]}%nat {q(rq[3])} {rq[4]}%nat)'
    raise ValueError(t)


def gen_requests(rng, tier):
    neg = lambda: -rng.choice([0.125, 0.5, 1.0, 3.0, 2.0 ** -20])
    pos = lambda: rng.choice([0.125, 0.5, 1.0, 2.0, 4.0])
    rs = []
    rep = 1 if tier == 'quick' else 4
    for _ in range(rep):
        rs += [['RLocusConfig', n, u, r] for n, u, r in [(0, 0, 0.0), (-1, 0, 0.0), (3, 0, 0.0), (5, 1, 1.0), (1, -1, 0.0), (2, 0, neg()),
                                                         (1, 0, 0.0), (2, 1, pos()), (2, 0, 0.0)]]
        rs += [['RRecombinationKeyword', v] for v in (neg(), neg(), 0.0, pos())]
        rs += [['RRecombinationKeyword', v, how] for how in ('reused_keyword', 'reused_attribute') for v in (neg(), pos())]
        rs += [['RSfsTwoLoci', l] for l in (1, 2)]
        rs += [['RMultipleMergerLoci', mm, l] for mm in (True, False) for l in (1, 2)]
        # every multiple-merger model class and both statistics (the model only distinguishes multiple merger / Kingman)
        rs += [['RMultipleMergerLoci', True, l, kind, stat] for l in (1, 2) for kind in ('dirac', 'beta', 'dirac_unscaled')
               for stat in ('tree_height', 'total_branch_length')]
        rs += [['RConstructTimes', a, b] for a, b in [(neg(), None), (0.0, neg()), (2.0, 1.0), (1.0, 1.0), (0.0, None), (0.5, 2.0), (1.0, 0.5)]]
        for t in ('RCdfTime', 'RAccumulateTime', 'RMomentEndTime'):
            rs += [[t, v] for v in (neg(), 0.0, pos())]
        for rt in SROUTES:
            vals = [neg(), pos()] + ([0.0] if rt != 'SExponentialInitialSize' else [])
            rs += [['RPopSize', rt, v] for v in vals]
            # the same routes under the multiple-merger models (their time scales N**2 / N**(alpha-1) must not hide the sign)
            rs += [['RPopSize', rt, v, kind] for kind in ('dirac', 'beta') for v in (neg(), pos())]
        for rt in MROUTES:
            rs += [['RMigrationRate', rt, v] for v in (neg(), 0.0, pos())]
        # the invalid value at a change point the lineages never reach (time 400), through a whole model and on the object alone
        for rt in ('MNestedDict', 'MMigrationRateChange', 'MMigrationRateChanges', 'MSymmetric', 'MDiscreteRateChanges'):
            rs += [['RMigrationRate', rt, v, how] for how in ('late', 'late_object') for v in (neg(), pos())]
        for rt in ('SNestedDict', 'SPopSizeChange', 'SPopSizeChanges', 'SDiscreteRateChanges'):
            rs += [['RPopSize', rt, v, 'late'] for v in (neg(), 0.0, pos())]
        rs += [['RBetaAlpha', a] for a in (0.5, 0.999, 2.001, 3.0, 1.5, 1.25, 1.0)]
        rs += [['RDiracPsi', p] for p in (0.0, 1.0, -0.5, 1.5, 0.5, 0.25)]
        rs += [['RRewardCount', k, m] for k, m in [(1, 2), (2, 1), (2, 3), (1, 1), (2, 2), (3, 3)]]
        rs += [['RMutationConfig', ln, ex, th, ne] for ln, ex, th, ne in [(2, 3, 1.0, 1), (4, 3, 1.0, 1), (3, 3, neg(), 1), (3, 3, 1.0, 2),
                                                                         (3, 3, 1.0, 1), (2, 2, 0.0, 1), (3, 3, 0.5, 1),
                                                                         (2, 3, 0.0, 1), (0, 3, 0.0, 1), (5, 4, 0.0, 1), (4, 4, 0.0, 1),
                                                                         (rng.randrange(0, 6), rng.randrange(2, 6), rng.choice([0.0, 0.0, 0.5]), 1)]]
        rs += [['RQuantile', q] for q in (-0.1, 1.5, 0.0, 0.5, 0.99)]
    return rs


def run(res, replay=None):
    # structural tie of the argument guards at the entry points (their conditions, exception kinds and ORDER): translate the CURRENT source and re-check proofs/GenGuardsEquiv.v
    import translate_step; (res.proof is not None) and translate_step.run(res.proof, pid=res.pid, tie='guards')
    # structural tie of the configuration classes (locus.py, lineage.py, StateSpace.alpha): translate the CURRENT source and re-check proofs/GenConfigsEquiv.v
    import translate_step; (res.proof is not None) and translate_step.run(res.proof, pid=res.pid, tie='configs')
    rng = random.Random(res.seed)
    res.rule = ('invalid stream: members of every invalid class of the property (locus counts, multiple mergers / SFS with two '
                'loci, negative times at construction / cdf / accumulate / moment, end before start, non-positive sizes by 9 '
                'routes, negative migration rates by 8 routes, negative recombination rate next to a LocusConfig, alpha, psi, '
                'reward-count mismatch, mutation-configuration errors, quantile levels) with randomised values, plus valid '
                'members of every class as a control against over-rejection: the exception class of the implementation must '
                'equal the verdict of the Gallina guard model; extreme configurations must not return NaN silently; '
                'non-trivial = request outside the domain; distinct = distinct requests')
    res.assumptions = ['alpha = 2 exactly is excluded from the valid controls (the rate formula divides inf by inf there; see DESIGN.md)']
    reqs = [replay['replay']['request']] if replay else gen_requests(rng, res.tier)
    # counts that are not Python ints are not requests of the Gallina guard model (its counts are integers): they are checked against the
    # documented bounds directly ('fewer than one or more than two loci', a negative number of unlinked lineages), below
    real_reqs = [r for r in reqs if r[0] == 'RLocusConfigReal']
    reqs = [r for r in reqs if r[0] != 'RLocusConfigReal']
    if not replay:
        real_reqs = [['RLocusConfigReal', n_, u_, r_] + how for how in ([], ['statistic'])
                     for n_, u_, r_ in [(2.5, 0, 1.0), (2.0001, 0, 1.0), (0.5, 0, 0.0), (2, -0.5, 1.0), (2, -0.0001, 1.0), (1, -0.5, 0.0),
                                        (['np', 3], 0, 1.0), (['np', 0], 0, 0.0), (2, ['np', -1], 1.0), (['np', 2], ['np', 1], 1.0), (2.0, 1.0, 1.0)]]
    def real_verdict(r):
        val = lambda x: x[1] if isinstance(x, list) else x
        n_, u_ = val(r[1]), val(r[2])
        return 'ValueErr' if n_ < 1 else 'NotImpl' if n_ > 2 else 'ValueErr' if u_ < 0 or r[3] < 0 else 'Ok'
    if real_reqs:
        ro = C.run_impl('invalid.py', {'requests': real_reqs, 'extreme': []})['outcomes']
        for rq, iv in zip(real_reqs, ro):
            mv = real_verdict(rq)
            res.count(str(rq), nontrivial=(mv != 'Ok'))
            if mv != 'Ok' and iv in ('Ok', 'nan+log', 'nan-silent'):
                res.violation('a request outside the documented domain returned a value instead of raising',
                              {'request': rq, 'expected': mv, 'observed': iv})
            elif mv == 'Ok' and iv != 'Ok':
                res.violation('a valid request was rejected (or returned NaN)', {'request': rq, 'observed': iv})
            elif mv != iv and mv != 'Ok':
                res.violation('wrong kind of failure for an invalid request', {'request': rq, 'expected': mv, 'observed': iv})
    if replay and not reqs:
        return
    extreme = [{'n': 3, 'sizes': {'pop_0': {0: 1e-40}, 'pop_1': {0: 1e40}}, 'm': 1.0},
               {'n': 4, 'sizes': {'pop_0': {0: 1e-300}, 'pop_1': {0: 1.0}}, 'm': 1e-300},
               {'n': 3, 'sizes': {'pop_0': {0: 1e200}, 'pop_1': {0: 1e-200}}, 'm': 1e150}]
    chunks = [reqs[i::C.NCPU] for i in range(C.NCPU)]
    chunks = [c for c in chunks if c]
    import concurrent.futures
    outs = C.run_impl_parallel('invalid.py', [{'requests': ch, 'extreme': extreme if i == 0 else []} for i, ch in enumerate(chunks)])
    impl = {}
    for ch, o in zip(chunks, outs):
        for rq, v in zip(ch, o['outcomes']):
            impl[id(rq)] = v
    body = 'Eval vm_compute in (map (fun r => code (outcome r)) ' + C.coqlist([coq_request(r) for r in reqs]) + ').\n'
    (rc, vals, raw), = C.run_coq_cases('C20', 'invalid', HEADER, [body])
    if rc != 0 or len(vals) != 1:
        res.violation('guard model evaluation failed', {'coq_output': raw[-1500:]}, concrete=False)
        return
    verdicts = [['Ok', 'ValueErr', 'NotImpl'][v] for v in C.parse_term(vals[0])]
    kinds = {}
    for rq, mv in zip(reqs, verdicts):
        iv = impl[id(rq)]
        res.count(str(rq), nontrivial=(mv != 'Ok'))
        kinds[iv] = kinds.get(iv, 0) + 1
        if mv != 'Ok' and iv in ('Ok', 'nan+log', 'nan-silent'):
            res.violation('a request outside the documented domain returned a value instead of raising',
                          {'request': rq, 'expected': mv, 'observed': iv})
        elif mv == 'Ok' and iv != 'Ok':
            res.violation('a valid request was rejected (or returned NaN)', {'request': rq, 'observed': iv})
        elif mv != iv and mv != 'Ok':
            res.violation('wrong kind of failure for an invalid request', {'request': rq, 'expected': mv, 'observed': iv})
    for spec, v in zip(extreme, outs[0]['extreme']):
        res.count('extreme' + str(spec))
        kinds['extreme:' + v] = kinds.get('extreme:' + v, 0) + 1
        if v == 'nan-silent':
            res.violation('a not-a-number result was returned without an exception or a logged warning', {'configuration': spec})
    res.sample({'request': reqs[0], 'model_verdict': verdicts[0], 'implementation': impl[id(reqs[0])]})
    res.sample({'request': reqs[-3], 'model_verdict': verdicts[-3], 'implementation': impl[id(reqs[-3])]})
    res.stream('invalid', requests=len(reqs))
    res.extra['input_distribution'] = {'outcome_kinds': kinds,
                                       'by_class': {t: sum(1 for r in reqs if r[0] == t) for t in sorted({r[0] for r in reqs})}}
