"""The `demography` stream: epoch schedule of the implementation against the Gallina model
(Demography.v) over exact rationals, plus the SPEC oracle rate_at.

The translation of a user-level demography spec (nested dicts, constants, single events, symmetric
rates, splits, discretised trajectories) into the model's normalised event list is done here; it is
the model of Demography.__init__ / DiscreteRateChanges.__init__ normalisation."""
import itertools
from fractions import Fraction as Fr

import common as C

HEADER = """From Coq Require Import ZArith QArith List.
From PG Require Import base.Show model.Demography.
Import ListNotations.
Open Scope Q_scope.
Definition showT (t : time_inf) : list (Z * Z) := match t with None => [] | Some q => [showQ q] end.
Definition show_epoch (e : epoch) := ([showQ (e_start e)], showT (e_end e), showQs (e_sizes e), showQss (e_mig e)).
"""


def all_pops(spec):
    pops = set()
    for p in (spec.get('pop_sizes') or {}):
        pops.add(p)
    for k in (spec.get('migration_rates') or {}):
        pops.update(k.split('>'))
    for e in (spec.get('events') or []) + (spec.get('added_events') or []) + (spec.get('late_events') or []):
        pops.update(event_pops(e))
    return sorted(pops)


def event_pops(e):
    t = e['type']
    if t == 'PopSizeChange': return [e['pop']]
    if t == 'PopSizeChanges': return list(e['pop_sizes'])
    if t == 'MigrationRateChange': return [e['source'], e['dest']]
    if t == 'MigrationRateChanges': return [p for k in e['rates'] for p in k.split('>')]
    if t == 'SymmetricMigrationRateChanges': return list(e['pops'])
    if t == 'DiscreteRateChanges':
        return list(e.get('pop_sizes', {})) + [p for k in e.get('migration_rates', {}) for p in k.split('>')]
    if t == 'PopulationSplit':
        d = e['derived'] if isinstance(e['derived'], list) else [e['derived']]
        return d + [e['ancestral']]
    if t == 'DiscretizedRateChange':
        return [p for p in (e.get('pop'), e.get('source'), e.get('dest')) if p is not None]
    if t == 'DiscretizedRateChanges':
        return [p for k in e['points'] for p in k.split('>')]
    if t == 'ExponentialPopSizeChanges': return list(e['initial_size'])
    if t == 'ExponentialRateChanges': return [p for k in e['initial_rate'] for p in k.split('>')]
    raise ValueError(t)


def key_coq(k, pops):
    if '>' in k:
        p, q = k.split('>')
        return f'(KMig {pops.index(p)}%nat {pops.index(q)}%nat)'
    return f'(KSize {pops.index(k)}%nat)'


def discrete_coq(sizes, migs, pops):
    """DiscreteRateChanges(pop_sizes, migration_rates): _flatten over (pop_sizes | migration_rates)"""
    merged = []  # (key, {time: value}) in dict order: pop sizes first, then migration rates
    for p, d in sizes.items():
        merged.append((p, {float(t): v for t, v in d.items()}))
    for k, d in migs.items():
        merged.append((k, {float(t): v for t, v in d.items()}))
    times = sorted({t for _, d in merged for t in d})
    items = []
    for t in times:
        # per time: pop sizes restricted to sorted pop names, then migration rates in (p, q) sorted-name order
        kv = []
        szs = {k: d[t] for k, d in merged if '>' not in k and t in d}
        mgs = {k: d[t] for k, d in merged if '>' in k and t in d}
        for p in pops:
            if p in szs:
                kv.append((p, szs[p]))
        for p in pops:
            for q in pops:
                if f'{p}>{q}' in mgs:
                    kv.append((f'{p}>{q}', mgs[f'{p}>{q}']))
        items.append(f'({C.qlit(t)}, ' + C.coqlist([f'({key_coq(k, pops)}, {C.qlit(v)})' for k, v in kv]) + ')')
    return '(EDiscrete ' + C.coqlist(items) + ')'


def traj_coq(key, pts, start, end, step, pops):
    e = 'None' if end is None else f'(Some {C.qlit(end)})'
    return (f'(mkTraj {key_coq(key, pops)} {C.qlit(start)} {e} {C.qlit(step)} (interp '
            + C.coqlist([f'({C.qlit(t)}, {C.qlit(v)})' for t, v in pts]) + '))')


def event_coq(e, pops):
    t = e['type']
    if t == 'PopSizeChange':
        return discrete_coq({e['pop']: {e['time']: e['size']}}, {}, pops)
    if t == 'PopSizeChanges':
        return discrete_coq(e['pop_sizes'], {}, pops)
    if t == 'MigrationRateChange':
        return discrete_coq({}, {f"{e['source']}>{e['dest']}": {e['time']: e['rate']}}, pops)
    if t == 'MigrationRateChanges':
        return discrete_coq({}, e['rates'], pops)
    if t == 'SymmetricMigrationRateChanges':
        rate = e['rate'] if isinstance(e['rate'], dict) else {0.0: e['rate']}
        return discrete_coq({}, {f'{p}>{q}': rate for p in e['pops'] for q in e['pops'] if p != q}, pops)
    if t == 'DiscreteRateChanges':
        return discrete_coq(e.get('pop_sizes', {}), e.get('migration_rates', {}), pops)
    if t == 'PopulationSplit':
        d = e['derived'] if isinstance(e['derived'], list) else [e['derived']]
        return (f'(ESplit {C.qlit(e["time"])} ' + C.natlist([pops.index(p) for p in d])
                + f' {pops.index(e["ancestral"])}%nat {C.qlit(e.get("multiplier", 100))})')
    if t == 'DiscretizedRateChange':
        key = e['pop'] if e.get('pop') is not None else f"{e['source']}>{e['dest']}"
        return '(EDiscretized [' + traj_coq(key, e['points'], e['start_time'], e.get('end_time'), e['step_size'], pops) + '])'
    if t == 'DiscretizedRateChanges':
        trs = []
        for k, pts in e['points'].items():
            st = e['start_time'][k] if isinstance(e['start_time'], dict) else e['start_time']
            trs.append(traj_coq(k, pts, st, e.get('end_time'), e['step_size'], pops))
        return '(EDiscretized ' + C.coqlist(trs) + ')'
    if t in ('ExponentialPopSizeChanges', 'ExponentialRateChanges'):
        # trajectory x0 * exp(-g (t - t0)) per key: passed to the model as a table on the dyadic grid k/64
        # (epoch boundaries of the generated demographies are dyadic, so the table is hit exactly); the table
        # is computed here with the documented formula, independently of the implementation
        import numpy as np
        init = e['initial_size'] if t == 'ExponentialPopSizeChanges' else e['initial_rate']
        trs = []
        for k in init:
            g = e['growth_rate'][k] if isinstance(e['growth_rate'], dict) else e['growth_rate']
            t0 = e['start_time'][k] if isinstance(e['start_time'], dict) else e['start_time']
            en = e.get('end_time')
            en_k = en[k] if isinstance(en, dict) else en
            pts = [(j / 64, float(init[k] * np.exp(-g * (j / 64 - t0)))) for j in range(0, 64 * 12 + 1)]   # 12 time units: NE = 14 epochs of step <= 0.5 after change times <= 3
            trs.append(traj_coq(k, pts, t0, en_k, e['step_size'], pops))
        return '(EDiscretized ' + C.coqlist(trs) + ')'
    raise ValueError(t)


def events_coq(spec, pops, extra_sizes=None):
    """Demography(events=..., pop_sizes=..., migration_rates=...) then add_event(...) calls"""
    evs = [event_coq(e, pops) for e in (spec.get('events') or [])]
    ps = spec.get('pop_sizes')
    mr = spec.get('migration_rates') or {}
    if ps is not None and not isinstance(ps, dict):
        ps = {'pop_0': {0.0: ps}}
    ps = ps or {}
    order = spec.get('pop_sizes_order') or list(ps.keys())
    ps = {p: (ps[p] if isinstance(ps[p], dict) else {0.0: ps[p]}) for p in order}
    morder = spec.get('migration_order') or list(mr.keys())
    mr = {k: (mr[k] if isinstance(mr[k], dict) else {0.0: mr[k]}) for k in morder}
    if ps or mr:
        evs.append(discrete_coq(ps, mr, pops))
    for e in (spec.get('added_events') or []):
        evs.append(event_coq(e, pops))
    if extra_sizes:      # AbstractCoalescent.__init__ completes missing populations with size 1 at time 0
        evs.append(discrete_coq({p: {0.0: 1.0} for p in extra_sizes}, {}, pops))
    for e in (spec.get('late_events') or []):      # added to the demography the Coalescent already holds
        evs.append(event_coq(e, pops))
    return C.coqlist(evs)


def parse_epoch(t):
    fq = lambda p: Fr(p[0], p[1])
    st, en, sizes, mig = t
    return {'start': fq(st[0]), 'end': (fq(en[0]) if en else None), 'sizes': [fq(x) for x in sizes],
            'mig': [[fq(x) for x in row] for row in mig]}


def epochs_equal(m, i, tol):
    """model epoch m (Fractions) vs implementation epoch i (floats)"""
    if not C.close(m['start'], i['start'], rel=tol):
        return 'start'
    if (m['end'] is None) != (i['end'] is None) or (m['end'] is not None and not C.close(m['end'], i['end'], rel=tol)):
        return 'end'
    if len(m['sizes']) != len(i['sizes']) or any(not C.close(a, b, rel=tol) for a, b in zip(m['sizes'], i['sizes'])):
        return 'sizes'
    for p, (ra, rb) in enumerate(zip(m['mig'], i['mig'])):
        for q, (a, b) in enumerate(zip(ra, rb)):
            if p != q and not C.close(a, b, rel=tol):
                return 'migration'
    return None
