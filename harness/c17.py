"""C17 - caching, query order and parallel execution never change a result."""
import json
import random

import common as C
import gen
import numeric as N

HEADER = """From Coq Require Import List Bool Arith.
From PG Require Import model.Cache.
Import ListNotations.
Definition st := run nat nat nat Nat.eqb (fun e => e) (fun e => e).
Definition show (s : sspace nat nat nat) := (ss_epoch nat nat nat s, match ss_S nat nat nat s with Some _ => true | None => false end,
                                              map fst (ss_cache nat nat nat s)).
"""

OPS = [
    {'kind': 'attr', 'path': 'tree_height.mean'}, {'kind': 'attr', 'path': 'tree_height.var'},
    {'kind': 'attr', 'path': 'total_branch_length.mean'}, {'kind': 'attr', 'path': 'total_branch_length.m2'},
    {'kind': 'cdf', 'ts': [0.5, 2.0, 0.25]}, {'kind': 'cdf', 'ts': [3.0]}, {'kind': 'quantile', 'q': 0.5}, {'kind': 'quantile', 'q': 0.9},
    {'kind': 'accumulate', 'dist': 'tree_height', 'k': 1, 'ts': [0.5, 1.0, 2.5], 'center': False},
    {'kind': 'accumulate', 'dist': 'total_branch_length', 'k': 2, 'ts': [2.0, 0.75], 'center': True},
    {'kind': 'moment', 'dist': 'tree_height', 'k': 1, 'end_time': 0.75},
    {'kind': 'moment', 'dist': 'total_branch_length', 'k': 2, 'end_time': 1.5, 'center': False},
    {'kind': 'moment', 'dist': 'tree_height', 'k': 1, 'start_time': 0.5, 'end_time': 2.0},
    {'kind': 'attr', 'path': 'sfs.mean'}, {'kind': 'attr', 'path': 'fsfs.mean'}, {'kind': 'attr', 'path': 'sfs.var'},
    {'kind': 'attr', 'path': 'sfs.cov'}, {'kind': 'attr', 'path': 'sfs.corr'}, {'kind': 'attr', 'path': 'fsfs.cov'},
    {'kind': 'attr', 'path': 'fsfs.corr'}, {'kind': 'attr', 'path': 'tree_height.std'},
    {'kind': 'moment', 'route': 'coal', 'k': 2, 'rewards': [['TreeHeight'], ['TotalBranchLength']], 'center': True},
    # ordered (permute=False) moments, centred and raw, on the persistent distribution objects
    {'kind': 'moment', 'dist': 'tree_height', 'k': 2, 'center': True, 'permute': False},
    {'kind': 'moment', 'dist': 'tree_height', 'k': 2, 'center': False, 'permute': False},
    {'kind': 'moment', 'dist': 'total_branch_length', 'k': 2, 'center': True, 'permute': False},
    {'kind': 'moment', 'dist': 'sfs', 'k': 2, 'center': True, 'permute': False},
    {'kind': 'moment', 'dist': 'tree_height', 'k': 3, 'center': True},
    {'kind': 'attr', 'path': 'tree_height.m2'}, {'kind': 'attr', 'path': 'total_branch_length.var'},
    {'kind': 'moment', 'dist': 'tree_height', 'k': 2, 'center': False},
    # cross moments of two DIFFERENT rewards on a persistent distribution object (averaged over the reward orderings)
    {'kind': 'moment', 'dist': 'tree_height', 'k': 2, 'rewards': [['TreeHeight'], ['TotalBranchLength']], 'center': True},
    {'kind': 'moment', 'dist': 'tree_height', 'k': 2, 'rewards': [['TreeHeight'], ['TotalBranchLength']], 'center': False},
    {'kind': 'moment', 'dist': 'tree_height', 'k': 2, 'rewards': [['TotalBranchLength'], ['TreeHeight']], 'center': False},
    {'kind': 'accumulate', 'dist': 'total_branch_length', 'k': 2, 'ts': [1.0, 2.5], 'rewards': [['TreeHeight'], ['TotalBranchLength']], 'center': False},
]


def deme_ops(pops):
    return [{'kind': 'attr', 'path': f"tree_height.demes['{p}'].mean"} for p in pops] + \
           [{'kind': 'attr', 'path': 'tree_height.demes.cov'}]


def run(res, replay=None):
    # structural tie of the configuration classes incl. class Epoch (its copies, zero-filled rates, __eq__ / __hash__): translate the CURRENT source and re-check proofs/GenConfigsEquiv.v
    import translate_step; (res.proof is not None) and translate_step.run(res.proof, pid=res.pid, tie='configs')
    # structural tie of the cache machine of the state space (update_epoch, drop_S, drop_cache, S, _get_rate_matrix, states): translate the CURRENT source and re-check proofs/GenCacheEquiv.v
    import translate_step; (res.proof is not None) and translate_step.run(res.proof, pid=res.pid, tie='cache')
    rng = random.Random(res.seed)
    res.rule = ('histories stream: random sequences (length 4-8, thorough up to 30) of public queries (moments, cdf, quantile, '
                'accumulate, marginals, different end times, SFS) on ONE Coalescent over epoch-switching demographies (2-4 '
                'epochs), cache on/off, sequential and worker-process SFS: every answer must equal the answer of a fresh '
                'object exactly; after every query the invariant of model/Cache.v is checked on the real state-space '
                'objects; the instrumented update_epoch / rate-matrix-computation events are replayed through the Gallina '
                'cache model and its final state (epoch, S present, dictionary keys) compared with the real object; plus '
                'parameter sequences through one Inference (shared state spaces) against fresh Coalescents; non-trivial = '
                'history with >= 2 epochs; distinct = distinct histories')
    res.assumptions = ['multiprocess scheduling/pickling is exercised, not modelled (ordered-map contract only)']
    ncase = 8 if res.tier == 'quick' else 50
    cases = []
    if replay:
        cases = [replay['replay']['case']]
    else:
        for i in range(ncase):
            s = gen.rand_spec(rng, n_total=rng.choice([2, 3, 3, 4]), n_demes=rng.choice([1, 2]), n_epochs=rng.choice([2, 3, 4]),
                              end_time='never')
            pops = [p for p, _ in s['n_items']]
            pool = OPS + (deme_ops(pops) if len(pops) > 1 else [])
            ln = rng.randrange(4, 9) if res.tier == 'quick' else rng.randrange(4, 31)
            ops = [rng.choice(pool) for _ in range(ln)]
            if i % 2 == 1:
                # state-space level calls before / between the statistics (public API of StateSpace)
                sp = rng.choice(['lc', 'bc'])
                bs = sorted({float(t) for d in s['pop_sizes'].values() for t in d})
                pre = [{'kind': 'ss', 'space': sp, 'what': rng.choice(['S', 'k'])},
                       {'kind': 'ss', 'space': sp, 'what': 'update_epoch', 't': bs[-1]}, {'kind': 'ss', 'space': sp, 'what': 'S'}]
                if i % 4 == 3:
                    # the object is re-pointed BEFORE anything was looked at (its states are first enumerated in a later epoch); a
                    # statistic that uses this state space follows at once
                    sp = 'lc' if i % 8 == 3 else 'bc'
                    pre = [dict(o, space=sp) for o in pre[1:]] + [{'kind': 'attr', 'path': 'tree_height.mean' if sp == 'lc' else 'sfs.mean'}]
                ops = pre + ops
            cases.append({'spec': s, 'ops': ops, 'cache': (rng.random() < 0.75) if i % 4 != 1 else False, 'parallelize': (i % 5 == 4)})
    if not replay:
        # designed histories: an unusual request first, the everyday statistics that share its memo entries afterwards
        s = gen.rand_spec(rng, n_total=rng.choice([3, 4]), n_demes=1, n_epochs=2, end_time='never')
        M = lambda d, **kw: dict({'kind': 'moment', 'dist': d, 'k': 2}, **kw)
        A = lambda p: {'kind': 'attr', 'path': p}
        cases.append({'spec': s, 'cache': True, 'parallelize': False, 'ops': [
            M('tree_height', center=True, permute=False), A('tree_height.var'), A('tree_height.m2'),
            M('total_branch_length', center=True, permute=False), A('total_branch_length.var'),
            M('sfs', center=True, permute=False), A('sfs.var'), A('sfs.cov'),
            {'kind': 'accumulate', 'dist': 'tree_height', 'k': 2, 'ts': [1.0, 2.0], 'center': True, 'permute': False},
            {'kind': 'accumulate', 'dist': 'tree_height', 'k': 2, 'ts': [1.0, 2.0], 'center': False},
            A('sfs.corr'), A('sfs.cov'), A('fsfs.corr'), A('fsfs.cov'), A('fsfs.var')]})
        # designed: cross moments of two different rewards asked repeatedly of one distribution object (centred, raw, the rewards
        # in the other order, the same accumulation twice), then the matrices that share their memo entries
        HL = [['TreeHeight'], ['TotalBranchLength']]
        s2 = gen.rand_spec(rng, n_total=rng.choice([3, 4]), n_demes=2, n_epochs=2, end_time='never')
        p2 = [p for p, _ in s2['n_items']]
        cases.append({'spec': s2, 'cache': True, 'parallelize': False, 'ops': [
            M('tree_height', rewards=HL, center=True), M('tree_height', rewards=HL, center=False), M('tree_height', rewards=HL[::-1], center=False),
            {'kind': 'accumulate', 'dist': 'tree_height', 'k': 2, 'ts': [1.0, 2.0], 'rewards': HL, 'center': False},
            {'kind': 'accumulate', 'dist': 'tree_height', 'k': 2, 'ts': [1.0, 2.0], 'rewards': HL, 'center': False},
            A('sfs.cov'), A('sfs.cov'), A('tree_height.demes.cov'), A(f"tree_height.demes['{p2[0]}'].var"), A('tree_height.demes.cov'),
            A('tree_height.var'), A('total_branch_length.var')]})
    if not replay:
        # designed: distributions that SHARE a state space ask in turn - A something that ends inside the first epoch, B something with the
        # default horizon (which leaves the shared state space in the last epoch), then A a NEW early question (nothing a distribution
        # remembers about "its" epoch may stand in for where the shared state space really points)
        s4 = {'n_items': [['a', 3]], 'model': {'kind': 'kingman'}, 'pop_sizes': {'a': {'0.0': 1.0, '1.0': 3.0, '2.0': 0.5}}}
        E = lambda d, T: {'kind': 'moment', 'dist': d, 'k': 1, 'end_time': T}
        cases.append({'spec': s4, 'cache': True, 'parallelize': False, 'ops': [
            A('tree_height.mean'), {'kind': 'cdf', 'ts': [0.3]}, A('total_branch_length.mean'), {'kind': 'cdf', 'ts': [0.5]},
            E('sfs', 0.3), A('fsfs.mean'), E('sfs', 0.5), E('total_branch_length', 0.25), A('tree_height.var'), E('total_branch_length', 0.75),
            {'kind': 'quantile', 'q': 0.05}, A('sfs.var'), {'kind': 'quantile', 'q': 0.1}]})
        # designed: SFS matrices computed in worker processes with MORE work items ((n-1)^2 = 25) than the machine has CPUs, and
        # the ordered parallel map on its own
        s3 = {'n_items': [['a', 6]], 'model': {'kind': 'kingman'}, 'pop_sizes': {'a': {'0.0': 1.0, '0.5': 2.0}}}
        cases.append({'spec': s3, 'cache': True, 'parallelize': True, 'parallel_map': True, 'ops': [
            A('sfs.cov'), A('sfs.mean'), A('fsfs.cov'), A('sfs.corr'), A('sfs.var')]})
    outs = C.run_impl_parallel('histories.py', [{'cases': [c]} for c in cases], timeout=(300 if res.tier == 'quick' else 2400))
    bodies, keep = [], []
    for i, (c, o) in enumerate(zip(cases, outs)):
        r = o['results'][0]
        key = json.dumps(c, sort_keys=True)
        if 'error' in r:
            res.violation('query history raised', {'case': c, 'error': r['error']})
            continue
        n_epochs = len({e for _, e in r['events_lc']})
        res.count(key, nontrivial=n_epochs >= 2, n=len(c['ops']))
        for j, (op, h, f) in enumerate(zip(c['ops'], r['history'], r['fresh'])):
            if op['kind'] == 'ss':
                continue
            if h != f:
                res.violation('a statistic asked after other queries differs from the answer of a fresh object',
                              {'case': c, 'position': j, 'op': op, 'after_history': h, 'fresh': f})
                break
        if r.get('parallel_map') and not (r['parallel_map'][0] == r['parallel_map'][1] == r['parallel_map_expected']):
            res.violation('the ordered parallel map returns other values (or another order) in worker processes than sequentially',
                          {'case': c, 'workers': r['parallel_map'][0], 'sequential': r['parallel_map'][1]})
        if r['inv_violations']:
            res.violation('cache invariant broken on the real state space: ' + r['inv_violations'][0]['what'],
                          {'case': c, 'details': r['inv_violations'][:3]})
        # replay the low-level events through the Gallina cache model
        ids = {}
        def eid(e):
            return ids.setdefault(e, len(ids))
        e0 = eid(r['initial_lc_epoch'])
        ops_coq = []
        for kind, e in r['events_lc']:
            if kind == 'T':
                continue
            ops_coq.append(f'OUpdate nat {eid(e)}%nat' if kind == 'U' else f'OQuery nat [{eid(e)}%nat]')
        flag = 'true' if r['final_lc']['flag'] else 'false'
        bodies.append(f'Eval vm_compute in (show (fst (st (fresh nat nat nat {e0}%nat {flag}) ' + C.coqlist(ops_coq) + '))).\n')
        keep.append((c, r, dict(ids)))
    couts = C.run_coq_cases('C17', 'cache', HEADER, ['\n'.join(bodies)], timeout=600) if bodies else []
    if bodies:
        rc, vals, raw = couts[0]
        if rc != 0 or len(vals) != len(keep):
            res.violation('cache model evaluation failed', {'coq_output': raw[-1500:]}, concrete=False)
        else:
            for (c, r, ids), v in zip(keep, vals):
                ep, hasS, keys = C.parse_term(v)
                f = r['final_lc']
                obs = (ids[f['epoch']], f['has_S'], sorted(ids[k] for k in f['cache_keys']))
                # the `states` property also stores the transitions it computed under the epoch current at that moment
                # (an insertion that preserves the invariant): those keys are added to the model's dictionary
                extra = {ids[e] for kind, e in r['events_lc'] if kind == 'T' and e in ids} if f['flag'] else set()
                keys = sorted(set(keys) | extra)
                if (ep, hasS, list(keys)) != obs:
                    res.violation('state of the shared state space differs from the cache model after the same events',
                                  {'case': c, 'model': [ep, hasS, list(keys)], 'observed': list(obs)}, concrete=False)
            res.sample({'spec': keep[0][0]['spec'], 'ops': [o.get('path') or o.get('what') or o['kind'] for o in keep[0][0]['ops']],
                        'events': len(keep[0][1]['events_lc'])})
    # parameter sequences through one Inference object (shared state spaces)
    inf_cases = [{'n': rng.choice([3, 4]), 'params': [rng.choice([0.25, 0.5, 1.0, 2.0, 4.0]) for _ in range(5)],
                  'times': [0.0, rng.choice([0.5, 1.0])]} for _ in range(2 if res.tier == 'quick' else 10)]
    iouts = C.run_impl_parallel('inference.py', [{'mode': 'shared', 'cases': [ic]} for ic in inf_cases])
    for ic, o in zip(inf_cases, iouts):
        rr = o['results'][0]
        res.count(('shared', json.dumps(ic)))
        if 'error' in rr:
            res.violation('Inference.get_coal raised', {'case': ic, 'error': rr['error']})
        elif rr['shared'] != rr['fresh']:
            res.violation('statistics through the shared (cached) state space differ from fresh Coalescents',
                          {'case': ic, 'shared': rr['shared'], 'fresh': rr['fresh']})
    # corpus: epochs whose float hashes collide (hash(536870912.25) == hash(0.25000000023283064)); the rate matrix
    # must still be rebuilt at the change point - compared with the Gallina numeric model
    corpus = {'n_items': [['pop_0', 2]], 'model': {'kind': 'kingman'},
              'pop_sizes': {'pop_0': {'0.0': 0.25000000023283064, '1.0': 536870912.25}}, 'end_time': 3.0}
    items = [dict(spec=corpus, lc=True, ops=[dict(py={'kind': 'attr', 'path': 'tree_height.mean'},
                                                   queries=[dict(kind='moment', k=1, rewards=[['TreeHeight']])], combine=N.one)])]
    N.run_items(res, 'C17', 'hash_collision_corpus', items,
                what='stale rate matrix: epochs with colliding hashes are treated as equal')
    res.stream('histories', cases=len(cases), inference_sequences=len(inf_cases))
    res.extra['input_distribution'] = {'history_lengths': sorted(len(c['ops']) for c in cases),
                                       'cache_off': sum(1 for c in cases if not c['cache']),
                                       'parallel': sum(1 for c in cases if c['parallelize'])}
