"""C06 - two-locus statistics under recombination match the ancestral recombination graph."""
import random

import common as C
import gen
import numeric as N


def build_ops(rng, spec):
    th = lambda l: ['Combined', [['TreeHeight'], ['Locus', l]]]
    tb = lambda l: ['Combined', [['TotalBranchLength'], ['Locus', l]]]
    ops = []
    ops.append(dict(py={'kind': 'attr', 'path': 'tree_height.mean'}, queries=[dict(kind='moment', k=1, rewards=[['TreeHeight']])], combine=N.one))
    ops.append(dict(py={'kind': 'attr', 'path': 'tree_height.var'},
                    queries=[dict(kind='moment', k=2, rewards=[['TreeHeight']] * 2, center=True), dict(kind='moment', k=1, rewards=[['TreeHeight']])],
                    combine=N.one, tol='higher', scale=lambda mq: mq[1][0] ** 2))
    for l in (0, 1):
        ops.append(dict(py={'kind': 'attr', 'path': f'tree_height.loci[{l}].mean'}, queries=[dict(kind='moment', k=1, rewards=[th(l)])], combine=N.one))
        ops.append(dict(py={'kind': 'attr', 'path': f'tree_height.loci[{l}].var'},
                        queries=[dict(kind='moment', k=2, rewards=[th(l)] * 2, center=True), dict(kind='moment', k=1, rewards=[th(l)])],
                        combine=N.one, tol='higher', scale=lambda mq: mq[1][0] ** 2))
        ops.append(dict(py={'kind': 'attr', 'path': f'total_branch_length.loci[{l}].mean'}, queries=[dict(kind='moment', k=1, rewards=[tb(l)])], combine=N.one))
        ops.append(dict(py={'kind': 'attr', 'path': f'total_branch_length.loci[{l}].var'},
                        queries=[dict(kind='moment', k=2, rewards=[tb(l)] * 2, center=True), dict(kind='moment', k=1, rewards=[tb(l)])],
                        combine=N.one, tol='higher', scale=lambda mq: mq[1][0] ** 2))
    covq = [dict(kind='moment', k=2, rewards=[th(i), th(j)], center=True) for j in (0, 1) for i in (0, 1)] + \
           [dict(kind='moment', k=1, rewards=[th(0)])]
    ops.append(dict(py={'kind': 'attr', 'path': 'tree_height.loci.cov'}, queries=covq,
                    combine=lambda mq: [[mq[0][0], mq[1][0]], [mq[2][0], mq[3][0]]], tol='higher', scale=lambda mq: mq[4][0] ** 2))
    return ops


def single_locus(spec):
    s = {k: v for k, v in spec.items() if k not in ('loci', 'recombination_rate', 'n_unlinked')}
    return s


def run(res, replay=None):
    # structural tie of the configuration classes (locus.py, lineage.py, StateSpace.alpha): translate the CURRENT source and re-check proofs/GenConfigsEquiv.v
    import translate_step; (res.proof is not None) and translate_step.run(res.proof, pid=res.pid, tie='configs')
    # structural tie of the class Transition of phasegen/state_space.py: translate the CURRENT source and re-check proofs/GenTransitionEquiv.v
    import translate_step; (res.proof is not None) and translate_step.run(res.proof, pid=res.pid, tie='transition')
    # structural tie of phasegen/rewards.py: translate the CURRENT source and re-check proofs/GenRewardsEquiv.v against it
    import translate_step; (res.proof is not None) and translate_step.run(res.proof, pid=res.pid, tie='rewards')
    rng = random.Random(res.seed)
    res.rule = ('twolocus stream: two loci, Kingman, n<=3 (thorough n<=4 for one deme), 1-2 demes, 1-2 epochs, recombination '
                'rate in {0, 1/4, 1/2, 1, 4, 1024} given inside the LocusConfig, as keyword next to a LocusConfig (empty, or carrying another rate that the keyword overrides, 0 included), or next to loci=2, all numbers of initially unlinked lineages for one deme; tree height (max over '
                'loci), per-locus heights and branch lengths (mean, var), locus covariance matrix compared with the Gallina '
                'model; oracles on the implementation: each locus marginal equals the single-locus statistic for every r, '
                'corr = 1 at r = 0, covariance decreasing towards 0 as r grows; non-trivial = value non-zero')
    res.assumptions = ['numeric model uses a Taylor/squaring exponential in binary64']
    nspec = 6 if res.tier == 'quick' else 40
    specs = []
    if replay:
        specs = [replay['replay']['spec']]
    else:
        for i in range(nspec):
            nd = rng.choice([1, 1, 2])
            # designed cases (independent of the random draws): the keyword route with initially UNLINKED lineages in one deme
            # (i = 1), and the overriding keyword with value exactly 0 on fully linked samples (i = 3)
            if i in (1, 3):
                nd = 1
            n = rng.choice([2, 3] if (nd == 2 or res.tier == 'quick') else [2, 3, 4])
            if i == 5:
                nd, n = 2, 3        # designed: two demes with three samples (same-class mergers must count the lineages of ONE deme)
            s = gen.rand_spec(rng, n_total=n, n_demes=nd, n_epochs=rng.choice([1, 2]), loci=2)
            s['recombination_rate'] = rng.choice([0.0, 0.25, 0.5, 1.0, 4.0, 1024.0])
            s['n_unlinked'] = rng.randrange(0, n + 1) if nd == 1 else 0
            # the three documented ways of passing the recombination rate
            s['rec_route'] = ['locus_config', 'kwarg', 'int', 'kwarg_over'][i % 4]
            if s['rec_route'] == 'kwarg_over':
                # the keyword overrides a rate already stored in the LocusConfig - also when the keyword is exactly 0
                s['recombination_rate'] = rng.choice([0.0, 0.0, 0.5, 4.0])
                s['rec_cfg'] = rng.choice([1.0, 2.0, 8.0])
            if i == 1:
                s['n_unlinked'] = rng.randrange(1, n + 1)
                s['recombination_rate'] = rng.choice([0.25, 1.0, 4.0])
            if i == 3:
                s['n_unlinked'] = 0
                s['recombination_rate'] = 0.0
            if i == 5:
                s['recombination_rate'] = rng.choice([0.5, 1.0])
                pp = sorted(p for p, _ in s['n_items'])
                s['n_items'] = [[pp[1], 2], [pp[0], 1]]       # listed in NON-alphabetical order, with asymmetric migration
                s['migration_rates'] = {f'{pp[0]}>{pp[1]}': {'0.0': 0.25}, f'{pp[1]}>{pp[0]}': {'0.0': 1.5}}
                s['pop_sizes'] = {pp[1]: {'0.0': 1.0}, pp[0]: {'0.0': 2.0}}
            specs.append(s)
    if not replay:
        # designed: two loci in two demes whose MIGRATION rates change at an epoch boundary (sizes constant): linked lineages must migrate
        # with the rates of the epoch in force, like unlinked ones (each locus marginal is the single-locus value)
        for r_ in ((0.5,) if res.tier == 'quick' else (0.0, 0.5, 4.0)):
            specs.append({'n_items': [['a', 1], ['b', 1]], 'model': {'kind': 'kingman'}, 'loci': 2, 'recombination_rate': r_, 'n_unlinked': 0,
                          'rec_route': 'locus_config', 'pop_sizes': {'a': {'0.0': 1.0}, 'b': {'0.0': 2.0}},
                          'migration_rates': {'a>b': {'0.0': 0.25, '0.75': 2.0}, 'b>a': {'0.0': 1.0, '0.75': 0.125}},
                          'designed': 'migration_change_two_loci'})
    items = [dict(spec=s, lc=True, ops=build_ops(rng, s)) for s in specs]
    results = N.run_items(res, 'C06', 'twolocus', items, what='two-locus statistic differs from the ARG value (model)')
    # oracles on the implementation: marginal = single locus; r = 0 => corr 1; cov -> 0
    payloads, meta = [], []
    for it, r, mv in results:
        s1 = single_locus(it['spec'])
        if it['spec'].get('end_time') is None:
            s1 = dict(s1, end_time=r['t_max'])
        payloads.append({'cases': [{'spec': s1, 'ops': [{'kind': 'attr', 'path': 'tree_height.mean'}, {'kind': 'attr', 'path': 'tree_height.var'},
                                                          {'kind': 'attr', 'path': 'total_branch_length.mean'}, {'kind': 'attr', 'path': 'total_branch_length.var'}]}]})
        meta.append((it, r))
    outs = C.run_impl_parallel('numeric.py', payloads) if payloads else []
    for (it, r), o in zip(meta, outs):
        sr = o['results'][0]
        if 'error' in sr:
            continue
        h_mean, h_var, l_mean, l_var = sr['values']
        vals = r['values']
        for l in (0, 1):
            lm, lv, bm, bv = vals[2 + 4 * l], vals[3 + 4 * l], vals[4 + 4 * l], vals[5 + 4 * l]
            res.count((gen.spec_key(it['spec']), 'marginal', l))
            for name, a, b, sc in (('tree height mean', lm, h_mean, 1), ('tree height var', lv, h_var, h_mean ** 2),
                                   ('branch length mean', bm, l_mean, 1), ('branch length var', bv, l_var, l_mean ** 2)):
                if a is None or b is None:
                    continue
                if C.gt(abs(a - b), 1e-6 * max(abs(a), abs(b), sc)):
                    res.violation(f'locus {l} marginal {name} is not the single-locus value',
                                  {'spec': it['spec'], 'locus': l, 'two_locus': a, 'single_locus': b})
        cov = vals[10]
        if cov is not None:
            if C.gt(abs(cov[0][1] - cov[1][0]), 1e-9 * max(1.0, abs(cov[0][0]))):
                res.violation('locus covariance matrix is not symmetric', {'spec': it['spec'], 'cov': cov})
            if it['spec']['recombination_rate'] == 0 and it['spec'].get('n_unlinked', 0) == 0 and cov[0][0] > 1e-9:
                corr = cov[0][1] / (cov[0][0] * cov[1][1]) ** 0.5
                if C.gt(abs(corr - 1), 1e-6):
                    res.violation('at r = 0 with all lineages linked the two trees do not coincide (corr != 1)',
                                  {'spec': it['spec'], 'corr': corr, 'cov': cov})
    # configuration objects shared between Coalescents of different sample size (n_unlinked larger than the sample = all unlinked)
    import orc
    orc.run_oracle(res, 'shared_configs', [{'r': rng.choice([0.5, 1.0]), 'n_unlinked': 9, 'sample_sizes': [2, 3]},
                                           {'r': 1.0, 'n_unlinked': 1, 'sample_sizes': [3, 2]}][: (1 if res.tier == 'quick' else 2)], chunk=1)
    # covariance decays as r grows (one configuration, increasing r)
    base = gen.rand_spec(random.Random(res.seed + 1), n_total=2, n_demes=1, n_epochs=1, loci=2, end_time='never')
    rs = [0.0, 1.0, 16.0, 256.0, 4096.0]
    pls = [{'cases': [{'spec': dict(base, recombination_rate=rr), 'ops': [{'kind': 'attr', 'path': 'tree_height.loci.cov'}]}]} for rr in rs]
    couts = C.run_impl_parallel('numeric.py', pls)
    covs = [o['results'][0]['values'][0][0][1] if 'error' not in o['results'][0] and o['results'][0]['values'][0] else None for o in couts]
    res.count('cov-decay')
    if all(c is not None for c in covs):
        if any(b > a + 1e-9 for a, b in zip(covs, covs[1:])) or C.gt(abs(covs[-1]), 2e-3 * abs(covs[0])):
            res.violation('covariance between loci does not decay to 0 as r grows', {'spec': base, 'r': rs, 'cov01': covs})
    res.extra['input_distribution'] = {'r': sorted(s['recombination_rate'] for s in specs),
                                       'n_unlinked': sorted(s.get('n_unlinked', 0) for s in specs),
                                       'demes': sorted(len(s['n_items']) for s in specs)}
