"""C07 - vectorised evaluation is pointwise and independent of argument order.

Proof step: props/C07.v (scatter through the inverse sorting permutation; sorted loop pointwise).
Correspondence: the model's sortK / inv_perm (argsort ..) evaluated in Coq on the same time lists predict,
from the pointwise values, what the vectorised call must return; compared with the implementation.
Oracle on the implementation: vectorised[i] == evaluating ts[i] alone (1e-10 relative; exact for epochs)."""
import itertools
import random

import common as C
import gen

HEADER = """From Coq Require Import QArith List.
From PG Require Import base.Perm model.Loop.
Import ListNotations.
Open Scope Q_scope.
"""

ENTRIES = ['cdf', 'pdf', 'acc1', 'acc2', 'tbl1', 'sfs1', 'epochs']


def gen_time_lists(rng, spec, tier):
    """permutations of <=4 distinct times (incl. epoch boundaries and 0) and random lists with repeats"""
    bounds = sorted({float(t) for d in (spec.get('pop_sizes') or {}).values() for t in d} |
                    {float(t) for d in (spec.get('migration_rates') or {}).values() for t in d})
    pool = sorted(set(bounds + [0.0, 0.125, 0.5, 1.0, 2.0, 3.5, 0.75, 5.0]))
    lists = []
    base = rng.sample(pool, 3)
    lists += [list(p) for p in itertools.permutations(base)]
    if tier == 'thorough':
        base4 = rng.sample(pool, 4)
        lists += [list(p) for p in itertools.permutations(base4)]
    for _ in range(3 if tier == 'quick' else 12):
        ln = rng.randrange(2, 13)
        lists.append([rng.choice(pool) for _ in range(ln)])
    lists.append([2.0, 0.5, 1.0])
    return lists


def gen_grids(rng, spec):
    """evenly spaced grids (what plot_cdf / plot_accumulation pass): dyadic steps, so that epoch boundaries fall
    exactly on grid points and consecutive steps are bit-identical across a boundary"""
    out = []
    for step in (0.125, 0.5):
        m = rng.randrange(6, 14) if step < 0.5 else rng.randrange(4, 10)
        start = rng.choice([0.0, step])
        g = [start + i * step for i in range(m)]
        if rng.random() < 0.3:
            g = g[::-1]
        out.append(g)
    return out


def flat(v):
    return v if not isinstance(v, list) or not v or not isinstance(v[0], list) else [x for row in v for x in row]


def eq_val(a, b, exact, tol=1e-10):
    if exact:
        return a == b
    fa, fb = flat(a), flat(b)
    if not isinstance(fa, list):
        fa, fb = [fa], [fb]
    return len(fa) == len(fb) and all(abs(x - y) <= tol * max(abs(x), abs(y), 1e-6) for x, y in zip(fa, fb))


def run(res, replay=None):
    # structural tie of the epoch machinery of phasegen/demography.py (generator, get_epochs, discrete _broadcast / _apply): translate the CURRENT source and re-check proofs/GenDemographyEquiv.v
    import translate_step; (res.proof is not None) and translate_step.run(res.proof, pid=res.pid, tie='demography')
    # structural tie of the propagation loops (_accumulate, cdf) of phasegen/distributions.py: translate the CURRENT source and re-check proofs/GenLoopsEquiv.v
    import translate_step; (res.proof is not None) and translate_step.run(res.proof, pid=res.pid, tie='loops')
    rng = random.Random(res.seed)
    res.rule = ('vectorised stream: for random configurations (1-3 demes, 1-3 epochs, three models) every permutation '
                'of 3 (thorough: 4) distinct times drawn from epoch boundaries/0/interior points plus random lists with '
                'repeats (length<=12) plus evenly spaced dyadic grids (epoch boundaries on grid points), as list/tuple/array, through cdf, pdf, accumulate(k=1,2), total_branch_length, '
                'sfs.accumulate and get_epochs; non-trivial = list that is not already sorted; distinct = distinct '
                '(configuration, entry point, time list, container)')
    res.assumptions = ['pointwise and vectorised float paths differ only in rounding (compared at 1e-10 relative)']
    cases = []
    if replay:
        cases = [replay['replay']['case']]
    else:
        nspec = 4 if res.tier == 'quick' else 16
        for s in range(nspec):
            spec = gen.rand_spec(rng, n_total=rng.choice([2, 3, 4]), end_time='never',
                                 n_epochs=(rng.choice([2, 3]) if s % 2 == 0 else None))
            if s % 4 == 3:
                # the same rates in force in two epochs: one batch with times in both must still return each time's own epoch
                spec = gen.recurring_spec(rng, n_total=rng.choice([2, 3]), n_demes=rng.choice([1, 2]))
            lists = gen_time_lists(rng, spec, res.tier)
            if spec.get('recurring'):
                bds = sorted({float(t) for d in spec['pop_sizes'].values() for t in d})
                inside = [(a + b) / 2 for a, b in zip(bds, bds[1:])] + [bds[-1] + 1.0]
                for perm in (inside, inside[::-1], inside[1:] + inside[:1]):
                    cases.append({'spec': spec, 'ts': list(perm), 'container': rng.choice(['list', 'array']), 'entry': 'epochs'})
            for ts in lists:
                ep = rng.choice(ENTRIES)
                cases.append({'spec': spec, 'ts': ts, 'container': rng.choice(['list', 'tuple', 'array']), 'entry': ep})
            for gi, ts in enumerate(gen_grids(rng, spec)):
                cases.append({'spec': spec, 'ts': ts, 'container': 'array', 'entry': 'cdf'})
                cases.append({'spec': spec, 'ts': ts, 'container': 'array', 'entry': rng.choice(['pdf', 'acc1', 'sfs1', 'acc2', 'tbl1'])})
    if not replay:
        # designed: late colonisation - every sample in the first population, no migration before time 1, migration afterwards; the
        # marginal of the second population is exactly 0 on [0, 1] and rises later (several times inside the plateau, several after)
        late = {'n_items': [['a', 3], ['b', 0]], 'model': {'kind': 'kingman'}, 'pop_sizes': {'a': {'0.0': 2.0}, 'b': {'0.0': 1.0}},
                'migration_rates': {'a>b': {'0.0': 0.0, '1.0': 1.0}, 'b>a': {'0.0': 0.0, '1.0': 0.5}}}
        for path in ("tree_height.demes['b']", "total_branch_length.demes['b']"):
            for ts in ([0.4, 0.8, 1.5, 3.0], [3.0, 0.25, 1.5, 0.5, 0.75, 2.0], [1.5, 0.5, 0.75]):
                cases.append({'spec': late, 'ts': ts, 'container': 'list', 'entry': 'deme1', 'dist_path': path})
    # implementation
    chunks = [cases[i::C.NCPU] for i in range(C.NCPU)]
    chunks = [c for c in chunks if c]
    outs = C.run_impl_parallel('vectorised.py', [{'cases': c} for c in chunks])
    impl = {}
    for ch, o in zip(chunks, outs):
        for c, r in zip(ch, o['results']):
            impl[id(c)] = r
    # model: sorting permutation and its inverse
    body = 'Eval vm_compute in (map (fun ts => (inv_perm (argsort Qleb ts), argsort Qleb ts)) ' + \
           C.coqlist([C.coqlist([C.qlit(t) for t in c['ts']]) for c in cases]) + ').\n'
    (rc, vals, raw), = C.run_coq_cases('C07', 'perm', HEADER, [body])
    if rc != 0 or len(vals) != 1:
        res.violation('model evaluation failed', {'coq_output': raw[-1500:]}, concrete=False)
        return
    perms = C.parse_term(vals[0])
    dist = {}
    for c, (q, p) in zip(cases, perms):
        r = impl[id(c)]
        key = (gen.spec_key(c['spec']), c['entry'], tuple(c['ts']), c['container'])
        res.count(key, nontrivial=(list(c['ts']) != sorted(c['ts'])))
        dist[c['entry']] = dist.get(c['entry'], 0) + 1
        if 'error' in r:
            res.violation('vectorised call raised', {'case': c, 'error': r['error']})
            continue
        exact = c['entry'] == 'epochs'
        # correspondence: numpy's sort/inverse agree with the model's
        if list(q) != r['numpy_inv'] or [c['ts'][i] for i in p] != r['numpy_sorted']:
            res.violation('sorting permutation of the model differs from NumPy',
                          {'case': c, 'model_inv': q, 'numpy_inv': r['numpy_inv']}, concrete=False)
        # prediction from the model: out[j] = pointwise(sorted)[q[j]]
        sorted_pt = [r['pt'][i] for i in p]
        pred = [sorted_pt[j] for j in q]
        for j, (pv, vv, pt) in enumerate(zip(pred, r['vec'], r['pt'])):
            # pdf is a finite difference with dx = 2^-10: rounding differences of the two float paths are
            # amplified by 1/dx, hence the wider (still tiny) tolerance for that entry point only
            tol = 1e-8 if c['entry'] == 'pdf' else 1e-10
            if not eq_val(vv, pt, exact, tol) or not eq_val(pv, vv, exact, tol):
                res.violation(f'{c["entry"]}: value at position {j} is not the value of the {j}-th time alone',
                              {'case': c, 'position': j, 'time': c['ts'][j], 'vectorised': vv, 'pointwise': pt})
                break
        if len(r['vec']) != len(c['ts']):
            res.violation('wrong number of results', {'case': c, 'n': len(r['vec'])})
        res.sample({'entry': c['entry'], 'ts': c['ts'], 'container': c['container'], 'vectorised': r['vec'][:3]}, cap=4)
    # the same multiset of times in another order, asked of the same object after the first call
    for c in cases:
        r = impl[id(c)]
        if 'error' in r or 'vec2' not in r:
            continue
        n_ = len(c['ts'])
        for j in range(n_):
            want = r['pt'][(j + 1) % n_]
            if not eq_val(r['vec2'][j], want, c['entry'] == 'epochs', 1e-10):
                res.violation(f"{c['entry']}: the same times asked again in another order on the same object: position {j} is not the value of its time",
                              {'case': c, 'second_call_times': c['ts'][1:] + c['ts'][:1], 'position': j, 'observed': r['vec2'][j], 'expected': want})
                break
    # epochs: a batch in DESCENDING order on an object whose last single lookup ended beyond every requested time
    for c in cases:
        r = impl[id(c)]
        if 'error' in r or 'vec3' not in r:
            continue
        want = [r['pt'][c['ts'].index(t)] for t in sorted(c['ts'], reverse=True)]
        if r['vec3'] != want:
            res.violation('epochs: a batch in descending order asked of a demography after a later single lookup does not return each time\'s own epoch',
                          {'case': c, 'batch_times': sorted(c['ts'], reverse=True), 'observed': r['vec3'], 'expected': want})
    res.stream('vectorised', cases=len(cases), **{f'entry_{k}': v for k, v in dist.items()})
