"""C11 - tree statistics satisfy the conservation identities that link them."""
import random

import common as C
import gen
import orc
import space


def run(res, replay=None):
    # structural tie of phasegen/rewards.py: translate the CURRENT source and re-check proofs/GenRewardsEquiv.v against it
    import translate_step; (res.proof is not None) and translate_step.run(res.proof, pid=res.pid, tie='rewards')
    # structural ties of _accumulate (loops) and accumulate / moment (moments): the source-level conservation theorems are about the generated functions
    import translate_step; (res.proof is not None) and translate_step.run(res.proof, pid=res.pid, tie='loops')
    import translate_step; (res.proof is not None) and translate_step.run(res.proof, pid=res.pid, tie='moments')
    # pinned reading of the two-dimensional spectrum class (SFS2.fold / symmetrize / arithmetic of phasegen/spectrum.py, what cov and corr are wrapped in): re-check the CURRENT source against it and proofs/GenSpectrumEquiv.v
    import translate_step; (res.proof is not None) and translate_step.run(res.proof, pid=res.pid, tie='spectrum')
    rng = random.Random(res.seed)
    res.rule = ('identities stream: random single-locus configurations (n<=5, 1-2 demes, three models, 1-3 epochs, with/'
                'without end time): sum of SFS = branch length, size-weighted sum = n * height, folded = fold(unfolded), '
                'sum of (folded and unfolded) SFS covariances = var(branch length) and diag(cov) = var, with the cached second-order properties read in different orders (cov first / corr first / touch()), height/length moments of order 1 and 2 on the lineage- vs the '
                'block-counting representation (forced by BlockCountingUnitReward), at 1e-9/1e-8 on the implementation; '
                'the reward vectors themselves are compared exactly with the Gallina model by the statespace stream')
    res.assumptions = []
    ncase = 8 if res.tier == 'quick' else 60
    specs = [replay['replay']['case']['spec']] if replay else \
        [gen.rand_spec(rng, n_total=rng.choice([2, 3, 4, 4, 5]), n_demes=rng.choice([1, 1, 2]), n_epochs=rng.choice([1, 2, 3]))
         for _ in range(ncase)]
    if not replay:
        # designed: multiple-merger models with n = 6, 7 in one deme (mergers that draw from two block classes while a third one
        # is occupied first occur at n = 6)
        for n_, mdl in ((6, {'kind': 'dirac', 'psi': 0.375, 'c': 1.0, 'scale_time': False}), (7, {'kind': 'beta', 'alpha': 1.5, 'scale_time': False}),
                        (7, {'kind': 'dirac', 'psi': 0.625, 'c': 2.0, 'scale_time': True}))[: (2 if res.tier == 'quick' else 3)]:
            specs.append({'n_items': [['a', n_]], 'model': mdl, 'pop_sizes': {'a': {'0.0': rng.choice([0.5, 1.0, 2.0])}}, 'end_time': 3.0})
    if not replay:
        # designed: very large time scales (scaled Dirac, N = 2^20: time scale N^2 ~ 1e12) - the per-class rates of the block-counting
        # representation are tiny parts of the summed rate the lineage-counting representation sees; the horizon is given explicitly
        N_ = 2.0 ** 20
        for n_, psi in ((4, 0.5), (5, 0.25)):
            specs.append({'n_items': [['a', n_]], 'model': {'kind': 'dirac', 'psi': psi, 'c': 1.0, 'scale_time': True},
                          'pop_sizes': {'a': {'0.0': N_}}, 'end_time': 200.0 * N_ ** 2, 'designed': 'large_time_scale'})
    # structural tie of the class Transition of phasegen/state_space.py (both representations are built by it)
    import translate_step; (res.proof is not None) and translate_step.run(res.proof, pid=res.pid, tie='transition')
    # structural tie of phasegen/coalescent_models.py (the block-counting rates feed every identity between the two representations)
    import translate_step; (res.proof is not None) and translate_step.run(res.proof, pid=res.pid, tie='coalescent_models')
    orc.run_oracle(res, 'identities', [{'spec': s, 'second_order_reads': ['cov', 'corr_first', 'touch'][i % 3]} for i, s in enumerate(specs)])
    if not replay:
        # designed: the SAME configuration under the two model families one after the other in ONE process (block-counting states are
        # numbered differently under Kingman and under the multiple-merger models: nothing indexed by state may be shared between them)
        base = {'n_items': [['a', 5]], 'pop_sizes': {'a': {'0.0': 1.0, '1.0': 2.0}}, 'end_time': 4.0}
        for first, second in (({'kind': 'kingman'}, {'kind': 'beta', 'alpha': 1.5, 'scale_time': False}),
                              ({'kind': 'dirac', 'psi': 0.5, 'c': 1.0, 'scale_time': False}, {'kind': 'kingman'})):
            orc.run_oracle(res, 'identities', [{'spec': dict(base, model=first), 'second_order_reads': 'cov'},
                                               {'spec': dict(base, model=second), 'second_order_reads': 'cov'}], chunk=2)
    if not replay:
        # designed: multiple-merger models with the sample SPLIT over two demes (the merger rates of a deme depend on the lineages of THAT
        # deme; both representations must agree on heights, lengths and the spectrum)
        mg = {'a>b': {'0.0': 0.5}, 'b>a': {'0.0': 1.0}}
        orc.run_oracle(res, 'identities', [
            {'spec': {'n_items': [['a', 2], ['b', 2]], 'model': mdl, 'pop_sizes': {'a': {'0.0': 1.0}, 'b': {'0.0': 0.5}}, 'migration_rates': mg,
                      'end_time': 6.0, 'designed': 'mm_two_demes'}, 'second_order_reads': 'cov'}
            for mdl in ({'kind': 'beta', 'alpha': 1.5, 'scale_time': False}, {'kind': 'dirac', 'psi': 0.5, 'c': 1.0, 'scale_time': False})], chunk=1)
    space.run_stream(res, 'C11', [s_ for s_ in specs if not s_.get('designed')][: (5 if res.tier == 'quick' else 30)])
    res.extra['input_distribution'] = {'n': sorted(gen.effective_n(s) for s in specs)}
