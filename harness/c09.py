"""C09 - results obey the time-rescaling law and are accurate at every scale."""
import random

import common as C
import gen
import orc


D16_SPEC = {'n_items': [['b', 4], ['c', 0]], 'model': {'kind': 'kingman'},
            'pop_sizes': {'b': {'0.0': 2.0, '3.875': 65536.0}, 'c': {'0.0': 16.0, '3.875': 16384.0}},
            'migration_rates': {'b>c': {'0.0': 0.5, '3.875': 0.125}, 'c>b': {'0.0': 0.5, '3.875': 0.5}}}


def d16_key(case, f):
    """the known finding D16: THIS configuration, first moment of the total branch length, deviation below 1e-8 relative"""
    if gen.spec_key(case['spec']) != gen.spec_key(D16_SPEC) or not str(f.get('statistic', '')).startswith('total_branch_length'):
        return None
    if f['what'] == 'moment of order 1 does not scale by c^1':
        x, y = f['expected'], f['rescaled']
    elif f['what'].startswith('mean asked after the distribution function'):
        x, y = f['original_after_cdf'] * f['c'], f['rescaled_after_cdf']
        if C.gt(abs(f['original_after_cdf'] - f['original_fresh']), 1e-12 * abs(f['original_fresh'])) or \
                C.gt(abs(f['rescaled_after_cdf'] - f['rescaled_fresh']), 1e-12 * abs(f['rescaled_fresh'])):
            return None          # a history effect is NOT the known finding
    else:
        return None
    return 'D16-rescaling-accuracy-two-deme-size-jump' if abs(x - y) <= 1e-8 * abs(x) else None


# known finding D18: a 4096-fold size increase shortly after time 0 (all sizes within [1e-3, 1e9], no warning logged): the raw third
# moments (and the variances of the spectrum) lose accuracy (5e-5 .. 1e-4 relative against a 40-digit reference)
D18_SPEC = {'n_items': [['a', 3]], 'model': {'kind': 'kingman'}, 'pop_sizes': {'a': {'0.0': 128.0, '1.5': 524288.0}}}


def d18_key(case, f):
    if gen.spec_key(case['spec']) != gen.spec_key(D18_SPEC):
        return None
    if f['what'] == 'moment of order 3 does not scale by c^3':
        x, y = f['expected'], f['rescaled']
        ok = abs(x - y) <= 1e-3 * abs(x)
    elif f['what'] == 'variances of the spectrum do not scale by c^2':
        import numpy as np
        x, y = np.array(f['original'], dtype=float) * f['c'] ** 2, np.array(f['rescaled'], dtype=float)
        ok = bool(np.all(np.abs(x - y) <= 1e-6 * np.maximum(np.abs(x), 1e-300)))
    else:
        return None
    return 'D18-third-moment-accuracy-4096-fold-size-increase' if ok else None


def known_key(case, f):
    return d16_key(case, f) or d18_key(case, f)


def run(res, replay=None):
    # structural tie of the searches on the distribution function (_update, _cum, quantile, _get_absorption_time, t_max): translate the CURRENT source and re-check proofs/GenSearchEquiv.v
    import translate_step; (res.proof is not None) and translate_step.run(res.proof, pid=res.pid, tie='search')
    # structural tie of the numeric loops _accumulate / cdf (the rescaling theorems of analysis/SourceScaling.v are about them): translate the CURRENT source and re-check proofs/GenLoopsEquiv.v
    import translate_step; (res.proof is not None) and translate_step.run(res.proof, pid=res.pid, tie='loops')
    rng = random.Random(res.seed)
    res.rule = ('scaling stream: pairs (configuration, c = 2^j) with population sizes spread over [1e-3, 1e9] (sizes '
                '2^e, e in [-9, 29]), Kingman / Beta (scaled, time scale N^(alpha-1)) / Dirac (scaled, N^2), 1-2 demes, '
                '1-2 epochs, n<=4, raw moments of order 1-3 of height and branch length, variance, median, cdf; the '
                'relation is checked at 1e-9 whenever neither run logged a numerical or horizon warning; '
                'regularize=False against the default in the moderate regime; one-population models whose oldest epoch is 2^20 times smaller than the present one (epoch contrast); non-trivial = pair that was not skipped')
    res.assumptions = ['float accuracy of the SciPy backend is observed on the generated inputs, not proved']
    npair = 10 if res.tier == 'quick' else 80
    cases = []
    if replay:
        cases = [replay['replay']['case']]
    else:
        for i in range(npair):
            moderate = i % 3 == 0
            rng2 = rng
            s = gen.rand_spec(rng2, n_total=rng.choice([2, 3, 4]), n_demes=rng.choice([1, 1, 2]), n_epochs=rng.choice([1, 2]),
                              end_time='never', size_range=(-3, 3) if moderate else (-9, 20))
            m = s['model']
            if m['kind'] != 'kingman':
                m['scale_time'] = rng.random() < 0.6
            j = rng.choice([-6, -3, -1, 1, 2, 5, 9] if not moderate else [-2, -1, 1, 2])
            # keep every size within [1e-3, 1e9] after rescaling
            c = 2.0 ** j
            cases.append({'spec': s, 'c': c, 'regularize_check': moderate})
    if not replay:
        # designed cases (independent of the random draws): every multiple-merger model, scaled and unscaled, with a size != 1
        for mdl in ({'kind': 'beta', 'alpha': 1.5, 'scale_time': False}, {'kind': 'beta', 'alpha': 1.25, 'scale_time': True},
                    {'kind': 'dirac', 'psi': 0.25, 'c': 2.0, 'scale_time': False}, {'kind': 'dirac', 'psi': 0.75, 'c': 1.0, 'scale_time': True}):
            s = {'n_items': [['a', rng.choice([3, 4])]], 'model': mdl,
                 'pop_sizes': {'a': {'0.0': rng.choice([4.0, 0.25, 16.0]), repr(rng.choice([0.5, 1.0])): rng.choice([2.0, 0.5])}}}
            cases.append({'spec': s, 'c': 2.0 ** rng.choice([-2, 3, 6]), 'regularize_check': False})
        # small NON-dyadic sizes under the scaled multiple-merger models (time scales N^2 and ~N^(alpha-1) far below 1: a time scale
        # that is rounded or clipped at some absolute precision breaks the power law only here)
        for mdl in ({'kind': 'dirac', 'psi': 0.5, 'c': 1.0, 'scale_time': True}, {'kind': 'beta', 'alpha': 1.875, 'scale_time': True}):
            s = {'n_items': [['a', 3]], 'model': mdl, 'pop_sizes': {'a': {'0.0': rng.choice([0.137, 0.0731, 0.0123])}}}
            cases.append({'spec': s, 'c': 2.0 ** rng.choice([-3, 2, 7]), 'regularize_check': False})
    if not replay:
        # large time units: sizes near the upper end of the claimed range, changes that touch only migration rates
        for i in range(3 if res.tier == 'quick' else 12):
            s = gen.rand_spec(rng, n_total=rng.choice([2, 3]), n_demes=2, n_epochs=2, end_time='never', size_range=(-2, 0),
                              kinds=('kingman',))
            s['pop_sizes'] = {p: {'0.0': d['0.0']} for p, d in s['pop_sizes'].items()}
            t1 = repr(rng.choice([0.5, 0.75, 1.25]))
            ks = list(s['migration_rates'])
            s['migration_rates'] = {ks[0]: {'0.0': 0.0625, t1: 0.5}, ks[1]: {'0.0': 0.125, t1: 0.25}}
            cases.append({'spec': s, 'c': 2.0 ** rng.choice([27, 29]), 'regularize_check': False})
        # strong contrast BETWEEN epochs of one model: large today, 2^20 times smaller in the oldest epoch (all sizes within the
        # claimed range [1e-3, 1e9]): whatever is derived from one epoch's generator (the regularisation factor) must not be
        # carried over to another epoch; second and third moments are the sensitive statistics
        for i in range(2 if res.tier == 'quick' else 8):
            n0 = 2.0 ** rng.choice([8, 10, 12])
            s = {'n_items': [['a', rng.choice([4, 5])]], 'model': {'kind': 'kingman'},
                 'pop_sizes': {'a': {'0.0': n0, repr(rng.choice([2.0, 4.0, 5.0]) * n0): n0 / 2.0 ** 20}}}
            cases.append({'spec': s, 'c': 2.0 ** rng.choice([-3, 10, 20]), 'regularize_check': True})
    if not replay:
        # designed: a large present population followed by a much smaller ancestral one (the horizon of the whole demography is
        # far shorter than that of the first epoch alone and far longer than that of the last one alone)
        for n0, n1, t1 in ((4.0, 0.25, '1.0'), (0.5, 8.0, '0.5')):
            cases.append({'spec': {'n_items': [['a', 3]], 'model': {'kind': 'kingman'}, 'pop_sizes': {'a': {'0.0': n0, t1: n1}}},
                          'c': 2.0 ** 3, 'regularize_check': False})
    # designed: DISCRETISED demographies (exponential growth; the grid of change times is computed, not given) under non-dyadic changes of
    # the time unit towards small and large units - an absolute resolution anywhere in the grid computation breaks the law only here
    if not replay:
        for kind, c in (('kingman', 1 / 317), ('beta', 1 / 53), ('dirac', 1 / 90000), ('kingman', 317.0)) if res.tier == 'quick' else \
                (('kingman', 1 / 317), ('beta', 1 / 53), ('dirac', 1 / 90000), ('kingman', 317.0), ('beta', 53.0), ('dirac', 977.0), ('kingman', 1 / 7919)):
            cases.append({'spec': {'n_items': [['pop_0', 4]], 'model': {'kind': kind}, 'pop_sizes': {'pop_0': {'0.0': 8.0}}}, 'c': c,
                          'exp_growth': kind, 'regularize_check': False})
    # deterministic probe of the known finding D16 (float accuracy of the default pipeline on one two-deme configuration with a
    # 2^15-fold size increase: the law holds to about 4e-9 only); identified by this exact configuration and statistic
    if not replay:
        cases.append({'spec': D16_SPEC, 'c': 4.0, 'regularize_check': False})
        cases.append({'spec': D18_SPEC, 'c': 32.0, 'regularize_check': False})
    results = orc.run_oracle(res, 'scaling', cases, finding_key=known_key)
    res.extra['input_distribution'] = {
        'c': sorted({c['c'] for c in cases}),
        'skipped_because_warning': sum(1 for _, r in results if isinstance(r.get('info'), dict) and 'skipped' in r['info']),
        'by_model': {k: sum(1 for c in cases if c['spec']['model']['kind'] == k) for k in ('kingman', 'beta', 'dirac')}}
