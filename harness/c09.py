"""C09 - results obey the time-rescaling law and are accurate at every scale."""
import random

import common as C
import gen
import orc


def run(res, replay=None):
    # structural tie of the searches on the distribution function (_update, _cum, quantile, _get_absorption_time, t_max): translate the CURRENT source and re-check proofs/GenSearchEquiv.v
    import translate_step; (res.proof is not None) and translate_step.run(res.proof, pid=res.pid, tie='search')
    rng = random.Random(res.seed)
    res.rule = ('scaling stream: pairs (configuration, c = 2^j) with population sizes spread over [1e-3, 1e9] (sizes '
                '2^e, e in [-9, 29]), Kingman / Beta (scaled, time scale N^(alpha-1)) / Dirac (scaled, N^2), 1-2 demes, '
                '1-2 epochs, n<=4, raw moments of order 1-3 of height and branch length, variance, median, cdf; the '
                'relation is checked at 1e-9 whenever neither run logged a numerical or horizon warning; '
                'regularize=False against the default in the moderate regime; one-population models whose oldest epoch is 2^20 times smaller than the present one (epoch contrast); non-trivial = pair that was not skipped')
    res.assumptions = ['float accuracy of the SciPy backend is observed on the generated inputs, not proved']
    npair = 10 if res.tier == 'quick' else 80
    cases = []
    if replay:
        cases = [replay['replay']['case']]
    else:
        for i in range(npair):
            moderate = i % 3 == 0
            rng2 = rng
            s = gen.rand_spec(rng2, n_total=rng.choice([2, 3, 4]), n_demes=rng.choice([1, 1, 2]), n_epochs=rng.choice([1, 2]),
                              end_time='never', size_range=(-3, 3) if moderate else (-9, 20))
            m = s['model']
            if m['kind'] != 'kingman':
                m['scale_time'] = rng.random() < 0.6
            j = rng.choice([-6, -3, -1, 1, 2, 5, 9] if not moderate else [-2, -1, 1, 2])
            # keep every size within [1e-3, 1e9] after rescaling
            c = 2.0 ** j
            cases.append({'spec': s, 'c': c, 'regularize_check': moderate})
    if not replay:
        # designed cases (independent of the random draws): every multiple-merger model, scaled and unscaled, with a size != 1
        for mdl in ({'kind': 'beta', 'alpha': 1.5, 'scale_time': False}, {'kind': 'beta', 'alpha': 1.25, 'scale_time': True},
                    {'kind': 'dirac', 'psi': 0.25, 'c': 2.0, 'scale_time': False}, {'kind': 'dirac', 'psi': 0.75, 'c': 1.0, 'scale_time': True}):
            s = {'n_items': [['a', rng.choice([3, 4])]], 'model': mdl,
                 'pop_sizes': {'a': {'0.0': rng.choice([4.0, 0.25, 16.0]), repr(rng.choice([0.5, 1.0])): rng.choice([2.0, 0.5])}}}
            cases.append({'spec': s, 'c': 2.0 ** rng.choice([-2, 3, 6]), 'regularize_check': False})
        # small NON-dyadic sizes under the scaled multiple-merger models (time scales N^2 and ~N^(alpha-1) far below 1: a time scale
        # that is rounded or clipped at some absolute precision breaks the power law only here)
        for mdl in ({'kind': 'dirac', 'psi': 0.5, 'c': 1.0, 'scale_time': True}, {'kind': 'beta', 'alpha': 1.875, 'scale_time': True}):
            s = {'n_items': [['a', 3]], 'model': mdl, 'pop_sizes': {'a': {'0.0': rng.choice([0.137, 0.0731, 0.0123])}}}
            cases.append({'spec': s, 'c': 2.0 ** rng.choice([-3, 2, 7]), 'regularize_check': False})
    if not replay:
        # large time units: sizes near the upper end of the claimed range, changes that touch only migration rates
        for i in range(3 if res.tier == 'quick' else 12):
            s = gen.rand_spec(rng, n_total=rng.choice([2, 3]), n_demes=2, n_epochs=2, end_time='never', size_range=(-2, 0),
                              kinds=('kingman',))
            s['pop_sizes'] = {p: {'0.0': d['0.0']} for p, d in s['pop_sizes'].items()}
            t1 = repr(rng.choice([0.5, 0.75, 1.25]))
            ks = list(s['migration_rates'])
            s['migration_rates'] = {ks[0]: {'0.0': 0.0625, t1: 0.5}, ks[1]: {'0.0': 0.125, t1: 0.25}}
            cases.append({'spec': s, 'c': 2.0 ** rng.choice([27, 29]), 'regularize_check': False})
        # strong contrast BETWEEN epochs of one model: large today, 2^20 times smaller in the oldest epoch (all sizes within the
        # claimed range [1e-3, 1e9]): whatever is derived from one epoch's generator (the regularisation factor) must not be
        # carried over to another epoch; second and third moments are the sensitive statistics
        for i in range(2 if res.tier == 'quick' else 8):
            n0 = 2.0 ** rng.choice([8, 10, 12])
            s = {'n_items': [['a', rng.choice([4, 5])]], 'model': {'kind': 'kingman'},
                 'pop_sizes': {'a': {'0.0': n0, repr(rng.choice([2.0, 4.0, 5.0]) * n0): n0 / 2.0 ** 20}}}
            cases.append({'spec': s, 'c': 2.0 ** rng.choice([-3, 10, 20]), 'regularize_check': True})
    if not replay:
        # designed: a large present population followed by a much smaller ancestral one (the horizon of the whole demography is
        # far shorter than that of the first epoch alone and far longer than that of the last one alone)
        for n0, n1, t1 in ((4.0, 0.25, '1.0'), (0.5, 8.0, '0.5')):
            cases.append({'spec': {'n_items': [['a', 3]], 'model': {'kind': 'kingman'}, 'pop_sizes': {'a': {'0.0': n0, t1: n1}}},
                          'c': 2.0 ** 3, 'regularize_check': False})
    results = orc.run_oracle(res, 'scaling', cases)
    res.extra['input_distribution'] = {
        'c': sorted({c['c'] for c in cases}),
        'skipped_because_warning': sum(1 for _, r in results if isinstance(r.get('info'), dict) and 'skipped' in r['info']),
        'by_model': {k: sum(1 for c in cases if c['spec']['model']['kind'] == k) for k in ('kingman', 'beta', 'dirac')}}
