"""Structural tie of phasegen/coalescent_models.py to the Coq model (second tie next to the
differential stream of C14): regenerate coq/theories/gen/CoalModelsGen.v from the CURRENT source
with /verif/translate/py2coq.py and re-check proofs/GenEquiv.v (equivalence of the generated
definitions with model/CoalModels.v and model/Validate.v) against it.

Nothing is restored afterwards: the generated file always reflects the source of the last run; a run
on the unchanged source reproduces the committed text byte for byte."""
import os
import re
import sys

import common as C

sys.path.insert(0, os.path.join(C.VERIF, 'translate'))
import py2coq  # noqa: E402

OUT = os.path.join(C.THEORIES, 'gen', 'CoalModelsGen.v')
EQUIV = os.path.join(C.THEORIES, 'proofs', 'GenEquiv.v')


def _theorem_at(path, line):
    """name of the nearest Theorem/Lemma at or before `line` of a .v file"""
    name = None
    try:
        for i, l in enumerate(open(path), 1):
            if i > line:
                break
            m = re.match(r'\s*(?:Theorem|Lemma)\s+([A-Za-z0-9_\']+)', l)
            if m:
                name = m.group(1)
    except OSError:
        pass
    return name


def _build_errors(out):
    """[(file, line, theorem or None, message)] from coqc error locations in the make output"""
    errs = []
    for m in re.finditer(r'File "([^"]+)", line (\d+), characters [^\n]*\n((?:(?!File ").*\n?){0,12})', out):
        f, line, msg = m.group(1), int(m.group(2)), m.group(3)
        if 'Error' not in msg:
            continue          # a warning location
        path = f if os.path.isabs(f) else os.path.normpath(os.path.join(C.COQ, f))
        errs.append((os.path.relpath(path, C.COQ), line, _theorem_at(path, line), ' '.join(msg.split())[:400]))
    return errs


def run(res_proof: dict) -> None:
    src = os.path.join(C.REPO, 'phasegen', 'coalescent_models.py')
    info = {'source': src, 'regenerated': False, 'changed': False, 'functions': [], 'equivalence_checked': False}
    res_proof['translator'] = info
    # (a) translate the current source
    try:
        text, funcs = py2coq.translate(open(src).read())
    except (py2coq.Unsupported, SyntaxError, OSError) as e:
        res_proof['errors'].append(
            f'translate step [py2coq]: the translator failed closed on {src}: {e} - gen/CoalModelsGen.v was not '
            'regenerated, so the equivalence theorems of proofs/GenEquiv.v do not cover this source')
        res_proof['discharged'] = 0
        return
    try:
        old = open(OUT).read()
    except OSError:
        old = None
    info['functions'] = funcs
    info['changed'] = (old != text)
    if info['changed']:           # same content: leave the file (and its .vo) alone
        tmp = OUT + f'.{os.getpid()}.tmp'
        with open(tmp, 'w') as fh:
            fh.write(text)
        os.replace(tmp, OUT)
    info['regenerated'] = True
    # (b) re-check GenEquiv.v (and whatever else depends on the generated file)
    ok, out = C.ensure_build()
    if ok:
        info['equivalence_checked'] = True
        return
    # (c) name the failing step and theorem
    errs = _build_errors(out)
    mine = [e for e in errs if e[0] in ('theories/proofs/GenEquiv.v', 'theories/gen/CoalModelsGen.v', 'theories/gen/Special.v')]
    if mine:
        for f, line, thm, msg in mine:
            if f.endswith('GenEquiv.v'):
                res_proof['errors'].append(
                    f'translate step [equivalence]: {thm or "(no theorem found)"} of proofs/GenEquiv.v no longer checks '
                    f'against the translation of {src} (line {line}: {msg})')
            else:
                res_proof['errors'].append(f'translate step [generated file]: {f} line {line} does not compile: {msg}')
        info['broken'] = [{'file': f, 'line': line, 'theorem': thm} for f, line, thm, _ in mine]
    else:
        where = '; '.join(f'{f}:{line}' for f, line, _, _ in errs) or 'no coqc error location found'
        res_proof['errors'].append(f'translate step [build]: make failed after regenerating gen/CoalModelsGen.v ({where}): '
                                   + out[-1500:])
    res_proof['discharged'] = 0
